/-
  Driver.lean — JSON-lines driver for the executable model.
  One request object per input line, one response object per output line.
  Built as a `lean_exe` (nothing it imports touches Mathlib).
-/
import Lean.Data.Json
import BumpverVerif.Model.Basic
import BumpverVerif.Model.LexId
open Lean BV

def jstr (s : Str) : Json := Json.str (String.ofList s)

def getStr (j : Json) (k : String) : Except String Str :=
  match j.getObjVal? k with
  | .ok (Json.str s) => .ok s.toList
  | _ => .error s!"missing string field {k}"

def okStr (s : Str) : Json := Json.mkObj [("ok", jstr s)]
def errStr (e : String) : Json := Json.mkObj [("err", Json.str e)]

def handle (j : Json) : Except String Json := do
  let op ← getStr j "op"
  match String.ofList op with
  | "nextid" =>
    let s ← getStr j "s"
    pure (match nextId s with | some r => okStr r | none => errStr "OverflowError")
  | "bumpbid" =>
    let s ← getStr j "s"
    pure (match bumpBid s with | some r => okStr r | none => errStr "OverflowError")
  | o => .error s!"unknown op {o}"

partial def loop (hin hout : IO.FS.Stream) : IO Unit := do
  let line ← hin.getLine
  if line.isEmpty then return ()
  let out := match Json.parse line with
    | .error e => Json.mkObj [("driver_error", Json.str e)]
    | .ok j => match handle j with
      | .ok r => r
      | .error e => Json.mkObj [("driver_error", Json.str e)]
  hout.putStrLn out.compress
  loop hin hout

def main : IO Unit := do
  let hin ← IO.getStdin
  let hout ← IO.getStdout
  loop hin hout
  hout.flush
