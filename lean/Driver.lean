/-
  Driver.lean — JSON-lines driver for the executable model.
  One request object per input line, one response object per output line.
  Built as a `lean_exe` (nothing it imports touches Mathlib).
  Op handlers live in BumpverVerif/Driver/*.lean; add a handler to `handlers`.
-/
import BumpverVerif.Driver.Common
import BumpverVerif.Driver.Core
import BumpverVerif.Driver.V2
import BumpverVerif.Driver.Rw
import BumpverVerif.Driver.Cli
import BumpverVerif.Driver.Pep
import BumpverVerif.Driver.Cal
import BumpverVerif.Driver.Config
import BumpverVerif.Driver.V1
import BumpverVerif.Driver.Update
import BumpverVerif.Driver.Prims
import BumpverVerif.Driver.UpdateV1
open Lean BV BV.Drv

def handlers : List Handler := [handleCore, handleV2, handleRw, handleCli, handlePep, handleCal, handleConfig, handleV1, handleUpdate, handlePrims, handleUpdateV1]

def handle (j : Json) : Except String Json := do
  let op ← getStr j "op"
  let name := String.ofList op
  let rec go : List Handler → Except String Json
    | [] => .error s!"unknown op {name}"
    | h :: hs => match h name j with
      | some r => r
      | none => go hs
  go handlers

partial def loop (hin hout : IO.FS.Stream) : IO Unit := do
  let line ← hin.getLine
  if line.isEmpty then return ()
  let out := match Json.parse line with
    | .error e => Json.mkObj [("driver_error", Json.str e)]
    | .ok j => match handle j with
      | .ok r => r
      | .error e => Json.mkObj [("driver_error", Json.str e)]
  hout.putStrLn out.compress
  loop hin hout

def main : IO Unit := do
  let hin ← IO.getStdin
  let hout ← IO.getStdout
  loop hin hout
  hout.flush
