/-
  Props/C02Tie.lean — THE TIE between the pattern TREE (on which the round-trip and read-back theorems of
  C02 / C15 are stated: `Pat`, `Pat.compile`, `Pat.render`, Model/PatAst.lean) and bumpver's STRING SURGERY
  (`compileRe` = escape table, bracket loop, `_iter_part_patterns`, sort by (-end, -len), right-to-left
  substitution, `re.compile`; Model/V2Patterns.lean — the faithful model of the code), proved IN GENERAL
  under the decidable, local side condition `tokSafe` (Model/PatText.lean):

    compile_tie   : tokSafe p → compileRe (Pat.text p) = Pat.compile p
    tokenize_tie  : tokSafe p → tokenize (Pat.text p) = some p          (the tree is recoverable from the text)
    format_tie    : tokSafe p → Pat.vok v p → tagCoh v → formatVersion v (Pat.text p) = .ok (Pat.render v p)

  `tokSafe p` says (all on the pattern SOURCE text, nothing is "run"):
    * literal characters are not upper-case letters, backslash, `^`, `$`; every part is in both tables; no `[]`;
    * no part name BEGINS AT A LITERAL character (`0` + `MM…`: the code would see `0M`);
    * no part name begins inside a part token and RUNS PAST ITS END (`NUM`+`MM`: the code sees `MM` at index 2);
    * every field at most once (no `_N` group suffix);
    * a part name contained in a part of the pattern (TAG in PYTAG, YY in YYYY) has the same field, or its field does
      not occur in the pattern (PYTAG … TAG would name the real TAG group `tag_1`).
  That SOME side condition is necessary is shown by `tie_needs_condition` (kernel-evaluated).

  Proof: Proofs/TokTie_*.lean.  String level `compileStr_text` (escape loop pointwise; the `while True` bracket
  loop rewrites every bare bracket on EVERY string; all occurrences found by `_iter_part_patterns` lie inside
  tokens; the dict/sort keeps every token and the right-to-left loop skips everything else); parser level
  `parse_regexText` (fuel monotonicity and tail extension of the regex parser; each table regex parses — checked by
  kernel evaluation over the REGENERATED tables).
-/
import BumpverVerif.Model.PatText
import BumpverVerif.Proofs.TokTie_Main
import BumpverVerif.Proofs.TokTie_Parse
import BumpverVerif.Proofs.TokTie_Tokenize
import BumpverVerif.Proofs.TokTie_Format
import BumpverVerif.Props.C02
namespace BV

/-- STRING LEVEL: the regex SOURCE `_compile_pattern_re` builds from the text of a `tokSafe` tree is the structural
    concatenation escaped-literal / `(?:`…`)?` / `(?P<field>table-regex)` -/
theorem compileStr_tie (p : Pat) (h : tokSafe p = true) : compileStr (Pat.text p) = Pat.regexText p :=
  compileStr_text p h

/-- PARSER LEVEL: the structural regex source parses to the structurally compiled regex -/
theorem parse_tie (p : Pat) (h : p.shapeOk = true) : parseRe (Pat.regexText p) = Pat.compile p :=
  parse_regexText p h

theorem tokSafe_shapeOk (p : Pat) (h : tokSafe p = true) : p.shapeOk = true := by
  simp only [tokSafe, Bool.and_eq_true] at h
  exact h.1.1.1

/-- THE TIE: for every `tokSafe` tree, the code's string surgery on its source text compiles to EXACTLY the regex the
    tree compiles to -/
theorem compile_tie (p : Pat) (h : tokSafe p = true) : compileRe (Pat.text p) = Pat.compile p := by
  rw [compileRe, compileStr_tie p h, parse_tie p (tokSafe_shapeOk p h)]

/-- … and that regex exists -/
theorem compile_tie_some (p : Pat) (h : tokSafe p = true) : ∃ r, compileRe (Pat.text p) = some r ∧ Pat.compile p = some r := by
  have hs := compile_isSome p (tokSafe_shapeOk p h)
  cases hc : Pat.compile p with
  | none => rw [hc] at hs; cases hs
  | some r => exact ⟨r, by rw [compile_tie p h, hc], rfl⟩

/-- the tree is recoverable from its source text by the longest-match tokeniser -/
theorem tokenize_tie (p : Pat) (h : tokSafe p = true) : tokenize (Pat.text p) = some p :=
  tokenize_text p h

/-- the tie for pattern TEXT: a text that tokenises to a `tokSafe` tree whose source text it is -/
theorem compile_tie_text (s : Str) (p : Pat) (ht : tokenize s = some p) (hs : Pat.text p = s) (h : tokSafe p = true) :
    compileRe s = Pat.compile p := by
  have _ := ht
  rw [← hs]
  exact compile_tie p h

/-- ACCEPTED IN FULL, now about the CODE's regex: `re.match` of the regex `_compile_pattern_re` builds from the
    pattern text consumes all of the rendered text (C02_accepted_in_full composed with the tie) -/
theorem C02_accepted_in_full_str (p : Pat) (v : VInfo) (hs : tokSafe p = true)
    (hwf : Pat.wf p FSet.endOnly = true) (hv : Pat.vok v p = true) :
    ∃ r, compileRe (Pat.text p) = some r ∧
      reMatch r (Pat.render v p) =
        some { start := 0, stop := (Pat.render v p).length, caps := (Pat.caps v p).reverse } := by
  obtain ⟨r, h1, h2⟩ := compile_tie_some p hs
  exact ⟨r, h1, C02_accepted_in_full p v r hwf hv h2⟩

/-- THE ROUND TRIP, now about the CODE's regex (C02_roundtrip_ast composed with the tie) -/
theorem C02_roundtrip_str (p : Pat) (v : VInfo) (today : Nat × Nat × Nat) (hs : tokSafe p = true)
    (hwf : Pat.wfTop p = true) (hv : Pat.vok v p = true) (htc : tagCoh v = true) (hc : CalReadsBack p v today) :
    ∃ r v', compileRe (Pat.text p) = some r ∧ parseWithRe r (Pat.render v p) today = .ok v' ∧
      Pat.agree v v' p = true ∧ Pat.render v' p = Pat.render v p := by
  obtain ⟨r, h1, h2⟩ := compile_tie_some p hs
  obtain ⟨v', a, b, c⟩ := C02_roundtrip_ast p v r today hwf hv htc hc h2
  exact ⟨r, v', h1, a, b, c⟩

/-- THE RENDERING TIE: `format_version`'s string surgery (`_parse_segtree`, `_format_segment_tree`, and in
    `_format_segment` the `isInfix` test per part, the un-escaping, and the sequential `str.replace` of part names by
    values, longest name first) on the source text of a `tokSafe` tree renders exactly `Pat.render`, for every record
    in the domain of the rendered parts (`Pat.vok`) that is tag/pytag-coherent (`tagCoh`: needed because `TAG` is a
    substring of `PYTAG`, so a `[PYTAG…]` group is omitted only if the TAG value is zero too) -/
theorem format_tie (p : Pat) (v : VInfo) (hs : tokSafe p = true) (hv : Pat.vok v p = true) (htc : tagCoh v = true) :
    formatVersion v (Pat.text p) = .ok (Pat.render v p) :=
  formatVersion_text p v hs hv htc

/-- a pattern text without the `{version}` / `{pep440_version}` placeholders is its own normal form -/
theorem normalizePattern_self (raw : Str) (h1 : isInfix "{version}".toList raw = false)
    (h2 : isInfix "{pep440_version}".toList raw = false) : normalizePattern raw raw = raw := by
  unfold normalizePattern
  simp only [h1, h2, Bool.false_eq_true, if_false]

/-- `parse_version_info` with the pattern text of a `tokSafe` tree reads through the TREE's regex -/
theorem parseVersionInfo_tie (p : Pat) (s : Str) (today : Nat × Nat × Nat) (r : Re) (hs : tokSafe p = true)
    (h1 : isInfix "{version}".toList (Pat.text p) = false)
    (h2 : isInfix "{pep440_version}".toList (Pat.text p) = false) (hr : Pat.compile p = some r) :
    parseVersionInfo s (Pat.text p) today = parseWithRe r s today := by
  unfold parseVersionInfo
  rw [normalizePattern_self _ h1 h2, compile_tie p hs, hr]

/-- THE ROUND TRIP ON THE CODE'S OWN FUNCTIONS: what `format_version` renders from the pattern text,
    `parse_version_info` with the same pattern text accepts in full and reads back as a record that agrees on every
    part and renders to the same text (C02_roundtrip_ast composed with the three ties) -/
theorem C02_roundtrip_code (p : Pat) (v : VInfo) (today : Nat × Nat × Nat) (hs : tokSafe p = true)
    (h1 : isInfix "{version}".toList (Pat.text p) = false)
    (h2 : isInfix "{pep440_version}".toList (Pat.text p) = false)
    (hwf : Pat.wfTop p = true) (hv : Pat.vok v p = true) (htc : tagCoh v = true) (hc : CalReadsBack p v today) :
    ∃ s v', formatVersion v (Pat.text p) = .ok s ∧ parseVersionInfo s (Pat.text p) today = .ok v' ∧
      Pat.agree v v' p = true ∧ Pat.render v' p = s := by
  obtain ⟨r, -, hr⟩ := compile_tie_some p hs
  obtain ⟨v', a, b, c⟩ := C02_roundtrip_ast p v r today hwf hv htc hc hr
  exact ⟨Pat.render v p, v', format_tie p v hs hv htc,
    by rw [parseVersionInfo_tie p _ today r hs h1 h2 hr]; exact a, b, c⟩

/-! ### non-vacuity -/

set_option maxRecDepth 100000 in
/-- every README example pattern tokenises to a `tokSafe` tree whose source text is the pattern: the tie covers all
    of them (this subsumes the kernel-evaluated `C02_readme_tree_tie`) -/
theorem C02Tie_readme_tokSafe :
    readmePatterns.all (fun s => match tokenize s.toList with
      | some p => tokSafe p && (Pat.text p == s.toList)
      | none => false) = true := by
  decide +kernel

/-- … hence for every README pattern the code's regex IS the tree's regex, by the general theorem -/
theorem C02Tie_readme (s : String) (hs : s ∈ readmePatterns) :
    ∃ p, tokenize s.toList = some p ∧ compileRe s.toList = Pat.compile p := by
  have h := List.all_eq_true.mp C02Tie_readme_tokSafe s hs
  cases ht : tokenize s.toList with
  | none => rw [ht] at h; cases h
  | some p =>
    rw [ht] at h
    simp only [Bool.and_eq_true, beq_iff_eq] at h
    exact ⟨p, rfl, compile_tie_text s.toList p ht h.2 h.1⟩

/-- nested optional groups, adjacent parts (`YYYY0M`) and escaped brackets: `vYYYY0M\[.BUILD\][-TAG[NUM]]` -/
def tieExample : Pat :=
  .lit 'v' (.part "YYYY".toList (.part "0M".toList (.lit '[' (.lit '.' (.part "BUILD".toList (.lit ']'
    (.opt (.lit '-' (.part "TAG".toList (.opt (.part "NUM".toList .done) .done))) .done)))))))

set_option maxRecDepth 100000 in
example : tokSafe tieExample = true ∧ Pat.text tieExample = "vYYYY0M\\[.BUILD\\][-TAG[NUM]]".toList := by
  refine ⟨?_, ?_⟩ <;> decide +kernel

/-- core adjacency use cases are inside `tokSafe` -/
example : ["YYYY0M", "MAJORMINOR", "PYTAGNUM", "YYYY0M0D", "INC0INC1", "GGGG0V"].all (fun s =>
    match tokenize s.toList with
    | some p => tokSafe p && (Pat.text p == s.toList)
    | none => false) = true := by
  decide +kernel

set_option maxRecDepth 100000 in
/-- the hypotheses of `format_tie` / `C02_roundtrip_code` are satisfiable: v2024.0013-beta under `vYYYY.BUILD[-TAG]` -/
example :
    let v : VInfo := { cal := (calInfo 2024 3 9).toOpt, major := 0, minor := 0, patch := 0, bid := "0013".toList,
                       tag := "beta".toList, pytag := "b".toList, num := 0, inc0 := 0, inc1 := 1 }
    (match tokenize "vYYYY.BUILD[-TAG]".toList with
     | some p => tokSafe p && (Pat.text p == "vYYYY.BUILD[-TAG]".toList) && p.wfTop && p.vok v && tagCoh v &&
                 !isInfix "{version}".toList (Pat.text p) && !isInfix "{pep440_version}".toList (Pat.text p) &&
                 (p.render v == "v2024.0013-beta".toList)
     | none => false) = true := by
  decide +kernel

/-! ### a side condition is necessary -/

/-- the tree NUM · MM has source text `NUMMM`; the code's scan for `MM` finds it at index 2 (across the token
    boundary), so its regex source is `NU(?P<month>…)M` — not the tree's regex.  `tokSafe` rejects the tree. -/
def tieCounterexample : Pat := .part "NUM".toList (.part "MM".toList .done)

set_option maxRecDepth 100000 in
theorem tie_needs_condition :
    tokSafe tieCounterexample = false ∧ Pat.text tieCounterexample = "NUMMM".toList ∧
    compileStr (Pat.text tieCounterexample) = "NU(?P<month>1[0-2]|[1-9])M".toList ∧
    (match compileRe (Pat.text tieCounterexample), Pat.compile tieCounterexample with
      | some a, some b => Re.beq a b
      | _, _ => false) = false := by
  refine ⟨?_, ?_, ?_, ?_⟩ <;> decide +kernel

end BV
