/-
  Props/C04.lean — property C04: rewriting touches nothing but the matched spans.

  "An update changes only the character spans matched by configured patterns: every other byte
   of every file - unmatched lines, text before and after a match on its line, the line-ending
   style (LF, CRLF, CR or mixed), presence or absence of a final newline, non-ASCII text - is
   preserved exactly, whatever the process locale. Files not named in the configuration are
   never written."

  Model: Model/Rewrite.lean + Model/Basic.lean (`splitOn`, `join`, `detectLineSep`).
  All theorems are structural inductions over `List Char` / `List Str`: they hold for EVERY
  content (any code point, BOM, control characters), not for fixtures.
  Runtime part (partial): that the bytes on disk are the UTF-8 encoding of the content with
  untranslated newlines depends on `open(..., newline='', encoding='utf-8')`; it is exercised
  by the check (in-process and in a subprocess under LC_ALL=C with UTF-8 mode off), not proved.
-/
import BumpverVerif.Model.Rewrite
import BumpverVerif.Proofs.RewriteLemmas
-- the functions this property's mechanism lives in are TRANSLATED from the Python source on every run (Gen/F_*.lean) and proved equal to the hand model:
import BumpverVerif.Proofs.Tie_hasOverlap
import BumpverVerif.Proofs.Tie_detectLineSep
namespace BV

/-- `sep.join(content.split(sep)) == content` for every non-empty separator and every content:
    line endings (LF, CRLF, CR, mixed), final newline or not, anything between them survives -/
theorem C04_join_split (sep s : Str) (h : sep ≠ []) : join sep (splitOn sep s) = s := by
  unfold splitOn
  rw [join_splitOnF sep h _ _ _ (Nat.lt_succ_self _)]
  rfl

/-- the detected separator is one of the three, and it is non-empty -/
theorem C04_sep_detect (s : Str) :
    (detectLineSep s = "\r\n".toList ∨ detectLineSep s = "\r".toList ∨ detectLineSep s = "\n".toList)
    ∧ detectLineSep s ≠ [] := by
  unfold detectLineSep
  split
  · exact ⟨.inl rfl, by decide⟩
  · split
    · exact ⟨.inr (.inl rfl), by decide⟩
    · exact ⟨.inr (.inr rfl), by decide⟩

/-- a rewrite keeps the number of lines … -/
theorem C04_line_count (pats : List CPat) (v : VInfo) (old new : List Str)
    (h : rewriteLines pats v old = .ok new) : new.length = old.length := by
  obtain ⟨ms, _, happ, _⟩ := rewriteLines_ok h
  exact (applyMatches_ok v _ _ _ happ).2.1

/-- … and every line without a surviving match is untouched -/
theorem C04_unmatched_lines (pats : List CPat) (v : VInfo) (old new : List Str) (ms : List PMatch)
    (hm : iterMatches old pats = some ms) (h : rewriteLines pats v old = .ok new)
    (i : Nat) (hi : ∀ m ∈ ms, m.lineno ≠ i) : new[i]? = old[i]? := by
  obtain ⟨-, -, h3⟩ := rewriteLines_line hm h
  have hnil : lineMatches ms i = [] := by
    rw [List.eq_nil_iff_forall_not_mem]
    intro m hmem
    exact hi m (mem_lineMatches.1 hmem).1 (mem_lineMatches.1 hmem).2
  rw [h3 i, hnil]
  cases old[i]? <;> rfl

/-- on a line with exactly one surviving match, the text before and after the span is kept
    verbatim and the span is replaced by the rendered pattern -/
theorem C04_single_span (pats : List CPat) (v : VInfo) (old new : List Str) (ms : List PMatch)
    (hm : iterMatches old pats = some ms) (h : rewriteLines pats v old = .ok new)
    (m : PMatch) (hmem : m ∈ ms) (honly : ∀ m' ∈ ms, m'.lineno = m.lineno → m' = m)
    (line : Str) (hl : old[m.lineno]? = some line) :
    ∃ repl, formatVersion v (normalizePattern m.pat.vp m.pat.raw) = .ok repl ∧
      new[m.lineno]? = some (line.take m.start ++ repl ++ line.drop m.stop) := by
  obtain ⟨h1, -, h3⟩ := rewriteLines_line hm h
  refine ⟨replOfL v m, h1 m hmem, ?_⟩
  rw [h3 m.lineno, hl, lineMatches_single hm m hmem honly]
  rfl

/-- whole file: if no line has a match to replace (e.g. a file whose occurrences already carry
    the text), the content is returned unchanged, whatever its line endings -/
theorem C04_content_identity (pats : List CPat) (v : VInfo) (s s' : Str)
    (hm : iterMatches (splitOn (detectLineSep s) s) pats = some [])
    (h : rewriteContent pats v s = .ok s') : s' = s := by
  unfold rewriteContent at h
  simp only at h
  split at h
  · cases h
  · rename_i newLines hnl
    cases h
    obtain ⟨ms, hms, happ, -⟩ := rewriteLines_ok hnl
    rw [hm] at hms
    cases hms
    have : newLines = splitOn (detectLineSep s) s := by
      simpa [sortMatches, applyMatches] using happ.symm
    rw [this]
    exact C04_join_split _ _ (C04_sep_detect s).2

/-- files not named in the configuration are never written, whether the update succeeds or not -/
theorem C04_other_files (fs : FS) (fps : List (Str × List CPat)) (v : VInfo) (p : Str)
    (hp : ∀ fp ∈ fps, fp.1 ≠ p) : lookup p (rewriteFiles fs fps v).1 = lookup p fs := by
  unfold rewriteFiles
  split
  · rfl
  · rename_i ws hws
    apply lookup_foldl_write
    intro w hw
    have hpaths := planWrites_paths fs v fps ws hws
    have : w.1 ∈ fps.map (·.1) := hpaths ▸ List.mem_map.2 ⟨w, hw, rfl⟩
    obtain ⟨fp, hfp, hfe⟩ := List.mem_map.1 this
    rw [← hfe]
    exact hp fp hfp

/-! non-vacuity / concrete instances (tests) -/
example : join "\r\n".toList (splitOn "\r\n".toList "a\r\nb\nc\r\n".toList) = "a\r\nb\nc\r\n".toList := by decide
example : detectLineSep "a\rb\n".toList = "\r".toList := by decide

end BV
