/-
  Props/C07.lean — property C07: literal pattern text matches only itself.

  "Everything in a search pattern that is not a part name, an unescaped square bracket or a
   leading/trailing ^/$ anchor is matched literally: the pattern finds exactly the lines
   containing that text (with `\[` and `\]` standing for brackets) and no others, whatever
   regex metacharacters the text contains."

  Model: Model/V2Patterns.lean (`escapePattern` over the GENERATED `RE_PATTERN_ESCAPES`,
  `bracketsToGroups`, `iterPartPatterns`, `substParts`, `compileStr`) and Model/Regex.lean
  (`parseRe`, `reSearch`).  The quantifier is the property's: literal text over any characters
  except upper-case ASCII letters (so no part name can occur), brackets only in escaped form;
  today also excluding backslash and `^`/`$` (known findings F-C07-backslash, F-C07-anchor:
  they are NOT in the escape table / are semantic, see `C07_table_complete`).
-/
import BumpverVerif.Model.V2Patterns
import BumpverVerif.Proofs.PatternLemmas
namespace BV

/-- the regex that matches exactly the character sequence `t` (shape produced by `parseRe`) -/
def Re.lits : Str → Re
  | [] => .eps
  | [c] => .chr c
  | c :: cs => .seq (.chr c) (Re.lits cs)

theorem Re.lits_eq_litsRe (t : Str) : Re.lits t = litsRe t := by
  induction t with
  | nil => rfl
  | cons c cs ih => cases cs <;> simp_all [Re.lits, litsRe]

/-- the characters the generated table escapes (entries for the semantic characters are skipped) -/
def escapedChars : List Char :=
  (Gen.rePatternEscapes.filter (fun ce => !(ce.1.all (fun c => "[]\\".toList.contains c) && !ce.1.isEmpty))).filterMap
    (fun ce => ce.1.head?)

def escChar (c : Char) : Str := if escapedChars.contains c then ['\\', c] else [c]

/-- shape of the regenerated table: every applied entry replaces one character `c` by `\c`,
    the characters are pairwise distinct and none is the backslash -/
theorem C07_table_shape :
    (Gen.rePatternEscapes.all (fun ce =>
        (ce.1.all (fun c => "[]\\".toList.contains c) && !ce.1.isEmpty) ||
        (match ce.1 with | [c] => ce.2 == ['\\', c] && c != '\\' | _ => false))) = true
    ∧ escapedChars.Nodup := by
  decide

/-- COMPLETENESS of the table: every regex metacharacter of Python's `re` is either one of the
    documented semantic characters (`[ ] \ ^ $`) or escaped by the table.  (This is the
    statement that fails, naming the character, when an entry is missing: e.g. `|` before the
    repair.) -/
theorem C07_table_complete :
    ∀ c ∈ ".^$*+?{}[]\\|()".toList, c ∈ "[]\\^$".toList ∨ escapedChars.contains c = true := by
  decide

/-- the sequential `str.replace` loop is a pointwise map: each character is escaped on its own,
    independently of its neighbours and of the order of the table — for EVERY string -/
theorem C07_escape_pointwise (s : Str) :
    escapePattern Gen.rePatternEscapes s = s.flatMap escChar := by
  have hbs : '\\' ∉ escapedChars := by decide
  exact (escapePattern_eq_fold Gen.rePatternEscapes C07_table_shape.1 s).trans
    (escFold_pointwise escapedChars hbs C07_table_shape.2 s)

/-- literal pattern text: any characters except upper-case letters, `^`, `$`, bare brackets and
    bare backslashes; `\[` / `\]` stand for brackets.  Returns the text it denotes. -/
def litDecode : Str → Option Str
  | [] => some []
  | '\\' :: '[' :: r => (litDecode r).map ('[' :: ·)
  | '\\' :: ']' :: r => (litDecode r).map (']' :: ·)
  | c :: r =>
    if isUpper c || c == '\\' || c == '[' || c == ']' || c == '^' || c == '$' then none
    else (litDecode r).map (c :: ·)

theorem escapedChars_eq : escapedChars = escList := by decide

theorem escChar_eq (c : Char) : escChar c = if escList.contains c then ['\\', c] else [c] := by
  simp only [escChar, escapedChars_eq]

/-- the escaped form of literal pattern text is the escaped form of the text it denotes -/
theorem litDecode_enc (p t : Str) (h : litDecode p = some t) :
    p.flatMap escChar = enc t ∧ t.all litChar = true := by
  fun_induction litDecode p generalizing t with
  | case1 => cases h; exact ⟨rfl, rfl⟩
  | case2 r ih =>
    cases hr : litDecode r with
    | none => simp [hr] at h
    | some t' =>
      simp only [hr, Option.map_some, Option.some.injEq] at h
      subst h
      obtain ⟨e, ha⟩ := ih t' hr
      have e1 : escChar '\\' = ['\\'] := by decide
      have e2 : escChar '[' = ['['] := by decide
      have e3 : encChar '[' = ['\\', '['] := by decide
      have e4 : litChar '[' = true := by decide
      refine ⟨?_, by simp only [List.all_cons, e4, ha, Bool.and_self]⟩
      simp only [List.flatMap_cons, enc_cons, e, e1, e2, e3, List.cons_append, List.nil_append]
  | case3 r ih =>
    cases hr : litDecode r with
    | none => simp [hr] at h
    | some t' =>
      simp only [hr, Option.map_some, Option.some.injEq] at h
      subst h
      obtain ⟨e, ha⟩ := ih t' hr
      have e1 : escChar '\\' = ['\\'] := by decide
      have e2 : escChar ']' = [']'] := by decide
      have e3 : encChar ']' = ['\\', ']'] := by decide
      have e4 : litChar ']' = true := by decide
      refine ⟨?_, by simp only [List.all_cons, e4, ha, Bool.and_self]⟩
      simp only [List.flatMap_cons, enc_cons, e, e1, e2, e3, List.cons_append, List.nil_append]
  | case4 => cases h
  | case5 c r _ _ hc ih =>
    cases hr : litDecode r with
    | none => simp [hr] at h
    | some t' =>
      simp only [hr, Option.map_some, Option.some.injEq] at h
      subst h
      obtain ⟨e, ha⟩ := ih t' hr
      simp only [Bool.or_eq_true, beq_iff_eq, not_or] at hc
      obtain ⟨⟨⟨⟨⟨h1, h2⟩, h3⟩, h4⟩, h5⟩, h6⟩ := hc
      have hl : litChar c = true := by simp [litChar, h1, h2, h5, h6]
      have he : escChar c = encChar c := by simp [escChar_eq, encChar, h3, h4]
      refine ⟨?_, by simp only [List.all_cons, hl, ha, Bool.and_self]⟩
      simp only [List.flatMap_cons, enc_cons, e, he]

/-- LITERAL TEXT COMPILES TO ITSELF: whatever metacharacters it contains, the regex bumpver
    builds for a literal pattern is exactly the literal-sequence regex of the denoted text -/
theorem C07_literal_compiles (p t : Str) (h : litDecode p = some t) :
    compileRe p = some (Re.lits t) := by
  obtain ⟨he, ha⟩ := litDecode_enc p t h
  rw [compileRe, compileStr, compileStrWith, C07_escape_pointwise, he, replaceParts_enc t ha,
    parseRe_enc t ha, Re.lits_eq_litsRe]

/-- the literal sequence followed by `r` (right-nested, as `parseRe` builds it) -/
def Re.litsThen : Str → Re → Re
  | [], r => r
  | c :: cs, r => .seq (.chr c) (Re.litsThen cs r)

theorem Re.litsThen_eq (t : Str) (r : Re) : Re.litsThen t r = litsThenRe t r := by
  induction t with
  | nil => rfl
  | cons c cs ih => simp [Re.litsThen, litsThenRe, ih]

/-- … and a leading `^` / trailing `$` are the anchors around it -/
theorem C07_anchored (p t : Str) (h : litDecode p = some t) :
    compileRe ('^' :: p ++ ['$']) = some (.seq .bol (Re.litsThen t .eol)) := by
  obtain ⟨he, ha⟩ := litDecode_enc p t h
  have e1 : escChar '^' = ['^'] := by decide
  have e2 : escChar '$' = ['$'] := by decide
  have hs : ('^' :: p ++ ['$']).flatMap escChar = '^' :: (enc t ++ ['$']) := by
    simp only [List.cons_append, List.flatMap_cons, List.flatMap_append, List.flatMap_nil, he, e1, e2,
      List.nil_append, List.append_nil]
  rw [compileRe, compileStr, compileStrWith, C07_escape_pointwise, hs, replaceParts_enc_anchored t ha,
    parseRe_enc_anchored t ha, Re.litsThen_eq]

/-- the literal-sequence regex finds exactly the lines containing the text: a match is an
    occurrence of `t` … -/
theorem C07_lits_match_is_occurrence (t line : Str) (m : Match)
    (h : reSearch (Re.lits t) line = some m) :
    m.stop = m.start + t.length ∧ (line.drop m.start).take t.length = t := by
  rw [reSearch, Re.lits_eq_litsRe, searchGo_litsRe] at h
  cases hf : findIdx t line with
  | none => simp [hf] at h
  | some i =>
    simp only [hf, Option.map_some, Option.some.injEq] at h
    subst h
    obtain ⟨r, hr⟩ := List.isPrefixOf_iff_prefix.mp (findIdx_some_prefix hf)
    simp [← hr]

/-- … every line containing `t` is found … -/
theorem C07_lits_finds (t line : Str) (h : isInfix t line = true) :
    (reSearch (Re.lits t) line).isSome = true := by
  rw [reSearch, Re.lits_eq_litsRe, searchGo_litsRe]
  simpa [isInfix] using h

/-- … and no other line is -/
theorem C07_lits_only (t line : Str) (h : isInfix t line = false) :
    reSearch (Re.lits t) line = none := by
  rw [reSearch, Re.lits_eq_litsRe, searchGo_litsRe]
  simpa [isInfix] using h

/-- the defect that was repaired (DESIGN.md D6): without the `|` entry, `a|b` was an alternation -/
theorem C07_pipe_witness :
    parseRe (compileStrWith (Gen.rePatternEscapes.filter (fun ce => ce.1 != ['|'])) Gen.partPatterns Gen.partFields "a|b".toList)
      = some (.alt (.chr 'a') (.chr 'b')) ∧
    compileRe "a|b".toList = some (Re.lits "a|b".toList) := by
  have w1 : compileStrWith (Gen.rePatternEscapes.filter (fun ce => ce.1 != ['|'])) Gen.partPatterns
      Gen.partFields "a|b".toList = "a|b".toList := by decide +kernel
  have w2 : parseRe "a|b".toList = some (.alt (.chr 'a') (.chr 'b')) := rfl
  exact ⟨by rw [w1, w2], C07_literal_compiles _ _ (by decide)⟩

/-! non-vacuity -/
example : litDecode "version = \"(c)*+?{}|.\\[x\\]\"".toList = some "version = \"(c)*+?{}|.[x]\"".toList := by decide

end BV
