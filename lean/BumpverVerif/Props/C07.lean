/-
  Props/C07.lean — property C07: literal pattern text matches only itself.

  "Everything in a search pattern that is not a part name, an unescaped square bracket or a
   leading/trailing ^/$ anchor is matched literally: the pattern finds exactly the lines
   containing that text (with `\[` and `\]` standing for brackets) and no others, whatever
   regex metacharacters the text contains."

  Model: Model/V2Patterns.lean (`escapePattern` over the GENERATED `RE_PATTERN_ESCAPES`,
  `bracketsToGroups`, `iterPartPatterns`, `substParts`, `compileStr`) and Model/Regex.lean
  (`parseRe`, `reSearch`).  The quantifier is the property's: literal text over any characters
  except upper-case ASCII letters (so no part name can occur), brackets only in escaped form;
  today also excluding backslash and `^`/`$` (known findings F-C07-backslash, F-C07-anchor:
  they are NOT in the escape table / are semantic, see `C07_table_complete`).
-/
import BumpverVerif.Model.V2Patterns
import BumpverVerif.Proofs.PatternLemmas
namespace BV

/-- the regex that matches exactly the character sequence `t` (shape produced by `parseRe`) -/
def Re.lits : Str → Re
  | [] => .eps
  | [c] => .chr c
  | c :: cs => .seq (.chr c) (Re.lits cs)

/-- the characters the generated table escapes (entries for the semantic characters are skipped) -/
def escapedChars : List Char :=
  (Gen.rePatternEscapes.filter (fun ce => !(ce.1.all (fun c => "[]\\".toList.contains c) && !ce.1.isEmpty))).filterMap
    (fun ce => ce.1.head?)

def escChar (c : Char) : Str := if escapedChars.contains c then ['\\', c] else [c]

/-- shape of the regenerated table: every applied entry replaces one character `c` by `\c`,
    the characters are pairwise distinct and none is the backslash -/
theorem C07_table_shape :
    (Gen.rePatternEscapes.all (fun ce =>
        (ce.1.all (fun c => "[]\\".toList.contains c) && !ce.1.isEmpty) ||
        (match ce.1 with | [c] => ce.2 == ['\\', c] && c != '\\' | _ => false))) = true
    ∧ escapedChars.Nodup := by
  sorry

/-- COMPLETENESS of the table: every regex metacharacter of Python's `re` is either one of the
    documented semantic characters (`[ ] \ ^ $`) or escaped by the table.  (This is the
    statement that fails, naming the character, when an entry is missing: e.g. `|` before the
    repair.) -/
theorem C07_table_complete :
    ∀ c ∈ ".^$*+?{}[]\\|()".toList, c ∈ "[]\\^$".toList ∨ escapedChars.contains c = true := by
  sorry

/-- the sequential `str.replace` loop is a pointwise map: each character is escaped on its own,
    independently of its neighbours and of the order of the table — for EVERY string -/
theorem C07_escape_pointwise (s : Str) :
    escapePattern Gen.rePatternEscapes s = s.flatMap escChar := by
  sorry

/-- literal pattern text: any characters except upper-case letters, `^`, `$`, bare brackets and
    bare backslashes; `\[` / `\]` stand for brackets.  Returns the text it denotes. -/
def litDecode : Str → Option Str
  | [] => some []
  | '\\' :: '[' :: r => (litDecode r).map ('[' :: ·)
  | '\\' :: ']' :: r => (litDecode r).map (']' :: ·)
  | c :: r =>
    if isUpper c || c == '\\' || c == '[' || c == ']' || c == '^' || c == '$' then none
    else (litDecode r).map (c :: ·)

/-- LITERAL TEXT COMPILES TO ITSELF: whatever metacharacters it contains, the regex bumpver
    builds for a literal pattern is exactly the literal-sequence regex of the denoted text -/
theorem C07_literal_compiles (p t : Str) (h : litDecode p = some t) :
    compileRe p = some (Re.lits t) := by
  sorry

/-- the literal sequence followed by `r` (right-nested, as `parseRe` builds it) -/
def Re.litsThen : Str → Re → Re
  | [], r => r
  | c :: cs, r => .seq (.chr c) (Re.litsThen cs r)

/-- … and a leading `^` / trailing `$` are the anchors around it -/
theorem C07_anchored (p t : Str) (h : litDecode p = some t) :
    compileRe ('^' :: p ++ ['$']) = some (.seq .bol (Re.litsThen t .eol)) := by
  sorry

/-- the literal-sequence regex finds exactly the lines containing the text: a match is an
    occurrence of `t` … -/
theorem C07_lits_match_is_occurrence (t line : Str) (m : Match)
    (h : reSearch (Re.lits t) line = some m) :
    m.stop = m.start + t.length ∧ (line.drop m.start).take t.length = t := by
  sorry

/-- … every line containing `t` is found … -/
theorem C07_lits_finds (t line : Str) (h : isInfix t line = true) :
    (reSearch (Re.lits t) line).isSome = true := by
  sorry

/-- … and no other line is -/
theorem C07_lits_only (t line : Str) (h : isInfix t line = false) :
    reSearch (Re.lits t) line = none := by
  sorry

/-- the defect that was repaired (DESIGN.md D6): without the `|` entry, `a|b` was an alternation -/
theorem C07_pipe_witness :
    parseRe (compileStrWith (Gen.rePatternEscapes.filter (fun ce => ce.1 != ['|'])) Gen.partPatterns Gen.partFields "a|b".toList)
      = some (.alt (.chr 'a') (.chr 'b')) ∧
    compileRe "a|b".toList = some (Re.lits "a|b".toList) := by
  sorry

/-! non-vacuity -/
example : litDecode "version = \"(c)*+?{}|.\\[x\\]\"".toList = some "version = \"(c)*+?{}|.[x]\"".toList := by decide

end BV
