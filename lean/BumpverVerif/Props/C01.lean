/-
  Props/C01.lean — property C01: a successful bump yields a valid, strictly greater version.

  "Whenever `bumpver test` or `bumpver update` (dry or real, automatic increment or
   --set-version) exits 0, the version it announces matches the configured version pattern in
   full and is strictly greater, under PEP 440 ordering, than the version it started from (the
   config value or the newest VCS tag, per tag scope). In every other case it exits non-zero
   and no project file is changed."

  Model: Model/Cli.lean (`gate`, `cliTest`, `cliUpdateVersion`), Model/V2Version.lean
  (`parseVersionInfo`: the first match must consume the whole string), C16's order,
  Model/Plan.lean for "no project file is changed".  For ALL patterns, versions, flag sets,
  dates and --set-version targets (the theorem does not care how the candidate was produced).
-/
import BumpverVerif.Model.Cli
import BumpverVerif.Model.Plan
import BumpverVerif.Props.C16
import BumpverVerif.Props.C10
import BumpverVerif.Proofs.CliLemmas
namespace BV

/-- "matches the pattern in full": the compiled regex's first match consumes the whole string -/
def FullMatch (pat s : Str) : Prop :=
  ∃ r m, compileRe (normalizePattern pat pat) = some r ∧ reMatch r s = some m ∧ m.stop = s.length

theorem C01_parse_is_full_match (s pat : Str) (today : Nat × Nat × Nat) (v : VInfo)
    (h : parseVersionInfo s pat today = .ok v) : FullMatch pat s := by
  unfold parseVersionInfo at h
  generalize hc : compileRe (normalizePattern pat pat) = oc at h
  cases oc with
  | none => cases h
  | some r =>
    simp only [parseWithRe] at h
    generalize hm : reMatch r s = om at h
    cases om with
    | none => cases h
    | some m =>
      simp only at h
      split at h
      · cases h
      · rename_i hlt
        have hstop : m.stop ≤ s.length := by
          unfold reMatch at hm
          split at hm
          · injection hm with hm
            subst hm
            exact Nat.sub_le _ _
          · cases hm
        exact ⟨r, m, hc, hm, by omega⟩

/-- THE GATE: acceptance means full match and strictly greater -/
theorem C01_gate_sound (pat old new : Str) (unique : Bool) (tags : List Str) (today : Nat × Nat × Nat)
    (h : gate pat old new unique tags today = .ok .accept) :
    FullMatch pat new ∧ pepLt old new = true := by
  obtain ⟨⟨v, hv⟩, hle, -⟩ := gate_accept h
  exact ⟨C01_parse_is_full_match new pat today v hv, pepLt_of_not_le hle⟩

/-- a candidate that is not strictly greater is never accepted — including PEP 440-equal but
    textually different ones (1.2 vs 1.2.0), equal ones and tag downgrades -/
theorem C01_not_greater_rejected (pat old new : Str) (unique : Bool) (tags : List Str)
    (today : Nat × Nat × Nat) (h : pepLe new old = true) :
    gate pat old new unique tags today ≠ .ok .accept := by
  intro hacc
  have hle := (gate_accept hacc).2.1
  rw [h] at hle
  cases hle

/-- `bumpver test`: an announced version matches in full, is strictly greater than the version
    given, and the PEP 440 line is its canonical form -/
theorem C01_test_sound (old pat : Str) (fl : IncrFlags) (dg : Bool) (date today : Nat × Nat × Nat)
    (sv : Option Str) (new pep : Str)
    (h : cliTest old pat fl dg date today sv = .announce new pep) :
    FullMatch pat new ∧ pepLt old new = true ∧ pep = verStr (parseVersion new) := by
  obtain ⟨hgate, hpep⟩ := cliTest_announce h
  obtain ⟨hfull, hlt⟩ := C01_gate_sound pat old new false [] today hgate
  exact ⟨hfull, hlt, hpep⟩

/-- `bumpver update`: an announced version matches in full and is strictly greater than the start
    version, which is the config value or the newest matching tag per scope (C09) -/
theorem C01_update_sound (scope : TagScope) (ign : Bool) (pat cfgv : Str) (fl : IncrFlags) (dg : Bool)
    (date today : Nat × Nat × Nat) (sv : Option Str) (scopeTags globalTags : List Str)
    (new pep start : Str)
    (h : cliUpdateVersion scope ign pat cfgv fl dg date today sv scopeTags globalTags = (.announce new pep, start)) :
    FullMatch pat new ∧ pepLt start new = true ∧
    (if ign then start = cfgv else startVersion scope pat cfgv today scopeTags = .ok start) := by
  obtain ⟨hstart, hgate⟩ := cliUpdateVersion_announce h
  obtain ⟨hfull, hlt⟩ := C01_gate_sound pat start new _ globalTags today hgate
  refine ⟨hfull, hlt, ?_⟩
  cases ign
  · simpa using hstart
  · simp only [if_true, Except.ok.injEq] at hstart
    simp [hstart]

/-- in every other case the exit code is non-zero (the outcome type has no other success) … -/
theorem C01_otherwise_nonzero (o : CliOutcome) (h : ∀ n p, o ≠ .announce n p) :
    o = .exit1 ∨ ∃ e, o = .crash e := by
  cases o with
  | announce n p => exact absurd rfl (h n p)
  | exit1 => exact .inl rfl
  | crash e => exact .inr ⟨e, rfl⟩

/-- when the gate rejects, `plan` stops right after listing the tags: exit code 1 and only the
    read-only events of `get_tags` in the trace -/
private theorem plan_gate_rejected (c : PlanCfg) (a : PlanCli) (e : PlanEnv) (hg : e.gateOk = false)
    (r : List Ev × Nat) (h : plan c a e = r) : r.2 = 1 ∧ ∀ ev ∈ r.1, TagEv a.fetch ev := by
  unfold plan at h
  split at h
  · subst h
    simp
  rename_i c' hc'
  extract_lets s0 at h
  split at h
  rename_i s1 o1 h1
  have e1 : EvExt (TagEv a.fetch) [] s1.evs := by
    split at h1
    · simp only [Prod.mk.injEq] at h1
      rw [← h1.1]
      exact .refl _
    · have := getTags_ext e a.fetch c'.scopeBranch s0
      rw [h1] at this
      exact this
  have hr : r = (s1.evs.reverse, 1) := by
    split at h
    · exact h.symm
    · simp only [hg, Bool.not_false, if_true] at h
      exact h.symm
  subst hr
  obtain ⟨T, hT, hm⟩ := e1
  refine ⟨rfl, fun ev hev => ?_⟩
  simp only [List.mem_reverse] at hev
  rw [hT] at hev
  simp only [List.append_nil] at hev
  exact hm ev hev

/-- … and no project file is changed: without an accepted version the update never reaches the
    rewrite step, runs no hook and no mutating VCS command (Model/Plan.lean) -/
theorem C01_rejected_no_rewrite (c : PlanCfg) (a : PlanCli) (e : PlanEnv) (hg : e.gateOk = false) :
    (plan c a e).2 = 1 ∧ ∀ ev ∈ (plan c a e).1, ev ≠ .rewrite ∧ ev.mutating = false ∧ ev.isHook = false := by
  obtain ⟨hcode, hall⟩ := plan_gate_rejected c a e hg _ rfl
  refine ⟨hcode, fun ev hev => ?_⟩
  rcases hall ev hev with rfl | rfl | rfl | ⟨-, rfl | rfl | rfl⟩ <;>
    simp [Ev.mutating, Ev.isHook]

end BV
