/-
  Props/C11.lean — property C11: uncommitted changes are never swept into the bump commit.

  "When committing, `update` aborts before modifying any file if the working tree has
   uncommitted changes, unless --allow-dirty is given; even with --allow-dirty it aborts if
   any file carrying a version pattern has uncommitted changes (staged, unstaged or
   untracked). Untracked files that carry no pattern never block an update."

  Model: `statusParse` / `assertNotDirty` (Model/Vcs.lean) = `VCSAPI.status` +
  `vcs.assert_not_dirty` after the D9 repair (lines are stripped before the status code is
  split off).  The theorem quantifies over EVERY two-character status code git's porcelain
  v1 format can print and every path git prints verbatim; paths that git C-quotes
  (blanks, quotes, non-ASCII) and `old -> new` rename lines are outside `PLine.wf`
  (known finding F-C11-quoted).  That the abort happens before any file is modified is the
  step order of `_update` (C10).
-/
import BumpverVerif.Model.Vcs
import BumpverVerif.Proofs.VcsLemmas
namespace BV

/-- one line of `git status --porcelain` (v1): `XY path` -/
structure PLine where
  x : Char
  y : Char
  path : Str

/-- the status letters of porcelain v1 (and blank) -/
def statusChar (c : Char) : Bool :=
  c == ' ' || c == 'M' || c == 'A' || c == 'D' || c == 'R' || c == 'C' || c == 'U' ||
  c == '?' || c == '!' || c == 'T'

/-- documented shape: two status characters, not both blank; the path is printed verbatim,
    i.e. it is non-empty, has no blank or line break anywhere (git C-quotes such paths). -/
def PLine.wf (l : PLine) : Bool :=
  statusChar l.x && statusChar l.y && !(l.x == ' ' && l.y == ' ') &&
  !l.path.isEmpty && l.path.all (fun c => !isPySpace c)

def PLine.render (l : PLine) : Str := l.x :: l.y :: ' ' :: l.path

def PLine.untracked (l : PLine) : Bool := l.x == '?' && l.y == '?'

/-! glue between `PLine` and the generic lemmas of Proofs/VcsLemmas.lean -/

private theorem statusChar_cases {c : Char} (h : statusChar c = true) :
    c = ' ' ∨ isPySpace c = false := by
  simp only [statusChar, Bool.or_eq_true, beq_iff_eq, or_assoc] at h
  rcases h with rfl | rfl | rfl | rfl | rfl | rfl | rfl | rfl | rfl | rfl <;>
    first | exact Or.inl rfl | exact Or.inr (by decide)

private theorem wf_hyps (ls : List PLine) (hwf : ∀ l ∈ ls, l.wf = true) :
    ∀ l ∈ ls, (l.x = ' ' ∨ isPySpace l.x = false) ∧ (l.y = ' ' ∨ isPySpace l.y = false)
      ∧ ¬ (l.x = ' ' ∧ l.y = ' ') ∧ l.path ≠ [] ∧ ∀ c ∈ l.path, isPySpace c = false := by
  intro l hl
  have h := hwf l hl
  simp only [PLine.wf, Bool.and_eq_true, Bool.not_eq_true', Bool.and_eq_false_iff,
    beq_eq_false_iff_ne, List.all_eq_true, List.isEmpty_eq_false_iff] at h
  obtain ⟨⟨⟨⟨h1, h2⟩, h3⟩, h4⟩, h5⟩ := h
  refine ⟨statusChar_cases h1, statusChar_cases h2, ?_, h4, h5⟩
  rintro ⟨hx, hy⟩
  rcases h3 with h3 | h3 <;> simp_all

/-- the verdict in closed form -/
private theorem verdict_eq (ls : List PLine) (hwf : ∀ l ∈ ls, l.wf = true)
    (files : List Str) (allowDirty : Bool) :
    assertNotDirty (ls.map PLine.render) files allowDirty =
      if (!allowDirty && ls.any (fun l => files.contains l.path || !l.untracked))
          || ls.any (fun l => files.contains l.path)
      then .abort else .proceed :=
  assertNotDirty_porcelain files PLine.x PLine.y PLine.path ls allowDirty (wf_hyps ls hwf)

/-- the decision rule of the README, for every porcelain status -/
theorem C11_decision (ls : List PLine) (hwf : ∀ l ∈ ls, l.wf = true)
    (files : List Str) (allowDirty : Bool) :
    assertNotDirty (ls.map PLine.render) files allowDirty = .abort ↔
      ((allowDirty = false ∧ ∃ l ∈ ls, ¬ (l.untracked = true ∧ l.path ∉ files))
       ∨ (∃ l ∈ ls, l.path ∈ files)) := by
  rw [verdict_eq ls hwf]
  have hb : ∀ b : Bool, ((if b = true then DirtyVerdict.abort else .proceed) = .abort) ↔ b = true := by
    intro b; cases b <;> simp
  rw [hb]
  cases allowDirty <;>
    simp only [Bool.not_true, Bool.not_false, Bool.false_and, Bool.true_and, Bool.false_or,
      Bool.or_eq_true, List.any_eq_true, List.contains_iff_mem, Bool.not_eq_true',
      false_and, true_and, false_or, reduceCtorEq]
  have he : ∀ l : PLine, (l.path ∈ files ∨ l.untracked = false)
      ↔ ¬(l.untracked = true ∧ ¬ l.path ∈ files) := by
    intro l; cases l.untracked <;> simp
  simp only [he]

/-- … and it never crashes on documented status lines: the only other outcome is `proceed` -/
theorem C11_no_crash (ls : List PLine) (hwf : ∀ l ∈ ls, l.wf = true)
    (files : List Str) (allowDirty : Bool) :
    assertNotDirty (ls.map PLine.render) files allowDirty ≠ .crash := by
  rw [verdict_eq ls hwf]
  split <;> simp

/-- a dirty pattern file always aborts, with or without --allow-dirty, whatever its status
    (staged, unstaged, both, added, deleted, untracked …) -/
theorem C11_pattern_file_always_blocks (ls : List PLine) (hwf : ∀ l ∈ ls, l.wf = true)
    (files : List Str) (allowDirty : Bool) (l : PLine) (hl : l ∈ ls) (hp : l.path ∈ files) :
    assertNotDirty (ls.map PLine.render) files allowDirty = .abort :=
  (C11_decision ls hwf files allowDirty).2 (Or.inr ⟨l, hl, hp⟩)

/-- untracked files that carry no pattern never block -/
theorem C11_untracked_unrelated_never_blocks (ls : List PLine) (hwf : ∀ l ∈ ls, l.wf = true)
    (files : List Str) (allowDirty : Bool)
    (hu : ∀ l ∈ ls, l.untracked = true ∧ l.path ∉ files) :
    assertNotDirty (ls.map PLine.render) files allowDirty = .proceed := by
  have h1 := C11_no_crash ls hwf files allowDirty
  have h2 : assertNotDirty (ls.map PLine.render) files allowDirty ≠ .abort := by
    rw [Ne, C11_decision ls hwf files allowDirty]
    rintro (⟨_, l, hl, h⟩ | ⟨l, hl, h⟩)
    · exact h (hu l hl)
    · exact (hu l hl).2 h
  cases h : assertNotDirty (ls.map PLine.render) files allowDirty <;> simp_all

/-- a clean tree never blocks -/
theorem C11_clean (files : List Str) (allowDirty : Bool) :
    assertNotDirty [] files allowDirty = .proceed := by
  cases allowDirty <;> rfl

/-! the defect that was repaired (DESIGN.md D9): an unstaged modification is printed as
    `" M a.txt"`; the pre-repair parser split on the FIRST blank, saw status `""` and path
    `"M a.txt"`, so with --allow-dirty the edit of a pattern file was swept into the commit.
    With the repaired parser the witness aborts: -/
theorem C11_unstaged_pattern_file_witness :
    assertNotDirty [" M a.txt".toList] ["a.txt".toList] true = .abort := by decide +kernel

/-! non-vacuity -/
example : (PLine.mk ' ' 'M' "a.txt".toList).wf = true := by decide
example : (PLine.mk '?' '?' "notes.md".toList).wf = true ∧ (PLine.mk '?' '?' "notes.md".toList).untracked = true := by decide
example : (PLine.mk 'M' 'M' "src/x.py".toList).render = "MM src/x.py".toList := by decide

end BV
