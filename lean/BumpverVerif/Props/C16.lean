/-
  Props/C16.lean — property C16: version comparison is a total order that agrees with PEP 440.

  "The comparison used to pick the newest tag and to gate new versions is a total preorder on
   all strings (reflexive, transitive, total, with equality exactly when keys are equal),
   orders every pair of PEP 440-valid strings exactly as PEP 440 prescribes and prints them in
   PEP 440 canonical form, and places every non-PEP 440 string below every PEP 440 one."

  Model: Model/Pep440.lean (`parseVersion` = `setuptools_v65_version.parse`, `verStr` = `str`,
  `keyOf`/`cmpKey` = comparison of the `_key` tuples, `verLe`/`verLt`/`verEqKey` = `<=`/`<`/`==`),
  tied to the code by ops `pep_parse`, `pep_str`, `pep_cmp`.
  Helper lemmas: Proofs/Pep440Lemmas.lean. This file holds the independent specification
  `Pep440Spec` (written from the text of PEP 440), the property theorems, and the few bridge
  lemmas that mention the specification (they cannot live in Proofs/, which this file imports).
-/
import BumpverVerif.Model.Pep440
import BumpverVerif.Proofs.Pep440Lemmas
-- the functions this property's mechanism lives in are TRANSLATED from the Python source on every run (Gen/F_*.lean) and proved equal to the hand model:
import BumpverVerif.Proofs.Tie_parseLetterVersion
namespace BV

/-! ## (a) "a total preorder on all strings (reflexive, transitive, total, with equality
        exactly when keys are equal)"

The laws hold for `cmpKey` on ALL keys, hence for every parsed value, hence for the
parse of every string; they do not depend on the parser. -/

/-- antisymmetry of the three-way comparison: `a < b` exactly when `b > a` -/
theorem C16_cmp_antisymm (k k' : Key) : cmpKey k k' = .lt ↔ cmpKey k' k = .gt :=
  lawful_cmpKey.lt_iff_gt k k'

/-- the three-way comparison answers `.eq` exactly on equal keys -/
theorem C16_cmp_eq_iff (k k' : Key) : cmpKey k k' = .eq ↔ k = k' := lawful_cmpKey.eq_iff k k'

/-- "reflexive" -/
theorem C16_refl (a : Parsed) : verLe a a = true := by
  simp [verLe, lawful_cmpKey.refl]

/-- "transitive" -/
theorem C16_trans (a b c : Parsed) (hab : verLe a b = true) (hbc : verLe b c = true) :
    verLe a c = true := by
  simp only [verLe, bne_iff_ne, ne_eq] at *
  exact lawful_cmpKey.le_trans _ _ _ hab hbc

/-- "total" -/
theorem C16_total (a b : Parsed) : verLe a b = true ∨ verLe b a = true := by
  simp only [verLe, bne_iff_ne, ne_eq]
  exact lawful_cmpKey.le_total _ _

/-- `<` is the strict part of `<=` -/
theorem C16_lt_iff (a b : Parsed) : verLt a b = true ↔ (verLe a b = true ∧ ¬ verLe b a = true) := by
  simp only [verLt, verLe, bne_iff_ne, ne_eq, beq_iff_eq, Decidable.not_not]
  rw [lawful_cmpKey.swap (keyOf a) (keyOf b)]
  cases cmpKey (keyOf a) (keyOf b) <;> simp [Ordering.swap]

/-- "with equality exactly when keys are equal" -/
theorem C16_eq_iff_key_eq (a b : Parsed) :
    (verLe a b = true ∧ verLe b a = true) ↔ keyOf a = keyOf b := by
  simp only [verLe, bne_iff_ne, ne_eq]
  rw [← lawful_cmpKey.eq_iff, lawful_cmpKey.swap (keyOf a) (keyOf b)]
  cases cmpKey (keyOf a) (keyOf b) <;> simp [Ordering.swap]

/-- `==` is equality of keys -/
theorem C16_eqKey_iff (a b : Parsed) : verEqKey a b = true ↔ keyOf a = keyOf b := by
  simp only [verEqKey, beq_iff_eq]
  exact lawful_cmpKey.eq_iff _ _

/-- the laws on strings, through `parse` -/
theorem C16_strings (s t u : Str) :
    verLe (parseVersion s) (parseVersion s) = true ∧
    (verLe (parseVersion s) (parseVersion t) = true → verLe (parseVersion t) (parseVersion u) = true →
      verLe (parseVersion s) (parseVersion u) = true) ∧
    (verLe (parseVersion s) (parseVersion t) = true ∨ verLe (parseVersion t) (parseVersion s) = true) :=
  ⟨C16_refl _, C16_trans _ _ _, C16_total _ _⟩

/-! ## (d) "places every non-PEP 440 string below every PEP 440 one" -/

theorem C16_legacy_below (orig : Str) (parts : List Str) (v : PepVersion) :
    verLt (.legacy orig parts) (.pep v) = true ∧ verLe (.pep v) (.legacy orig parts) = false := by
  constructor <;> rfl

/-- on strings: a string that is not PEP 440-valid sorts strictly below every valid one -/
theorem C16_legacy_below_strings (s t : Str) (hs : parsePep s = none) (v : PepVersion)
    (ht : parsePep t = some v) : verLt (parseVersion s) (parseVersion t) = true := by
  simp only [parseVersion, hs, ht]
  rfl

/-! ## (b) "orders every pair of PEP 440-valid strings exactly as PEP 440 prescribes"

`Pep440Spec` is an independent statement of the PEP 440 order, written from the text of the PEP
and deliberately shaped differently from the implementation: release segments are padded with
zeros (the code strips trailing zeros), the suffixes are ordered by explicit phases and nested
rules (the code uses `±Infinity` sentinels in a flat tuple), local versions by "first differing
segment or proper prefix" (the code wraps segments into pairs with a sentinel). -/

namespace Pep440Spec

/-- component `i` of a release segment; PEP 440: "the shorter segment is padded out with
    additional zeros as necessary" -/
def comp (r : List Nat) (i : Nat) : Nat := r.getD i 0

/-- equal release segments (after padding) -/
def relEq (r s : List Nat) : Prop := ∀ i, comp r i = comp s i

/-- release segments compare as tuples: the first differing component decides -/
def relLt (r s : List Nat) : Prop := ∃ i, (∀ j, j < i → comp r j = comp s j) ∧ comp r i < comp s i

/-- PEP 440: "Within a numeric release (1.0, 2.7.3), the following suffixes are permitted and
    MUST be ordered as shown: .devN, aN, bN, rcN, <no suffix>, .postN" -/
inductive Phase where
  | dev | a | b | rc | final | post
  deriving DecidableEq, Repr

def Phase.rank : Phase → Nat
  | .dev => 0 | .a => 1 | .b => 2 | .rc => 3 | .final => 4 | .post => 5

/-- the main suffix of a version: its pre-release letter if it has one; otherwise `.postN` if it
    has one; otherwise `.devN` if it has one; otherwise none (a final release) -/
def phase (v : PepVersion) : Phase :=
  match v.pre, v.post, v.dev with
  | some (l, _), _, _ => if l = ['a'] then .a else if l = ['b'] then .b else .rc
  | none, some _, _ => .post
  | none, none, some _ => .dev
  | none, none, none => .final

/-- the number of a segment ("ordering MUST be by the value of the numeric component") -/
def num : Option Nat → Nat
  | some n => n
  | none => 0

def preNum (v : PepVersion) : Nat :=
  match v.pre with
  | some (_, n) => n
  | none => 0

/-- PEP 440: "Within a post-release (1.0.post1), the following suffixes are permitted and MUST be
    ordered as shown: .devN, <no suffix>" -/
def devLt : Option Nat → Option Nat → Prop
  | some n, some m => n < m
  | some _, none => True
  | none, _ => False

/-- PEP 440: "Within an alpha (1.0a1), beta (1.0b1), or release candidate (1.0rc1, 1.0c1), the
    following suffixes are permitted and MUST be ordered as shown: .devN, <no suffix>, .postN";
    two post-releases of it are ordered by number, then as within a post-release.
    Arguments: post and dev of the left version, post and dev of the right one. -/
def tailLt : Option Nat → Option Nat → Option Nat → Option Nat → Prop
  | none, d, none, d' => devLt d d'
  | none, _, some _, _ => True
  | some _, _, none, _ => False
  | some p, d, some p', d' => p < p' ∨ (p = p' ∧ devLt d d')

/-- order of the suffixes of two versions with equal epoch and release -/
def suffixLt (v w : PepVersion) : Prop :=
  (phase v).rank < (phase w).rank ∨
  (phase v = phase w ∧
    match phase v with
    | .dev => num v.dev < num w.dev
    | .final => False
    | .post => num v.post < num w.post ∨ (num v.post = num w.post ∧ devLt v.dev w.dev)
    | _ => preNum v < preNum w ∨ (preNum v = preNum w ∧ tailLt v.post v.dev w.post w.dev))

/-- the same public version apart from epoch and release -/
def suffixEq (v w : PepVersion) : Prop := v.pre = w.pre ∧ v.post = w.post ∧ v.dev = w.dev

/-- PEP 440 on local version segments: numeric segments compare as integers, other segments
    lexicographically, and "the numeric section always compares as greater than the
    lexicographic segment" -/
def segLt : LocalSeg → LocalSeg → Prop
  | .num n, .num m => n < m
  | .str s, .str t => strLt s t = true
  | .str _, .num _ => True
  | .num _, .str _ => False

/-- a version without local segment sorts before the same version with one; two local versions:
    first differing segment decides, and "a local version with a great number of segments will
    always compare as greater than a local version with fewer segments, as long as the shorter
    local version's segments match the beginning of the longer local version's segments exactly" -/
def localLt : Option (List LocalSeg) → Option (List LocalSeg) → Prop
  | none, none => False
  | none, some _ => True
  | some _, none => False
  | some a, some b =>
    (∃ p x y a' b', a = p ++ x :: a' ∧ b = p ++ y :: b' ∧ segLt x y) ∨ (∃ y t, b = a ++ y :: t)

/-- PEP 440 order of two (normalised) versions: epoch; release; suffixes; local segment -/
def lt (v w : PepVersion) : Prop :=
  v.epoch < w.epoch ∨ (v.epoch = w.epoch ∧
    (relLt v.release w.release ∨ (relEq v.release w.release ∧
      (suffixLt v w ∨ (suffixEq v w ∧ localLt v.loc w.loc)))))

end Pep440Spec

/-! ### bridge lemmas (they mention the specification, so they live here) -/

open Pep440Spec

theorem bridge_seg (x y : LocalSeg) : cmpSeg x y = .lt ↔ segLt x y := by
  cases x <;> cases y <;> simp [cmpSeg, segLt, cmpNat_lt, cmpStr_lt_iff_strLt]

theorem bridge_local (v w : PepVersion) :
    cmpExt (cmpList cmpSeg) (locKeyOf v) (locKeyOf w) = .lt ↔ localLt v.loc w.loc := by
  unfold locKeyOf
  cases hv : v.loc with
  | none => cases hw : w.loc <;> simp [cmpExt, localLt]
  | some a =>
    cases hw : w.loc with
    | none => simp [cmpExt, localLt]
    | some b =>
      simp only [cmpExt, localLt]
      rw [cmpList_lt_iff lawful_cmpSeg]
      simp only [bridge_seg]

theorem bridge_tail_lt (v w : PepVersion) :
    (cmpExt cmpNat (postKeyOf v) (postKeyOf w)).then (cmpExt cmpNat (devKeyOf v) (devKeyOf w)) = .lt
      ↔ tailLt v.post v.dev w.post w.dev := by
  obtain ⟨e, r, pre, p, d, loc⟩ := v
  obtain ⟨e', r', pre', p', d', loc'⟩ := w
  cases p <;> cases d <;> cases p' <;> cases d' <;>
    simp [postKeyOf, devKeyOf, cmpExt, tailLt, devLt, Ordering.then_eq_lt, cmpNat_lt, cmpNat_eq]

theorem bridge_tail_eq (v w : PepVersion) :
    (cmpExt cmpNat (postKeyOf v) (postKeyOf w)).then (cmpExt cmpNat (devKeyOf v) (devKeyOf w)) = .eq
      ↔ v.post = w.post ∧ v.dev = w.dev := by
  obtain ⟨e, r, pre, p, d, loc⟩ := v
  obtain ⟨e', r', pre', p', d', loc'⟩ := w
  cases p <;> cases d <;> cases p' <;> cases d' <;>
    simp [postKeyOf, devKeyOf, cmpExt, Ordering.then_eq_eq, cmpNat_eq]

set_option linter.unusedSimpArgs false in
/-- the three sentinel tricks of `_cmpkey` against the explicit phases of the specification -/
theorem bridge_suffix_lt (v w : PepVersion) (hv : WfPre v) (hw : WfPre w) :
    (cmpExt cmpLetNum (preKeyOf v) (preKeyOf w)).then
      ((cmpExt cmpNat (postKeyOf v) (postKeyOf w)).then (cmpExt cmpNat (devKeyOf v) (devKeyOf w))) = .lt
      ↔ suffixLt v w := by
  obtain ⟨e, r, pre, post, dev, loc⟩ := v
  obtain ⟨e', r', pre', post', dev', loc'⟩ := w
  simp only [WfPre] at hv hw
  obtain ⟨ha, hb, hc, hd, he, hf, hg, hh, hi⟩ := bridge_letters
  cases pre with
  | none =>
    cases pre' with
    | none =>
      cases post <;> cases dev <;> cases post' <;> cases dev' <;>
        simp [preKeyOf, postKeyOf, devKeyOf, cmpExt, suffixLt, phase, Phase.rank, num, devLt,
          Ordering.then_eq_lt, cmpNat_lt, cmpNat_eq]
    | some q =>
      obtain ⟨l', n'⟩ := q
      rcases hw l' n' rfl with rfl | rfl | rfl <;>
      cases post <;> cases dev <;>
        simp [preKeyOf, postKeyOf, devKeyOf, cmpExt, suffixLt, phase, Phase.rank, num, devLt,
          Ordering.then_eq_lt, cmpNat_lt, cmpNat_eq]
  | some q =>
    obtain ⟨l, n⟩ := q
    cases pre' with
    | none =>
      rcases hv l n rfl with rfl | rfl | rfl <;>
      cases post' <;> cases dev' <;>
        simp [preKeyOf, postKeyOf, devKeyOf, cmpExt, suffixLt, phase, Phase.rank, num, devLt,
          Ordering.then_eq_lt, cmpNat_lt, cmpNat_eq]
    | some q' =>
      obtain ⟨l', n'⟩ := q'
      rw [Ordering.then_eq_lt, bridge_tail_lt]
      rcases hv l n rfl with rfl | rfl | rfl <;> rcases hw l' n' rfl with rfl | rfl | rfl <;>
        simp [preKeyOf, cmpExt, cmpLetNum, suffixLt, phase, Phase.rank, preNum, *,
          Ordering.then_eq_lt, Ordering.then_eq_eq, cmpNat_lt, cmpNat_eq]

theorem bridge_suffix_eq (v w : PepVersion) (hv : WfPre v) (hw : WfPre w) :
    (cmpExt cmpLetNum (preKeyOf v) (preKeyOf w)).then
      ((cmpExt cmpNat (postKeyOf v) (postKeyOf w)).then (cmpExt cmpNat (devKeyOf v) (devKeyOf w))) = .eq
      ↔ suffixEq v w := by
  obtain ⟨e, r, pre, post, dev, loc⟩ := v
  obtain ⟨e', r', pre', post', dev', loc'⟩ := w
  rw [Ordering.then_eq_eq, bridge_tail_eq]
  simp only [suffixEq]
  have hk : preKeyOf ⟨e, r, pre, post, dev, loc⟩ = preKeyOf ⟨e', r', pre', post', dev', loc'⟩ →
      post = post' → dev = dev' → pre = pre' := by
    intro h hp hd
    subst hp hd
    cases pre <;> cases pre' <;> cases post <;> cases dev <;> simp_all [preKeyOf]
  constructor
  · rintro ⟨h1, h2, h3⟩
    have := ((lawful_cmpExt lawful_cmpLetNum).eq_iff _ _).mp h1
    exact ⟨hk this h2 h3, h2, h3⟩
  · rintro ⟨h1, h2, h3⟩
    subst h1 h2 h3
    exact ⟨(lawful_cmpExt lawful_cmpLetNum).refl _, rfl, rfl⟩

/-! ### the agreement theorem -/

/-- "orders every pair of PEP 440-valid strings exactly as PEP 440 prescribes": on well-formed
    versions (`wfPep`: what the parser produces, see `C16_parse_wf`) the key comparison answers
    `.lt` exactly when the specification says "smaller". Together with `C16_cmp_antisymm` and
    `C16_cmp_eq_iff` this fixes all three answers. -/
theorem C16_agrees (v w : PepVersion) (hv : wfPep v = true) (hw : wfPep w = true) :
    cmpKey (keyOf (.pep v)) (keyOf (.pep w)) = .lt ↔ Pep440Spec.lt v w := by
  have hv' := WfPre_of_wfPep v hv
  have hw' := WfPre_of_wfPep w hw
  simp only [keyOf, pepKey, cmpKey]
  rw [then_assoc4 (cmpExt cmpLetNum (preKeyOf v) (preKeyOf w)), Ordering.then_eq_lt, Ordering.then_eq_lt,
    Ordering.then_eq_lt, cmpNat_lt, cmpNat_eq,
    cmp_release_lt_iff, cmp_release_eq_iff, bridge_suffix_lt v w hv' hw', bridge_suffix_eq v w hv' hw',
    bridge_local]
  rfl

/-- every PEP 440-valid string parses to a well-formed version -/
theorem C16_parse_wf (s : Str) (v : PepVersion) (h : parseVersion s = .pep v) : wfPep v = true := by
  unfold parseVersion at h
  split at h
  · next v' hv =>
    injection h with h
    subst h
    exact parsePep_wf s v' hv
  · cases h

/-- the agreement on strings: for PEP 440-valid `s` and `t`, bumpver's `<` is the PEP 440 order -/
theorem C16_agrees_strings (s t : Str) (v w : PepVersion)
    (hs : parseVersion s = .pep v) (ht : parseVersion t = .pep w) :
    verLt (parseVersion s) (parseVersion t) = true ↔ Pep440Spec.lt v w := by
  rw [hs, ht]
  simp only [verLt, beq_iff_eq]
  exact C16_agrees v w (C16_parse_wf s v hs) (C16_parse_wf t w ht)

/-! ## (c) "and prints them in PEP 440 canonical form"

The printed text is a normal form: it parses back to the very same version (so printing is
injective on versions and loses nothing), and printing after parsing is idempotent on all
strings. (That this normal form is the one of PEP 440's appendix-B canonical regex is checked on
the implementation and on the model's output by harness/dev/pep440_difftest.py.) -/

/-- round trip, at full strength (local segment included): for every version the parser can
    produce, the printed text parses back to exactly that version -/
theorem C16_str_canonical (v : PepVersion) (h : wfPep v = true) :
    parseVersion (verStr (.pep v)) = .pep v := by
  simp only [verStr, parseVersion, parsePep_pepStr v h]

/-- … hence to the same key -/
theorem C16_str_canonical_key (v : PepVersion) (h : wfPep v = true) :
    keyOf (parseVersion (verStr (.pep v))) = keyOf (.pep v) := by
  rw [C16_str_canonical v h]

/-- printing is injective on well-formed versions -/
theorem C16_str_injective (v w : PepVersion) (hv : wfPep v = true) (hw : wfPep w = true)
    (h : verStr (.pep v) = verStr (.pep w)) : v = w := by
  have h1 := C16_str_canonical v hv
  rw [h, C16_str_canonical w hw] at h1
  injection h1 with h1
  exact h1.symm

/-- `str ∘ parse` is idempotent on ALL strings (valid or not), and keeps the parsed value -/
theorem C16_str_idempotent (s : Str) :
    parseVersion (verStr (parseVersion s)) = parseVersion s ∧
    verStr (parseVersion (verStr (parseVersion s))) = verStr (parseVersion s) := by
  have key : parseVersion (verStr (parseVersion s)) = parseVersion s := by
    cases hp : parseVersion s with
    | pep v => exact C16_str_canonical v (C16_parse_wf s v hp)
    | legacy orig parts =>
      have ho : orig = s := by
        unfold parseVersion at hp
        split at hp
        · cases hp
        · injection hp with h1 _; exact h1.symm
      subst ho
      simp only [verStr]
      exact hp
  exact ⟨key, by rw [key]⟩

/-! ## witnesses and non-vacuity -/

private def P (s : String) : Parsed := parseVersion s.toList

/-- 1.0.dev1 < 1.0a1 < 1.0 < 1.0.post1 -/
theorem C16_witness_chain :
    verLt (P "1.0.dev1") (P "1.0a1") = true ∧ verLt (P "1.0a1") (P "1.0") = true ∧
    verLt (P "1.0") (P "1.0.post1") = true := by decide

/-- "1.2" and "1.2.0" have equal keys (and are different versions as text) -/
theorem C16_witness_trailing_zero :
    keyOf (P "1.2") = keyOf (P "1.2.0") ∧ verStr (P "1.2") ≠ verStr (P "1.2.0") := by decide

/-- bumpver's "v201712.0033-beta" is PEP 440 "201712.33b0" -/
theorem C16_witness_bumpver :
    keyOf (P "v201712.0033-beta") = keyOf (P "201712.33b0") ∧
    verStr (P "v201712.0033-beta") = "201712.33b0".toList := by decide

/-- normalisation of spellings, case, separators, white space and leading zeros -/
theorem C16_witness_normalise :
    verStr (P " V01!1.00-Alpha_2.POST3-dev+Ab_01-x ") = "1!1.0a2.post3.dev0+ab.1.x".toList := by decide

/-- a legacy string: kept as text, below every PEP 440 version (even 0.dev0) -/
theorem C16_witness_legacy :
    verStr (P "v2017q1.54321") = "v2017q1.54321".toList ∧
    keyOf (P "v2017q1.54321") = .legacy ["*v".toList, "00002017".toList, "*q".toList,
      "00000001".toList, "00054321".toList, "*final".toList] ∧
    verLt (P "v2017q1.54321") (P "0.dev0") = true := by decide

/-! the hypotheses of `C16_agrees` are satisfiable, and the specification is neither empty nor
    everything: a derivation by hand, and one through the theorem -/

private def v10dev1 : PepVersion := ⟨0, [1, 0], none, none, some 1, none⟩
private def v1a1 : PepVersion := ⟨0, [1], some (['a'], 1), none, none, none⟩

example : parseVersion "1.0.dev1".toList = .pep v10dev1 ∧ parseVersion "1a1".toList = .pep v1a1 := by
  decide
example : wfPep v10dev1 = true ∧ wfPep v1a1 = true := by decide
/-- by hand from the specification: equal epoch, `1.0` = `1` after padding, phase `.devN` < `aN` -/
example : Pep440Spec.lt v10dev1 v1a1 :=
  Or.inr ⟨rfl, Or.inr ⟨fun i => by
    rcases i with _ | _ | i <;> simp [Pep440Spec.comp, v10dev1, v1a1],
    Or.inl (Or.inl (by decide))⟩⟩
/-- … and the implementation agrees -/
example : cmpKey (keyOf (.pep v10dev1)) (keyOf (.pep v1a1)) = .lt := by decide
/-- the specification is irreflexive here (through the theorem) -/
example : ¬ Pep440Spec.lt v1a1 v1a1 := by
  rw [← C16_agrees v1a1 v1a1 (by decide) (by decide)]; decide
/-- local versions: `1.0 < 1.0+abc < 1.0+abc.1 < 1.0+1` -/
example : verLt (P "1.0") (P "1.0+abc") = true ∧ verLt (P "1.0+abc") (P "1.0+abc.1") = true ∧
    verLt (P "1.0+abc.1") (P "1.0+1") = true := by decide
/-- post-release of a pre-release and dev of a post: `1.0a1.dev1 < 1.0a1 < 1.0a1.post1.dev1 < 1.0a1.post1 < 1.0a2` -/
example : verLt (P "1.0a1.dev1") (P "1.0a1") = true ∧ verLt (P "1.0a1") (P "1.0a1.post1.dev1") = true ∧
    verLt (P "1.0a1.post1.dev1") (P "1.0a1.post1") = true ∧ verLt (P "1.0a1.post1") (P "1.0a2") = true := by
  decide
/-- round trip hypothesis is satisfiable -/
example : wfPep ⟨1, [1, 0], some (['r', 'c'], 2), some 3, some 0, some [.str ['a', 'b'], .num 1]⟩ = true := by
  decide

end BV
