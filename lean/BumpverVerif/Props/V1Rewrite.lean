/-
  Props/V1Rewrite.lean — properties C03, C04, C06, C13 for the LEGACY rewrite path (v1rewrite.py; the
  properties name it next to v2rewrite.py: "v1rewrite L82-85, L151-152").

  Model: Model/V1Rewrite.lean.  v1rewrite.py and v2rewrite.py have the same shape and differ in how a match's
  replacement is rendered and which compiler made the regexes; the model is therefore ONE engine
  `RwEngine V`, parametric in the version record, the renderer and the regex of a pattern.  Part 1 states
  the property theorems of Props/C03, C04, C06 for EVERY engine (proofs: Proofs/RewriteGeneric.lean — the
  engine-independent lemmas of Proofs/RewriteLemmas.lean are reused, the others are proved once, generically);
  part 2 are the instances for the legacy engine (`v1Engine`: `v1FormatVersion`, `v1CompileRe`) and the
  theorems about the legacy dry path (`v1rewrite.diff`, which differs from v2's); part 3 re-derives
  Props/C03's main theorem for v2 from the generic one (the generalisation is faithful: Model/Rewrite.lean
  is the instance at `v2Engine`).
-/
import BumpverVerif.Model.V1Rewrite
import BumpverVerif.Proofs.RewriteGeneric
import BumpverVerif.Proofs.V1RewriteLemmas
import BumpverVerif.Props.C03
import BumpverVerif.Props.C04
namespace BV

/-! ## Part 1: for every engine -/
namespace RwEngine
variable {V : Type} (E : RwEngine V)

/-- offset of a match's replacement in the NEW line: its old start, shifted by the growth of the
    replacements to its left on the same line -/
def shiftedStart (v : V) (ms : List PMatch) (m : PMatch) : Int :=
  (m.start : Int) + ((ms.filter (fun m' => m'.lineno == m.lineno && m'.stop < m.start)).map
      (fun m' => ((E.replOf v m').length : Int) - ((m'.stop : Int) - (m'.start : Int)))).sum

/-- the surviving matches never overlap or touch one another -/
theorem C03_matches_disjoint (lines : List Str) (pats : List CPat) (ms : List PMatch)
    (h : E.iterMatches lines pats = some ms) :
    ms.Pairwise (fun a b => a.lineno ≠ b.lineno ∨ a.stop < b.start ∨ b.stop < a.start) :=
  (E.iterMatches_facts lines pats ms h).1

/-- every surviving match lies inside its line and is not empty -/
theorem C03_matches_in_bounds (lines : List Str) (pats : List CPat) (ms : List PMatch)
    (h : E.iterMatches lines pats = some ms) :
    ∀ m ∈ ms, ∃ line, lines[m.lineno]? = some line ∧ m.start < m.stop ∧ m.stop ≤ line.length := by
  intro m hm
  obtain ⟨-, h2, line, h3, h4⟩ := (E.iterMatches_facts lines pats ms h).2 m hm
  exact ⟨line, h3, h2, h4⟩

/-- success means every configured pattern was found somewhere in the file -/
theorem C03_all_patterns_found (pats : List CPat) (v : V) (old new : List Str) (ms : List PMatch)
    (hm : E.iterMatches old pats = some ms) (h : E.rewriteLines pats v old = .ok new) :
    ∀ p ∈ pats, ∃ m ∈ ms, m.pat = p := by
  intro p hp
  obtain ⟨ms', hms', -, hall⟩ := E.rewriteLines_ok h
  rw [hm] at hms'
  cases hms'
  rw [List.all_eq_true] at hall
  have := hall p hp
  rw [List.any_eq_true] at this
  obtain ⟨m, hmem, hmp⟩ := this
  exact ⟨m, hmem, by simpa using hmp⟩

/-- EVERY OCCURRENCE IS REPLACED, also several on one line: after a successful rewrite each surviving
    match shows the new version rendered through its own pattern, at its (shifted) position -/
theorem C03_every_occurrence (pats : List CPat) (v : V) (old new : List Str) (ms : List PMatch)
    (hm : E.iterMatches old pats = some ms) (h : E.rewriteLines pats v old = .ok new)
    (m : PMatch) (hmem : m ∈ ms) :
    E.render v m.pat = .ok (E.replOf v m) ∧
    ∃ newLine, new[m.lineno]? = some newLine ∧
      (newLine.drop (E.shiftedStart v ms m).toNat).take (E.replOf v m).length = E.replOf v m := by
  refine ⟨(E.rewriteLines_line hm h).1 m hmem, ?_⟩
  have hshift : E.shiftedStart v ms m = (m.start : Int) +
      ((ms.filter (fun m' => m'.lineno == m.lineno && decide (m'.stop < m.start))).map
        (growthG (E.replOf v))).sum := rfl
  rw [hshift]
  exact E.rewriteLines_occ hm h m hmem

/-- a rewrite keeps the number of lines … -/
theorem C04_line_count (pats : List CPat) (v : V) (old new : List Str)
    (h : E.rewriteLines pats v old = .ok new) : new.length = old.length := by
  obtain ⟨ms, _, happ, _⟩ := E.rewriteLines_ok h
  exact (E.applyMatches_ok v _ _ _ happ).2.1

/-- … and every line without a surviving match is untouched -/
theorem C04_unmatched_lines (pats : List CPat) (v : V) (old new : List Str) (ms : List PMatch)
    (hm : E.iterMatches old pats = some ms) (h : E.rewriteLines pats v old = .ok new)
    (i : Nat) (hi : ∀ m ∈ ms, m.lineno ≠ i) : new[i]? = old[i]? := by
  obtain ⟨-, -, h3⟩ := E.rewriteLines_line hm h
  have hnil : lineMatches ms i = [] := by
    rw [List.eq_nil_iff_forall_not_mem]
    intro m hmem
    exact hi m (mem_lineMatches.1 hmem).1 (mem_lineMatches.1 hmem).2
  rw [h3 i, hnil]
  cases old[i]? <;> rfl

/-- on a line with exactly one surviving match, the text before and after the span is kept verbatim and
    the span is replaced by the rendered pattern -/
theorem C04_single_span (pats : List CPat) (v : V) (old new : List Str) (ms : List PMatch)
    (hm : E.iterMatches old pats = some ms) (h : E.rewriteLines pats v old = .ok new)
    (m : PMatch) (hmem : m ∈ ms) (honly : ∀ m' ∈ ms, m'.lineno = m.lineno → m' = m)
    (line : Str) (hl : old[m.lineno]? = some line) :
    ∃ repl, E.render v m.pat = .ok repl ∧
      new[m.lineno]? = some (line.take m.start ++ repl ++ line.drop m.stop) := by
  obtain ⟨h1, -, h3⟩ := E.rewriteLines_line hm h
  refine ⟨E.replOf v m, h1 m hmem, ?_⟩
  rw [h3 m.lineno, hl, E.lineMatches_single hm m hmem honly]
  rfl

/-- on ANY line the new text is the old text with the spans of that line's matches (right to left)
    replaced by their renderings: nothing outside the spans changes -/
theorem C04_only_spans (pats : List CPat) (v : V) (old new : List Str) (ms : List PMatch)
    (hm : E.iterMatches old pats = some ms) (h : E.rewriteLines pats v old = .ok new) (i : Nat) :
    new[i]? = (old[i]?).map (spliceLineG (E.replOf v) (lineMatches ms i)) ∧
    (lineMatches ms i).Pairwise (fun a b => b.stop < a.start) :=
  ⟨(E.rewriteLines_line hm h).2.2 i, E.lineMatches_sorted hm i⟩

/-- whole file: if no line has a match to replace, the content is returned unchanged, whatever its line
    endings (join ∘ split = id: `C04_join_split`, engine independent) -/
theorem C04_content_identity (pats : List CPat) (v : V) (s s' : Str)
    (hm : E.iterMatches (splitOn (detectLineSep s) s) pats = some [])
    (h : E.rewriteContent pats v s = .ok s') : s' = s := by
  unfold rewriteContent at h
  simp only at h
  split at h
  · cases h
  · rename_i newLines hnl
    cases h
    obtain ⟨ms, hms, happ, -⟩ := E.rewriteLines_ok hnl
    rw [hm] at hms
    cases hms
    have : newLines = splitOn (detectLineSep s) s := by
      simpa [sortMatches, applyMatches] using happ.symm
    rw [this]
    exact C04_join_split _ _ (C04_sep_detect s).2

/-- whole file, in general: the written text splits (at the file's own separator) into as many lines as
    the old text; the separator and the number of line ends are kept -/
theorem C04_content_lines (pats : List CPat) (v : V) (s s' : Str) (h : E.rewriteContent pats v s = .ok s') :
    ∃ newLines, E.rewriteLines pats v (splitOn (detectLineSep s) s) = .ok newLines ∧
      s' = join (detectLineSep s) newLines ∧ newLines.length = (splitOn (detectLineSep s) s).length := by
  unfold rewriteContent at h
  simp only at h
  split at h
  · cases h
  · rename_i newLines hnl
    cases h
    exact ⟨newLines, hnl, rfl, E.C04_line_count _ _ _ _ hnl⟩

/-- files not named in the configuration are never written, whether the update succeeds or not -/
theorem C04_other_files (fs : FS) (fps : List (Str × List CPat)) (v : V) (p : Str)
    (hp : ∀ fp ∈ fps, fp.1 ≠ p) : lookup p (E.rewriteFiles fs fps v).1 = lookup p fs := by
  unfold rewriteFiles
  split
  · rfl
  · rename_i ws hws
    apply lookup_foldl_write
    intro w hw
    have hpaths := E.planWrites_paths fs v fps ws hws
    have : w.1 ∈ fps.map (·.1) := hpaths ▸ List.mem_map.2 ⟨w, hw, rfl⟩
    obtain ⟨fp, hfp, hfe⟩ := List.mem_map.1 this
    rw [← hfe]
    exact hp fp hfp

/-- ALL OR NOTHING: an error in the rewrite phase — missing file, pattern without match, a crash of the
    renderer, anything — leaves every file exactly as it was -/
theorem C06_all_or_nothing (fs : FS) (fps : List (Str × List CPat)) (v : V) (e : RwErr)
    (h : (E.rewriteFiles fs fps v).2 = .error e) : (E.rewriteFiles fs fps v).1 = fs := by
  unfold rewriteFiles at h ⊢
  split
  · rfl
  · rename_i ws hws
    rw [hws] at h
    cases h

/-- the rewrite phase fails iff some configured file is missing or some file fails to validate -/
theorem C06_error_iff (fs : FS) (fps : List (Str × List CPat)) (v : V) :
    (∃ e, (E.rewriteFiles fs fps v).2 = .error e) ↔
      ∃ fp ∈ fps, lookup fp.1 fs = none ∨ ∃ c e, lookup fp.1 fs = some c ∧ E.rewriteContent fp.2 v c = .error e := by
  rw [← E.planWrites_error_iff]
  unfold rewriteFiles
  cases E.planWrites fs v fps with
  | error e => simp
  | ok ws => simp

/-- success writes exactly the validated contents, and only to configured paths -/
theorem C06_success_writes (fs : FS) (fps : List (Str × List CPat)) (v : V)
    (h : (E.rewriteFiles fs fps v).2 = .ok ()) :
    ∀ fp ∈ fps, ∃ c, lookup fp.1 fs = some c ∧ ∃ c', E.rewriteContent fp.2 v c = .ok c' := by
  intro fp hfp
  have hne : ¬ ∃ e, (E.rewriteFiles fs fps v).2 = .error e := by
    rintro ⟨e, he⟩
    rw [h] at he
    cases he
  rw [E.C06_error_iff] at hne
  cases hl : lookup fp.1 fs with
  | none => exact absurd ⟨fp, hfp, .inl hl⟩ hne
  | some c =>
    refine ⟨c, rfl, ?_⟩
    cases hr : E.rewriteContent fp.2 v c with
    | error e => exact absurd ⟨fp, hfp, .inr ⟨c, e, hl, hr⟩⟩ hne
    | ok c' => exact ⟨c', rfl⟩

/-- a missing pattern is an error of the file -/
theorem C06_missing_pattern_fails (pats : List CPat) (v : V) (lines : List Str) (ms : List PMatch)
    (hm : E.iterMatches lines pats = some ms) (p : CPat) (hp : p ∈ pats) (hno : ∀ m ∈ ms, m.pat ≠ p) :
    ∃ e, E.rewriteLines pats v lines = .error e := by
  cases hr : E.rewriteLines pats v lines with
  | error e => exact ⟨e, rfl⟩
  | ok new =>
    obtain ⟨m, hmem, hmp⟩ := E.C03_all_patterns_found pats v lines new ms hm hr p hp
    exact absurd hmp (hno m hmem)

/-- the rendering crash of ONE match is an error of the file (and of the phase), not a partial rewrite -/
theorem C06_render_crash_fails (pats : List CPat) (v : V) (lines : List Str) (ms : List PMatch)
    (hm : E.iterMatches lines pats = some ms) (m : PMatch) (hmem : m ∈ ms) (e : PErr)
    (hr : E.render v m.pat = .error e) : ∃ e', E.rewriteLines pats v lines = .error e' := by
  cases h : E.rewriteLines pats v lines with
  | error e' => exact ⟨e', rfl⟩
  | ok new =>
    have := (E.rewriteLines_line hm h).1 m hmem
    rw [hr] at this
    cases this

end RwEngine

/-! ## Part 2: the legacy engine (v1rewrite.py) -/

/-- the text a match is replaced with by the legacy engine: `v1version.format_version(new_vinfo, raw_pattern)` -/
def v1ReplOf (v : V1Info) (m : PMatch) : Str := v1Engine.replOf v m

theorem v1ReplOf_eq (v : V1Info) (m : PMatch) (s : Str) (h : v1FormatVersion v m.pat.raw = .ok s) :
    v1ReplOf v m = s := by
  have : v1Engine.render v m.pat = .ok s := (v1Render_ok v m.pat s).2 h
  simp only [v1ReplOf, RwEngine.replOf, this]

def v1ShiftedStart (v : V1Info) (ms : List PMatch) (m : PMatch) : Int := v1Engine.shiftedStart v ms m

/-- C03, legacy: the surviving matches never overlap or touch -/
theorem V1_C03_matches_disjoint (lines : List Str) (pats : List CPat) (ms : List PMatch)
    (h : v1IterMatches lines pats = some ms) :
    ms.Pairwise (fun a b => a.lineno ≠ b.lineno ∨ a.stop < b.start ∨ b.stop < a.start) :=
  v1Engine.C03_matches_disjoint lines pats ms h

theorem V1_C03_matches_in_bounds (lines : List Str) (pats : List CPat) (ms : List PMatch)
    (h : v1IterMatches lines pats = some ms) :
    ∀ m ∈ ms, ∃ line, lines[m.lineno]? = some line ∧ m.start < m.stop ∧ m.stop ≤ line.length :=
  v1Engine.C03_matches_in_bounds lines pats ms h

theorem V1_C03_all_patterns_found (pats : List CPat) (v : V1Info) (old new : List Str) (ms : List PMatch)
    (hm : v1IterMatches old pats = some ms) (h : v1RewriteLines pats v old = .ok new) :
    ∀ p ∈ pats, ∃ m ∈ ms, m.pat = p :=
  v1Engine.C03_all_patterns_found pats v old new ms hm h

/-- C03, legacy: EVERY OCCURRENCE IS REPLACED, also several on one line — after a successful
    `v1rewrite.rewrite_lines` each surviving match shows `v1version.format_version(new_vinfo, raw_pattern)`
    of its own pattern at its (shifted) position in the new line -/
theorem V1_C03_every_occurrence (pats : List CPat) (v : V1Info) (old new : List Str) (ms : List PMatch)
    (hm : v1IterMatches old pats = some ms) (h : v1RewriteLines pats v old = .ok new)
    (m : PMatch) (hmem : m ∈ ms) :
    v1FormatVersion v m.pat.raw = .ok (v1ReplOf v m) ∧
    ∃ newLine, new[m.lineno]? = some newLine ∧
      (newLine.drop (v1ShiftedStart v ms m).toNat).take (v1ReplOf v m).length = v1ReplOf v m := by
  obtain ⟨h1, h2⟩ := v1Engine.C03_every_occurrence pats v old new ms hm h m hmem
  exact ⟨(v1Render_ok v m.pat _).1 h1, h2⟩

/-- `{version}` in a legacy file pattern denotes the version pattern itself (`_normalized_pattern`) -/
theorem V1_C03_version_placeholder (vp : Str) :
    (v1CPat vp "{version}".toList).raw =
      (match lookup vp Gen.v1Pep440VersionMap with
       | some rep => replaceAll "{pep440_version}".toList rep vp
       | none => vp) := by
  unfold v1CPat v1NormalizedPattern
  simp only []
  rw [replaceAll_self _ _ (by decide)]
  cases lookup vp Gen.v1Pep440VersionMap <;> rfl

/-- C04, legacy -/
theorem V1_C04_line_count (pats : List CPat) (v : V1Info) (old new : List Str)
    (h : v1RewriteLines pats v old = .ok new) : new.length = old.length :=
  v1Engine.C04_line_count pats v old new h

theorem V1_C04_unmatched_lines (pats : List CPat) (v : V1Info) (old new : List Str) (ms : List PMatch)
    (hm : v1IterMatches old pats = some ms) (h : v1RewriteLines pats v old = .ok new)
    (i : Nat) (hi : ∀ m ∈ ms, m.lineno ≠ i) : new[i]? = old[i]? :=
  v1Engine.C04_unmatched_lines pats v old new ms hm h i hi

/-- C04, legacy: ONLY THE SPAN CHANGES on a line with one match -/
theorem V1_C04_single_span (pats : List CPat) (v : V1Info) (old new : List Str) (ms : List PMatch)
    (hm : v1IterMatches old pats = some ms) (h : v1RewriteLines pats v old = .ok new)
    (m : PMatch) (hmem : m ∈ ms) (honly : ∀ m' ∈ ms, m'.lineno = m.lineno → m' = m)
    (line : Str) (hl : old[m.lineno]? = some line) :
    ∃ repl, v1FormatVersion v m.pat.raw = .ok repl ∧
      new[m.lineno]? = some (line.take m.start ++ repl ++ line.drop m.stop) := by
  obtain ⟨repl, h1, h2⟩ := v1Engine.C04_single_span pats v old new ms hm h m hmem honly line hl
  exact ⟨repl, (v1Render_ok v m.pat _).1 h1, h2⟩

/-- C04, legacy: on any line only the spans of that line's matches change -/
theorem V1_C04_only_spans (pats : List CPat) (v : V1Info) (old new : List Str) (ms : List PMatch)
    (hm : v1IterMatches old pats = some ms) (h : v1RewriteLines pats v old = .ok new) (i : Nat) :
    new[i]? = (old[i]?).map (spliceLineG (v1ReplOf v) (lineMatches ms i)) ∧
    (lineMatches ms i).Pairwise (fun a b => b.stop < a.start) :=
  v1Engine.C04_only_spans pats v old new ms hm h i

/-- C04, legacy: join ∘ split — a file without a match to replace is written back byte for byte -/
theorem V1_C04_content_identity (pats : List CPat) (v : V1Info) (s s' : Str)
    (hm : v1IterMatches (splitOn (detectLineSep s) s) pats = some [])
    (h : v1RewriteContent pats v s = .ok s') : s' = s :=
  v1Engine.C04_content_identity pats v s s' hm h

theorem V1_C04_content_lines (pats : List CPat) (v : V1Info) (s s' : Str) (h : v1RewriteContent pats v s = .ok s') :
    ∃ newLines, v1RewriteLines pats v (splitOn (detectLineSep s) s) = .ok newLines ∧
      s' = join (detectLineSep s) newLines ∧ newLines.length = (splitOn (detectLineSep s) s).length :=
  v1Engine.C04_content_lines pats v s s' h

theorem V1_C04_other_files (fs : FS) (fps : List (Str × List CPat)) (v : V1Info) (p : Str)
    (hp : ∀ fp ∈ fps, fp.1 ≠ p) : lookup p (v1RewriteFiles fs fps v).1 = lookup p fs :=
  v1Engine.C04_other_files fs fps v p hp

/-- C06, legacy: ALL OR NOTHING -/
theorem V1_C06_all_or_nothing (fs : FS) (fps : List (Str × List CPat)) (v : V1Info) (e : RwErr)
    (h : (v1RewriteFiles fs fps v).2 = .error e) : (v1RewriteFiles fs fps v).1 = fs :=
  v1Engine.C06_all_or_nothing fs fps v e h

theorem V1_C06_error_iff (fs : FS) (fps : List (Str × List CPat)) (v : V1Info) :
    (∃ e, (v1RewriteFiles fs fps v).2 = .error e) ↔
      ∃ fp ∈ fps, lookup fp.1 fs = none ∨ ∃ c e, lookup fp.1 fs = some c ∧ v1RewriteContent fp.2 v c = .error e :=
  v1Engine.C06_error_iff fs fps v

theorem V1_C06_success_writes (fs : FS) (fps : List (Str × List CPat)) (v : V1Info)
    (h : (v1RewriteFiles fs fps v).2 = .ok ()) :
    ∀ fp ∈ fps, ∃ c, lookup fp.1 fs = some c ∧ ∃ c', v1RewriteContent fp.2 v c = .ok c' :=
  v1Engine.C06_success_writes fs fps v h

theorem V1_C06_missing_pattern_fails (pats : List CPat) (v : V1Info) (lines : List Str) (ms : List PMatch)
    (hm : v1IterMatches lines pats = some ms) (p : CPat) (hp : p ∈ pats) (hno : ∀ m ∈ ms, m.pat ≠ p) :
    ∃ e, v1RewriteLines pats v lines = .error e :=
  v1Engine.C06_missing_pattern_fails pats v lines ms hm p hp hno

/-- C06, legacy: an exception of `format_version` for ONE match (KeyError for `{foo}`, TypeError for a
    calendar part of a record without a date) fails the file; together with `V1_C06_all_or_nothing`
    nothing is written -/
theorem V1_C06_render_crash_fails (pats : List CPat) (v : V1Info) (lines : List Str) (ms : List PMatch)
    (hm : v1IterMatches lines pats = some ms) (m : PMatch) (hmem : m ∈ ms) (e : V1Err)
    (hr : v1FormatVersion v m.pat.raw = .error e) : ∃ e', v1RewriteLines pats v lines = .error e' := by
  refine v1Engine.C06_render_crash_fails pats v lines ms hm m hmem (v1ErrToPErr e) ?_
  show v1Render v m.pat = _
  simp only [v1Render, hr]

/-- C13, legacy: the diff path and the write path compute the SAME new lines for a file -/
theorem V1_C13_same_new_lines (fs : FS) (old new : V1Info) (path : Str) (pats : List CPat)
    (ol nl : List Str) (h : v1DiffFile fs old new path pats = .ok (ol, nl)) :
    ∃ content, lookup path fs = some content ∧ ol = splitOn (detectLineSep content) content ∧
      v1RewriteContent pats new content = .ok (join (detectLineSep content) nl) :=
  v1DiffFile_rewriteContent h

/-- C13, legacy: a dry run that reports no error ⇒ the real run's rewrite phase succeeds too -/
theorem V1_C13_dry_ok_real_ok (fs : FS) (old new : V1Info) (fps : List (Str × List CPat))
    (rs : List (Str × List Str × List Str)) (h : v1DiffFiles fs old new fps = .ok rs) :
    (v1RewriteFiles fs fps new).2 = .ok () := by
  obtain ⟨ws, hws, -⟩ := v1PlanWrites_of_diffFiles fs old new fps rs h
  unfold v1RewriteFiles RwEngine.rewriteFiles
  unfold v1PlanWrites at hws
  simp only [hws]

/-- … also for `v1rewrite.diff` as it is (existence of all files first, files in the order of their
    paths): the real run, which takes them in configuration order, succeeds -/
theorem V1_C13_dry_ok_real_ok_sorted (fs : FS) (old new : V1Info) (fps : List (Str × List CPat))
    (rs : List (Str × List Str × List Str)) (h : v1DiffAll fs old new fps = .ok rs) :
    (v1RewriteFiles fs fps new).2 = .ok () := by
  unfold v1DiffAll at h
  split at h
  · have := V1_C13_dry_ok_real_ok fs old new _ rs h
    exact v1Engine.rewriteFiles_ok_of_mem fs new _ fps (fun x hx => (mem_sortByPath fps x).2 hx) this
  · cases h

/-- … and the real run writes, for every configured file, exactly the new lines the dry run diffed -/
theorem V1_C13_dry_shows_real (fs : FS) (old new : V1Info) (fps : List (Str × List CPat))
    (hnd : (fps.map (·.1)).Nodup)
    (rs : List (Str × List Str × List Str)) (h : v1DiffFiles fs old new fps = .ok rs) :
    ∀ r ∈ rs, ∃ content, lookup r.1 fs = some content ∧
      lookup r.1 (v1RewriteFiles fs fps new).1 = some (join (detectLineSep content) r.2.2) := by
  obtain ⟨ws, hws, hall⟩ := v1PlanWrites_of_diffFiles fs old new fps rs h
  unfold v1PlanWrites at hws
  have hp := v1Engine.planWrites_paths fs new fps ws hws
  intro r hr
  obtain ⟨content, hc, hm⟩ := hall r hr
  refine ⟨content, hc, ?_⟩
  unfold v1RewriteFiles RwEngine.rewriteFiles
  simp only [hws]
  exact lookup_foldl_write_mem ws fs _ _ (hp ▸ hnd) hm

/-- C13, legacy: the extra "no change" error of `v1rewrite.diff` — old and new lines equal although some
    pattern renders differently for the old and the new record — is an error of the DRY path only: the
    write path succeeds on such a file (it rewrites it to itself).  The same asymmetry as in v2rewrite. -/
theorem V1_C13_no_change_error_is_dry_only (fs : FS) (old new : V1Info) (path : Str) (pats : List CPat)
    (content : Str) (hc : lookup path fs = some content)
    (hu : v1HasUpdatedVersion old new pats = .ok true)
    (hr : v1RewriteLines pats new (splitOn (detectLineSep content) content) = .ok (splitOn (detectLineSep content) content)) :
    v1DiffFile fs old new path pats = .error .noMatch ∧
    v1RewriteContent pats new content = .ok content := by
  constructor
  · unfold v1DiffFile
    simp [hc, hu, hr]
  · unfold v1RewriteLines at hr
    unfold v1RewriteContent RwEngine.rewriteContent
    simp only [hr]
    rw [C04_join_split _ _ (C04_sep_detect content).2]

/-! non-vacuity / concrete instances of the legacy engine (tests; each a few seconds of kernel evaluation) -/

def v1WitnessInfo : V1Info :=
  { year := none, quarter := none, month := none, dom := none, doy := none, isoWeek := none, usWeek := none,
    major := 1, minor := 2, patch := 4, bid := "1000".toList, tag := "final".toList }

/-- two legacy patterns on one line (the D2 situation), CRLF content without final newline -/
theorem V1_C03_shared_line_witness :
    v1RewriteContentOfPairs
        [("{MAJOR}.{MINOR}.{PATCH}".toList, "a={version}".toList),
         ("{MAJOR}.{MINOR}.{PATCH}".toList, "b={MAJOR}.{MINOR}.{PATCH}".toList)] v1WitnessInfo
        "a=1.2.3 b=1.2.3\r\nx".toList = .ok "a=1.2.4 b=1.2.4\r\nx".toList := by
  decide +kernel

/-- the lazy loop (`rewrite_files` without `list(...)`) writes the first file before the second one fails;
    the real `rewrite_files` writes nothing -/
theorem V1_C06_lazy_partial_write_witness :
    let p := v1CPat "{MAJOR}.{MINOR}.{PATCH}".toList "v {version}".toList
    let fs : FS := [("a".toList, "v 1.2.3".toList)]
    let fps := [("a".toList, [p]), ("b".toList, [p])]
    (v1RewriteFilesLazy v1WitnessInfo fs fps).1 = [("a".toList, "v 1.2.4".toList)] ∧
    (v1RewriteFilesLazy v1WitnessInfo fs fps).2 = .error .missingFile ∧
    (v1RewriteFiles fs fps v1WitnessInfo).1 = fs ∧
    (v1RewriteFiles fs fps v1WitnessInfo).2 = .error .missingFile := by
  decide +kernel

/-! ## Part 3: the generalisation is faithful — Props/C03's theorem for v2 from the generic one -/

theorem C03_every_occurrence_from_generic (pats : List CPat) (v : VInfo) (old new : List Str) (ms : List PMatch)
    (hm : iterMatches old pats = some ms) (h : rewriteLines pats v old = .ok new)
    (m : PMatch) (hmem : m ∈ ms) :
    ∃ newLine, new[m.lineno]? = some newLine ∧
      (newLine.drop (shiftedStart v ms m).toNat).take (replOf v m).length = replOf v m := by
  rw [← v2Engine_iterMatches] at hm
  rw [← v2Engine_rewriteLines] at h
  have := (v2Engine.C03_every_occurrence pats v old new ms hm h m hmem).2
  have e1 : v2Engine.replOf v = replOf v := v2Engine_replOf v
  have e2 : v2Engine.shiftedStart v ms m = shiftedStart v ms m := by
    simp only [RwEngine.shiftedStart, shiftedStart, e1]
  rw [e1, e2] at this
  exact this

end BV
