/-
  Props/C14.lean — property C14: calendar versions never run backwards as the date advances.

  "For every coherent calendar pattern (calendar year with month/day, day of year, quarter or
   Monday/Sunday week number; ISO year with ISO week) the version rendered for a later date is
   never lower than the one for an earlier date, and bumping never moves calendar parts backwards
   even when the current version lies in the future. Patterns pairing a calendar year with the
   ISO week, or an ISO year with a non-ISO week - for which this fails around New Year - are
   rejected."

  Model (Model/Calendar.lean): `calInfo` = `v2version.cal_info` on Python's proleptic Gregorian
  `datetime.date` (compared with the real function on every date 0001-01-01 … 9999-12-31 by
  harness/dev/calendar_difftest.py), `isValidWeekPattern` = `is_valid_week_pattern`,
  `isCalGt` = `_is_cal_gt`. A pattern's calendar parts are a `List CalField`, most significant
  first; `calKey fs c` are their numeric values and `lexLe` is their order (two-digit year parts
  are the year mod 100, so they need the two dates to lie in one century).

  The theorems hold for EVERY ordinal n ≥ 1 (no upper bound is needed; Python's dates are the
  ordinals 1 … 3652059 = `maxOrdinal`).
  Only property theorems live here; helper lemmas are in Proofs/CalendarLemmas.lean.
-/
import BumpverVerif.Model.Calendar
import BumpverVerif.Proofs.CalendarLemmas
-- the functions this property's mechanism lives in are TRANSLATED from the Python source on every run (Gen/F_*.lean) and proved equal to the hand model:
import BumpverVerif.Proofs.Tie_isCalGt
import BumpverVerif.Proofs.Tie_isValidWeekPattern
import BumpverVerif.Proofs.Tie_quarterFromMonth
namespace BV

/-! ### later date, never a lower version -/

/-- one day forward: for every coherent shape the calendar parts do not decrease
    (two-digit years: as long as the day does not cross a century) -/
theorem C14_step (fs : List CalField) (hc : coherent fs = true) (n : Nat) (h1 : 1 ≤ n)
    (hcentY : fs.contains .yearY2 = true →
      (calInfoOrd n).yearY / 100 = (calInfoOrd (n + 1)).yearY / 100)
    (hcentG : fs.contains .yearG2 = true →
      (calInfoOrd n).yearG / 100 = (calInfoOrd (n + 1)).yearG / 100) :
    lexLe (calKey fs (calInfoOrd n)) (calKey fs (calInfoOrd (n + 1))) = true :=
  lexLe_of_stepFacts _ _ (step_facts n h1) fs hc hcentY hcentG

/-- any two dates `n ≤ n'` (as ordinals): for every coherent shape the calendar parts of the
    later date are not lower (two-digit years: the two dates lie in the same century) -/
theorem C14_fields_monotone (fs : List CalField) (hc : coherent fs = true) (n n' : Nat)
    (h1 : 1 ≤ n) (h : n ≤ n')
    (hcentY : fs.contains .yearY2 = true →
      (calInfoOrd n).yearY / 100 = (calInfoOrd n').yearY / 100)
    (hcentG : fs.contains .yearG2 = true →
      (calInfoOrd n).yearG / 100 = (calInfoOrd n').yearG / 100) :
    lexLe (calKey fs (calInfoOrd n)) (calKey fs (calInfoOrd n')) = true := by
  obtain ⟨d, rfl⟩ : ∃ d, n' = n + d := ⟨n' - n, by omega⟩
  exact lexLe_calKey_add fs hc n h1 d hcentY hcentG

/-- the same on `datetime.date` values: Python orders dates as `(year, month, day)` tuples -/
theorem C14_dates_monotone (fs : List CalField) (hc : coherent fs = true)
    (y m d y' m' d' : Nat) (hv : validDate y m d = true) (hv' : validDate y' m' d' = true)
    (hle : lexLe [y, m, d] [y', m', d'] = true)
    (hcentY : fs.contains .yearY2 = true → y / 100 = y' / 100)
    (hcentG : fs.contains .yearG2 = true → isoYear y m d / 100 = isoYear y' m' d' / 100) :
    lexLe (calKey fs (calInfo y m d)) (calKey fs (calInfo y' m' d')) = true := by
  have ho := ordinal_le_of_date_le y m d y' m' d' hv hv' hle
  have h1 : 1 ≤ ordinal y m d := by
    simp only [validDate, Bool.and_eq_true, decide_eq_true_eq] at hv
    unfold ordinal; omega
  have := C14_fields_monotone fs hc (ordinal y m d) (ordinal y' m' d') h1 ho
  rw [calInfoOrd_ordinal y m d hv, calInfoOrd_ordinal y' m' d' hv'] at this
  exact this hcentY hcentG

/-- `calInfoOrd` is `cal_info` of the date with that ordinal -/
theorem C14_ordinal_roundtrip (y m d : Nat) (hv : validDate y m d = true) :
    fromOrdinal (ordinal y m d) = (y, m, d) ∧ calInfoOrd (ordinal y m d) = calInfo y m d :=
  ⟨fromOrdinal_ordinal y m d hv, calInfoOrd_ordinal y m d hv⟩

/-- the day of year rendered for a date lies inside that year (never 366 in a common year), and
    `version.date_from_doy` leads from (year, day of year) back to the same date -/
theorem C14_doy_roundtrip (n : Nat) (h1 : 1 ≤ n) (h2 : n ≤ maxOrdinal) :
    1 ≤ (calInfoOrd n).doy ∧ (calInfoOrd n).doy ≤ yearLen (calInfoOrd n).yearY ∧
    dateFromDoy (calInfoOrd n).yearY (calInfoOrd n).doy = some (fromOrdinal n) :=
  doy_roundtrip n h1 h2

/-- Outside that range `date_from_doy` runs into the next year: day 366 of the common year 2019
    is 2020-01-01 (the parser then keeps `year_y = 2019` with month 1, day 1 — finding
    F-C14-doy366: the hand-written version `2019.366` is read as 2019-01-01 and bumps to a
    lower day of year; bumpver itself never renders such a version, see `C14_doy_roundtrip`). -/
theorem C14_doy366_common_year_witness :
    dateFromDoy 2019 366 = some (2020, 1, 1) ∧ yearLen 2019 = 365 := by decide

/-! ### the rejected pairings -/

/-- a pattern is rejected exactly when it pairs a calendar-year part with the ISO week, or an
    ISO-year part with a Monday- or Sunday-based week -/
theorem C14_rejected_iff (p : Str) :
    isValidWeekPattern p = false ↔
      (hasYPart p = true ∧ hasVPart p = true) ∨
      (¬ (hasYPart p = true ∧ hasVPart p = true) ∧ hasGPart p = true ∧ hasWUPart p = true) := by
  unfold isValidWeekPattern
  cases hasYPart p <;> cases hasVPart p <;> cases hasGPart p <;> cases hasWUPart p <;> simp

/-- simpler reading: rejected iff (Y and V) or (G and W/U) -/
theorem C14_rejected_iff' (p : Str) :
    isValidWeekPattern p = false ↔
      (hasYPart p = true ∧ hasVPart p = true) ∨ (hasGPart p = true ∧ hasWUPart p = true) := by
  unfold isValidWeekPattern
  cases hasYPart p <;> cases hasVPart p <;> cases hasGPart p <;> cases hasWUPart p <;> simp

/-- the six rejected pairings of a year part with a week part -/
def rejectedPairings : List (List CalField) :=
  [[.yearY, .weekV], [.yearY2, .weekV], [.yearG, .weekW], [.yearG, .weekU], [.yearG2, .weekW],
   [.yearG2, .weekU]]

/-- none of them is a coherent shape … -/
theorem C14_rejected_not_coherent : ∀ fs ∈ rejectedPairings, coherent fs = false := by decide

/-- … and each of them runs backwards around New Year, inside one century and inside Python's
    date range: 2021-01-03 (Sunday, ISO 2020-W53) → 2021-01-04 (ISO 2021-W01) for a calendar year
    with the ISO week, 2020-12-31 (ISO 2020-W53, %W = %U = 52) → 2021-01-01 (still ISO year 2020,
    %W = %U = 0) for the ISO year with a Monday- or Sunday-based week. -/
theorem C14_rejected_nonmonotone : ∀ fs ∈ rejectedPairings,
    ∃ n, 1 ≤ n ∧ n + 1 ≤ maxOrdinal ∧
      (calInfoOrd n).yearY / 100 = (calInfoOrd (n + 1)).yearY / 100 ∧
      (calInfoOrd n).yearG / 100 = (calInfoOrd (n + 1)).yearG / 100 ∧
      lexLt (calKey fs (calInfoOrd (n + 1))) (calKey fs (calInfoOrd n)) = true := by
  intro fs hfs
  simp only [rejectedPairings, List.mem_cons, List.not_mem_nil, or_false] at hfs
  rcases hfs with rfl | rfl | rfl | rfl | rfl | rfl
  · exact ⟨737793, by decide⟩
  · exact ⟨737793, by decide⟩
  · exact ⟨737790, by decide⟩
  · exact ⟨737790, by decide⟩
  · exact ⟨737790, by decide⟩
  · exact ⟨737790, by decide⟩

/-- the witnesses as dates -/
theorem C14_rejected_witness_dates :
    fromOrdinal 737793 = (2021, 1, 3) ∧ fromOrdinal 737794 = (2021, 1, 4) ∧
    fromOrdinal 737790 = (2020, 12, 31) ∧ fromOrdinal 737791 = (2021, 1, 1) ∧
    calKey [.yearY, .weekV] (calInfoOrd 737793) = [2021, 53] ∧
    calKey [.yearY, .weekV] (calInfoOrd 737794) = [2021, 1] ∧
    calKey [.yearG, .weekW] (calInfoOrd 737790) = [2020, 52] ∧
    calKey [.yearG, .weekW] (calInfoOrd 737791) = [2020, 0] ∧
    calKey [.yearG, .weekU] (calInfoOrd 737790) = [2020, 52] ∧
    calKey [.yearG, .weekU] (calInfoOrd 737791) = [2020, 0] := by decide

/-! ### the future-version guard `_is_cal_gt` -/

/-- `incr` keeps the old calendar parts iff `_is_cal_gt(old_vinfo, cur_cinfo)`. For a version
    whose pattern shows exactly the parts `fs` (a coherent shape; the other `V2CalendarInfo`
    fields are `None`) against a complete `cal_info`, the guard is false exactly when the old
    parts are not above the current ones — so taking the current parts never moves them back. -/
theorem C14_guard (fs : List CalField) (hfs : fs ∈ fullYearShapes) (old cur : CalInfo) :
    isCalGt (old.mask fs) cur.toOpt = false ↔ lexLe (calKey fs old) (calKey fs cur) = true := by
  rw [guard_mask fs hfs old cur]
  cases lexLe (calKey fs old) (calKey fs cur) <;> simp

/-- the shapes of `C14_guard` are the coherent shapes with four-digit years -/
theorem C14_guard_shapes (fs : List CalField) :
    fs ∈ fullYearShapes ↔
      (coherent fs = true ∧ fs.contains .yearY2 = false ∧ fs.contains .yearG2 = false) := by
  constructor
  · intro h
    simp only [fullYearShapes, yShapes, gShapes, List.mem_append, List.mem_cons, List.not_mem_nil,
      or_false] at h
    rcases h with (rfl | rfl | rfl | rfl | rfl | rfl | rfl | rfl | rfl) | (rfl | rfl) <;> decide
  · rintro ⟨hc, hy, hg⟩
    have hm := mem_coherentShapes fs hc
    simp only [coherentShapes, yShapes, gShapes, List.mem_append, List.mem_cons, List.not_mem_nil,
      or_false] at hm
    rcases hm with (((rfl | rfl | rfl | rfl | rfl | rfl | rfl | rfl | rfl) |
      (rfl | rfl | rfl | rfl | rfl | rfl | rfl | rfl | rfl)) | (rfl | rfl)) | (rfl | rfl) <;>
      first | decide | (exact absurd hy (by decide)) | (exact absurd hg (by decide))

/-- a pattern with a month part: the parser also fills `quarter` from the month
    (`parse_field_values_to_cinfo`), so `_is_cal_gt` sees year, quarter, month(, day); the outcome
    is still the order of year, month(, day) -/
theorem C14_guard_derived_quarter (old cur : CalInfo)
    (hq : old.quarter = quarterFromMonth old.month) (hq' : cur.quarter = quarterFromMonth cur.month) :
    (isCalGt (old.mask [.yearY, .quarter, .month]) cur.toOpt = false ↔
      lexLe (calKey [.yearY, .month] old) (calKey [.yearY, .month] cur) = true) ∧
    (isCalGt (old.mask [.yearY, .quarter, .month, .dom]) cur.toOpt = false ↔
      lexLe (calKey [.yearY, .month, .dom] old) (calKey [.yearY, .month, .dom] cur) = true) := by
  rw [C14_guard _ (by decide), C14_guard _ (by decide)]
  unfold quarterFromMonth at hq hq'
  simp only [calKey, List.map, CalField.get, lexLe, Bool.or_eq_true, Bool.and_eq_true,
    decide_eq_true_eq, beq_iff_eq, and_true]
  constructor <;> constructor <;> intro h <;> omega

/-- a pattern that pins a full date (year + month + day, or year + day of year): the parser
    fills all nine fields from that date, and the guard is then exactly "the old date is later" -/
theorem C14_guard_full_date (n n' : Nat) (h : 1 ≤ n) (h' : 1 ≤ n') :
    isCalGt (calInfoOrd n).toOpt (calInfoOrd n').toOpt = decide (n' < n) :=
  guard_full n n' h h'

/-- The guard compares ALL fields present on both sides, most significant first in the order of
    `V2CalendarInfo` (year_y, year_g, quarter, …). With fields beyond a coherent shape present
    it does not protect the shape: here the ISO parts go from 2021-W01 back to 2020-W53 although
    `_is_cal_gt` is false (such a pattern, calendar year with ISO week, is rejected up front). -/
theorem C14_guard_needs_exact_fields :
    let old : CalInfo := { (calInfo 2021 1 4) with yearY := 2020 }
    let cur : CalInfo := calInfo 2021 1 3
    isCalGt (old.mask [.yearY, .yearG, .weekV]) cur.toOpt = false ∧
    lexLe (calKey [.yearG, .weekV] old) (calKey [.yearG, .weekV] cur) = false := by decide

/-! ### non-vacuity: concrete instances meeting the hypotheses -/

example : coherent [.yearY, .month, .dom] = true := by decide
example : coherent [.yearG2, .weekV] = true := by decide
example : coherent [.yearY, .weekV] = false := by decide
example : calInfo 2019 4 7 = ⟨2019, 2019, 2, 4, 7, 97, 13, 14, 14⟩ := by decide
example : calInfoOrd 737793 = calInfo 2021 1 3 := by decide
example : ordinal 9999 12 31 = maxOrdinal := by decide
example : validDate 2020 2 29 = true ∧ validDate 2019 2 29 = false := by decide
-- New Year with a Sunday-based week: 2022-12-31 (week 52) → 2023-01-01 (a Sunday, week 1)
example : lexLe (calKey [.yearY, .weekU] (calInfo 2022 12 31)) (calKey [.yearY, .weekU] (calInfo 2023 1 1)) = true := by
  decide
-- ISO shape across New Year: 2020-12-31 (2020-W53) → 2021-01-04 (2021-W01)
example : calKey [.yearG, .weekV] (calInfo 2020 12 31) = [2020, 53] ∧
    calKey [.yearG, .weekV] (calInfo 2021 1 4) = [2021, 1] := by decide
-- the century side condition is needed: 1999-12-31 → 2000-01-01 with a two-digit year
example : lexLe (calKey [.yearY2, .month] (calInfo 1999 12 31)) (calKey [.yearY2, .month] (calInfo 2000 1 1)) = false := by
  decide
example : isValidWeekPattern "vYYYY.0V".toList = false := by decide
example : isValidWeekPattern "GGGG.WW".toList = false := by decide
example : isValidWeekPattern "vGGGG.0V".toList = true := by decide
example : isValidWeekPattern "vYYYY.0W".toList = true := by decide
-- the guard on a version "from the future": old 2031.05 against 2026-09 keeps the old parts
example : isCalGt ((calInfo 2031 5 1).mask [.yearY, .quarter, .month]) (calInfo 2026 9 29).toOpt = true := by
  decide
example : isCalGt ((calInfo 2026 5 1).mask [.yearY, .quarter, .month]) (calInfo 2026 9 29).toOpt = false := by
  decide

end BV
