/-
  Props/C05.lean — property C05: bump semantics follow the documented part rules.

  "For every pattern and current version, the bumped version's parts are exactly those the
   README prescribes: the selected MAJOR/MINOR/PATCH part +1; every resettable part (MAJOR,
   MINOR, PATCH, NUM, INC0 to 0, INC1 to 1) to the right of any changed part reset;
   INC0/INC1 +1 unless pinned or reset; BUILD strictly increased and TAG carried over unless
   --tag is given; NUM +1 with --tag-num; calendar parts taken from the given date unless
   pinned (then unchanged) and never moved backwards. Optional groups are omitted exactly when
   all their parts are zero, and parts not addressed by a flag or rule are unchanged."

  Model: Model/V2Version.lean (`incrNumeric`, `resetRolloverFields`, `verToCalInfo`,
  `isCalGt`, `formatSegs`) over the GENERATED tables.  The theorems are stated on the
  version record (`VInfo`) for ALL field lists (= all patterns), all values and all flag
  sets; how the record is rendered and read back is C02.  Helper lemmas: Proofs/V2Lemmas.lean.
-/
import BumpverVerif.Model.V2Version
import BumpverVerif.Proofs.V2Lemmas
import BumpverVerif.Proofs.Digits
import BumpverVerif.Props.C17
-- the functions this property's mechanism lives in are TRANSLATED from the Python source on every run (Gen/F_*.lean) and proved equal to the hand model:
import BumpverVerif.Proofs.Tie_isCalGt
import BumpverVerif.Proofs.Tie_verToCalInfo
namespace BV

private def S (s : String) : Str := s.toList

/-- the resettable fields and their initial values, as the README states them -/
def initialOf (f : Str) : Option Nat :=
  if f = S "major" ∨ f = S "minor" ∨ f = S "patch" ∨ f = S "num" ∨ f = S "inc0" then some 0
  else if f = S "inc1" then some 1 else none

/-- the generated `V2_FIELD_INITIAL_VALUES` table says exactly that -/
theorem C05_initial_table (f : Str) :
    (lookup f Gen.fieldInitialValues).map strToNat = initialOf f := by
  unfold initialOf S
  simp only [Gen.fieldInitialValues, lookup]
  by_cases h1 : f = "major".toList
  · subst h1; rfl
  by_cases h2 : f = "minor".toList
  · subst h2; rfl
  by_cases h3 : f = "patch".toList
  · subst h3; rfl
  by_cases h4 : f = "num".toList
  · subst h4; rfl
  by_cases h5 : f = "inc0".toList
  · subst h5; rfl
  by_cases h6 : f = "inc1".toList
  · subst h6; rfl
  simp only [h1, h2, h3, h4, h5, h6, ↓reduceIte, or_self, Option.map_none]

/-- "some field strictly to the left of position `i` changed" -/
def changedLeft (fs : List Str) (old cur : VInfo) (i : Nat) : Bool :=
  (fs.take i).any (fun f => old.get f != cur.get f)

/-- THE RESET RULE, for every field list (every pattern): a resettable part is reset to its
    initial value iff some part to its left changed; everything else is left as it was.
    (`fs` lists distinct fields: a field occurs at most once in a supported pattern.) -/
theorem C05_reset_rule (fs : List Str) (hnd : fs.Nodup) (old cur : VInfo) (i : Nat) (f : Str)
    (hf : fs[i]? = some f) :
    (resetRolloverFields fs old cur).get f =
      (match initialOf f with
       | some init => if changedLeft fs old cur i then FV.nat init else cur.get f
       | none => cur.get f) := by
  rw [resetRolloverFields_eq,
    applyItems_get f _ cur (fun fi h => (resetItemsGo_mem old cur fs false fi h).1)]
  have htab := C05_initial_table f
  cases hl : lookup f Gen.fieldInitialValues with
  | none =>
    rw [hl] at htab
    rw [← htab]
    rfl
  | some init =>
    rw [hl] at htab
    rw [← htab, resetItemsGo_any old cur fs false i f init hnd hf hl]
    rfl

/-- fields that are not in the pattern, and all non-resettable fields, are never touched by the reset -/
theorem C05_reset_untouched (fs : List Str) (old cur : VInfo) (f : Str)
    (h : f ∉ fs ∨ initialOf f = none) :
    (resetRolloverFields fs old cur).get f = cur.get f := by
  rw [resetRolloverFields_eq,
    applyItems_get f _ cur (fun fi h => (resetItemsGo_mem old cur fs false fi h).1)]
  have htab := C05_initial_table f
  cases hl : lookup f Gen.fieldInitialValues with
  | none => rfl
  | some init =>
    rw [hl] at htab
    rcases h with h | h
    · simp only [resetItemsGo_any_not_mem old cur fs false f h, Bool.false_eq_true, ↓reduceIte]
    · rw [h] at htab; cases htab

/-- the value of every numeric field BEFORE the reset scan: selected part +1, INC0/INC1 +1
    unless pinned, NUM: 0 if the tag changes or the result is final, else +1 with --tag-num -/
def preReset (cur : VInfo) (fl : IncrFlags) (newTag : Str) : VInfo :=
  { cur with
    major := cur.major + (if fl.major then 1 else 0),
    minor := cur.minor + (if fl.minor then 1 else 0),
    patch := cur.patch + (if fl.patch then 1 else 0),
    num := if newTag ≠ cur.tag ∨ newTag = S "final" then 0 else cur.num + (if fl.tagNum then 1 else 0),
    inc0 := cur.inc0 + (if fl.pinIncrements then 0 else 1),
    inc1 := cur.inc1 + (if fl.pinIncrements then 0 else 1),
    tag := newTag }

/-- the tag after the bump: the given tag, else carried over -/
def newTagOf (cur : VInfo) (fl : IncrFlags) : Str :=
  match fl.tag with
  | some t => if t.isEmpty then cur.tag else t
  | none => cur.tag

/-- THE INCREMENT RULES: `incrNumeric` is "apply the flag rules, take the BUILD successor,
    then apply the reset rule" — for all versions, flags and field lists -/
theorem C05_incr_numeric (fs : List Str) (old cur : VInfo) (fl : IncrFlags) (new : VInfo)
    (htag : ∀ t, fl.tag = some t → t ∈ Gen.validReleaseTagValues)
    (h : incrNumeric fs old cur fl = .ok new) :
    ∃ b pt, bumpBid cur.bid = some b ∧
      new = resetRolloverFields fs old
              { preReset cur fl (newTagOf cur fl) with bid := b, pytag := pt } ∧
      (newTagOf cur fl = cur.tag → fl.tag = none ∨ fl.tag = some [] → pt = cur.pytag) ∧
      (∀ t, fl.tag = some t → t ≠ [] → lookup t Gen.pep440TagByTag = some pt) := by
  have _ := htag   -- not needed: an unknown tag makes `incrNumeric` fail with KeyError
  obtain ⟨b, tg, pt, hb, hcase, hnew⟩ := incrNumeric_ok fs old cur fl new h
  rcases hcase with ⟨hno, htg, hpt⟩ | ⟨hsome, hne, hl⟩
  · have hnt : newTagOf cur fl = cur.tag := by
      unfold newTagOf; rcases hno with e | e <;> rw [e] <;> rfl
    refine ⟨b, pt, hb, ?_, fun _ _ => hpt, ?_⟩
    · rw [hnew, hnt, htg]; rfl
    · intro t ht hne
      rcases hno with e | e <;> rw [e] at ht <;> cases ht
      exact absurd rfl hne
  · have hnt : newTagOf cur fl = tg := by
      unfold newTagOf; rw [hsome]
      cases tg with
      | nil => exact absurd rfl hne
      | cons => rfl
    refine ⟨b, pt, hb, ?_, ?_, ?_⟩
    · rw [hnew, hnt]; rfl
    · intro _ hor
      rcases hor with e | e <;> rw [hsome] at e <;> cases e
      exact absurd rfl hne
    · intro t ht _
      rw [hsome] at ht; cases ht; exact hl

/-- BUILD strictly increases (as an integer), TAG is carried over unless --tag is given -/
theorem C05_build_strict_tag_carried (fs : List Str) (old cur : VInfo) (fl : IncrFlags) (new : VInfo)
    (hb : isDigitStr cur.bid = true)
    (htag : ∀ t, fl.tag = some t → t ∈ Gen.validReleaseTagValues)
    (h : incrNumeric fs old cur fl = .ok new) :
    strToNat cur.bid < strToNat new.bid ∧ new.tag = newTagOf cur fl := by
  obtain ⟨b, pt, hbump, hnew, _, _⟩ := C05_incr_numeric fs old cur fl new htag h
  have h1 := C05_reset_untouched fs old
    { preReset cur fl (newTagOf cur fl) with bid := b, pytag := pt } (S "bid") (.inr (by decide))
  have h2 := C05_reset_untouched fs old
    { preReset cur fl (newTagOf cur fl) with bid := b, pytag := pt } (S "tag") (.inr (by decide))
  rw [← hnew] at h1 h2
  have hbid : new.bid = b := FV.str.inj h1
  have htg : new.tag = newTagOf cur fl := FV.str.inj h2
  exact ⟨hbid ▸ C17_int_strict cur.bid b hb hbump, htg⟩

/-- a final release never carries a release number (the repaired D4 defect) -/
theorem C05_final_has_no_num (fs : List Str) (old cur : VInfo) (fl : IncrFlags) (new : VInfo)
    (htag : ∀ t, fl.tag = some t → t ∈ Gen.validReleaseTagValues)
    (h : incrNumeric fs old cur fl = .ok new) (hfin : new.tag = S "final") : new.num = 0 := by
  obtain ⟨b, pt, _, hnew, _, _⟩ := C05_incr_numeric fs old cur fl new htag h
  have h2 := C05_reset_untouched fs old
    { preReset cur fl (newTagOf cur fl) with bid := b, pytag := pt } (S "tag") (.inr (by decide))
  rw [← hnew] at h2
  have htg : new.tag = newTagOf cur fl := FV.str.inj h2
  have hpre : (preReset cur fl (newTagOf cur fl)).num = 0 := by
    rw [← htg, hfin]; unfold preReset; simp
  rcases resetRolloverFields_get_cases fs old
    { preReset cur fl (newTagOf cur fl) with bid := b, pytag := pt } (S "num") with h3 | ⟨init, hl, h3⟩
  · rw [← hnew] at h3
    have : new.num = (preReset cur fl (newTagOf cur fl)).num := FV.nat.inj h3
    rw [this, hpre]
  · rw [← hnew] at h3
    have hi : init = "0".toList := by
      have : lookup (S "num") Gen.fieldInitialValues = some "0".toList := by decide
      rw [this] at hl; exact (Option.some.inj hl).symm
    subst hi
    exact FV.nat.inj h3

/-- --pin-date keeps every calendar part that the version shows — including parts whose value
    is 0 such as week 0 (the repaired D3 defect) -/
theorem C05_pin_date_keeps (v : VInfo) (dflt : CalInfo) :
    let c := verToCalInfo v dflt
    (∀ x, v.cal.yearY = some x → c.yearY = some x) ∧ (∀ x, v.cal.yearG = some x → c.yearG = some x) ∧
    (∀ x, v.cal.quarter = some x → c.quarter = some x) ∧ (∀ x, v.cal.month = some x → c.month = some x) ∧
    (∀ x, v.cal.dom = some x → c.dom = some x) ∧ (∀ x, v.cal.doy = some x → c.doy = some x) ∧
    (∀ x, v.cal.weekW = some x → c.weekW = some x) ∧ (∀ x, v.cal.weekU = some x → c.weekU = some x) ∧
    (∀ x, v.cal.weekV = some x → c.weekV = some x) := by
  simp only [verToCalInfo]
  refine ⟨?_, ?_, ?_, ?_, ?_, ?_, ?_, ?_, ?_⟩ <;> (intro x hx; rw [hx])

/-- pinned calendar parts never trigger the "version from the future" guard: the calendar parts
    of the result are exactly `verToCalInfo old today` (old values where present) -/
theorem C05_pin_date_not_future (v : VInfo) (dflt : CalInfo) :
    isCalGt v.cal (verToCalInfo v dflt) = false := by
  exact isCalGt_verToCalInfo v dflt

/-- the calendar rule of `incr`: the calendar parts of the working record are the date's, unless
    the old version is lexicographically greater on the shared parts — then nothing moves -/
def calAfter (old : VInfo) (dateCal : CalOpt) : CalOpt :=
  if isCalGt old.cal dateCal then old.cal else dateCal

theorem C05_calendar_never_backwards (old : VInfo) (dateCal : CalOpt) :
    isCalGt old.cal (calAfter old dateCal) = false := by
  unfold calAfter
  by_cases h : isCalGt old.cal dateCal = true
  · rw [if_pos h]; exact isCalGt_self old.cal
  · rw [if_neg h]; simpa using h

/-! ### optional groups are omitted exactly when all their parts are zero -/

/-- all parts occurring in a segment list (searched as the code does: by substring) -/
def segParts (pvs : List (Str × Str)) : List Seg → List (Str × Str)
  | [] => []
  | .lit s :: rest => pvs.filter (fun pv => isInfix pv.1 s) ++ segParts pvs rest
  | .grp items :: rest => segParts pvs items ++ segParts pvs rest

private theorem segParts_cons (pvs : List (Str × Str)) (s : Seg) (rest : List Seg) :
    segParts pvs (s :: rest) = segParts pvs [s] ++ segParts pvs rest := by
  cases s <;> simp [segParts]

mutual
  /-- one item: its contribution to the `is_zero` flag of the enclosing loop -/
  private theorem formatSeg_zero (pvs : List (Str × Str)) : (s : Seg) → (z : Bool) →
      (((if (formatSeg pvs s).isLiteral then z else ((formatSeg pvs s).isZero && z)) = true) ↔
        ((∀ pv ∈ segParts pvs [s], isZeroVal pv.1 pv.2 = true) ∧ z = true))
    | .lit str, z => by
      simp only [formatSeg, segParts, List.append_nil]
      exact formatSegment_flags str pvs z
    | .grp items, z => by
      have ih := formatSegs_zero pvs items
      simp only [formatSeg, segParts, List.append_nil, Bool.false_eq_true, ↓reduceIte,
        Bool.and_eq_true, ih]
  private theorem formatSegs_zero (pvs : List (Str × Str)) : (items : List Seg) →
      ((formatSegs pvs items).1 = true ↔ ∀ pv ∈ segParts pvs items, isZeroVal pv.1 pv.2 = true)
    | [] => by simp [formatSegs, segParts]
    | s :: rest => by
      have ih1 := formatSeg_zero pvs s (formatSegs pvs rest).1
      have ih2 := formatSegs_zero pvs rest
      rw [segParts_cons]
      simp only [formatSegs]
      rw [ih1, ih2]
      simp only [List.mem_append]
      constructor
      · rintro ⟨h1, h2⟩ pv (h | h)
        · exact h1 pv h
        · exact h2 pv h
      · intro h
        exact ⟨fun pv hp => h pv (.inl hp), fun pv hp => h pv (.inr hp)⟩
end

/-- a group is rendered empty iff every part inside it (at any depth) has its zero value —
    for ALL segment trees (all nestings) and all part values -/
theorem C05_optional_omission (pvs : List (Str × Str)) (items : List Seg) :
    (formatSegs pvs items).1 = true ↔ ∀ pv ∈ segParts pvs items, isZeroVal pv.1 pv.2 = true := by
  exact formatSegs_zero pvs items

/-- WHAT "zero" MEANS in the regenerated table (`version.PART_ZERO_VALUES`): exactly the parts the README lets
    vanish — MAJOR MINOR PATCH NUM INC0 at the number 0, TAG at `final`, PYTAG at the empty string — and nothing
    else: INC1 (which starts at 1), BUILD and the calendar parts never count as zero, so a group holding one of
    them is never omitted.  An edited table (an entry added, a value changed, an entry dropped) breaks this. -/
theorem C05_zero_values :
    Gen.partZeroValues.all (fun pz =>
      (["MAJOR", "MINOR", "PATCH", "NUM", "INC0"].map String.toList).contains pz.1 && pz.2 == "0".toList ||
      pz.1 == "TAG".toList && pz.2 == "final".toList || pz.1 == "PYTAG".toList && pz.2 == []) = true ∧
    (["MAJOR", "MINOR", "PATCH", "NUM", "INC0", "TAG", "PYTAG"].map String.toList).all
      (fun n => (lookup n Gen.partZeroValues).isSome) = true ∧
    isZeroVal "INC1".toList "1".toList = false ∧ isZeroVal "INC1".toList "0".toList = false ∧
    isZeroVal "BUILD".toList "0".toList = false ∧ isZeroVal "BLD".toList "0".toList = false := by
  refine ⟨?_, ?_, ?_, ?_, ?_, ?_⟩ <;> decide

theorem C05_omitted_renders_empty (pvs : List (Str × Str)) (items : List Seg)
    (h : (formatSegs pvs items).1 = true) : (formatSeg pvs (.grp items)).result = [] := by
  simp only [formatSeg, h, ↓reduceIte]

end BV
