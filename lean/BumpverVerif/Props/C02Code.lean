/-
  Props/C02Code.lean — property C02 ON THE CODE'S OWN FUNCTIONS, in the form of the definitions GENERATED from the
  Python source:

    GenF.formatVersion     ⟸ AST of `v2version.format_version`      (Gen/F_formatVersion.lean, harness/translate_format.py)
    GenF.parseVersionInfo  ⟸ AST of `v2version.parse_version_info`  (Gen/F_parseVersionInfo.lean, harness/translate_parse.py)
    GenF.isValid           ⟸ AST of `v2version.is_valid`            (Gen/F_isValid.lean)

  "For every supported pattern and every version state reachable by bumping, the text bumpver renders is accepted in
   full by the recogniser compiled from that same pattern, reads back as the same version (every part equal), and
   rendering what was read back reproduces the text byte for byte.  Hence the version announced by one run is always a
   legal current version for `show` and for the next run."

  HEADLINE `C02_code`: for every pattern tree `p` and every version record `v` with

    tokSafe p                     the tree ↔ string-surgery side condition (Model/PatText.lean; decidable on the pattern),
    noPlaceholder (Pat.text p)    the pattern text has no `{version}` / `{pep440_version}` (then normalize_pattern is the
                                  identity; `noPlaceholder_of_noBrace`: a tree without a literal `{` has none),
    Pat.wfTop p                   "uniquely readable" (Model/PatWf.lean; decidable on the pattern),
    Pat.vok v p                   `v` lies in the domain of every part that is rendered (decidable),
    tagCoh v                      an empty `pytag` belongs to the tag `final` (invariant of every record read or bumped),
    CalReadsBack p v today        the calendar fields of the pattern read back (discharged in `C02_code_of_date` for
                                  every record whose calendar is `cal_info(date)` — what a bump produces),
    today.2.1 ≠ 0                 the month of `version.TODAY` is not 0 (true of every `datetime.date`; needed by
                                  `tie_parseCinfo`: Python tests `if month:`),

  there are a text `s` and a record `v'` such that — all about the TRANSLATED PYTHON FUNCTIONS, with the pattern given
  as the TEXT `Pat.text p` (a `Str` = list of characters; the version record is the model's `VInfo`, which is the
  record type of the generated definitions too; `today` = `version.TODAY` as (year, month, day)):

    GenF.formatVersion v (Pat.text p)              = .ok s          format_version renders s
    s                                              = Pat.render v p   (the structural rendering)
    GenF.parseVersionInfo s (Pat.text p) today     = .ok v'         parse_version_info accepts s IN FULL, reads v'
    Pat.agree v v' p                                                every part equal, omitted groups omitted again
    GenF.formatVersion v' (Pat.text p)             = .ok s          rendering what was read back reproduces s
    GenF.isValid s (Pat.text p) today              = .ok true       s is a legal current version
    tagCoh v'

  Composition: `C02_roundtrip_ast` (tree level, Props/C02.lean) ∘ `compile_tie` / `format_tie` (tree = string surgery,
  Props/C02Tie.lean) ∘ `tie_formatVersion` / `tie_parseVersionInfo` / `tie_isValid` (generated definition = hand model,
  Proofs/Tie_*.lean) — the group-name hypothesis of the latter two is discharged by `validGroupNames_compile`
  (Proofs/TieN_Groups.lean).

  THE OPEN END of `C02_roundtrip_code` ("rendering what was read back", stated there on the tree only) is closed by
  `valok_of_agree` + `formatVersion_valok` (Proofs/TieN_Format.lean): `format_version` needs of the record only that the
  rendered parts have non-empty values without upper-case letters, and that is a property of the part TEXTS, on which
  `v'` agrees with `v`.  `Pat.vok v' p` itself (domain membership of what was read) is NOT a consequence:
  `vok_readback_needs_condition` below (a two-digit ISO year next to a full date) — it holds when the calendar
  FIELDS of the pattern read back to their values (`C02_readback_vok` below, `CalFieldsReadBack` in Proofs/TieN_ReadBack.lean:
  true of every record whose calendar is `cal_info(date)`, and of every pattern without a two-digit-year part).
-/
import BumpverVerif.Props.C02Tie
import BumpverVerif.Proofs.TieN_Groups
import BumpverVerif.Proofs.TieN_Format
import BumpverVerif.Proofs.TieN_ReadBack
import BumpverVerif.Proofs.Tie_formatVersion
namespace BV
open TieN

namespace TieN

/-- everything `parse_version_info` returns is tag/pytag-coherent -/
theorem parseWithRe_tagCoh (r : Re) (s : Str) (today : Nat × Nat × Nat) (v' : VInfo)
    (h : parseWithRe r s today = .ok v') : tagCoh v' = true := by
  unfold parseWithRe at h
  split at h
  · cases h
  · split at h
    · cases h
    · split at h
      · cases h
      · cases h
      · next m _ _ x _ _ =>
        exact parseVinfo_tagCoh _ today v' h

theorem parseVersionInfo_tagCoh (s raw : Str) (today : Nat × Nat × Nat) (v' : VInfo)
    (h : parseVersionInfo s raw today = .ok v') : tagCoh v' = true := by
  unfold parseVersionInfo at h
  split at h
  · cases h
  · exact parseWithRe_tagCoh _ s today v' h

end TieN

/-- THE FULL ROUND TRIP on the hand model of the code's functions: `C02_roundtrip_code` with its open end closed —
    `format_version` of the record that was read back IS the text (not only `Pat.render` of it) -/
theorem C02_roundtrip_code_full (p : Pat) (v : VInfo) (today : Nat × Nat × Nat) (hs : tokSafe p = true)
    (hp : noPlaceholder (Pat.text p) = true)
    (hwf : Pat.wfTop p = true) (hv : Pat.vok v p = true) (htc : tagCoh v = true) (hc : CalReadsBack p v today) :
    ∃ s v', formatVersion v (Pat.text p) = .ok s ∧ s = Pat.render v p ∧
      parseVersionInfo s (Pat.text p) today = .ok v' ∧
      Pat.agree v v' p = true ∧ formatVersion v' (Pat.text p) = .ok s ∧ tagCoh v' = true := by
  obtain ⟨h1, h2⟩ := (noPlaceholder_iff _).mp hp
  obtain ⟨s, v', a, b, c, d⟩ := C02_roundtrip_code p v today hs h1 h2 hwf hv htc hc
  have hs' : s = Pat.render v p := by
    rw [format_tie p v hs hv htc] at a
    exact (Except.ok.inj a).symm
  have htc' := parseVersionInfo_tagCoh s _ today v' b
  refine ⟨s, v', a, hs', b, c, ?_, htc'⟩
  rw [formatVersion_valok p v' hs (valok_of_agree v v' p c (valok_of_vok v p hv)) htc', d]

/-- **C02 on the translated Python functions** (see the head of this file) -/
theorem C02_code (p : Pat) (v : VInfo) (today : PDate) (hT : today.2.1 ≠ 0) (hs : tokSafe p = true)
    (hp : noPlaceholder (Pat.text p) = true)
    (hwf : Pat.wfTop p = true) (hv : Pat.vok v p = true) (htc : tagCoh v = true) (hc : CalReadsBack p v today) :
    ∃ s v', GenF.formatVersion v (Pat.text p) = .ok s ∧ s = Pat.render v p ∧
      GenF.parseVersionInfo s (Pat.text p) today = .ok v' ∧
      Pat.agree v v' p = true ∧
      GenF.formatVersion v' (Pat.text p) = .ok s ∧
      GenF.isValid s (Pat.text p) today = .ok true ∧ tagCoh v' = true := by
  obtain ⟨s, v', a, e, b, c, d, t⟩ := C02_roundtrip_code_full p v today hs hp hwf hv htc hc
  refine ⟨s, v', (tie_formatVersion_ok v _ s).mpr a, e, ?_, c, (tie_formatVersion_ok v' _ s).mpr d, ?_, t⟩
  · rw [tie_parseVersionInfo_text p s today hT hs hp, b]
  · rw [tie_isValid_text p s today hT hs hp]
    unfold isValid
    rw [b]

/-- WHAT WAS READ BACK LIES IN THE DOMAIN AGAIN (model functions): whenever `format_version` rendered `s` and
    `parse_version_info` read `v'` from it, `v'` is in the domain of every rendered part — provided the calendar
    fields of the pattern read back to their VALUES (`CalFieldsReadBack`, Proofs/TieN_ReadBack.lean; without it:
    `vok_readback_needs_condition`) -/
theorem C02_readback_vok (p : Pat) (v : VInfo) (today : Nat × Nat × Nat) (hs : tokSafe p = true)
    (hp : noPlaceholder (Pat.text p) = true)
    (hwf : Pat.wfTop p = true) (hv : Pat.vok v p = true) (htc : tagCoh v = true)
    (hc : CalFieldsReadBack p v today) (s : Str) (v' : VInfo)
    (hf : formatVersion v (Pat.text p) = .ok s) (hpv : parseVersionInfo s (Pat.text p) today = .ok v') :
    Pat.vok v' p = true := by
  obtain ⟨h1, h2⟩ := (noPlaceholder_iff _).mp hp
  obtain ⟨r, -, hr⟩ := compile_tie_some p hs
  rw [format_tie p v hs hv htc] at hf
  cases Except.ok.inj hf
  rw [parseVersionInfo_tie p _ today r hs h1 h2 hr] at hpv
  exact readback_vok p v today hwf hv htc hc v' (parseWithRe_render p v r today v' hwf hv hr hpv)

/-- … the same about the translated Python functions -/
theorem C02_code_readback_vok (p : Pat) (v : VInfo) (today : PDate) (hT : today.2.1 ≠ 0) (hs : tokSafe p = true)
    (hp : noPlaceholder (Pat.text p) = true)
    (hwf : Pat.wfTop p = true) (hv : Pat.vok v p = true) (htc : tagCoh v = true)
    (hc : CalFieldsReadBack p v today) (s : Str) (v' : VInfo)
    (hf : GenF.formatVersion v (Pat.text p) = .ok s) (hpv : GenF.parseVersionInfo s (Pat.text p) today = .ok v') :
    Pat.vok v' p = true := by
  rw [tie_parseVersionInfo_text p s today hT hs hp] at hpv
  exact C02_readback_vok p v today hs hp hwf hv htc hc s v' ((tie_formatVersion_ok v _ s).mp hf) hpv

/-- **C02 for "every version state reachable by bumping"**: the calendar of a bumped record is `cal_info` of the bump
    date (`calAnchored` excludes patterns whose only calendar parts are WW / UU / Q, see `C02_roundtrip_of_date`).
    Here the record that was read back is in the domain again (`Pat.vok v' p`) and coherent (`tagCoh v'`): it
    satisfies the record hypotheses of this theorem except the calendar one. -/
theorem C02_code_of_date (p : Pat) (v : VInfo) (today : PDate) (y m d : Nat) (hT : today.2.1 ≠ 0)
    (hd : validDate y m d = true) (hcal : v.cal = (calInfo y m d).toOpt)
    (hs : tokSafe p = true) (hp : noPlaceholder (Pat.text p) = true)
    (hwf : Pat.wfTop p = true) (hv : Pat.vok v p = true) (htc : tagCoh v = true) (ha : Pat.calAnchored p = true) :
    ∃ s v', GenF.formatVersion v (Pat.text p) = .ok s ∧ s = Pat.render v p ∧
      GenF.parseVersionInfo s (Pat.text p) today = .ok v' ∧
      Pat.agree v v' p = true ∧
      GenF.formatVersion v' (Pat.text p) = .ok s ∧
      GenF.isValid s (Pat.text p) today = .ok true ∧ tagCoh v' = true ∧ Pat.vok v' p = true := by
  have hcf := calFieldsReadBack_of_date p v today y m d hd hcal hwf hv ha
  obtain ⟨s, v', a, e, b, c, d2, f, g⟩ :=
    C02_code p v today hT hs hp hwf hv htc (calReadsBack_of_fields p v today hcf)
  exact ⟨s, v', a, e, b, c, d2, f, g, C02_code_readback_vok p v today hT hs hp hwf hv htc hcf s v' a b⟩

/-- … for pattern TEXT: every hypothesis on the pattern is decidable on the text `pat` (tokenise, then check) -/
theorem C02_code_str (pat : Str) (p : Pat) (v : VInfo) (today : PDate) (y m d : Nat) (hT : today.2.1 ≠ 0)
    (ht : tokenize pat = some p) (hpt : Pat.text p = pat)
    (hd : validDate y m d = true) (hcal : v.cal = (calInfo y m d).toOpt)
    (hs : tokSafe p = true) (hp : noPlaceholder pat = true)
    (hwf : Pat.wfTop p = true) (hv : Pat.vok v p = true) (htc : tagCoh v = true) (ha : Pat.calAnchored p = true) :
    ∃ s v', GenF.formatVersion v pat = .ok s ∧
      GenF.parseVersionInfo s pat today = .ok v' ∧
      Pat.agree v v' p = true ∧
      GenF.formatVersion v' pat = .ok s ∧
      GenF.isValid s pat today = .ok true ∧ tagCoh v' = true ∧ Pat.vok v' p = true := by
  have _ := ht
  subst hpt
  obtain ⟨s, v', a, -, b, c, d2, e, f, g⟩ := C02_code_of_date p v today y m d hT hd hcal hs hp hwf hv htc ha
  exact ⟨s, v', a, b, c, d2, e, f, g⟩

/-! ### non-vacuity: the README's example patterns -/

theorem C02Code_readme_noPlaceholder : readmePatterns.all (fun s => noPlaceholder s.toList) = true := by
  decide +kernel

/-- every README example pattern is inside the headline theorem: for every record in the domain whose calendar is
    `cal_info` of a valid date, the translated `format_version` / `parse_version_info` / `is_valid` round-trip -/
theorem C02_code_readme (pat : String) (hpat : pat ∈ readmePatterns) :
    ∃ p, tokenize pat.toList = some p ∧
      ∀ (v : VInfo) (today : PDate) (y m d : Nat), today.2.1 ≠ 0 → validDate y m d = true →
        v.cal = (calInfo y m d).toOpt → Pat.vok v p = true → tagCoh v = true →
        ∃ s v', GenF.formatVersion v pat.toList = .ok s ∧
          GenF.parseVersionInfo s pat.toList today = .ok v' ∧
          Pat.agree v v' p = true ∧
          GenF.formatVersion v' pat.toList = .ok s ∧
          GenF.isValid s pat.toList today = .ok true ∧ tagCoh v' = true ∧ Pat.vok v' p = true := by
  have h1 := List.all_eq_true.mp C02Tie_readme_tokSafe pat hpat
  have h2 := List.all_eq_true.mp C02_readme_patterns_wf pat hpat
  have h3 := List.all_eq_true.mp C02Code_readme_noPlaceholder pat hpat
  cases ht : tokenize pat.toList with
  | none => rw [ht] at h1; cases h1
  | some p =>
    rw [ht] at h1 h2
    simp only [Bool.and_eq_true, beq_iff_eq] at h1 h2
    exact ⟨p, rfl, fun v today y m d hT hd hcal hv htc =>
      C02_code_str pat.toList p v today y m d hT ht h1.2 hd hcal h1.1 h3 h2.1 hv htc h2.2⟩

/-! ### `Pat.vok` of the record read back needs a condition -/

/-- `GG.YYYY.MM.DD`: a two-digit ISO year next to a full date -/
def vokNeedsPat : Pat :=
  .part "GG".toList (.lit '.' (.part "YYYY".toList (.lit '.' (.part "MM".toList (.lit '.' (.part "DD".toList .done))))))

/-- the date 1923-06-01 with the (inconsistent) ISO year 2023: every part is in its domain -/
def vokNeedsRec : VInfo :=
  { cal := { (calInfo 1923 6 1).toOpt with yearG := some 2023 }, major := 0, minor := 0, patch := 0,
    bid := "1000".toList, tag := "final".toList, pytag := [], num := 0, inc0 := 0, inc1 := 1 }

set_option maxRecDepth 100000 in
/-- WITNESS: all hypotheses of `C02_code` hold (the text `23.1923.6.1` is rendered, accepted, read back and rendered
    again to the same text), but the record read back has `year_g = 1923` (`parse_field_values_to_cinfo` re-derives
    every calendar field from the date 1923-06-01), outside the domain 2001..2099 of `GG`: `Pat.vok v' p` fails, and
    `CalFieldsReadBack` fails with it.  (Real code: `format_version` → "23.1923.6.1", `parse_version_info` →
    year_g 1923, `format_version` again → "23.1923.6.1".) -/
theorem vok_readback_needs_condition :
    Pat.text vokNeedsPat = "GG.YYYY.MM.DD".toList ∧ tokSafe vokNeedsPat = true ∧
    noPlaceholder (Pat.text vokNeedsPat) = true ∧ Pat.wfTop vokNeedsPat = true ∧
    Pat.vok vokNeedsRec vokNeedsPat = true ∧ tagCoh vokNeedsRec = true ∧
    CalReadsBack vokNeedsPat vokNeedsRec (2024, 5, 17) ∧
    Pat.render vokNeedsRec vokNeedsPat = "23.1923.6.1".toList ∧
    (match parseVinfo (Pat.fv vokNeedsRec vokNeedsPat) (2024, 5, 17) with
     | .ok v' => Pat.agree vokNeedsRec v' vokNeedsPat && (Pat.render v' vokNeedsPat == "23.1923.6.1".toList) &&
                 (v'.cal.yearG == some 1923) && !Pat.vok v' vokNeedsPat
     | .error _ => false) = true := by
  refine ⟨by decide +kernel, by decide +kernel, by decide +kernel, by decide +kernel, by decide +kernel,
    by decide +kernel, ⟨(calInfo 1923 6 1).toOpt, by decide +kernel, by decide +kernel⟩, by decide +kernel,
    by decide +kernel⟩

end BV
