/-
  Props/C09.lean — property C09: the current version is the greatest matching tag in scope.

  "The version an update starts from is: with tag scope `default`, the greater of the config
   value and the greatest VCS tag that fully matches the version pattern; with `global`, the
   greatest matching tag on any branch; with `branch`, the greatest matching tag reachable
   from HEAD; and the config value when no tag matches. Tags that do not match the pattern
   never influence or break the result, and the new version never equals an existing tag on
   any branch."

  Model: Model/Cli.lean (`parseVersionTags`, `latestOf`, `startVersion`, `gate`,
  `cliUpdateVersion`); the order is C16's (`pepLe`/`pepLt` = `verLe`/`verLt` on parsed
  strings).  For ALL tag lists, patterns and config values.  `is_valid` can still end in an
  error other than PatternError for patterns outside the supported language (calendar part
  inside an omitted optional group: TypeError) — those are the `.error` results below;
  calendar-impossible tags are plain "invalid" after the D7 repair.
-/
import BumpverVerif.Model.Cli
import BumpverVerif.Props.C16
import BumpverVerif.Proofs.CliLemmas
namespace BV

/-- the matching tags are exactly the listed tags that are valid versions of the pattern -/
theorem C09_matching_tags (pat : Str) (today : Nat × Nat × Nat) (tags vts : List Str)
    (h : parseVersionTags pat today tags = .ok vts) :
    vts = tags.filter (fun t => isValid t pat today == .ok true) := by
  exact parseVersionTags_filter pat today tags vts h

/-- no matching tag ↔ no latest tag -/
theorem C09_latest_none_iff (ts : List Str) : latestOf ts = none ↔ ts = [] := by
  exact latestOf_none_iff ts

/-- the latest tag is a matching tag and no matching tag is greater (PEP 440 order, C16) -/
theorem C09_latest_is_max (ts : List Str) (t : Str) (h : latestOf ts = some t) :
    t ∈ ts ∧ ∀ u ∈ ts, pepLe u t = true := by
  exact latestOf_max ts t h

/-- no tag matches → the config value -/
theorem C09_no_matching_tag (scope : TagScope) (pat cfgv : Str) (today : Nat × Nat × Nat) (tags : List Str)
    (h : parseVersionTags pat today tags = .ok []) : startVersion scope pat cfgv today tags = .ok cfgv := by
  rw [startVersion_of_tags h]
  rfl

/-- scope `default`: the greater of the config value and the greatest matching tag -/
theorem C09_start_default (pat cfgv : Str) (today : Nat × Nat × Nat) (tags vts : List Str) (s : Str)
    (hv : parseVersionTags pat today tags = .ok vts)
    (h : startVersion .default pat cfgv today tags = .ok s) :
    (s = cfgv ∧ ∀ u ∈ vts, pepLe u cfgv = true) ∨
    (s ∈ vts ∧ pepLt cfgv s = true ∧ ∀ u ∈ vts, pepLe u s = true) := by
  rw [startVersion_of_tags hv] at h
  split at h
  · rename_i hn
    have hnil := (latestOf_none_iff vts).1 hn
    subst hnil
    injection h with h
    exact .inl ⟨h.symm, by simp⟩
  · rename_i t ht
    obtain ⟨hmem, hmax⟩ := latestOf_max vts t ht
    simp only at h
    split at h
    · rename_i hle
      injection h with h
      exact .inl ⟨h.symm, fun u hu => pepLe_trans (hmax u hu) hle⟩
    · rename_i hle
      injection h with h
      subst h
      exact .inr ⟨hmem, pepLt_of_not_le (by simpa using hle), hmax⟩

/-- scopes `global` and `branch`: the greatest matching tag of the listing of that scope -/
theorem C09_start_global_branch (scope : TagScope) (hs : scope ≠ .default) (pat cfgv : Str)
    (today : Nat × Nat × Nat) (tags vts : List Str) (s : Str)
    (hv : parseVersionTags pat today tags = .ok vts) (hne : vts ≠ [])
    (h : startVersion scope pat cfgv today tags = .ok s) :
    s ∈ vts ∧ ∀ u ∈ vts, pepLe u s = true := by
  rw [startVersion_of_tags hv] at h
  split at h
  · rename_i hn
    exact absurd ((latestOf_none_iff vts).1 hn) hne
  · rename_i t ht
    have hst : s = t := by
      cases scope with
      | default => exact absurd rfl hs
      | global => injection h with h; exact h.symm
      | branch => injection h with h; exact h.symm
    subst hst
    exact latestOf_max vts s ht

/-- tags that do not match the pattern never influence the result: inserting such a tag
    anywhere in the listing changes nothing (so any interleaving of junk is irrelevant) -/
theorem C09_junk_irrelevant (scope : TagScope) (pat cfgv : Str) (today : Nat × Nat × Nat)
    (l1 l2 : List Str) (j : Str) (hj : isValid j pat today = .ok false) :
    startVersion scope pat cfgv today (l1 ++ j :: l2) = startVersion scope pat cfgv today (l1 ++ l2) := by
  unfold startVersion latestVersionTag
  rw [parseVersionTags_junk pat today l1 l2 j hj]

/-- … and never break it: if every tag's validity is decided (no `.error`), the start version is defined -/
theorem C09_never_breaks (scope : TagScope) (pat cfgv : Str) (today : Nat × Nat × Nat) (tags : List Str)
    (h : ∀ t ∈ tags, ∃ b, isValid t pat today = .ok b) :
    ∃ s, startVersion scope pat cfgv today tags = .ok s := by
  obtain ⟨vts, hv⟩ := parseVersionTags_ok pat today tags h
  rw [startVersion_of_tags hv]
  cases latestOf vts with
  | none => exact ⟨cfgv, rfl⟩
  | some t =>
    cases scope with
    | default =>
      simp only
      split
      · exact ⟨cfgv, rfl⟩
      · exact ⟨t, rfl⟩
    | global => exact ⟨t, rfl⟩
    | branch => exact ⟨t, rfl⟩

/-- when the uniqueness check runs (branch scope or --set-version), an accepted new version is
    not among the matching tags of ANY branch -/
theorem C09_new_not_a_tag (pat old new : Str) (globalTags vts : List Str) (today : Nat × Nat × Nat)
    (hv : parseVersionTags pat today globalTags = .ok vts)
    (h : gate pat old new true globalTags today = .ok .accept) : new ∉ vts := by
  obtain ⟨vts', hv', hc⟩ := (gate_accept h).2.2 rfl
  rw [hv] at hv'
  injection hv' with hv'
  subst hv'
  intro hmem
  have : vts.contains new = true := List.contains_iff_mem.2 hmem
  rw [hc] at this
  cases this

/-- in scopes `default` and `global` (without --ignore-vcs-tag) the announced version is strictly
    greater than every matching tag of the listing, hence equal to none of them -/
theorem C09_new_above_scope_tags (scope : TagScope) (pat cfgv : Str) (fl : IncrFlags) (dg : Bool)
    (date today : Nat × Nat × Nat) (sv : Option Str) (scopeTags globalTags vts : List Str)
    (new pep start : Str)
    (hv : parseVersionTags pat today scopeTags = .ok vts)
    (h : cliUpdateVersion scope false pat cfgv fl dg date today sv scopeTags globalTags = (.announce new pep, start)) :
    ∀ u ∈ vts, pepLt u new = true ∧ u ≠ new := by
  obtain ⟨hstart, hgate⟩ := cliUpdateVersion_announce h
  simp only [Bool.false_eq_true, if_false] at hstart
  have hlt : pepLt start new = true := pepLt_of_not_le (gate_accept hgate).2.1
  intro u hu
  have hul : pepLt u new = true := pepLt_of_le_of_lt (startVersion_ge hv hstart u hu) hlt
  refine ⟨hul, fun heq => ?_⟩
  subst heq
  rw [pepLt_irrefl] at hul
  cases hul

/-! non-vacuity (order facts only; no regex evaluation in the kernel) -/
example : latestOf ["1.2.0".toList, "1.10.0".toList, "1.9".toList] = some "1.10.0".toList := by decide +kernel
example : latestOf ["1.2".toList, "1.2.0".toList] = some "1.2".toList := by decide +kernel   -- first of the maximal ones

end BV
