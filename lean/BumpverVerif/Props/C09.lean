/-
  Props/C09.lean — property C09: the current version is the greatest matching tag in scope.

  "The version an update starts from is: with tag scope `default`, the greater of the config
   value and the greatest VCS tag that fully matches the version pattern; with `global`, the
   greatest matching tag on any branch; with `branch`, the greatest matching tag reachable
   from HEAD; and the config value when no tag matches. Tags that do not match the pattern
   never influence or break the result, and the new version never equals an existing tag on
   any branch."

  Model: Model/Cli.lean (`parseVersionTags`, `latestOf`, `startVersion`, `gate`,
  `cliUpdateVersion`); the order is C16's (`pepLe`/`pepLt` = `verLe`/`verLt` on parsed
  strings).  For ALL tag lists, patterns and config values.  `is_valid` can still end in an
  error other than PatternError for patterns outside the supported language (calendar part
  inside an omitted optional group: TypeError) — those are the `.error` results below;
  calendar-impossible tags are plain "invalid" after the D7 repair.
-/
import BumpverVerif.Model.Cli
import BumpverVerif.Props.C16
import BumpverVerif.Proofs.CliLemmas
namespace BV

/-- the matching tags are exactly the listed tags that are valid versions of the pattern -/
theorem C09_matching_tags (pat : Str) (today : Nat × Nat × Nat) (tags vts : List Str)
    (h : parseVersionTags pat today tags = .ok vts) :
    vts = tags.filter (fun t => isValid t pat today == .ok true) := by
  sorry

/-- no matching tag ↔ no latest tag -/
theorem C09_latest_none_iff (ts : List Str) : latestOf ts = none ↔ ts = [] := by
  sorry

/-- the latest tag is a matching tag and no matching tag is greater (PEP 440 order, C16) -/
theorem C09_latest_is_max (ts : List Str) (t : Str) (h : latestOf ts = some t) :
    t ∈ ts ∧ ∀ u ∈ ts, pepLe u t = true := by
  sorry

/-- no tag matches → the config value -/
theorem C09_no_matching_tag (scope : TagScope) (pat cfgv : Str) (today : Nat × Nat × Nat) (tags : List Str)
    (h : parseVersionTags pat today tags = .ok []) : startVersion scope pat cfgv today tags = .ok cfgv := by
  sorry

/-- scope `default`: the greater of the config value and the greatest matching tag -/
theorem C09_start_default (pat cfgv : Str) (today : Nat × Nat × Nat) (tags vts : List Str) (s : Str)
    (hv : parseVersionTags pat today tags = .ok vts)
    (h : startVersion .default pat cfgv today tags = .ok s) :
    (s = cfgv ∧ ∀ u ∈ vts, pepLe u cfgv = true) ∨
    (s ∈ vts ∧ pepLt cfgv s = true ∧ ∀ u ∈ vts, pepLe u s = true) := by
  sorry

/-- scopes `global` and `branch`: the greatest matching tag of the listing of that scope -/
theorem C09_start_global_branch (scope : TagScope) (hs : scope ≠ .default) (pat cfgv : Str)
    (today : Nat × Nat × Nat) (tags vts : List Str) (s : Str)
    (hv : parseVersionTags pat today tags = .ok vts) (hne : vts ≠ [])
    (h : startVersion scope pat cfgv today tags = .ok s) :
    s ∈ vts ∧ ∀ u ∈ vts, pepLe u s = true := by
  sorry

/-- tags that do not match the pattern never influence the result: inserting such a tag
    anywhere in the listing changes nothing (so any interleaving of junk is irrelevant) -/
theorem C09_junk_irrelevant (scope : TagScope) (pat cfgv : Str) (today : Nat × Nat × Nat)
    (l1 l2 : List Str) (j : Str) (hj : isValid j pat today = .ok false) :
    startVersion scope pat cfgv today (l1 ++ j :: l2) = startVersion scope pat cfgv today (l1 ++ l2) := by
  sorry

/-- … and never break it: if every tag's validity is decided (no `.error`), the start version is defined -/
theorem C09_never_breaks (scope : TagScope) (pat cfgv : Str) (today : Nat × Nat × Nat) (tags : List Str)
    (h : ∀ t ∈ tags, ∃ b, isValid t pat today = .ok b) :
    ∃ s, startVersion scope pat cfgv today tags = .ok s := by
  sorry

/-- when the uniqueness check runs (branch scope or --set-version), an accepted new version is
    not among the matching tags of ANY branch -/
theorem C09_new_not_a_tag (pat old new : Str) (globalTags vts : List Str) (today : Nat × Nat × Nat)
    (hv : parseVersionTags pat today globalTags = .ok vts)
    (h : gate pat old new true globalTags today = .ok .accept) : new ∉ vts := by
  sorry

/-- in scopes `default` and `global` (without --ignore-vcs-tag) the announced version is strictly
    greater than every matching tag of the listing, hence equal to none of them -/
theorem C09_new_above_scope_tags (scope : TagScope) (pat cfgv : Str) (fl : IncrFlags) (dg : Bool)
    (date today : Nat × Nat × Nat) (sv : Option Str) (scopeTags globalTags vts : List Str)
    (new pep start : Str)
    (hv : parseVersionTags pat today scopeTags = .ok vts)
    (h : cliUpdateVersion scope false pat cfgv fl dg date today sv scopeTags globalTags = (.announce new pep, start)) :
    ∀ u ∈ vts, pepLt u new = true ∧ u ≠ new := by
  sorry

/-! non-vacuity (order facts only; no regex evaluation in the kernel) -/
example : latestOf ["1.2.0".toList, "1.10.0".toList, "1.9".toList] = some "1.10.0".toList := by decide +kernel
example : latestOf ["1.2".toList, "1.2.0".toList] = some "1.2".toList := by decide +kernel   -- first of the maximal ones

end BV
