/-
  Props/C19.lean — property C19: `init` always produces a configuration that bumpver itself
  can use.

  "In any project directory, `init` appends a configuration - leaving prior content of that
   file intact as a prefix - which `show` immediately reads back from the same file, reporting
   this year's initial version; `init --dry` writes nothing and a second `init` refuses and
   changes nothing. A file that already holds a bumpver section with a current_version is
   always preferred over files that do not."

  Model (Model/Config.lean): `pickConfigFile` = `_pick_config_filepath` over the GENERATED
  candidate order, `defaultConfigText` = `default_config` over the GENERATED templates,
  `writeContent` = `write_content`, `cliInit` = cli.py `init`.  A project directory is a function
  file name → content (`ProjFS`); a `World` is a function file name → {absent, empty, unrelated,
  hasSection}.  All theorems quantify over ALL such functions (not only the 2^8 × 3^5 worlds the
  harness enumerates).  Whether a file's configuration parses (`parses`) is a parameter: that the
  appended text does parse is what the harness observes with `bumpver show` on every world.

  Only property theorems live here; helper lemmas and the definitions `sectionHeader`,
  `patternsHeader`, `selfEntry`, `RestWellFormed` are in Proofs/ConfigLemmas.lean.
-/
import BumpverVerif.Proofs.ConfigLemmas
namespace BV

/-- "A file that already holds a bumpver section with a current_version is always preferred
    over files that do not": if any candidate holds a section, the picked file holds one. -/
theorem C19_prefers_section (w : World) (h : ∃ f ∈ Gen.configCandidates, w f = .hasSection) :
    w (pickConfigFile w) = .hasSection := by
  obtain ⟨f, hf, hs⟩ := h
  unfold pickConfigFile
  cases hfind : Gen.configCandidates.find? (fun f => w f == .hasSection) with
  | some g =>
    have := List.find?_some hfind
    simpa using this
  | none =>
    have := List.find?_eq_none.mp hfind f hf
    simp [hs] at this

/-- the candidate order and the fallback are the ones of `_pick_config_filepath` -/
theorem C19_candidates :
    Gen.configCandidates = ["pycalver.toml".toList, "bumpver.toml".toList, ".bumpver.toml".toList,
      "pyproject.toml".toList, "setup.cfg".toList] ∧ Gen.configFallback = "bumpver.toml".toList := by
  decide

/-- which file is picked: the FIRST candidate (in the generated order) holding a section; if
    there is none, the first existing candidate; if none exists, `bumpver.toml`. -/
theorem C19_pick_order (w : World) :
    (∀ f, Gen.configCandidates.find? (fun f => w f == .hasSection) = some f → pickConfigFile w = f) ∧
    (Gen.configCandidates.find? (fun f => w f == .hasSection) = none →
      ∀ f, Gen.configCandidates.find? (fun f => w.exists_ f) = some f → pickConfigFile w = f) ∧
    ((∀ f ∈ Gen.configCandidates, w.exists_ f = false) → pickConfigFile w = Gen.configFallback) := by
  refine ⟨?_, ?_, ?_⟩
  · intro f h
    unfold pickConfigFile
    rw [h]
  · intro h0 f h
    unfold pickConfigFile
    rw [h0, h]
  · intro h
    have h1 : Gen.configCandidates.find? (fun f => w f == .hasSection) = none := by
      apply List.find?_eq_none.mpr
      intro f hf
      have := h f hf
      simp only [World.exists_, bne_eq_false_iff_eq] at this
      simp [this]
    have h2 : Gen.configCandidates.find? (fun f => w.exists_ f) = none := by
      apply List.find?_eq_none.mpr
      intro f hf
      simp [h f hf]
    unfold pickConfigFile
    rw [h1, h2]

/-- `find?` returns the first match: every candidate before the picked one fails the test -/
theorem C19_pick_first (w : World) (f : Str)
    (h : Gen.configCandidates.find? (fun f => w f == .hasSection) = some f) :
    w f = .hasSection ∧ ∃ before after, Gen.configCandidates = before ++ f :: after ∧
      ∀ g ∈ before, w g ≠ .hasSection := by
  obtain ⟨hp, before, after, hsplit, hb⟩ := List.find?_eq_some_iff_append.mp h
  refine ⟨by simpa using hp, before, after, hsplit, fun g hg => ?_⟩
  have := hb g hg
  simpa using this

/-- "`init` appends a configuration - leaving prior content of that file intact as a prefix":
    after a writing `init` the picked file holds old content ++ separator ++ default text and
    every other file is unchanged -/
theorem C19_prefix (fs fs' : ProjFS) (parses : Bool) (year : Nat) (file : Str)
    (h : cliInit fs false parses year = (.written file, fs')) :
    file = pickConfigFile (worldOf fs) ∧
    ∃ text, defaultConfigText (worldOf fs) file (initialVersion year) = .ok text ∧
      fs' file = some ((fs file).getD [] ++ (if (fs file).isSome then "\n".toList else []) ++ text) ∧
      ∀ g, g ≠ file → fs' g = fs g := by
  unfold cliInit at h
  simp only [] at h
  split at h
  · cases h
  · split at h
    · cases h
    · rename_i text htext
      simp only [Bool.false_eq_true, if_false] at h
      cases h
      refine ⟨rfl, text, htext, ?_, ?_⟩
      · unfold writeContent
        simp only [if_true]
        cases fs (pickConfigFile (worldOf fs)) <;> simp
      · intro g hg
        unfold writeContent
        simp only [if_neg hg]

/-- "`init --dry` writes nothing" -/
theorem C19_dry_pure (fs : ProjFS) (parses : Bool) (year : Nat) :
    (cliInit fs true parses year).2 = fs ∧
    ∀ file, (cliInit fs true parses year).1 ≠ .written file := by
  unfold cliInit
  simp only []
  split
  · exact ⟨rfl, fun _ h => by cases h⟩
  · split
    · exact ⟨rfl, fun _ h => by cases h⟩
    · exact ⟨rfl, fun _ h => by cases h⟩

/-- a refusal changes nothing either -/
theorem C19_refusal_pure (fs : ProjFS) (dry parses : Bool) (year : Nat)
    (h : (cliInit fs dry parses year).1 = .refused) : (cliInit fs dry parses year).2 = fs := by
  unfold cliInit at h ⊢
  simp only [] at h ⊢
  split
  · rfl
  · rename_i hc
    simp only [hc, Bool.false_eq_true, if_false] at h
    split
    · rfl
    · split
      · rfl
      · rename_i text htext hd
        simp only [htext, hd, Bool.false_eq_true, if_false] at h
        cases h

/-- the text `init` writes, for every world: the one section header of the dialect, directly
    followed by `current_version = "<year>.1001-alpha"`; no further config-section header; the
    file_patterns table of the dialect with an entry for the config file itself whose pattern is
    `current_version = "{version}"` -/
theorem C19_text_wellformed (w : World) (year : Nat) :
    ∃ rest, defaultConfigText w (pickConfigFile w) (initialVersion year) =
        .ok (sectionHeader (pickConfigFile w) ++ "\ncurrent_version = \"".toList ++ initialVersion year ++
             "\"\n".toList ++ rest) ∧
      RestWellFormed (pickConfigFile w) rest := by
  have hn := pick_mem w
  have hb := baseFacts_all _ hn
  simp only [baseFacts, Bool.and_eq_true, beq_iff_eq] at hb
  obtain ⟨⟨⟨⟨hpre, hpost⟩, _⟩, _⟩, _⟩ := hb
  refine ⟨postRest (pickConfigFile w) ++ tailOf w (pickConfigFile w), ?_,
    rest_wellformed w _ hn (pick_exists_or_fallback w)⟩
  rw [defaultConfigText_eq w _ _ (candidates_format _ hn), hpre]
  have : postOf (baseOf (pickConfigFile w)) = "\"\n".toList ++ postRest (pickConfigFile w) := by
    unfold postRest
    rw [← hpost, List.take_append_drop]
  rw [this]
  simp only [List.append_assoc]

/-- the initial version is this year's: `<year>.1001-alpha` -/
theorem C19_initial_version (year : Nat) :
    initialVersion year = natToStr year ++ ".1001-alpha".toList ∧ initialVersion 2026 = "2026.1001-alpha".toList := by
  constructor
  · rfl
  · decide

/-- "a second `init` refuses and changes nothing": after a writing `init`, as soon as the file
    written parses (observed on every world by the harness), any further `init` — dry or not —
    refuses and leaves every file as it is; the same file is picked again. -/
theorem C19_second_refuses (fs fs' : ProjFS) (parses : Bool) (year : Nat) (file : Str)
    (h : cliInit fs false parses year = (.written file, fs')) (dry : Bool) (year' : Nat) :
    pickConfigFile (worldOf fs') = file ∧ cliInit fs' dry true year' = (.refused, fs') := by
  obtain ⟨hfile, text, htext, hnew, hother⟩ := C19_prefix fs fs' parses year file h
  have hn := pick_mem (worldOf fs)
  rw [← hfile] at hn
  -- the written file is classified as holding a section
  have hsec : worldOf fs' file = .hasSection := by
    rw [defaultConfigText_eq _ _ _ (candidates_format _ hn)] at htext
    cases htext
    obtain ⟨m1, m2⟩ := markers_in_pre_baseOf file
    unfold worldOf
    rw [hnew]
    apply classify_hasSection
    · have := isInfix_mid "bumpver]".toList ((fs file).getD [] ++ (if (fs file).isSome then "\n".toList else []))
        (preOf (baseOf file)) (initialVersion year ++ postOf (baseOf file) ++ tailOf (worldOf fs) file) m1
      simpa [List.append_assoc] using this
    · have := isInfix_mid "current_version".toList ((fs file).getD [] ++ (if (fs file).isSome then "\n".toList else []))
        (preOf (baseOf file)) (initialVersion year ++ postOf (baseOf file) ++ tailOf (worldOf fs) file) m2
      simpa [List.append_assoc] using this
  have hpick : pickConfigFile (worldOf fs') = file := by
    rw [hfile]
    apply pick_stable
    · intro g hg
      unfold worldOf
      rw [hother g (by rw [hfile]; exact hg)]
    · rw [← hfile]; exact hsec
  refine ⟨hpick, ?_⟩
  unfold cliInit
  simp only [hpick]
  have hex : (worldOf fs').exists_ file = true := by
    unfold World.exists_
    rw [hsec]
    rfl
  simp [hex]

/-! ### non-vacuity -/

/-- an empty directory: `bumpver.toml` is created with the `[bumpver]` dialect and an entry for
    itself -/
example : (cliInit (fun _ => none) false false 2026).1 = .written "bumpver.toml".toList := by decide +kernel

example : ((cliInit (fun _ => none) false false 2026).2 "bumpver.toml".toList).map
      (fun s => "[bumpver]\ncurrent_version = \"2026.1001-alpha\"\nversion_pattern".toList.isPrefixOf s) = some true := by
  decide +kernel

/-- a setup.cfg with unrelated content next to a pyproject.toml holding a section: the latter wins -/
example : pickConfigFile (worldOf (fun f =>
    if f = "setup.cfg".toList then some "[metadata]\nname = x\n".toList
    else if f = "pyproject.toml".toList then some "[tool.bumpver]\ncurrent_version = \"1\"\n".toList
    else none)) = "pyproject.toml".toList := by decide +kernel

end BV
