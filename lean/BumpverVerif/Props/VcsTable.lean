/-
  Props/VcsTable.lean — the argument-free VCS command templates (regenerated from `vcs.VCS_SUBCOMMANDS_BY_NAME` on every run)
  are EXACTLY the commands the properties rely on.  What these commands list decides C09 (which tags are seen), C10 (fetch / probes) and
  C11 (what counts as dirty: `--porcelain --untracked-files=all`, no `--ignore-submodules`, no pathspec); the fake git of the harness and the
  status model answer exactly these command lines.  An edited option therefore breaks this obligation by name; whether the property still
  holds is then for the search on the implementation (real git scenarios) to find out.
-/
import BumpverVerif.Gen.VcsTemplates
namespace BV

def vcsTemplate (vcs cmd : String) : Option Str :=
  (lookup vcs.toList Gen.vcsTemplates).bind (lookup cmd.toList)

/-- C11: the dirty check asks git for the porcelain listing with every untracked file listed individually and hides nothing
    (no `--ignore-submodules`, no `--ignored`, no pathspec); hg for modified/added/removed/deleted/unknown files -/
theorem C11_status_templates :
    vcsTemplate "git" "status" = some "git status --porcelain --untracked-files=all".toList ∧
    vcsTemplate "hg" "status" = some "hg status -umard".toList := by decide

/-- C09: the tag listings are all tags / the tags merged into HEAD -/
theorem C09_tag_listing_templates :
    vcsTemplate "git" "ls_tags" = some "git tag --list".toList ∧
    vcsTemplate "git" "ls_tags_branch" = some "git tag --list --merged".toList ∧
    vcsTemplate "hg" "ls_tags" = some "hg tags".toList := by decide

/-- C10: fetch, the usability probe and the remote probes -/
theorem C10_probe_templates :
    vcsTemplate "git" "fetch" = some "git fetch".toList ∧
    vcsTemplate "git" "is_usable" = some "git rev-parse --git-dir".toList ∧
    vcsTemplate "git" "show_remotes" = some "git config --get remote.origin.url".toList ∧
    vcsTemplate "git" "ls_branches" = some "git branch -vv".toList ∧
    vcsTemplate "hg" "fetch" = some "hg pull".toList ∧
    vcsTemplate "hg" "is_usable" = some "hg root".toList ∧
    vcsTemplate "hg" "show_remotes" = some "hg paths".toList := by decide

end BV
