/-
  Props/C20.lean — property C20: legacy {...} patterns render, read back and increase consistently.

  "For the legacy brace-style version patterns ({pycalver}, {semver} and combinations of the
   {year}/{month}/{dom}/{doy}/{quarter}/{build_no}/{release}/{MAJOR}/{MINOR}/{PATCH} style parts,
   with {pep440_pycalver}/{pep440_version} as derived search patterns) rendered versions are
   accepted by their pattern and read back with the same parts, and `test`/`update` results are
   strictly greater than their input (for {pycalver} also as plain strings). A pattern is handled
   by the legacy engine consistently by `test`, `update` and the config loader."
  Quantifier: "all combinations of legacy parts in the documented composites and every date
   2000..2099, build id and tag value; chains of 1,000 bumps".

  The legacy engine has THREE hand-written tables (`PART_PATTERNS`, mutated at import time by
  `_init_composite_patterns`; `FULL_PART_FORMATS`; `PATTERN_PART_FIELDS`) that nothing in the test
  suite ties together.  They are GENERATED into Gen/V1Tables.lean on every run (from the imported
  module, i.e. AFTER the run-time mutation).  This file proves

   * C20_composite_init      — the mutated table is what `_init_composite_patterns` makes of the
                               base parts and `COMPOSITE_PART_PATTERNS`
   * C20_finite_parts, C20_tag_parts, C20_unbounded_shapes, C20_nat_part, C20_build_no_part,
     C20_bid_part            — "rendered versions are accepted by their pattern and read back with
                               the same parts", part by part, over the whole domain of each part
   * C20_rough_edge_witnesses — the known findings F-C20-dom-short / -doy-short / -padded-bid
   * C20_dispatch, C20_dispatch_foo_witness — "handled by the legacy engine consistently"
   * C20_pycalver_strict, C20_pycalver_release_tuple, C20_pycalver_string, C20_pycalver_chain —
                               "strictly greater than their input (for {pycalver} also as plain strings)"
   * C20_gate_greater, C20_test_greater — "`test`/`update` results are strictly greater"
   * C20_bid_agrees_C17, C20_bid_below_1000_example — how the legacy id step relates to C17's
   * C20_pycalver_rec_example, C20_pycalver_text_example, C20_bump_example, C20_dispatch_example —
                               non-vacuity: closed instances through the whole model pipeline

  THE COMPOSITION of parts over a whole pattern (literal separators, composites, the first-match +
  full-length reading of `parse_version_info`, `_parse_pattern_groups`, `_parse_field_values`) is proved on
  the legacy pattern TREE of Model/V1Tree.lean (last section of this file):

   * C20_tree_accepted_in_full — for every well-formed tree and every record in the domain of its parts,
                               `re.match` of the compiled regex on the rendered text consumes all of it and
                               captures exactly the rendered part texts
   * C20_tree_roundtrip, C20_tree_roundtrip_of_date — the record read back agrees on EVERY part of the
                               pattern and renders to the same text
   * C20_tree_doc_patterns, C20_roundtrip_documented, C20_is_valid_documented — the same THROUGH THE MODEL'S
                               STRING PIPELINE (`v1ParseVersionInfo`, `v1IsValid`) for the documented
                               composites and combinations, whose tree compiles (kernel-evaluated) to exactly
                               the regex `compile_pattern` builds
   * C20_tree_tie, C20_composites_tie, C20_tree_render_tie — tree vs string surgery, compile and render
   * C20_calOk_needed_witness — why the calendar hypothesis is there ({year}.{doy} on day 366 of 2023)

  PARTIAL: that `str.replace` over FULL_PART_FORMATS + `str.format` render a pattern as the tree does is
  kernel-evaluated on the documented patterns and sample records (C20_tree_render_tie) and otherwise
  validated by the correspondence ops v1_compile_str/v1_parse/v1_format/v1_incr and the
  render→read→re-render oracle of harness/props/c20.py; the rough-edge parts ({dom_short}, {doy_short},
  {BB}…, {iso_week}, {us_week}) and the pep440 search patterns lie outside the tree's `wf`.
-/
import BumpverVerif.Model.V1
import BumpverVerif.Model.V1Tree
import BumpverVerif.Proofs.V1Lemmas
import BumpverVerif.Proofs.V1Compose
namespace BV

/-! ### the run-time table mutation -/

/-- the parts of the generated table that are not composites: the literal `PART_PATTERNS` -/
def v1BaseParts : List (Str × Str) :=
  Gen.v1PartPatterns.filter (fun p => !v1HasKey p.1 Gen.v1CompositePartPatterns)

/-- `_init_composite_patterns()` applied to the literal table gives exactly the table the
    running program uses (the translator reads it from the imported module) -/
theorem C20_composite_init :
    v1InitComposites v1BaseParts Gen.v1CompositePartPatterns = Gen.v1PartPatterns := by
  decide +kernel

/-! ### part by part: render, recognise in full, read back -/

/-- the compiled recogniser of a part, from the generated table -/
def v1PartRe (name : String) : Option Re := (lookup name.toList Gen.v1PartPatterns).bind parseRe

/-- length of the first match at the start of `s` -/
def v1MatchLen (r : Re) (s : Str) : Option Nat := (reMatch r s).map (·.stop)

/-- a record with no calendar field, as `_parse_field_values` builds it from no groups -/
def v1RecBase : V1Info :=
  { year := none, quarter := none, month := none, dom := none, doy := none, isoWeek := none,
    usWeek := none, major := 0, minor := 0, patch := 0, bid := "0001".toList, tag := "final".toList }

/-- one (part, value) check: `format_version(v, "{part}")` (through FULL_PART_FORMATS, the
    kwargs and `str.format`) is consumed in full by the part's own regex when alone, when followed
    by a non-digit, and (fixed-width parts) when followed by a digit; and reads back as the value -/
def v1PartOK (name : String) (v : V1Info) (x : Nat) (back : Str → Nat) (fixedWidth : Bool) : Bool :=
  match v1PartRe name, v1FormatVersion v ('{' :: name.toList ++ ['}']) with
  | some r, .ok t =>
    v1MatchLen r t == some t.length && v1MatchLen r (t ++ ['.', 'x']) == some t.length &&
    (!fixedWidth || v1MatchLen r (t ++ ['7']) == some t.length) && back t == x
  | _, _ => false

def v1Range (lo hi : Nat) : List Nat := (List.range (hi + 1 - lo)).map (· + lo)

/-- THE FINITE PARTS over their whole domains (kernel-evaluated on the regenerated tables):
    years 2000..2099, months 1..12, days 1..31, days of year 1..366, quarters 1..4, the week
    parts 0..53; {month_short} 1..12 and {yy} (read back with the +2000 rule) as well -/
theorem C20_finite_parts :
    (v1Range 2000 2099).all (fun x => v1PartOK "year" { v1RecBase with year := some x } x strToNat true) = true ∧
    (v1Range 1 12).all (fun x => v1PartOK "month" { v1RecBase with month := some x } x strToNat true) = true ∧
    (v1Range 1 31).all (fun x => v1PartOK "dom" { v1RecBase with dom := some x } x strToNat true) = true ∧
    (v1Range 1 366).all (fun x => v1PartOK "doy" { v1RecBase with doy := some x } x strToNat true) = true ∧
    (v1Range 1 4).all (fun x => v1PartOK "quarter" { v1RecBase with quarter := some x } x strToNat true) = true ∧
    (v1Range 0 53).all (fun x => v1PartOK "iso_week" { v1RecBase with isoWeek := some x } x strToNat true &&
                                v1PartOK "us_week" { v1RecBase with usWeek := some x } x strToNat true) = true ∧
    (v1Range 1 12).all (fun x => v1PartOK "month_short" { v1RecBase with month := some x } x strToNat false) = true ∧
    (v1Range 2000 2099).all (fun x => v1PartOK "yy" { v1RecBase with year := some x } x (fun s => strToNat s + 2000) true &&
                                     v1PartOK "yyyy" { v1RecBase with year := some x } x strToNat true) = true := by
  refine ⟨?_, ?_, ?_, ?_, ?_, ?_, ?_, ?_⟩ <;> decide +kernel

def v1Tags : List Str := ["alpha", "beta", "dev", "rc", "post", "final"].map String.toList

/-- tags: every tag value is recognised in full by {tag} (also before a digit or a separator);
    {release} renders "-tag" (nothing for final) and recognises it, also before other text;
    {pep440_tag} renders a0/b0/dev0/rc0/post0 (nothing for final) and recognises it in full -/
theorem C20_tag_parts :
    v1Tags.all (fun t =>
      match v1PartRe "tag", v1FormatVersion { v1RecBase with tag := t } "{tag}".toList with
      | some r, .ok s => s == t && v1MatchLen r s == some s.length && v1MatchLen r (s ++ ['1']) == some s.length &&
                         v1MatchLen r (s ++ ['.']) == some s.length
      | _, _ => false) = true ∧
    v1Tags.all (fun t =>
      match v1PartRe "release", v1FormatVersion { v1RecBase with tag := t } "{release}".toList with
      | some r, .ok s => s == (if t == "final".toList then [] else '-' :: t) &&
                         v1MatchLen r s == some s.length && v1MatchLen r (s ++ [' ', 'x']) == some s.length
      | _, _ => false) = true ∧
    v1Tags.all (fun t =>
      match v1PartRe "pep440_tag", v1FormatVersion { v1RecBase with tag := t } "{pep440_tag}".toList with
      | some r, .ok s => v1MatchLen r s == some s.length && v1MatchLen r (s ++ [' ']) == some s.length
      | _, _ => false) = true := by
  refine ⟨?_, ?_, ?_⟩ <;> decide +kernel

/-- `\d+`, `\d{4,}`, `[1-9]\d*` as `parseRe` builds them -/
def reDPlus : Re := .rep dCls 1 none
def reD4Plus : Re := .rep dCls 4 none
def reDPosInt : Re := .seq posDigitCls (.rep dCls 0 none)

/-- the regenerated tables have exactly these shapes for the unbounded parts (a table edit that
    changes one breaks this obligation), and their format template is the bare `{field}` -/
theorem C20_unbounded_shapes :
    v1PartRe "MAJOR" = some reDPlus ∧ v1PartRe "MINOR" = some reDPlus ∧ v1PartRe "PATCH" = some reDPlus ∧
    v1PartRe "build_no" = some reD4Plus ∧ v1PartRe "bid" = some reD4Plus ∧ v1PartRe "BID" = some reDPosInt ∧
    v1FullPattern Gen.v1FullPartFormats "{MAJOR}.{MINOR}.{PATCH}".toList = "{MAJOR}.{MINOR}.{PATCH}".toList ∧
    v1FullPattern Gen.v1FullPartFormats "{build_no}".toList = "{bid}".toList ∧
    v1FullPattern Gen.v1FullPartFormats "{semver}".toList = "{MAJOR}.{MINOR}.{PATCH}".toList ∧
    v1FullPattern Gen.v1FullPartFormats "{build}".toList = ".{bid}".toList := by
  refine ⟨?_, ?_, ?_, ?_, ?_, ?_, ?_, ?_, ?_, ?_⟩ <;> decide +kernel

/-- "what follows is not a digit" -/
def v1NoDigitAhead (rest : Str) : Prop := ∀ c, rest.head? = some c → isDigit c = false

/-- `{MAJOR}` / `{MINOR}` / `{PATCH}`: the replacement field renders `str(n)`, the recogniser
    consumes it in full before any non-digit continuation, and it reads back as `n` -/
theorem C20_nat_part (n : Nat) (rest : Str) (hr : v1NoDigitAhead rest) :
    v1RenderField [("MAJOR".toList, .nat n)] "MAJOR".toList = .ok (natToStr n) ∧
    v1MatchLen reDPlus (natToStr n ++ rest) = some (natToStr n).length ∧
    strToNat (natToStr n) = n := by
  refine ⟨rfl, ?_, strToNat_natToStr n⟩
  exact match_dRun 1 (natToStr n) rest (natToStr_length_pos n) (allDigits_natToStr n) hr

/-- `{build_no}` / `{bid}` (`\d{4,}`): every id of four or more digits (leading zeros included)
    is carried verbatim, consumed in full and kept as a string -/
theorem C20_build_no_part (b : Str) (hb : allDigits b = true) (h4 : 4 ≤ b.length) (rest : Str)
    (hr : v1NoDigitAhead rest) :
    v1RenderField [("bid".toList, .str b)] "bid".toList = .ok b ∧
    v1MatchLen reD4Plus (b ++ rest) = some b.length :=
  ⟨rfl, match_dRun 4 b rest h4 hb hr⟩

/-- `{BID}` (`[1-9]\d*`, rendered `int(bid)`): every id whose value is not zero -/
theorem C20_bid_part (n : Nat) (hn : 1 ≤ n) (rest : Str) (hr : v1NoDigitAhead rest) :
    v1RenderField [("BID".toList, .nat n)] "BID".toList = .ok (natToStr n) ∧
    v1MatchLen reDPosInt (natToStr n ++ rest) = some (natToStr n).length ∧ strToNat (natToStr n) = n := by
  refine ⟨rfl, ?_, strToNat_natToStr n⟩
  have hd := allDigits_natToStr n
  have hne := natToStr_ne_nil n
  have hh := natToStr_head_ne_zero n (by omega)
  generalize natToStr n = s at hd hne hh
  cases s with
  | nil => exact absurd rfl hne
  | cons c t =>
    rw [allDigits_cons] at hd
    exact match_dPosInt c t rest hd.1 (hh c t rfl) hd.2 hr

/-- Known findings, as facts about the tables: {dom_short} reads `10` as `1` when nothing forces
    backtracking (F-C20-dom-short); {doy_short} renders `5` but only recognises three digits
    (F-C20-doy-short); {BBB} renders the id `0033` as `0033`, which `[1-9]\d{2,}` rejects
    (F-C20-padded-bid).  Days 1..9 of {dom_short} are fine. -/
theorem C20_rough_edge_witnesses :
    v1PartOK "dom_short" { v1RecBase with dom := some 10 } 10 strToNat false = false ∧
    (v1Range 1 9).all (fun x => v1PartOK "dom_short" { v1RecBase with dom := some x } x strToNat false) = true ∧
    v1PartOK "doy_short" { v1RecBase with doy := some 5 } 5 strToNat false = false ∧
    v1FormatVersion { v1RecBase with bid := "0033".toList } "{BBB}".toList = .ok "0033".toList ∧
    (v1PartRe "BBB").map (fun r => v1MatchLen r "0033".toList) = some none := by
  refine ⟨?_, ?_, ?_, ?_, ?_⟩ <;> decide +kernel

/-! ### one engine per pattern -/

/-- "A pattern is handled by the legacy engine consistently by `test`, `update` and the config
    loader": `incr_dispatch` (test, update) asks `hasV1Part`, the gate `_is_valid_version` and
    `config._parse_config` ask `isNewPattern`.  For every pattern spelled with documented legacy
    parts and brace-free literal text the two tests agree. -/
theorem C20_dispatch (ts : List LTok) (hdoc : ∀ t ∈ ts, t.documented = true) :
    hasV1Part (renderToks ts) = true ↔ isNewPattern (renderToks ts) = false := by
  constructor
  · exact not_new_of_hasV1Part _
  · intro hnew
    -- some token is a part: otherwise the text is brace-free
    have hex : ∃ n, LTok.part n ∈ ts := by
      apply Classical.byContradiction
      intro hno
      have hno' : ∀ n, LTok.part n ∉ ts := fun n hn => hno ⟨n, hn⟩
      rw [new_of_no_parts ts hdoc hno'] at hnew
      cases hnew
    obtain ⟨n, hn⟩ := hex
    have hd : docParts.contains n = true := hdoc _ hn
    have hmem : n ∈ docParts := by simpa using hd
    exact hasV1Part_of_infix n _ hmem (renderToks_infix ts _ hn)

/-- the direction that needs no assumption: a pattern `incr_dispatch` sends to the legacy engine
    is legacy for the gate and the loader too -/
theorem C20_dispatch_legacy_everywhere (p : Str) (h : hasV1Part p = true) : isNewPattern p = false :=
  not_new_of_hasV1Part p h

/-- Known finding F-C20-dispatch: braces without a legacy part.  `{foo}` is new-style for
    `incr_dispatch` but legacy for the gate and the config loader. -/
theorem C20_dispatch_foo_witness :
    hasV1Part "{foo}".toList = false ∧ isNewPattern "{foo}".toList = false := by
  refine ⟨?_, ?_⟩ <;> decide +kernel

/-! ### {pycalver} strictly increases -/

/-- One bump of a `{pycalver}` record (year and month shown, nothing else of the calendar):
    the YYYYMM number never moves back — whatever the date, `--pin-date` or not — and the build
    id is `lexid.next_id` of the old one: greater as a number AND as a plain string. -/
theorem C20_pycalver_strict (old new : V1Info) (fl : V1Flags) (date : Nat × Nat × Nat) (y m : Nat)
    (hrec : PycalverRec old y m) (hm : 1 ≤ m ∧ m ≤ 12) (hdate : validDate date.1 date.2.1 date.2.2 = true)
    (h : v1Bump old fl date = .ok new) :
    ∃ y' m', new.year = some y' ∧ new.month = some m' ∧ 1 ≤ m' ∧ m' ≤ 12 ∧ (y' = y ∨ y' = date.1) ∧
      y * 100 + m ≤ y' * 100 + m' ∧
      isDigitStr new.bid = true ∧ strToNat old.bid < strToNat new.bid ∧ strLt old.bid new.bid = true := by
  have hd : 1 ≤ date.2.1 ∧ date.2.1 ≤ 12 := by
    simp only [validDate, Bool.and_eq_true, decide_eq_true_eq] at hdate
    omega
  obtain ⟨hbd, hnext, hy, hmo⟩ := v1Bump_ok old new fl date h
  obtain ⟨y', m', hy', hm', hle, h1, h12, hyy⟩ := v1BumpCal_pycalver old fl date y m hrec hm hd
  obtain ⟨hnd, hint⟩ := nextId_int_strict old.bid new.bid hbd hnext
  exact ⟨y', m', by rw [hy, hy'], by rw [hmo, hm'], h1, h12, hyy, hle, hnd, hint,
    nextId_lex_strict old.bid new.bid hbd hnext⟩

/-- … hence strictly greater as PEP 440 release tuples `(YYYYMM, build)` (Python tuple order) -/
theorem C20_pycalver_release_tuple (k k' b b' : Nat) (hk : k ≤ k') (hb : b < b') :
    lexLt [k, b] [k', b'] = true := by
  simp only [lexLt, Bool.or_eq_true, Bool.and_eq_true, decide_eq_true_eq, beq_iff_eq]
  omega

/-- the text `format_version` writes for `{pycalver}`: "v" YYYY MM "." id release -/
def pycalverText (y m : Nat) (bid rel : Str) : Str := 'v' :: (yyyymmText y m ++ ('.' :: (bid ++ rel)))

/-- … and — because YYYYMM is fixed-width and `next_id` never produces a proper prefix — as
    plain strings, whatever release suffix either side carries -/
theorem C20_pycalver_string (y m y' m' : Nat) (b b' rel rel' : Str)
    (hy : 1000 ≤ y ∧ y ≤ 9999) (hy' : 1000 ≤ y' ∧ y' ≤ 9999) (hm : m ≤ 12) (hm' : m' ≤ 12)
    (hle : y * 100 + m ≤ y' * 100 + m') (hb : isDigitStr b = true) (hn : nextId b = some b') :
    strLt (pycalverText y m b rel) (pycalverText y' m' b' rel') = true := by
  unfold pycalverText
  rw [strLt_cons_self]
  rcases Nat.lt_or_ge (y * 100 + m) (y' * 100 + m') with hlt | hge
  · exact yyyymmText_lt y m y' m' _ _ hy.1 hy.2 (by omega) hy'.1 hy'.2 (by omega) hlt
  · have hym : y = y' ∧ m = m' := by omega
    obtain ⟨rfl, rfl⟩ := hym
    apply strLt_prefix
    rw [strLt_cons_self]
    exact nextId_lex_strict_append b b' rel rel' hb hn

/-- `pycalverText` is what the model renders (closed instance through the whole
    FULL_PART_FORMATS / kwargs / `str.format` path) -/
theorem C20_pycalver_text_example :
    v1FormatVersion { v1RecBase with year := some 2017, month := some 12, quarter := some 4,
                                     bid := "0033".toList, tag := "beta".toList } "{pycalver}".toList
      = .ok (pycalverText 2017 12 "0033".toList "-beta".toList) := by
  decide +kernel

/-- n successive bumps of the record (any flags, any dates) -/
def v1BumpChain : V1Info → List (V1Flags × (Nat × Nat × Nat)) → Except V1Err V1Info
  | v, [] => .ok v
  | v, (fl, d) :: rest =>
    match v1Bump v fl d with
    | .ok v' => v1BumpChain v' rest
    | .error e => .error e

/-- the `PycalverRec` shape is NOT preserved by a bump that takes the date (dom, doy, weeks get
    filled in), but what a bump needs is only that year/month/quarter are read from a version
    text: each link of a chain starts from a re-read record.  For chains on the record we state
    the id part, which needs nothing else: chains of ANY length (1,000 included) strictly
    increase the id as a number and as a plain string. -/
theorem C20_pycalver_chain (steps : List (V1Flags × (Nat × Nat × Nat))) :
    ∀ (v w : V1Info), isDigitStr v.bid = true → steps ≠ [] → v1BumpChain v steps = .ok w →
      isDigitStr w.bid = true ∧ strToNat v.bid < strToNat w.bid ∧ strLt v.bid w.bid = true := by
  induction steps with
  | nil => intro _ _ _ hne; exact absurd rfl hne
  | cons s rest ih =>
    intro v w hv _ h
    obtain ⟨fl, d⟩ := s
    simp only [v1BumpChain] at h
    cases hb : v1Bump v fl d with
    | error e => rw [hb] at h; cases h
    | ok v' =>
      rw [hb] at h
      obtain ⟨hbd, hnext, _, _⟩ := v1Bump_ok v v' fl d hb
      obtain ⟨hd', hint⟩ := nextId_int_strict v.bid v'.bid hbd hnext
      have hlex := nextId_lex_strict v.bid v'.bid hbd hnext
      cases rest with
      | nil =>
        simp only [v1BumpChain] at h
        cases h
        exact ⟨hd', hint, hlex⟩
      | cons s' rest' =>
        obtain ⟨hw, hint', hlex'⟩ := ih v' w hd' (by simp) h
        exact ⟨hw, by omega, strLt_trans _ _ _ hlex hlex'⟩

/-- the legacy engine calls `lexid.next_id` WITHOUT the new-style `< 1000 → + 1000` padding: from
    1000 on the two coincide (so `C17_int_strict` / `C17_lex_strict` of Props/C17.lean apply
    verbatim); below, a legacy id such as `0033` simply counts on -/
theorem C20_bid_agrees_C17 (b : Str) (h : 1000 ≤ strToNat b) : bumpBid b = nextId b := by
  unfold bumpBid
  rw [padBid_of_ge b h]

theorem C20_bid_below_1000_example :
    nextId "0033".toList = some "0034".toList ∧ bumpBid "0033".toList = some "1034".toList ∧
    nextId "0999".toList = some "11000".toList := by
  refine ⟨?_, ?_, ?_⟩ <;> decide +kernel

/-! ### non-vacuity -/

/-- reading a `{pycalver}` version gives a `PycalverRec` (closed instance through the compiled
    regex, `_parse_pattern_groups` and `_parse_field_values`) -/
theorem C20_pycalver_rec_example :
    ∃ v, v1ParseVersionInfo "v201712.0033-beta".toList "{pycalver}".toList = .ok v ∧ PycalverRec v 2017 12 := by
  refine ⟨{ v1RecBase with year := some 2017, month := some 12, quarter := some 4,
                           bid := "0033".toList, tag := "beta".toList }, by decide +kernel, ?_⟩
  exact ⟨rfl, rfl, by decide, rfl, rfl, rfl, rfl, by decide⟩

/-- a bump of that record on 2018-01-05: calendar fields of the date, next id, tag kept -/
theorem C20_bump_example :
    v1Bump { v1RecBase with year := some 2017, month := some 12, quarter := some 4,
                            bid := "0033".toList, tag := "beta".toList } {} (2018, 1, 5)
      = .ok { v1RecBase with year := some 2018, quarter := some 1, month := some 1, dom := some 5,
                             doy := some 5, isoWeek := some 1, usWeek := some 0,
                             bid := "0034".toList, tag := "beta".toList } := by
  decide +kernel

/-- the documented composite `v{year}{month}{build}{release}` is a token list of documented
    parts; it is legacy for all three tests -/
theorem C20_dispatch_example :
    renderToks [.lit "v".toList, .part "year".toList, .part "month".toList, .part "build".toList,
                .part "release".toList] = "v{year}{month}{build}{release}".toList ∧
    ([LTok.lit "v".toList, .part "year".toList, .part "month".toList, .part "build".toList,
      .part "release".toList].all LTok.documented) = true ∧
    hasV1Part "v{year}{month}{build}{release}".toList = true ∧
    isNewPattern "v{year}{month}{build}{release}".toList = false ∧
    hasV1Part "{pycalver}".toList = true ∧ hasV1Part "vYYYY.BUILD".toList = false ∧
    isNewPattern "vYYYY.BUILD".toList = true := by
  refine ⟨?_, ?_, ?_, ?_, ?_, ?_, ?_⟩ <;> decide +kernel

/-! ### through the gate -/

/-- "`test`/`update` results are strictly greater than their input": the legacy branch of
    `_is_valid_version` accepts a new version only if it is read by the pattern in full and is
    strictly greater under the PEP 440 order (C16's `pepLt`) -/
theorem C20_gate_greater (pat old new : Str) (unique : Bool) (tags : List Str)
    (h : v1Gate pat old new unique tags = .ok .accept) :
    (∃ v, v1ParseVersionInfo new pat = .ok v) ∧ pepLt old new = true := by
  unfold v1Gate at h
  cases hp : v1ParseVersionInfo new pat with
  | error e =>
    rw [hp] at h
    cases e <;> simp at h
  | ok v =>
    rw [hp] at h
    simp only at h
    cases hle : pepLe new old with
    | true => simp [hle] at h
    | false => exact ⟨⟨v, rfl⟩, pepLt_of_not_le hle⟩

/-- `bumpver test` with ANY pattern (either engine, either gate): an announced version is
    strictly greater than the old one -/
theorem C20_test_greater (old pat : Str) (fl : IncrFlags) (dg : Bool) (date today : Nat × Nat × Nat)
    (sv : Option Str) (new pep : Str)
    (h : dispatchCliTest old pat fl dg date today sv = .announce new pep) :
    pepLt old new = true := by
  unfold dispatchCliTest at h
  split at h
  · cases h
  · split at h
    · cases h
    · split at h
      · cases h
      · dsimp only at h
        split at h
        · cases h
        · cases h
        · cases h
        · next n hr =>
          split at h
          · next n' hg =>
            have hn : n = new := by
              simp only [TestOutcome.announce.injEq] at h
              exact h.1
            subst hn
            unfold dispatchGate at hg
            split at hg
            · split at hg
              · next hacc => exact pepLt_of_not_le (gate_accept hacc).2.1
              all_goals cases hg
            · split at hg
              · next hacc => exact (C20_gate_greater pat old n false [] hacc).2
              all_goals cases hg
          all_goals cases h

/-! ## The composition over whole legacy patterns (pattern tree, Model/V1Tree.lean) -/

/-- ACCEPTED IN FULL: for every well-formed legacy pattern tree (`V1Pat.wf`: supported parts only, every
    variable-width numeric part — {MAJOR}…, {MM}…, {build_no}, {bid}, {BID}, {month_short} — followed by a
    non-digit, nothing that starts with `-` after the optional `-tag` of {release} / {pycalver}) and every
    record inside the domain of its parts (`V1Pat.vok`), `re.match` of the compiled regex on the rendered
    text consumes ALL of it and its named groups are exactly the rendered part texts (a composite's group
    holds the text of the whole composite). -/
theorem C20_tree_accepted_in_full (p : V1Pat) (v : V1Info) (r : Re) (hwf : V1Pat.wf p FSet.endOnly = true)
    (hv : V1Pat.vok v p = true) (hr : V1Pat.compile p = some r) :
    reMatch r (V1Pat.render v p) =
      some { start := 0, stop := (V1Pat.render v p).length, caps := (V1Pat.caps v p).reverse } :=
  v1_compose_match v p r hwf hv hr

/-- … also in the middle of other text: the FIRST success of the compiled regex on the rendered text
    followed by any continuation the pattern admits stops exactly at the end of the rendered text -/
theorem C20_tree_accepted_before (p : V1Pat) (v : V1Info) (F : FSet) (r : Re) (k : Str) (st : MSt)
    (hwf : V1Pat.wf p F = true) (hv : V1Pat.vok v p = true) (hr : V1Pat.compile p = some r)
    (hk : F.has k = true) (hst : st.rest = V1Pat.render v p ++ k) :
    ∃ st', (r.m st).head? = some st' ∧ st'.rest = k ∧ st'.caps = (V1Pat.caps v p).reverse ++ st.caps :=
  v1_compose_head v p F r k st hwf hv hr hk hst

/-- THE ROUND TRIP: the rendered text is read (`parse_version_info` after compilation: first match, full
    length, `groupdict`, `_parse_pattern_groups`, `_parse_field_values`) as a record `v'` that agrees with
    `v` on EVERY part of the pattern (`V1Pat.agree`: same part texts), and rendering `v'` reproduces the
    text.  `wfTop` adds what `re.compile` and `_parse_pattern_groups` demand (no group twice, no field
    twice); `calOk` (decidable) says the calendar fields the pattern shows are consistent — `_parse_field_values`
    REPLACES month and day by `date_from_doy(year, doy)` and recomputes the day of year from year/month/day
    (`C20_calOk_needed_witness`); it holds for every record whose calendar is that of a date
    (`C20_tree_roundtrip_of_date`). -/
theorem C20_tree_roundtrip (p : V1Pat) (v : V1Info) (r : Re) (hwf : V1Pat.wfTop p = true)
    (hv : V1Pat.vok v p = true) (hc : V1Pat.calOk v p = true) (hr : V1Pat.compile p = some r) :
    ∃ v', v1c_parseWithRe r (V1Pat.render v p) = .ok v' ∧ V1Pat.agree v v' p = true ∧
      V1Pat.render v' p = V1Pat.render v p :=
  v1_roundtrip p v r hwf hv hc hr

/-- the round trip for "every date": a record whose year / month / day / day-of-year are those of a
    valid date (what `cal_info(date)` produces, hence what every bump produces) -/
theorem C20_tree_roundtrip_of_date (p : V1Pat) (v : V1Info) (r : Re) (y m d : Nat)
    (hd : validDate y m d = true) (hy : v.year = some y) (hm : v.month = some m) (hdm : v.dom = some d)
    (hj : v.doy = some (dayOfYear y m d)) (hwf : V1Pat.wfTop p = true) (hv : V1Pat.vok v p = true)
    (hr : V1Pat.compile p = some r) :
    ∃ v', v1c_parseWithRe r (V1Pat.render v p) = .ok v' ∧ V1Pat.agree v v' p = true ∧
      V1Pat.render v' p = V1Pat.render v p :=
  v1_roundtrip p v r hwf hv (v1c_calOk_of_date p v y m d hd hy hm hdm hj) hr

/-- `v1c_parseWithRe` IS the model's `parse_version_info` after `compile_pattern` -/
theorem C20_parse_is_parseWithRe (s raw : Str) (r : Re) (h : v1CompilePattern raw raw = .ok r) :
    v1ParseVersionInfo s raw = v1c_parseWithRe r s :=
  v1c_parseVersionInfo_of s raw r h

/-- the documented composites ({pycalver}, {semver}, the four spelled-out forms of
    `_normalized_pattern`) and combinations of the {year}/{month}/{dom}/{doy}/{quarter}/{build_no}/
    {release}/{MAJOR}/{MINOR}/{PATCH} style parts -/
def c20DocPatterns : List String := [
  "{pycalver}", "{semver}", "v{year}{month}{build}{release}", "{year}{month}{build}{release}",
  "v{year}{build}{release}", "{year}{build}{release}", "{calver}{build}{release}",
  "v{year}{month}.{build_no}{release}", "{year}.{month}.{dom}", "{year}{month}{dom}", "{year}.{doy}",
  "{yyyy}q{quarter}.{build_no}", "{yy}.{month_short}.{PATCH}", "{MAJOR}.{MINOR}.{PATCH}",
  "{MAJOR}.{MINOR}.{PATCH}-{tag}", "{semver}{release}", "{year}.{month}.{MINOR}{release}", "{year}.{BID}"]

set_option maxRecDepth 100000 in
/-- NON-VACUITY, scope AND THE TIE for those patterns (kernel-evaluated on the regenerated tables): each
    tokenises to a tree that is `wfTop` and compiles to EXACTLY the regex `compile_pattern(raw, raw)` —
    `_normalized_pattern`, the escape loop, `_replace_pattern_parts`, `re.compile` — produces -/
theorem C20_tree_doc_patterns :
    c20DocPatterns.all (fun s => match V1Pat.tokenize s.toList with
      | some p => p.wfTop && decide (v1c_exceptOk (v1CompilePattern s.toList s.toList) = p.compile) &&
                  p.compile.isSome
      | none => false) = true := by
  decide +kernel

/-- THE ROUND TRIP THROUGH THE MODEL'S STRING PIPELINE for the documented patterns: for every record in
    the domain, the text the tree renders is read by `parse_version_info(text, raw_pattern)` as a record
    that agrees on every part and renders to the same text -/
theorem C20_roundtrip_documented (s : String) (hs : s ∈ c20DocPatterns) (p : V1Pat)
    (hp : V1Pat.tokenize s.toList = some p) (v : V1Info) (hv : V1Pat.vok v p = true)
    (hc : V1Pat.calOk v p = true) :
    ∃ v', v1ParseVersionInfo (V1Pat.render v p) s.toList = .ok v' ∧ V1Pat.agree v v' p = true ∧
      V1Pat.render v' p = V1Pat.render v p := by
  have h := C20_tree_doc_patterns
  rw [List.all_eq_true] at h
  have h := h s hs
  rw [hp] at h
  simp only [Bool.and_eq_true, decide_eq_true_eq] at h
  obtain ⟨⟨hwf, heq⟩, hsome⟩ := h
  cases hr : V1Pat.compile p with
  | none => rw [hr] at hsome; cases hsome
  | some r =>
    rw [hr] at heq
    have hcp : v1CompilePattern s.toList s.toList = .ok r := by
      cases hx : v1CompilePattern s.toList s.toList with
      | error e => rw [hx] at heq; cases heq
      | ok r' =>
        rw [hx] at heq
        simp only [v1c_exceptOk, Option.some.injEq] at heq
        rw [heq]
    obtain ⟨v', h1, h2, h3⟩ := v1_roundtrip p v r hwf hv hc hr
    refine ⟨v', ?_, h2, h3⟩
    rw [v1c_parseVersionInfo_of _ _ r hcp]
    exact h1

/-- "rendered versions are accepted by their pattern": `is_valid` says yes -/
theorem C20_is_valid_documented (s : String) (hs : s ∈ c20DocPatterns) (p : V1Pat)
    (hp : V1Pat.tokenize s.toList = some p) (v : V1Info) (hv : V1Pat.vok v p = true)
    (hc : V1Pat.calOk v p = true) : v1IsValid (V1Pat.render v p) s.toList = .ok true := by
  obtain ⟨v', h, _, _⟩ := C20_roundtrip_documented s hs p hp v hv hc
  unfold v1IsValid
  rw [h]

/-- more combinations, among them the rough-edge parts and the pep440 search patterns (outside `wf`, but
    the tree still compiles as the string surgery does), regex metacharacters as literal text, and a
    pattern `re.compile` rejects (a group name twice) -/
def c20TiePatterns : List String := [
  "{dom_short}.{doy_short}.{BBB}", "{iso_week}{us_week}{yy}", "{release_tag}{MM}.{PPP}",
  "a-b.c+d*e?f[g]h(i)j|k\\l {year}", "{pycalver}{release}", "{year}.{month_short}.{dom}-{BID}"]

set_option maxRecDepth 100000 in
/-- THE TIE (compile side, Boolean form of the driver op) on those -/
theorem C20_tree_tie : c20TiePatterns.all (fun s => v1c_compileTie s.toList) = true := by
  decide +kernel

set_option maxRecDepth 100000 in
/-- the composite trees of Model/V1Tree.lean are what `_init_composite_patterns` stored in
    `PART_PATTERNS` (compared as compiled regexes) -/
theorem C20_composites_tie :
    v1c_composites.all (fun nb => match nb.2.compile, v1c_partRe nb.1 with
      | some a, some b => Re.beq a b
      | _, _ => false) = true := by
  decide +kernel

/-- sample records: a December date with a `beta` tag and a short id, a leap day with the `final` tag
    and a long id -/
def c20SampleA : V1Info :=
  { year := some 2017, quarter := some 4, month := some 12, dom := some 5, doy := some 339, isoWeek := some 49,
    usWeek := some 48, major := 1, minor := 2, patch := 3, bid := "0033".toList, tag := "beta".toList }
def c20SampleB : V1Info :=
  { year := some 2024, quarter := some 1, month := some 2, dom := some 29, doy := some 60, isoWeek := some 9,
    usWeek := some 8, major := 0, minor := 10, patch := 123456, bid := "123456".toList, tag := "final".toList }

set_option maxRecDepth 100000 in
/-- THE TIE (render side): on every documented pattern and both sample records the tree renders EXACTLY
    what `format_version` (FULL_PART_FORMATS, the kwargs, `str.format`) writes -/
theorem C20_tree_render_tie :
    c20DocPatterns.all (fun s => v1c_renderTie s.toList c20SampleA && v1c_renderTie s.toList c20SampleB) = true := by
  decide +kernel

set_option maxRecDepth 100000 in
/-- a concrete record in the domain: v201712.0033-beta under {pycalver} (hypotheses satisfiable) -/
theorem C20_tree_example :
    (match V1Pat.tokenize "{pycalver}".toList with
     | some p => p.wfTop && V1Pat.vok c20SampleA p && V1Pat.calOk c20SampleA p &&
                 (V1Pat.render c20SampleA p == "v201712.0033-beta".toList)
     | none => false) = true := by
  decide +kernel

set_option maxRecDepth 100000 in
/-- WHY `calOk` IS THERE: `{year}.{doy}` is `wfTop`, the record (2023, day 366) lies in the domain of both
    parts ({doy} recognises 001..366 whatever the year), but 2023 has 365 days: `date_from_doy` runs into
    2024-01-01, month and day are taken from it while the YEAR IS KEPT, and the day of year is recomputed —
    "2023.366" reads back as day 1 of 2023 and renders as "2023.001". -/
theorem C20_calOk_needed_witness :
    (match V1Pat.tokenize "{year}.{doy}".toList with
     | some p =>
       let v : V1Info := { v1RecBase with year := some 2023, doy := some 366 }
       p.wfTop && V1Pat.vok v p && !V1Pat.calOk v p && (V1Pat.render v p == "2023.366".toList)
     | none => false) = true ∧
    (v1ParseVersionInfo "2023.366".toList "{year}.{doy}".toList).toOption.map (fun v => (v.year, v.month, v.dom, v.doy))
      = some (some 2023, some 1, some 1, some 1) := by
  refine ⟨?_, ?_⟩ <;> decide +kernel

end BV
