/-
  Props/C13.lean — property C13: --dry changes nothing and shows exactly what a real run would do.

  "`update --dry` leaves every file byte-identical and issues no mutating VCS command. When it
   exits 0, applying the unified diff it prints to the current files yields exactly the files
   that a real run with the same arguments produces, and that real run also exits 0."

  Model: Model/Diff.lean (`diffFile`/`diffFiles` = the dry path of v2rewrite.diff, and the
  strict unified-diff applier `applyHunks`), Model/Rewrite.lean (the write path), Model/Plan.lean.
  PARTIAL: `difflib.unified_diff` is not modelled — the check validates it per instance with the
  applier below (proved strict: C13_apply_sound), comparing with the files of a real run.
-/
import BumpverVerif.Model.Diff
import BumpverVerif.Props.C10
import BumpverVerif.Proofs.RewriteLemmas
import BumpverVerif.Proofs.DiffLemmas
namespace BV

/-- --dry is pure: no file is written, no hook runs, no mutating VCS command is issued
    (for every configuration, flag set and environment: C10's plan model) -/
theorem C13_dry_pure (c : PlanCfg) (a : PlanCli) (e : PlanEnv) (hd : a.dry = true) :
    ∀ ev ∈ (plan c a e).1, ev ≠ .rewrite ∧ ev.mutating = false ∧ ev.isHook = false := by
  intro ev hev
  obtain ⟨h1, h2, h3⟩ := C10_dry c a e hd ev hev
  exact ⟨h3, h1, h2⟩

/-- the diff path and the write path compute the SAME new lines for a file -/
theorem C13_same_new_lines (fs : FS) (old new : VInfo) (path : Str) (pats : List CPat)
    (ol nl : List Str) (h : diffFile fs old new path pats = .ok (ol, nl)) :
    ∃ content, lookup path fs = some content ∧ ol = splitOn (detectLineSep content) content ∧
      rewriteContent pats new content = .ok (join (detectLineSep content) nl) := by
  exact diffFile_rewriteContent h

/-- a dry run that reports no error ⇒ the real run's rewrite phase succeeds too -/
theorem C13_dry_ok_real_ok (fs : FS) (old new : VInfo) (fps : List (Str × List CPat))
    (rs : List (Str × List Str × List Str)) (h : diffFiles fs old new fps = .ok rs) :
    (rewriteFiles fs fps new).2 = .ok () := by
  obtain ⟨ws, hws, -⟩ := planWrites_of_diffFiles fs old new fps rs h
  unfold rewriteFiles
  simp only [hws]

/-- … and the real run writes, for every configured file, exactly the new lines the dry run diffed -/
theorem C13_dry_shows_real (fs : FS) (old new : VInfo) (fps : List (Str × List CPat))
    (hnd : (fps.map (·.1)).Nodup)
    (rs : List (Str × List Str × List Str)) (h : diffFiles fs old new fps = .ok rs) :
    ∀ r ∈ rs, ∃ content, lookup r.1 fs = some content ∧
      lookup r.1 (rewriteFiles fs fps new).1 = some (join (detectLineSep content) r.2.2) := by
  obtain ⟨ws, hws, hall⟩ := planWrites_of_diffFiles fs old new fps rs h
  have hp := planWrites_paths fs new fps ws hws
  intro r hr
  obtain ⟨content, hc, hm⟩ := hall r hr
  refine ⟨content, hc, ?_⟩
  unfold rewriteFiles
  simp only [hws]
  exact lookup_foldl_write_mem ws fs _ _ (hp ▸ hnd) hm

/-- what it means for a hunk list to describe the change from `old` to `new`, starting after
    `pos` consumed old lines: each hunk's old side sits verbatim at its stated position and is
    replaced by its new side; everything between and after the hunks is unchanged -/
def Describes : List Hunk → Nat → List Str → List Str → Prop
  | [], _, old, new => new = old
  | h :: hs, pos, old, new =>
    pos ≤ h.oldPos ∧ h.oldSide.length = h.oldLen ∧ h.newSide.length = h.newLen ∧
    ∃ rest new', old = old.take (h.oldPos - pos) ++ h.oldSide ++ rest ∧
      new = old.take (h.oldPos - pos) ++ h.newSide ++ new' ∧
      (old.take (h.oldPos - pos)).length = h.oldPos - pos ∧
      Describes hs (h.oldPos + h.oldLen) rest new'

/-- THE APPLIER IS STRICT: whenever it returns a result, the hunks really describe the change —
    every context and deletion line was found verbatim at the exact position -/
theorem C13_apply_sound (hs : List Hunk) (pos : Nat) (old new : List Str)
    (h : applyHunks hs pos old = some new) : Describes hs pos old new := by
  induction hs generalizing pos old new with
  | nil =>
    simp only [applyHunks, Option.some.injEq] at h
    exact h.symm
  | cons hk hs ih =>
    obtain ⟨h1, h2, h3, -, h5, h6, rest, hr, hn⟩ := (applyHunks_cons_some hk hs pos old new).1 h
    refine ⟨h1, h2, h3, old.drop ((hk.oldPos - pos) + hk.oldLen), rest, ?_, hn, ?_, ih _ _ _ hr⟩
    · rw [← h6, List.append_assoc, ← List.drop_drop, List.take_append_drop, List.take_append_drop]
    · rw [List.length_take]; omega

/-- and it is complete for descriptions: a described change is reproduced -/
theorem C13_apply_complete (hs : List Hunk) (pos : Nat) (old new : List Str)
    (hz : ∀ h ∈ hs, h.oldLen = 0 ∨ h.oldStart ≠ 0)
    (h : Describes hs pos old new) : applyHunks hs pos old = some new := by
  induction hs generalizing pos old new with
  | nil => exact congrArg some h.symm
  | cons hk hs ih =>
    obtain ⟨h1, h2, h3, rest, new', ho, hn, hl, hd⟩ := h
    obtain ⟨f1, f2, f3, -⟩ := split_facts old _ _ rest _ _ ho hl h2
    refine (applyHunks_cons_some hk hs pos old new).2
      ⟨h1, h2, h3, hz hk List.mem_cons_self, f3, f1, new', ?_, hn⟩
    rw [f2]
    exact ih _ _ _ (fun x hx => hz x (List.mem_cons_of_mem _ hx)) hd

/-- the hunk body reader consumes exactly the announced numbers of old-side and new-side lines -/
theorem C13_hunk_counts (lines : List Str) (o n : Nat) (ls : List DLine) (rest : List Str)
    (h : readHunkBody lines o n = some (ls, rest)) :
    (ls.filter (fun l => match l with | .add _ => false | _ => true)).length = o ∧
    (ls.filter (fun l => match l with | .del _ => false | _ => true)).length = n ∧
    lines.length = ls.length + rest.length := by
  obtain ⟨h1, h2, h3⟩ := readHunkBody_counts lines o n ls rest h
  have e1 : (fun l : DLine => match l with | .add _ => false | _ => true) = DLine.isOld := by
    funext l; cases l <;> rfl
  have e2 : (fun l : DLine => match l with | .del _ => false | _ => true) = DLine.isNew := by
    funext l; cases l <;> rfl
  rw [e1, e2]
  exact ⟨h1, h2, h3⟩

/-! tests of the parser/applier on a concrete diff (labelled as tests) -/
example : applyUnifiedText ["--- f".toList, "+++ f".toList, "@@ -1,3 +1,3 @@".toList, " a".toList, "-b".toList, "+B".toList, " c".toList]
    [("f".toList, ["a".toList, "b".toList, "c".toList])] = some [("f".toList, ["a".toList, "B".toList, "c".toList])] := by decide +kernel
example : applyUnifiedText ["--- f".toList, "+++ f".toList, "@@ -1,3 +1,3 @@".toList, " a".toList, "-X".toList, "+B".toList, " c".toList]
    [("f".toList, ["a".toList, "b".toList, "c".toList])] = none := by decide +kernel

end BV
