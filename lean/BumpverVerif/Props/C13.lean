/-
  Props/C13.lean — property C13: --dry changes nothing and shows exactly what a real run would do.

  "`update --dry` leaves every file byte-identical and issues no mutating VCS command. When it
   exits 0, applying the unified diff it prints to the current files yields exactly the files
   that a real run with the same arguments produces, and that real run also exits 0."

  Model: Model/Diff.lean (`diffFile`/`diffFiles` = the dry path of v2rewrite.diff, and the
  strict unified-diff applier `applyHunks`), Model/Rewrite.lean (the write path), Model/Plan.lean.
  PARTIAL: `difflib.unified_diff` is not modelled — the check validates it per instance with the
  applier below (proved strict: C13_apply_sound), comparing with the files of a real run.
-/
import BumpverVerif.Model.Diff
import BumpverVerif.Props.C10
import BumpverVerif.Proofs.RewriteLemmas
namespace BV

/-- --dry is pure: no file is written, no hook runs, no mutating VCS command is issued
    (for every configuration, flag set and environment: C10's plan model) -/
theorem C13_dry_pure (c : PlanCfg) (a : PlanCli) (e : PlanEnv) (hd : a.dry = true) :
    ∀ ev ∈ (plan c a e).1, ev ≠ .rewrite ∧ ev.mutating = false ∧ ev.isHook = false := by
  sorry

/-- the diff path and the write path compute the SAME new lines for a file -/
theorem C13_same_new_lines (fs : FS) (old new : VInfo) (path : Str) (pats : List CPat)
    (ol nl : List Str) (h : diffFile fs old new path pats = .ok (ol, nl)) :
    ∃ content, lookup path fs = some content ∧ ol = splitOn (detectLineSep content) content ∧
      rewriteContent pats new content = .ok (join (detectLineSep content) nl) := by
  sorry

/-- a dry run that reports no error ⇒ the real run's rewrite phase succeeds too -/
theorem C13_dry_ok_real_ok (fs : FS) (old new : VInfo) (fps : List (Str × List CPat))
    (rs : List (Str × List Str × List Str)) (h : diffFiles fs old new fps = .ok rs) :
    (rewriteFiles fs fps new).2 = .ok () := by
  sorry

/-- … and the real run writes, for every configured file, exactly the new lines the dry run diffed -/
theorem C13_dry_shows_real (fs : FS) (old new : VInfo) (fps : List (Str × List CPat))
    (hnd : (fps.map (·.1)).Nodup)
    (rs : List (Str × List Str × List Str)) (h : diffFiles fs old new fps = .ok rs) :
    ∀ r ∈ rs, ∃ content, lookup r.1 fs = some content ∧
      lookup r.1 (rewriteFiles fs fps new).1 = some (join (detectLineSep content) r.2.2) := by
  sorry

/-- what it means for a hunk list to describe the change from `old` to `new`, starting after
    `pos` consumed old lines: each hunk's old side sits verbatim at its stated position and is
    replaced by its new side; everything between and after the hunks is unchanged -/
def Describes : List Hunk → Nat → List Str → List Str → Prop
  | [], _, old, new => new = old
  | h :: hs, pos, old, new =>
    pos ≤ h.oldPos ∧ h.oldSide.length = h.oldLen ∧ h.newSide.length = h.newLen ∧
    ∃ rest new', old = old.take (h.oldPos - pos) ++ h.oldSide ++ rest ∧
      new = old.take (h.oldPos - pos) ++ h.newSide ++ new' ∧
      (old.take (h.oldPos - pos)).length = h.oldPos - pos ∧
      Describes hs (h.oldPos + h.oldLen) rest new'

/-- THE APPLIER IS STRICT: whenever it returns a result, the hunks really describe the change —
    every context and deletion line was found verbatim at the exact position -/
theorem C13_apply_sound (hs : List Hunk) (pos : Nat) (old new : List Str)
    (h : applyHunks hs pos old = some new) : Describes hs pos old new := by
  sorry

/-- and it is complete for descriptions: a described change is reproduced -/
theorem C13_apply_complete (hs : List Hunk) (pos : Nat) (old new : List Str)
    (hz : ∀ h ∈ hs, h.oldLen = 0 ∨ h.oldStart ≠ 0)
    (h : Describes hs pos old new) : applyHunks hs pos old = some new := by
  sorry

/-- the hunk body reader consumes exactly the announced numbers of old-side and new-side lines -/
theorem C13_hunk_counts (lines : List Str) (o n : Nat) (ls : List DLine) (rest : List Str)
    (h : readHunkBody lines o n = some (ls, rest)) :
    (ls.filter (fun l => match l with | .add _ => false | _ => true)).length = o ∧
    (ls.filter (fun l => match l with | .del _ => false | _ => true)).length = n ∧
    lines.length = ls.length + rest.length := by
  sorry

/-! tests of the parser/applier on a concrete diff (labelled as tests) -/
example : applyUnifiedText ["--- f".toList, "+++ f".toList, "@@ -1,3 +1,3 @@".toList, " a".toList, "-b".toList, "+B".toList, " c".toList]
    [("f".toList, ["a".toList, "b".toList, "c".toList])] = some [("f".toList, ["a".toList, "B".toList, "c".toList])] := by decide +kernel
example : applyUnifiedText ["--- f".toList, "+++ f".toList, "@@ -1,3 +1,3 @@".toList, " a".toList, "-X".toList, "+B".toList, " c".toList]
    [("f".toList, ["a".toList, "b".toList, "c".toList])] = none := by decide +kernel

end BV
