/-
  Props/C15.lean — property C15: {pep440_version} always denotes the same version as {version}.

  "Whenever the version string is itself a valid PEP 440 version, the text written for
   `{pep440_version}` is a valid PEP 440 version equal to it (same release numbers, same
   pre/post/dev segment and number), is accepted by the derived search pattern, and equals
   the `PEP440` value printed by `test`/`show` up to PEP 440 normalisation. As the README's
   normalisation rules state, it carries no `v` prefix, every dot-separated numeric component
   after the first is written without leading zeros, and the release tag appears in its short
   form (a, b, rc, post, dev) followed by its number."

  Model: `convertToPep440` (string-faithful, Model/V2Patterns.lean) over the GENERATED tables,
  the tag maps, `fmtValue`, and C16's PEP 440 parser.
  What is PROVED here: the table-level facts the derivation rests on, for the regenerated
  tables, and the conversion of every README example pattern.  What is only VALIDATED (by the
  correspondence ops and the `packaging`-based oracle of harness/props/c15.py): the
  end-to-end statement for all PEP 440-shaped patterns and all values — a proof would need the
  string-level composition of C02; labelled partial in MANIFEST.  Patterns outside the README's
  shapes are known finding F-C15-odd-shapes.
-/
import BumpverVerif.Model.V2Version
import BumpverVerif.Model.Pep440
namespace BV

private def S (s : String) : Str := s.toList

/-- every part the conversion substitutes shows the SAME field as the part it replaces and is
    rendered without zero padding (`str(v)` / `str(int(v))`): this is what strips leading
    zeros from the dot-separated components and from BUILD -/
theorem C15_substitutions_unpadded :
    Gen.pep440PartSubstitutions.all (fun pq =>
      ((lookup pq.1 Gen.partFields == lookup pq.2 Gen.partFields) ||
        (pq.1 == S "TAG" && pq.2 == S "PYTAG")) &&          -- the tag goes through the tag tables below
      (lookup pq.1 Gen.partFields).isSome &&
      (match lookup pq.2 Gen.partFormats with
       | some .str => true | some .int => true | _ => false)) = true := by
  decide

/-- the padded parts are exactly the ones that get substituted (nothing padded is forgotten),
    apart from the year parts, which are always the first component -/
theorem C15_padded_parts_covered :
    Gen.partFormats.all (fun pk =>
      match pk.2 with
      | .pad _ => (lookup pk.1 Gen.pep440PartSubstitutions).isSome
      | _ => true) = true := by
  decide

/-- the two tag tables are consistent: the long tag of a short tag maps back to it -/
theorem C15_tag_tables_consistent :
    Gen.tagByPep440Tag.all (fun pt => lookup pt.2 Gen.pep440TagByTag == some pt.1) = true ∧
    Gen.validReleaseTagValues.all (fun t => (lookup t Gen.pep440TagByTag).isSome) = true := by
  decide

/-- the short form of every release tag IS the PEP 440 segment of that name: `1.0<short>3`
    parses (C16's parser) with the pre / post / dev segment the README documents -/
theorem C15_short_tags_are_pep440 :
    (parsePep (S "1.0a3")).map (·.pre) = some (some (S "a", 3)) ∧
    (parsePep (S "1.0b3")).map (·.pre) = some (some (S "b", 3)) ∧
    (parsePep (S "1.0rc3")).map (·.pre) = some (some (S "rc", 3)) ∧
    (parsePep (S "1.0post3")).map (·.post) = some (some 3) ∧
    (parsePep (S "1.0dev3")).map (·.dev) = some (some 3) ∧
    lookup (S "alpha") Gen.pep440TagByTag = some (S "a") ∧ lookup (S "beta") Gen.pep440TagByTag = some (S "b") ∧
    lookup (S "rc") Gen.pep440TagByTag = some (S "rc") ∧ lookup (S "post") Gen.pep440TagByTag = some (S "post") ∧
    lookup (S "dev") Gen.pep440TagByTag = some (S "dev") ∧ lookup (S "final") Gen.pep440TagByTag = some [] := by
  decide +kernel

/-- a final release renders the tag part as the empty string, so `[PYTAGNUM]` is omitted -/
theorem C15_final_tail_omitted :
    isZeroVal (S "PYTAG") [] = true ∧ isZeroVal (S "NUM") (S "0") = true ∧ isZeroVal (S "TAG") (S "final") = true := by
  decide

/-- the README's pattern examples and their derived PEP 440 search patterns (kernel-evaluated
    on the regenerated tables; the conversion is string surgery, so this is checked per pattern) -/
def readmeConversions : List (String × String) := [
  ("MAJOR.MINOR.PATCH[PYTAGNUM]", "MAJOR.MINOR.PATCH[PYTAGNUM]"),
  ("MAJOR.MINOR[.PATCH[PYTAGNUM]]", "MAJOR.MINOR[.PATCH[PYTAGNUM]]"),
  ("YYYY.BUILD[PYTAGNUM]", "YYYY.BLD[PYTAGNUM]"),
  ("YYYY.BUILD[-TAG]", "YYYY.BLD[PYTAGNUM]"),
  ("YYYY.INC0[PYTAGNUM]", "YYYY.INC0[PYTAGNUM]"),
  ("YYYY0M.PATCH[-TAG]", "YYYY0M.PATCH[PYTAGNUM]"),
  ("YYYY0M.BUILD[-TAG]", "YYYY0M.BLD[PYTAGNUM]"),
  ("YYYY.0M", "YYYY.MM[PYTAGNUM]"),
  ("YYYY.MM", "YYYY.MM[PYTAGNUM]"),
  ("YYYY.WW", "YYYY.WW[PYTAGNUM]"),
  ("YYYY.MM.PATCH[PYTAGNUM]", "YYYY.MM.PATCH[PYTAGNUM]"),
  ("YYYY.0M.PATCH[PYTAGNUM]", "YYYY.MM.PATCH[PYTAGNUM]"),
  ("YYYY.MM.INC0", "YYYY.MM.INC0[PYTAGNUM]"),
  ("YYYY.MM.DD", "YYYY.MM.DD[PYTAGNUM]"),
  ("YYYY.0M.0D", "YYYY.MM.DD[PYTAGNUM]"),
  ("YY.0M.0D", "YY.MM.DD[PYTAGNUM]"),
  ("vYYYY0M.BUILD[-TAG]", "YYYY0M.BLD[PYTAGNUM]"),
  ("vMAJOR.MINOR.PATCH[-TAGNUM]", "MAJOR.MINOR.PATCH[PYTAGNUM]")]

theorem C15_readme_conversions :
    readmeConversions.all (fun pq => convertToPep440 pq.1.toList == pq.2.toList) = true := by
  decide +kernel

/-- the derived pattern never starts with the `v` prefix of the version pattern, ends with the tag
    part in `PYTAGNUM` form, has no `-` separator and no zero-padded BUILD left — for the README examples -/
theorem C15_readme_shape :
    readmeConversions.all (fun pq =>
      let p := convertToPep440 pq.1.toList
      !startsWith p ['v'] && isInfix (S "[PYTAGNUM]") p && !isInfix (S "-") p && !isInfix (S "BUILD") p) = true := by
  decide +kernel

/-- the defect region (F-C15-odd-shapes): a separator other than '.' is simply deleted, which
    glues two numeric parts together -/
theorem C15_odd_shape_witness :
    convertToPep440 (S "YYYY.MM-INC0") = S "YYYY.MMINC0[PYTAGNUM]" := by
  decide +kernel

end BV
