/-
  Props/C15.lean — property C15: {pep440_version} always denotes the same version as {version}.

  "Whenever the version string is itself a valid PEP 440 version, the text written for
   `{pep440_version}` is a valid PEP 440 version equal to it (same release numbers, same
   pre/post/dev segment and number), is accepted by the derived search pattern, and equals
   the `PEP440` value printed by `test`/`show` up to PEP 440 normalisation. As the README's
   normalisation rules state, it carries no `v` prefix, every dot-separated numeric component
   after the first is written without leading zeros, and the release tag appears in its short
   form (a, b, rc, post, dev) followed by its number."

  Model: `convertToPep440` (string-faithful, Model/V2Patterns.lean) over the GENERATED tables,
  the tag maps, `fmtValue`, and C16's PEP 440 parser.
  What is PROVED here: the table-level facts the derivation rests on, for the regenerated
  tables, and the conversion of every README example pattern.  What is only VALIDATED (by the
  correspondence ops and the `packaging`-based oracle of harness/props/c15.py): the
  end-to-end statement for all PEP 440-shaped patterns and all values — a proof would need the
  string-level composition of C02; labelled partial in MANIFEST.  Patterns outside the README's
  shapes are known finding F-C15-odd-shapes.
-/
import BumpverVerif.Model.V2Version
import BumpverVerif.Model.Pep440
import BumpverVerif.Model.PepTree
import BumpverVerif.Proofs.PepTreeLemmas
import BumpverVerif.Model.PepOfRecord
import BumpverVerif.Proofs.PepParseLemmas
namespace BV

private def S (s : String) : Str := s.toList

/-- every part the conversion substitutes shows the SAME field as the part it replaces and is
    rendered without zero padding (`str(v)` / `str(int(v))`): this is what strips leading
    zeros from the dot-separated components and from BUILD -/
theorem C15_substitutions_unpadded :
    Gen.pep440PartSubstitutions.all (fun pq =>
      ((lookup pq.1 Gen.partFields == lookup pq.2 Gen.partFields) ||
        (pq.1 == S "TAG" && pq.2 == S "PYTAG")) &&          -- the tag goes through the tag tables below
      (lookup pq.1 Gen.partFields).isSome &&
      (match lookup pq.2 Gen.partFormats with
       | some .str => true | some .int => true | _ => false)) = true := by
  decide

/-- the padded parts are exactly the ones that get substituted (nothing padded is forgotten),
    apart from the year parts, which are always the first component -/
theorem C15_padded_parts_covered :
    Gen.partFormats.all (fun pk =>
      match pk.2 with
      | .pad _ => (lookup pk.1 Gen.pep440PartSubstitutions).isSome
      | _ => true) = true := by
  decide

/-- the two tag tables are consistent: the long tag of a short tag maps back to it -/
theorem C15_tag_tables_consistent :
    Gen.tagByPep440Tag.all (fun pt => lookup pt.2 Gen.pep440TagByTag == some pt.1) = true ∧
    Gen.validReleaseTagValues.all (fun t => (lookup t Gen.pep440TagByTag).isSome) = true := by
  decide

/-- the short form of every release tag IS the PEP 440 segment of that name: `1.0<short>3`
    parses (C16's parser) with the pre / post / dev segment the README documents -/
theorem C15_short_tags_are_pep440 :
    (parsePep (S "1.0a3")).map (·.pre) = some (some (S "a", 3)) ∧
    (parsePep (S "1.0b3")).map (·.pre) = some (some (S "b", 3)) ∧
    (parsePep (S "1.0rc3")).map (·.pre) = some (some (S "rc", 3)) ∧
    (parsePep (S "1.0post3")).map (·.post) = some (some 3) ∧
    (parsePep (S "1.0dev3")).map (·.dev) = some (some 3) ∧
    lookup (S "alpha") Gen.pep440TagByTag = some (S "a") ∧ lookup (S "beta") Gen.pep440TagByTag = some (S "b") ∧
    lookup (S "rc") Gen.pep440TagByTag = some (S "rc") ∧ lookup (S "post") Gen.pep440TagByTag = some (S "post") ∧
    lookup (S "dev") Gen.pep440TagByTag = some (S "dev") ∧ lookup (S "final") Gen.pep440TagByTag = some [] := by
  decide +kernel

/-- a final release renders the tag part as the empty string, so `[PYTAGNUM]` is omitted -/
theorem C15_final_tail_omitted :
    isZeroVal (S "PYTAG") [] = true ∧ isZeroVal (S "NUM") (S "0") = true ∧ isZeroVal (S "TAG") (S "final") = true := by
  decide

/-- the README's pattern examples and their derived PEP 440 search patterns (kernel-evaluated
    on the regenerated tables; the conversion is string surgery, so this is checked per pattern) -/
def readmeConversions : List (String × String) := [
  ("MAJOR.MINOR.PATCH[PYTAGNUM]", "MAJOR.MINOR.PATCH[PYTAGNUM]"),
  ("MAJOR.MINOR[.PATCH[PYTAGNUM]]", "MAJOR.MINOR[.PATCH[PYTAGNUM]]"),
  ("YYYY.BUILD[PYTAGNUM]", "YYYY.BLD[PYTAGNUM]"),
  ("YYYY.BUILD[-TAG]", "YYYY.BLD[PYTAGNUM]"),
  ("YYYY.INC0[PYTAGNUM]", "YYYY.INC0[PYTAGNUM]"),
  ("YYYY0M.PATCH[-TAG]", "YYYY0M.PATCH[PYTAGNUM]"),
  ("YYYY0M.BUILD[-TAG]", "YYYY0M.BLD[PYTAGNUM]"),
  ("YYYY.0M", "YYYY.MM[PYTAGNUM]"),
  ("YYYY.MM", "YYYY.MM[PYTAGNUM]"),
  ("YYYY.WW", "YYYY.WW[PYTAGNUM]"),
  ("YYYY.MM.PATCH[PYTAGNUM]", "YYYY.MM.PATCH[PYTAGNUM]"),
  ("YYYY.0M.PATCH[PYTAGNUM]", "YYYY.MM.PATCH[PYTAGNUM]"),
  ("YYYY.MM.INC0", "YYYY.MM.INC0[PYTAGNUM]"),
  ("YYYY.MM.DD", "YYYY.MM.DD[PYTAGNUM]"),
  ("YYYY.0M.0D", "YYYY.MM.DD[PYTAGNUM]"),
  ("YY.0M.0D", "YY.MM.DD[PYTAGNUM]"),
  ("vYYYY0M.BUILD[-TAG]", "YYYY0M.BLD[PYTAGNUM]"),
  ("vMAJOR.MINOR.PATCH[-TAGNUM]", "MAJOR.MINOR.PATCH[PYTAGNUM]")]

theorem C15_readme_conversions :
    readmeConversions.all (fun pq => convertToPep440 pq.1.toList == pq.2.toList) = true := by
  decide +kernel

/-- the derived pattern never starts with the `v` prefix of the version pattern, ends with the tag
    part in `PYTAGNUM` form, has no `-` separator and no zero-padded BUILD left — for the README examples -/
theorem C15_readme_shape :
    readmeConversions.all (fun pq =>
      let p := convertToPep440 pq.1.toList
      !startsWith p ['v'] && isInfix (S "[PYTAGNUM]") p && !isInfix (S "-") p && !isInfix (S "BUILD") p) = true := by
  decide +kernel

/-- the defect region (F-C15-odd-shapes): a separator other than '.' is simply deleted, which
    glues two numeric parts together -/
theorem C15_odd_shape_witness :
    convertToPep440 (S "YYYY.MM-INC0") = S "YYYY.MMINC0[PYTAGNUM]" := by
  decide +kernel

/-! ## The derived pattern on the pattern TREE

  `Pat.toPep` (Model/PepTree.lean) is `_convert_to_pep440` on the tree of Model/PatAst.lean, step by step.  The
  string conversion above stays the reference (it is tied to the Python by the correspondence tests); `pepTie`
  says that both agree on a pattern.  It is PROVED here for the README's patterns and is a Bool the driver can
  evaluate for every generated pattern.  On the tree the round-trip theorems of C02 apply to the derived
  pattern. -/

set_option maxRecDepth 100000 in
/-- THE TIE for the README's patterns: the string surgery's result tokenises to exactly the tree conversion of
    the pattern's tree -/
theorem C15_readme_tree_tie :
    readmeConversions.all (fun pq => pepTie pq.1.toList) = true := by
  decide +kernel

/-- "IS ACCEPTED BY THE DERIVED SEARCH PATTERN", on the tree: the text rendered through the derived pattern
    `p.toPep` is matched IN FULL by the regex compiled from `p.toPep`, its named groups are exactly the rendered
    part texts, it reads back with every part equal, and rendering what was read reproduces it.  This is the
    round trip of C02 (`compose_match`, `roundtrip_ast`) at the derived tree; the hypotheses are about the
    derived tree — `C15_vok_transfer` and `C15_readme_derived_wf` discharge them from the original pattern. -/
theorem C15_derived_accepts_own_rendering (p : Pat) (v : VInfo) (r : Re) (today : Nat × Nat × Nat)
    (hwf : Pat.wfTop p.toPep = true) (hv : Pat.vok v p.toPep = true) (htc : tagCoh v = true)
    (hc : CalReadsBack p.toPep v today) (hr : Pat.compile p.toPep = some r) :
    reMatch r (Pat.render v p.toPep) =
      some { start := 0, stop := (Pat.render v p.toPep).length, caps := (Pat.caps v p.toPep).reverse } ∧
    ∃ v', parseWithRe r (Pat.render v p.toPep) today = .ok v' ∧ Pat.agree v v' p.toPep = true ∧
      Pat.render v' p.toPep = Pat.render v p.toPep := by
  have hwf' : Pat.wf p.toPep FSet.endOnly = true := by
    simp only [Pat.wfTop, Bool.and_eq_true] at hwf; exact hwf.1
  exact ⟨compose_match v p.toPep r hwf' hv hr, roundtrip_ast p.toPep v r today hwf hv htc hc hr⟩

/-- THE TRANSFER of the record-level hypothesis from the ORIGINAL pattern to the derived one.  `pepReady v`
    (Model/PepTree.lean) is what the substitutions need:
      * BUILD -> BLD          : the BUILD value is a NON-ZERO number (BLD is `[1-9][0-9]*`, rendered `str(int(v))`);
      * 0M 0D 00J 0W 0U 0V    : nothing (same field, same domain);
      * TAG -> PYTAG          : `pytag` is the image of `tag` under PEP440_TAG_BY_TAG (then TAG and PYTAG are zero
                                for the same records), and the release is NOT FINAL wherever the tag is rendered;
      * the appended `[PYTAGNUM]` : `tag` is a CLI release tag, and a final release has release number 0.
    `Pat.tagGuarded p`: every TAG of the pattern sits in an optional group made of tag / number parts only
    (`[-TAG]`, `[-TAGNUM]`), so that it is not rendered for a final release.  Without it the statement is FALSE:
    `C15_mandatory_tag_witness`. -/
theorem C15_vok_transfer (p : Pat) (v : VInfo) (hv : Pat.vok v p = true) (hr : pepReady v = true)
    (hg : Pat.tagGuarded p = true) : Pat.vok v p.toPep = true :=
  vok_toPep_guarded p v hv ((pepReady_iff v).1 hr) hg

/-- … for ANY pattern tree when the release is not final -/
theorem C15_vok_transfer_nonfinal (p : Pat) (v : VInfo) (hv : Pat.vok v p = true) (hr : pepReady v = true)
    (hnf : v.tag ≠ "final".toList) : Pat.vok v p.toPep = true :=
  vok_toPep_nonfinal p v hv ((pepReady_iff v).1 hr) hnf

/-- … for ANY pattern tree when the release tail is RELOCATED (no `PYTAGNUM` after the substitutions: all PYTAG
    and NUM parts are removed, empty groups dropped once, `[PYTAGNUM]` appended) -/
theorem C15_vok_transfer_relocated (p : Pat) (v : VInfo) (hv : Pat.vok v p = true) (hr : pepReady v = true)
    (hn : p.toPepPre.hasPytagNum = false) : Pat.vok v p.toPep = true :=
  vok_toPep_relocated p v hv ((pepReady_iff v).1 hr) hn

/-- `pepReady` contains the tag coherence the round trip needs -/
theorem C15_pepReady_tagCoh (v : VInfo) (hr : pepReady v = true) : tagCoh v = true :=
  tagCoh_of_pepReady v hr

/-- THE COMPOSITION, from hypotheses on the ORIGINAL pattern and record (plus the two static checks of the
    derived tree that `C15_readme_derived_wf` evaluates): for every version state whose calendar is
    `cal_info(date)` — what a bump produces — the `{pep440_version}` text is accepted in full by the derived
    pattern and reads back with every part equal. -/
theorem C15_derived_accepts_of_original (p : Pat) (v : VInfo) (r : Re) (today : Nat × Nat × Nat) (y m d : Nat)
    (hd : validDate y m d = true) (hcal : v.cal = (calInfo y m d).toOpt)
    (hv : Pat.vok v p = true) (hready : pepReady v = true) (hg : Pat.tagGuarded p = true)
    (hwf : Pat.wfTop p.toPep = true) (ha : Pat.calAnchored p.toPep = true) (hr : Pat.compile p.toPep = some r) :
    reMatch r (Pat.render v p.toPep) =
      some { start := 0, stop := (Pat.render v p.toPep).length, caps := (Pat.caps v p.toPep).reverse } ∧
    ∃ v', parseWithRe r (Pat.render v p.toPep) today = .ok v' ∧ Pat.agree v v' p.toPep = true ∧
      Pat.render v' p.toPep = Pat.render v p.toPep := by
  have hv' := C15_vok_transfer p v hv hready hg
  exact C15_derived_accepts_own_rendering p v r today hwf hv' (tagCoh_of_pepReady v hready)
    (calReadsBack_of_date p.toPep v today y m d hd hcal hwf hv' ha) hr

set_option maxRecDepth 100000 in
/-- NON-VACUITY and scope: for every README pattern the derived tree is `wfTop`, `calAnchored`, compiles, and
    the pattern is `tagGuarded` — the static hypotheses of `C15_derived_accepts_of_original` -/
theorem C15_readme_derived_wf :
    readmeConversions.all (fun pq => match tokenize pq.1.toList with
      | some p => p.toPep.wfTop && p.toPep.calAnchored && p.toPep.compile.isSome && p.tagGuarded
      | none => false) = true := by
  decide +kernel

/-- a concrete record in the domain: 2024-03-09, BUILD 0013, beta 4 under `vYYYY0M.BUILD[-TAG]` renders through
    the derived tree as `202403.13b4` (hypotheses satisfiable) -/
example :
    let v : VInfo := { cal := (calInfo 2024 3 9).toOpt, major := 0, minor := 0, patch := 0, bid := "0013".toList,
                       tag := "beta".toList, pytag := "b".toList, num := 4, inc0 := 0, inc1 := 1 }
    (match tokenize "vYYYY0M.BUILD[-TAG]".toList with
     | some p => p.vok v && pepReady v && p.tagGuarded && p.toPep.wfTop && p.toPep.calAnchored && p.toPep.vok v &&
                 (p.toPep.render v == "202403.13b4".toList)
     | none => false) = true := by
  decide +kernel

set_option maxRecDepth 100000 in
/-- WITNESS (why `tagGuarded`): `MAJOR.MINOR.PATCH-TAGNUM` has a MANDATORY tag.  For the final release 1.2.3 the
    version text is "1.2.3-final0"; the derived pattern `MAJOR.MINOR.PATCHPYTAGNUM` is well-formed, the record is
    in the domain of the original pattern and `pepReady`, but NOT in the domain of the derived pattern: it
    renders "1.2.30" (empty PYTAG, the 0 of NUM glued to the patch number), which the derived pattern does not
    match at all (PYTAG `dev|post|rc|a|b` cannot be empty). -/
theorem C15_mandatory_tag_witness :
    let v : VInfo := { cal := (calInfo 2024 3 9).toOpt, major := 1, minor := 2, patch := 3, bid := "1001".toList,
                       tag := "final".toList, pytag := [], num := 0, inc0 := 0, inc1 := 1 }
    (match tokenize "MAJOR.MINOR.PATCH-TAGNUM".toList with
     | some p => p.vok v && pepReady v && !p.tagGuarded && p.toPep.wfTop && !p.toPep.vok v &&
                 (p.toPep.render v == "1.2.30".toList) &&
                 (match p.toPep.compile with
                  | some r => (reMatch r (p.toPep.render v)).isNone
                  | none => false)
     | none => false) = true := by
  decide +kernel

set_option maxRecDepth 100000 in
/-- WITNESSES (why `pepReady`): (1) a final release with a release number — `vYYYY.BUILD[-TAG][+NUM]`, "v2024.1001+5":
    the relocated `[PYTAGNUM]` renders the 5 without a tag, glued to the BUILD number: "2024.10015" (which the
    derived pattern even accepts — as BUILD 10015); (2) BUILD "0000" becomes BLD "0", which `[1-9][0-9]*` rejects. -/
theorem C15_pepReady_witnesses :
    let v1 : VInfo := { cal := (calInfo 2024 3 9).toOpt, major := 0, minor := 0, patch := 0, bid := "1001".toList,
                        tag := "final".toList, pytag := [], num := 5, inc0 := 0, inc1 := 1 }
    let v2 : VInfo := { v1 with bid := "0000".toList, num := 0 }
    (match tokenize "vYYYY.BUILD[-TAG][+NUM]".toList with
     | some p => p.vok v1 && !pepReady v1 && !p.toPep.vok v1 && (p.toPep.render v1 == "2024.10015".toList) &&
                 p.vok v2 && !pepReady v2 && !p.toPep.vok v2 && (p.toPep.render v2 == "2024.0".toList) &&
                 (match p.toPep.compile with
                  | some r => (reMatch r (p.toPep.render v2)).isNone
                  | none => false)
     | none => false) = true := by
  decide +kernel

/-! ### the normal form of the rendering -/

/-- EVERY derived pattern carries the release tail in the form `PYTAGNUM` (short tag directly followed by its
    number) — for all trees, not only the README's -/
theorem C15_derived_has_pytagnum (p : Pat) : p.toPep.hasPytagNum = true :=
  hasPytagNum_toPep p

/-- THE NORMAL FORM, structurally.  `Pat.pepNormal q`: no literal `v` at the start; every part AFTER THE FIRST
    DOT-SEPARATED COMPONENT (`q.afterHead`: from the first top-level `.` or optional group on) is unpadded
    (`str(v)` of a number or `str(int(v))`; not the verbatim BUILD string, not the long tag); no TAG part; every
    PYTAG part is directly followed by NUM.  (The first component is exempt as in the property's text: the
    README's `YYYY0M.BLD[PYTAGNUM]` keeps the padded month inside the first component `202403`.)
    For such a tree and every record in the domain:
      (1) text and captures split into the first component (no `.`, no group) and the rest;
      (2) every part text of the rest is the short tag or `str(n)` for the number `n` of its field (for BLD: the
          number the BUILD string denotes) — hence digits without a leading zero unless it is "0";
      (3) no long tag anywhere, every rendered tag is one of a, b, rc, post, dev;
      (4) every rendered tag is directly followed by the release number `str(num)`. -/
theorem C15_normal_form_parts (q : Pat) (v : VInfo) (hn : Pat.pepNormal q = true) (hv : Pat.vok v q = true) :
    (Pat.render v q = Pat.render v q.headComp ++ Pat.render v q.afterHead ∧
     Pat.caps v q = Pat.caps v q.headComp ++ Pat.caps v q.afterHead ∧ Pat.flatNoDot q.headComp = true) ∧
    (∀ ft, ft ∈ Pat.caps v q.afterHead →
      (ft.1 = "pytag".toList ∧ ft.2 ∈ pepShortTags) ∨
      (∃ n, ft.2 = natToStr n ∧ (v.get ft.1 = .nat n ∨ (ft.1 = "bid".toList ∧ n = strToNat v.bid)) ∧
        allDigits ft.2 = true ∧ (ft.2 = "0".toList ∨ ∀ c t, ft.2 = c :: t → c ≠ '0'))) ∧
    (∀ ft, ft ∈ Pat.caps v q → ft.1 ≠ "tag".toList ∧ (ft.1 = "pytag".toList → ft.2 ∈ pepShortTags)) ∧
    (∀ l1 t l2, Pat.caps v q = l1 ++ ("pytag".toList, t) :: l2 →
      ∃ l3, l2 = ("num".toList, natToStr v.num) :: l3) := by
  simp only [Pat.pepNormal, Bool.and_eq_true] at hn
  obtain ⟨⟨⟨_, hN⟩, hT⟩, hP⟩ := hn
  refine ⟨⟨render_head_after v q, caps_head_after v q, headComp_flatNoDot q⟩, ?_, caps_tags v q hT hv, ?_⟩
  · intro ft hm
    rcases caps_all_normal v q.afterHead hN (vok_afterHead v q hv) ft hm with h | ⟨n, h1, h2⟩
    · exact Or.inl h
    · refine Or.inr ⟨n, h1, h2, ?_, ?_⟩
      · rw [h1]; exact allDigits_natToStr n
      · rw [h1]; exact natToStr_no_leading_zero n
  · intro l1 t l2 e
    exact capsNumbered_split v _ l1 t l2 (caps_numbered v q hP) e

set_option maxRecDepth 100000 in
/-- the derived tree of every README pattern is in normal form -/
theorem C15_readme_derived_normal :
    readmeConversions.all (fun pq => match tokenize pq.1.toList with
      | some p => p.toPep.pepNormal
      | none => false) = true := by
  decide +kernel

/-! ## The written text IS a PEP 440 version with the right content

  `pepOfRecord q v` (Model/PepOfRecord.lean) is the version the record denotes under the derived tree `q`: release =
  the numbers of the dot-separated components (the first one may be several adjacent parts, `YYYY0M` -> 202403), pre /
  post / dev from `pytag` / `num` when the tag is rendered (`a` `b` `rc` -> pre, `post` -> post, `dev` -> dev), none
  of them when `[PYTAGNUM]` is omitted (final release), epoch 0, no local part.  `parsePep` is C16's model of the
  vendored PEP 440 parser (`Version.__init__`). -/

/-- "THE TEXT WRITTEN FOR `{pep440_version}` IS A VALID PEP 440 VERSION" with the record's content: for a derived tree
    in normal form (`Pat.pepNormal`, see `C15_normal_form_parts`) of the parseable shape (`Pat.pepParseable`: a first
    component made of numeric parts; then `.PART` components and optional groups; the tag sequence last) and a record
    in its domain, the vendored parser ACCEPTS the rendered text and reads exactly `pepOfRecord q v`, a well-formed
    version.  Bumpver writes `1.2.3post0` / `1.2.3dev0` without the `.` of the canonical form: the parser accepts
    the undotted spelling (`postSeg`, `devSeg`).
    Neither `Pat.wfTop q` nor `pepReady v` is needed here: `Pat.vok v q` already says that a rendered PYTAG is a
    short tag.  (`C15_vok_transfer` derives `Pat.vok v p.toPep` from the original pattern, with `pepReady v`.) -/
theorem C15_derived_parses (q : Pat) (v : VInfo) (hn : Pat.pepNormal q = true) (hs : Pat.pepParseable q = true)
    (hv : Pat.vok v q = true) :
    ∃ ver, pepOfRecord q v = some ver ∧ parsePep (Pat.render v q) = some ver ∧ wfPep ver = true :=
  pp_derived_parses q v hn hs hv

set_option maxRecDepth 100000 in
/-- the derived tree of every README pattern has the parseable shape -/
theorem C15_readme_derived_parseable :
    readmeConversions.all (fun pq => match tokenize pq.1.toList with
      | some p => p.toPep.pepParseable
      | none => false) = true := by
  decide +kernel

/-- … SPELLED OUT in terms of the record ("same release numbers, same pre/post/dev segment and number"): the parsed
    version has epoch 0 and no local part; its release is the number of the first component followed by the FIELD
    VALUES (`partNum`: `major`, `minor`, `patch`, `month`, … ; BLD: the number of the build id) of the rendered
    release parts; its pre / post / dev segment is the one of `pytag` with the number `num` when the tag is rendered
    (`pepSegOf`: a, b, rc -> pre; post -> post; dev -> dev), and absent otherwise -/
theorem C15_derived_content (q : Pat) (v : VInfo) (hn : Pat.pepNormal q = true) (hs : Pat.pepParseable q = true)
    (hv : Pat.vok v q = true) :
    ∃ ver, parsePep (Pat.render v q) = some ver ∧ ver.epoch = 0 ∧ ver.loc = none ∧
      ver.release = strToNat (Pat.render v q.headComp) :: (Pat.relNames v q.afterHead).map (partNum v) ∧
      (if q.afterHead.tagShown v = true then pepSegOf v.pytag v.num = some (ver.pre, ver.post, ver.dev)
       else ver.pre = none ∧ ver.post = none ∧ ver.dev = none) :=
  pp_derived_content q v hn hs hv

/-- … from hypotheses on the ORIGINAL pattern and record (`C15_vok_transfer`), plus the static checks of the derived
    tree that `C15_readme_derived_normal` / `C15_readme_derived_parseable` evaluate -/
theorem C15_derived_parses_of_original (p : Pat) (v : VInfo) (hv : Pat.vok v p = true) (hready : pepReady v = true)
    (hg : Pat.tagGuarded p = true) (hn : Pat.pepNormal p.toPep = true) (hs : Pat.pepParseable p.toPep = true) :
    ∃ ver, pepOfRecord p.toPep v = some ver ∧ parsePep (Pat.render v p.toPep) = some ver ∧ wfPep ver = true :=
  pp_derived_parses p.toPep v hn hs (C15_vok_transfer p v hv hready hg)

/-! ## … and equals the version string as a PEP 440 version

  `pepOfVersion p v`: the version the record denotes under the VERSION pattern `p` — a leading literal `v` does not
  count, zero padding inside a component does not count (`2024.03`), the tag in its long or short form with or
  without `-`, a release number that is not rendered is 0.  `Pat.pepShaped p` (Model/PepOfRecord.lean) is the static
  relation between `p` and its derived tree: both have the parseable shape, every TAG sits in a group of tag /
  number parts, the first component has the same parts up to a substitution of the FIRST one, and the release
  skeleton (parts and optional groups, without literals and without the top-level tag groups) is the same up to
  substituted part names.  `pepCoherent p v`: what the version string does not show has its default value (no tag
  part: final; no NUM part: release number 0) — every record read from a version string satisfies it. -/

/-- the ORIGINAL version string parses (vendored PEP 440 parser) to `pepOfVersion p v`: the `v` prefix, zero padding
    (`2024.03`), the `-` separator, the long tag names `alpha` / `beta` and a missing release number (implicit 0)
    are all normalised by the parser -/
theorem C15_version_parses (p : Pat) (v : VInfo) (hs : Pat.pepParseable p.dropV = true) (hg : Pat.tagGuarded p = true)
    (hv : Pat.vok v p = true) (hr : pepReady v = true) :
    ∃ ver, pepOfVersion p v = some ver ∧ parsePep (Pat.render v p) = some ver ∧ wfPep ver = true :=
  pp_version_parses p v hs hg hv hr

/-- "… IS A VALID PEP 440 VERSION EQUAL TO IT": the version string and the text written for `{pep440_version}` parse to
    THE SAME version (all fields equal, not only the sort key), which is the one the record denotes -/
theorem C15_version_parses_equal (p : Pat) (v : VInfo) (hs : Pat.pepShaped p = true) (hv : Pat.vok v p = true)
    (hr : pepReady v = true) (hc : pepCoherent p v = true) :
    ∃ ver, pepOfRecord p.toPep v = some ver ∧ parsePep (Pat.render v p.toPep) = some ver ∧
      parsePep (Pat.render v p) = some ver ∧ wfPep ver = true :=
  pp_version_parses_equal p v hs hv hr hc

/-- … in the form "equal as PEP 440 versions": equal comparison keys -/
theorem C15_version_key_equal (p : Pat) (v : VInfo) (hs : Pat.pepShaped p = true) (hv : Pat.vok v p = true)
    (hr : pepReady v = true) (hc : pepCoherent p v = true) :
    ∃ ver ver', parsePep (Pat.render v p.toPep) = some ver ∧ parsePep (Pat.render v p) = some ver' ∧
      pepKey ver' = pepKey ver := by
  obtain ⟨ver, _, h2, h3, _⟩ := pp_version_parses_equal p v hs hv hr hc
  exact ⟨ver, ver, h2, h3, rfl⟩

/-- "… AND EQUALS THE `PEP440` VALUE PRINTED BY `test` / `show` UP TO PEP 440 NORMALISATION": the printed value is
    `str(parse_version(version_string))` = `verStr (parseVersion …)`; it is the canonical text of the version that
    the written `{pep440_version}` text parses to, and parses to that version itself -/
theorem C15_equals_printed_pep440 (p : Pat) (v : VInfo) (hs : Pat.pepShaped p = true) (hv : Pat.vok v p = true)
    (hr : pepReady v = true) (hc : pepCoherent p v = true) :
    ∃ ver, parsePep (Pat.render v p.toPep) = some ver ∧
      verStr (parseVersion (Pat.render v p)) = pepStr ver ∧ parsePep (pepStr ver) = some ver := by
  obtain ⟨ver, _, h2, h3, h4⟩ := pp_version_parses_equal p v hs hv hr hc
  exact ⟨ver, h2, by simp only [parseVersion, h3, verStr], parsePep_pepStr ver h4⟩

set_option maxRecDepth 100000 in
/-- every README pattern is `pepShaped` -/
theorem C15_readme_shaped :
    readmeConversions.all (fun pq => match tokenize pq.1.toList with
      | some p => p.pepShaped
      | none => false) = true := by
  decide +kernel

set_option maxRecDepth 100000 in
/-- WITNESSES (why `pepCoherent`): the record carries a release number / a tag that the version string does not show.
    (1) `YYYY.BUILD[-TAG]`, beta with release number 4: the version string is "2024.1001-beta" (= 2024.1001b0), the
    `{pep440_version}` text is "2024.1001b4";  (2) `YYYY.0M`, tag beta: "2024.03" against "2024.3b0".  Everything
    else holds (shape, domain, `pepReady`); the parsed versions have different keys. -/
theorem C15_coherent_witnesses :
    let v1 : VInfo := { cal := (calInfo 2024 3 9).toOpt, major := 0, minor := 0, patch := 0, bid := "1001".toList,
                        tag := "beta".toList, pytag := "b".toList, num := 4, inc0 := 0, inc1 := 1 }
    let v2 : VInfo := { v1 with num := 0 }
    (match tokenize "YYYY.BUILD[-TAG]".toList, tokenize "YYYY.0M".toList with
     | some p1, some p2 =>
       p1.pepShaped && p1.vok v1 && pepReady v1 && !pepCoherent p1 v1 &&
       (p1.render v1 == "2024.1001-beta".toList) && (p1.toPep.render v1 == "2024.1001b4".toList) &&
       ((parsePep (p1.render v1)).map pepKey != (parsePep (p1.toPep.render v1)).map pepKey) &&
       p2.pepShaped && p2.vok v2 && pepReady v2 && !pepCoherent p2 v2 &&
       (p2.render v2 == "2024.03".toList) && (p2.toPep.render v2 == "2024.3b0".toList) &&
       ((parsePep (p2.render v2)).map pepKey != (parsePep (p2.toPep.render v2)).map pepKey)
     | _, _ => false) = true := by
  decide +kernel

set_option maxRecDepth 100000 in
/-- WITNESS (why the release skeleton must be the same): `MAJOR.MINOR[.PATCH[-TAG]]` is not `pepShaped`.  The derived
    tree is `MAJOR.MINOR[.PATCH][PYTAGNUM]` (the tag group leaves the PATCH group), so for 1.2.0-beta the version
    string is "1.2.0-beta" (release 1.2.0) and the written text "1.2b0" (release 1.2): two DIFFERENT versions with
    EQUAL comparison keys (trailing zeros are stripped by `_cmpkey`). -/
theorem C15_skeleton_witness :
    let v : VInfo := { cal := (calInfo 2024 3 9).toOpt, major := 1, minor := 2, patch := 0, bid := "1001".toList,
                       tag := "beta".toList, pytag := "b".toList, num := 0, inc0 := 0, inc1 := 1 }
    (match tokenize "MAJOR.MINOR[.PATCH[-TAG]]".toList with
     | some p =>
       !p.pepShaped && p.vok v && pepReady v && pepCoherent p v && p.toPep.vok v &&
       (p.render v == "1.2.0-beta".toList) && (p.toPep.render v == "1.2b0".toList) &&
       (parsePep (p.render v) != parsePep (p.toPep.render v)) &&
       ((parsePep (p.render v)).map pepKey == (parsePep (p.toPep.render v)).map pepKey)
     | none => false) = true := by
  decide +kernel

set_option maxRecDepth 100000 in
/-- NON-VACUITY: 2024-03-09, BUILD 0013, beta (release number 0) under `vYYYY0M.BUILD[-TAG]` satisfies every hypothesis
    of `C15_version_parses_equal`; the version string "v202403.0013-beta" and the written text "202403.13b0" both
    parse to release 202403.13, pre-release b0 — the value of `pepOfRecord` -/
example :
    let v : VInfo := { cal := (calInfo 2024 3 9).toOpt, major := 0, minor := 0, patch := 0, bid := "0013".toList,
                       tag := "beta".toList, pytag := "b".toList, num := 0, inc0 := 0, inc1 := 1 }
    let ver : PepVersion := { epoch := 0, release := [202403, 13], pre := some ("b".toList, 0), post := none,
                              dev := none, loc := none }
    (match tokenize "vYYYY0M.BUILD[-TAG]".toList with
     | some p => p.pepShaped && p.vok v && pepReady v && pepCoherent p v &&
                 (p.render v == "v202403.0013-beta".toList) && (p.toPep.render v == "202403.13b0".toList) &&
                 (pepOfRecord p.toPep v == some ver) && (pepOfVersion p v == some ver) &&
                 (parsePep (p.render v) == some ver) && (parsePep (p.toPep.render v) == some ver)
     | none => false) = true := by
  decide +kernel

set_option maxRecDepth 100000 in
/-- WITNESS ("up to PEP 440 normalisation" is needed): for post and dev releases the written text is NOT the canonical
    text that `test` / `show` print — bumpver writes "1.2.3post0", the printed `PEP440` value is "1.2.3.post0"; both
    parse to the same version.  (For a / b / rc and final releases of this pattern the two texts coincide.) -/
theorem C15_post_spelling_witness :
    let v : VInfo := { cal := (calInfo 2024 3 9).toOpt, major := 1, minor := 2, patch := 3, bid := "1001".toList,
                       tag := "post".toList, pytag := "post".toList, num := 0, inc0 := 0, inc1 := 1 }
    (match tokenize "MAJOR.MINOR.PATCH[PYTAGNUM]".toList with
     | some p => p.pepShaped && p.vok v && pepReady v && pepCoherent p v &&
                 (p.toPep.render v == "1.2.3post0".toList) &&
                 (verStr (parseVersion (p.render v)) == "1.2.3.post0".toList) &&
                 (parsePep (p.toPep.render v) == parsePep "1.2.3.post0".toList)
     | none => false) = true := by
  decide +kernel

end BV
