/-
  Props/C12.lean — property C12: messages, tag names and paths reach the VCS verbatim.

  "The commit message and tag message bumpver passes to git/hg are exactly the configured or
   CLI-given templates with the documented placeholders substituted, each as a single
   argument; the tag name is exactly the new version and each staged path exactly the
   configured path. No character in those values can add, remove or alter VCS command-line
   arguments."

  Model: Model/Vcs.lean (`argv` = split the template once, format each token) over the
  GENERATED table Gen/VcsTemplates.lean (= vcs.VCS_SUBCOMMANDS_BY_NAME of the working tree).
  Every theorem below quantifies over ALL strings (any Unicode, quotes, backslashes,
  newlines, leading dashes …).  Helper lemmas: Proofs/VcsLemmas.lean.
-/
import BumpverVerif.Model.Vcs
import BumpverVerif.Gen.VcsTemplates
import BumpverVerif.Proofs.VcsLemmas
namespace BV

/-- the command template of the working tree for (vcs, command) -/
def tmplOf (vcs cmd : String) : Str :=
  ((lookup vcs.toList Gen.vcsTemplates).bind (lookup cmd.toList)).getD []

private def S (s : String) : Str := s.toList

/-! ### every value-carrying command: the value is exactly one argv element, verbatim -/

theorem C12_git_commit_argv (m : Str) :
    argv (tmplOf "git" "commit") [(S "message", m)] = .ok [S "git", S "commit", S "--message", m] := by
  have h : shlexSplit (tmplOf "git" "commit") = some [S "git", S "commit", S "--message", S "{message}"] := by decide +kernel
  simp only [argv, h, mapFormat, S]
  simp [pyFormat, fmtGo, lookup, simpleName, isAlnum, isAlpha, isLower, isUpper, isDigit, Except.map]

theorem C12_git_tag_argv (t m : Str) :
    argv (tmplOf "git" "tag") [(S "tag", t), (S "message", m)]
      = .ok [S "git", S "tag", S "--annotate", t, S "--message", m] := by
  have h : shlexSplit (tmplOf "git" "tag") = some [S "git", S "tag", S "--annotate", S "{tag}", S "--message", S "{message}"] := by decide +kernel
  simp only [argv, h, mapFormat, S]
  simp [pyFormat, fmtGo, lookup, simpleName, isAlnum, isAlpha, isLower, isUpper, isDigit, Except.map]

theorem C12_git_tag_light_argv (t : Str) :
    argv (tmplOf "git" "tag_light") [(S "tag", t)] = .ok [S "git", S "tag", t] := by
  have h : shlexSplit (tmplOf "git" "tag_light") = some [S "git", S "tag", S "{tag}"] := by decide +kernel
  simp only [argv, h, mapFormat, S]
  simp [pyFormat, fmtGo, lookup, simpleName, isAlnum, isAlpha, isLower, isUpper, isDigit, Except.map]

theorem C12_git_add_argv (p : Str) :
    argv (tmplOf "git" "add_path") [(S "path", p)] = .ok [S "git", S "add", S "--update", p] := by
  have h : shlexSplit (tmplOf "git" "add_path") = some [S "git", S "add", S "--update", S "{path}"] := by decide +kernel
  simp only [argv, h, mapFormat, S]
  simp [pyFormat, fmtGo, lookup, simpleName, isAlnum, isAlpha, isLower, isUpper, isDigit, Except.map]

theorem C12_git_push_tag_argv (r t : Str) :
    argv (tmplOf "git" "push_tag") [(S "tag", t), (S "remote", r)]
      = .ok [S "git", S "push", r, S "--follow-tags", t, S "HEAD"] := by
  have h : shlexSplit (tmplOf "git" "push_tag") = some [S "git", S "push", S "{remote}", S "--follow-tags", S "{tag}", S "HEAD"] := by decide +kernel
  simp only [argv, h, mapFormat, S]
  simp [pyFormat, fmtGo, lookup, simpleName, isAlnum, isAlpha, isLower, isUpper, isDigit, Except.map]

theorem C12_git_push_argv (r : Str) :
    argv (tmplOf "git" "push") [(S "remote", r)] = .ok [S "git", S "push", r, S "HEAD"] := by
  have h : shlexSplit (tmplOf "git" "push") = some [S "git", S "push", S "{remote}", S "HEAD"] := by decide +kernel
  simp only [argv, h, mapFormat, S]
  simp [pyFormat, fmtGo, lookup, simpleName, isAlnum, isAlpha, isLower, isUpper, isDigit, Except.map]

theorem C12_hg_commit_argv (p : Str) :
    argv (tmplOf "hg" "commit") [(S "path", p)] = .ok [S "hg", S "commit", S "--logfile", p] := by
  have h : shlexSplit (tmplOf "hg" "commit") = some [S "hg", S "commit", S "--logfile", S "{path}"] := by decide +kernel
  simp only [argv, h, mapFormat, S]
  simp [pyFormat, fmtGo, lookup, simpleName, isAlnum, isAlpha, isLower, isUpper, isDigit, Except.map]

theorem C12_hg_tag_argv (t m : Str) :
    argv (tmplOf "hg" "tag") [(S "tag", t), (S "message", m)]
      = .ok [S "hg", S "tag", t, S "--message", m] := by
  have h : shlexSplit (tmplOf "hg" "tag") = some [S "hg", S "tag", S "{tag}", S "--message", S "{message}"] := by decide +kernel
  simp only [argv, h, mapFormat, S]
  simp [pyFormat, fmtGo, lookup, simpleName, isAlnum, isAlpha, isLower, isUpper, isDigit, Except.map]

theorem C12_hg_tag_light_argv (t : Str) :
    argv (tmplOf "hg" "tag_light") [(S "tag", t)] = .ok [S "hg", S "tag", t] := by
  have h : shlexSplit (tmplOf "hg" "tag_light") = some [S "hg", S "tag", S "{tag}"] := by decide +kernel
  simp only [argv, h, mapFormat, S]
  simp [pyFormat, fmtGo, lookup, simpleName, isAlnum, isAlpha, isLower, isUpper, isDigit, Except.map]

theorem C12_hg_add_argv (p : Str) :
    argv (tmplOf "hg" "add_path") [(S "path", p)] = .ok [S "hg", S "add", p] := by
  have h : shlexSplit (tmplOf "hg" "add_path") = some [S "hg", S "add", S "{path}"] := by decide +kernel
  simp only [argv, h, mapFormat, S]
  simp [pyFormat, fmtGo, lookup, simpleName, isAlnum, isAlpha, isLower, isUpper, isDigit, Except.map]

theorem C12_hg_push_tag_argv (t : Str) :
    argv (tmplOf "hg" "push_tag") [(S "tag", t), (S "remote", [])] = .ok [S "hg", S "push", t] := by
  have h : shlexSplit (tmplOf "hg" "push_tag") = some [S "hg", S "push", S "{tag}"] := by decide +kernel
  simp only [argv, h, mapFormat, S]
  simp [pyFormat, fmtGo, lookup, simpleName, isAlnum, isAlpha, isLower, isUpper, isDigit, Except.map]

/-! ### the general statement over the whole generated table -/

/-- a token of a split template is either a single slot `{name}` or contains no placeholder -/
def slotName (tok : Str) : Option Str :=
  match tok with
  | '{' :: rest =>
    if rest.getLast? == some '}' && simpleName rest.dropLast then some rest.dropLast else none
  | _ => none

def tokOk (tok : Str) : Bool :=
  (slotName tok).isSome || (pyFormat [] tok).toOption.isSome   -- static: formats without any key

/-- every template of the working tree splits into tokens each of which is a lone slot or static -/
theorem C12_table_shape :
    Gen.vcsTemplates.all (fun vc => vc.2.all (fun ct =>
      match shlexSplit ct.2 with
      | some toks => toks.all tokOk
      | none => false)) = true := by
  decide +kernel

/-- the value substituted for a token -/
def tokValue (kw : List (Str × Str)) (tok : Str) : Str :=
  match slotName tok with
  | some k => (lookup k kw).getD []
  | none => (pyFormat [] tok).toOption.getD []

/-! glue: what `slotName` / `tokOk` say about a token (generic lemmas: Proofs/VcsLemmas.lean) -/

private theorem slotName_spec {tok k : Str} (h : slotName tok = some k) :
    tok = '{' :: k ++ ['}'] ∧ simpleName k = true := by
  unfold slotName at h
  split at h
  · rename_i rest
    split at h
    · rename_i hc
      simp only [Bool.and_eq_true, beq_iff_eq] at hc
      cases h
      exact ⟨by rw [List.cons_append, dropLast_append_of_getLast? hc.1], hc.2⟩
    · cases h
  · cases h

private theorem pyFormat_tok (kw : List (Str × Str)) (tok : Str) (hok : tokOk tok = true)
    (hkeys : ∀ k, slotName tok = some k → (lookup k kw).isSome = true) :
    pyFormat kw tok = .ok (tokValue kw tok) := by
  unfold tokValue
  cases hsl : slotName tok with
  | some k =>
    obtain ⟨rfl, hs⟩ := slotName_spec hsl
    obtain ⟨v, hv⟩ := Option.isSome_iff_exists.1 (hkeys k hsl)
    simp only [hv, Option.getD_some]
    exact pyFormat_slot kw hs hv
  | none =>
    simp only [tokOk, hsl, Option.isSome_none, Bool.false_or] at hok
    cases hf : pyFormat [] tok with
    | error e => simp [hf, Except.toOption] at hok
    | ok r => simpa [Except.toOption] using pyFormat_static kw hf

private theorem mapFormat_toks (kw : List (Str × Str)) (toks : List Str)
    (hok : toks.all tokOk = true)
    (hkeys : ∀ t ∈ toks, ∀ k, slotName t = some k → (lookup k kw).isSome = true) :
    mapFormat kw toks = .ok (toks.map (tokValue kw)) := by
  induction toks with
  | nil => rfl
  | cons t ts ih =>
    simp only [List.all_cons, Bool.and_eq_true] at hok
    simp only [mapFormat, pyFormat_tok kw t hok.1 (hkeys t (by simp)),
      ih hok.2 (fun t' ht' => hkeys t' (by simp [ht'])), Except.map, List.map_cons]

/-- for ANY template with that shape and ANY values: argv is the token list with each slot
    replaced by its value — one value, one argument, nothing added, removed or altered -/
theorem C12_single_argument (tmpl : Str) (toks : List Str) (kw : List (Str × Str))
    (hs : shlexSplit tmpl = some toks) (hok : toks.all tokOk = true)
    (hkeys : ∀ t ∈ toks, ∀ k, slotName t = some k → (lookup k kw).isSome = true) :
    argv tmpl kw = .ok (toks.map (tokValue kw)) := by
  simp only [argv, hs]
  exact mapFormat_toks kw toks hok hkeys

/-! ### message rendering: templates with the documented placeholders -/

inductive Piece
  | txt (s : Str)      -- literal text (may contain anything; braces are written doubled)
  | ph (k : Str)       -- `{k}`

def escBraces : Str → Str
  | [] => []
  | c :: r => if c == '{' then '{' :: '{' :: escBraces r
              else if c == '}' then '}' :: '}' :: escBraces r else c :: escBraces r

def Piece.render : Piece → Str
  | .txt s => escBraces s
  | .ph k => '{' :: k ++ ['}']

def Piece.value (kw : List (Str × Str)) : Piece → Str
  | .txt s => s
  | .ph k => (lookup k kw).getD []

private theorem Except_map_map {ε α β γ} (f : α → β) (g : β → γ) (x : Except ε α) :
    (x.map f).map g = x.map (fun a => g (f a)) := by
  cases x <;> rfl

private theorem fmtGo_escBraces (kw : List (Str × Str)) (s rest : Str) :
    fmtGo kw .text (escBraces s ++ rest) = (fmtGo kw .text rest).map (s ++ ·) := by
  induction s with
  | nil =>
    show fmtGo kw .text rest = _
    cases fmtGo kw .text rest <;> rfl
  | cons c s ih =>
    unfold escBraces
    split
    · rename_i hc; simp only [beq_iff_eq] at hc; subst hc
      rw [List.cons_append, List.cons_append, fmtGo_text_lbrace2, ih, Except_map_map]; rfl
    · split
      · rename_i hc; simp only [beq_iff_eq] at hc; subst hc
        rw [List.cons_append, List.cons_append, fmtGo_text_rbrace2, ih, Except_map_map]; rfl
      · rename_i h1 h2
        simp only [beq_iff_eq] at h1 h2
        rw [List.cons_append, fmtGo_text_plain kw _ h1 h2, ih, Except_map_map]; rfl

/-- `template.format(**kwargs)` is the template with each placeholder replaced by its value,
    in one pass (values are never re-interpreted, whatever braces they contain) -/
theorem C12_message_render (ps : List Piece) (kw : List (Str × Str))
    (hk : ∀ p ∈ ps, ∀ k, p = .ph k → simpleName k = true ∧ (lookup k kw).isSome = true) :
    pyFormat kw (ps.flatMap Piece.render) = .ok (ps.flatMap (Piece.value kw)) := by
  unfold pyFormat
  induction ps with
  | nil => rfl
  | cons p ps ih =>
    have ih' := ih (fun p' hp' => hk p' (by simp [hp']))
    rw [List.flatMap_cons, List.flatMap_cons]
    cases p with
    | txt s => rw [Piece.render, fmtGo_escBraces, ih']; rfl
    | ph k =>
      obtain ⟨hs, hl⟩ := hk (.ph k) (by simp) k rfl
      obtain ⟨v, hv⟩ := Option.isSome_iff_exists.1 hl
      simp only [Piece.render, List.append_assoc, List.singleton_append]
      rw [fmtGo_slot kw _ hs hv, ih']
      simp [Piece.value, hv, Except.map]

/-- the rendered message then travels as one argument (composition with `C12_git_commit_argv`) -/
theorem C12_commit_message_end_to_end (ps : List Piece) (kw : List (Str × Str))
    (hk : ∀ p ∈ ps, ∀ k, p = .ph k → simpleName k = true ∧ (lookup k kw).isSome = true) :
    (pyFormat kw (ps.flatMap Piece.render)).toOption.map
        (fun m => argv (tmplOf "git" "commit") [(S "message", m)])
      = some (.ok [S "git", S "commit", S "--message", ps.flatMap (Piece.value kw)]) := by
  rw [C12_message_render ps kw hk]
  simp only [Except.toOption, Option.map_some, C12_git_commit_argv]

/-! ### the defect that was repaired (DESIGN.md D10): format-then-split let values alter argv -/

theorem C12_legacy_injection_witness :
    argvLegacy (tmplOf "git" "commit") [(S "message", S "a' --amend --author='x")]
      = .ok [S "git", S "commit", S "--message", S "a", S "--amend", S "--author=x"] := by
  decide +kernel

theorem C12_legacy_quote_crash_witness :
    argvLegacy (tmplOf "git" "commit") [(S "message", S "it's")] = .error .shlex := by
  decide +kernel

/-! ### OLD/NEW shorthand (tests of `subMsgTemplate`, labelled as tests) -/
example : subMsgTemplate (S "bump OLD -> NEW") = S "bump {OLD_VERSION} -> {NEW_VERSION}" := by decide +kernel
example : subMsgTemplate (S "HOLD NEWS OLD_ xOLD") = S "HOLD NEWS OLD_ xOLD" := by decide +kernel

/-! non-vacuity of `C12_single_argument`'s hypotheses on the real table -/
example : ∃ toks, shlexSplit (tmplOf "git" "tag") = some toks ∧ toks.all tokOk = true := by
  refine ⟨[S "git", S "tag", S "--annotate", S "{tag}", S "--message", S "{message}"], ?_, ?_⟩ <;> decide +kernel

end BV
