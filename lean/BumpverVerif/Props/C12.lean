/-
  Props/C12.lean — property C12: messages, tag names and paths reach the VCS verbatim.

  "The commit message and tag message bumpver passes to git/hg are exactly the configured or
   CLI-given templates with the documented placeholders substituted, each as a single
   argument; the tag name is exactly the new version and each staged path exactly the
   configured path. No character in those values can add, remove or alter VCS command-line
   arguments."

  Model: Model/Vcs.lean (`argv` = split the template once, format each token) over the
  GENERATED table Gen/VcsTemplates.lean (= vcs.VCS_SUBCOMMANDS_BY_NAME of the working tree).
  Every theorem below quantifies over ALL strings (any Unicode, quotes, backslashes,
  newlines, leading dashes …).  Helper lemmas: Proofs/VcsLemmas.lean.
-/
import BumpverVerif.Model.Vcs
import BumpverVerif.Gen.VcsTemplates
import BumpverVerif.Proofs.VcsLemmas
namespace BV

/-- the command template of the working tree for (vcs, command) -/
def tmplOf (vcs cmd : String) : Str :=
  ((lookup vcs.toList Gen.vcsTemplates).bind (lookup cmd.toList)).getD []

private def S (s : String) : Str := s.toList

/-! ### every value-carrying command: the value is exactly one argv element, verbatim -/

theorem C12_git_commit_argv (m : Str) :
    argv (tmplOf "git" "commit") [(S "message", m)] = .ok [S "git", S "commit", S "--message", m] := by
  sorry

theorem C12_git_tag_argv (t m : Str) :
    argv (tmplOf "git" "tag") [(S "tag", t), (S "message", m)]
      = .ok [S "git", S "tag", S "--annotate", t, S "--message", m] := by
  sorry

theorem C12_git_tag_light_argv (t : Str) :
    argv (tmplOf "git" "tag_light") [(S "tag", t)] = .ok [S "git", S "tag", t] := by
  sorry

theorem C12_git_add_argv (p : Str) :
    argv (tmplOf "git" "add_path") [(S "path", p)] = .ok [S "git", S "add", S "--update", p] := by
  sorry

theorem C12_git_push_tag_argv (r t : Str) :
    argv (tmplOf "git" "push_tag") [(S "tag", t), (S "remote", r)]
      = .ok [S "git", S "push", r, S "--follow-tags", t, S "HEAD"] := by
  sorry

theorem C12_git_push_argv (r : Str) :
    argv (tmplOf "git" "push") [(S "remote", r)] = .ok [S "git", S "push", r, S "HEAD"] := by
  sorry

theorem C12_hg_commit_argv (p : Str) :
    argv (tmplOf "hg" "commit") [(S "path", p)] = .ok [S "hg", S "commit", S "--logfile", p] := by
  sorry

theorem C12_hg_tag_argv (t m : Str) :
    argv (tmplOf "hg" "tag") [(S "tag", t), (S "message", m)]
      = .ok [S "hg", S "tag", t, S "--message", m] := by
  sorry

theorem C12_hg_tag_light_argv (t : Str) :
    argv (tmplOf "hg" "tag_light") [(S "tag", t)] = .ok [S "hg", S "tag", t] := by
  sorry

theorem C12_hg_add_argv (p : Str) :
    argv (tmplOf "hg" "add_path") [(S "path", p)] = .ok [S "hg", S "add", p] := by
  sorry

theorem C12_hg_push_tag_argv (t : Str) :
    argv (tmplOf "hg" "push_tag") [(S "tag", t), (S "remote", [])] = .ok [S "hg", S "push", t] := by
  sorry

/-! ### the general statement over the whole generated table -/

/-- a token of a split template is either a single slot `{name}` or contains no placeholder -/
def slotName (tok : Str) : Option Str :=
  match tok with
  | '{' :: rest =>
    if rest.getLast? == some '}' && simpleName rest.dropLast then some rest.dropLast else none
  | _ => none

def tokOk (tok : Str) : Bool :=
  (slotName tok).isSome || (pyFormat [] tok).toOption.isSome   -- static: formats without any key

/-- every template of the working tree splits into tokens each of which is a lone slot or static -/
theorem C12_table_shape :
    Gen.vcsTemplates.all (fun vc => vc.2.all (fun ct =>
      match shlexSplit ct.2 with
      | some toks => toks.all tokOk
      | none => false)) = true := by
  sorry

/-- the value substituted for a token -/
def tokValue (kw : List (Str × Str)) (tok : Str) : Str :=
  match slotName tok with
  | some k => (lookup k kw).getD []
  | none => (pyFormat [] tok).toOption.getD []

/-- for ANY template with that shape and ANY values: argv is the token list with each slot
    replaced by its value — one value, one argument, nothing added, removed or altered -/
theorem C12_single_argument (tmpl : Str) (toks : List Str) (kw : List (Str × Str))
    (hs : shlexSplit tmpl = some toks) (hok : toks.all tokOk = true)
    (hkeys : ∀ t ∈ toks, ∀ k, slotName t = some k → (lookup k kw).isSome = true) :
    argv tmpl kw = .ok (toks.map (tokValue kw)) := by
  sorry

/-! ### message rendering: templates with the documented placeholders -/

inductive Piece
  | txt (s : Str)      -- literal text (may contain anything; braces are written doubled)
  | ph (k : Str)       -- `{k}`

def escBraces : Str → Str
  | [] => []
  | c :: r => if c == '{' then '{' :: '{' :: escBraces r
              else if c == '}' then '}' :: '}' :: escBraces r else c :: escBraces r

def Piece.render : Piece → Str
  | .txt s => escBraces s
  | .ph k => '{' :: k ++ ['}']

def Piece.value (kw : List (Str × Str)) : Piece → Str
  | .txt s => s
  | .ph k => (lookup k kw).getD []

/-- `template.format(**kwargs)` is the template with each placeholder replaced by its value,
    in one pass (values are never re-interpreted, whatever braces they contain) -/
theorem C12_message_render (ps : List Piece) (kw : List (Str × Str))
    (hk : ∀ p ∈ ps, ∀ k, p = .ph k → simpleName k = true ∧ (lookup k kw).isSome = true) :
    pyFormat kw (ps.flatMap Piece.render) = .ok (ps.flatMap (Piece.value kw)) := by
  sorry

/-- the rendered message then travels as one argument (composition with `C12_git_commit_argv`) -/
theorem C12_commit_message_end_to_end (ps : List Piece) (kw : List (Str × Str))
    (hk : ∀ p ∈ ps, ∀ k, p = .ph k → simpleName k = true ∧ (lookup k kw).isSome = true) :
    (pyFormat kw (ps.flatMap Piece.render)).toOption.map
        (fun m => argv (tmplOf "git" "commit") [(S "message", m)])
      = some (.ok [S "git", S "commit", S "--message", ps.flatMap (Piece.value kw)]) := by
  sorry

/-! ### the defect that was repaired (DESIGN.md D10): format-then-split let values alter argv -/

theorem C12_legacy_injection_witness :
    argvLegacy (tmplOf "git" "commit") [(S "message", S "a' --amend --author='x")]
      = .ok [S "git", S "commit", S "--message", S "a", S "--amend", S "--author=x"] := by
  decide +kernel

theorem C12_legacy_quote_crash_witness :
    argvLegacy (tmplOf "git" "commit") [(S "message", S "it's")] = .error .shlex := by
  decide +kernel

/-! ### OLD/NEW shorthand (tests of `subMsgTemplate`, labelled as tests) -/
example : subMsgTemplate (S "bump OLD -> NEW") = S "bump {OLD_VERSION} -> {NEW_VERSION}" := by decide +kernel
example : subMsgTemplate (S "HOLD NEWS OLD_ xOLD") = S "HOLD NEWS OLD_ xOLD" := by decide +kernel

/-! non-vacuity of `C12_single_argument`'s hypotheses on the real table -/
example : ∃ toks, shlexSplit (tmplOf "git" "tag") = some toks ∧ toks.all tokOk = true := by
  refine ⟨[S "git", S "tag", S "--annotate", S "{tag}", S "--message", S "{message}"], ?_, ?_⟩ <;> decide +kernel

end BV
