/-
  Props/C06.lean — property C06: a failed update leaves the project untouched.

  "If `update` cannot complete its rewrite phase - a configured pattern has no match in its
   file, a configured file is missing, or the new version is rejected - it exits non-zero and
   every project file keeps exactly its prior bytes; nothing is committed, tagged or pushed.
   Whenever `--dry` reports such an error, the corresponding real run changes nothing either."

  Model: `rewriteFiles` over an abstract file system (Model/Rewrite.lean, after the D5 repair:
  every file is read and validated before the first one is written) and `plan`
  (Model/Plan.lean) for the VCS side.  For ALL file systems, file lists (any order, any
  number of files and patterns) and versions.
-/
import BumpverVerif.Model.Rewrite
import BumpverVerif.Model.Plan
import BumpverVerif.Proofs.RewriteLemmas
import BumpverVerif.Props.C10
namespace BV

/-- ALL OR NOTHING: an error in the rewrite phase — missing file, pattern without match,
    anything — leaves every file exactly as it was -/
theorem C06_all_or_nothing (fs : FS) (fps : List (Str × List CPat)) (v : VInfo) (e : RwErr)
    (h : (rewriteFiles fs fps v).2 = .error e) : (rewriteFiles fs fps v).1 = fs := by
  unfold rewriteFiles at h ⊢
  split
  · rfl
  · rename_i ws hws
    rw [hws] at h
    cases h

/-- the rewrite phase fails iff some configured file is missing or some file fails to validate,
    and the first such file (in configuration order) decides the error -/
theorem C06_error_iff (fs : FS) (fps : List (Str × List CPat)) (v : VInfo) :
    (∃ e, (rewriteFiles fs fps v).2 = .error e) ↔
      ∃ fp ∈ fps, lookup fp.1 fs = none ∨ ∃ c e, lookup fp.1 fs = some c ∧ rewriteContent fp.2 v c = .error e := by
  rw [← planWrites_error_iff]
  unfold rewriteFiles
  cases planWrites fs v fps with
  | error e => simp
  | ok ws => simp

/-- success writes exactly the validated contents, and only to configured paths -/
theorem C06_success_writes (fs : FS) (fps : List (Str × List CPat)) (v : VInfo)
    (h : (rewriteFiles fs fps v).2 = .ok ()) :
    ∀ fp ∈ fps, ∃ c, lookup fp.1 fs = some c ∧ ∃ c', rewriteContent fp.2 v c = .ok c' := by
  intro fp hfp
  have hne : ¬ ∃ e, (rewriteFiles fs fps v).2 = .error e := by
    rintro ⟨e, he⟩
    rw [h] at he
    cases he
  rw [C06_error_iff] at hne
  cases hl : lookup fp.1 fs with
  | none => exact absurd ⟨fp, hfp, .inl hl⟩ hne
  | some c =>
    refine ⟨c, rfl, ?_⟩
    cases hr : rewriteContent fp.2 v c with
    | error e => exact absurd ⟨fp, hfp, .inr ⟨c, e, hl, hr⟩⟩ hne
    | ok c' => exact ⟨c', rfl⟩

/-- a missing pattern is an error of the file: if some configured pattern of a file has no
    surviving match, `rewriteLines` fails (so the whole phase fails by `C06_error_iff`) -/
theorem C06_missing_pattern_fails (pats : List CPat) (v : VInfo) (lines : List Str) (ms : List PMatch)
    (hm : iterMatches lines pats = some ms) (p : CPat) (hp : p ∈ pats) (hno : ∀ m ∈ ms, m.pat ≠ p) :
    ∃ e, rewriteLines pats v lines = .error e := by
  cases hr : rewriteLines pats v lines with
  | error e => exact ⟨e, rfl⟩
  | ok new =>
    obtain ⟨ms', hms', -, hall⟩ := rewriteLines_ok hr
    rw [hm] at hms'
    cases hms'
    rw [List.all_eq_true] at hall
    have := hall p hp
    rw [List.any_eq_true] at this
    obtain ⟨m, hmem, hmp⟩ := this
    exact absurd (by simpa using hmp) (hno m hmem)

/-- nothing is committed, tagged or pushed after a failed rewrite phase (Model/Plan.lean: the
    run stops before the `rewrite` event and the exit code is non-zero) -/
theorem C06_no_vcs_after_failure (c : PlanCfg) (a : PlanCli) (e : PlanEnv)
    (hr : e.rewriteOk = false) :
    (plan c a e).2 = 1 ∧ ∀ ev ∈ (plan c a e).1, ev ≠ .rewrite ∧ ev.mutating = false ∧ ev.isHook = false := by
  obtain ⟨hcode, hall⟩ := plan_rewrite_fail c a e hr
  refine ⟨hcode, fun ev hev => ?_⟩
  rcases hall ev hev with (rfl | rfl | rfl | ⟨-, rfl | rfl | rfl⟩) | rfl <;>
    simp [Ev.mutating, Ev.isHook]

/-- the defect that was repaired (DESIGN.md D5): the lazy loop wrote the files before the failing
    one.  Witness on the model of the old loop: two files, the second one missing. -/
theorem C06_lazy_partial_write_witness :
    let v : VInfo := { cal := ⟨none, none, none, none, none, none, none, none, none⟩, major := 1, minor := 2,
                       patch := 4, bid := "1000".toList, tag := "final".toList, pytag := [], num := 0, inc0 := 0, inc1 := 1 }
    let p : CPat := { vp := "MAJOR.MINOR.PATCH".toList, raw := "MAJOR.MINOR.PATCH".toList }
    let fs : FS := [("a".toList, "v 1.2.3".toList)]
    let fps := [("a".toList, [p]), ("b".toList, [p])]
    (rewriteFilesLazy v fs fps).1 = [("a".toList, "v 1.2.4".toList)] ∧
    (rewriteFilesLazy v fs fps).2 = .error .missingFile ∧
    (rewriteFiles fs fps v).1 = fs := by
  decide +kernel

end BV
