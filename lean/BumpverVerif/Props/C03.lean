/-
  Props/C03.lean — property C03: after an update no configured occurrence is left stale.

  "After a successful `update`, every place where a configured file pattern matched shows the
   new version rendered through that pattern - `{version}` occurrences equal the announced
   version, `{pep440_version}` occurrences its PEP 440 form, partial patterns (such as a
   copyright year) the corresponding parts - including when several different patterns match
   on the same line. The config file's current_version equals the announced version."

  Model: `iterMatches`, `rewriteLines` (Model/Rewrite.lean, after the D2 repair: the matches of a
  line are applied right to left onto the current line).  For ALL line lists and pattern lists.
-/
import BumpverVerif.Model.Rewrite
import BumpverVerif.Proofs.RewriteLemmas
-- the functions this property's mechanism lives in are TRANSLATED from the Python source on every run (Gen/F_*.lean) and proved equal to the hand model:
import BumpverVerif.Proofs.Tie_hasOverlap
namespace BV

/-- the surviving matches never overlap or touch one another -/
theorem C03_matches_disjoint (lines : List Str) (pats : List CPat) (ms : List PMatch)
    (h : iterMatches lines pats = some ms) :
    ms.Pairwise (fun a b => a.lineno ≠ b.lineno ∨ a.stop < b.start ∨ b.stop < a.start) :=
  (iterMatches_facts lines pats ms h).1

/-- every surviving match lies inside its line -/
theorem C03_matches_in_bounds (lines : List Str) (pats : List CPat) (ms : List PMatch)
    (h : iterMatches lines pats = some ms) :
    ∀ m ∈ ms, ∃ line, lines[m.lineno]? = some line ∧ m.start < m.stop ∧ m.stop ≤ line.length := by
  intro m hm
  obtain ⟨-, h2, line, h3, h4⟩ := (iterMatches_facts lines pats ms h).2 m hm
  exact ⟨line, h3, h2, h4⟩

/-- success means every configured pattern was found somewhere in the file -/
theorem C03_all_patterns_found (pats : List CPat) (v : VInfo) (old new : List Str) (ms : List PMatch)
    (hm : iterMatches old pats = some ms) (h : rewriteLines pats v old = .ok new) :
    ∀ p ∈ pats, ∃ m ∈ ms, m.pat = p := by
  intro p hp
  obtain ⟨ms', hms', -, hall⟩ := rewriteLines_ok h
  rw [hm] at hms'
  cases hms'
  rw [List.all_eq_true] at hall
  have := hall p hp
  rw [List.any_eq_true] at this
  obtain ⟨m, hmem, hmp⟩ := this
  exact ⟨m, hmem, by simpa using hmp⟩

/-- the text a match is replaced with -/
def replOf (v : VInfo) (m : PMatch) : Str :=
  match formatVersion v (normalizePattern m.pat.vp m.pat.raw) with
  | .ok s => s
  | .error _ => []

/-- offset of a match's replacement in the NEW line: its old start, shifted by the growth of
    the replacements to its left on the same line -/
def shiftedStart (v : VInfo) (ms : List PMatch) (m : PMatch) : Int :=
  (m.start : Int) + ((ms.filter (fun m' => m'.lineno == m.lineno && m'.stop < m.start)).map
      (fun m' => ((replOf v m').length : Int) - ((m'.stop : Int) - (m'.start : Int)))).sum

/-- EVERY OCCURRENCE IS REPLACED, also several on one line: after a successful rewrite each
    surviving match shows the new version rendered through its own pattern, at its (shifted)
    position in the new line -/
theorem C03_every_occurrence (pats : List CPat) (v : VInfo) (old new : List Str) (ms : List PMatch)
    (hm : iterMatches old pats = some ms) (h : rewriteLines pats v old = .ok new)
    (m : PMatch) (hmem : m ∈ ms) :
    ∃ newLine, new[m.lineno]? = some newLine ∧
      (newLine.drop (shiftedStart v ms m).toNat).take (replOf v m).length = replOf v m := by
  have hrepl : replOf v = replOfL v := rfl
  have hshift : shiftedStart v ms m = (m.start : Int) +
      ((ms.filter (fun m' => m'.lineno == m.lineno && decide (m'.stop < m.start))).map
        (growth v)).sum := rfl
  rw [hrepl, hshift]
  exact rewriteLines_occ hm h m hmem

/-- `{version}` denotes the version pattern itself: such an occurrence is rendered as the
    announced version (normalize_pattern with raw = "{version}") -/
theorem C03_version_placeholder (vp : Str) :
    normalizePattern vp "{version}".toList =
      (if isInfix "{pep440_version}".toList vp
       then replaceAll "{pep440_version}".toList (convertToPep440 vp) vp else vp) := by
  unfold normalizePattern
  have h1 : isInfix "{version}".toList "{version}".toList = true := by decide
  simp only [h1, if_true]
  rw [replaceAll_self _ _ (by decide)]

/-- the defect that was repaired (DESIGN.md D2): two patterns on one line.  With the repaired
    right-to-left application both occurrences are replaced. -/
theorem C03_shared_line_witness :
    let v : VInfo := { cal := ⟨none, none, none, none, none, none, none, none, none⟩, major := 1, minor := 2,
                       patch := 4, bid := "1000".toList, tag := "final".toList, pytag := [], num := 0, inc0 := 0, inc1 := 1 }
    let vp := "MAJOR.MINOR.PATCH".toList
    rewriteLines [{ vp := vp, raw := "a=MAJOR.MINOR.PATCH".toList }, { vp := vp, raw := "b=MAJOR.MINOR.PATCH".toList }] v
        ["a=1.2.3 b=1.2.3".toList] = .ok ["a=1.2.4 b=1.2.4".toList] := by
  decide +kernel

end BV
