/-
  Props/C08.lean — property C08: any sequence of updates keeps files, config and tags in agreement.

  "Starting from a consistent project, after every successful `update` in any sequence of
   invocations, the config's current_version, every configured occurrence in every file, the
   version `show` reports and - when tagging is on - the newest VCS tag all denote the same
   version, which is strictly greater than the previous one, so a further update is always
   possible. Each committing update adds exactly one commit containing only the configured
   files, and one tag on that commit."

  Model: Model/History.lean — the version state (config value, tags) under ANY sequence of
  invocations of ANY length (induction over the list of operations), built from C09's
  `startVersion` and C01's `gate`.  The file side is C03 (`C03_every_occurrence`: a successful
  rewrite puts the new version into every configured occurrence) and C06 (a failed one changes
  nothing); "one commit with only the configured files, one tag" is C10 (`C10_success_complete`,
  `C10_tag_push_gated`) on the plan model.  PARTIAL: real git (commits, tags, branches) is
  exercised by the check with real repositories, not modelled beyond the tag list; that a
  rendered occurrence is found again by its own pattern on the next run is C02 (per-part proof
  + validated composition).
-/
import BumpverVerif.Model.History
import BumpverVerif.Proofs.CliLemmas
import BumpverVerif.Proofs.HistoryLemmas
import BumpverVerif.Props.C09
import BumpverVerif.Props.C01
namespace BV

/-- a successful update announces a version that is valid for the pattern and strictly greater
    than the previous config value -/
theorem C08_step_greater (pat : Str) (today : Nat × Nat × Nat) (s : HState) (op : HOp)
    (hc : Consistent pat today s) (hok : (hstep pat today s op).2 = true) :
    pepLt s.cfg (hstep pat today s op).1.cfg = true ∧
    isValid (hstep pat today s op).1.cfg pat today = .ok true := by
  obtain ⟨new, -, hval, hlt, hst⟩ := hstep_ok_consistent hc hok
  rw [hst]
  exact ⟨hlt, hval⟩

/-- a failed invocation leaves the version state exactly as it was -/
theorem C08_step_fail (pat : Str) (today : Nat × Nat × Nat) (s : HState) (op : HOp)
    (hfail : (hstep pat today s op).2 = false) : (hstep pat today s op).1 = s := by
  exact hstep_fail hfail

/-- consistency is an invariant of every invocation, successful or not -/
theorem C08_step_consistent (pat : Str) (today : Nat × Nat × Nat) (s : HState) (op : HOp)
    (hc : Consistent pat today s) : Consistent pat today (hstep pat today s op).1 := by
  exact hstep_consistent hc

/-- … hence of every history, of any length -/
theorem C08_history_consistent (pat : Str) (today : Nat × Nat × Nat) (s : HState) (ops : List HOp)
    (hc : Consistent pat today s) : Consistent pat today (hrun pat today s ops) := by
  induction ops generalizing s with
  | nil => exact hc
  | cons op ops ih => exact ih _ (hstep_consistent hc)

/-- in a consistent project `show` (= the start version of the next update) reports the config
    value, up to PEP 440 equality of a tag with it — config, `show` and tags agree -/
theorem C08_show_is_config (pat : Str) (today : Nat × Nat × Nat) (s : HState)
    (hc : Consistent pat today s) :
    ∃ v, startVersion .default pat s.cfg today s.tags = .ok v ∧ pepLe v s.cfg = true ∧ pepLe s.cfg v = true := by
  exact ⟨s.cfg, startVersion_consistent hc, pepLe_refl _, pepLe_refl _⟩

/-- when every successful update commits and tags, the newest tag denotes the config version -/
theorem C08_newest_tag (pat : Str) (today : Nat × Nat × Nat) (s : HState) (op : HOp)
    (hc : Consistent pat today s) (hop : op.commit = true ∧ op.tag = true)
    (hok : (hstep pat today s op).2 = true) :
    latestOf (hstep pat today s op).1.tags = some (hstep pat today s op).1.cfg ∨
    ∃ t, latestOf (hstep pat today s op).1.tags = some t ∧
         pepLe t (hstep pat today s op).1.cfg = true ∧ pepLe (hstep pat today s op).1.cfg t = true := by
  obtain ⟨new, -, -, hlt, hst⟩ := hstep_ok_consistent hc hok
  left
  rw [hst, hop.1, hop.2]
  exact latestOf_cons_of_le new s.tags
    (fun u hu => pepLe_trans (hc.2 u hu).2 (pepLe_of_lt hlt))

/-- versions along a history never decrease, and every successful step strictly increases -/
theorem C08_history_monotone (pat : Str) (today : Nat × Nat × Nat) (s : HState) (ops : List HOp)
    (hc : Consistent pat today s) : pepLe s.cfg (hrun pat today s ops).cfg = true := by
  induction ops generalizing s with
  | nil => exact pepLe_refl _
  | cons op ops ih =>
    exact pepLe_trans (hstep_mono (op := op) hc) (ih _ (hstep_consistent hc))

/-- a further update is always possible: any candidate that is valid for the pattern and greater
    than the config value is accepted in a consistent project -/
theorem C08_next_possible (pat : Str) (today : Nat × Nat × Nat) (s : HState) (new : Str) (c t : Bool)
    (hc : Consistent pat today s)
    (hv : ∃ vi, parseVersionInfo new pat today = .ok vi) (hg : pepLt s.cfg new = true) :
    (hstep pat today s { candidate := some new, commit := c, tag := t }).2 = true := by
  obtain ⟨vi, hv⟩ := hv
  unfold hstep
  rw [startVersion_consistent hc]
  simp only
  rw [gate_accept_of hv hg]

end BV
