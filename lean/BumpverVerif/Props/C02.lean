/-
  Props/C02.lean — property C02: rendered versions are accepted by their own pattern and read
  back unchanged.

  "For every supported pattern and every version state reachable by bumping, the text bumpver
   renders is accepted in full by the recogniser compiled from that same pattern, reads back as
   the same version (every part equal), and rendering what was read back reproduces the text
   byte for byte. Hence the version announced by one run is always a legal current version for
   `show` and for the next run."

  bumpver has TWO hand-written tables that nothing in its test suite ties together: the
  recognisers `PART_PATTERNS` (one regex per part) and the renderers `PART_FORMATS`.  Both are
  GENERATED into Gen/V2Tables.lean on every run.  This file proves, part by part, that they
  agree on every value the part can take:

    rendered text  --(its own regex, followed by anything that is not a digit/letter of the
                      part's alphabet)-->  consumed in full (maximal munch, longest alternative)
    rendered text  --(int(...) as parse_field_values does)-->  the same value

  for the finite calendar domains by kernel evaluation over the WHOLE domain, for the unbounded
  numeric parts and BUILD by induction on the digit list, for years by the 4-digit lemma.
  `C02_calinfo_domains` shows that what `cal_info` produces lies inside those domains — except
  week 53 of %W/%U (known finding F-C02-week53, witness below).

  PARTIAL: the composition of the parts over a whole pattern (literal separators, adjacency of
  fixed-width parts, nested optional groups) is validated by the correspondence ops
  format/parse and the render→parse→re-render oracle of harness/props/c02.py, not proved here.
-/
import BumpverVerif.Model.V2Version
import BumpverVerif.Proofs.Digits
import BumpverVerif.Proofs.PartLemmas
namespace BV

/-- the compiled recogniser of a part, from the generated table -/
def partRe (name : String) : Option Re := (lookup name.toList Gen.partPatterns).bind parseRe

/-- the renderer of a part, from the generated table -/
def partFmt (name : String) : Option Gen.FmtKind := lookup name.toList Gen.partFormats

/-- length of the first match at the start of `s` -/
def matchLen (r : Re) (s : Str) : Option Nat := (reMatch r s).map (·.stop)

/-- `[0-9]+`, `[1-9][0-9]*`, `[1-9][0-9]{3}` as `parseRe` builds them -/
def reDigitsPlus : Re := .rep (.cls false [.range '0' '9']) 1 none
def rePosInt : Re := .seq (.cls false [.range '1' '9']) (.rep (.cls false [.range '0' '9']) 0 none)
def reYear4 : Re := .seq (.cls false [.range '1' '9']) (.rep (.cls false [.range '0' '9']) 3 (some 3))

/-- the regenerated table has exactly these shapes for the unbounded parts (a table edit that
    changes a shape breaks this obligation) and renders them with `str(v)` / `str(int(v))` -/
theorem C02_unbounded_shapes :
    partRe "MAJOR" = some reDigitsPlus ∧ partRe "MINOR" = some reDigitsPlus ∧ partRe "PATCH" = some reDigitsPlus ∧
    partRe "NUM" = some reDigitsPlus ∧ partRe "INC0" = some reDigitsPlus ∧ partRe "BUILD" = some reDigitsPlus ∧
    partRe "BLD" = some rePosInt ∧ partRe "INC1" = some rePosInt ∧
    partRe "YYYY" = some reYear4 ∧ partRe "GGGG" = some reYear4 ∧
    partFmt "MAJOR" = some .str ∧ partFmt "MINOR" = some .str ∧ partFmt "PATCH" = some .str ∧ partFmt "NUM" = some .str ∧
    partFmt "INC0" = some .str ∧ partFmt "INC1" = some .str ∧ partFmt "BUILD" = some .str ∧ partFmt "BLD" = some .int ∧
    partFmt "YYYY" = some .str ∧ partFmt "GGGG" = some .str := by
  refine ⟨?_, ?_, ?_, ?_, ?_, ?_, ?_, ?_, ?_, ?_, ?_, ?_, ?_, ?_, ?_, ?_, ?_, ?_, ?_, ?_⟩ <;> decide +kernel

/-- "what follows is not a digit" -/
def noDigitAhead (rest : Str) : Prop := ∀ c, rest.head? = some c → isDigit c = false

/-- MAJOR / MINOR / PATCH / NUM / INC0: every natural number renders to text that the recogniser
    consumes in full before any non-digit continuation, and reads back as the same number -/
theorem C02_nat_part (n : Nat) (rest : Str) (hr : noDigitAhead rest) :
    matchLen reDigitsPlus (fmtValue .str (.nat n) ++ rest) = some (fmtValue .str (.nat n)).length ∧
    strToNat (fmtValue .str (.nat n)) = n := by
  have hf : fmtValue .str (.nat n) = natToStr n := rfl
  rw [hf]
  exact ⟨match_digitsPlus (natToStr n) rest (natToStr_ne_nil n) (allDigits_natToStr n) hr,
    strToNat_natToStr n⟩

/-- BUILD: every non-empty digit string (leading zeros included) is consumed in full and is
    carried verbatim -/
theorem C02_build_part (b : Str) (hb : isDigitStr b = true) (rest : Str) (hr : noDigitAhead rest) :
    matchLen reDigitsPlus (fmtValue .str (.str b) ++ rest) = some b.length ∧ fmtValue .str (.str b) = b := by
  have hf : fmtValue .str (.str b) = b := rfl
  rw [hf]
  rw [isDigitStr_iff] at hb
  exact ⟨match_digitsPlus b rest hb.1 hb.2 hr, rfl⟩

/-- INC1 and BLD (`[1-9][0-9]*`): every n ≥ 1; BLD renders `str(int(bid))`, which is accepted
    whenever the BUILD value is not zero -/
theorem C02_posint_part (n : Nat) (hn : 1 ≤ n) (rest : Str) (hr : noDigitAhead rest) :
    matchLen rePosInt (natToStr n ++ rest) = some (natToStr n).length ∧ strToNat (natToStr n) = n := by
  refine ⟨?_, strToNat_natToStr n⟩
  have hd := allDigits_natToStr n
  have hne := natToStr_ne_nil n
  have hh := natToStr_head_ne_zero n (by omega)
  generalize natToStr n = s at hd hne hh
  cases s with
  | nil => exact absurd rfl hne
  | cons c t =>
    rw [allDigits_cons] at hd
    exact match_posInt c t rest hd.1 (hh c t rfl) hd.2 hr

theorem C02_bld_part (b : Str) (hb : isDigitStr b = true) (hpos : 1 ≤ strToNat b) (rest : Str) (hr : noDigitAhead rest) :
    matchLen rePosInt (fmtValue .int (.str b) ++ rest) = some (fmtValue .int (.str b)).length ∧
    strToNat (fmtValue .int (.str b)) = strToNat b := by
  have _ := hb
  have hf : fmtValue .int (.str b) = natToStr (strToNat b) := rfl
  rw [hf]
  exact C02_posint_part (strToNat b) hpos rest hr

/-- YYYY / GGGG: fixed width — every year 1000..9999 is consumed as exactly four characters,
    WHATEVER follows (so `YYYY0M` needs no separator) -/
theorem C02_year_part (y : Nat) (h1 : 1000 ≤ y) (h2 : y ≤ 9999) (rest : Str) :
    matchLen reYear4 (natToStr y ++ rest) = some 4 ∧ (natToStr y).length = 4 ∧ strToNat (natToStr y) = y := by
  have hlen := natToStr_length_eq 3 y (by omega) (by omega)
  refine ⟨?_, hlen, strToNat_natToStr y⟩
  have hd := allDigits_natToStr y
  have hh := natToStr_head_ne_zero y (by omega)
  generalize natToStr y = s at hd hlen hh
  cases s with
  | nil => simp at hlen
  | cons c t =>
    rw [allDigits_cons] at hd
    have ht : t.length = 3 := by simpa using hlen
    have := match_posFixed c t rest hd.1 (hh c t rfl) hd.2
    rw [List.length_cons, ht] at this
    exact this

/-- one (part, value) check for the finite domains: the rendering is consumed in full when
    alone, when followed by a non-digit, and (fixed-width parts) when followed by a digit; and it
    reads back (`back`) as the value -/
def partOK (name : String) (x : Nat) (back : Str → Nat) (fixedWidth : Bool) : Bool :=
  match partRe name, partFmt name with
  | some r, some k =>
    let t := fmtValue k (.nat x)
    matchLen r t == some t.length && matchLen r (t ++ ['.', 'x']) == some t.length &&
    (!fixedWidth || matchLen r (t ++ ['7']) == some t.length) && back t == x
  | _, _ => false

def range1 (lo hi : Nat) : List Nat := (List.range (hi + 1 - lo)).map (· + lo)

/-- THE FINITE CALENDAR PARTS, over their whole domains (kernel-evaluated on the regenerated
    tables): months 1..12, days 1..31, days of year 1..366, quarters 1..4, ISO weeks 1..53,
    %W/%U weeks 0..52, two-digit years for 2000..2099 (read back with the +2000 rule) -/
theorem C02_finite_parts :
    (range1 1 12).all (fun x => partOK "MM" x strToNat false && partOK "0M" x strToNat true) = true ∧
    (range1 1 31).all (fun x => partOK "DD" x strToNat false && partOK "0D" x strToNat true) = true ∧
    (range1 1 366).all (fun x => partOK "JJJ" x strToNat false && partOK "00J" x strToNat true) = true ∧
    (range1 1 4).all (fun x => partOK "Q" x strToNat true) = true ∧
    (range1 1 53).all (fun x => partOK "VV" x strToNat false && partOK "0V" x strToNat true) = true ∧
    (range1 0 52).all (fun x => partOK "WW" x strToNat false && partOK "0W" x strToNat true &&
                               partOK "UU" x strToNat false && partOK "0U" x strToNat true) = true ∧
    (range1 2000 2099).all (fun y => partOK "0Y" y (fun s => strToNat s + 2000) true &&
                                    partOK "0G" y (fun s => strToNat s + 2000) true) = true ∧
    (range1 2001 2099).all (fun y => partOK "YY" y (fun s => strToNat s + 2000) false &&
                                    partOK "GG" y (fun s => strToNat s + 2000) false) = true := by
  refine ⟨?_, ?_, ?_, ?_, ?_, ?_, ?_, ?_⟩ <;> decide +kernel

/-- tags: every release tag the CLI accepts is recognised in full by TAG (also before a digit or
    a separator), every non-final short tag by PYTAG; the alternatives are ordered so that no
    tag is cut short -/
theorem C02_tag_parts :
    Gen.validReleaseTagValues.all (fun t =>
      match partRe "TAG" with
      | some r => matchLen r t == some t.length && matchLen r (t ++ ['1']) == some t.length &&
                  matchLen r (t ++ ['.']) == some t.length
      | none => false) = true ∧
    ["a", "b", "rc", "post", "dev"].all (fun t =>
      match partRe "PYTAG" with
      | some r => matchLen r t.toList == some t.length && matchLen r (t.toList ++ ['0']) == some t.length
      | none => false) = true := by
  refine ⟨?_, ?_⟩ <;> decide +kernel

/-- Known finding F-C02-week53: `%W`/`%U` produce week 53, which WW/0W/UU/0U do not recognise -/
theorem C02_week53_witness :
    (calInfo 2018 12 31).weekW = 53 ∧ partOK "WW" 53 strToNat false = false ∧ partOK "0W" 53 strToNat true = false ∧
    partOK "UU" 53 strToNat false = false ∧ partOK "0U" 53 strToNat true = false := by
  refine ⟨?_, ?_, ?_, ?_, ?_⟩ <;> decide +kernel

/-- what `cal_info` produces lies inside the recognised domains — for EVERY valid date; the
    only escape is week 53 of %W/%U -/
theorem C02_calinfo_domains (y m d : Nat) (hv : validDate y m d = true) :
    let c := calInfo y m d
    1 ≤ c.month ∧ c.month ≤ 12 ∧ 1 ≤ c.dom ∧ c.dom ≤ 31 ∧ 1 ≤ c.doy ∧ c.doy ≤ 366 ∧
    1 ≤ c.quarter ∧ c.quarter ≤ 4 ∧ 1 ≤ c.weekV ∧ c.weekV ≤ 53 ∧ c.weekW ≤ 53 ∧ c.weekU ≤ 53 ∧
    c.yearY = y ∧ 1 ≤ y ∧ y ≤ 9999 := by
  exact calInfo_domains y m d hv

/-- bumping keeps the unbounded numeric parts inside their domains: INC1 stays ≥ 1 -/
theorem C02_inc1_positive (fs : List Str) (old cur new : VInfo) (fl : IncrFlags)
    (h1 : 1 ≤ cur.inc1) (h : incrNumeric fs old cur fl = .ok new) : 1 ≤ new.inc1 := by
  exact incrNumeric_inc1_pos fs old cur new fl h1 h

end BV
