/-
  Props/C02.lean — property C02: rendered versions are accepted by their own pattern and read
  back unchanged.

  "For every supported pattern and every version state reachable by bumping, the text bumpver
   renders is accepted in full by the recogniser compiled from that same pattern, reads back as
   the same version (every part equal), and rendering what was read back reproduces the text
   byte for byte. Hence the version announced by one run is always a legal current version for
   `show` and for the next run."

  bumpver has TWO hand-written tables that nothing in its test suite ties together: the
  recognisers `PART_PATTERNS` (one regex per part) and the renderers `PART_FORMATS`.  Both are
  GENERATED into Gen/V2Tables.lean on every run.  This file proves, part by part, that they
  agree on every value the part can take:

    rendered text  --(its own regex, followed by anything that is not a digit/letter of the
                      part's alphabet)-->  consumed in full (maximal munch, longest alternative)
    rendered text  --(int(...) as parse_field_values does)-->  the same value

  for the finite calendar domains by kernel evaluation over the WHOLE domain, for the unbounded
  numeric parts and BUILD by induction on the digit list, for years by the 4-digit lemma.
  `C02_calinfo_domains` shows that what `cal_info` produces lies inside those domains — except
  week 53 of %W/%U (known finding F-C02-week53, witness below).

  THE COMPOSITION over a whole pattern (literal separators, adjacency, nested optional groups,
  omission of all-zero groups, the `parse_field_values_to_vinfo` / `_to_cinfo` read-back) is
  proved at the end of this file on the pattern TREE (`Pat`, Model/PatAst.lean): for every
  well-formed tree and every record in the domain of its rendered parts the rendered text is
  consumed IN FULL by the first success of the compiled regex, the group dictionary is exactly
  the rendered part texts, the record read back agrees on every part, and rendering it again
  gives the same text (`C02_roundtrip_ast`, `C02_roundtrip_of_date`).

  PARTIAL in one respect only: bumpver compiles and renders by STRING SURGERY on the pattern
  text, not through a tree.  That the string pipeline (`compileRe`, `formatVersion`: the faithful
  model of the code, itself tied to the code by the ops compile_search/format/parse) and the tree
  (`tokenize`, `Pat.compile`, `Pat.render`) agree is proved by kernel evaluation for the README's
  example patterns (`C02_readme_tree_tie`) and CHECKED per generated pattern by the driver op
  `ast_tie` on every run; a general proof of that string-level parser is future work.
-/
import BumpverVerif.Model.V2Version
import BumpverVerif.Proofs.Digits
import BumpverVerif.Proofs.PartLemmas
import BumpverVerif.Proofs.ReadBack
namespace BV

/-- the compiled recogniser of a part, from the generated table -/
def partRe (name : String) : Option Re := (lookup name.toList Gen.partPatterns).bind parseRe

/-- the renderer of a part, from the generated table -/
def partFmt (name : String) : Option Gen.FmtKind := lookup name.toList Gen.partFormats

/-- length of the first match at the start of `s` -/
def matchLen (r : Re) (s : Str) : Option Nat := (reMatch r s).map (·.stop)

/-- `[0-9]+`, `[1-9][0-9]*`, `[1-9][0-9]{3}` as `parseRe` builds them -/
def reDigitsPlus : Re := .rep (.cls false [.range '0' '9']) 1 none
def rePosInt : Re := .seq (.cls false [.range '1' '9']) (.rep (.cls false [.range '0' '9']) 0 none)
def reYear4 : Re := .seq (.cls false [.range '1' '9']) (.rep (.cls false [.range '0' '9']) 3 (some 3))

/-- the regenerated table has exactly these shapes for the unbounded parts (a table edit that
    changes a shape breaks this obligation) and renders them with `str(v)` / `str(int(v))` -/
theorem C02_unbounded_shapes :
    partRe "MAJOR" = some reDigitsPlus ∧ partRe "MINOR" = some reDigitsPlus ∧ partRe "PATCH" = some reDigitsPlus ∧
    partRe "NUM" = some reDigitsPlus ∧ partRe "INC0" = some reDigitsPlus ∧ partRe "BUILD" = some reDigitsPlus ∧
    partRe "BLD" = some rePosInt ∧ partRe "INC1" = some rePosInt ∧
    partRe "YYYY" = some reYear4 ∧ partRe "GGGG" = some reYear4 ∧
    partFmt "MAJOR" = some .str ∧ partFmt "MINOR" = some .str ∧ partFmt "PATCH" = some .str ∧ partFmt "NUM" = some .str ∧
    partFmt "INC0" = some .str ∧ partFmt "INC1" = some .str ∧ partFmt "BUILD" = some .str ∧ partFmt "BLD" = some .int ∧
    partFmt "YYYY" = some .str ∧ partFmt "GGGG" = some .str := by
  refine ⟨?_, ?_, ?_, ?_, ?_, ?_, ?_, ?_, ?_, ?_, ?_, ?_, ?_, ?_, ?_, ?_, ?_, ?_, ?_, ?_⟩ <;> decide +kernel

/-- "what follows is not a digit" -/
def noDigitAhead (rest : Str) : Prop := ∀ c, rest.head? = some c → isDigit c = false

/-- MAJOR / MINOR / PATCH / NUM / INC0: every natural number renders to text that the recogniser
    consumes in full before any non-digit continuation, and reads back as the same number -/
theorem C02_nat_part (n : Nat) (rest : Str) (hr : noDigitAhead rest) :
    matchLen reDigitsPlus (fmtValue .str (.nat n) ++ rest) = some (fmtValue .str (.nat n)).length ∧
    strToNat (fmtValue .str (.nat n)) = n := by
  have hf : fmtValue .str (.nat n) = natToStr n := rfl
  rw [hf]
  exact ⟨match_digitsPlus (natToStr n) rest (natToStr_ne_nil n) (allDigits_natToStr n) hr,
    strToNat_natToStr n⟩

/-- BUILD: every non-empty digit string (leading zeros included) is consumed in full and is
    carried verbatim -/
theorem C02_build_part (b : Str) (hb : isDigitStr b = true) (rest : Str) (hr : noDigitAhead rest) :
    matchLen reDigitsPlus (fmtValue .str (.str b) ++ rest) = some b.length ∧ fmtValue .str (.str b) = b := by
  have hf : fmtValue .str (.str b) = b := rfl
  rw [hf]
  rw [isDigitStr_iff] at hb
  exact ⟨match_digitsPlus b rest hb.1 hb.2 hr, rfl⟩

/-- INC1 and BLD (`[1-9][0-9]*`): every n ≥ 1; BLD renders `str(int(bid))`, which is accepted
    whenever the BUILD value is not zero -/
theorem C02_posint_part (n : Nat) (hn : 1 ≤ n) (rest : Str) (hr : noDigitAhead rest) :
    matchLen rePosInt (natToStr n ++ rest) = some (natToStr n).length ∧ strToNat (natToStr n) = n := by
  refine ⟨?_, strToNat_natToStr n⟩
  have hd := allDigits_natToStr n
  have hne := natToStr_ne_nil n
  have hh := natToStr_head_ne_zero n (by omega)
  generalize natToStr n = s at hd hne hh
  cases s with
  | nil => exact absurd rfl hne
  | cons c t =>
    rw [allDigits_cons] at hd
    exact match_posInt c t rest hd.1 (hh c t rfl) hd.2 hr

theorem C02_bld_part (b : Str) (hb : isDigitStr b = true) (hpos : 1 ≤ strToNat b) (rest : Str) (hr : noDigitAhead rest) :
    matchLen rePosInt (fmtValue .int (.str b) ++ rest) = some (fmtValue .int (.str b)).length ∧
    strToNat (fmtValue .int (.str b)) = strToNat b := by
  have _ := hb
  have hf : fmtValue .int (.str b) = natToStr (strToNat b) := rfl
  rw [hf]
  exact C02_posint_part (strToNat b) hpos rest hr

/-- YYYY / GGGG: fixed width — every year 1000..9999 is consumed as exactly four characters,
    WHATEVER follows (so `YYYY0M` needs no separator) -/
theorem C02_year_part (y : Nat) (h1 : 1000 ≤ y) (h2 : y ≤ 9999) (rest : Str) :
    matchLen reYear4 (natToStr y ++ rest) = some 4 ∧ (natToStr y).length = 4 ∧ strToNat (natToStr y) = y := by
  have hlen := natToStr_length_eq 3 y (by omega) (by omega)
  refine ⟨?_, hlen, strToNat_natToStr y⟩
  have hd := allDigits_natToStr y
  have hh := natToStr_head_ne_zero y (by omega)
  generalize natToStr y = s at hd hlen hh
  cases s with
  | nil => simp at hlen
  | cons c t =>
    rw [allDigits_cons] at hd
    have ht : t.length = 3 := by simpa using hlen
    have := match_posFixed c t rest hd.1 (hh c t rfl) hd.2
    rw [List.length_cons, ht] at this
    exact this

/-- one (part, value) check for the finite domains: the rendering is consumed in full when
    alone, when followed by a non-digit, and (fixed-width parts) when followed by a digit; and it
    reads back (`back`) as the value -/
def partOK (name : String) (x : Nat) (back : Str → Nat) (fixedWidth : Bool) : Bool :=
  match partRe name, partFmt name with
  | some r, some k =>
    let t := fmtValue k (.nat x)
    matchLen r t == some t.length && matchLen r (t ++ ['.', 'x']) == some t.length &&
    (!fixedWidth || matchLen r (t ++ ['7']) == some t.length) && back t == x
  | _, _ => false

def range1 (lo hi : Nat) : List Nat := (List.range (hi + 1 - lo)).map (· + lo)

/-- THE FINITE CALENDAR PARTS, over their whole domains (kernel-evaluated on the regenerated
    tables): months 1..12, days 1..31, days of year 1..366, quarters 1..4, ISO weeks 1..53,
    %W/%U weeks 0..52, two-digit years for 2000..2099 (read back with the +2000 rule) -/
theorem C02_finite_parts :
    (range1 1 12).all (fun x => partOK "MM" x strToNat false && partOK "0M" x strToNat true) = true ∧
    (range1 1 31).all (fun x => partOK "DD" x strToNat false && partOK "0D" x strToNat true) = true ∧
    (range1 1 366).all (fun x => partOK "JJJ" x strToNat false && partOK "00J" x strToNat true) = true ∧
    (range1 1 4).all (fun x => partOK "Q" x strToNat true) = true ∧
    (range1 1 53).all (fun x => partOK "VV" x strToNat false && partOK "0V" x strToNat true) = true ∧
    (range1 0 52).all (fun x => partOK "WW" x strToNat false && partOK "0W" x strToNat true &&
                               partOK "UU" x strToNat false && partOK "0U" x strToNat true) = true ∧
    (range1 2000 2099).all (fun y => partOK "0Y" y (fun s => strToNat s + 2000) true &&
                                    partOK "0G" y (fun s => strToNat s + 2000) true) = true ∧
    (range1 2001 2099).all (fun y => partOK "YY" y (fun s => strToNat s + 2000) false &&
                                    partOK "GG" y (fun s => strToNat s + 2000) false) = true := by
  refine ⟨?_, ?_, ?_, ?_, ?_, ?_, ?_, ?_⟩ <;> decide +kernel

/-- tags: every release tag the CLI accepts is recognised in full by TAG (also before a digit or
    a separator), every non-final short tag by PYTAG; the alternatives are ordered so that no
    tag is cut short -/
theorem C02_tag_parts :
    Gen.validReleaseTagValues.all (fun t =>
      match partRe "TAG" with
      | some r => matchLen r t == some t.length && matchLen r (t ++ ['1']) == some t.length &&
                  matchLen r (t ++ ['.']) == some t.length
      | none => false) = true ∧
    ["a", "b", "rc", "post", "dev"].all (fun t =>
      match partRe "PYTAG" with
      | some r => matchLen r t.toList == some t.length && matchLen r (t.toList ++ ['0']) == some t.length
      | none => false) = true := by
  refine ⟨?_, ?_⟩ <;> decide +kernel

/-- Known finding F-C02-week53: `%W`/`%U` produce week 53, which WW/0W/UU/0U do not recognise -/
theorem C02_week53_witness :
    (calInfo 2018 12 31).weekW = 53 ∧ partOK "WW" 53 strToNat false = false ∧ partOK "0W" 53 strToNat true = false ∧
    partOK "UU" 53 strToNat false = false ∧ partOK "0U" 53 strToNat true = false := by
  refine ⟨?_, ?_, ?_, ?_, ?_⟩ <;> decide +kernel

/-- what `cal_info` produces lies inside the recognised domains — for EVERY valid date; the
    only escape is week 53 of %W/%U -/
theorem C02_calinfo_domains (y m d : Nat) (hv : validDate y m d = true) :
    let c := calInfo y m d
    1 ≤ c.month ∧ c.month ≤ 12 ∧ 1 ≤ c.dom ∧ c.dom ≤ 31 ∧ 1 ≤ c.doy ∧ c.doy ≤ 366 ∧
    1 ≤ c.quarter ∧ c.quarter ≤ 4 ∧ 1 ≤ c.weekV ∧ c.weekV ≤ 53 ∧ c.weekW ≤ 53 ∧ c.weekU ≤ 53 ∧
    c.yearY = y ∧ 1 ≤ y ∧ y ≤ 9999 := by
  exact calInfo_domains y m d hv

/-- bumping keeps the unbounded numeric parts inside their domains: INC1 stays ≥ 1 -/
theorem C02_inc1_positive (fs : List Str) (old cur new : VInfo) (fl : IncrFlags)
    (h1 : 1 ≤ cur.inc1) (h : incrNumeric fs old cur fl = .ok new) : 1 ≤ new.inc1 := by
  exact incrNumeric_inc1_pos fs old cur new fl h1 h

/-! ## The composition over whole patterns (pattern tree) -/

/-- ACCEPTED IN FULL: for every well-formed pattern tree (`Pat.wf`: every variable-width numeric part is
    followed by a non-digit, an omitted optional group cannot be confused with what follows it) and every
    record inside the domain of the parts that are rendered (`Pat.vok`), `re.match` of the compiled regex
    on the rendered text consumes ALL of it and its named groups are exactly the rendered part texts. -/
theorem C02_accepted_in_full (p : Pat) (v : VInfo) (r : Re) (hwf : Pat.wf p FSet.endOnly = true)
    (hv : Pat.vok v p = true) (hr : Pat.compile p = some r) :
    reMatch r (Pat.render v p) =
      some { start := 0, stop := (Pat.render v p).length, caps := (Pat.caps v p).reverse } :=
  compose_match v p r hwf hv hr

/-- THE ROUND TRIP: the rendered text is read (`parse_version_info` after compilation: first match, full
    length, `parse_field_values_to_vinfo`) as a record `v'` that agrees with `v` on EVERY part of the
    pattern (`Pat.agree`: same part texts, omitted groups all-zero again), and rendering `v'` reproduces the
    text.  Hypotheses: the record is tag/pytag-coherent (`tagCoh`, an invariant of every record that was read
    or bumped: `parseVinfo_tagCoh`, `incrNumeric_tagCoh`; without it the statement is FALSE, see `tagCoh`)
    and its calendar fields read back (`CalReadsBack`; discharged for every record whose calendar is
    `cal_info(date)` by `C02_roundtrip_of_date`). -/
theorem C02_roundtrip_ast (p : Pat) (v : VInfo) (r : Re) (today : Nat × Nat × Nat)
    (hwf : Pat.wfTop p = true) (hv : Pat.vok v p = true) (htc : tagCoh v = true)
    (hc : CalReadsBack p v today) (hr : Pat.compile p = some r) :
    ∃ v', parseWithRe r (Pat.render v p) today = .ok v' ∧ Pat.agree v v' p = true ∧
      Pat.render v' p = Pat.render v p :=
  roundtrip_ast p v r today hwf hv htc hc hr

/-- the round trip for "every version state reachable by bumping": the calendar of a bumped record is
    `cal_info` of the bump date.  `calAnchored` excludes patterns whose only calendar parts are
    WW / UU / Q (for those `parse_field_values_to_cinfo` falls back to TODAY when the week is 0). -/
theorem C02_roundtrip_of_date (p : Pat) (v : VInfo) (r : Re) (today : Nat × Nat × Nat) (y m d : Nat)
    (hd : validDate y m d = true) (hcal : v.cal = (calInfo y m d).toOpt)
    (hwf : Pat.wfTop p = true) (hv : Pat.vok v p = true) (htc : tagCoh v = true)
    (ha : Pat.calAnchored p = true) (hr : Pat.compile p = some r) :
    ∃ v', parseWithRe r (Pat.render v p) today = .ok v' ∧ Pat.agree v v' p = true ∧
      Pat.render v' p = Pat.render v p :=
  roundtrip_ast p v r today hwf hv htc (calReadsBack_of_date p v today y m d hd hcal hwf hv ha) hr

/-- the coherence hypothesis is an invariant: every record that was READ satisfies it, and `_incr_numeric`
    preserves it — so "the version announced by one run is a legal current version for the next run" chains -/
theorem C02_tagCoh_invariant :
    (∀ (fv : FVals) (today : Nat × Nat × Nat) (v : VInfo), parseVinfo fv today = .ok v → tagCoh v = true) ∧
    (∀ (fs : List Str) (old cur : VInfo) (fl : IncrFlags) (new : VInfo), tagCoh cur = true →
      incrNumeric fs old cur fl = .ok new → tagCoh new = true) :=
  ⟨fun fv today v h => parseVinfo_tagCoh fv today v h,
   fun fs old cur fl new hc h => incrNumeric_tagCoh fs old cur new fl hc h⟩

/-- the README's example patterns -/
def readmePatterns : List String := [
  "MAJOR.MINOR.PATCH[PYTAGNUM]", "MAJOR.MINOR[.PATCH[PYTAGNUM]]", "YYYY.BUILD[PYTAGNUM]", "YYYY.BUILD[-TAG]",
  "YYYY.INC0[PYTAGNUM]", "YYYY0M.PATCH[-TAG]", "YYYY0M.BUILD[-TAG]", "YYYY.0M", "YYYY.MM", "YYYY.WW",
  "YYYY.MM.PATCH[PYTAGNUM]", "YYYY.0M.PATCH[PYTAGNUM]", "YYYY.MM.INC0", "YYYY.MM.DD", "YYYY.0M.0D", "YY.0M.0D",
  "vYYYY0M.BUILD[-TAG]", "vMAJOR.MINOR.PATCH[-TAGNUM]"]

set_option maxRecDepth 100000 in
/-- NON-VACUITY and scope: every README example pattern tokenises to a tree that satisfies the hypotheses
    of the round-trip theorems -/
theorem C02_readme_patterns_wf :
    readmePatterns.all (fun s => match tokenize s.toList with
      | some p => p.wfTop && p.calAnchored
      | none => false) = true := by
  decide +kernel

set_option maxRecDepth 100000 in
/-- THE TIE between the tree and the string pipeline (the faithful model of the code) for the README's
    patterns: the tree compiles to EXACTLY the regex `_compile_pattern_re`'s string surgery produces
    (kernel-evaluated; for every other generated pattern the driver op `ast_tie` checks this, and the
    equality of the two renderers, on every run) -/
theorem C02_readme_tree_tie :
    readmePatterns.all (fun s => match tokenize s.toList with
      | some p => (match p.compile, compileRe s.toList with
        | some a, some b => Re.beq a b
        | _, _ => false)
      | none => false) = true := by
  decide +kernel

/-- a concrete record in the domain: v2024.0013-beta under `vYYYY.BUILD[-TAG]` (hypotheses satisfiable) -/
example :
    let v : VInfo := { cal := (calInfo 2024 3 9).toOpt, major := 0, minor := 0, patch := 0, bid := "0013".toList,
                       tag := "beta".toList, pytag := "b".toList, num := 0, inc0 := 0, inc1 := 1 }
    (match tokenize "vYYYY.BUILD[-TAG]".toList with
     | some p => p.wfTop && p.vok v && p.calAnchored && tagCoh v && (p.render v == "v2024.0013-beta".toList)
     | none => false) = true := by
  decide +kernel

end BV
