/-
  Props/Update.lean — end-to-end theorems about the COMPOSED model of `bumpver update`
  (Model/Update.lean): the clauses of C01, C06, C10 and C13 that speak about the whole command
  ("in every other case it exits non-zero and no project file is changed", "every project file
  keeps exactly its prior bytes; nothing is committed, tagged or pushed", "--dry changes nothing")
  hold of the composition of the version decision, the dirty check, the rewrite phase and the
  VCS plan — for every configuration, command line, tag listing, status listing, file system and
  failure position.  The theorems about the pieces (Props/C01, C06, C10, C13) are used as lemmas.
-/
import BumpverVerif.Model.Update
import BumpverVerif.Props.C01
import BumpverVerif.Props.C06
import BumpverVerif.Props.C10
import BumpverVerif.Props.C13
namespace BV

/-- unfolding of `updateFull` when the argument validation passes -/
theorem updateFull_valid (u : UpdIn) (hv : (!validReleaseTag u.fl.tag || (u.dateGiven && u.fl.pinDate)) = false) :
    updateFull u =
      ((if (plan u.c0 u.a u.env).1.contains .rewrite then
          match u.decide.newV with
          | some v => (rewriteFiles u.fs u.filePatterns v).1
          | none => u.fs
        else u.fs), (plan u.c0 u.a u.env).1, (plan u.c0 u.a u.env).2) := by
  unfold updateFull
  rw [hv]
  rfl

theorem updateFull_invalid (u : UpdIn) (hv : (!validReleaseTag u.fl.tag || (u.dateGiven && u.fl.pinDate)) = true) :
    updateFull u = (u.fs, [], 1) := by
  unfold updateFull
  rw [hv]
  rfl

/-- the events of the command are those of the plan for the derived environment (or none) -/
theorem updateFull_events (u : UpdIn) :
    (updateFull u).2.1 = [] ∨ (updateFull u).2.1 = (plan u.c0 u.a u.env).1 := by
  cases hv : (!validReleaseTag u.fl.tag || (u.dateGiven && u.fl.pinDate))
  · right; rw [updateFull_valid u hv]
  · left; rw [updateFull_invalid u hv]

/-- FILES CHANGE ONLY THROUGH THE REWRITE STEP: if the trace has no `rewrite` event, every file is as before -/
theorem Update_untouched_without_rewrite (u : UpdIn) (h : Ev.rewrite ∉ (updateFull u).2.1) :
    (updateFull u).1 = u.fs := by
  cases hv : (!validReleaseTag u.fl.tag || (u.dateGiven && u.fl.pinDate))
  · rw [updateFull_valid u hv] at h ⊢
    simp only at h ⊢
    have : (plan u.c0 u.a u.env).1.contains Ev.rewrite = false := by
      cases hc : (plan u.c0 u.a u.env).1.contains Ev.rewrite
      · rfl
      · exact absurd (List.contains_iff_mem.mp hc) h
    rw [this]
    rfl
  · rw [updateFull_invalid u hv]

/-- what has to be true for the rewrite step to be reached at all -/
theorem Update_rewrite_needs (u : UpdIn) (h : Ev.rewrite ∈ (updateFull u).2.1) :
    u.a.dry = false ∧ u.decide.gateOk = true ∧ u.rewriteOk u.decide = true ∧
    (!validReleaseTag u.fl.tag || (u.dateGiven && u.fl.pinDate)) = false := by
  cases hv : (!validReleaseTag u.fl.tag || (u.dateGiven && u.fl.pinDate))
  · rw [updateFull_valid u hv] at h
    simp only at h
    refine ⟨?_, ?_, ?_, rfl⟩
    · cases hd : u.a.dry
      · rfl
      · exact absurd rfl ((C10_dry u.c0 u.a u.env hd _ h).2.2)
    · cases hg : u.decide.gateOk
      · have : u.env.gateOk = false := hg
        exact absurd rfl ((C01_rejected_no_rewrite u.c0 u.a u.env this).2 _ h).1
      · rfl
    · cases hr : u.rewriteOk u.decide
      · have : u.env.rewriteOk = false := hr
        exact absurd rfl ((C06_no_vcs_after_failure u.c0 u.a u.env this).2 _ h).1
      · rfl
  · rw [updateFull_invalid u hv] at h
    cases h

/-- C01 (last clause) / C06: when no acceptable new version exists, or the rewrite phase cannot complete
    (a configured file is missing, a pattern has no match), the command exits non-zero, EVERY FILE KEEPS ITS
    CONTENT, no hook runs and nothing is committed, tagged or pushed -/
theorem Update_failed_leaves_untouched (u : UpdIn)
    (h : u.decide.gateOk = false ∨ u.rewriteOk u.decide = false) :
    (updateFull u).2.2 = 1 ∧ (updateFull u).1 = u.fs ∧
    ∀ ev ∈ (updateFull u).2.1, ev ≠ .rewrite ∧ ev.mutating = false ∧ ev.isHook = false := by
  cases hv : (!validReleaseTag u.fl.tag || (u.dateGiven && u.fl.pinDate))
  · have key : (plan u.c0 u.a u.env).2 = 1 ∧
        ∀ ev ∈ (plan u.c0 u.a u.env).1, ev ≠ .rewrite ∧ ev.mutating = false ∧ ev.isHook = false := by
      rcases h with hg | hr
      · exact C01_rejected_no_rewrite u.c0 u.a u.env hg
      · exact C06_no_vcs_after_failure u.c0 u.a u.env hr
    have hno : Ev.rewrite ∉ (updateFull u).2.1 := by
      rw [updateFull_valid u hv]
      intro hm
      exact (key.2 _ hm).1 rfl
    refine ⟨?_, Update_untouched_without_rewrite u hno, ?_⟩
    · rw [updateFull_valid u hv]; exact key.1
    · rw [updateFull_valid u hv]; exact key.2
  · rw [updateFull_invalid u hv]
    exact ⟨rfl, rfl, fun ev hev => by cases hev⟩

/-- C13: `--dry` leaves every file as it is, runs no hook and issues no mutating VCS command -/
theorem Update_dry_pure (u : UpdIn) (hd : u.a.dry = true) :
    (updateFull u).1 = u.fs ∧
    ∀ ev ∈ (updateFull u).2.1, ev ≠ .rewrite ∧ ev.mutating = false ∧ ev.isHook = false := by
  have hall : ∀ ev ∈ (updateFull u).2.1, ev ≠ .rewrite ∧ ev.mutating = false ∧ ev.isHook = false := by
    intro ev hev
    rcases updateFull_events u with h0 | h1
    · rw [h0] at hev; cases hev
    · rw [h1] at hev; exact C13_dry_pure u.c0 u.a u.env hd ev hev
  exact ⟨Update_untouched_without_rewrite u (fun hm => (hall _ hm).1 rfl), hall⟩

/-- C01: whenever files are written, the version written is a candidate that matches the pattern IN FULL
    and is STRICTLY GREATER (PEP 440) than the version the update started from (config value or newest tag
    in scope) -/
theorem Update_written_version_sound (u : UpdIn) (h : Ev.rewrite ∈ (updateFull u).2.1) :
    ∃ new, u.decide.new = some new ∧ FullMatch u.pat new ∧ pepLt u.decide.start new = true := by
  obtain ⟨-, hg, -, -⟩ := Update_rewrite_needs u h
  unfold UpdIn.decide at hg ⊢
  cases hc : u.cand with
  | none => rw [hc] at hg; cases hg
  | some new =>
    rw [hc] at hg
    refine ⟨new, rfl, ?_⟩
    simp only [decideCand] at hg ⊢
    split at hg
    · rename_i hacc
      exact C01_gate_sound _ _ _ _ _ _ hacc
    · cases hg

/-- C03/C06: when files are written, EVERY configured file existed, every one of its patterns matched, and the
    files afterwards are the validated new contents (nothing else is written) -/
theorem Update_writes_all (u : UpdIn) (h : Ev.rewrite ∈ (updateFull u).2.1) :
    ∃ v, u.decide.newV = some v ∧ (rewriteFiles u.fs u.filePatterns v).2 = .ok () ∧
      (updateFull u).1 = (rewriteFiles u.fs u.filePatterns v).1 ∧
      ∀ fp ∈ u.filePatterns, ∃ c, lookup fp.1 u.fs = some c ∧ ∃ c', rewriteContent fp.2 v c = .ok c' := by
  obtain ⟨hdry, -, hr, hv⟩ := Update_rewrite_needs u h
  unfold UpdIn.rewriteOk at hr
  split at hr
  · cases hr
  · rename_i v hnv
    rw [hdry] at hr
    simp only [Bool.false_eq_true, if_false] at hr
    have hok : (rewriteFiles u.fs u.filePatterns v).2 = .ok () := by
      unfold rewriteFiles
      split at hr
      · rename_i ws hws; rw [hws]
      · cases hr
    refine ⟨v, hnv, hok, ?_, C06_success_writes _ _ _ hok⟩
    rw [updateFull_valid u hv] at h ⊢
    simp only at h ⊢
    rw [List.contains_iff_mem.mpr h, hnv]
    rfl

/-- C10 on the composite: hooks see the version the update STARTED from and the version it writes -/
theorem Update_hook_env (u : UpdIn) (ev : Ev) (h : ev ∈ (updateFull u).2.1) :
    (∀ o n, ev = .preHook o n → o = u.decide.start ∧ n = u.decide.new.getD []) ∧
    (∀ o n, ev = .postHook o n → o = u.decide.start ∧ n = u.decide.new.getD []) := by
  rcases updateFull_events u with h0 | h1
  · rw [h0] at h; cases h
  · rw [h1] at h; exact C10_hook_env u.c0 u.a u.env ev h

/-- a dirty tree blocks the run before anything is written (C11 through the composite) -/
theorem Update_dirty_blocks (u : UpdIn) (hd : u.dirtyAbort = true)
    (hs : Ev.cmd "status" ∈ (updateFull u).2.1) :
    (updateFull u).2.2 = 1 ∧ (updateFull u).1 = u.fs := by
  cases hv : (!validReleaseTag u.fl.tag || (u.dateGiven && u.fl.pinDate))
  · rw [updateFull_valid u hv] at hs
    have hde : u.env.dirtyAbort = true := hd
    obtain ⟨hcode, hall⟩ := C10_dirty_blocks u.c0 u.a u.env hde hs
    refine ⟨by rw [updateFull_valid u hv]; exact hcode, Update_untouched_without_rewrite u ?_⟩
    rw [updateFull_valid u hv]
    intro hm
    exact (hall _ hm).1 rfl
  · rw [updateFull_invalid u hv] at hs
    cases hs

end BV
