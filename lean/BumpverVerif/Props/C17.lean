/-
  Props/C17.lean — property C17: BUILD numbers grow numerically and lexically forever.

  "Across any number of successive bumps from any starting BUILD value, each new
   BUILD is greater than the previous one as an integer and - from the first
   bumpver-generated value on, or at once if the start has four or more digits -
   also as a plain string; leading zeros are never lost. This holds up to the
   scheme's documented maximum (all digits 9)."

  Model: `BV.bumpBid` (Model/LexId.lean) = the BUILD step of `_incr_numeric`
  (`int(bid) < 1000 → str(int(bid)+1000)`, then `lexid.next_id`).
  Only property theorems live here; helper lemmas are in Proofs/Digits.lean.
-/
import BumpverVerif.Model.LexId
import BumpverVerif.Model.V2Version
import BumpverVerif.Proofs.Digits
namespace BV

/-- `n` successive bumps; `none` as soon as the documented maximum is hit. -/
def bumpN : Nat → Str → Option Str
  | 0, b => some b
  | n + 1, b => (bumpBid b).bind (bumpN n)

/-- a bumpver-generated value -/
def Generated (b : Str) : Prop := ∃ c, isDigitStr c = true ∧ bumpBid c = some b

/-- the result of a bump is again a BUILD value (so chains are well-defined) -/
theorem C17_closed (b b' : Str) (hb : isDigitStr b = true) (h : bumpBid b = some b') :
    isDigitStr b' = true := by
  unfold bumpBid at h
  exact (nextId_spec _ _ (isDigitStr_padBid b hb) h).1

/-- each new BUILD is greater as an integer -/
theorem C17_int_strict (b b' : Str) (hb : isDigitStr b = true) (h : bumpBid b = some b') :
    strToNat b < strToNat b' := by
  unfold bumpBid at h
  have hp := strToNat_padBid_ge b
  rcases (nextId_spec _ _ (isDigitStr_padBid b hb) h).2 with ⟨_, _, hv⟩ | ⟨d, _, _, _, _, hv⟩
  · omega
  · omega

/-- … and as a plain string, at once if the start has ≥ 4 digits, or from the first generated value on -/
theorem C17_lex_strict (b b' : Str) (hb : isDigitStr b = true)
    (hlen : 4 ≤ b.length ∨ Generated b) (h : bumpBid b = some b') :
    strLt b b' = true := by
  have hcase : 1000 ≤ strToNat b ∨ (strToNat b < 1000 ∧ 4 ≤ b.length) := by
    rcases hlen with hl | ⟨c, hc, hcb⟩
    · omega
    · left
      unfold bumpBid at hcb
      have hp := (strToNat_padBid_ge c).2
      rcases (nextId_spec _ _ (isDigitStr_padBid c hc) hcb).2 with
        ⟨_, _, hv⟩ | ⟨d, _, _, _, _, hv⟩
      · omega
      · omega
  have hbd := (isDigitStr_iff b).mp hb
  unfold bumpBid at h
  obtain ⟨hb'd, hspec⟩ := nextId_spec _ _ (isDigitStr_padBid b hb) h
  have hb'd := (isDigitStr_iff b').mp hb'd
  rcases hcase with hge | ⟨hlt, hl4⟩
  · rw [padBid_of_ge b hge] at hspec
    rcases hspec with ⟨_, hlen', hv⟩ | ⟨d, hd, hph, hb'h, _, _⟩
    · exact (strLt_iff_of_length_eq b b' hbd.2 hb'd.2 hlen'.symm).mpr (by omega)
    · cases b with
      | nil => cases hph
      | cons c t =>
        cases b' with
        | nil => cases hb'h
        | cons x xs =>
          simp only [List.head?_cons, Option.some.injEq] at hph hb'h
          subst hph hb'h
          exact strLt_of_head_lt _ _ _ _ (digitChar_lt d (d + 1) (by omega) (by omega))
  · obtain ⟨t, hpt, _⟩ := padBid_lt_shape b hlt
    rw [hpt] at hspec
    cases b with
    | nil => simp at hl4
    | cons c u =>
      rw [allDigits_cons] at hbd
      simp only [List.length_cons] at hl4
      have hc0 := head_zero_of_lt_1000 c u hbd.2.1 (by omega) hlt
      subst hc0
      cases b' with
      | nil => exact absurd rfl hb'd.1
      | cons x xs =>
        rcases hspec with ⟨hhead, _, _⟩ | ⟨d, hd, _, hb'h, _, _⟩
        · simp only [List.head?_cons, Option.some.injEq] at hhead
          subst hhead
          exact strLt_of_head_lt _ _ _ _ (by decide)
        · simp only [List.head?_cons, Option.some.injEq] at hb'h
          subst hb'h
          exact strLt_of_head_lt _ _ _ _ (digitChar_lt 0 (d + 1) (by omega) (by omega))

/-- at or above 1000 the width never shrinks, and while the leading digit is unchanged it
    stays the same: leading zeros are kept (BUILD is carried as a string, never through `int`) -/
theorem C17_width (b b' : Str) (hb : isDigitStr b = true) (h1000 : 1000 ≤ strToNat b)
    (h : bumpBid b = some b') :
    b.length ≤ b'.length ∧ (b.head? = b'.head? → b'.length = b.length) := by
  unfold bumpBid at h
  rw [padBid_of_ge b h1000] at h
  rcases (nextId_spec b b' hb h).2 with ⟨_, hl, _⟩ | ⟨d, hd, hph, hb'h, hl, _⟩
  · exact ⟨by omega, fun _ => hl⟩
  · refine ⟨by omega, fun hh => ?_⟩
    rw [hph, hb'h] at hh
    have hlt := digitChar_lt d (d + 1) (by omega) (by omega)
    rw [Option.some.inj hh] at hlt
    exact absurd hlt (Char.lt_irrefl _)

/-- Known finding F-C17-pad: below 1000 the padding rule goes through `int`, so an id of five or
    more digits whose value is below 1000 loses its leading zeros (the result is still greater
    as an integer and as a string). Witness, replayed on the implementation by the check. -/
theorem C17_pad_drops_zeros_witness : bumpBid "00012".toList = some "1013".toList := by decide

/-- the only way a bump fails is the documented maximum: all digits 9 (after padding) -/
theorem C17_max_only (b : Str) (hb : isDigitStr b = true) :
    bumpBid b = none ↔ (padBid b).all (· == '9') = true := by
  -- holds for every string; `hb` is not needed
  have _ := hb
  unfold bumpBid
  exact nextId_none_iff _

/-- chains of any length: strictly increasing as integers … -/
theorem C17_chain_int (n : Nat) (b bn : Str) (hb : isDigitStr b = true) (hn : 0 < n)
    (h : bumpN n b = some bn) : strToNat b < strToNat bn := by
  induction n generalizing b with
  | zero => omega
  | succ n ih =>
    simp only [bumpN] at h
    cases hb1 : bumpBid b with
    | none => rw [hb1] at h; cases h
    | some b1 =>
      rw [hb1] at h
      simp only [Option.bind_some] at h
      have h1 := C17_int_strict b b1 hb hb1
      cases n with
      | zero =>
        simp only [bumpN, Option.some.injEq] at h
        subst h; exact h1
      | succ m =>
        have := ih b1 (C17_closed b b1 hb hb1) (by omega) h
        omega

/-- … and as plain strings between any two later points of the chain -/
theorem C17_chain_lex (i j : Nat) (b x y : Str) (hb : isDigitStr b = true)
    (hi : 0 < i ∨ 4 ≤ b.length) (hj : 0 < j)
    (hx : bumpN i b = some x) (hy : bumpN j x = some y) : strLt x y = true := by
  -- every point of a chain is a BUILD value, and a generated one after the first step
  have hgen : ∀ (i : Nat) (b x : Str), isDigitStr b = true → bumpN i b = some x →
      isDigitStr x = true ∧ (0 < i → Generated x) := by
    intro i
    induction i with
    | zero =>
      intro b x hb hx
      simp only [bumpN, Option.some.injEq] at hx
      subst hx
      exact ⟨hb, fun h => absurd h (by omega)⟩
    | succ i ih =>
      intro b x hb hx
      simp only [bumpN] at hx
      cases hb1 : bumpBid b with
      | none => rw [hb1] at hx; cases hx
      | some b1 =>
        rw [hb1] at hx
        simp only [Option.bind_some] at hx
        have hb1d := C17_closed b b1 hb hb1
        obtain ⟨hxd, hxg⟩ := ih b1 x hb1d hx
        refine ⟨hxd, fun _ => ?_⟩
        cases i with
        | zero =>
          simp only [bumpN, Option.some.injEq] at hx
          subst hx
          exact ⟨b, hb, hb1⟩
        | succ k => exact hxg (by omega)
  -- a chain of one or more steps from a good start is increasing as strings
  have hlex : ∀ (j : Nat) (x y : Str), isDigitStr x = true → (4 ≤ x.length ∨ Generated x) →
      0 < j → bumpN j x = some y → strLt x y = true := by
    intro j
    induction j with
    | zero => intro x y _ _ hj; omega
    | succ j ih =>
      intro x y hxd hxg _ hy
      simp only [bumpN] at hy
      cases hx1 : bumpBid x with
      | none => rw [hx1] at hy; cases hy
      | some x1 =>
        rw [hx1] at hy
        simp only [Option.bind_some] at hy
        have h1 := C17_lex_strict x x1 hxd hxg hx1
        cases j with
        | zero =>
          simp only [bumpN, Option.some.injEq] at hy
          subst hy; exact h1
        | succ k =>
          have h2 := ih x1 y (C17_closed x x1 hxd hx1) (Or.inr ⟨x, hxd, hx1⟩) (by omega) hy
          exact strLt_trans x x1 y h1 h2
  obtain ⟨hxd, hxg⟩ := hgen i b x hb hx
  refine hlex j x y hxd ?_ hj hy
  rcases hi with hi | hi
  · exact Or.inr (hxg hi)
  · cases i with
    | zero =>
      simp only [bumpN, Option.some.injEq] at hx
      subst hx; exact Or.inl hi
    | succ k => exact Or.inr (hxg (by omega))

/-- BUILD is carried and rendered as a STRING: the regenerated renderer table formats the BUILD
    part with `str(v)` (not through `int`), so every BUILD value — leading zeros included — is
    rendered verbatim; only BLD strips zeros.  (A table edit that routes BUILD through `int`
    breaks this obligation.) -/
theorem C17_render_verbatim (b : Str) :
    lookup "BUILD".toList Gen.partFormats = some .str ∧ fmtValue .str (.str b) = b ∧
    lookup "BUILD".toList Gen.partFields = some "bid".toList := by
  refine ⟨by decide, rfl, by decide⟩

/-! non-vacuity: concrete instances meeting the hypotheses, incl. a 999→11000-style jump -/
example : bumpBid "0999".toList = some "22000".toList := by decide
example : bumpBid "7".toList = some "1008".toList := by decide
example : bumpBid "19999".toList = some "220000".toList := by decide
example : bumpN 3 "0998".toList = some "22001".toList := by decide
example : bumpBid "9999".toList = none := by decide

end BV
