/-
  Props/UpdateV1.lean — the end-to-end theorems of Props/Update.lean for the composed model of
  `bumpver update` with a LEGACY (`{…}`) configuration (Model/UpdateV1.lean): the whole-command clauses of
  C01, C06, C10, C11 and C13 hold of the composition of the LEGACY version decision (`v1StartVersion`,
  `dispatchIncr` / `legacyNormalizeSetVersion`, `v1Gate`, `v1ParseVersionTags`), the dirty check, the LEGACY
  rewrite phase (`v1PlanWrites` / `v1RewriteFiles`, `--dry`: `v1DiffAll`) and the VCS plan — for every
  configuration, command line, tag listing, status listing, file system and failure position.  The
  plan-level theorems (Props/C01, C06, C10, C13) are engine independent and used as they are; the legacy
  pieces come from Props/C20 (`C20_gate_greater`) and Props/V1Rewrite (`V1_C06_*`, `V1_C13_*`).
-/
import BumpverVerif.Model.UpdateV1
import BumpverVerif.Props.C01
import BumpverVerif.Props.C06
import BumpverVerif.Props.C10
import BumpverVerif.Props.C13
import BumpverVerif.Props.C20
import BumpverVerif.Props.V1Rewrite
namespace BV

/-- unfolding of `updateFullV1` when the argument validation passes -/
theorem updateFullV1_valid (u : UpdInV1) (hv : (!validReleaseTag u.fl.tag || (u.dateGiven && u.fl.pinDate)) = false) :
    updateFullV1 u =
      ((if (plan u.c0 u.a u.env).1.contains .rewrite then
          match u.decide.newV with
          | some v => (v1RewriteFiles u.fs u.cpats v).1
          | none => u.fs
        else u.fs), (plan u.c0 u.a u.env).1, (plan u.c0 u.a u.env).2) := by
  unfold updateFullV1
  rw [hv]
  rfl

theorem updateFullV1_invalid (u : UpdInV1) (hv : (!validReleaseTag u.fl.tag || (u.dateGiven && u.fl.pinDate)) = true) :
    updateFullV1 u = (u.fs, [], 1) := by
  unfold updateFullV1
  rw [hv]
  rfl

/-- the events of the command are those of the plan for the derived environment (or none) -/
theorem updateFullV1_events (u : UpdInV1) :
    (updateFullV1 u).2.1 = [] ∨ (updateFullV1 u).2.1 = (plan u.c0 u.a u.env).1 := by
  cases hv : (!validReleaseTag u.fl.tag || (u.dateGiven && u.fl.pinDate))
  · right; rw [updateFullV1_valid u hv]
  · left; rw [updateFullV1_invalid u hv]

/-- FILES CHANGE ONLY THROUGH THE REWRITE STEP: if the trace has no `rewrite` event, every file is as before -/
theorem UpdateV1_untouched_without_rewrite (u : UpdInV1) (h : Ev.rewrite ∉ (updateFullV1 u).2.1) :
    (updateFullV1 u).1 = u.fs := by
  cases hv : (!validReleaseTag u.fl.tag || (u.dateGiven && u.fl.pinDate))
  · rw [updateFullV1_valid u hv] at h ⊢
    simp only at h ⊢
    have : (plan u.c0 u.a u.env).1.contains Ev.rewrite = false := by
      cases hc : (plan u.c0 u.a u.env).1.contains Ev.rewrite
      · rfl
      · exact absurd (List.contains_iff_mem.mp hc) h
    rw [this]
    rfl
  · rw [updateFullV1_invalid u hv]

/-- what has to be true for the rewrite step to be reached at all -/
theorem UpdateV1_rewrite_needs (u : UpdInV1) (h : Ev.rewrite ∈ (updateFullV1 u).2.1) :
    u.a.dry = false ∧ u.decide.gateOk = true ∧ u.rewriteOk u.decide = true ∧
    (!validReleaseTag u.fl.tag || (u.dateGiven && u.fl.pinDate)) = false := by
  cases hv : (!validReleaseTag u.fl.tag || (u.dateGiven && u.fl.pinDate))
  · rw [updateFullV1_valid u hv] at h
    simp only at h
    refine ⟨?_, ?_, ?_, rfl⟩
    · cases hd : u.a.dry
      · rfl
      · exact absurd rfl ((C10_dry u.c0 u.a u.env hd _ h).2.2)
    · cases hg : u.decide.gateOk
      · have : u.env.gateOk = false := hg
        exact absurd rfl ((C01_rejected_no_rewrite u.c0 u.a u.env this).2 _ h).1
      · rfl
    · cases hr : u.rewriteOk u.decide
      · have : u.env.rewriteOk = false := hr
        exact absurd rfl ((C06_no_vcs_after_failure u.c0 u.a u.env this).2 _ h).1
      · rfl
  · rw [updateFullV1_invalid u hv] at h
    cases h

/-- C01 (last clause) / C06, legacy configuration: when no acceptable new version exists, or the rewrite
    phase cannot complete (a configured file is missing, a pattern has no match, `format_version` raises), the
    command exits non-zero, EVERY FILE KEEPS ITS CONTENT, no hook runs and nothing is committed, tagged or pushed -/
theorem UpdateV1_failed_leaves_untouched (u : UpdInV1)
    (h : u.decide.gateOk = false ∨ u.rewriteOk u.decide = false) :
    (updateFullV1 u).2.2 = 1 ∧ (updateFullV1 u).1 = u.fs ∧
    ∀ ev ∈ (updateFullV1 u).2.1, ev ≠ .rewrite ∧ ev.mutating = false ∧ ev.isHook = false := by
  cases hv : (!validReleaseTag u.fl.tag || (u.dateGiven && u.fl.pinDate))
  · have key : (plan u.c0 u.a u.env).2 = 1 ∧
        ∀ ev ∈ (plan u.c0 u.a u.env).1, ev ≠ .rewrite ∧ ev.mutating = false ∧ ev.isHook = false := by
      rcases h with hg | hr
      · exact C01_rejected_no_rewrite u.c0 u.a u.env hg
      · exact C06_no_vcs_after_failure u.c0 u.a u.env hr
    have hno : Ev.rewrite ∉ (updateFullV1 u).2.1 := by
      rw [updateFullV1_valid u hv]
      intro hm
      exact (key.2 _ hm).1 rfl
    refine ⟨?_, UpdateV1_untouched_without_rewrite u hno, ?_⟩
    · rw [updateFullV1_valid u hv]; exact key.1
    · rw [updateFullV1_valid u hv]; exact key.2
  · rw [updateFullV1_invalid u hv]
    exact ⟨rfl, rfl, fun ev hev => by cases hev⟩

/-- C13, legacy configuration: `--dry` leaves every file as it is, runs no hook and issues no mutating VCS command -/
theorem UpdateV1_dry_pure (u : UpdInV1) (hd : u.a.dry = true) :
    (updateFullV1 u).1 = u.fs ∧
    ∀ ev ∈ (updateFullV1 u).2.1, ev ≠ .rewrite ∧ ev.mutating = false ∧ ev.isHook = false := by
  have hall : ∀ ev ∈ (updateFullV1 u).2.1, ev ≠ .rewrite ∧ ev.mutating = false ∧ ev.isHook = false := by
    intro ev hev
    rcases updateFullV1_events u with h0 | h1
    · rw [h0] at hev; cases hev
    · rw [h1] at hev; exact C13_dry_pure u.c0 u.a u.env hd ev hev
  exact ⟨UpdateV1_untouched_without_rewrite u (fun hm => (hall _ hm).1 rfl), hall⟩

/-- C01 / C20, legacy configuration: whenever files are written, the version written is a candidate that the
    LEGACY pattern reads IN FULL (`v1version.parse_version_info` succeeds: `v1ParseVersionInfo` demands that the
    match consumes the whole text) and that is STRICTLY GREATER (PEP 440) than the version the update started
    from (config value or newest tag in scope) -/
theorem UpdateV1_written_version_sound (u : UpdInV1) (h : Ev.rewrite ∈ (updateFullV1 u).2.1) :
    ∃ new, u.decide.new = some new ∧ (∃ v, v1ParseVersionInfo new u.pat = .ok v) ∧
      pepLt u.decide.start new = true := by
  obtain ⟨-, hg, -, -⟩ := UpdateV1_rewrite_needs u h
  unfold UpdInV1.decide at hg ⊢
  cases hc : u.cand with
  | none => rw [hc] at hg; cases hg
  | some new =>
    rw [hc] at hg
    refine ⟨new, rfl, ?_⟩
    simp only [decideCandV1] at hg ⊢
    split at hg
    · rename_i hacc
      exact C20_gate_greater _ _ _ _ _ hacc
    · cases hg

/-- the record that is written is the candidate read back through the legacy pattern -/
theorem UpdateV1_newV_readback (u : UpdInV1) (v : V1Info) (h : u.decide.newV = some v) :
    ∃ new, u.decide.new = some new ∧ v1ParseVersionInfo new u.pat = .ok v := by
  unfold UpdInV1.decide at h ⊢
  cases hc : u.cand with
  | none => rw [hc] at h; cases h
  | some new =>
    rw [hc] at h
    refine ⟨new, rfl, ?_⟩
    simp only [decideCandV1] at h
    split at h
    · rename_i v' hp
      cases h
      exact hp
    · cases h

/-- C03/C06, legacy configuration: when files are written, EVERY configured file existed, every one of its
    (legacy-compiled) patterns matched, and the files afterwards are the validated new contents of
    `v1rewrite.rewrite_files` (nothing else is written) -/
theorem UpdateV1_writes_all (u : UpdInV1) (h : Ev.rewrite ∈ (updateFullV1 u).2.1) :
    ∃ v, u.decide.newV = some v ∧ (v1RewriteFiles u.fs u.cpats v).2 = .ok () ∧
      (updateFullV1 u).1 = (v1RewriteFiles u.fs u.cpats v).1 ∧
      ∀ fp ∈ u.cpats, ∃ c, lookup fp.1 u.fs = some c ∧ ∃ c', v1RewriteContent fp.2 v c = .ok c' := by
  obtain ⟨hdry, -, hr, hv⟩ := UpdateV1_rewrite_needs u h
  unfold UpdInV1.rewriteOk at hr
  split at hr
  · cases hr
  · rename_i v hnv
    rw [hdry] at hr
    simp only [Bool.false_eq_true, if_false] at hr
    have hok : (v1RewriteFiles u.fs u.cpats v).2 = .ok () := by
      unfold v1RewriteFiles RwEngine.rewriteFiles
      unfold v1PlanWrites at hr
      split at hr
      · rename_i ws hws; rw [hws]
      · cases hr
    refine ⟨v, hnv, hok, ?_, V1_C06_success_writes _ _ _ hok⟩
    rw [updateFullV1_valid u hv] at h ⊢
    simp only at h ⊢
    rw [List.contains_iff_mem.mpr h, hnv]
    rfl

/-- C06 on the composite, stated on the files: files that are not configured keep their content whatever
    happens (`V1_C04_other_files`) -/
theorem UpdateV1_other_files (u : UpdInV1) (p : Str) (hp : p ∉ u.paths) :
    lookup p (updateFullV1 u).1 = lookup p u.fs := by
  by_cases h : Ev.rewrite ∈ (updateFullV1 u).2.1
  · obtain ⟨v, -, -, hfs, -⟩ := UpdateV1_writes_all u h
    rw [hfs]
    apply V1_C04_other_files
    intro fp hfp hpe
    apply hp
    unfold UpdInV1.cpats at hfp
    obtain ⟨fp0, hfp0, rfl⟩ := List.mem_map.1 hfp
    exact hpe ▸ List.mem_map.2 ⟨fp0, hfp0, rfl⟩
  · rw [UpdateV1_untouched_without_rewrite u h]

/-- C10 on the composite: hooks see the version the update STARTED from and the version it writes -/
theorem UpdateV1_hook_env (u : UpdInV1) (ev : Ev) (h : ev ∈ (updateFullV1 u).2.1) :
    (∀ o n, ev = .preHook o n → o = u.decide.start ∧ n = u.decide.new.getD []) ∧
    (∀ o n, ev = .postHook o n → o = u.decide.start ∧ n = u.decide.new.getD []) := by
  rcases updateFullV1_events u with h0 | h1
  · rw [h0] at h; cases h
  · rw [h1] at h; exact C10_hook_env u.c0 u.a u.env ev h

/-- a dirty tree blocks the run before anything is written (C11 through the composite) -/
theorem UpdateV1_dirty_blocks (u : UpdInV1) (hd : u.dirtyAbort = true)
    (hs : Ev.cmd "status" ∈ (updateFullV1 u).2.1) :
    (updateFullV1 u).2.2 = 1 ∧ (updateFullV1 u).1 = u.fs := by
  cases hv : (!validReleaseTag u.fl.tag || (u.dateGiven && u.fl.pinDate))
  · rw [updateFullV1_valid u hv] at hs
    have hde : u.env.dirtyAbort = true := hd
    obtain ⟨hcode, hall⟩ := C10_dirty_blocks u.c0 u.a u.env hde hs
    refine ⟨by rw [updateFullV1_valid u hv]; exact hcode, UpdateV1_untouched_without_rewrite u ?_⟩
    rw [updateFullV1_valid u hv]
    intro hm
    exact (hall _ hm).1 rfl
  · rw [updateFullV1_invalid u hv] at hs
    cases hs

/-- C13 on the composite: if the `--dry` criterion (`v1rewrite.diff` reports no error) holds for a decision,
    the criterion of the real run (`list(iter_rewritten(…))` completes) holds for it too: a clean dry run
    predicts a rewrite phase that succeeds (`V1_C13_dry_ok_real_ok_sorted`) -/
theorem UpdateV1_dry_ok_real_ok (u u' : UpdInV1) (d : UpdDecisionV1)
    (hsame : u'.fs = u.fs ∧ u'.filePatterns = u.filePatterns ∧ u'.pat = u.pat)
    (hd : u.a.dry = true) (hd' : u'.a.dry = false) (h : u.rewriteOk d = true) : u'.rewriteOk d = true := by
  obtain ⟨hfs, hfp, hpat⟩ := hsame
  have hcp : u'.cpats = u.cpats := by unfold UpdInV1.cpats; rw [hfp]
  unfold UpdInV1.rewriteOk at h ⊢
  split at h
  · cases h
  · rename_i v hnv
    rw [hd] at h
    rw [hd', hfs, hcp]
    simp only [if_true] at h
    simp only [Bool.false_eq_true, if_false]
    split at h
    · cases h
    · rename_i ov _
      split at h
      · rename_i rs hrs
        have := V1_C13_dry_ok_real_ok_sorted _ _ _ _ rs hrs
        unfold v1RewriteFiles RwEngine.rewriteFiles at this
        unfold v1PlanWrites
        split at this
        · cases this
        · rename_i ws hws
          rw [hws]
      · cases h

/-! ### non-vacuity: a concrete legacy project (`{semver}`), kernel-evaluated (a few seconds each) -/

/-- `version_pattern = "{semver}"`, `current_version = "1.2.3"`, commit + tag + a pre-commit hook, tags `1.3.0` and `junk`
    listed, one configured file with two legacy patterns on one line (CRLF, no final newline), one file that is not configured -/
def updV1Witness : UpdInV1 :=
  { c0 := { commit := true, tag := true, push := false, preHook := true, postHook := false, scopeBranch := false, tagMsgEmpty := false },
    a := { commit := none, tagCommit := none, push := none, preHook := false, postHook := false, scopeBranch := none,
           dry := false, fetch := false, ignoreVcsTag := false, setVersion := false },
    scope0 := .default, cliScope := none, kind := .git, vcsPresent := true, failAt := none,
    branchRemote := false, urlRemote := false, preOk := true, postOk := true,
    pat := "{semver}".toList, cfgVersion := "1.2.3".toList,
    fl := { patch := true },
    dateGiven := false, date := (2026, 9, 30), today := (2026, 9, 30), setVersion := none,
    scopeTags := ["1.3.0".toList, "junk".toList], globalTags := ["1.3.0".toList, "junk".toList], statusLines := [], allowDirty := false,
    fs := [("a".toList, "v 1.2.3 (1.2.3)\r\nx".toList), ("other".toList, "1.2.3".toList)],
    filePatterns := [("a".toList, [("{semver}".toList, "v {version}".toList), ("{semver}".toList, "({semver})".toList)])] }

/-- the run `--patch`: starts from the tag 1.3.0, writes 1.3.1 to every occurrence, hook sees (1.3.0, 1.3.1), commits and tags -/
theorem UpdateV1_rewrite_witness : updateFullV1 updV1Witness =
    ([("a".toList, "v 1.3.1 (1.3.1)\r\nx".toList), ("other".toList, "1.2.3".toList)],
     [.cmd "is_usable", .cmd "ls_tags", .cmd "is_usable", .cmd "status", .rewrite,
      .preHook "1.3.0".toList "1.3.1".toList, .add "a".toList, .cmd "commit", .cmd "tag"], 0) := by
  decide +kernel

/-- the hypothesis of `UpdateV1_written_version_sound` / `UpdateV1_writes_all` is satisfiable -/
example : Ev.rewrite ∈ (updateFullV1 updV1Witness).2.1 := by
  rw [UpdateV1_rewrite_witness]; decide

/-- a configured file that does not exist: exit 1, nothing written, nothing committed -/
example : updateFullV1 { updV1Witness with filePatterns := updV1Witness.filePatterns ++ [("gone".toList, [("{semver}".toList, "{version}".toList)])] } =
    (updV1Witness.fs, [.cmd "is_usable", .cmd "ls_tags", .cmd "is_usable", .cmd "status"], 1) := by
  decide +kernel

/-- `--dry`: the diff path succeeds, exit 0, nothing written -/
example : updateFullV1 { updV1Witness with a := { updV1Witness.a with dry := true } } =
    (updV1Witness.fs, [.cmd "is_usable", .cmd "ls_tags"], 0) := by
  decide +kernel

end BV
