/-
  Props/C18.lean — property C18: the same configuration means the same thing in every
  config format.

  "A configuration written in setup.cfg ([bumpver] / [bumpver:file_patterns]),
   pyproject.toml ([tool.bumpver]), bumpver.toml or .bumpver.toml ([bumpver]) or the legacy
   [pycalver] sections is read to the same effective settings: same versions, pattern,
   messages, tag scope, hooks and commit/tag/push booleans (tag and push requiring commit),
   and the same set of (file, search pattern) pairs, always including the config file's own
   current_version line."

  Model (Model/Config.lean): `parseCfgPost` / `parseTomlPost` = `_parse_cfg` / `_parse_toml`
  after the third-party parser, `addSelfPattern` = the self-pattern step of
  `_parse_raw_config`, `parseConfig` = `_parse_config`.  `configparser` and `toml` are not
  modelled: `iniRaw` / `tomlRaw` say what they hand over for the two renderings of an abstract
  configuration `AbsCfg` (checked against the real parsers on every generated configuration).
  Version validation, pattern compilation, path existence and glob results are the
  parameter `env`, the same on both sides.

  Only property theorems live here; helper lemmas are in Proofs/ConfigLemmas.lean.
-/
import BumpverVerif.Proofs.ConfigLemmas
namespace BV

/-- "expressible in both syntaxes": no quoted booleans, booleans in a conventional INI
    spelling, one-line strings (bare ones without blanks at the ends), file names an INI option
    name can carry (no `=`/`:`, no leading `#`/`;`/`[`, no blanks at the ends), patterns a
    continuation line can carry (non-empty, one line, no leading `#`/`;`, no blanks at the
    ends), distinct file names.  An explicit decidable predicate (`AbsCfg.expressible`). -/
def Expressible (c : AbsCfg) : Prop := c.expressible = true

instance (c : AbsCfg) : Decidable (Expressible c) := by unfold Expressible; infer_instance

/-- the INI reader on the INI rendering, then `_parse_config` -/
def effectiveIni (env : CfgEnv) (legacy : Bool) (c : AbsCfg) : Except CfgErr EffectiveConfig :=
  parseCfgPost (iniRaw legacy c) >>= parseConfig env

/-- the TOML reader on the TOML rendering, then `_parse_config` -/
def effectiveToml (env : CfgEnv) (place : TomlPlace) (c : AbsCfg) : Except CfgErr EffectiveConfig :=
  parseTomlPost (tomlRaw place c) >>= parseConfig env

theorem expressible_parts (c : AbsCfg) (h : Expressible c) :
    optOk AbsBool.ok c.commit = true ∧ optOk AbsBool.ok c.tag = true ∧ optOk AbsBool.ok c.push = true ∧
    ∀ f ∈ c.files, f.patterns.all patternOk = true := by
  unfold Expressible AbsCfg.expressible at h
  simp only [Bool.and_eq_true, List.all_eq_true] at h
  obtain ⟨⟨⟨⟨⟨_, hc⟩, ht⟩, hp⟩, hf⟩, _⟩ := h
  exact ⟨hc, ht, hp, fun f hf' => by simpa [List.all_eq_true] using (hf f hf').2⟩

/-- "is read to the same effective settings": same versions, pattern, messages, tag scope,
    hooks, booleans and (file, pattern) pairs — or the same rejection — in setup.cfg (either
    section name) and in a toml file (any of the three tables), for all configurations
    expressible in both syntaxes and all answers of the environment. -/
theorem C18_equiv (env : CfgEnv) (legacy : Bool) (place : TomlPlace) (c : AbsCfg) (h : Expressible c) :
    effectiveIni env legacy c = effectiveToml env place c := by
  obtain ⟨hc, ht, hp, hf⟩ := expressible_parts c h
  unfold effectiveIni effectiveToml
  rw [parseCfgPost_iniRaw legacy c hf, parseTomlPost_tomlRaw place c]
  have key := parseConfig_dicts env c c.filePatterns hc ht hp
  calc (Except.ok { opts := iniDict c, filePatterns := c.filePatterns } >>= parseConfig env)
      = parseConfig env { opts := iniDict c, filePatterns := c.filePatterns } := rfl
    _ = parseConfig env { opts := tomlDict c, filePatterns := c.filePatterns } := key
    _ = (Except.ok { opts := tomlDict c, filePatterns := c.filePatterns } >>= parseConfig env) := rfl

/-- the legacy `[pycalver]` sections and `[tool.bumpver]` mean the same as `[bumpver]` -/
theorem C18_sections (env : CfgEnv) (c : AbsCfg) (h : Expressible c) :
    effectiveIni env true c = effectiveIni env false c ∧
    effectiveToml env .tool c = effectiveToml env .plain c ∧
    effectiveToml env .legacy c = effectiveToml env .plain c ∧
    effectiveIni env true c = effectiveToml env .legacy c := by
  have e := fun l p => C18_equiv env l p c h
  exact ⟨(e true .plain).trans (e false .plain).symm, (e false .tool).symm.trans (e false .plain),
    (e false .legacy).symm.trans (e false .plain), e true .legacy⟩

/-- "(tag and push requiring commit)": whatever the raw data, an accepted configuration never
    has tag or push without commit -/
theorem C18_requires_commit (env : CfgEnv) (raw : RawCfg) (e : EffectiveConfig)
    (h : parseConfig env raw = .ok e) :
    (e.tag = true → e.commit = true) ∧ (e.push = true → e.commit = true) := by
  unfold parseConfig at h
  obtain ⟨cm, -, h⟩ := bind_ok _ _ _ h
  obtain ⟨tm, -, h⟩ := bind_ok _ _ _ h
  obtain ⟨cv, -, h⟩ := bind_ok _ _ _ h
  obtain ⟨vp, -, h⟩ := bind_ok _ _ _ h
  obtain ⟨_, -, h⟩ := bind_ok _ _ _ h
  obtain ⟨fp, -, h⟩ := bind_ok _ _ _ h
  obtain ⟨sc, -, h⟩ := bind_ok _ _ _ h
  obtain ⟨_, -, h⟩ := bind_ok _ _ _ h
  obtain ⟨pre, -, h⟩ := bind_ok _ _ _ h
  obtain ⟨post, -, h⟩ := bind_ok _ _ _ h
  obtain ⟨commit, -, h⟩ := bind_ok _ _ _ h
  obtain ⟨tag, -, h⟩ := bind_ok _ _ _ h
  obtain ⟨push, -, h⟩ := bind_ok _ _ _ h
  obtain ⟨_, hflags, h⟩ := bind_ok _ _ _ h
  cases h
  unfold checkFlags at hflags
  split at hflags
  · cases hflags
  · split at hflags
    · cases hflags
    · rename_i h1 h2
      constructor
      · intro ht
        have ht' : tag.truthy = true := ht
        cases hc : commit.truthy
        · exact absurd (by rw [ht', hc]; rfl) h1
        · rfl
      · intro hp
        have hp' : push.truthy = true := hp
        cases hc : commit.truthy
        · exact absurd (by rw [hp', hc]; rfl) h2
        · rfl

/-- … in every format -/
theorem C18_requires_commit_formats (env : CfgEnv) (c : AbsCfg) (e : EffectiveConfig) :
    (∀ legacy, effectiveIni env legacy c = .ok e → (e.tag = true → e.commit = true) ∧ (e.push = true → e.commit = true)) ∧
    (∀ place, effectiveToml env place c = .ok e → (e.tag = true → e.commit = true) ∧ (e.push = true → e.commit = true)) := by
  constructor
  · intro legacy h
    obtain ⟨raw, -, h⟩ := bind_ok _ _ _ h
    exact C18_requires_commit env raw e h
  · intro place h
    obtain ⟨raw, -, h⟩ := bind_ok _ _ _ h
    exact C18_requires_commit env raw e h

/-- the effective file patterns are the glob-expanded raw ones merged by path: the settings read
    from `raw` list the file `f` with at least the patterns `ps` -/
def Lists (e : EffectiveConfig) (f : Str) (ps : List Str) : Prop := hasPats f ps e.filePatterns

/-- "always including the config file's own current_version line": after the self-pattern step
    the config file is among the raw files; when it was not listed explicitly its one pattern is
    its own `current_version` line with the (raw) version replaced by the (raw) pattern; and an
    accepted configuration lists the config file with those patterns (the config file exists,
    so globbing its name yields itself — or nothing, then the name is kept). -/
theorem C18_self_pattern (env : CfgEnv) (rel text : Str) (raw raw' : RawCfg)
    (h1 : addSelfPattern rel text raw = .ok raw') :
    (∃ ps, lookup rel raw'.filePatterns = some ps) ∧
    (cfgHasKey rel raw.filePatterns = false →
      ∃ line cv vp, curVersionLine text = some line ∧
        rawStr "current_version".toList raw.opts = .ok cv ∧ rawStr "version_pattern".toList raw.opts = .ok vp ∧
        lookup rel raw'.filePatterns = some [pyReplace (stripQuotes cv) (stripQuotes vp) line]) ∧
    (∀ e ps, parseConfig env raw' = .ok e → lookup rel raw'.filePatterns = some ps →
      (env.glob rel = [] ∨ rel ∈ env.glob rel) → Lists e rel ps) := by
  have hself : cfgHasKey rel raw.filePatterns = false →
      ∃ line cv vp, curVersionLine text = some line ∧
        rawStr "current_version".toList raw.opts = .ok cv ∧ rawStr "version_pattern".toList raw.opts = .ok vp ∧
        lookup rel raw'.filePatterns = some [pyReplace (stripQuotes cv) (stripQuotes vp) line] := by
    intro hk
    unfold addSelfPattern at h1
    rw [hk] at h1
    simp only [Bool.false_eq_true, if_false] at h1
    split at h1
    · rename_i cv vp hcv hvp
      unfold parseCurrentVersionDefaultPattern at h1
      cases hl : curVersionLine text with
      | none => rw [hl] at h1; cases h1
      | some line =>
        rw [hl] at h1
        cases h1
        refine ⟨line, cv, vp, rfl, hcv, hvp, ?_⟩
        have hnone : lookup rel raw.filePatterns = none := by
          unfold cfgHasKey at hk
          cases hx : lookup rel raw.filePatterns with
          | none => rfl
          | some v => rw [hx] at hk; cases hk
        show lookup rel (raw.filePatterns ++ [(rel, [pyReplace (stripQuotes cv) (stripQuotes vp) line])]) = _
        rw [lookup_append, hnone, lookup_cons, if_pos rfl]
        rfl
    · cases h1
    · cases h1
  refine ⟨?_, hself, ?_⟩
  · cases hk : cfgHasKey rel raw.filePatterns
    · obtain ⟨line, cv, vp, _, _, _, h⟩ := hself hk
      exact ⟨_, h⟩
    · unfold addSelfPattern at h1
      rw [hk] at h1
      simp only [if_true] at h1
      cases h1
      unfold cfgHasKey at hk
      cases hx : lookup rel raw.filePatterns with
      | none => rw [hx] at hk; cases hk
      | some v => exact ⟨v, rfl⟩
  · intro e ps h2 hl hg
    unfold parseConfig at h2
    obtain ⟨cm, -, h2⟩ := bind_ok _ _ _ h2
    obtain ⟨tm, -, h2⟩ := bind_ok _ _ _ h2
    obtain ⟨cv, -, h2⟩ := bind_ok _ _ _ h2
    obtain ⟨vp, -, h2⟩ := bind_ok _ _ _ h2
    obtain ⟨_, -, h2⟩ := bind_ok _ _ _ h2
    obtain ⟨fp, hfp, h2⟩ := bind_ok _ _ _ h2
    obtain ⟨sc, -, h2⟩ := bind_ok _ _ _ h2
    obtain ⟨_, -, h2⟩ := bind_ok _ _ _ h2
    obtain ⟨pre, -, h2⟩ := bind_ok _ _ _ h2
    obtain ⟨post, -, h2⟩ := bind_ok _ _ _ h2
    obtain ⟨commit, -, h2⟩ := bind_ok _ _ _ h2
    obtain ⟨tag, -, h2⟩ := bind_ok _ _ _ h2
    obtain ⟨push, -, h2⟩ := bind_ok _ _ _ h2
    obtain ⟨_, -, h2⟩ := bind_ok _ _ _ h2
    cases h2
    show hasPats rel ps fp
    rw [compileFilePatterns_ok env _ _ _ _ hfp]
    exact foldl_mergeInto _ _ _ _ (Or.inl (mem_iterGlobExpanded _ _ _ _ (lookup_mem _ _ _ hl) hg))

/-- "every accepted boolean spelling": the INI reader reads a spelling as True exactly when its
    lower-case form is one of the generated true spellings (`yes`, `true`, `1`, `on`) — in any
    mix of upper and lower case — and everything else as False -/
theorem C18_bool_spellings (s : Str) :
    (lowerAscii s ∈ Gen.trueSpellings → iniBoolConv (.str s) = .bool true) ∧
    (lowerAscii s ∉ Gen.trueSpellings → iniBoolConv (.str s) = .bool false) := by
  constructor
  · intro h
    simp only [iniBoolConv, List.contains_iff_mem.mpr h]
  · intro h
    have : Gen.trueSpellings.contains (lowerAscii s) = false := by
      cases hc : Gen.trueSpellings.contains (lowerAscii s)
      · rfl
      · exact absurd (List.contains_iff_mem.mp hc) h
    simp only [iniBoolConv, this]

/-- the generated true spellings themselves, all upper case, and capitalised, are True; the
    conventional false spellings are False; so is a quoted `"true"` -/
theorem C18_bool_spellings_table :
    (∀ t ∈ Gen.trueSpellings, iniBoolConv (.str t) = .bool true ∧
      iniBoolConv (.str (t.map Char.toUpper)) = .bool true ∧
      iniBoolConv (.str ((t.take 1).map Char.toUpper ++ t.drop 1)) = .bool true) ∧
    (∀ t ∈ falseSpellings, iniBoolConv (.str t) = .bool false ∧ iniBoolConv (.str (t.map Char.toUpper)) = .bool false) ∧
    iniBoolConv (.str "\"true\"".toList) = .bool false := by
  decide

/-! ### the negative witnesses (known findings F-C18-quoted-bool, F-C18-self-pattern-quotes) -/

/-- an environment in which everything validates, compiles and exists -/
def envAll : CfgEnv := {
  validVersion := fun _ _ _ => true, compileOk := fun _ _ _ => true,
  pathExists := fun _ => true, glob := fun _ => [] }

/-- `commit = "true"` (a quoted boolean) next to a valid version and pattern -/
def quotedBoolCfg : AbsCfg := {
  currentVersion := { s := "1.2.3".toList, q := .dq },
  versionPattern := { s := "MAJOR.MINOR.PATCH".toList, q := .dq },
  commitMessage := none, tagMessage := none, tagScope := none, preHook := none, postHook := none,
  commit := some { b := true, spelling := "true".toList, quoted := true },
  tag := none, push := none, files := [] }

/-- a quoted boolean is outside the expressible configurations, and there the two readers
    really differ: the INI reader gives commit = False, the TOML reader a truthy value -/
theorem C18_quoted_bool_witness :
    ¬ Expressible quotedBoolCfg ∧
    (effectiveIni envAll false quotedBoolCfg).map (·.commit) = .ok false ∧
    (effectiveToml envAll .plain quotedBoolCfg).map (·.commit) = .ok true := by
  decide

/-- the self-pattern of a setup.cfg whose version is bare and whose pattern is quoted carries the
    pattern's quotes and so differs from the file's own line shape; in the TOML reading (raw
    values without quotes) it keeps the line's own quoting -/
theorem C18_self_pattern_mixed_quotes_witness :
    parseCurrentVersionDefaultPattern "1.2.3".toList "\"MAJOR.MINOR.PATCH\"".toList
      "[bumpver]\ncurrent_version = 1.2.3\nversion_pattern = \"MAJOR.MINOR.PATCH\"\n".toList
      = .ok "current_version = MAJOR.MINOR.PATCH".toList ∧
    parseCurrentVersionDefaultPattern "'1.2.3'".toList "\"MAJOR.MINOR.PATCH\"".toList
      "[bumpver]\ncurrent_version = '1.2.3'\nversion_pattern = \"MAJOR.MINOR.PATCH\"\n".toList
      = .ok "current_version = 'MAJOR.MINOR.PATCH'".toList := by
  decide

/-! ### non-vacuity -/

/-- a configuration with every kind of setting, expressible, accepted, read identically -/
def sampleCfg : AbsCfg := {
  currentVersion := { s := "v202001.1001-beta".toList, q := .bare },
  versionPattern := { s := "vYYYY0M.BUILD[-TAG]".toList, q := .dq },
  commitMessage := some { s := "bump {old_version} -> {new_version} # ; = %".toList, q := .sq },
  tagMessage := none,
  tagScope := some { s := "branch".toList, q := .dq },
  preHook := some { s := "hook.sh".toList, q := .bare }, postHook := none,
  commit := some { b := true, spelling := "YES".toList, quoted := false },
  tag := some { b := true, spelling := "On".toList, quoted := false },
  push := some { b := false, spelling := "off".toList, quoted := false },
  files := [{ name := "README.md".toList, patterns := ["{version}".toList, "{pep440_version}".toList], inline := false },
            { name := "src/*.py".toList, patterns := ["__version__ = \"{version}\"".toList], inline := true }] }

example : Expressible sampleCfg := by decide

example : (effectiveIni envAll true sampleCfg).map (fun e => (e.commit, e.tag, e.push, e.tagScope, e.commitMessage)) =
    .ok (true, true, false, "branch".toList, "bump {old_version} -> {new_version} # ; = %".toList) := by
  decide

example : (effectiveToml envAll .tool sampleCfg).map (fun e => e.filePatterns) =
    .ok [("README.md".toList, ["{version}".toList, "{pep440_version}".toList]),
         ("src/*.py".toList, ["__version__ = \"{version}\"".toList])] := by
  decide

/-- tag without commit is rejected, identically -/
example : effectiveIni envAll false { sampleCfg with commit := none } = .error .tagRequiresCommit ∧
    effectiveToml envAll .plain { sampleCfg with commit := none } = .error .tagRequiresCommit := by
  decide

end BV
