/-
  Props/C10.lean — property C10: VCS steps run only as configured, in order, and stop at the
  first failure.

  "A real `update` performs: dirty check, file rewrite, pre-commit hook, stage configured
   files and commit, post-commit hook, tag, push - each step only if enabled and only if
   every earlier step succeeded; without a commit there is never a tag or push, --no-fetch
   never fetches, and --dry issues no mutating VCS command and runs no hook. Hooks receive
   the old and new version in BUMPVER_OLD_VERSION/BUMPVER_NEW_VERSION, and contradictory
   flag/config combinations are rejected before anything happens."

  Model: `BV.plan` (Model/Plan.lean).  Every theorem quantifies over ALL configurations
  `c`, command lines `a` and environments `e` — i.e. the whole lattice of config
  commit/tag/push × tri-state flags × hooks × dirty × remote × dry × fetch × scope ×
  git/hg, every list of configured files and EVERY failure position `failAt`.
  Helper lemmas: Proofs/PlanLemmas.lean.
-/
import BumpverVerif.Model.Plan
import BumpverVerif.Proofs.PlanLemmas
-- the functions this property's mechanism lives in are TRANSLATED from the Python source on every run (Gen/F_*.lean) and proved equal to the hand model:
import BumpverVerif.Proofs.Tie_parseVcsOptions
namespace BV

/-- mutating VCS commands -/
def Ev.mutating : Ev → Bool
  | .add _ => true
  | .cmd n => n == "commit" || n == "tag" || n == "tag_light" || n == "push" || n == "push_tag"
  | _ => false

def Ev.isHook : Ev → Bool
  | .preHook _ _ => true
  | .postHook _ _ => true
  | _ => false

def Ev.isTag : Ev → Bool
  | .cmd n => n == "tag" || n == "tag_light"
  | _ => false

def Ev.isPush : Ev → Bool
  | .cmd n => n == "push" || n == "push_tag"
  | _ => false

/-- position of an event in the documented step order (read-only probes have none) -/
def Ev.rank : Ev → Option Nat
  | .cmd n =>
    if n == "status" then some 0 else if n == "commit" then some 4
    else if n == "tag" || n == "tag_light" then some 6
    else if n == "push" || n == "push_tag" then some 7 else none
  | .rewrite => some 1
  | .preHook _ _ => some 2
  | .add _ => some 3
  | .postHook _ _ => some 5

/-- effective settings after merging the tri-state flags over the config -/
def effCommit (c : PlanCfg) (a : PlanCli) : Bool := a.commit.getD c.commit
def effTag (c : PlanCfg) (a : PlanCli) : Bool := a.tagCommit.getD c.tag
def effPush (c : PlanCfg) (a : PlanCli) : Bool := a.push.getD c.push

/-! glue between the helper lemmas (Proofs/PlanLemmas.lean) and the predicates above -/

private theorem tagEv_facts {f : Bool} {ev : Ev} (h : TagEv f ev) :
    ev.mutating = false ∧ ev.isHook = false ∧ ev ≠ .rewrite ∧ ev.isTag = false ∧
      ev.isPush = false ∧ ev ≠ .cmd "commit" ∧ ev ≠ .cmd "status" ∧ (∀ p, ev ≠ .add p) ∧
      ev.rank = none ∧ (f = false → ev ≠ .cmd "fetch") := by
  rcases h with rfl | rfl | rfl | ⟨rfl, rfl | rfl | rfl⟩ <;>
    simp [Ev.mutating, Ev.isHook, Ev.isTag, Ev.isPush, Ev.rank]

private theorem remEv_facts {ev : Ev} (h : RemEv ev) :
    ev.mutating = false ∧ ev.isHook = false ∧ ev.isTag = false ∧ ev.isPush = false ∧
      (∀ p, ev ≠ .add p) ∧ ev.rank = none ∧ ev ≠ .cmd "fetch" := by
  rcases h with rfl | rfl <;> simp [Ev.mutating, Ev.isHook, Ev.isTag, Ev.isPush, Ev.rank]

/-- what the predicates say about an event logged by the commit phase -/
private theorem commitEv_facts {e : PlanEnv} {c : PlanCfg} {C : List Ev} {o : Outcome}
    (hsh : CommitShape e c C o) {ev : Ev} (hC : ev ∈ C) :
    (ev.isTag = true → c.tag = true ∧ Ev.cmd "commit" ∈ C) ∧
    (ev.isPush = true → c.push = true ∧ Ev.cmd "commit" ∈ C) ∧
    (∀ x y, ev = .preHook x y → x = e.startVersion ∧ y = e.announced) ∧
    (∀ x y, ev = .postHook x y → x = e.startVersion ∧ y = e.announced) := by
  rcases hsh.mem hC with ⟨rfl, -⟩ | ⟨p, -, rfl⟩ | rfl | ⟨rfl, -⟩ | ⟨rfl, ht, hc⟩ | ⟨h, -⟩ |
      ⟨rfl, hp, hc⟩
  · simp [Ev.isTag, Ev.isPush]
  · simp [Ev.isTag, Ev.isPush]
  · simp [Ev.isTag, Ev.isPush]
  · simp [Ev.isTag, Ev.isPush]
  · unfold tagCmd; split <;> simp [Ev.isTag, Ev.isPush, ht, hc]
  · rcases h with rfl | rfl <;> simp [Ev.isTag, Ev.isPush]
  · unfold pushCmd; split <;> simp [Ev.isTag, Ev.isPush, hp, hc]

private theorem isTag_tagCmd (c : PlanCfg) : (tagCmd c).isTag = true := by
  unfold tagCmd; split <;> simp [Ev.isTag]

/-- either the options are rejected, or the trace has one of the shapes of `PlanShape` for
    the merged configuration -/
private theorem plan_cases (c : PlanCfg) (a : PlanCli) (e : PlanEnv) :
    (parseVcsOptions c a = none ∧ plan c a e = ([], 1)) ∨
    ∃ c', PlanShape c' a e (plan c a e).1 (plan c a e).2 ∧ c'.commit = effCommit c a ∧
      c'.tag = effTag c a ∧ c'.push = effPush c a := by
  cases hp : parseVcsOptions c a with
  | none => exact .inl ⟨rfl, by simp [plan, hp]⟩
  | some c' => exact .inr ⟨c', plan_shape c c' a e hp, parseVcsOptions_some hp⟩

/-- exactly the contradictory combinations are rejected … -/
theorem C10_reject_iff (c : PlanCfg) (a : PlanCli) :
    parseVcsOptions c a = none ↔
      (effCommit c a = false ∧ (a.tagCommit = some true ∨ a.push = some true)) := by
  exact parseVcsOptions_none_iff c a

/-- … and they are rejected before anything happens -/
theorem C10_reject_first (c : PlanCfg) (a : PlanCli) (e : PlanEnv)
    (h : parseVcsOptions c a = none) : plan c a e = ([], 1) := by
  simp [plan, h]

/-- the steps occur in the documented order: dirty check, rewrite, pre-commit hook, stage,
    commit, post-commit hook, tag, push -/
theorem C10_order (c : PlanCfg) (a : PlanCli) (e : PlanEnv) :
    ((plan c a e).1.filterMap Ev.rank).Pairwise (· ≤ ·) := by
  rcases plan_cases c a e with ⟨_, hp⟩ | ⟨c', sh, -, -, -⟩
  · simp [hp]
  · have hrk : Ev.rank = Ev.rk := by funext ev; cases ev <;> rfl
    have := sh.rk.1
    rw [List.filterMap_reverse, List.pairwise_reverse] at this
    rw [hrk]
    exact this

/-- a commit happens only if enabled (config or flag) and never in a dry run -/
theorem C10_commit_gated (c : PlanCfg) (a : PlanCli) (e : PlanEnv)
    (h : Ev.cmd "commit" ∈ (plan c a e).1) : effCommit c a = true ∧ a.dry = false := by
  rcases plan_cases c a e with ⟨_, hp⟩ | ⟨c', sh, hcm, -, -⟩
  · simp [hp] at h
  · rcases sh.mem h with ht | ⟨hd, ⟨_, hs⟩ | hr | ⟨hc, -⟩⟩
    · exact absurd rfl (tagEv_facts ht).2.2.2.2.2.1
    · simp at hs
    · simp at hr
    · exact ⟨hcm ▸ hc, hd⟩

/-- without a commit there is never a tag or push; tag and push only if enabled -/
theorem C10_tag_push_gated (c : PlanCfg) (a : PlanCli) (e : PlanEnv) (ev : Ev)
    (h : ev ∈ (plan c a e).1) :
    (ev.isTag = true → Ev.cmd "commit" ∈ (plan c a e).1 ∧ effTag c a = true) ∧
    (ev.isPush = true → Ev.cmd "commit" ∈ (plan c a e).1 ∧ effPush c a = true) := by
  rcases plan_cases c a e with ⟨_, hp⟩ | ⟨c', sh, -, htg, hps⟩
  · simp [hp] at h
  · rcases sh.mem h with ht | ⟨-, ⟨-, rfl⟩ | rfl | ⟨-, -, -, -, C, o, hsh, hC, hsub, -⟩⟩
    · simp [(tagEv_facts ht).2.2.2.1, (tagEv_facts ht).2.2.2.2.1]
    · simp [Ev.isTag, Ev.isPush]
    · simp [Ev.isTag, Ev.isPush]
    · obtain ⟨h1, h2, -⟩ := commitEv_facts hsh hC
      exact ⟨fun ht => ⟨hsub _ (h1 ht).2, htg ▸ (h1 ht).1⟩,
        fun hp => ⟨hsub _ (h2 hp).2, hps ▸ (h2 hp).1⟩⟩

/-- staging and hooks only around an enabled commit -/
theorem C10_add_hook_gated (c : PlanCfg) (a : PlanCli) (e : PlanEnv) (ev : Ev)
    (h : ev ∈ (plan c a e).1) (hk : ev.isHook = true ∨ (∃ p, ev = .add p)) :
    effCommit c a = true ∧ a.dry = false ∧ Ev.rewrite ∈ (plan c a e).1 := by
  rcases plan_cases c a e with ⟨_, hp⟩ | ⟨c', sh, hcm, -, -⟩
  · simp [hp] at h
  · rcases sh.mem h with ht | ⟨hd, ⟨-, rfl⟩ | rfl | ⟨hc, -, -, hrw, -⟩⟩
    · rcases hk with hk | ⟨p, rfl⟩
      · simp [(tagEv_facts ht).2.1] at hk
      · exact absurd rfl ((tagEv_facts ht).2.2.2.2.2.2.2.1 p)
    · simp [Ev.isHook] at hk
    · simp [Ev.isHook] at hk
    · exact ⟨hcm ▸ hc, hd, hrw⟩

/-- with `--dry`: no mutating VCS command, no hook, no file written -/
theorem C10_dry (c : PlanCfg) (a : PlanCli) (e : PlanEnv) (hd : a.dry = true) (ev : Ev)
    (h : ev ∈ (plan c a e).1) : ev.mutating = false ∧ ev.isHook = false ∧ ev ≠ .rewrite := by
  rcases plan_cases c a e with ⟨_, hp⟩ | ⟨c', sh, -, -, -⟩
  · simp [hp] at h
  · rcases sh.mem h with ht | ⟨hd', -⟩
    · exact ⟨(tagEv_facts ht).1, (tagEv_facts ht).2.1, (tagEv_facts ht).2.2.1⟩
    · simp [hd] at hd'

/-- with `--no-fetch` nothing is ever fetched -/
theorem C10_no_fetch (c : PlanCfg) (a : PlanCli) (e : PlanEnv) (hf : a.fetch = false) :
    Ev.cmd "fetch" ∉ (plan c a e).1 := by
  intro h
  rcases plan_cases c a e with ⟨_, hp⟩ | ⟨c', sh, -, -, -⟩
  · simp [hp] at h
  · rcases sh.mem h with ht | ⟨-, ⟨_, hs⟩ | hr | ⟨-, -, -, -, C, o, hsh, hC, -⟩⟩
    · exact (tagEv_facts ht).2.2.2.2.2.2.2.2.2 hf rfl
    · simp at hs
    · simp at hr
    · rcases hsh.mem hC with ⟨h, -⟩ | ⟨p, -, h⟩ | h | ⟨h, -⟩ | ⟨h, -⟩ | ⟨h, -⟩ | ⟨h, -⟩
      · simp at h
      · simp at h
      · simp at h
      · simp at h
      · unfold tagCmd at h; split at h <;> simp at h
      · exact (remEv_facts h).2.2.2.2.2.2 rfl
      · unfold pushCmd at h; split at h <;> simp at h

/-- a dirty tree (C11 verdict `abort`) stops the run before any file is modified -/
theorem C10_dirty_blocks (c : PlanCfg) (a : PlanCli) (e : PlanEnv)
    (hd : e.dirtyAbort = true) (hs : Ev.cmd "status" ∈ (plan c a e).1) :
    (plan c a e).2 = 1 ∧ ∀ ev ∈ (plan c a e).1, ev ≠ .rewrite ∧ ev.mutating = false ∧ ev.isHook = false := by
  rcases plan_cases c a e with ⟨_, hp⟩ | ⟨c', sh, -, -, -⟩
  · simp [hp] at hs
  · obtain ⟨hcode, hall⟩ := sh.dirty_stop hd hs
    refine ⟨hcode, fun ev hev => ?_⟩
    rcases hall ev hev with ht | rfl
    · exact ⟨(tagEv_facts ht).2.2.1, (tagEv_facts ht).1, (tagEv_facts ht).2.1⟩
    · simp [Ev.mutating, Ev.isHook]

/-- whenever a commit is attempted, the dirty check ran first -/
theorem C10_status_before_rewrite (c : PlanCfg) (a : PlanCli) (e : PlanEnv)
    (h : Ev.cmd "commit" ∈ (plan c a e).1) : Ev.cmd "status" ∈ (plan c a e).1 := by
  rcases plan_cases c a e with ⟨_, hp⟩ | ⟨c', sh, -, -, -⟩
  · simp [hp] at h
  · rcases sh.mem h with ht | ⟨-, ⟨_, hs⟩ | hr | ⟨-, -, hst, -⟩⟩
    · exact absurd rfl (tagEv_facts ht).2.2.2.2.2.1
    · simp at hs
    · simp at hr
    · exact hst

/-- read-only probes whose failure is swallowed by `is_usable` / `get_remote` -/
def Ev.swallowed : Ev → Bool
  | .cmd n => n == "is_usable" || n == "ls_branches" || n == "show_remotes"
  | _ => false

def Ev.isVcs : Ev → Bool
  | .cmd _ => true
  | .add _ => true
  | _ => false

/-- stop at the first failure, for EVERY failure position: if the k-th VCS invocation fails
    and it is not a swallowed probe, it is the last event and the exit code is non-zero -/
theorem C10_stop_at_failure (c : PlanCfg) (a : PlanCli) (e : PlanEnv) (k : Nat)
    (hk : e.failAt = some k) (ev : Ev)
    (hev : ((plan c a e).1.filter Ev.isVcs)[k]? = some ev) (hns : ev.swallowed = false) :
    (plan c a e).1.getLast? = some ev ∧ (plan c a e).2 = 1 := by
  have hv : Ev.isVcs = Ev.vcs := by funext ev; cases ev <;> rfl
  have hs : ev.swallowed = ev.swal := by cases ev <;> rfl
  rw [hv] at hev
  rw [hs] at hns
  exact stop_core hk (plan_post c a e) hev hns

/-- a failing hook is the last thing that happens -/
theorem C10_hook_failure_stops (c : PlanCfg) (a : PlanCli) (e : PlanEnv) :
    (e.preOk = false → ∀ o n, Ev.preHook o n ∈ (plan c a e).1 →
        (plan c a e).1.getLast? = some (.preHook o n) ∧ (plan c a e).2 = 1) ∧
    (e.postOk = false → ∀ o n, Ev.postHook o n ∈ (plan c a e).1 →
        (plan c a e).1.getLast? = some (.postHook o n) ∧ (plan c a e).2 = 1) := by
  rcases plan_cases c a e with ⟨_, hp⟩ | ⟨c', sh, -, -, -⟩
  · simp [hp]
  · constructor
    · intro hpre x y h
      rcases sh.mem h with ht | ⟨-, ⟨_, hs⟩ | hr | ⟨-, -, -, -, C, o, hsh, hC, -, hcode, hlast⟩⟩
      · simpa [Ev.isHook] using (tagEv_facts ht).2.1
      · simp at hs
      · simp at hr
      · obtain ⟨hh, rfl⟩ := hsh.pre_fail hpre hC
        exact ⟨hlast _ hh, by simpa using hcode⟩
    · intro hpost x y h
      rcases sh.mem h with ht | ⟨-, ⟨_, hs⟩ | hr | ⟨-, -, -, -, C, o, hsh, hC, -, hcode, hlast⟩⟩
      · simpa [Ev.isHook] using (tagEv_facts ht).2.1
      · simp at hs
      · simp at hr
      · obtain ⟨hh, rfl⟩ := hsh.post_fail hpost hC
        exact ⟨hlast _ hh, by simpa using hcode⟩

/-- hooks receive the start version and the announced version -/
theorem C10_hook_env (c : PlanCfg) (a : PlanCli) (e : PlanEnv) (ev : Ev)
    (h : ev ∈ (plan c a e).1) :
    (∀ o n, ev = .preHook o n → o = e.startVersion ∧ n = e.announced) ∧
    (∀ o n, ev = .postHook o n → o = e.startVersion ∧ n = e.announced) := by
  rcases plan_cases c a e with ⟨_, hp⟩ | ⟨c', sh, -, -, -⟩
  · simp [hp] at h
  · rcases sh.mem h with ht | ⟨-, ⟨-, rfl⟩ | rfl | ⟨-, -, -, -, C, o, hsh, hC, -⟩⟩
    · have := (tagEv_facts ht).2.1
      constructor <;> rintro x y rfl <;> simp [Ev.isHook] at this
    · simp
    · simp
    · exact (commitEv_facts hsh hC).2.2

/-- exit 0 of a real committing run means every enabled step happened: rewrite, one `add`
    per configured file, commit, and the tag when tagging is on -/
theorem C10_success_complete (c : PlanCfg) (a : PlanCli) (e : PlanEnv)
    (h0 : (plan c a e).2 = 0) (hd : a.dry = false)
    (hc : Ev.cmd "commit" ∈ (plan c a e).1) :
    Ev.rewrite ∈ (plan c a e).1 ∧ (∀ p ∈ e.files, Ev.add p ∈ (plan c a e).1) ∧
    (effTag c a = true → ∃ ev ∈ (plan c a e).1, ev.isTag = true) := by
  have _ := hd
  rcases plan_cases c a e with ⟨_, hp⟩ | ⟨c', sh, -, htg, -⟩
  · simp [hp] at hc
  · rcases sh.mem hc with ht | ⟨-, ⟨_, hs⟩ | hr | ⟨-, -, -, hrw, C, o, hsh, -, hsub, hcode, -⟩⟩
    · exact absurd rfl (tagEv_facts ht).2.2.2.2.2.1
    · simp at hs
    · simp at hr
    · have ho : o = .ok := by
        cases o
        · rfl
        · rw [h0] at hcode; simp at hcode
      subst ho
      obtain ⟨hadd, -, htag⟩ := hsh.ok_complete
      exact ⟨hrw, fun p hp => hsub _ (hadd p hp),
        fun ht => ⟨tagCmd c', hsub _ (htag (htg ▸ ht)), isTag_tagCmd c'⟩⟩

/-! non-vacuity: a full run (hooks, three files, tag, push) and a failure in the middle -/
private def cfgAll : PlanCfg := ⟨true, true, true, true, true, false, false⟩
private def cliNone : PlanCli := ⟨none, none, none, false, false, none, false, false, false, false⟩
private def envOk (f : Option Nat) : PlanEnv :=
  ⟨.git, true, f, true, false, false, true, true, true, true, true,
   ["a".toList, "b".toList], "1.2.3".toList, "1.2.4".toList⟩
example : (plan cfgAll cliNone (envOk none)).2 = 0 ∧ (plan cfgAll cliNone (envOk none)).1.length = 13 := by
  decide
example : (plan cfgAll cliNone (envOk (some 4))).2 = 1 ∧
    (plan cfgAll cliNone (envOk (some 4))).1.getLast? = some (.add "a".toList) := by decide

end BV
