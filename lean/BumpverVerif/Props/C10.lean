/-
  Props/C10.lean — property C10: VCS steps run only as configured, in order, and stop at the
  first failure.

  "A real `update` performs: dirty check, file rewrite, pre-commit hook, stage configured
   files and commit, post-commit hook, tag, push - each step only if enabled and only if
   every earlier step succeeded; without a commit there is never a tag or push, --no-fetch
   never fetches, and --dry issues no mutating VCS command and runs no hook. Hooks receive
   the old and new version in BUMPVER_OLD_VERSION/BUMPVER_NEW_VERSION, and contradictory
   flag/config combinations are rejected before anything happens."

  Model: `BV.plan` (Model/Plan.lean).  Every theorem quantifies over ALL configurations
  `c`, command lines `a` and environments `e` — i.e. the whole lattice of config
  commit/tag/push × tri-state flags × hooks × dirty × remote × dry × fetch × scope ×
  git/hg, every list of configured files and EVERY failure position `failAt`.
  Helper lemmas: Proofs/PlanLemmas.lean.
-/
import BumpverVerif.Model.Plan
import BumpverVerif.Proofs.PlanLemmas
namespace BV

/-- mutating VCS commands -/
def Ev.mutating : Ev → Bool
  | .add _ => true
  | .cmd n => n == "commit" || n == "tag" || n == "tag_light" || n == "push" || n == "push_tag"
  | _ => false

def Ev.isHook : Ev → Bool
  | .preHook _ _ => true
  | .postHook _ _ => true
  | _ => false

def Ev.isTag : Ev → Bool
  | .cmd n => n == "tag" || n == "tag_light"
  | _ => false

def Ev.isPush : Ev → Bool
  | .cmd n => n == "push" || n == "push_tag"
  | _ => false

/-- position of an event in the documented step order (read-only probes have none) -/
def Ev.rank : Ev → Option Nat
  | .cmd n =>
    if n == "status" then some 0 else if n == "commit" then some 4
    else if n == "tag" || n == "tag_light" then some 6
    else if n == "push" || n == "push_tag" then some 7 else none
  | .rewrite => some 1
  | .preHook _ _ => some 2
  | .add _ => some 3
  | .postHook _ _ => some 5

/-- effective settings after merging the tri-state flags over the config -/
def effCommit (c : PlanCfg) (a : PlanCli) : Bool := a.commit.getD c.commit
def effTag (c : PlanCfg) (a : PlanCli) : Bool := a.tagCommit.getD c.tag
def effPush (c : PlanCfg) (a : PlanCli) : Bool := a.push.getD c.push

/-- exactly the contradictory combinations are rejected … -/
theorem C10_reject_iff (c : PlanCfg) (a : PlanCli) :
    parseVcsOptions c a = none ↔
      (effCommit c a = false ∧ (a.tagCommit = some true ∨ a.push = some true)) := by
  sorry

/-- … and they are rejected before anything happens -/
theorem C10_reject_first (c : PlanCfg) (a : PlanCli) (e : PlanEnv)
    (h : parseVcsOptions c a = none) : plan c a e = ([], 1) := by
  sorry

/-- the steps occur in the documented order: dirty check, rewrite, pre-commit hook, stage,
    commit, post-commit hook, tag, push -/
theorem C10_order (c : PlanCfg) (a : PlanCli) (e : PlanEnv) :
    ((plan c a e).1.filterMap Ev.rank).Pairwise (· ≤ ·) := by
  sorry

/-- a commit happens only if enabled (config or flag) and never in a dry run -/
theorem C10_commit_gated (c : PlanCfg) (a : PlanCli) (e : PlanEnv)
    (h : Ev.cmd "commit" ∈ (plan c a e).1) : effCommit c a = true ∧ a.dry = false := by
  sorry

/-- without a commit there is never a tag or push; tag and push only if enabled -/
theorem C10_tag_push_gated (c : PlanCfg) (a : PlanCli) (e : PlanEnv) (ev : Ev)
    (h : ev ∈ (plan c a e).1) :
    (ev.isTag = true → Ev.cmd "commit" ∈ (plan c a e).1 ∧ effTag c a = true) ∧
    (ev.isPush = true → Ev.cmd "commit" ∈ (plan c a e).1 ∧ effPush c a = true) := by
  sorry

/-- staging and hooks only around an enabled commit -/
theorem C10_add_hook_gated (c : PlanCfg) (a : PlanCli) (e : PlanEnv) (ev : Ev)
    (h : ev ∈ (plan c a e).1) (hk : ev.isHook = true ∨ (∃ p, ev = .add p)) :
    effCommit c a = true ∧ a.dry = false ∧ Ev.rewrite ∈ (plan c a e).1 := by
  sorry

/-- with `--dry`: no mutating VCS command, no hook, no file written -/
theorem C10_dry (c : PlanCfg) (a : PlanCli) (e : PlanEnv) (hd : a.dry = true) (ev : Ev)
    (h : ev ∈ (plan c a e).1) : ev.mutating = false ∧ ev.isHook = false ∧ ev ≠ .rewrite := by
  sorry

/-- with `--no-fetch` nothing is ever fetched -/
theorem C10_no_fetch (c : PlanCfg) (a : PlanCli) (e : PlanEnv) (hf : a.fetch = false) :
    Ev.cmd "fetch" ∉ (plan c a e).1 := by
  sorry

/-- a dirty tree (C11 verdict `abort`) stops the run before any file is modified -/
theorem C10_dirty_blocks (c : PlanCfg) (a : PlanCli) (e : PlanEnv)
    (hd : e.dirtyAbort = true) (hs : Ev.cmd "status" ∈ (plan c a e).1) :
    (plan c a e).2 = 1 ∧ ∀ ev ∈ (plan c a e).1, ev ≠ .rewrite ∧ ev.mutating = false ∧ ev.isHook = false := by
  sorry

/-- whenever a commit is attempted, the dirty check ran first -/
theorem C10_status_before_rewrite (c : PlanCfg) (a : PlanCli) (e : PlanEnv)
    (h : Ev.cmd "commit" ∈ (plan c a e).1) : Ev.cmd "status" ∈ (plan c a e).1 := by
  sorry

/-- read-only probes whose failure is swallowed by `is_usable` / `get_remote` -/
def Ev.swallowed : Ev → Bool
  | .cmd n => n == "is_usable" || n == "ls_branches" || n == "show_remotes"
  | _ => false

def Ev.isVcs : Ev → Bool
  | .cmd _ => true
  | .add _ => true
  | _ => false

/-- stop at the first failure, for EVERY failure position: if the k-th VCS invocation fails
    and it is not a swallowed probe, it is the last event and the exit code is non-zero -/
theorem C10_stop_at_failure (c : PlanCfg) (a : PlanCli) (e : PlanEnv) (k : Nat)
    (hk : e.failAt = some k) (ev : Ev)
    (hev : ((plan c a e).1.filter Ev.isVcs)[k]? = some ev) (hns : ev.swallowed = false) :
    (plan c a e).1.getLast? = some ev ∧ (plan c a e).2 = 1 := by
  sorry

/-- a failing hook is the last thing that happens -/
theorem C10_hook_failure_stops (c : PlanCfg) (a : PlanCli) (e : PlanEnv) :
    (e.preOk = false → ∀ o n, Ev.preHook o n ∈ (plan c a e).1 →
        (plan c a e).1.getLast? = some (.preHook o n) ∧ (plan c a e).2 = 1) ∧
    (e.postOk = false → ∀ o n, Ev.postHook o n ∈ (plan c a e).1 →
        (plan c a e).1.getLast? = some (.postHook o n) ∧ (plan c a e).2 = 1) := by
  sorry

/-- hooks receive the start version and the announced version -/
theorem C10_hook_env (c : PlanCfg) (a : PlanCli) (e : PlanEnv) (ev : Ev)
    (h : ev ∈ (plan c a e).1) :
    (∀ o n, ev = .preHook o n → o = e.startVersion ∧ n = e.announced) ∧
    (∀ o n, ev = .postHook o n → o = e.startVersion ∧ n = e.announced) := by
  sorry

/-- exit 0 of a real committing run means every enabled step happened: rewrite, one `add`
    per configured file, commit, and the tag when tagging is on -/
theorem C10_success_complete (c : PlanCfg) (a : PlanCli) (e : PlanEnv)
    (h0 : (plan c a e).2 = 0) (hd : a.dry = false)
    (hc : Ev.cmd "commit" ∈ (plan c a e).1) :
    Ev.rewrite ∈ (plan c a e).1 ∧ (∀ p ∈ e.files, Ev.add p ∈ (plan c a e).1) ∧
    (effTag c a = true → ∃ ev ∈ (plan c a e).1, ev.isTag = true) := by
  sorry

/-! non-vacuity: a full run (hooks, three files, tag, push) and a failure in the middle -/
private def cfgAll : PlanCfg := ⟨true, true, true, true, true, false, false⟩
private def cliNone : PlanCli := ⟨none, none, none, false, false, none, false, false, false, false⟩
private def envOk (f : Option Nat) : PlanEnv :=
  ⟨.git, true, f, true, false, false, true, true, true, true, true,
   ["a".toList, "b".toList], "1.2.3".toList, "1.2.4".toList⟩
example : (plan cfgAll cliNone (envOk none)).2 = 0 ∧ (plan cfgAll cliNone (envOk none)).1.length = 13 := by
  decide
example : (plan cfgAll cliNone (envOk (some 4))).2 = 1 ∧
    (plan cfgAll cliNone (envOk (some 4))).1.getLast? = some (.add "a".toList) := by decide

end BV
