import BumpverVerif.Props.C01
open BV
#print axioms C01_parse_is_full_match
#print axioms C01_gate_sound
#print axioms C01_not_greater_rejected
#print axioms C01_test_sound
#print axioms C01_update_sound
#print axioms C01_otherwise_nonzero
#print axioms C01_rejected_no_rewrite
