/- Audit of the "generated definition = hand model" theorems of the group `format`
   (harness/translate_format.py → Gen/F_<name>.lean, Proofs/Tie_<name>.lean): the RENDER side of the new-style version
   engine.  Allowed axioms: propext, Classical.choice, Quot.sound. -/
import BumpverVerif.Proofs.Tie_isZeroVal
import BumpverVerif.Proofs.Tie_formatSegment
import BumpverVerif.Proofs.Tie_formatSegmentTree
import BumpverVerif.Proofs.Tie_parseSegtree
import BumpverVerif.Proofs.Tie_formatPartValues
import BumpverVerif.Proofs.Tie_formatVersion
import BumpverVerif.Proofs.Tie_iterFlatSegtree
import BumpverVerif.Proofs.Tie_parsePatternFields

#print axioms BV.tie_isZeroVal
#print axioms BV.tie_formatSegment
#print axioms BV.tie_formatSegmentTree
#print axioms BV.tie_formatSegmentTree_group
#print axioms BV.tie_formatSegmentTree_root
#print axioms BV.tie_parseSegtree
#print axioms BV.tie_parseSegtree_ok
#print axioms BV.tie_parseSegtree_error
#print axioms BV.parseSegtree_error
#print axioms BV.tie_formatPartValues
#print axioms BV.partFields_keys_ne
#print axioms BV.formatPartValues_keys_ne
#print axioms BV.tie_formatVersion
#print axioms BV.tie_formatVersion_ok
#print axioms BV.tie_iterFlatSegtree
#print axioms BV.tie_parsePatternFields
