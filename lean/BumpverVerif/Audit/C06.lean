import BumpverVerif.Props.C06
open BV
#print axioms C06_all_or_nothing
#print axioms C06_error_iff
#print axioms C06_success_writes
#print axioms C06_missing_pattern_fails
#print axioms C06_no_vcs_after_failure
#print axioms C06_lazy_partial_write_witness
