/- Audit of the composed model of `bumpver update` for LEGACY configurations (Model/UpdateV1.lean, Props/UpdateV1.lean).
   Allowed axioms: propext, Classical.choice, Quot.sound. -/
import BumpverVerif.Props.UpdateV1

#print axioms BV.updateFullV1_valid
#print axioms BV.updateFullV1_invalid
#print axioms BV.updateFullV1_events
#print axioms BV.UpdateV1_untouched_without_rewrite
#print axioms BV.UpdateV1_rewrite_needs
#print axioms BV.UpdateV1_failed_leaves_untouched
#print axioms BV.UpdateV1_dry_pure
#print axioms BV.UpdateV1_written_version_sound
#print axioms BV.UpdateV1_newV_readback
#print axioms BV.UpdateV1_writes_all
#print axioms BV.UpdateV1_other_files
#print axioms BV.UpdateV1_hook_env
#print axioms BV.UpdateV1_dirty_blocks
#print axioms BV.UpdateV1_dry_ok_real_ok
#print axioms BV.UpdateV1_rewrite_witness
