/- Audit of the "generated definition = hand model" theorems of the group `parse` (harness/translate_parse.py →
   Gen/F_<name>.lean, Proofs/Tie_<name>.lean): the READ side of the new-style version engine.
   Allowed axioms: propext, Classical.choice, Quot.sound. -/
import BumpverVerif.Proofs.Tie_dateFromDoy
import BumpverVerif.Proofs.Tie_calInfo
import BumpverVerif.Proofs.Tie_parseCinfo
import BumpverVerif.Proofs.Tie_parseVinfo
import BumpverVerif.Proofs.Tie_parseVersionInfo
import BumpverVerif.Proofs.Tie_isValid

#print axioms BV.tie_dateFromDoy
#print axioms BV.tie_dateFromDoy_model
#print axioms BV.dateFromDoy_year_out_of_range
#print axioms BV.dateFromDoy_big_year
#print axioms BV.tie_calInfo
#print axioms BV.tie_parseCinfo
#print axioms BV.tie_parseCinfo_model
#print axioms BV.parseCinfo_yearOutOfRange_model
#print axioms BV.tie_parseCinfo_collapse
#print axioms BV.tie_parseVinfo
#print axioms BV.tie_parseVinfo_model
#print axioms BV.parseVinfo_yearOutOfRange_model
#print axioms BV.tie_parseVinfo_collapse
#print axioms BV.parseVinfo_invalidKey
#print axioms BV.vinfo_of_groupdict
#print axioms BV.tie_parseVersionInfo
#print axioms BV.tie_isValid
