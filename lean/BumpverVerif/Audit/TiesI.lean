/- Audit of the source-level ties of group `v1` (legacy `{…}` engine: v1version.py, v1patterns.py, cli.incr_dispatch):
   harness/translate_v1.py → Gen/F_<name>.lean, Proofs/Tie_<name>.lean.
   Allowed axioms: propext, Classical.choice, Quot.sound. -/
import BumpverVerif.Proofs.Tie_v1ParseFieldValues
import BumpverVerif.Proofs.Tie_v1ParseGroups
import BumpverVerif.Proofs.Tie_v1ParseVersionInfo
import BumpverVerif.Proofs.Tie_v1IsValid
import BumpverVerif.Proofs.Tie_v1Incr
import BumpverVerif.Proofs.Tie_v1FormatVersion
import BumpverVerif.Proofs.Tie_v1ReplacePatternParts
import BumpverVerif.Proofs.Tie_v1CompilePatternRe
import BumpverVerif.Proofs.Tie_v1NormalizedPattern
import BumpverVerif.Proofs.Tie_v1CompilePattern
import BumpverVerif.Proofs.Tie_v1IncrDispatch

#print axioms BV.pfv_model_eq_spec
#print axioms BV.tie_v1ParseFieldValues
#print axioms BV.tie_v1ParseFieldValues_bid_none_witness
#print axioms BV.tie_v1ParseFieldValues_bid_none_alone
#print axioms BV.tie_v1ParseGroups
#print axioms BV.tie_v1ParseVersionInfo
#print axioms BV.tie_v1IsValid
#print axioms BV.tie_v1Incr
#print axioms BV.tie_v1Incr_today
#print axioms BV.v1FormatVersion_spec
#print axioms BV.v1IdFieldsByPart_ok
#print axioms BV.tie_v1FormatVersion
#print axioms BV.tie_v1FormatVersion_bid_witness
#print axioms BV.tie_v1ReplacePatternParts
#print axioms BV.tie_v1CompilePatternRe
#print axioms BV.rePatternEscapes_nonempty
#print axioms BV.tie_v1CompilePatternRe_tables
#print axioms BV.tie_v1NormalizedPattern
#print axioms BV.tie_v1CompilePattern
#print axioms BV.tie_v1CompilePattern_one
#print axioms BV.tie_v1CompilePattern_fields
#print axioms BV.tie_v1IncrDispatch_hasV1Part
#print axioms BV.tie_v1IncrDispatch
