import BumpverVerif.Props.C02Tie
open BV
#print axioms compile_tie
#print axioms compileStr_tie
#print axioms parse_tie
#print axioms tokenize_tie
#print axioms format_tie
#print axioms compile_tie_text
#print axioms compile_tie_some
#print axioms parseVersionInfo_tie
#print axioms C02_accepted_in_full_str
#print axioms C02_roundtrip_str
#print axioms C02_roundtrip_code
#print axioms C02Tie_readme_tokSafe
#print axioms C02Tie_readme
#print axioms tie_needs_condition
#print axioms bracketsToGroups_eq_brAll
