import BumpverVerif.Props.C17
open BV
#print axioms C17_closed
#print axioms C17_int_strict
#print axioms C17_lex_strict
#print axioms C17_width
#print axioms C17_max_only
#print axioms C17_chain_int
#print axioms C17_chain_lex
#print axioms C17_pad_drops_zeros_witness
#print axioms C17_render_verbatim
