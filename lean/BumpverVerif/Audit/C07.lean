import BumpverVerif.Props.C07
open BV
#print axioms C07_table_shape
#print axioms C07_table_complete
#print axioms C07_escape_pointwise
#print axioms C07_literal_compiles
#print axioms C07_anchored
#print axioms C07_lits_match_is_occurrence
#print axioms C07_lits_finds
#print axioms C07_lits_only
#print axioms C07_pipe_witness
