import BumpverVerif.Props.C10
open BV
#print axioms C10_reject_iff
#print axioms C10_reject_first
#print axioms C10_order
#print axioms C10_commit_gated
#print axioms C10_tag_push_gated
#print axioms C10_add_hook_gated
#print axioms C10_dry
#print axioms C10_no_fetch
#print axioms C10_dirty_blocks
#print axioms C10_status_before_rewrite
#print axioms C10_stop_at_failure
#print axioms C10_hook_failure_stops
#print axioms C10_hook_env
#print axioms C10_success_complete
#print axioms tie_parseVcsOptions
#print axioms parseVcsOptions_bad_scope
