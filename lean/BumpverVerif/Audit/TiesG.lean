/- Audit of the "generated definition = hand model" theorems of the file REWRITE path
   (harness/translate_rewrite.py → Gen/F_<name>.lean, Proofs/Tie_<name>.lean).
   Allowed axioms: propext, Classical.choice, Quot.sound. -/
import BumpverVerif.Proofs.Tie_iterForPattern
import BumpverVerif.Proofs.Tie_iterMatches
import BumpverVerif.Proofs.Tie_rewriteLines
import BumpverVerif.Proofs.Tie_rfdFromContent
import BumpverVerif.Proofs.Tie_iterRewritten
import BumpverVerif.Proofs.Tie_rewriteFiles
import BumpverVerif.Proofs.Tie_iterPathPatternsItems
import BumpverVerif.Proofs.Tie_patternsWithChange
import BumpverVerif.Proofs.Tie_diff
import BumpverVerif.Proofs.Tie_rewriteSource

-- 1. parse._iter_for_pattern, parse.iter_matches                       (C03)
#print axioms BV.tie_iterForPattern
#print axioms BV.iterForPattern_fields
#print axioms BV.tie_iterMatches
#print axioms BV.iterMatches_pattern_mem
-- 2. v2rewrite.rewrite_lines                                           (C03)
#print axioms BV.tie_rewriteLines
-- 3. v2rewrite.rfd_from_content                                        (C04)
#print axioms BV.tie_rfdFromContent
#print axioms BV.tie_rfdFromContent_content
-- 4. v2rewrite.iter_rewritten (+ rewrite.iter_path_patterns_items inlined), rewrite_files   (C06)
#print axioms BV.tie_iterRewritten
#print axioms BV.tie_iterRewritten_planWrites
#print axioms BV.tie_rewriteFiles
-- 5. v2rewrite.diff (+ iter_path_patterns_items run to exhaustion, _patterns_with_change)   (C13)
#print axioms BV.tie_iterPathPatternsItems
#print axioms BV.tie_patternsWithChange
#print axioms BV.patternsWithChange_raises
#print axioms BV.tie_diff
#print axioms BV.tie_diff_pure
#print axioms BV.diffFold_outcome
#print axioms BV.tie_diff_ok_iff
-- the property theorems transported to the generated code (Proofs/Tie_rewriteSource.lean)
#print axioms BV.src_C03_every_occurrence
#print axioms BV.src_C03_all_patterns_found
#print axioms BV.src_C04_line_count
#print axioms BV.src_C04_unmatched_lines
#print axioms BV.src_C04_old_content
#print axioms BV.src_C04_other_files
#print axioms BV.src_C06_all_or_nothing
#print axioms BV.src_C13_dry_ok_real_ok
#print axioms BV.src_C13_diff_pure
