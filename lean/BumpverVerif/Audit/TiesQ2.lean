/- Audit of `TieQ.searchOk_groupsOf` (the model-side matcher `groupsOf` followed by the reference `ofGroups` is the model's
   `parsePep` on every string), `TieQ.splitOk_legacyTokens`, and the model-level ties / C16 / C15 source-level corollaries
   instantiated WITHOUT the hypotheses `SearchOk` / `SplitOk` (Proofs/TieQ_SearchOk.lean).
   Allowed axioms: propext, Classical.choice, Quot.sound. -/
import BumpverVerif.Proofs.TieQ_SearchOk

#print axioms BV.TieQ.preSeg_groups
#print axioms BV.TieQ.postSeg_groups
#print axioms BV.TieQ.devSeg_groups
#print axioms BV.TieQ.localSeg_groups
#print axioms BV.TieQ.head_groups
#print axioms BV.TieQ.tail_groups
#print axioms BV.TieQ.groupsCore_ofGroups
#print axioms BV.TieQ.searchOk_groupsOf
#print axioms BV.TieQ.splitOk_legacyTokens
#print axioms BV.tie_pepParse_model_groupsOf
#print axioms BV.tie_pepParse_key_groupsOf
#print axioms BV.tie_pepParse_groupsOf
#print axioms BV.tie_pepToPep440_model_groupsOf
#print axioms BV.C16_sourceQ_le_groupsOf
#print axioms BV.C15_sourceQ_to_pep440_groupsOf
#print axioms BV.C16_sourceQ_to_pep440_idempotent_groupsOf
#print axioms BV.tie_pepParseVersion_closed
#print axioms BV.tie_pepParseVersion_key_closed
#print axioms BV.C15_sourceQ_to_pep440_closed
#print axioms BV.C16_sourceQ_le_closed
