import BumpverVerif.Props.C04
open BV
#print axioms C04_join_split
#print axioms C04_sep_detect
#print axioms C04_line_count
#print axioms C04_unmatched_lines
#print axioms C04_single_span
#print axioms C04_content_identity
#print axioms C04_other_files
#print axioms tie_hasOverlap
#print axioms tie_detectLineSep
