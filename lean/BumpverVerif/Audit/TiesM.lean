/- Audit of the LEGACY rewrite path (v1rewrite.py): the hand model Model/V1Rewrite.lean, its property theorems
   (Props/V1Rewrite.lean) and the "generated definition = hand model" theorems
   (harness/translate_v1rewrite.py → Gen/F_v1<name>.lean, Proofs/Tie_v1<name>.lean).
   Allowed axioms: propext, Classical.choice, Quot.sound. -/
import BumpverVerif.Props.V1Rewrite
import BumpverVerif.Proofs.Tie_v1RewriteLines
import BumpverVerif.Proofs.Tie_v1RfdFromContent
import BumpverVerif.Proofs.Tie_v1IterRewritten
import BumpverVerif.Proofs.Tie_v1RewriteFiles
import BumpverVerif.Proofs.Tie_v1Diff
import BumpverVerif.Proofs.Tie_v1RewriteSource

-- 0. Model/Rewrite.lean is the instance of the generic engine at v2Engine
#print axioms BV.v2Engine_iterMatches
#print axioms BV.v2Engine_rewriteLines
#print axioms BV.v2Engine_rewriteContent
#print axioms BV.v2Engine_planWrites
#print axioms BV.v2Engine_rewriteFiles
#print axioms BV.v2Engine_rewriteFilesLazy
#print axioms BV.C03_every_occurrence_from_generic
-- 1. the legacy renderer's exceptions
#print axioms BV.v1FormatVersion_errors
#print axioms BV.v1ErrToPErr_faithful
-- 2. property theorems for the legacy path                              (C03 C04 C06 C13)
#print axioms BV.V1_C03_matches_disjoint
#print axioms BV.V1_C03_matches_in_bounds
#print axioms BV.V1_C03_all_patterns_found
#print axioms BV.V1_C03_every_occurrence
#print axioms BV.V1_C03_version_placeholder
#print axioms BV.V1_C03_shared_line_witness
#print axioms BV.V1_C04_line_count
#print axioms BV.V1_C04_unmatched_lines
#print axioms BV.V1_C04_single_span
#print axioms BV.V1_C04_only_spans
#print axioms BV.V1_C04_content_identity
#print axioms BV.V1_C04_content_lines
#print axioms BV.V1_C04_other_files
#print axioms BV.V1_C06_all_or_nothing
#print axioms BV.V1_C06_error_iff
#print axioms BV.V1_C06_success_writes
#print axioms BV.V1_C06_missing_pattern_fails
#print axioms BV.V1_C06_render_crash_fails
#print axioms BV.V1_C06_lazy_partial_write_witness
#print axioms BV.V1_C13_same_new_lines
#print axioms BV.V1_C13_dry_ok_real_ok
#print axioms BV.V1_C13_dry_ok_real_ok_sorted
#print axioms BV.V1_C13_dry_shows_real
#print axioms BV.V1_C13_no_change_error_is_dry_only
-- 3. source-level ties: v1rewrite.rewrite_lines, rfd_from_content, iter_rewritten, rewrite_files, diff
#print axioms BV.TieM.iterMatches_tie
#print axioms BV.tie_v1RewriteLines
#print axioms BV.tie_v1RfdFromContent
#print axioms BV.tie_v1RfdFromContent_content
#print axioms BV.tie_v1IterRewritten
#print axioms BV.tie_v1IterRewritten_planWrites
#print axioms BV.tie_v1RewriteFiles
#print axioms BV.tie_v1Diff
#print axioms BV.tie_v1Diff_pure
#print axioms BV.tie_v1Diff_outcome
-- 4. the property theorems transported to the generated code (Proofs/Tie_v1RewriteSource.lean)
#print axioms BV.tie_v1IterMatches
#print axioms BV.src_V1_C03_every_occurrence
#print axioms BV.src_V1_C03_all_patterns_found
#print axioms BV.src_V1_C04_line_count
#print axioms BV.src_V1_C04_unmatched_lines
#print axioms BV.src_V1_C04_single_span
#print axioms BV.src_V1_C04_old_content
#print axioms BV.src_V1_C04_other_files
#print axioms BV.src_V1_C06_all_or_nothing
#print axioms BV.src_V1_C13_dry_ok_real_ok
#print axioms BV.src_V1_C13_diff_pure
