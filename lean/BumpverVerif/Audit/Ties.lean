/- Audit of the "generated definition = hand model" theorems (harness/translate_funcs.py →
   Gen/F_<name>.lean, Proofs/Tie_<name>.lean).  Allowed axioms: propext, Classical.choice, Quot.sound. -/
import BumpverVerif.Proofs.Tie_hasOverlap
import BumpverVerif.Proofs.Tie_detectLineSep
import BumpverVerif.Proofs.Tie_quarterFromMonth
import BumpverVerif.Proofs.Tie_isCalGt
import BumpverVerif.Proofs.Tie_isValidWeekPattern
import BumpverVerif.Proofs.Tie_verToCalInfo
import BumpverVerif.Proofs.Tie_parseVcsOptions
import BumpverVerif.Proofs.Tie_parseLetterVersion

#print axioms BV.tie_hasOverlap
#print axioms BV.tie_detectLineSep
#print axioms BV.tie_quarterFromMonth
#print axioms BV.tie_isCalGt
#print axioms BV.tie_isValidWeekPattern
#print axioms BV.tie_verToCalInfo
#print axioms BV.tie_parseVcsOptions
#print axioms BV.parseVcsOptions_bad_scope
#print axioms BV.parseVcsOptions_empty_hook_differs
#print axioms BV.tie_parseLetterVersion
#print axioms BV.tie_parseLetterVersion_letterSeg
#print axioms BV.tie_parseLetterVersion_implicitPost
#print axioms BV.tie_parseLetterVersion_absent
