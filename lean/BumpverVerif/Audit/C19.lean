import BumpverVerif.Props.C19
open BV
#print axioms C19_prefers_section
#print axioms C19_candidates
#print axioms C19_pick_order
#print axioms C19_pick_first
#print axioms C19_prefix
#print axioms C19_dry_pure
#print axioms C19_refusal_pure
#print axioms C19_text_wellformed
#print axioms C19_initial_version
#print axioms C19_second_refuses
