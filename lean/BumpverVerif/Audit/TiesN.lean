/- Audit of builder N: hypotheses of the second-wave ties discharged for the text of `tokSafe` pattern trees
   (Proofs/TieN_*.lean) and property C02 on the translated Python functions (Props/C02Code.lean).
   Allowed axioms: propext, Classical.choice, Quot.sound. -/
import BumpverVerif.Proofs.TieN_Groups
import BumpverVerif.Proofs.TieN_Incr
import BumpverVerif.Proofs.TieN_Format
import BumpverVerif.Proofs.TieN_ReadBack
import BumpverVerif.Props.C02Code
open BV

-- item 1: `validGroupNames` is a theorem
#print axioms TieN.partFields_validKeys
#print axioms validGroupNames_compile
#print axioms validGroupNames_text
#print axioms tie_parseVersionInfo_text
#print axioms tie_isValid_text
#print axioms tie_parseVersionInfo_str
#print axioms TieN.noPlaceholder_of_noBrace
-- item 2: `hf` of `tie_incr` is a theorem
#print axioms parsePatternFields_text
#print axioms tie_incr_text
#print axioms tie_incr_str
-- item 3: the open end of `C02_roundtrip_code`
#print axioms TieN.valok_of_vok
#print axioms TieN.valok_of_agree
#print axioms TieN.formatVersion_valok
#print axioms TieN.calReadsBack_of_fields
#print axioms TieN.calFieldsReadBack_of_date
#print axioms TieN.calFieldsReadBack_of_texts
#print axioms TieN.parseWithRe_render
#print axioms TieN.readback_vok
#print axioms C02_roundtrip_code_full
#print axioms C02_readback_vok
#print axioms vok_readback_needs_condition
-- item 4: C02 on the translated Python functions
#print axioms C02_code
#print axioms C02_code_readback_vok
#print axioms C02_code_of_date
#print axioms C02_code_str
#print axioms C02Code_readme_noPlaceholder
#print axioms C02_code_readme
