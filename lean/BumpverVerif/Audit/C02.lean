import BumpverVerif.Props.C02
open BV
#print axioms C02_unbounded_shapes
#print axioms C02_nat_part
#print axioms C02_build_part
#print axioms C02_posint_part
#print axioms C02_bld_part
#print axioms C02_year_part
#print axioms C02_finite_parts
#print axioms C02_tag_parts
#print axioms C02_week53_witness
#print axioms C02_calinfo_domains
#print axioms C02_inc1_positive
#print axioms C02_accepted_in_full
#print axioms C02_roundtrip_ast
#print axioms C02_roundtrip_of_date
#print axioms C02_tagCoh_invariant
#print axioms C02_readme_patterns_wf
#print axioms C02_readme_tree_tie
