import BumpverVerif.Props.C11
open BV
#print axioms C11_decision
#print axioms C11_no_crash
#print axioms C11_pattern_file_always_blocks
#print axioms C11_untracked_unrelated_never_blocks
#print axioms C11_clean
#print axioms C11_unstaged_pattern_file_witness
