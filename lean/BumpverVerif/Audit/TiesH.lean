/- Audit of the "generated definition = hand model" theorems of the group `config`
   (harness/translate_config.py → Gen/F_<name>.lean, Proofs/Tie_<name>.lean): the configuration readers
   of src/bumpver/config.py (C18) and the `init` path (C19).
   Allowed axioms: propext, Classical.choice, Quot.sound. -/
import BumpverVerif.Proofs.Tie_parseCfgStrings
import BumpverVerif.Proofs.Tie_parseConfig
import BumpverVerif.Proofs.Tie_setRawConfigDefaults
import BumpverVerif.Proofs.Tie_parseCfgFilePatterns
import BumpverVerif.Proofs.Tie_parseCfg
import BumpverVerif.Proofs.Tie_parseToml
import BumpverVerif.Proofs.Tie_parseCurrentVersionDefaultPattern
import BumpverVerif.Proofs.Tie_pickConfigFile
import BumpverVerif.Proofs.Tie_defaultConfig
import BumpverVerif.Proofs.Tie_writeContent
import BumpverVerif.Proofs.Tie_initProjectCtx

#print axioms BV.tie_parseCfgStrings
#print axioms BV.tie_parseConfig_full
#print axioms BV.tie_parseConfig
#print axioms BV.tie_setRawConfigDefaults
#print axioms BV.tie_parseCfgFilePatterns
#print axioms BV.tie_parseCfg
#print axioms BV.tie_parseToml
#print axioms BV.tie_parseCurrentVersionDefaultPattern_general
#print axioms BV.tie_parseCurrentVersionDefaultPattern
#print axioms BV.tie_addSelfPattern
#print axioms BV.tie_pickConfigFile
#print axioms BV.tie_defaultConfig
#print axioms BV.tie_writeContent
#print axioms BV.tie_parseConfigAndFormat
#print axioms BV.tie_initProjectCtx
#print axioms BV.tie_init_write
#print axioms BV.tie_cliInit_written
