import BumpverVerif.Props.C05
open BV
#print axioms C05_initial_table
#print axioms C05_reset_rule
#print axioms C05_reset_untouched
#print axioms C05_incr_numeric
#print axioms C05_build_strict_tag_carried
#print axioms C05_final_has_no_num
#print axioms C05_pin_date_keeps
#print axioms C05_pin_date_not_future
#print axioms C05_calendar_never_backwards
#print axioms C05_optional_omission
#print axioms C05_zero_values
#print axioms C05_omitted_renders_empty
#print axioms tie_isCalGt
#print axioms tie_verToCalInfo
