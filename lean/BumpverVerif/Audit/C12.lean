import BumpverVerif.Props.C12
open BV
#print axioms C12_git_commit_argv
#print axioms C12_git_tag_argv
#print axioms C12_git_tag_light_argv
#print axioms C12_git_add_argv
#print axioms C12_git_push_tag_argv
#print axioms C12_git_push_argv
#print axioms C12_hg_commit_argv
#print axioms C12_hg_tag_argv
#print axioms C12_hg_tag_light_argv
#print axioms C12_hg_add_argv
#print axioms C12_hg_push_tag_argv
#print axioms C12_table_shape
#print axioms C12_single_argument
#print axioms C12_message_render
#print axioms C12_commit_message_end_to_end
#print axioms C12_legacy_injection_witness
#print axioms C12_legacy_quote_crash_witness
