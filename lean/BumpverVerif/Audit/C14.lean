import BumpverVerif.Props.C14
open BV
#print axioms C14_step
#print axioms C14_fields_monotone
#print axioms C14_dates_monotone
#print axioms C14_ordinal_roundtrip
#print axioms C14_doy_roundtrip
#print axioms C14_doy366_common_year_witness
#print axioms C14_rejected_iff
#print axioms C14_rejected_iff'
#print axioms C14_rejected_not_coherent
#print axioms C14_rejected_nonmonotone
#print axioms C14_rejected_witness_dates
#print axioms C14_guard
#print axioms C14_guard_shapes
#print axioms C14_guard_derived_quarter
#print axioms C14_guard_full_date
#print axioms C14_guard_needs_exact_fields
#print axioms tie_isCalGt
#print axioms tie_isValidWeekPattern
#print axioms tie_quarterFromMonth
