import BumpverVerif.Props.C09
open BV
#print axioms C09_matching_tags
#print axioms C09_latest_none_iff
#print axioms C09_latest_is_max
#print axioms C09_no_matching_tag
#print axioms C09_start_default
#print axioms C09_start_global_branch
#print axioms C09_junk_irrelevant
#print axioms C09_never_breaks
#print axioms C09_new_not_a_tag
#print axioms C09_new_above_scope_tags
