import BumpverVerif.Props.C18
open BV
#print axioms C18_equiv
#print axioms C18_sections
#print axioms C18_requires_commit
#print axioms C18_requires_commit_formats
#print axioms C18_self_pattern
#print axioms C18_bool_spellings
#print axioms C18_bool_spellings_table
#print axioms C18_quoted_bool_witness
#print axioms C18_self_pattern_mixed_quotes_witness
