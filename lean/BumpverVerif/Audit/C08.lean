import BumpverVerif.Props.C08
open BV
#print axioms C08_step_greater
#print axioms C08_step_fail
#print axioms C08_step_consistent
#print axioms C08_history_consistent
#print axioms C08_show_is_config
#print axioms C08_newest_tag
#print axioms C08_history_monotone
#print axioms C08_next_possible
