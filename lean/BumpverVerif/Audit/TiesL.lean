/-
  Audit/TiesL.lean — axioms of the command ties (harness/translate_commands.py; generated definitions Gen/F_cmd*.lean,
  namespace BV.GenL; documented in harness/TRANSLATE_COMMANDS.md).
-/
import BumpverVerif.Proofs.Tie_cmdNormalizeSetVersion
import BumpverVerif.Proofs.Tie_cmdIsValidVersion
import BumpverVerif.Proofs.Tie_cmdUpdateCfgFromVcs
import BumpverVerif.Proofs.Tie_cmdTest
import BumpverVerif.Proofs.Tie_cmdTestAny
import BumpverVerif.Proofs.Tie_cmdUpdate
import BumpverVerif.Proofs.Tie_cmdUpdateExtra

#print axioms BV.TieL.formatVersion_not_pattern
#print axioms BV.tie_normalizeSetVersion_new
#print axioms BV.tie_normalizeSetVersion_legacy
#print axioms BV.TieL.normalizeSetVersion_state

#print axioms BV.tie_cmdIsValidVersion_new
#print axioms BV.tie_cmdIsValidVersion_legacy
#print axioms BV.TieL.cmdIsValidVersion_not_unique
#print axioms BV.TieL.gate_split

#print axioms BV.TieL.cmdGetLatest_of_tags
#print axioms BV.tie_cmdGetLatest_new
#print axioms BV.tie_cmdGetLatest_legacy
#print axioms BV.tie_cmdUpdateCfgFromVcs
#print axioms BV.tie_cmdUpdateCfgFromVcs_new
#print axioms BV.TieL.updCfg_startVersion
#print axioms BV.TieL.updCfg_fields

#print axioms BV.TieL.incrDispatch_verbose
#print axioms BV.TieL.incrDispatch_new
#print axioms BV.TieL.cmdTest_valid
#print axioms BV.TieL.cmdTest_invalid
#print axioms BV.tie_cmdTest
#print axioms BV.TieL.incrDispatch_any
#print axioms BV.TieL.cmdTest_valid_any
#print axioms BV.tie_cmdTest_any
#print axioms BV.TieL.testCoreAny_new
#print axioms BV.TieL.dispatchCliTest_eq_testCoreAny

#print axioms BV.TieL.getTags_full
#print axioms BV.TieL.parseVcsOptions_fields
#print axioms BV.TieL.plan_eq_staged
#print axioms BV.tie_cmdUpdate_updateFull
#print axioms BV.tie_cmdUpdate_plan
#print axioms BV.cmdUpdate_no_config
#print axioms BV.cmdUpdate_unparsable_date
#print axioms BV.updateRealises_exists
#print axioms BV.decide_cliUpdateVersion
#print axioms BV.cmdUpdate_writes_only_announced
#print axioms BV.cmdUpdate_dry_pure
#print axioms BV.cmdUpdate_failed_leaves_untouched
