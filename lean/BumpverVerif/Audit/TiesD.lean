/- Audit of the "generated definition = hand model" theorems for the decision functions of cli.py, for
   `_cmpkey` and for `_pick_config_filepath` (harness/translate_cli.py → Gen/F_<name>.lean, namespace BV.GenC;
   Proofs/Tie_<name>.lean).  Allowed axioms: propext, Classical.choice, Quot.sound. -/
import BumpverVerif.Proofs.Tie_isValidVersion
import BumpverVerif.Proofs.Tie_parseVersionTags
import BumpverVerif.Proofs.Tie_getLatestVcsVersionTag
import BumpverVerif.Proofs.Tie_updateCfgFromVcs
import BumpverVerif.Proofs.Tie_validateReleaseTag
import BumpverVerif.Proofs.Tie_validateFlags
import BumpverVerif.Proofs.Tie_validateDate
import BumpverVerif.Proofs.Tie_incrDispatch
import BumpverVerif.Proofs.Tie_cmpkey
import BumpverVerif.Proofs.Tie_pickConfigFilepath
import BumpverVerif.Proofs.TieD_Source

#print axioms BV.tie_isValidVersion_new
#print axioms BV.tie_isValidVersion_legacy
#print axioms BV.isValidVersion_true_iff_accept
#print axioms BV.tie_parseVersionTags_new
#print axioms BV.tie_parseVersionTags_legacy
#print axioms BV.tie_getLatestVcsVersionTag_new
#print axioms BV.tie_getLatestVcsVersionTag_legacy
#print axioms BV.head?_pySortedRev_latestOf
#print axioms BV.tie_updateCfgFromVcs_new
#print axioms BV.tie_updateCfgFromVcs_legacy
#print axioms BV.updateCfgFromVcs_record
#print axioms BV.tie_validateReleaseTag
#print axioms BV.tie_validateFlags
#print axioms BV.tie_validateDate
#print axioms BV.validateDate_conflict
#print axioms BV.validateDate_absent
#print axioms BV.tie_incrDispatch
#print axioms BV.dispatchIncr_eq_generated
#print axioms BV.tie_cmpkey
#print axioms BV.tie_cmpkey_raw
#print axioms BV.cmpkey_order
#print axioms BV.tie_pickConfigFilepath
#print axioms BV.pyMaxBy_latestOf
#print axioms BV.C01_source_gate_sound
#print axioms BV.C01_source_not_greater_rejected
#print axioms BV.C09_source_new_not_a_tag
#print axioms BV.C09_source_start_default
#print axioms BV.C09_source_start_global_branch
#print axioms BV.C16_source_le
#print axioms BV.C19_source_prefers_section
