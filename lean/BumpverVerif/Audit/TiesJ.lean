/- Audit of the "generated definition = hand model" theorems of the group `patterns`
   (harness/translate_patterns.py → Gen/F_<name>.lean, Proofs/Tie_<name>.lean: the pattern COMPILER of
   src/bumpver/v2patterns.py).  Allowed axioms: propext, Classical.choice, Quot.sound. -/
import BumpverVerif.Proofs.Tie_iterPartPatterns
import BumpverVerif.Proofs.Tie_replacePatternParts
import BumpverVerif.Proofs.Tie_compilePatternRe
import BumpverVerif.Proofs.Tie_convertToPep440
import BumpverVerif.Proofs.Tie_normalizePattern
import BumpverVerif.Proofs.Tie_compilePattern

#print axioms BV.tie_iterPartPatterns
#print axioms BV.tie_iterPartPatterns_gen
#print axioms BV.tie_replacePatternParts
#print axioms BV.tie_compilePatternRe
#print axioms BV.tie_compilePatternRe_gen
#print axioms BV.tie_convertToPep440
#print axioms BV.pep440IndexError_false
#print axioms BV.gen_pep440IndexError_false
#print axioms BV.tie_convertToPep440_gen_total
#print axioms BV.tie_normalizePattern
#print axioms BV.tie_compilePattern
#print axioms BV.tie_compilePatterns
#print axioms BV.PyP.sorted_dictOfPairs
