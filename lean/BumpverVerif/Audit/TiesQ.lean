/- Audit of the "generated definition = hand model" theorems for the PEP 440 version classes of
   `setuptools_v65_version.py` and their callers `version.parse_version` / `version.to_pep440`
   (harness/translate_pepversion.py → Gen/F_pep<Name>.lean, namespace BV.GenQ; Proofs/Tie_pep*.lean,
   Proofs/TieQ_Groups.lean, Proofs/TieQ_Source.lean).  Allowed axioms: propext, Classical.choice, Quot.sound. -/
import BumpverVerif.Proofs.Tie_pepParseLocalVersion
import BumpverVerif.Proofs.Tie_pepVersionInit
import BumpverVerif.Proofs.Tie_pepVersionStr
import BumpverVerif.Proofs.Tie_pepLegacy
import BumpverVerif.Proofs.Tie_pepParse
import BumpverVerif.Proofs.TieQ_Source

#print axioms BV.tie_pepParseLocalVersion
#print axioms BV.tie_pepParseLocalVersion_model
#print axioms BV.tie_parseLetterVersion_full
#print axioms BV.tie_pepVersionInit
#print axioms BV.tie_pepVersionInit_abs
#print axioms BV.tie_pepVersionInit_key
#print axioms BV.tie_pepVersionInit_invalid
#print axioms BV.tie_pepVersionEpoch
#print axioms BV.tie_pepVersionRelease
#print axioms BV.tie_pepVersionPre
#print axioms BV.tie_pepVersionPost
#print axioms BV.tie_pepVersionDev
#print axioms BV.tie_pepVersionLocal
#print axioms BV.tie_pepVersionStr
#print axioms BV.tie_pepVersionBaseVersion
#print axioms BV.tie_pepParseVersionParts
#print axioms BV.tie_pepLegacyCmpkey
#print axioms BV.tie_pepLegacyCmpkey_epoch
#print axioms BV.tie_pepLegacyInit
#print axioms BV.tie_pepLegacyStr
#print axioms BV.tie_pepParse
#print axioms BV.tie_pepParseVersion
#print axioms BV.tie_pepToPep440
#print axioms BV.tie_pepParse_model
#print axioms BV.tie_pepParse_key
#print axioms BV.tie_pepToPep440_model
#print axioms BV.C16_sourceQ_legacy_key_below
#print axioms BV.C16_sourceQ_legacy_below
#print axioms BV.C16_sourceQ_le
#print axioms BV.C16_sourceQ_str_reparses
#print axioms BV.C15_sourceQ_to_pep440
#print axioms BV.C16_sourceQ_to_pep440_idempotent
