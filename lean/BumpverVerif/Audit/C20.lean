/- Audit/C20.lean — axioms of every theorem of Props/C20.lean -/
import BumpverVerif.Props.C20
#print axioms BV.C20_composite_init
#print axioms BV.C20_finite_parts
#print axioms BV.C20_tag_parts
#print axioms BV.C20_unbounded_shapes
#print axioms BV.C20_nat_part
#print axioms BV.C20_build_no_part
#print axioms BV.C20_bid_part
#print axioms BV.C20_rough_edge_witnesses
#print axioms BV.C20_dispatch
#print axioms BV.C20_dispatch_legacy_everywhere
#print axioms BV.C20_dispatch_foo_witness
#print axioms BV.C20_pycalver_strict
#print axioms BV.C20_pycalver_release_tuple
#print axioms BV.C20_pycalver_string
#print axioms BV.C20_pycalver_text_example
#print axioms BV.C20_pycalver_chain
#print axioms BV.C20_bid_agrees_C17
#print axioms BV.C20_bid_below_1000_example
#print axioms BV.C20_pycalver_rec_example
#print axioms BV.C20_bump_example
#print axioms BV.C20_dispatch_example
#print axioms BV.C20_gate_greater
#print axioms BV.C20_test_greater
