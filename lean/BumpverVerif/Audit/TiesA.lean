/- Audit of the "generated definition = hand model" theorems for the bump core of v2version.py
   (harness/translate_funcs.py → Gen/F_<name>.lean, Proofs/Tie_<name>.lean).
   Allowed axioms: propext, Classical.choice, Quot.sound. -/
import BumpverVerif.Proofs.Tie_VInfoDyn
import BumpverVerif.Proofs.Tie_iterResetFieldItems
import BumpverVerif.Proofs.Tie_resetRolloverFields
import BumpverVerif.Proofs.Tie_incrNumeric
import BumpverVerif.Proofs.Tie_incr

#print axioms BV.tie_getattrVInfo
#print axioms BV.TieA.ofdict_asdict
#print axioms BV.tie_iterResetFieldItems_full
#print axioms BV.tie_iterResetFieldItems
#print axioms BV.tie_resetRolloverFields
#print axioms BV.tie_resetRolloverFields_error
#print axioms BV.tie_incrNumeric
#print axioms BV.tie_incrNumeric_fields_error
#print axioms BV.TieA.parsePatternFields_known
#print axioms BV.TieA.incr_eq
#print axioms BV.tie_incr
