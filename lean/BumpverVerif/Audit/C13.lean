import BumpverVerif.Props.C13
open BV
#print axioms C13_dry_pure
#print axioms C13_same_new_lines
#print axioms C13_dry_ok_real_ok
#print axioms C13_dry_shows_real
#print axioms C13_apply_sound
#print axioms C13_apply_complete
#print axioms C13_hunk_counts
