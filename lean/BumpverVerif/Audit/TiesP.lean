/- Audit of the "generated definition = reference / hand model" theorems of the group `filepatterns`
   (harness/translate_filepatterns.py → Gen/F_<name>.lean, Proofs/Tie_<name>.lean): how the configured
   `file_patterns` of src/bumpver/config.py become the map (file → compiled patterns) — C18, C03, C13, C08, C04.
   Allowed axioms: propext, Classical.choice, Quot.sound. -/
import BumpverVerif.Proofs.Tie_iterGlobExpandedFilePatterns
import BumpverVerif.Proofs.Tie_compileV2FilePatterns
import BumpverVerif.Proofs.Tie_compileFilePatterns
import BumpverVerif.Proofs.Tie_validateVersionWithPattern
import BumpverVerif.Proofs.Tie_parseRawConfig
import BumpverVerif.Proofs.Tie_parseConfigInst
import BumpverVerif.Proofs.Tie_compileCalleesInst

-- 1. `_iter_glob_expanded_file_patterns`
#print axioms BV.tie_iterGlobExpandedFilePatterns
#print axioms BV.tie_iterGlobExpandedFilePatterns_model
#print axioms BV.TieP.iterGlobExpandedE_total
#print axioms BV.TieP.iterGlobExpandedE_append_raise
-- 2. `_compile_v2_file_patterns`, `_compile_v1_file_patterns`, `_compile_file_patterns`
#print axioms BV.tie_compileV2FilePatterns
#print axioms BV.tie_compileV1FilePatterns
#print axioms BV.tie_compileFilePatterns
#print axioms BV.tie_compileFilePatterns_model
#print axioms BV.tie_compileFilePatterns_compileOf
#print axioms BV.TieP.compileFilePatternsE_model
#print axioms BV.TieP.merge_exact
#print axioms BV.TieP.lookup_foldl_mergeIntoG
#print axioms BV.TieP.keys_foldl_mergeIntoG
#print axioms BV.compileFilePatterns_gen_ok
#print axioms BV.compileFilePatterns_merge_nodup
#print axioms BV.compileFilePatterns_merge_order
#print axioms BV.compileFilePatterns_merge_lookup
#print axioms BV.compileFilePatterns_merge_exact
#print axioms BV.compileFilePatterns_keys_configured
#print axioms BV.compileFilePatterns_keys_complete
-- 3. `_validate_version_with_pattern`
#print axioms BV.tie_validateVersionWithPattern
#print axioms BV.validateVersionE_model
#print axioms BV.tie_validateVersionWithPattern_gen
-- 4. `_parse_raw_config` (the own-entry rule)
#print axioms BV.tie_parseRawConfig
#print axioms BV.parseRawConfig_own_entry
-- agent H's parameters instantiated
#print axioms BV.TieP.genParseConfig_congr
#print axioms BV.tie_parseConfig_instantiated
#print axioms BV.tie_parseConfig_full_instantiated
-- C04 on the generated `config.parse` chain
#print axioms BV.TieP.genParseConfig_file_patterns
#print axioms BV.parseConfig_keys_configured
#print axioms BV.parse_keys_configured
-- the callees of the compile step instantiated by generated code (groups J and I)
#print axioms BV.genCallees_agree
#print axioms BV.tie_parseConfig_full_generated
