import BumpverVerif.Props.C16
open BV
#print axioms C16_cmp_antisymm
#print axioms C16_cmp_eq_iff
#print axioms C16_refl
#print axioms C16_trans
#print axioms C16_total
#print axioms C16_lt_iff
#print axioms C16_eq_iff_key_eq
#print axioms C16_eqKey_iff
#print axioms C16_strings
#print axioms C16_legacy_below
#print axioms C16_legacy_below_strings
#print axioms C16_agrees
#print axioms C16_parse_wf
#print axioms C16_agrees_strings
#print axioms C16_str_canonical
#print axioms C16_str_canonical_key
#print axioms C16_str_injective
#print axioms C16_str_idempotent
#print axioms C16_witness_chain
#print axioms C16_witness_trailing_zero
#print axioms C16_witness_bumpver
#print axioms C16_witness_normalise
#print axioms C16_witness_legacy
