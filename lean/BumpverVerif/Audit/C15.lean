import BumpverVerif.Props.C15
open BV
#print axioms C15_substitutions_unpadded
#print axioms C15_padded_parts_covered
#print axioms C15_tag_tables_consistent
#print axioms C15_short_tags_are_pep440
#print axioms C15_final_tail_omitted
#print axioms C15_readme_conversions
#print axioms C15_readme_shape
#print axioms C15_odd_shape_witness
#print axioms C15_readme_tree_tie
#print axioms C15_derived_accepts_own_rendering
#print axioms C15_vok_transfer
#print axioms C15_vok_transfer_nonfinal
#print axioms C15_vok_transfer_relocated
#print axioms C15_pepReady_tagCoh
#print axioms C15_derived_accepts_of_original
#print axioms C15_readme_derived_wf
#print axioms C15_mandatory_tag_witness
#print axioms C15_pepReady_witnesses
#print axioms C15_derived_has_pytagnum
#print axioms C15_normal_form_parts
#print axioms C15_readme_derived_normal
