import BumpverVerif.Props.C15
open BV
#print axioms C15_substitutions_unpadded
#print axioms C15_padded_parts_covered
#print axioms C15_tag_tables_consistent
#print axioms C15_short_tags_are_pep440
#print axioms C15_final_tail_omitted
#print axioms C15_readme_conversions
#print axioms C15_readme_shape
#print axioms C15_odd_shape_witness
