/-
  Audit/TiesL2.lean — axioms of the tie of the command `cli.show` (harness/translate_commands.py; Gen/F_cmdShow.lean,
  `BV.GenL.cmdShow`; Proofs/Tie_cmdShow.lean).
-/
import BumpverVerif.Proofs.Tie_cmdShow

#print axioms BV.tie_cmdShow
#print axioms BV.tie_cmdShow_new
#print axioms BV.tie_cmdShow_legacy
#print axioms BV.cmdShow_no_config
#print axioms BV.TieL.updIn_decide_start
#print axioms BV.cmdShow_reports_update_start
