import BumpverVerif.Props.C03
open BV
#print axioms C03_matches_disjoint
#print axioms C03_matches_in_bounds
#print axioms C03_all_patterns_found
#print axioms C03_every_occurrence
#print axioms C03_version_placeholder
#print axioms C03_shared_line_witness
#print axioms tie_hasOverlap
