/-
  Proofs/TokTie_Brackets.lean — the `while True` loop of `_replace_pattern_parts` (`bracketsToGroups`):
  on EVERY string it rewrites every bare bracket (one not preceded by a backslash) to `(?:` / `)?`
  (`bracketsToGroups_eq_brAll`).
-/
import BumpverVerif.Model.V2Patterns
import BumpverVerif.Proofs.PatternLemmas
namespace BV

/-- the specification: every bare `[` becomes `(?:`, every bare `]` becomes `)?`;
    `pb` = the character before the string is a backslash -/
def brAll : Bool → Str → Str
  | _, [] => []
  | pb, c :: r =>
    if c == '[' && !pb then "(?:".toList ++ brAll false r
    else if c == ']' && !pb then ")?".toList ++ brAll false r
    else c :: brAll (c == '\\') r

/-- number of bare brackets -/
def bareTot : Bool → Str → Nat
  | _, [] => 0
  | pb, c :: r => (if (c == '[' || c == ']') && !pb then 1 else 0) + bareTot (c == '\\') r

/-- what the proof needs to know about one substitution pass: bracket `b`, replacement `repl` -/
structure PassOk (b : Char) (repl : Str) : Prop where
  nbs : (b == '\\') = false
  isBr : (b == '[' || b == ']') = true
  bare : ∀ x, brAll false (b :: x) = repl ++ brAll false x
  thru : ∀ pb x, brAll pb (repl ++ x) = repl ++ brAll false x
  cnt : ∀ pb x, bareTot pb (repl ++ x) = bareTot false x

theorem passOk_open : PassOk '[' "(?:".toList := by
  refine ⟨by decide, by decide, ?_, ?_, ?_⟩
  · intro x; simp [brAll]
  · intro pb x
    have e1 : ('(' == '[') = false := by decide
    have e2 : ('(' == ']') = false := by decide
    have e3 : ('(' == '\\') = false := by decide
    have e4 : ('?' == '[') = false := by decide
    have e5 : ('?' == ']') = false := by decide
    have e6 : ('?' == '\\') = false := by decide
    have e7 : (':' == '[') = false := by decide
    have e8 : (':' == ']') = false := by decide
    have e9 : (':' == '\\') = false := by decide
    simp [brAll, e1, e2, e3, e4, e5, e6, e7, e8, e9]
  · intro pb x
    have e1 : ('(' == '[') = false := by decide
    have e2 : ('(' == ']') = false := by decide
    have e3 : ('(' == '\\') = false := by decide
    have e4 : ('?' == '[') = false := by decide
    have e5 : ('?' == ']') = false := by decide
    have e6 : ('?' == '\\') = false := by decide
    have e7 : (':' == '[') = false := by decide
    have e8 : (':' == ']') = false := by decide
    have e9 : (':' == '\\') = false := by decide
    simp [bareTot, e1, e2, e3, e4, e5, e6, e7, e8, e9]

theorem passOk_close : PassOk ']' ")?".toList := by
  refine ⟨by decide, by decide, ?_, ?_, ?_⟩
  · intro x
    have e0 : (']' == '[') = false := by decide
    simp [brAll, e0]
  · intro pb x
    have e1 : (')' == '[') = false := by decide
    have e2 : (')' == ']') = false := by decide
    have e3 : (')' == '\\') = false := by decide
    have e4 : ('?' == '[') = false := by decide
    have e5 : ('?' == ']') = false := by decide
    have e6 : ('?' == '\\') = false := by decide
    simp [brAll, e1, e2, e3, e4, e5, e6]
  · intro pb x
    have e1 : (')' == '[') = false := by decide
    have e2 : (')' == ']') = false := by decide
    have e3 : (')' == '\\') = false := by decide
    have e4 : ('?' == '[') = false := by decide
    have e5 : ('?' == ']') = false := by decide
    have e6 : ('?' == '\\') = false := by decide
    simp [bareTot, e1, e2, e3, e4, e5, e6]

/-- one unfolding step of `brAll` on a character that is not a backslash -/
theorem brAll_cons_nbs (pb : Bool) (c : Char) (x y : Str) (hc : (c == '\\') = false)
    (h : brAll false x = brAll false y) : brAll pb (c :: x) = brAll pb (c :: y) := by
  simp only [brAll, hc, h]

theorem brAll_cons_any (pb : Bool) (c : Char) (x y : Str)
    (h : brAll (c == '\\') x = brAll (c == '\\') y) (h0 : brAll false x = brAll false y) :
    brAll pb (c :: x) = brAll pb (c :: y) := by
  simp only [brAll, h, h0]

/-- a pass does not change the final target -/
theorem pass_brAll (b : Char) (repl : Str) (ok : PassOk b repl) (atStart pb : Bool) (s : Str)
    (hs : (atStart && pb) = false) :
    brAll pb (subBracketGo b repl atStart s).1 = brAll pb s := by
  fun_induction subBracketGo b repl atStart s generalizing pb with
  | case1 => rfl
  | case2 atStart c hc =>
    simp only [Bool.and_eq_true, beq_iff_eq] at hc
    obtain ⟨ha, hcb⟩ := hc
    subst ha; subst hcb
    have hpb : pb = false := by simpa using hs
    subst hpb
    have h1 := ok.bare []
    have h2 := ok.thru false []
    simp only [List.append_nil] at h2
    rw [h1, h2]
  | case3 => rfl
  | case4 atStart c c2 rest2 hc out n hout ih =>
    simp only [Bool.and_eq_true, bne_iff_ne, ne_eq, beq_iff_eq] at hc
    obtain ⟨hcb, hc2⟩ := hc
    subst hc2
    have hcb' : (c == '\\') = false := by simpa using hcb
    apply brAll_cons_nbs pb c _ _ hcb'
    show brAll false (repl ++ out) = _
    rw [ok.thru, ok.bare]
    congr 1
    have := ih false (by simp)
    rw [hout] at this
    exact this
  | case5 atStart c c2 rest2 hn hc out n hout ih =>
    simp only [Bool.and_eq_true, beq_iff_eq] at hc
    obtain ⟨ha, hcb⟩ := hc
    subst ha; subst hcb
    have hpb : pb = false := by simpa using hs
    subst hpb
    simp only []
    rw [ok.bare, ok.thru]
    congr 1
    have := ih false (by simp)
    rw [hout] at this
    exact this
  | case6 atStart c c2 rest2 hn hc out n hout ih =>
    simp only []
    apply brAll_cons_any
    · have := ih (c == '\\') (by simp)
      rw [hout] at this; exact this
    · have := ih false (by simp)
      rw [hout] at this; exact this

theorem bareTot_cons_br (b : Char) (x : Str) (h : (b == '[' || b == ']') = true) (hb : (b == '\\') = false) :
    bareTot false (b :: x) = 1 + bareTot false x := by
  simp [bareTot, h, hb]

/-- a pass removes exactly `n` bare brackets -/
theorem pass_count (b : Char) (repl : Str) (ok : PassOk b repl) (atStart pb : Bool) (s : Str)
    (hs : (atStart && pb) = false) :
    bareTot pb (subBracketGo b repl atStart s).1 + (subBracketGo b repl atStart s).2 = bareTot pb s := by
  fun_induction subBracketGo b repl atStart s generalizing pb with
  | case1 => rfl
  | case2 atStart c hc =>
    simp only [Bool.and_eq_true, beq_iff_eq] at hc
    obtain ⟨ha, hcb⟩ := hc
    subst ha; subst hcb
    have hpb : pb = false := by simpa using hs
    subst hpb
    have h2 := ok.cnt false []
    simp only [List.append_nil] at h2
    rw [h2, bareTot_cons_br c [] ok.isBr ok.nbs]
    simp [bareTot]
  | case3 => rfl
  | case4 atStart c c2 rest2 hc out n hout ih =>
    simp only [Bool.and_eq_true, bne_iff_ne, ne_eq, beq_iff_eq] at hc
    obtain ⟨hcb, hc2⟩ := hc
    subst hc2
    have hcb' : (c == '\\') = false := by simpa using hcb
    have := ih false (by simp)
    rw [hout] at this
    simp only at this
    have e1 : bareTot pb (c :: (repl ++ out)) =
        (if (c == '[' || c == ']') && !pb then 1 else 0) + bareTot (c == '\\') (repl ++ out) := rfl
    have e2 : bareTot pb (c :: c2 :: rest2) =
        (if (c == '[' || c == ']') && !pb then 1 else 0) + bareTot (c == '\\') (c2 :: rest2) := rfl
    show bareTot pb (c :: (repl ++ out)) + (n + 1) = _
    rw [e1, e2, hcb', ok.cnt, bareTot_cons_br c2 rest2 ok.isBr ok.nbs]
    omega
  | case5 atStart c c2 rest2 hn hc out n hout ih =>
    simp only [Bool.and_eq_true, beq_iff_eq] at hc
    obtain ⟨ha, hcb⟩ := hc
    subst ha; subst hcb
    have hpb : pb = false := by simpa using hs
    subst hpb
    have := ih false (by simp)
    rw [hout] at this
    simp only at this
    show bareTot false (repl ++ out) + (n + 1) = _
    rw [ok.cnt, bareTot_cons_br c _ ok.isBr ok.nbs]
    omega
  | case6 atStart c c2 rest2 hn hc out n hout ih =>
    have := ih (c == '\\') (by simp)
    rw [hout] at this
    simp only at this
    have e1 : bareTot pb (c :: out) =
        (if (c == '[' || c == ']') && !pb then 1 else 0) + bareTot (c == '\\') out := rfl
    have e2 : bareTot pb (c :: c2 :: rest2) =
        (if (c == '[' || c == ']') && !pb then 1 else 0) + bareTot (c == '\\') (c2 :: rest2) := rfl
    show bareTot pb (c :: out) + n = _
    rw [e1, e2]
    omega

/-- a pass that substitutes nothing found no bare bracket (the head is exempt when not at the start) -/
theorem pass_zero (b : Char) (repl : Str) (atStart pb : Bool) (s : Str)
    (h : (subBracketGo b repl atStart s).2 = 0) : noBare b (pb || !atStart) s = true := by
  fun_induction subBracketGo b repl atStart s generalizing pb with
  | case1 => rfl
  | case2 atStart c hc => simp at h
  | case3 atStart c hc =>
    simp only [noBare, Bool.and_true, Bool.or_eq_true, bne_iff_ne, ne_eq, Bool.not_eq_true']
    simp only [Bool.and_eq_true, beq_iff_eq, not_and] at hc
    cases atStart <;> simp_all
  | case4 atStart c c2 rest2 hc out n hout ih => simp at h
  | case5 atStart c c2 rest2 hn hc out n hout ih => simp at h
  | case6 atStart c c2 rest2 hn hc out n hout ih =>
    rw [hout] at ih
    have h' : n = 0 := by simpa using h
    have := ih (c == '\\') h'
    simp only [Bool.not_false, Bool.or_true] at this
    -- the head of `c2 :: rest2` is exempt in `this`; but `c2 = b` is impossible after a non-backslash
    simp only [noBare, Bool.and_eq_true, Bool.or_eq_true, bne_iff_ne, ne_eq] at this ⊢
    simp only [Bool.and_eq_true, bne_iff_ne, ne_eq, beq_iff_eq, not_and] at hn
    simp only [Bool.and_eq_true, beq_iff_eq, not_and] at hc
    refine ⟨?_, ?_, this.2⟩
    · cases atStart <;> simp_all
    · by_cases hcb : c = '\\'
      · right; simp [hcb]
      · left; intro e; exact (hn hcb) e

theorem brAll_id (pb : Bool) (s : Str) (h1 : noBare '[' pb s = true) (h2 : noBare ']' pb s = true) :
    brAll pb s = s := by
  induction s generalizing pb with
  | nil => rfl
  | cons c r ih =>
    simp only [noBare, Bool.and_eq_true, Bool.or_eq_true, bne_iff_ne, ne_eq] at h1 h2
    have ihr := ih (c == '\\') h1.2 h2.2
    have e1 : (c == '[' && !pb) = false := by
      rcases h1.1 with h | h
      · simp [h]
      · simp [h]
    have e2 : (c == ']' && !pb) = false := by
      rcases h2.1 with h | h
      · simp [h]
      · simp [h]
    simp only [brAll, e1, e2, ihr, Bool.false_eq_true, if_false]

theorem bareTot_le (pb : Bool) (s : Str) : bareTot pb s ≤ s.length := by
  induction s generalizing pb with
  | nil => simp [bareTot]
  | cons c r ih =>
    have := ih (c == '\\')
    simp only [bareTot, List.length_cons]
    split <;> omega

theorem bracketsToGroups_succ (f : Nat) (s s1 s2 : Str) (n m : Nat)
    (hA : subBracketGo '[' "(?:".toList true s = (s1, n))
    (hB : subBracketGo ']' ")?".toList true s1 = (s2, m)) :
    bracketsToGroups (f + 1) s = if n + m == 0 then s2 else bracketsToGroups f s2 := by
  simp only [bracketsToGroups, subBracket, hA, hB]

theorem bracketsToGroups_eq_brAll_fuel (fuel : Nat) (s : Str) (h : bareTot false s < fuel) :
    bracketsToGroups fuel s = brAll false s := by
  induction fuel generalizing s with
  | zero => omega
  | succ f ih =>
    obtain ⟨s1, n, hA⟩ : ∃ s1 n, subBracketGo '[' "(?:".toList true s = (s1, n) := ⟨_, _, rfl⟩
    obtain ⟨s2, m, hB⟩ : ∃ s2 m, subBracketGo ']' ")?".toList true s1 = (s2, m) := ⟨_, _, rfl⟩
    have c1 := pass_count '[' _ passOk_open true false s rfl
    have b1 := pass_brAll '[' _ passOk_open true false s rfl
    have c2 := pass_count ']' _ passOk_close true false s1 rfl
    have b2 := pass_brAll ']' _ passOk_close true false s1 rfl
    rw [hA] at c1 b1
    rw [hB] at c2 b2
    simp only at c1 b1 c2 b2
    rw [bracketsToGroups_succ f s s1 s2 n m hA hB]
    split
    · rename_i hz
      have hn : n = 0 := by simp at hz; omega
      have hm : m = 0 := by simp at hz; omega
      subst hn; subst hm
      have z1 := pass_zero '[' "(?:".toList true false s (by rw [hA])
      have z2 := pass_zero ']' ")?".toList true false s1 (by rw [hB])
      simp only [Bool.not_true, Bool.or_false] at z1 z2
      have e1 := subBracketGo_id '[' "(?:".toList true false s z1 rfl
      rw [hA] at e1
      have hs1 : s1 = s := by simpa using congrArg Prod.fst e1
      subst hs1
      have e2 := subBracketGo_id ']' ")?".toList true false s1 z2 rfl
      rw [hB] at e2
      have hs2 : s2 = s1 := by simpa using congrArg Prod.fst e2
      subst hs2
      exact (brAll_id false s2 z1 z2).symm
    · rename_i hz
      have hnm : n + m ≠ 0 := by simpa using hz
      rw [ih s2 (by omega), b2, b1]

/-- THE BRACKET LOOP, on every string: all bare brackets become group delimiters -/
theorem bracketsToGroups_eq_brAll (s : Str) : bracketsToGroups (s.length + 1) s = brAll false s :=
  bracketsToGroups_eq_brAll_fuel _ s (Nat.lt_succ_of_le (bareTot_le false s))

end BV
