/-
  Proofs/Tie_parseConfigInst.lean — agent H's tie of `config._parse_config` (`tie_parseConfig_full`,
  Proofs/Tie_parseConfig.lean) keeps `_validate_version_with_pattern` and `_compile_file_patterns` as the PARAMETERS
  `validateOf env` / `compileOf env`.  Here they are instantiated by the definitions GENERATED from their Python source
  (group `filepatterns`):

  * `genParseConfig_congr`          : the generated `_parse_config` calls its two callee parameters only on the
        (stripped) `current_version` / `version_pattern` of the raw dict and on a dict that holds `version_pattern` as a
        str and the unchanged `file_patterns`; two pairs of callees that agree there give the same result (proved by
        following the generated definition, like `tie_parseConfig_full`).
  * `tie_parseConfig_instantiated`  : with `GenF.validateVersionWithPattern` (callees: the hand model's parsers) and
        `GenF.compileFilePatterns` (callees: `c`) the generated `_parse_config` is the one of `tie_parseConfig_full` for the
        environment `{ env with validVersion := validVersion today }`, the raw patterns of the result compiled by `mk version_pattern is_new_pattern`.
  * `tie_parseConfig_full_instantiated` : … hence equal to the hand model `parseConfig`.

  HYPOTHESES (both are real restrictions of the hand model `CfgEnv`, reported):
    (a) glob never raises — it is `fun g => .ok (env.glob g)`.  Python: `pl.Path().glob("/abs")` raises
        NotImplementedError, `glob(".")` IndexError, `glob("")` ValueError (Python 3.12);
    (b) `hp`: for THIS configuration's version and pattern the parser fails, if at all, with `version.PatternError` —
        `CfgEnv.validVersion` is a Bool, so every rejection is the ValueError of `.invalidVersion`.  Python:
        `version_pattern = "MAJOR.MINOR[.PATCH"` makes `_validate_version_with_pattern` raise `re.error`, which
        `config.parse` does not catch.
-/
import BumpverVerif.Proofs.Tie_compileFilePatterns
import BumpverVerif.Proofs.Tie_validateVersionWithPattern
import BumpverVerif.Proofs.Tie_parseRawConfig
set_option linter.unusedSimpArgs false
namespace BV
open TieP Py TieH

/-- the same `config.Config` with the `file_patterns` field transformed (`G version_pattern is_new_pattern`) -/
def mapFilePatterns {α β : Type} (G : Str → Bool → α → β) (c : GenF.Cfg.Config α) : GenF.Cfg.Config β :=
  { current_version := c.current_version, version_pattern := c.version_pattern, pep440_version := c.pep440_version,
    commit_message := c.commit_message, tag_message := c.tag_message, tag_scope := c.tag_scope,
    pre_commit_hook := c.pre_commit_hook, post_commit_hook := c.post_commit_hook,
    commit := c.commit, tag := c.tag, push := c.push, is_new_pattern := c.is_new_pattern,
    file_patterns := G c.version_pattern c.is_new_pattern c.file_patterns }

namespace TieP

theorem genParseConfig_congr {α β : Type} (V V' : Str → Str → Bool → Except Str Unit) (pep : Str → Str)
    (C : TomlSection → Bool → Except Str α) (C' : TomlSection → Bool → Except Str β) (G : Str → Bool → α → β)
    (pe : Str → Bool) (d : TomlSection)
    (hV : ∀ s4 s6, lookup "current_version".toList d.opts = some (.str s4) →
      lookup "version_pattern".toList d.opts = some (.str s6) →
      V' (stripQuotes s4) (stripQuotes s6) (cfgIsNewPattern (stripQuotes s6)) =
        V (stripQuotes s4) (stripQuotes s6) (cfgIsNewPattern (stripQuotes s6)))
    (hC : ∀ d' n s, lookup "version_pattern".toList d'.opts = some (.str s) → d'.filePatterns = d.filePatterns →
      C' d' n = (C d' n).map (G s n)) :
    GenF.parseConfig V' pep C' pe d = (GenF.parseConfig V pep C pe d).map (mapFilePatterns G) := by
  unfold GenF.parseConfig
  simp only []
  simp (disch := decide) only [lookup_setOpt_ne, lookup_setOpt_eq]
  -- commit_message, tag_message, current_version, version_pattern: the same tests on both sides
  split
  · rfl
  split
  · rfl
  split
  · rfl
  split
  · rfl
  split
  · rfl
  split
  · rfl
  rename_i _ r4 hl4 _ s4 hs4 _ r6 hl6 _ s6 hs6
  have e4 : r4 = .str s4 := by cases r4 <;> simp [Py.strOf] at hs4; exact congrArg _ hs4
  have e6 : r6 = .str s6 := by cases r6 <;> simp [Py.strOf] at hs6; exact congrArg _ hs6
  subst e4 e6
  simp only [Bool.not_or, isNew_fold, isNew_fold']
  -- the validation callee
  have hv := hV s4 s6 hl4 hl6
  simp only [stripQuotes] at hv
  rw [hv]
  cases V (stripChars "'\" ".toList s4) (stripChars "'\" ".toList s6) (cfgIsNewPattern (stripChars "'\" ".toList s6)) with
  | error e => rfl
  | ok u =>
    simp only []
    -- the compile callee
    have hc : ∀ (x : Str) (o : List (Str × RawVal)) (n : Bool),
        C' { opts := setOpt "version_pattern".toList (RawVal.str x) o, filePatterns := d.filePatterns } n =
          (C { opts := setOpt "version_pattern".toList (RawVal.str x) o, filePatterns := d.filePatterns } n).map (G x n) :=
      fun x o n => hC _ n x (lookup_setOpt_eq _ _ _) rfl
    rw [hc]
    cases C _ _ with
    | error e => rfl
    | ok r8 =>
      simp only [Except.map]
      -- the rest does not look at `file_patterns`
      repeat (first | rfl | split)

/-- the `file_patterns` of a `Config` that the generated `_parse_config` returns is what its compile callee answered
    for a dict with the caller's `file_patterns` and the (stripped) version pattern of the result -/
theorem genParseConfig_file_patterns {α : Type} (V : Str → Str → Bool → Except Str Unit) (pep : Str → Str)
    (C : TomlSection → Bool → Except Str α) (pe : Str → Bool) (d : TomlSection) (c : GenF.Cfg.Config α)
    (h : GenF.parseConfig V pep C pe d = .ok c) :
    ∃ d' : TomlSection, d'.filePatterns = d.filePatterns ∧
      lookup "version_pattern".toList d'.opts = some (.str c.version_pattern) ∧
      C d' c.is_new_pattern = .ok c.file_patterns := by
  unfold GenF.parseConfig at h
  simp only [] at h
  split at h
  · cases h
  split at h
  · cases h
  split at h
  · cases h
  split at h
  · cases h
  split at h
  · cases h
  split at h
  · cases h
  split at h
  · cases h
  split at h
  · cases h
  rename_i r8 hC
  repeat' (split at h)
  all_goals first
    | (cases h; done)
    | (cases h; refine ⟨_, ?_, ?_, hC⟩ <;> first | rfl | exact lookup_setOpt_eq _ _ _)

end TieP

/-- `_validate_version_with_pattern` and `_compile_file_patterns` in `tie_parseConfig_full` can be taken to be the
    definitions generated from their source -/
theorem tie_parseConfig_instantiated {π : Type} (today : Nat × Nat × Nat) (env : CfgEnv) (c : CompileCallees π)
    (mk : Str → Bool → Str → π) (pep : Str → Str) (raw : RawCfg)
    (hc : ∀ vp, CalleesAgree env c (mk vp) vp)
    (hp : ∀ s4 s6, lookup "current_version".toList raw.opts = some (.str s4) →
      lookup "version_pattern".toList raw.opts = some (.str s6) →
      parseFailsOnlyWithPatternError today (stripQuotes s4) (stripQuotes s6) (cfgIsNewPattern (stripQuotes s6))) :
    GenF.parseConfig (GenF.validateVersionWithPattern (parse2Model today) parse1Model) pep
        (GenF.compileFilePatterns (fun g => .ok (env.glob g)) c.cp2 c.cps2 c.cps1) env.pathExists (embedRaw raw) =
      (GenF.parseConfig (validateOf { env with validVersion := validVersion today }) pep
          (compileOf { env with validVersion := validVersion today }) env.pathExists (embedRaw raw)).map
        (mapFilePatterns (fun vp n => mapVals (mk vp n))) := by
  apply genParseConfig_congr
  · intro s4 s6 h4 h6
    rw [tie_validateVersionWithPattern,
      (validateVersionE_model today (stripQuotes s4) (stripQuotes s6) (cfgIsNewPattern (stripQuotes s6))).2 (hp s4 s6 h4 h6)]
    rfl
  · intro d' n s hs hfp
    have hcal : CalleesAgree { env with validVersion := validVersion today } c (mk s) s :=
      ⟨(hc s).cp2, (hc s).cps2, (hc s).cps1⟩
    exact tie_compileFilePatterns_compileOf { env with validVersion := validVersion today } c (mk s) d' n s raw.filePatterns
      hs hfp hcal

/-- what the hand model keeps of a `config.Config` whose patterns are compiled: everything but the patterns -/
def absConfigNoPatterns {π : Type} (c : GenF.Cfg.Config (List (Str × List π))) : EffectiveConfig :=
  absConfig (mapFilePatterns (fun _ _ _ => ([] : FilePatterns)) c)

/-- the generated `_parse_config` with the generated `_validate_version_with_pattern` and `_compile_file_patterns`
    equals the hand model `parseConfig`: same failure class, same settings, the map (file → compiled patterns) is the
    hand model's map (file → raw patterns) with every pattern compiled -/
theorem tie_parseConfig_full_instantiated {π : Type} (today : Nat × Nat × Nat) (env : CfgEnv) (c : CompileCallees π)
    (mk : Str → Bool → Str → π) (pep : Str → Str) (raw : RawCfg)
    (hc : ∀ vp, CalleesAgree env c (mk vp) vp)
    (hp : ∀ s4 s6, lookup "current_version".toList raw.opts = some (.str s4) →
      lookup "version_pattern".toList raw.opts = some (.str s6) →
      parseFailsOnlyWithPatternError today (stripQuotes s4) (stripQuotes s6) (cfgIsNewPattern (stripQuotes s6))) :
    (GenF.parseConfig (GenF.validateVersionWithPattern (parse2Model today) parse1Model) pep
        (GenF.compileFilePatterns (fun g => .ok (env.glob g)) c.cp2 c.cps2 c.cps1) env.pathExists (embedRaw raw)).map
        (fun c => (absConfigNoPatterns c, c.file_patterns, c.pep440_version)) =
      ((parseConfig { env with validVersion := validVersion today } raw).mapError CfgErr.pyClass).map
        (fun e => ({ e with filePatterns := [] }, mapVals (mk e.versionPattern e.isNewPattern) e.filePatterns,
          pep e.currentVersion)) := by
  rw [tie_parseConfig_instantiated today env c mk pep raw hc hp]
  have hH := tie_parseConfig_full { env with validVersion := validVersion today } pep raw
  cases hx : GenF.parseConfig (validateOf { env with validVersion := validVersion today }) pep
      (compileOf { env with validVersion := validVersion today }) env.pathExists (embedRaw raw) with
  | error e =>
    rw [hx] at hH
    cases hm : parseConfig { env with validVersion := validVersion today } raw with
    | error e' => rw [hm] at hH; simp only [Except.map, Except.mapError, Except.error.injEq] at hH ⊢; exact hH
    | ok v => rw [hm] at hH; simp [Except.map, Except.mapError] at hH
  | ok cfg =>
    rw [hx] at hH
    cases hm : parseConfig { env with validVersion := validVersion today } raw with
    | error e' => rw [hm] at hH; simp [Except.map, Except.mapError] at hH
    | ok v =>
      rw [hm] at hH
      simp only [Except.map, Except.mapError, Except.ok.injEq, Prod.mk.injEq] at hH ⊢
      obtain ⟨h1, h2⟩ := hH
      subst h1
      exact ⟨rfl, rfl, h2⟩

/-! ### C04: the files of the resulting configuration are named in the configuration -/

/-- every key of `cfg.file_patterns` of a configuration `_parse_config` accepts (with the generated
    `_compile_file_patterns`, ANY glob, ANY callees) is a path some key of the raw dict's `file_patterns` expands to:
    a glob result of the key, or the key itself when its glob is empty -/
theorem parseConfig_keys_configured {π : Type} (glob : Str → Except Str (List Str)) (c : CompileCallees π)
    (V : Str → Str → Bool → Except Str Unit) (pep : Str → Str) (pe : Str → Bool) (d : TomlSection)
    (cfg : GenF.Cfg.Config (List (Str × List π)))
    (h : GenF.parseConfig V pep (GenF.compileFilePatterns glob c.cp2 c.cps2 c.cps1) pe d = .ok cfg) :
    ∃ fps, d.filePatterns = some fps ∧
      ∀ k ∈ cfg.file_patterns.map Prod.fst,
        ∃ g pats, (g, pats) ∈ fps ∧ ∃ fs, glob g = .ok fs ∧ (k ∈ fs ∨ (fs = [] ∧ k = g)) := by
  obtain ⟨d', hfp, -, hC⟩ := genParseConfig_file_patterns V pep _ pe d cfg h
  obtain ⟨fps, h1, h2⟩ := compileFilePatterns_keys_configured glob c d' cfg.is_new_pattern cfg.file_patterns hC
  exact ⟨fps, hfp ▸ h1, h2⟩

/-- `config.parse` = `_parse_raw_config` then `_parse_config`, both generated: every file of the accepted
    configuration is a path that a key of the config file's `file_patterns` section expands to, or that the config
    file's own path (`ctx.config_rel_path`) expands to.  "Files not named in the configuration are never written":
    `cli` rewrites exactly the keys of `cfg.file_patterns`. -/
theorem parse_keys_configured {π : Type} (parser : IniDoc) (loaded : Py.TomlFull) (fs : ProjFS)
    (ctx : GenF.Cfg.ProjectContext)
    (hmain : ∀ items, iniMainSection parser = some items → (items.map Prod.fst).Nodup)
    (hfiles : ((iniFilePatterns parser).map Prod.fst).Nodup)
    (glob : Str → Except Str (List Str)) (c : CompileCallees π)
    (V : Str → Str → Bool → Except Str Unit) (pep : Str → Str) (pe : Str → Bool) (d : TomlSection)
    (cfg : GenF.Cfg.Config (List (Str × List π)))
    (h1 : GenF.parseRawConfig parser loaded fs ctx = .ok d)
    (h2 : GenF.parseConfig V pep (GenF.compileFilePatterns glob c.cp2 c.cps2 c.cps1) pe d = .ok cfg) :
    ∃ (raw : RawCfg), readRawE ctx.config_format parser (absToml loaded) = .ok raw ∧
      ∀ k ∈ cfg.file_patterns.map Prod.fst,
        ∃ g, (g ∈ raw.filePatterns.map Prod.fst ∨ g = ctx.config_rel_path) ∧
          ∃ fs', glob g = .ok fs' ∧ (k ∈ fs' ∨ (fs' = [] ∧ k = g)) := by
  obtain ⟨raw, raw', text, hfs, hd, hread, ha, -, hyes, hno⟩ :=
    parseRawConfig_own_entry parser loaded fs ctx hmain hfiles d h1
  obtain ⟨fps, hfps, hk⟩ := parseConfig_keys_configured glob c V pep pe d cfg h2
  refine ⟨raw, hread, fun k hkm => ?_⟩
  · obtain ⟨g, pats, hg, rest⟩ := hk k hkm
    refine ⟨g, ?_, rest⟩
    have hfp' : fps = raw'.filePatterns := by
      rw [hd] at hfps
      exact (Option.some.inj hfps).symm
    subst hfp'
    cases hc : cfgHasKey ctx.config_rel_path raw.filePatterns with
    | true =>
      rw [hyes hc] at hg
      exact .inl (List.mem_map.mpr ⟨(g, pats), hg, rfl⟩)
    | false =>
      obtain ⟨line, cv, vp, -, -, -, hfp⟩ := hno hc
      rw [hfp] at hg
      rcases List.mem_append.mp hg with hg | hg
      · exact .inl (List.mem_map.mpr ⟨(g, pats), hg, rfl⟩)
      · simp only [List.mem_singleton, Prod.mk.injEq] at hg
        exact .inr hg.1

end BV
