/-
  Proofs/Tie_cmdTest.lean — the definition GENERATED from the Python source of the command `cli.test`
  (Gen/F_cmdTest.lean, harness/translate_commands.py) against the hand model `BV.cliTest` (Model/Cli.lean):

    tie_cmdTest   for a new-style pattern and ALL other inputs: no VCS invocation happens, and
                  (the lines echoed, in order; how the command ends) = `outcomeView` of `cliTest …`
                  — `announce new pep` is exit 0 with the line `New Version: <new>` and, only when it differs,
                  the line `PEP440     : <pep>`; `exit1` is `sys.exit(1)` with nothing echoed; `crash e` is the
                  uncaught exception `e` of the engine with nothing echoed.

  What the tie fixes about the GLUE (everything `test` calls is tied elsewhere): the three validations come first
  and in an order in which each failure is `exit 1` before anything is echoed; the candidate is `incr_dispatch(...)`
  exactly when `--set-version` is absent and `_normalize_set_version(pattern, set_version)` otherwise; `None` is
  exit 1; the gate is `_is_valid_version(pattern, OLD, candidate)` WITHOUT the uniqueness check; the PEP 440 line
  is `to_pep440(candidate)` and is only shown when it differs.

  Hypotheses:
  * `hp`     : the pattern has no braces (the hand model `cliTest` is the new-style one; `incr_dispatch` then picks the
               new engine too: `not_new_of_hasV1Part`).
  * `hempty` : `strptime("", "%Y-%m-%d")` raises ValueError (a fact about the library; needed for `--date '' --pin-date`,
               see Tie_validateDate.lean).
  * `hverb`  : with `-v` (the global `_VERBOSE` or the option) `incr_dispatch` additionally compiles the pattern, only to
               log it; that call can raise where `incr` alone answers None (witness in Tie_incrDispatch.lean:
               `YYYY.VV[`).  The model has no verbosity: the tie assumes the compilation succeeds when it happens.
  The model takes the `--date` already parsed; `testModel` composes it with `_validate_date`'s reading of the text
  (`strptime`, a parameter): an unparsable date is exit 1.
-/
import BumpverVerif.Gen.F_cmdTest
import BumpverVerif.Proofs.Tie_cmdNormalizeSetVersion
import BumpverVerif.Proofs.Tie_cmdIsValidVersion
import BumpverVerif.Proofs.Tie_validateReleaseTag
import BumpverVerif.Proofs.Tie_validateFlags
import BumpverVerif.Proofs.Tie_validateDate
import BumpverVerif.Proofs.Tie_incrDispatch
import BumpverVerif.Proofs.V1Lemmas
namespace BV
namespace TieL

/-- how a command ended, as seen from outside -/
inductive Ending
  | ok                       -- exit code 0
  | exit (n : Nat)           -- `sys.exit(n)`
  | crashV2 (e : PErr)       -- an uncaught exception of the new-style engine (traceback)
  | crashV1 (e : V1Err)      -- … of the legacy engine
  | other                    -- any other uncaught exception
  deriving DecidableEq, Repr

def ending {α : Type} : Except CStop α → Ending
  | .ok _ => .ok
  | .error (.eff (.exit n)) => .exit n
  | .error (.exc (.sysExit n)) => .exit n.toNat
  | .error (.exc (.v2 e)) => .crashV2 e
  | .error (.exc (.v1 e)) => .crashV1 e
  | .error _ => .other

/-- `"New Version: "` -/
def newVersionLabel : Str := ['N', 'e', 'w', ' ', 'V', 'e', 'r', 's', 'i', 'o', 'n', ':', ' ']
/-- `"PEP440     : "` -/
def pep440Label : Str := ['P', 'E', 'P', '4', '4', '0', ' ', ' ', ' ', ' ', ' ', ':', ' ']

theorem newVersionLabel_eq : newVersionLabel = "New Version: ".toList := by decide
theorem pep440Label_eq : pep440Label = "PEP440     : ".toList := by decide

/-- what the user sees of an outcome of the hand model: the echoed lines and the ending -/
def outcomeView : CliOutcome → List Str × Ending
  | .announce new pep =>
    ((newVersionLabel ++ new) :: (if new != pep then [pep440Label ++ pep] else []), .ok)
  | .exit1 => ([], .exit 1)
  | .crash e => ([], .crashV2 e)

/-- the part of `cliTest` after the validations: candidate, gate, announcement -/
def testCore (old pat : Str) (fl : IncrFlags) (date today : Date) (setVersion : Option Str) : CliOutcome :=
  match candidateE old pat fl date today setVersion with
  | .error e => .crash e
  | .ok none => .exit1
  | .ok (some new) =>
    match gate pat old new false [] today with
    | .error e => .crash e
    | .ok .accept => .announce new (verStr (parseVersion new))
    | .ok _ => .exit1

/-- the hand model composed with `_validate_date`'s reading of the `--date` text -/
def testModel {DateTime : Type} (strptime : Str → Str → Option DateTime) (dateOf : DateTime → Date)
    (old pat : Str) (fl : IncrFlags) (date : Option Str) (today : Date) (setVersion : Option Str) : CliOutcome :=
  match date with
  | none => cliTest old pat fl false today today setVersion
  | some d =>
    match strptime d "%Y-%m-%d".toList with
    | none => .exit1
    | some dt => cliTest old pat fl true (dateOf dt) today setVersion

end TieL
open TieL

attribute [local irreducible] isValid parseVersionInfo incr v1IsValid v1ParseVersionInfo v1Incr formatVersion

/-- the searching-loop spelling of `has_v1_part` (`for part in v1_parts: if … : has_v1_part = True; break`): nothing found -/
theorem TieL.hasV1Part_of_find_none (pat : Str)
    (h : List.find? (fun part => isInfix (("{".toList ++ part) ++ "}".toList) pat)
      ((Gen.v1PartPatterns.map (·.1)) ++ (Gen.v1FullPartFormats.map (·.1))) = none) : hasV1Part pat = false := by
  have hany : hasV1Part pat = (List.any ((Gen.v1PartPatterns.map (·.1)) ++ (Gen.v1FullPartFormats.map (·.1)))
      (fun part => isInfix (("{".toList ++ part) ++ "}".toList) pat)) := rfl
  rw [hany, List.any_eq_false]
  intro x hx
  simpa using List.find?_eq_none.mp h x hx

/-- … something found -/
theorem TieL.hasV1Part_of_find_some (pat part : Str)
    (h : List.find? (fun part => isInfix (("{".toList ++ part) ++ "}".toList) pat)
      ((Gen.v1PartPatterns.map (·.1)) ++ (Gen.v1FullPartFormats.map (·.1))) = some part) : hasV1Part pat = true := by
  have hany : hasV1Part pat = (List.any ((Gen.v1PartPatterns.map (·.1)) ++ (Gen.v1FullPartFormats.map (·.1)))
      (fun part => isInfix (("{".toList ++ part) ++ "}".toList) pat)) := rfl
  rw [hany, List.any_eq_true]
  have hp := List.find?_some h
  have hm := List.mem_of_find?_eq_some h
  exact ⟨part, hm, hp⟩

/-- with `-v`, `incr_dispatch` is the same function provided the pattern compiles (new engine) -/
theorem TieL.incrDispatch_verbose (today : Date) (old pat : Str) (fl : IncrFlags) (maybe_date : Option Date)
    (hv1 : hasV1Part pat = false) (hc : ∃ r, pyV2CompilePattern pat = .ok r) :
    GenC.incrDispatch today true old pat fl.major fl.minor fl.patch fl.tag fl.tagNum fl.pinIncrements
        fl.pinDate maybe_date
      = GenC.incrDispatch today false old pat fl.major fl.minor fl.patch fl.tag fl.tagNum fl.pinIncrements
        fl.pinDate maybe_date := by
  obtain ⟨r, hr⟩ := hc
  first
    | -- `has_v1_part = any(… for part in v1_parts)`
      (have hv : (List.any ((Gen.v1PartPatterns.map (·.1)) ++ (Gen.v1FullPartFormats.map (·.1)))
          (fun part => isInfix (("{".toList ++ part) ++ "}".toList) pat)) = hasV1Part pat := rfl
       unfold GenC.incrDispatch
       simp only [hv, hv1, hr, Bool.false_eq_true, if_false, if_true, Bool.not_false]
       done)
    | -- the searching loop
      (unfold GenC.incrDispatch
       dsimp only
       cases hfind : List.find? (fun part => isInfix (("{".toList ++ part) ++ "}".toList) pat)
           ((Gen.v1PartPatterns.map (·.1)) ++ (Gen.v1FullPartFormats.map (·.1))) with
       | none => simp only [hr, Bool.false_eq_true, if_false, if_true, Bool.not_false]
       | some part => rw [hasV1Part_of_find_some pat part hfind] at hv1; cases hv1)

/-- `incr_dispatch` for a new-style pattern, whatever `_VERBOSE` is (given `hverb`) -/
theorem TieL.incrDispatch_new (today : Date) (b : Bool) (old pat : Str) (fl : IncrFlags) (maybe_date : Option Date)
    (hp : isNewPattern pat = true) (hc : b = true → ∃ r, pyV2CompilePattern pat = .ok r) :
    GenC.incrDispatch today b old pat fl.major fl.minor fl.patch fl.tag fl.tagNum fl.pinIncrements
        fl.pinDate maybe_date
      = liftV2 (incr old pat fl (maybe_date.getD today) today) := by
  have hv1 : hasV1Part pat = false := by
    cases h : hasV1Part pat
    · rfl
    · have := not_new_of_hasV1Part pat h; rw [hp] at this; cases this
  have h0 : GenC.incrDispatch today false old pat fl.major fl.minor fl.patch fl.tag fl.tagNum fl.pinIncrements
        fl.pinDate maybe_date = liftV2 (incr old pat fl (maybe_date.getD today) today) := by
    rw [tie_incrDispatch]; unfold dispatchIncrExc; simp [hv1]
  cases b
  · exact h0
  · rw [incrDispatch_verbose today old pat fl maybe_date hv1 (hc rfl), h0]

theorem TieL.pyMaxInt_ne_zero_iff (a b : Int) : ((pyMaxInt a b != 0) = true) ↔ pyMaxInt a b ≠ 0 := by simp

theorem TieL.cliTest_valid (old pat : Str) (fl : IncrFlags) (dateGiven : Bool) (date today : Date) (sv : Option Str)
    (hrt : validReleaseTag fl.tag = true) (hvf : validFlags pat fl = true) (hd : (dateGiven && fl.pinDate) = false) :
    cliTest old pat fl dateGiven date today sv = testCore old pat fl date today sv := by
  unfold cliTest testCore
  simp only [hrt, hvf, hd, Bool.not_true, Bool.false_eq_true, if_false]
  rfl

/-- the command once its three validations have passed, `maybe_date` being what `_validate_date` returned -/
theorem TieL.cmdTest_valid {DateTime : Type} (today : Date) (strptime : Str → Str → Option DateTime)
    (dateOf : DateTime → Date) (vg verbose : Int) (old pat : Str) (fl : IncrFlags) (date setVersion : Option Str)
    (md : Option Date)
    (hp : isNewPattern pat = true)
    (hverb : pyMaxInt vg verbose ≠ 0 → ∃ r, pyV2CompilePattern pat = .ok r)
    (hrt : validReleaseTag fl.tag = true) (hvf : validFlags pat fl = true)
    (hvd : GenC.validateDate strptime dateOf date fl.pinDate = .ok md)
    (ce : CmdEnv) (s0 : CState) (hout : s0.out = []) :
    let r := GenL.test today strptime dateOf vg old pat verbose fl.major fl.minor fl.patch fl.tag fl.tagNum
      fl.pinIncrements fl.pinDate date setVersion ce s0
    r.1.p = s0.p ∧
    (r.1.out.reverse, ending r.2) = outcomeView (testCore old pat fl (md.getD today) today setVersion) := by
  intro r
  simp only [r]
  have hc : (pyMaxInt vg verbose != 0) = true → ∃ r, pyV2CompilePattern pat = .ok r :=
    fun h => hverb ((pyMaxInt_ne_zero_iff vg verbose).mp h)
  have hG := fun nv s => cmdIsValidVersion_not_unique today pat old nv hp ce s
  have hI := incrDispatch_new today (pyMaxInt vg verbose != 0) old pat fl md hp hc
  have hN := fun sv s => tie_normalizeSetVersion_new today pat sv hp ce s
  unfold GenL.test testCore candidateE
  simp only [Cmd.bind_liftExc, tie_validateReleaseTag, tie_validateFlags, hrt, hvf, hvd, if_true]
  cases setVersion with
  | none =>
    simp only [Cmd.bind, Cmd.liftExc, hI]
    cases hn : incr old pat fl (md.getD today) today with
    | error e => simp [liftV2, outcomeView, ending, hout]
    | ok o =>
      cases o with
      | none => simp [liftV2, Cmd.pure, Cmd.exit, Cmd.throw, outcomeView, ending, hout]
      | some nv =>
        simp only [liftV2, Cmd.pure, Cmd.bind, hG]
        cases hg : gate pat old nv false [] today with
        | error e => simp [ofV2, Except.map, outcomeView, ending, hout]
        | ok v =>
          cases v <;>
            simp [ofV2, Except.map, outcomeView, ending, GateVerdict.toBool, Cmd.exit, Cmd.throw, Cmd.echo, Cmd.pure,
              Cmd.ite_run, pyToPep440, hout, newVersionLabel, pep440Label]
          by_cases hne : nv = verStr (parseVersion nv)
          · simp [if_pos hne, ending, Cmd.bind, Cmd.echo, Cmd.pure, Cmd.ite_run, hout]
          · simp [if_neg hne, ending, Cmd.bind, Cmd.echo, Cmd.pure, Cmd.ite_run, hout]
  | some sv =>
    simp only [Cmd.bind, hN]
    cases hn : normalizeSetVersion pat sv today with
    | error e => simp [ofV2, Except.map, outcomeView, ending, hout]
    | ok nv =>
      simp only [ofV2, Cmd.pure, Cmd.bind, Except.map, hG]
      cases hg : gate pat old nv false [] today with
      | error e => simp [ofV2, Except.map, outcomeView, ending, hout]
      | ok v =>
        cases v <;>
          simp [ofV2, Except.map, outcomeView, ending, GateVerdict.toBool, Cmd.exit, Cmd.throw, Cmd.echo, Cmd.pure,
            Cmd.ite_run, pyToPep440, hout, newVersionLabel, pep440Label]
        by_cases hne : nv = verStr (parseVersion nv)
        · simp [if_pos hne, ending, Cmd.bind, Cmd.echo, Cmd.pure, Cmd.ite_run, hout]
        · simp [if_neg hne, ending, Cmd.bind, Cmd.echo, Cmd.pure, Cmd.ite_run, hout]

/-- a failing validation: `sys.exit(1)` before anything is echoed or asked of the VCS -/
theorem TieL.cmdTest_invalid {DateTime : Type} (today : Date) (strptime : Str → Str → Option DateTime)
    (dateOf : DateTime → Date) (vg verbose : Int) (old pat : Str) (fl : IncrFlags) (date setVersion : Option Str)
    (h : validReleaseTag fl.tag = false ∨ validFlags pat fl = false ∨
         GenC.validateDate strptime dateOf date fl.pinDate = .error (.sysExit 1))
    (ce : CmdEnv) (s0 : CState) :
    GenL.test today strptime dateOf vg old pat verbose fl.major fl.minor fl.patch fl.tag fl.tagNum
      fl.pinIncrements fl.pinDate date setVersion ce s0 = (s0, .error (.exc (.sysExit 1))) := by
  unfold GenL.test
  simp only [Cmd.bind_liftExc, tie_validateReleaseTag, tie_validateFlags]
  by_cases hrt : validReleaseTag fl.tag = true <;> by_cases hvf : validFlags pat fl = true <;>
    simp only [hrt, hvf, if_true, Bool.false_eq_true, if_false]
  rcases h with h | h | h
  · rw [hrt] at h; cases h
  · rw [hvf] at h; cases h
  · simp only [h]

theorem tie_cmdTest {DateTime : Type} (today : Date) (strptime : Str → Str → Option DateTime)
    (dateOf : DateTime → Date) (vg verbose : Int) (old pat : Str) (fl : IncrFlags) (date setVersion : Option Str)
    (hp : isNewPattern pat = true)
    (hempty : strptime [] "%Y-%m-%d".toList = none)
    (hverb : pyMaxInt vg verbose ≠ 0 → ∃ r, pyV2CompilePattern pat = .ok r)
    (ce : CmdEnv) (s0 : CState) (hout : s0.out = []) :
    let r := GenL.test today strptime dateOf vg old pat verbose fl.major fl.minor fl.patch fl.tag fl.tagNum
      fl.pinIncrements fl.pinDate date setVersion ce s0
    r.1.p = s0.p ∧
    (r.1.out.reverse, ending r.2) = outcomeView (testModel strptime dateOf old pat fl date today setVersion) := by
  intro r
  simp only [r]
  have hinv := fun h => cmdTest_invalid today strptime dateOf vg verbose old pat fl date setVersion h ce s0
  by_cases hrt : validReleaseTag fl.tag = true
  · by_cases hvf : validFlags pat fl = true
    · have hval := fun md hvd => cmdTest_valid today strptime dateOf vg verbose old pat fl date setVersion md hp hverb
        hrt hvf hvd ce s0 hout
      cases date with
      | none =>
        have := hval none (validateDate_absent strptime dateOf fl.pinDate)
        simp only [Option.getD_none] at this
        simpa only [testModel, cliTest_valid old pat fl false today today setVersion hrt hvf (by simp)] using this
      | some d =>
        have hvd := tie_validateDate strptime dateOf (some d) fl.pinDate
        unfold validateDateRef at hvd
        simp only at hvd
        cases hsp : strptime d "%Y-%m-%d".toList with
        | none =>
          have hx : GenC.validateDate strptime dateOf (some d) fl.pinDate = .error (.sysExit 1) := by
            rw [hvd, hsp]; split <;> rfl
          rw [hinv (Or.inr (Or.inr hx))]
          simp only [testModel, hsp]
          simp [outcomeView, ending, hout]
        | some dt =>
          by_cases hpin : fl.pinDate = true
          · have hne : d.isEmpty = false := by
              cases d with
              | nil => rw [hempty] at hsp; cases hsp
              | cons c cs => rfl
            have hx : GenC.validateDate strptime dateOf (some d) fl.pinDate = .error (.sysExit 1) := by
              rw [hvd]; simp [hne, hpin]
            rw [hinv (Or.inr (Or.inr hx))]
            simp only [testModel, hsp]
            simp [outcomeView, ending, hout, cliTest, hpin]
          · have hx : GenC.validateDate strptime dateOf (some d) fl.pinDate = .ok (some (dateOf dt)) := by
              rw [hvd, hsp]; simp [hpin]
            have := hval _ hx
            simp only [Option.getD_some] at this
            simpa only [testModel, hsp,
              cliTest_valid old pat fl true (dateOf dt) today setVersion hrt hvf (by simp [hpin])] using this
    · have hvf' : validFlags pat fl = false := by simpa using hvf
      rw [hinv (Or.inr (Or.inl hvf'))]
      cases date with
      | none => simp [testModel, cliTest, hrt, hvf', outcomeView, ending, hout]
      | some d => cases hsp : strptime d "%Y-%m-%d".toList <;> simp only [testModel, hsp] <;> simp [cliTest, hrt, hvf', outcomeView, ending, hout]
  · have hrt' : validReleaseTag fl.tag = false := by simpa using hrt
    rw [hinv (Or.inl hrt')]
    cases date with
    | none => simp [testModel, cliTest, hrt', outcomeView, ending, hout]
    | some d => cases hsp : strptime d "%Y-%m-%d".toList <;> simp only [testModel, hsp] <;> simp [cliTest, hrt', outcomeView, ending, hout]

end BV
