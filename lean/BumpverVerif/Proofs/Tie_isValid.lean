/-
  Proofs/Tie_isValid.lean — the definition GENERATED from the Python source of `v2version.is_valid`
  (harness/translate_parse.py → Gen/F_isValid.lean) equals the hand model `BV.isValid`: only PatternError is caught,
  every other exception of `parse_version_info` propagates.  The callee is the GENERATED
  `GenF.parseVersionInfo`; hypotheses as in Tie_parseVersionInfo.lean.
-/
import BumpverVerif.Gen.F_isValid
import BumpverVerif.Proofs.Tie_parseVersionInfo
namespace BV

theorem tie_isValid (vs rp : Str) (today : PDate) (hT : today.2.1 ≠ 0)
    (hG : ∀ r, compileRe (normalizePattern rp rp) = some r → validGroupNames r = true) :
    GenF.isValid vs rp today = isValid vs rp today := by
  unfold GenF.isValid isValid
  rw [tie_parseVersionInfo vs rp today hT hG]
  cases parseVersionInfo vs rp today with
  | ok v => rfl
  | error e => cases e <;> rfl

end BV
