/-
  Proofs/Tie_parseLetterVersion.lean — the definition GENERATED from the Python source of
  `setuptools_v65_version._parse_letter_version` against the way the hand model (Model/Pep440.lean)
  uses its normal forms.

  The model has no function of the same shape: `letterSeg words s` recognises
  `[-_\.]? LETTER [-_\.]? ([0-9]+)?` on lower-cased text and answers the NORMAL FORM its word table
  (`preWords` / `postWords` / `devWords`) lists for the word, and `strToNat` of the digits (0 when
  there are none: the implicit 0).  So the tie is
  * `tie_parseLetterVersion`          : for every word of the three tables, in EVERY spelling that
      lower-cases to it (all the upper/lower-case spellings the IGNORECASE regex allows on ASCII), and
      every number group (absent, or any text), the generated function returns the table's normal form
      and the number (0 when absent);
  * `tie_parseLetterVersion_letterSeg`: whatever `letterSeg` answers on a text is what the generated
      function answers on the groups (letter word, digits — absent when empty) the regex hands over;
  * `tie_parseLetterVersion_implicitPost` / `_absent`: the `-N` post release of `postSeg`, and no group.
  `str.lower()` is rendered as the model's ASCII `lowerStr` (the model's stated ASCII restriction).
-/
import BumpverVerif.Gen.F_parseLetterVersion
import BumpverVerif.Model.Pep440
namespace BV

/-- the number the model attaches to a number group: implicit 0 when absent -/
def numberOf (number : Option Str) : Nat := (number.map strToNat).getD 0

theorem lowerStr_nonempty {s w : Str} (h : lowerStr s = w) (hw : w ≠ []) : s.isEmpty = false := by
  cases s with
  | nil => exact absurd h.symm hw
  | cons => rfl

theorem tie_parseLetterVersion (w norm : Str) (hw : (w, norm) ∈ preWords ++ postWords ++ devWords)
    (s : Str) (hs : lowerStr s = w) (number : Option Str) :
    GenF.parseLetterVersion (some s) number = some (norm, numberOf number) := by
  simp only [preWords, postWords, devWords, List.cons_append, List.nil_append, List.mem_cons,
    List.not_mem_nil, or_false, Prod.mk.injEq] at hw
  rcases hw with ⟨rfl, rfl⟩ | ⟨rfl, rfl⟩ | ⟨rfl, rfl⟩ | ⟨rfl, rfl⟩ | ⟨rfl, rfl⟩ | ⟨rfl, rfl⟩ |
    ⟨rfl, rfl⟩ | ⟨rfl, rfl⟩ | ⟨rfl, rfl⟩ | ⟨rfl, rfl⟩ | ⟨rfl, rfl⟩ | ⟨rfl, rfl⟩ <;>
  (have hne := lowerStr_nonempty hs (by decide)
   cases number <;>
   simp only [GenF.parseLetterVersion, hne, hs, numberOf, Bool.not_false, if_true, Option.map_some,
     Option.map_none, Option.getD_some, Option.getD_none, Option.some.injEq, Prod.mk.injEq, and_true] <;>
   decide)

/-- non-vacuity: `Preview` is a spelling of a table word -/
example : GenF.parseLetterVersion (some "PreView".toList) (some "07".toList) = some ("rc".toList, 7) :=
  tie_parseLetterVersion "preview".toList "rc".toList (by decide) "PreView".toList (by decide) _

/-- `-N`: no letter group, a number group (`postSeg` reads it as post release N) -/
theorem tie_parseLetterVersion_implicitPost (digits : Str) (h : digits ≠ []) :
    GenF.parseLetterVersion none (some digits) = some ("post".toList, strToNat digits) := by
  cases digits with
  | nil => exact absurd rfl h
  | cons c cs => simp [GenF.parseLetterVersion]

example : GenF.parseLetterVersion none (some "12".toList) = some ("post".toList, 12) :=
  tie_parseLetterVersion_implicitPost _ (by decide)

/-- neither group took part in the match -/
theorem tie_parseLetterVersion_absent : GenF.parseLetterVersion none none = none := by decide

theorem firstPrefix_mem_tie (words : List (Str × Str)) (t norm r : Str)
    (h : firstPrefix words t = some (norm, r)) : ∃ w, (w, norm) ∈ words ∧ dropPrefix? w t = some r := by
  induction words with
  | nil => simp [firstPrefix] at h
  | cons p rest ih =>
    obtain ⟨w, nm⟩ := p
    simp only [firstPrefix] at h
    split at h
    · next r' hr' =>
      simp only [Option.some.injEq, Prod.mk.injEq] at h
      obtain ⟨rfl, rfl⟩ := h
      exact ⟨w, List.mem_cons_self, hr'⟩
    · obtain ⟨w', hm, hd⟩ := ih h
      exact ⟨w', List.mem_cons_of_mem _ hm, hd⟩

theorem numberOf_digits (digits : Str) :
    numberOf (if digits.isEmpty then none else some digits) = strToNat digits := by
  cases digits with
  | nil => rfl
  | cons c cs => rfl

/-- What the model's `letterSeg` answers is what the generated `_parse_letter_version` answers on the
    groups the regex hands over: the letter group is (any spelling of) the table word `w` found after the
    optional separator, the number group is the digit run after the second optional separator, ABSENT
    (`None`) when that run is empty. -/
theorem tie_parseLetterVersion_letterSeg (words : List (Str × Str))
    (hsub : ∀ p ∈ words, p ∈ preWords ++ postWords ++ devWords)
    (s l rest : Str) (n : Nat) (h : letterSeg words s = some ((l, n), rest)) :
    ∃ w r, (w, l) ∈ words ∧ dropPrefix? w (dropOptSep s) = some r ∧
      n = strToNat ((dropOptSep r).takeWhile isDigit) ∧ rest = (dropOptSep r).dropWhile isDigit ∧
      ∀ spelled, lowerStr spelled = w →
        GenF.parseLetterVersion (some spelled)
          (if ((dropOptSep r).takeWhile isDigit).isEmpty then none else some ((dropOptSep r).takeWhile isDigit))
          = some (l, n) := by
  simp only [letterSeg] at h
  split at h
  · cases h
  · next l' r hfp =>
    simp only [Option.some.injEq, Prod.mk.injEq] at h
    obtain ⟨⟨rfl, rfl⟩, rfl⟩ := h
    obtain ⟨w, hm, hd⟩ := firstPrefix_mem_tie _ _ _ _ hfp
    refine ⟨w, r, hm, hd, rfl, rfl, ?_⟩
    intro spelled hsp
    rw [tie_parseLetterVersion w l' (hsub _ hm) spelled hsp, numberOf_digits]

/-- non-vacuity of the hypothesis `h` -/
example : letterSeg preWords "-rc.3+x".toList = some (("rc".toList, 3), "+x".toList) := by decide

end BV
