/-
  Proofs/Tie_v1ParseVersionInfo.lean — the definition GENERATED from `v1version.parse_version_info(version_str,
  raw_pattern)` equals the hand model `BV.v1ParseVersionInfo` on all inputs:
  compile (errors propagate), `regexp.match` (no match: PatternError), the "Incomplete match" check
  `len(match.group()) < len(version_str)` (PatternError; the model writes `m.stop < versionStr.length`), then
  `_parse_version_info(match.groupdict())` with ValueError — and ONLY ValueError — turned into PatternError.

  Callees: `v1patterns.compile_pattern(raw_pattern)` = model `v1CompilePattern raw raw` (through `pyCompilePattern1`,
  tied by `tie_v1CompilePattern`), `_parse_version_info` = model `v1ParseGroups` (`tie_v1ParseGroups`).
  `regexp.match` / `match.group()` / `match.groupdict()` are the model's `reMatch` / matched text / `groupdict`.
-/
import BumpverVerif.Gen.F_v1ParseVersionInfo
import BumpverVerif.Proofs.TieV1Spec
set_option linter.unusedSimpArgs false
namespace BV
open GenV1

/-- `len(match.group())` is `m.stop` for a match object of `regexp.match(s)` -/
theorem pyGroup0_length_of_reMatch (r : Re) (s : Str) (m : Match) (h : reMatch r s = some m) :
    (pyGroup0 s m).length = m.stop := by
  unfold reMatch at h
  split at h
  · next st _ =>
    simp only [Option.some.injEq] at h
    subst h
    simp only [pyGroup0, List.drop_zero, Nat.sub_zero, List.length_take]
    omega
  · cases h

theorem tie_v1ParseVersionInfo (versionStr raw : Str) :
    GenV1.v1ParseVersionInfo versionStr raw = v1ParseVersionInfo versionStr raw := by
  unfold GenV1.v1ParseVersionInfo v1ParseVersionInfo pyCompilePattern1
  cases v1CompilePattern raw raw with
  | error e => rfl
  | ok r =>
    simp only [v1_ebind_ok]
    cases hm : reMatch r versionStr with
    | none => rfl
    | some m =>
      simp only [pyGroup0_length_of_reMatch r versionStr m hm]
      by_cases hlt : m.stop < versionStr.length
      · have hge : ¬ versionStr.length ≤ m.stop := by omega
        simp [hlt, hge]
      · have hge : versionStr.length ≤ m.stop := by omega
        simp only [hlt, hge, decide_true, decide_false, if_true, if_false, Bool.false_eq_true, Bool.not_true,
          Bool.not_false, ge_iff_le, gt_iff_lt, not_true_eq_false, not_false_eq_true]
        cases v1ParseGroups (groupdict r m) with
        | ok v => rfl
        | error e => cases e <;> rfl

end BV
