/-
  Proofs/Tie_calInfo.lean — the definition GENERATED from the Python source of `v2version.cal_info`
  (harness/translate_parse.py) equals the hand model `BV.calInfo` on ALL inputs:
  `cal_info(date)` = `calInfo y m d` of the date, `cal_info(None)` = the same of `version.TODAY`.
  The `strftime` calls (`%G %j %W %U %V`) are trusted primitives mapped to the model's `isoYear`, `dayOfYear`,
  `weekW`, `weekU`, `isoWeek`; which KEY of the kwargs gets which of them, the `version.quarter_from_month(date.month)`
  call, `date.year/month/day` and the `None` default come from the AST.
-/
import BumpverVerif.Gen.F_calInfo
namespace BV

theorem tie_calInfo (date : Option PDate) (today : PDate) :
    GenF.calInfo date today =
      (calInfo (date.getD today).1 (date.getD today).2.1 (date.getD today).2.2).toOpt := by
  cases date <;> simp [GenF.calInfo, calInfo, CalInfo.toOpt]

/-- the two call forms separately -/
theorem tie_calInfo_date (y m d : Nat) (today : PDate) :
    GenF.calInfo (some (y, m, d)) today = (calInfo y m d).toOpt := tie_calInfo _ _

theorem tie_calInfo_today (today : PDate) :
    GenF.calInfo none today = (calInfo today.1 today.2.1 today.2.2).toOpt := tie_calInfo _ _

end BV
