/-
  Proofs/Tie_cliUpdate.lean — `cli._update` and `cli._try_update` (GENERATED: Gen/F_cliUpdate.lean,
  Gen/F_cliTryUpdate.lean) against the tail of the hand model `BV.plan` (Model/Plan.lean): everything
  that `bumpver update` does after the version gate when it is not a dry run —
  usable-VCS probe → dirty check → rewrite → commit phase — and the exit code.

    planTail            that part of `plan`, as a function of the state it starts in
    plan_eq_viaTail     `plan` IS `planViaTail` (the same text with `planTail` folded), by `rfl`
    tie_cliTryUpdate    (events in order, exit code) of the generated `_try_update` = planTail e c s
                        for every configuration, failure position, hook / rewrite / dirty outcome

  Hypotheses: those of the commit phase (`CommitCoherent`, Tie_vcsCommit.lean) for the VCS object that
  `get_vcs_api` returns, and
  * `dirty` : the model's `dirtyAbort` is "assert_not_dirty does not return normally" for the status text
    (`sys.exit(1)` for the verdict `abort`; the verdict `crash` is an uncaught ValueError, exit code 1 too).
  `set(cfg.file_patterns.keys())` is abstracted as the parameter `filepaths_x` (the model's `files`).
-/
import BumpverVerif.Gen.F_cliTryUpdate
import BumpverVerif.Proofs.Tie_vcsCommit
import BumpverVerif.Proofs.Tie_getTags
import BumpverVerif.Proofs.Tie_assertNotDirty
set_option linter.unusedSimpArgs false
namespace BV
open GenE

/-- the part of `plan` after the dry-run test, started in state `s2` -/
def planTail (e : PlanEnv) (c : PlanCfg) (s2 : PState) : List Ev × Nat :=
  let (s3, usable) := if c.commit then isUsable e s2 else (s2, false)
  let (s4, o4) := if usable then vcsCall e (.cmd "status") s3 else (s3, Outcome.ok)
  if o4 == .failed then (s4.evs.reverse, 1)
  else if usable && e.dirtyAbort then (s4.evs.reverse, 1)
  else
    if !e.rewriteOk then (s4.evs.reverse, 1)
    else
    let s5 := { s4 with evs := .rewrite :: s4.evs }
    if !usable then (s5.evs.reverse, 0)
    else
      let (s6, o6) := commitPhase e c s5
      (s6.evs.reverse, if o6 == .ok then 0 else 1)

/-- `plan` with its tail folded into `planTail` -/
def planViaTail (c0 : PlanCfg) (a : PlanCli) (e : PlanEnv) : List Ev × Nat :=
  match parseVcsOptions c0 a with
  | none => ([], 1)
  | some c =>
    let s0 : PState := { evs := [], n := 0 }
    let (s1, o1) := if a.ignoreVcsTag then (s0, Outcome.ok) else getTags e a.fetch c.scopeBranch s0
    if o1 == .failed then (s1.evs.reverse, 1)
    else if !e.gateOk then (s1.evs.reverse, 1)
    else
      let (s2, o2) :=
        if c.scopeBranch || a.setVersion then getTags e false false s1 else (s1, Outcome.ok)
      if o2 == .failed then (s2.evs.reverse, 1)
      else if (c.scopeBranch || a.setVersion) && tagsListed e s1 && !e.uniqueOk then (s2.evs.reverse, 1)
      else if a.dry then (s2.evs.reverse, if e.rewriteOk then 0 else 1)
      else planTail e c s2

theorem plan_eq_viaTail (c0 : PlanCfg) (a : PlanCli) (e : PlanEnv) : plan c0 a e = planViaTail c0 a e := rfl

/-- why the commit phase stopped (only looked at when it did) -/
def commitStop {α : Type} (e : EffEnv) (cfg : Config α) (api : VcsApi) (nv cm tm : Str) (s : PState) : Stop :=
  match (vcsCommit cfg api e.plan.files nv cm tm e s).2 with
  | .error x => x
  | .ok _ => .called

theorem commitStop_kinds {α : Type} (e : EffEnv) (cfg : Config α) (api : VcsApi) (nv cm tm : Str) (s : PState)
    (h : CommitCoherent e cfg api nv) :
    commitStop e cfg api nv cm tm s = .called ∨ commitStop e cfg api nv cm tm s = .exit 1 := by
  have := vcsCommit_stop_kinds e s cfg api nv cm tm h
  unfold commitStop
  cases hr : (vcsCommit cfg api e.plan.files nv cm tm e s).2 with
  | error x => rw [hr] at this; exact this
  | ok _ => exact .inl rfl

/-- the full result of the generated `vcs.commit` in terms of `commitPhase` -/
theorem vcsCommit_result {α : Type} (e : EffEnv) (cfg : Config α) (api : VcsApi) (nv cm tm : Str) (s : PState)
    (h : CommitCoherent e cfg api nv) (hcommit : cfg.commit = true) :
    vcsCommit cfg api e.plan.files nv cm tm e s =
      (match commitPhase e.plan (absCfgE tm cfg) s with
       | (s', .ok) => (s', .ok ())
       | (s', .failed) => (s', .error (commitStop e cfg api nv cm tm s))) := by
  have hv := tie_vcsCommit e s cfg api nv cm tm h hcommit
  unfold commitStop
  rcases hr : vcsCommit cfg api e.plan.files nv cm tm e s with ⟨s1, r⟩
  rw [hr] at hv
  rw [← hv]
  cases r <;> simp [Eff.view, Eff.outcome]

@[simp] theorem exitCode_called {α : Type} : Eff.exitCode (.error .called : Except Stop α) = 1 := rfl
@[simp] theorem exitCode_exit {α : Type} (n : Nat) : Eff.exitCode (.error (.exit n) : Except Stop α) = n := rfl
@[simp] theorem exitCode_valueError {α : Type} : Eff.exitCode (.error .valueError : Except Stop α) = 1 := rfl
@[simp] theorem exitCode_ok {α : Type} (a : α) : Eff.exitCode (.ok a : Except Stop α) = 0 := rfl

/-- everything the tie assumes about the environment -/
structure UpdateCoherent {α : Type} (e : EffEnv) (cfg : Config α) (new_version : Str) (allow : Bool) : Prop where
  commit : CommitCoherent e cfg (kindApi e) new_version
  dirty : e.plan.dirtyAbort =
    (BV.assertNotDirty (pySplitlines (e.output "status")) e.plan.files allow != .proceed)

theorem tie_cliTryUpdate {α : Type} (e : EffEnv) (s : PState) (cfg : Config α) (nv cm tm : Str) (allow : Bool)
    (h : UpdateCoherent e cfg nv allow) :
    let r := cliTryUpdate cfg nv cm tm allow e.plan.files e s
    (r.1.evs.reverse, Eff.exitCode r.2) = planTail e.plan (absCfgE tm cfg) s := by
  obtain ⟨hcc, hd⟩ := h
  have hV := fun s => tie_getVcsApi e s
  have hA := fun s => tie_assertNotDirty e s (kindApi e) e.plan.files allow
  have hK : ∀ s, Eff.exitCode (.error (commitStop e cfg (kindApi e) nv cm tm s) : Except Stop Unit) = 1 := by
    intro s
    rcases commitStop_kinds e cfg (kindApi e) nv cm tm s hcc with hk | hk <;> rw [hk] <;> rfl
  cases hcm : cfg.commit with
  | false =>
    intro r
    simp only [r]
    unfold cliTryUpdate cliUpdate planTail
    eff_simp [absCfgE]
    eff_auto [absCfgE]
  | true =>
    have hC := fun s => vcsCommit_result e cfg (kindApi e) nv cm tm s hcc hcm
    intro r
    simp only [r]
    unfold cliTryUpdate cliUpdate planTail
    eff_simp [absCfgE, dirtyResult]
    eff_auto [absCfgE, dirtyResult]

end BV
