/-
  Proofs/Tie_iterResetFieldItems.lean — the definition GENERATED from the Python source of
  `v2version._iter_reset_field_items` (a generator, translated as the list it yields) equals the hand
  model `BV.resetItemsGo … false`.

  The translator renders the loop as a `List.foldl` over `Except PErr (yielded × has_reset)` (the
  `getattr(old_vinfo, field)` with a run-time name can raise AttributeError).  The proof (1) shows that one
  generated loop step is `resetStep`, for EVERY state and field name, using `tie_getattrVInfo`;
  (2) evaluates a fold of `resetStep` over any list of KNOWN field names to the model's `resetItemsGo`;
  (3) shows that an unknown name makes the fold fail.

  Python and model differ on names that are not fields of V2VersionInfo: Python raises AttributeError
  (`_iter_reset_field_items(["nope"], v, v)`), the model's `VInfo.get` answers `.none` and goes on.  The
  callers pass the VALUES of `PATTERN_PART_FIELDS`, which are fields.  `tie_iterResetFieldItems_full`
  states both cases; `tie_iterResetFieldItems` is the case of known names.
-/
import BumpverVerif.Gen.F_iterResetFieldItems
import BumpverVerif.Proofs.Tie_VInfoDyn
namespace BV

/-! helper definitions and lemmas live in `BV.TieA` (no clashes with other proof files); the `tie_…` theorems in `BV` -/
namespace TieA

/-- `getattr(old, f) != getattr(cur, f)`, AttributeError for a name that is not a field -/
def resetGate (old cur : VInfo) (f : Str) (y : List (Str × Str)) (hr : Bool) :
    Except PErr (List (Str × Str) × Bool) :=
  if f ∈ GenF.fieldNamesVInfo then .ok (y, hr || old.get f != cur.get f) else .error .unsupported

/-- one iteration of the loop of `_iter_reset_field_items` on the state (yielded, has_reset) -/
def resetStep (old cur : VInfo) (st : Except PErr (List (Str × Str) × Bool)) (f : Str) :
    Except PErr (List (Str × Str) × Bool) :=
  match st with
  | .error e => .error e
  | .ok (y, hr) =>
    match lookup f Gen.fieldInitialValues with
    | some init => if hr then .ok (y ++ [(f, init)], hr) else resetGate old cur f y hr
    | none => resetGate old cur f y hr

theorem foldl_resetStep_error (old cur : VInfo) (e : PErr) (fs : List Str) :
    fs.foldl (resetStep old cur) (.error e) = .error e := by
  induction fs with
  | nil => rfl
  | cons f fs ih => simpa [resetStep] using ih

/-- over known field names the fold computes the model's `resetItemsGo` -/
theorem foldl_resetStep_known (old cur : VInfo) (fs : List Str)
    (hk : ∀ f ∈ fs, f ∈ GenF.fieldNamesVInfo) (y : List (Str × Str)) (hr : Bool) :
    ∃ hr', fs.foldl (resetStep old cur) (.ok (y, hr)) = .ok (y ++ resetItemsGo old cur hr fs, hr') := by
  induction fs generalizing y hr with
  | nil => exact ⟨hr, by simp [resetItemsGo]⟩
  | cons f fs ih =>
    have hf : f ∈ GenF.fieldNamesVInfo := hk f List.mem_cons_self
    have hk' : ∀ g ∈ fs, g ∈ GenF.fieldNamesVInfo := fun g hg => hk g (List.mem_cons_of_mem _ hg)
    simp only [List.foldl_cons]
    unfold resetItemsGo
    cases hl : lookup f Gen.fieldInitialValues with
    | none =>
      simp only [resetStep, hl, resetGate, if_pos hf]
      exact ih hk' _ _
    | some init =>
      cases hr with
      | true =>
        simp only [resetStep, hl, if_true]
        obtain ⟨hr', h⟩ := ih hk' (y ++ [(f, init)]) true
        exact ⟨hr', by rw [h]; simp⟩
      | false =>
        simp only [resetStep, hl, resetGate, if_pos hf, Bool.false_eq_true, if_false, Bool.false_or]
        exact ih hk' _ _

/-- an unknown name is always looked up with `getattr` (it has no initial value): AttributeError -/
theorem foldl_resetStep_unknown (old cur : VInfo) (fs : List Str)
    (hu : ∃ f ∈ fs, f ∉ GenF.fieldNamesVInfo) (y : List (Str × Str)) (hr : Bool) :
    fs.foldl (resetStep old cur) (.ok (y, hr)) = .error .unsupported := by
  induction fs generalizing y hr with
  | nil => obtain ⟨f, hf, _⟩ := hu; cases hf
  | cons f fs ih =>
    simp only [List.foldl_cons]
    by_cases hf : f ∈ GenF.fieldNamesVInfo
    · have hu' : ∃ g ∈ fs, g ∉ GenF.fieldNamesVInfo := by
        obtain ⟨g, hg, hgn⟩ := hu
        rcases List.mem_cons.mp hg with e | hg'
        · subst e; exact absurd hf hgn
        · exact ⟨g, hg', hgn⟩
      cases hl : lookup f Gen.fieldInitialValues with
      | none => simp only [resetStep, hl, resetGate, if_pos hf]; exact ih hu' _ _
      | some init =>
        cases hr with
        | true => simp only [resetStep, hl, if_true]; exact ih hu' _ _
        | false => simp only [resetStep, hl, resetGate, if_pos hf, Bool.false_eq_true, if_false]; exact ih hu' _ _
    · have hl : lookup f Gen.fieldInitialValues = none := by
        cases hl : lookup f Gen.fieldInitialValues with
        | none => rfl
        | some init => exact absurd (init_key_mem_fieldNames f init hl) hf
      simp only [resetStep, hl, resetGate, if_neg hf]
      exact foldl_resetStep_error old cur _ fs

/-- the generated loop step is `resetStep` (modulo the order of the two state components) -/
theorem genStep_eq_resetStep (old cur : VInfo)
    (g : Except PErr (List (Str × Str) × Bool) → Str → Except PErr (List (Str × Str) × Bool))
    (hg : ∀ st f, g st f = resetStep old cur st f) (st : Except PErr (List (Str × Str) × Bool))
    (fs : List Str) : fs.foldl g st = fs.foldl (resetStep old cur) st := by
  have : g = resetStep old cur := funext fun s => funext fun x => hg s x
  rw [this]

end TieA
open TieA

theorem tie_iterResetFieldItems_full (fields : List Str) (old_vinfo cur_vinfo : VInfo) :
    GenF.iterResetFieldItems fields old_vinfo cur_vinfo =
      if fields.all (fun f => GenF.fieldNamesVInfo.elem f) then .ok (resetItemsGo old_vinfo cur_vinfo false fields)
      else .error .unsupported := by
  unfold GenF.iterResetFieldItems
  simp only
  rw [genStep_eq_resetStep old_vinfo cur_vinfo _ (by
    intro st f
    rcases st with e | ⟨y, hr⟩
    · rfl
    · simp only [resetStep, resetGate, tie_getattrVInfo]
      cases lookup f Gen.fieldInitialValues <;> cases hr <;>
        by_cases hf : f ∈ GenF.fieldNamesVInfo <;>
        by_cases hab : old_vinfo.get f = cur_vinfo.get f <;> simp [hf, hab])]
  by_cases hall : fields.all (fun f => GenF.fieldNamesVInfo.elem f) = true
  · rw [if_pos hall]
    have hk : ∀ f ∈ fields, f ∈ GenF.fieldNamesVInfo := by
      intro f hf
      have := List.all_eq_true.mp hall f hf
      simpa using this
    obtain ⟨hr', h⟩ := foldl_resetStep_known old_vinfo cur_vinfo fields hk [] false
    rw [h]; simp
  · rw [if_neg hall]
    have hu : ∃ f ∈ fields, f ∉ GenF.fieldNamesVInfo := by
      obtain ⟨f, hf, hn⟩ := List.all_eq_false.mp (Bool.not_eq_true _ ▸ hall)
      exact ⟨f, hf, by simpa using hn⟩
    rw [foldl_resetStep_unknown old_vinfo cur_vinfo fields hu]

/-- `_iter_reset_field_items` = the model's `resetItemsGo`, for field lists of field names.
    HYPOTHESIS `hk` (every element of `fields` is one of the twenty field names of V2VersionInfo): on
    another name Python raises AttributeError, the model's `VInfo.get` answers `.none`; witness
    `_iter_reset_field_items(["nope"], v, v)`.  The callers pass values of `PATTERN_PART_FIELDS`. -/
theorem tie_iterResetFieldItems (fields : List Str) (old_vinfo cur_vinfo : VInfo)
    (hk : ∀ f ∈ fields, f ∈ GenF.fieldNamesVInfo) :
    GenF.iterResetFieldItems fields old_vinfo cur_vinfo = .ok (resetItemsGo old_vinfo cur_vinfo false fields) := by
  rw [tie_iterResetFieldItems_full, if_pos]
  exact List.all_eq_true.mpr fun f hf => by simpa using hk f hf

end BV
