/-
  Proofs/ComposeMain.lean — THE COMPOSITION of the per-part lemmas over a whole pattern tree.

  `Pat.wf`   : the static, decidable well-formedness of a pattern ("uniquely readable"): every
               variable-width numeric part is followed by something that cannot start with a digit,
               and the body of every optional group starts with a literal character / a part that
               cannot start what follows the group (so an OMITTED group is not read into what follows).
  `Pat.vok`  : the version record lies in the domain of every part that is RENDERED (parts inside an
               omitted group carry their zero value and are not rendered).
  `Pat.caps` : the named groups the match reports, in match order.

  `compose_head` : for a well-formed pattern and a record in its domain, the FIRST success of the
  compiled regex (what `re.match` reports) on the rendered text followed by any admissible
  continuation consumes exactly the rendered text and captures exactly the rendered part texts.
-/
import BumpverVerif.Proofs.ComposeLemmas
namespace BV

/-! ### characters and continuation classes -/

theorem cm_isLower_iff (c : Char) : isLower c = true ↔ 97 ≤ c.toNat ∧ c.toNat ≤ 122 := by
  simp only [isLower, Bool.and_eq_true, decide_eq_true_eq, Char.le_def]
  exact Iff.rfl

theorem lower_not_digit (c : Char) (h : isLower c = true) : isDigit c = false := by
  cases hd : isDigit c with
  | false => rfl
  | true => rw [isDigit_iff] at hd; rw [cm_isLower_iff] at h; omega

theorem digit_not_lower (c : Char) (h : isDigit c = true) : isLower c = false := by
  cases hd : isLower c with
  | false => rfl
  | true => rw [lower_not_digit c hd] at h; cases h

theorem FSet.has_union_left (A B : FSet) (k : Str) (h : A.has k = true) :
    (A.union B).has k = true := by
  cases k with
  | nil =>
    simp only [FSet.has] at h
    simp only [FSet.has, FSet.union, h, Bool.true_or]
  | cons c k =>
    simp only [FSet.has, FSet.hasChar, Bool.or_eq_true, Bool.and_eq_true,
      List.contains_iff_mem] at h
    simp only [FSet.has, FSet.hasChar, FSet.union, Bool.or_eq_true, Bool.and_eq_true,
      List.contains_iff_mem, List.mem_append]
    rcases h with (h | h) | h
    · exact Or.inl (Or.inl ⟨Or.inl h.1, h.2⟩)
    · exact Or.inl (Or.inr ⟨Or.inl h.1, h.2⟩)
    · exact Or.inr (Or.inl h)

theorem FSet.has_union_right (A B : FSet) (k : Str) (h : B.has k = true) :
    (A.union B).has k = true := by
  cases k with
  | nil =>
    simp only [FSet.has] at h
    simp only [FSet.has, FSet.union, h, Bool.or_true]
  | cons c k =>
    simp only [FSet.has, FSet.hasChar, Bool.or_eq_true, Bool.and_eq_true,
      List.contains_iff_mem] at h
    simp only [FSet.has, FSet.hasChar, FSet.union, Bool.or_eq_true, Bool.and_eq_true,
      List.contains_iff_mem, List.mem_append]
    rcases h with (h | h) | h
    · exact Or.inl (Or.inl ⟨Or.inr h.1, h.2⟩)
    · exact Or.inl (Or.inr ⟨Or.inr h.1, h.2⟩)
    · exact Or.inr (Or.inr h)

theorem FSet.noDigit_ahead (F : FSet) (k : Str) (hn : F.noDigit = true) (hk : F.has k = true) :
    NoDigitAhead k := by
  intro c hc
  cases k with
  | nil => cases hc
  | cons x xs =>
    simp only [List.head?_cons, Option.some.injEq] at hc
    subst hc
    simp only [FSet.noDigit, Bool.and_eq_true, Bool.not_eq_true', List.all_eq_true] at hn
    simp only [FSet.has, FSet.hasChar, hn.1, Bool.false_and, Bool.false_or, Bool.or_eq_true,
      Bool.and_eq_true, List.contains_iff_mem] at hk
    rcases hk with hl | hm
    · exact lower_not_digit _ hl.2
    · exact hn.2 _ hm

def NoLowerAhead (k : Str) : Prop := ∀ c, k.head? = some c → isLower c = false

theorem FSet.noLower_ahead (F : FSet) (k : Str) (hn : F.noLower = true) (hk : F.has k = true) :
    NoLowerAhead k := by
  intro c hc
  cases k with
  | nil => cases hc
  | cons x xs =>
    simp only [List.head?_cons, Option.some.injEq] at hc
    subst hc
    simp only [FSet.noLower, Bool.and_eq_true, Bool.not_eq_true', List.all_eq_true] at hn
    simp only [FSet.has, FSet.hasChar, hn.1, Bool.false_and, Bool.or_false, Bool.or_eq_true,
      Bool.and_eq_true, List.contains_iff_mem] at hk
    rcases hk with hl | hm
    · exact digit_not_lower _ hl.2
    · exact hn.2 _ hm

/-! ### inversion of `Pat.compile`, unfolding of `render` / `caps` -/

theorem compile_lit_inv (c : Char) (rest : Pat) (r : Re) (h : Pat.compile (.lit c rest) = some r) :
    ∃ r', Pat.compile rest = some r' ∧ r = seqR (.chr c) r' := by
  simp only [Pat.compile] at h
  cases hr : Pat.compile rest with
  | none => rw [hr] at h; cases h
  | some r' =>
    rw [hr] at h
    simp only [Option.map_some, Option.some.injEq] at h
    exact ⟨r', rfl, h.symm⟩

theorem compile_part_inv (n : Str) (rest : Pat) (r : Re) (h : Pat.compile (.part n rest) = some r) :
    ∃ rx f r', partReOf n = some rx ∧ lookup n Gen.partFields = some f ∧
      Pat.compile rest = some r' ∧ r = seqR (.grp f rx) r' := by
  simp only [Pat.compile] at h
  split at h
  · next rx f r' h1 h2 h3 =>
    simp only [Option.some.injEq] at h
    exact ⟨rx, f, r', h1, h2, h3, h.symm⟩
  · cases h

theorem compile_opt_inv (body rest : Pat) (r : Re) (h : Pat.compile (.opt body rest) = some r) :
    ∃ b r', Pat.compile body = some b ∧ Pat.compile rest = some r' ∧
      r = seqR (.rep b 0 (some 1)) r' := by
  simp only [Pat.compile] at h
  split at h
  · next b r' h1 h2 =>
    simp only [Option.some.injEq] at h
    exact ⟨b, r', h1, h2, h.symm⟩
  · cases h

theorem render_part (v : VInfo) (n : Str) (rest : Pat) (t : Str) (ht : partText v n = some t) :
    Pat.render v (.part n rest) = t ++ Pat.render v rest := by
  simp only [Pat.render, ht, Option.getD_some]

theorem caps_part (v : VInfo) (n : Str) (rest : Pat) (f t : Str)
    (hf : lookup n Gen.partFields = some f) (ht : partText v n = some t) :
    Pat.caps v (.part n rest) = (f, t) :: Pat.caps v rest := by
  simp only [Pat.caps, hf, ht]

/-! ### the rendered text followed by `k` starts inside `Pat.first` -/

theorem first_has (v : VInfo) : ∀ (p : Pat) (F : FSet) (k : Str), Pat.vok v p = true →
    (Pat.compile p).isSome = true → F.has k = true →
    (Pat.first p F).has (Pat.render v p ++ k) = true := by
  intro p
  induction p with
  | done => intro F k _ _ hk; simpa only [Pat.first, Pat.render, List.nil_append] using hk
  | lit c rest _ =>
    intro F k _ _ _
    simp [Pat.first, Pat.render, FSet.has, FSet.hasChar]
  | part n rest _ =>
    intro F k hv hc _
    cases hcc : Pat.compile (.part n rest) with
    | none => rw [hcc] at hc; cases hc
    | some r =>
      obtain ⟨rx, f, r', hrx, _, _, _⟩ := compile_part_inv n rest r hcc
      simp only [Pat.vok, Bool.and_eq_true] at hv
      obtain ⟨t, ht, hne, hfo, _⟩ := part_head v n hv.1 rx hrx
      rw [render_part v n rest t ht]
      cases t with
      | nil => exact absurd rfl hne
      | cons c t' =>
        have hc1 := hfo c rfl
        simp only [Pat.first, List.cons_append, FSet.has]
        cases htag : isTagPart n with
        | true =>
          rw [htag] at hc1
          simp only [↓reduceIte] at hc1
          simp [FSet.hasChar, hc1]
        | false =>
          rw [htag] at hc1
          simp only [Bool.false_eq_true, ↓reduceIte] at hc1
          simp [FSet.hasChar, hc1]
  | opt body rest ihb ihr =>
    intro F k hv hc hk
    cases hcc : Pat.compile (.opt body rest) with
    | none => rw [hcc] at hc; cases hc
    | some r =>
      obtain ⟨b, r', hb, hr', _⟩ := compile_opt_inv body rest r hcc
      simp only [Pat.vok, Bool.and_eq_true, Bool.or_eq_true] at hv
      have h1 := ihr F k hv.2 (by rw [hr']; rfl) hk
      simp only [Pat.first, Pat.render]
      cases hz : Pat.allZero v body with
      | true =>
        simp only [↓reduceIte, List.nil_append]
        exact FSet.has_union_right _ _ _ h1
      | false =>
        have hvb : Pat.vok v body = true := by
          rcases hv.1 with h | h
          · rw [hz] at h; cases h
          · exact h
        simp only [Bool.false_eq_true, ↓reduceIte, List.append_assoc]
        exact FSet.has_union_left _ _ _ (ihb _ _ hvb (by rw [hb]; rfl) h1)

/-- a group body that passes `failsOn` starts with a literal or a part: it renders non-empty -/
theorem render_ne_nil (v : VInfo) (body : Pat) (F : FSet) (hf : Pat.failsOn body F = true)
    (hv : Pat.vok v body = true) (hc : (Pat.compile body).isSome = true) :
    Pat.render v body ≠ [] := by
  cases body with
  | done => simp [Pat.failsOn] at hf
  | lit c rest => simp [Pat.render]
  | part n rest =>
    cases hcc : Pat.compile (.part n rest) with
    | none => rw [hcc] at hc; cases hc
    | some r =>
      obtain ⟨rx, f, r', hrx, _, _, _⟩ := compile_part_inv n rest r hcc
      simp only [Pat.vok, Bool.and_eq_true] at hv
      obtain ⟨t, ht, hne, _, _⟩ := part_head v n hv.1 rx hrx
      rw [render_part v n rest t ht]
      intro h
      exact hne (List.append_eq_nil_iff.mp h).1
  | opt b r => simp [Pat.failsOn] at hf

/-! ### an omitted group: the compiled body has no success at all -/

theorem seqR_nil (a b : Re) (st : MSt) (h : a.m st = []) : (seqR a b).m st = [] := by
  unfold seqR
  split
  · exact h
  · simp only [Re.m, h, List.flatMap_nil]

theorem opt_absent (b : Re) (st : MSt) (h : b.m st = []) : (Re.rep b 0 (some 1)).m st = [st] := by
  cases hl : st.rest.length with
  | zero => simp [Re.m, hl, mRep]
  | succ n => simp [Re.m, hl, mRep, h]

theorem chr_nil (c : Char) (st : MSt) (h : ∀ x, st.rest.head? = some x → x ≠ c) :
    (Re.chr c).m st = [] := by
  cases hr : st.rest with
  | nil => simp [Re.m, hr]
  | cons x r =>
    have := h x (by rw [hr]; rfl)
    simp [Re.m, hr, this]

theorem litRe_nolower (w : Str) (hw : firstLower w = true) (st : MSt) (hs : NoLowerAhead st.rest) :
    (litRe w).m st = [] := by
  cases w with
  | nil => cases hw
  | cons c cs =>
    simp only [firstLower] at hw
    have hc : (Re.chr c).m st = [] := by
      apply chr_nil
      intro x hx e
      subst e
      rw [hs x hx] at hw; cases hw
    cases cs with
    | nil => exact hc
    | cons d ds =>
      show List.flatMap (litRe (d :: ds)).m ((Re.chr c).m st) = []
      rw [hc]; rfl

theorem altLits_nolower : ∀ (ws : List Str), ws ≠ [] → ws.all firstLower = true →
    ∀ st : MSt, NoLowerAhead st.rest → (altLits ws).m st = [] := by
  intro ws
  induction ws with
  | nil => intro h; exact absurd rfl h
  | cons w ws ih =>
    intro _ hall st hs
    simp only [List.all_cons, Bool.and_eq_true] at hall
    cases ws with
    | nil => exact litRe_nolower w hall.1 st hs
    | cons w2 ws' =>
      simp only [altLits, Re.m, litRe_nolower w hall.1 st hs, List.nil_append]
      exact ih (by simp) hall.2 st hs

theorem lookup_isSome_mem {α} (k : Str) : ∀ (l : List (Str × α)), (lookup k l).isSome = true →
    k ∈ l.map (·.1) := by
  intro l
  induction l with
  | nil => intro h; cases h
  | cons p l ih =>
    intro h
    obtain ⟨k', y⟩ := p
    simp only [lookup] at h
    split at h
    · next e => subst e; simp
    · simp only [List.map_cons, List.mem_cons]
      exact Or.inr (ih h)

def emptySt : MSt := { rest := [], start := true, caps := [] }

/-- every non-tag part recogniser is digit-only and needs at least one character -/
theorem nontag_table : (partDoms.map (·.1)).all (fun n => isTagPart n ||
    match partReOf n with
    | some rx => rx.digitOnly && (rx.m emptySt).isEmpty
    | none => false) = true := by
  decide +kernel

theorem nontag_fact (n : Str) (rx : Re) (hd : (lookup n partDoms).isSome = true)
    (ht : isTagPart n = false) (hrx : partReOf n = some rx) :
    rx.digitOnly = true ∧ rx.m emptySt = [] := by
  have h := nontag_table
  simp only [List.all_eq_true] at h
  have h := h n (lookup_isSome_mem n partDoms hd)
  rw [ht, hrx] at h
  simpa using h

theorem nontag_nil (n : Str) (rx : Re) (hd : (lookup n partDoms).isSome = true)
    (ht : isTagPart n = false) (hrx : partReOf n = some rx) (st : MSt)
    (hk : NoDigitAhead st.rest) : rx.m st = [] := by
  obtain ⟨hdo, he⟩ := nontag_fact n rx hd ht hrx
  have e : st = MSt.tr st.rest st.caps st.start emptySt := by
    obtain ⟨r, s, c⟩ := st
    simp [MSt.tr, emptySt]
  rw [e, digitOnly_tr st.rest hk st.caps st.start rx hdo emptySt, he]
  rfl

theorem tag_nil (n : Str) (rx : Re) (ht : isTagPart n = true) (hrx : partReOf n = some rx)
    (st : MSt) (hk : NoLowerAhead st.rest) : rx.m st = [] := by
  simp only [isTagPart, Bool.or_eq_true, beq_iff_eq] at ht
  rcases ht with rfl | rfl
  · rw [re_tags.1] at hrx
    have hrx := (Option.some.inj hrx).symm
    subst hrx
    exact altLits_nolower tagWords (by decide) (by decide) st hk
  · rw [re_tags.2] at hrx
    have hrx := (Option.some.inj hrx).symm
    subst hrx
    exact altLits_nolower pytagWords (by decide) (by decide) st hk

theorem body_fails (body : Pat) (F : FSet) (b : Re) (st : MSt) (hwf : Pat.wf body F = true)
    (hf : Pat.failsOn body F = true) (hc : Pat.compile body = some b)
    (hk : F.has st.rest = true) : b.m st = [] := by
  cases body with
  | done => simp [Pat.failsOn] at hf
  | lit c rest =>
    obtain ⟨r', _, rfl⟩ := compile_lit_inv c rest b hc
    apply seqR_nil
    apply chr_nil
    intro x hx e
    subst e
    simp only [Pat.failsOn, Bool.not_eq_true'] at hf
    cases hr : st.rest with
    | nil => rw [hr] at hx; cases hx
    | cons y r =>
      rw [hr] at hx hk
      simp only [List.head?_cons, Option.some.injEq] at hx
      subst hx
      simp only [FSet.has] at hk
      rw [hk] at hf; cases hf
  | part n rest =>
    obtain ⟨rx, f, r', hrx, _, _, rfl⟩ := compile_part_inv n rest b hc
    apply seqR_nil
    simp only [Pat.wf, Bool.and_eq_true] at hwf
    have hrxn : rx.m st = [] := by
      cases htag : isTagPart n with
      | true =>
        simp only [Pat.failsOn, htag, ↓reduceIte] at hf
        exact tag_nil n rx htag hrx st (FSet.noLower_ahead F _ hf hk)
      | false =>
        simp only [Pat.failsOn, htag, Bool.false_eq_true, ↓reduceIte] at hf
        exact nontag_nil n rx hwf.1.1 htag hrx st (FSet.noDigit_ahead F _ hf hk)
    simp only [Re.m, hrxn, List.map_nil]
  | opt b' r => simp [Pat.failsOn] at hf

/-- THE COMPOSITION LEMMA -/
theorem compose_head (v : VInfo) : ∀ (p : Pat) (F : FSet) (r : Re) (k : Str) (st : MSt),
    Pat.wf p F = true → Pat.vok v p = true → Pat.compile p = some r → F.has k = true →
    st.rest = Pat.render v p ++ k →
    ∃ st', (r.m st).head? = some st' ∧ st'.rest = k ∧ st'.caps = (Pat.caps v p).reverse ++ st.caps := by
  intro p
  induction p with
  | done =>
    intro F r k st _ _ hr _ hst
    simp only [Pat.compile, Option.some.injEq] at hr
    subst hr
    refine ⟨st, rfl, ?_, ?_⟩
    · simpa only [Pat.render, List.nil_append] using hst
    · simp only [Pat.caps, List.reverse_nil, List.nil_append]
  | lit c rest ih =>
    intro F r k st hwf hv hr hk hst
    obtain ⟨r', hr', rfl⟩ := compile_lit_inv c rest r hr
    simp only [Pat.wf] at hwf
    simp only [Pat.vok] at hv
    have hst' : st.rest = c :: (Pat.render v rest ++ k) := by
      simpa only [Pat.render, List.cons_append] using hst
    obtain ⟨st2, h2, hr2, hc2⟩ :=
      ih F r' k (st.step (Pat.render v rest ++ k)) hwf hv hr' hk rfl
    refine ⟨st2, head_seqR _ _ st _ st2 (head_chr c st _ hst') h2, hr2, ?_⟩
    rw [hc2]
    simp only [Pat.caps]
    rfl
  | part n rest ih =>
    intro F r k st hwf hv hr hk hst
    obtain ⟨rx, f, r', hrx, hf, hr', rfl⟩ := compile_part_inv n rest r hr
    simp only [Pat.wf, Bool.and_eq_true] at hwf
    simp only [Pat.vok, Bool.and_eq_true] at hv
    obtain ⟨t, ht, hne, hfo, hcons⟩ := part_head v n hv.1 rx hrx
    have hk' : (Pat.first rest F).has (Pat.render v rest ++ k) = true :=
      first_has v rest F k hv.2 (by rw [hr']; rfl) hk
    have hnd : needND n = true → NoDigitAhead (Pat.render v rest ++ k) := by
      intro hn
      have h2 := hwf.2
      rw [hn] at h2
      simp only [Bool.not_true, Bool.false_or] at h2
      exact FSet.noDigit_ahead _ _ h2 hk'
    have hst' : st.rest = t ++ (Pat.render v rest ++ k) := by
      rw [hst, render_part v n rest t ht, List.append_assoc]
    obtain ⟨st0, h0, hr0, hc0⟩ := hcons _ hnd st hst'
    obtain ⟨st1, h1, hr1, hc1⟩ := head_grp f rx st st0 t _ hst' h0 hr0
    obtain ⟨st2, h2, hr2, hc2⟩ := ih F r' k st1 hwf.1.2 hv.2 hr' hk hr1
    refine ⟨st2, head_seqR _ _ st st1 st2 h1 h2, hr2, ?_⟩
    rw [hc2, hc1, hc0, caps_part v n rest f t hf ht]
    simp only [List.reverse_cons, List.append_assoc, List.cons_append, List.nil_append]
  | opt body rest ihb ihr =>
    intro F r k st hwf hv hr hk hst
    obtain ⟨b, r', hb, hr', rfl⟩ := compile_opt_inv body rest r hr
    simp only [Pat.wf, Bool.and_eq_true] at hwf
    simp only [Pat.vok, Bool.and_eq_true, Bool.or_eq_true] at hv
    have hk' : (Pat.first rest F).has (Pat.render v rest ++ k) = true :=
      first_has v rest F k hv.2 (by rw [hr']; rfl) hk
    cases hz : Pat.allZero v body with
    | true =>
      have hst' : st.rest = Pat.render v rest ++ k := by
        rw [hst]; simp only [Pat.render, hz, ↓reduceIte, List.nil_append]
      have hbn : b.m st = [] :=
        body_fails body _ b st hwf.1.1 hwf.2 hb (by rw [hst']; exact hk')
      have h1 : ((Re.rep b 0 (some 1)).m st).head? = some st := by
        rw [opt_absent b st hbn]; rfl
      obtain ⟨st2, h2, hr2, hc2⟩ := ihr F r' k st hwf.1.2 hv.2 hr' hk hst'
      refine ⟨st2, head_seqR _ _ st st st2 h1 h2, hr2, ?_⟩
      rw [hc2]
      simp only [Pat.caps, hz, ↓reduceIte, List.nil_append]
    | false =>
      have hvb : Pat.vok v body = true := by
        rcases hv.1 with h | h
        · rw [hz] at h; cases h
        · exact h
      have hst' : st.rest = Pat.render v body ++ (Pat.render v rest ++ k) := by
        rw [hst]
        simp only [Pat.render, hz, Bool.false_eq_true, ↓reduceIte, List.append_assoc]
      obtain ⟨st1, h1, hr1, hc1⟩ := ihb (Pat.first rest F) b _ st hwf.1.1 hvb hb hk' hst'
      have hpos : Pat.render v body ≠ [] :=
        render_ne_nil v body _ hwf.2 hvb (by rw [hb]; rfl)
      have hlt : st1.rest.length < st.rest.length := by
        rw [hr1, hst']
        simp only [List.length_append]
        have := List.length_pos_iff.mpr hpos
        omega
      have h1' := head_opt_present b st st1 h1 hlt
      obtain ⟨st2, h2, hr2, hc2⟩ := ihr F r' k st1 hwf.1.2 hv.2 hr' hk hr1
      refine ⟨st2, head_seqR _ _ st st1 st2 h1' h2, hr2, ?_⟩
      rw [hc2, hc1]
      simp only [Pat.caps, hz, Bool.false_eq_true, ↓reduceIte, List.reverse_append,
        List.append_assoc]

/-- `re.match` on the rendered version: consumed in full, captures = the rendered parts -/
theorem compose_match (v : VInfo) (p : Pat) (r : Re) (hwf : Pat.wf p FSet.endOnly = true)
    (hv : Pat.vok v p = true) (hr : Pat.compile p = some r) :
    reMatch r (Pat.render v p) =
      some { start := 0, stop := (Pat.render v p).length, caps := (Pat.caps v p).reverse } := by
  obtain ⟨st', h, hr', hc⟩ := compose_head v p FSet.endOnly r []
    { rest := Pat.render v p, start := true, caps := [] } hwf hv hr rfl (by simp)
  simp only [reMatch, h, hr', hc, List.length_nil, Nat.sub_zero, List.append_nil]

end BV
