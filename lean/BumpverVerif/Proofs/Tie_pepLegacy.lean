/-
  Proofs/Tie_pepLegacy.lean — the definitions GENERATED from the Python source of `_parse_version_parts`,
  `_legacy_cmpkey`, `LegacyVersion.__init__` and `LegacyVersion.__str__` (Gen/F_pepParseVersionParts.lean,
  F_pepLegacyCmpkey.lean, F_pepLegacyInit.lean, F_pepLegacyStr.lean) against the hand model's `parseVersionParts`,
  `legacyKeyParts` (Model/Pep440.lean, section 4).

  The regex `_legacy_version_component_re` is a trusted primitive: its `split` is the PARAMETER `legacy_split`.
  The model describes it by `legacyTokens` = "the NON-EMPTY items of `re.split`, in order"; hypothesis `hs` says
  exactly that about the parameter (the Python loop skips the empty items itself: `if not part … continue`).

  * `tie_pepParseVersionParts` : generated generator (as the list it yields) = `parseVersionParts`;
  * `tie_pepLegacyCmpkey`      : generated `_legacy_cmpkey(s)` = `(-1, legacyKeyParts s)` — the Python loop appends to
       `parts` and pops from its end, the model folds over the reversed list (`legacyStep`);
  * `tie_pepLegacyInit`, `tie_pepLegacyStr` : the object and its text.
-/
import BumpverVerif.Gen.F_pepLegacyInit
import BumpverVerif.Gen.F_pepLegacyStr
import BumpverVerif.Model.PepGroups
import BumpverVerif.Proofs.Digits
set_option linter.unusedSimpArgs false
namespace BV
namespace TieQ

theorem mem_of_isInfix_singleton (c : Char) (l : Str) (h : isInfix [c] l = true) : c ∈ l := by
  induction l with
  | nil => simp [isInfix, findIdx] at h
  | cons d ds ih =>
    simp only [isInfix, findIdx] at h
    split at h
    · next hp =>
      simp only [List.isPrefixOf, Bool.and_true, beq_iff_eq] at hp
      subst hp; exact List.mem_cons_self
    · have : isInfix [c] ds = true := by
        simp only [isInfix]
        cases hf : findIdx [c] ds with
        | none => rw [hf] at h; simp at h
        | some _ => rfl
      exact List.mem_cons_of_mem _ (ih this)

theorem isInfix_digit (c : Char) : isInfix [c] "0123456789".toList = isDigit c := by
  by_cases h : isDigit c = true
  · have hall : ∀ d : Fin 10, isInfix [digitChar d.val] "0123456789".toList = true := by decide
    rw [h, ← digitChar_digitVal c h]
    exact hall ⟨_, digitVal_lt c h⟩
  · have hf : isDigit c = false := by simpa using h
    rw [hf]
    cases hi : isInfix [c] "0123456789".toList with
    | false => rfl
    | true =>
      have hm := mem_of_isInfix_singleton c _ hi
      have hd : ∀ d ∈ "0123456789".toList, isDigit d = true := by decide
      rw [hd c hm] at hf
      cases hf

/-- one element of the loop of `_parse_version_parts`, as the generated code computes it -/
def genPart (part0 : Str) : Option Str :=
  let part := (lookup part0 [("pre".toList, "c".toList), ("preview".toList, "c".toList), ("-".toList, "final-".toList),
    ("rc".toList, "c".toList), ("dev".toList, "@".toList)]).getD part0
  if ((!(!part.isEmpty)) || (part == ".".toList)) then none
  else if isInfix (List.take 1 part) "0123456789".toList then some (zfill 8 part) else some ("*".toList ++ part)

theorem genPart_eq (p : Str) : genPart p = legacyPart p := by
  have hr : (lookup p [("pre".toList, "c".toList), ("preview".toList, "c".toList), ("-".toList, "final-".toList),
      ("rc".toList, "c".toList), ("dev".toList, "@".toList)]).getD p = legacyReplace p := by
    simp only [lookup, legacyReplace]
    repeat' split
    all_goals first | rfl | simp_all
  simp only [genPart, legacyPart, hr]
  cases hq : legacyReplace p with
  | nil => simp
  | cons c cs =>
    simp only [List.isEmpty_cons, Bool.not_false, Bool.not_true, Bool.false_or, beq_iff_eq, Bool.or_eq_true,
      Bool.false_eq_true, false_or, List.take_succ_cons, List.take_zero, isInfix_digit]
    have hstar : "*".toList = ['*'] := rfl
    by_cases h1 : c :: cs = ['.']
    · have h2 : c :: cs = ".".toList := h1
      simp [h1, h2]
    · have h2 : ¬ c :: cs = ".".toList := h1
      cases isDigit c <;> simp [h1, h2, hstar]

theorem foldl_congr {α β : Type} (F G : α → β → α) (h : ∀ a x, F a x = G a x) (init : α) (xs : List β) :
    List.foldl F init xs = List.foldl G init xs := by
  have : F = G := by funext a x; exact h a x
  rw [this]

theorem foldl_append_opt {α β : Type} (f : β → Option α) (xs : List β) (init : List α) :
    List.foldl (fun acc x => acc ++ (f x).toList) init xs = init ++ xs.filterMap f := by
  induction xs generalizing init with
  | nil => simp
  | cons x xs ih =>
    simp only [List.foldl_cons, ih, List.filterMap_cons]
    cases f x <;> simp

theorem filterMap_filter_nonempty {α : Type} (f : Str → Option α) (hf : f [] = none) (xs : List Str) :
    (xs.filter (fun p => !p.isEmpty)).filterMap f = xs.filterMap f := by
  induction xs with
  | nil => rfl
  | cons x xs ih =>
    cases x with
    | nil => simp [List.filter_cons, List.filterMap_cons, hf, ih]
    | cons c cs => simp [List.filter_cons, List.filterMap_cons, ih]

theorem popWhile_reverse {α : Type} (p : α → Bool) (acc : List α) :
    popWhile p acc.reverse = (acc.dropWhile p).reverse := by
  simp [popWhile]

end TieQ

/-- generated `_parse_version_parts` (the list it yields) = the model's `parseVersionParts` -/
theorem tie_pepParseVersionParts (legacy_split : Str → List Str) (s : Str)
    (hs : (legacy_split s).filter (fun p => !p.isEmpty) = legacyTokens s) :
    GenQ.pepParseVersionParts legacy_split s = parseVersionParts s := by
  simp only [GenQ.pepParseVersionParts]
  rw [TieQ.foldl_congr _ (fun acc x => acc ++ (TieQ.genPart x).toList)]
  · rw [TieQ.foldl_append_opt, parseVersionParts, ← hs,
      TieQ.filterMap_filter_nonempty _ (by rfl)]
    have hg : TieQ.genPart = legacyPart := funext TieQ.genPart_eq
    simp only [List.nil_append, hg]
  · intro acc part
    simp only [TieQ.genPart]
    generalize (lookup part _).getD part = p
    -- whatever Boolean shape the Python gives the two tests: decide them, then both sides are literal lists
    generalize isInfix (List.take 1 p) "0123456789".toList = b3
    generalize (p == ".".toList) = b2
    generalize zfill 8 p = z
    generalize "*".toList ++ p = st
    generalize p.isEmpty = b1
    cases b1 <;> cases b2 <;> cases b3 <;> simp

/-- generated `_legacy_cmpkey(s)` = `(-1, legacyKeyParts s)` -/
theorem tie_pepLegacyCmpkey (legacy_split : Str → List Str) (s : Str)
    (hs : (legacy_split (lowerStr s)).filter (fun p => !p.isEmpty) = legacyTokens (lowerStr s)) :
    GenQ.pepLegacyCmpkey legacy_split s = (-1, legacyKeyParts s) := by
  simp only [GenQ.pepLegacyCmpkey, tie_pepParseVersionParts legacy_split (lowerStr s) hs, legacyKeyParts]
  congr 1
  have key : ∀ (xs : List Str) (acc : List Str),
      List.foldl (fun acc part => (legacyStep acc.reverse part).reverse) acc.reverse xs
        = (List.foldl legacyStep acc xs).reverse := by
    intro xs
    induction xs with
    | nil => intro acc; rfl
    | cons x xs ih =>
      intro acc
      simp only [List.foldl_cons, List.reverse_reverse]
      exact ih _
  rw [TieQ.foldl_congr _ (fun acc part => (legacyStep acc.reverse part).reverse)]
  · exact key _ []
  · intro acc part
    have hsw : startsWith part "*".toList = (part.head? == some '*') := by
      cases part with
      | nil => rfl
      | cons c cs =>
        have h1 : "*".toList = ['*'] := rfl
        simp only [startsWith, h1, List.isPrefixOf, Bool.and_true, List.head?_cons]
        by_cases hc : c = '*'
        · subst hc; rfl
        · have h2 : ('*' == c) = false := by simpa using fun h => hc h.symm
          have h3 : (some c == some '*') = false := by simpa using hc
          rw [h2, h3]
    simp only [hsw, legacyStep, popWhile, List.reverse_reverse]
    generalize "*final".toList = F1
    generalize "*final-".toList = F2
    generalize "00000000".toList = Z
    by_cases h1 : part.head? = some '*'
    · have h1' : (part.head? == some '*') = true := by simp [h1]
      simp only [h1, h1', if_true, beq_self_eq_true]
      by_cases h2 : strLt part F1 = true
      · simp only [h2, if_true, List.reverse_reverse, List.reverse_cons]
      · simp only [h2, if_false, List.reverse_reverse, List.reverse_cons, Bool.false_eq_true]
    · have h1' : (part.head? == some '*') = false := by simp [h1]
      simp only [h1, h1', if_false, List.reverse_cons, Bool.false_eq_true, List.reverse_reverse]

/-- generated `LegacyVersion.__init__` -/
theorem tie_pepLegacyInit (legacy_split : Str → List Str) (s : Str)
    (hs : (legacy_split (lowerStr s)).filter (fun p => !p.isEmpty) = legacyTokens (lowerStr s)) :
    GenQ.pepLegacyInit legacy_split s = { _version := s, _key := (-1, legacyKeyParts s) } := by
  simp only [GenQ.pepLegacyInit, tie_pepLegacyCmpkey legacy_split s hs]

/-- generated `LegacyVersion.__str__`: the original text -/
theorem tie_pepLegacyStr (o : LegacyObj) : GenQ.pepLegacyStr o = o._version := rfl

/-- the FIRST component of every legacy key is `-1`, whatever the split primitive does -/
theorem tie_pepLegacyCmpkey_epoch (legacy_split : Str → List Str) (s : Str) :
    (GenQ.pepLegacyCmpkey legacy_split s).1 = -1 := rfl

end BV
