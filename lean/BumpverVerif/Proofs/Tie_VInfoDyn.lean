/-
  Proofs/Tie_VInfoDyn.lean — the run-time views of `version.V2VersionInfo` GENERATED from the class
  definition (Gen/F_VInfoDyn.lean: `getattrVInfo`, `asdictVInfo`, `ofdictVInfo`) agree with the hand
  model's `VInfo.get` / `VInfo.setNat`, and the dict primitives of Gen/F_PyPrelude.lean behave like
  Python dicts where the ties need it.
-/
import BumpverVerif.Gen.F_VInfoDyn
import BumpverVerif.Proofs.V2Lemmas
namespace BV

/-! ### `getattr(v, f)` with a run-time name -/

/-- the generated `getattr` is the model's `VInfo.get` on the twenty field names of the class and
    AttributeError on every other name (where `VInfo.get` answers `.none`) -/
theorem tie_getattrVInfo (v : VInfo) (f : Str) :
    GenF.getattrVInfo v f =
      if f ∈ GenF.fieldNamesVInfo then .ok (v.get f) else .error .unsupported := by
  by_cases h : f ∈ GenF.fieldNamesVInfo
  · rw [if_pos h]
    simp only [GenF.fieldNamesVInfo, List.mem_cons, List.not_mem_nil, or_false] at h
    rcases h with h | h | h | h | h | h | h | h | h | h | h | h | h | h | h | h | h | h | h | h <;>
      (subst h; rfl)
  · rw [if_neg h]
    simp only [GenF.fieldNamesVInfo, List.mem_cons, List.not_mem_nil, or_false, not_or] at h
    unfold GenF.getattrVInfo
    simp only [h, if_false]

/-! helper definitions and lemmas live in `BV.TieA` (no clashes with other proof files); the `tie_…` theorems in `BV` -/
namespace TieA

theorem getattrVInfo_of_mem (v : VInfo) (f : Str) (h : f ∈ GenF.fieldNamesVInfo) :
    GenF.getattrVInfo v f = .ok (v.get f) := by
  rw [tie_getattrVInfo, if_pos h]

/-- every key of the generated `V2_FIELD_INITIAL_VALUES` is a field of the class -/
theorem init_key_mem_fieldNames (f init : Str) (h : lookup f Gen.fieldInitialValues = some init) :
    f ∈ GenF.fieldNamesVInfo := by
  rcases lookup_init_cases f init h with ⟨e, _⟩ | ⟨e, _⟩ | ⟨e, _⟩ | ⟨e, _⟩ | ⟨e, _⟩ | ⟨e, _⟩ <;>
    (subst e; decide)

/-! ### dicts as association lists (Gen/F_PyPrelude.lean) -/

theorem lookup_dictSet {α : Type} (k k' : Str) (v : α) (d : List (Str × α)) :
    lookup k (GenF.dictSet k' v d) = if k = k' then some v else lookup k d := by
  induction d with
  | nil => simp [GenF.dictSet, lookup]
  | cons e rest ih =>
    obtain ⟨k'', v''⟩ := e
    by_cases h1 : k' = k''
    · subst h1
      by_cases h2 : k = k' <;> simp [GenF.dictSet, lookup, h2]
    · by_cases h2 : k = k''
      · subst h2
        have : ¬ k = k' := fun e => h1 e.symm
        simp [GenF.dictSet, lookup, h1, this]
      · simp [GenF.dictSet, lookup, h1, h2, ih]

theorem mem_dictSet {α : Type} (k : Str) (v : α) (d : List (Str × α)) (e : Str × α)
    (h : e ∈ GenF.dictSet k v d) : e = (k, v) ∨ e ∈ d := by
  induction d with
  | nil => simp [GenF.dictSet] at h; exact .inl h
  | cons x rest ih =>
    obtain ⟨k', v'⟩ := x
    by_cases hk : k = k'
    · subst hk
      simp only [GenF.dictSet, if_true, List.mem_cons] at h
      rcases h with h | h
      · exact .inl h
      · exact .inr (List.mem_cons_of_mem _ h)
    · simp only [GenF.dictSet, if_neg hk, List.mem_cons] at h
      rcases h with h | h
      · exact .inr (h ▸ List.mem_cons_self)
      · rcases ih h with h' | h'
        · exact .inl h'
        · exact .inr (List.mem_cons_of_mem _ h')

theorem mem_foldl_dictSet {α : Type} (xs : List (Str × α)) (d0 : List (Str × α)) (e : Str × α)
    (h : e ∈ xs.foldl (fun d kv => GenF.dictSet kv.1 kv.2 d) d0) : e ∈ d0 ∨ e ∈ xs := by
  induction xs generalizing d0 with
  | nil => exact .inl h
  | cons x rest ih =>
    rcases ih _ h with h' | h'
    · rcases mem_dictSet _ _ _ _ h' with h'' | h''
      · exact .inr (h'' ▸ List.mem_cons_self)
      · exact .inl h''
    · exact .inr (List.mem_cons_of_mem _ h')

/-- every entry of `dict(pairs)` is one of the pairs -/
theorem mem_dictOfList {α : Type} (xs : List (Str × α)) (e : Str × α) (h : e ∈ GenF.dictOfList xs) :
    e ∈ xs := by
  rcases mem_foldl_dictSet xs [] e h with h' | h'
  · cases h'
  · exact h'

theorem lookup_isSome_eq_any {α : Type} (k : Str) (d : List (Str × α)) :
    (lookup k d).isSome = d.any (fun kv => kv.1 == k) := by
  induction d with
  | nil => rfl
  | cons e rest ih =>
    obtain ⟨k', v'⟩ := e
    by_cases h : k = k'
    · subst h; simp [lookup]
    · have : (k' == k) = false := by simpa using fun e => h e.symm
      simp [lookup, h, ih, this]

theorem dictHas_foldl_dictSet {α : Type} (k : Str) (xs : List (Str × α)) (d0 : List (Str × α)) :
    GenF.dictHas k (xs.foldl (fun d kv => GenF.dictSet kv.1 kv.2 d) d0) =
      (GenF.dictHas k d0 || xs.any (fun kv => kv.1 == k)) := by
  induction xs generalizing d0 with
  | nil => simp
  | cons x rest ih =>
    simp only [List.foldl_cons, List.any_cons, ih]
    simp only [GenF.dictHas, lookup_dictSet]
    by_cases h : k = x.1
    · subst h; simp
    · have : (x.1 == k) = false := by simpa using fun e => h e.symm
      simp [h, this]

/-- `k in dict(pairs)` iff some pair has the key `k` -/
theorem dictHas_dictOfList {α : Type} (k : Str) (xs : List (Str × α)) :
    GenF.dictHas k (GenF.dictOfList xs) = xs.any (fun kv => kv.1 == k) := by
  unfold GenF.dictOfList
  rw [dictHas_foldl_dictSet]
  simp [GenF.dictHas, lookup]

theorem any_key_dictOfList {α : Type} (k : Str) (xs : List (Str × α)) :
    (GenF.dictOfList xs).any (fun kv => kv.1 == k) = xs.any (fun kv => kv.1 == k) := by
  rw [← lookup_isSome_eq_any, ← dictHas_dictOfList]; rfl

/-! ### `_asdict()` / `V2VersionInfo(**d)` -/

theorem asOptNat_optNat (o : Option Nat) : GenF.asOptNatVInfo (optNat o) = .ok o := by
  cases o <;> rfl

/-- `V2VersionInfo(**v._asdict())` is `v` -/
theorem ofdict_asdict (v : VInfo) : GenF.ofdictVInfo (GenF.asdictVInfo v) = .ok v := by
  simp (config := { decide := true }) [GenF.ofdictVInfo, GenF.asdictVInfo, GenF.kwargVInfo, lookup, Except.bind,
    asOptNat_optNat, GenF.asNatVInfo, GenF.asStrVInfo, GenF.asConstVInfo, GenF.fieldNamesVInfo]

/-- `d[f] = n` on `v._asdict()` for one of the six resettable fields is `_asdict()` of the model's
    `v.setNat f n` -/
theorem dictSet_asdict (v : VInfo) (f init : Str) (n : Nat)
    (h : lookup f Gen.fieldInitialValues = some init) :
    GenF.dictSet f (FV.nat n) (GenF.asdictVInfo v) = GenF.asdictVInfo (v.setNat f n) := by
  rcases lookup_init_cases f init h with ⟨e, _⟩ | ⟨e, _⟩ | ⟨e, _⟩ | ⟨e, _⟩ | ⟨e, _⟩ | ⟨e, _⟩ <;>
    (subst e; rfl)

theorem isDigitStr_init (f init : Str) (h : lookup f Gen.fieldInitialValues = some init) :
    isDigitStr init = true := by
  rcases lookup_init_cases f init h with ⟨_, e⟩ | ⟨_, e⟩ | ⟨_, e⟩ | ⟨_, e⟩ | ⟨_, e⟩ | ⟨_, e⟩ <;>
    (subst e; decide)

theorem optNat_inj (a b : Option Nat) (h : optNat a = optNat b) : a = b := by
  cases a <;> cases b <;> simp_all [optNat]

/-- a `VInfo` is determined by what `getattr` sees -/
theorem VInfo.ext_get (v w : VInfo) (h : ∀ f, v.get f = w.get f) : v = w := by
  have c1 : optNat v.cal.yearY = optNat w.cal.yearY := h "year_y".toList
  have c2 : optNat v.cal.yearG = optNat w.cal.yearG := h "year_g".toList
  have c3 : optNat v.cal.quarter = optNat w.cal.quarter := h "quarter".toList
  have c4 : optNat v.cal.month = optNat w.cal.month := h "month".toList
  have c5 : optNat v.cal.dom = optNat w.cal.dom := h "dom".toList
  have c6 : optNat v.cal.doy = optNat w.cal.doy := h "doy".toList
  have c7 : optNat v.cal.weekW = optNat w.cal.weekW := h "week_w".toList
  have c8 : optNat v.cal.weekU = optNat w.cal.weekU := h "week_u".toList
  have c9 : optNat v.cal.weekV = optNat w.cal.weekV := h "week_v".toList
  have f1 : FV.nat v.major = FV.nat w.major := h "major".toList
  have f2 : FV.nat v.minor = FV.nat w.minor := h "minor".toList
  have f3 : FV.nat v.patch = FV.nat w.patch := h "patch".toList
  have f4 : FV.str v.bid = FV.str w.bid := h "bid".toList
  have f5 : FV.str v.tag = FV.str w.tag := h "tag".toList
  have f6 : FV.str v.pytag = FV.str w.pytag := h "pytag".toList
  have f7 : FV.nat v.num = FV.nat w.num := h "num".toList
  have f8 : FV.nat v.inc0 = FV.nat w.inc0 := h "inc0".toList
  have f9 : FV.nat v.inc1 = FV.nat w.inc1 := h "inc1".toList
  obtain ⟨⟨a1, a2, a3, a4, a5, a6, a7, a8, a9⟩, b1, b2, b3, b4, b5, b6, b7, b8, b9⟩ := v
  obtain ⟨⟨a1', a2', a3', a4', a5', a6', a7', a8', a9'⟩, b1', b2', b3', b4', b5', b6', b7', b8', b9'⟩ := w
  simp only at c1 c2 c3 c4 c5 c6 c7 c8 c9 f1 f2 f3 f4 f5 f6 f7 f8 f9
  have := optNat_inj _ _ c1; have := optNat_inj _ _ c2; have := optNat_inj _ _ c3
  have := optNat_inj _ _ c4; have := optNat_inj _ _ c5; have := optNat_inj _ _ c6
  have := optNat_inj _ _ c7; have := optNat_inj _ _ c8; have := optNat_inj _ _ c9
  injection f1; injection f2; injection f3; injection f4; injection f5; injection f6
  injection f7; injection f8; injection f9
  subst_vars
  rfl

/-- the loop `for field, value in reset_fields.items(): cur_kwargs[field] = int(value)` over pairs of the
    initial-value table, started from `v._asdict()`, is `_asdict()` of the model's `applyItems` -/
theorem foldl_kwargs (g : List (Str × FV) → Str × Str → List (Str × FV))
    (hg : ∀ d it, isDigitStr it.2 = true → g d it = GenF.dictSet it.1 (FV.nat (strToNat it.2)) d)
    (its : List (Str × Str)) (hP : ∀ it ∈ its, lookup it.1 Gen.fieldInitialValues = some it.2) (v : VInfo) :
    its.foldl g (GenF.asdictVInfo v) = GenF.asdictVInfo (applyItems its v) := by
  induction its generalizing v with
  | nil => rfl
  | cons it rest ih =>
    have hit := hP it List.mem_cons_self
    simp only [List.foldl_cons]
    rw [hg _ it (isDigitStr_init _ _ hit), dictSet_asdict v it.1 it.2 _ hit,
      ih (fun x hx => hP x (List.mem_cons_of_mem _ hx))]
    rfl

/-- `dict(items)` instead of `items` makes no difference to the model's `applyItems` when every item is a
    row of the initial-value table (duplicates carry the same value) -/
theorem applyItems_dictOfList (items : List (Str × Str))
    (hP : ∀ it ∈ items, lookup it.1 Gen.fieldInitialValues = some it.2) (v : VInfo) :
    applyItems (GenF.dictOfList items) v = applyItems items v := by
  apply VInfo.ext_get
  intro f
  rw [applyItems_get f _ v (fun it h => hP it (mem_dictOfList items it h)), applyItems_get f _ v hP,
    any_key_dictOfList]

end TieA
end BV
