/-
  Proofs/PepTreeLemmas.lean — lemmas about the tree-level `_convert_to_pep440` (`Pat.toPep`,
  Model/PepTree.lean) for C15: the record stays inside the domain of the derived pattern
  (`vok_toPep_*`), and the parts of a derived pattern in normal form render as `str(n)`.
-/
import BumpverVerif.Model.PepTree
import BumpverVerif.Proofs.ReadBack
namespace BV

/-! ### the tag table -/

/-- in `PEP440_TAG_BY_TAG` exactly `final` has the empty short tag -/
theorem pepTag_empty_iff (t p : Str) (h : lookup t Gen.pep440TagByTag = some p) :
    p = [] ↔ t = "final".toList := by
  have hmem := lookup_mem_cl t _ p h
  simp only [Gen.pep440TagByTag, List.mem_cons, Prod.mk.injEq, List.not_mem_nil, or_false] at hmem
  rcases hmem with ⟨rfl, rfl⟩ | ⟨rfl, rfl⟩ | ⟨rfl, rfl⟩ | ⟨rfl, rfl⟩ | ⟨rfl, rfl⟩ | ⟨rfl, rfl⟩ | ⟨rfl, rfl⟩ |
    ⟨rfl, rfl⟩ | ⟨rfl, rfl⟩ | ⟨rfl, rfl⟩ | ⟨rfl, rfl⟩ | ⟨rfl, rfl⟩ | ⟨rfl, rfl⟩ <;> decide

structure PepReady (v : VInfo) : Prop where
  img : lookup v.tag Gen.pep440TagByTag = some v.pytag
  tag : tagOk v = true
  bid : 1 ≤ strToNat v.bid
  num : v.tag = "final".toList → v.num = 0

theorem pepReady_iff (v : VInfo) : pepReady v = true ↔ PepReady v := by
  unfold pepReady
  simp only [Bool.and_eq_true, Bool.or_eq_true, beq_iff_eq, decide_eq_true_eq, bne_iff_ne, ne_eq]
  constructor
  · rintro ⟨⟨⟨h1, h2⟩, h3⟩, h4⟩
    exact ⟨h1, h2, h3, fun e => by rcases h4 with h | h; exact absurd e h; exact h⟩
  · rintro ⟨h1, h2, h3, h4⟩
    refine ⟨⟨⟨h1, h2⟩, h3⟩, ?_⟩
    by_cases e : v.tag = "final".toList
    · exact Or.inr (h4 e)
    · exact Or.inl e

theorem tagCoh_of_pepReady (v : VInfo) (h : pepReady v = true) : tagCoh v = true := by
  have hr := (pepReady_iff v).1 h
  unfold tagCoh
  by_cases e : v.pytag = []
  · have := (pepTag_empty_iff _ _ hr.img).1 e
    simp [this]
  · cases hp : v.pytag with
    | nil => exact absurd hp e
    | cons c t => simp

/-! ### zero values of the parts the conversion touches -/

theorem partIsZero_noZero (v : VInfo) (n : Str) (h : lookup n Gen.partZeroValues = none) :
    partIsZero v n = false := by
  unfold partIsZero isZeroVal
  rw [h]
  cases partText v n <;> rfl

theorem partIsZero_TAG (v : VInfo) : partIsZero v "TAG".toList = (v.tag == "final".toList) := by
  unfold partIsZero
  rw [partText_TAG]
  rfl

theorem partIsZero_PYTAG (v : VInfo) : partIsZero v "PYTAG".toList = (v.pytag == []) := by
  unfold partIsZero
  rw [partText_PYTAG]
  rfl

theorem partText_NUM (v : VInfo) : partText v "NUM".toList = some (natToStr v.num) :=
  partText_nat _ "num".toList (·.num) (by decide) (by decide) (fun _ => rfl) v

theorem natToStr_eq_zero_iff (n : Nat) : natToStr n = "0".toList ↔ n = 0 := by
  constructor
  · intro h
    have := strToNat_natToStr n
    rw [h] at this
    exact this.symm
  · rintro rfl; decide

theorem partIsZero_NUM (v : VInfo) : partIsZero v "NUM".toList = decide (v.num = 0) := by
  unfold partIsZero
  rw [partText_NUM]
  show (natToStr v.num == "0".toList) = decide (v.num = 0)
  by_cases h : v.num = 0
  · rw [h]; decide
  · have : natToStr v.num ≠ "0".toList := fun e => h ((natToStr_eq_zero_iff _).1 e)
    rw [decide_eq_false h]
    exact beq_eq_false_iff_ne.2 this

/-- a substitution keeps "is zero" -/
theorem partIsZero_subst (v : VInfo) (hr : PepReady v) (n s : Str)
    (hs : lookup n Gen.pep440PartSubstitutions = some s) : partIsZero v s = partIsZero v n := by
  have hmem := lookup_mem_cl n _ s hs
  simp only [Gen.pep440PartSubstitutions, List.mem_cons, Prod.mk.injEq, List.not_mem_nil, or_false] at hmem
  rcases hmem with ⟨rfl, rfl⟩ | ⟨rfl, rfl⟩ | ⟨rfl, rfl⟩ | ⟨rfl, rfl⟩ | ⟨rfl, rfl⟩ | ⟨rfl, rfl⟩ | ⟨rfl, rfl⟩ | ⟨rfl, rfl⟩
  all_goals first
    | (rw [partIsZero_noZero v _ (by decide), partIsZero_noZero v _ (by decide)])
    | skip
  rw [partIsZero_TAG, partIsZero_PYTAG]
  have := pepTag_empty_iff _ _ hr.img
  by_cases e : v.pytag = []
  · rw [e, this.1 e]; decide
  · have e2 : ¬ v.tag = "final".toList := fun h => e (this.2 h)
    rw [beq_eq_false_iff_ne.2 e, beq_eq_false_iff_ne.2 e2]

/-- a numerical substitution keeps the domain; BUILD -> BLD needs a non-zero BUILD number -/
theorem partOk_subst_num (v : VInfo) (hb : 1 ≤ strToNat v.bid) (n s : Str)
    (hs : lookup n Gen.pep440PartSubstitutions = some s) (hn : n ≠ "TAG".toList)
    (hok : partOk v n = true) : partOk v s = true := by
  have hmem := lookup_mem_cl n _ s hs
  simp only [Gen.pep440PartSubstitutions, List.mem_cons, Prod.mk.injEq, List.not_mem_nil, or_false] at hmem
  rcases hmem with ⟨rfl, rfl⟩ | ⟨rfl, rfl⟩ | ⟨rfl, rfl⟩ | ⟨rfl, rfl⟩ | ⟨rfl, rfl⟩ | ⟨rfl, rfl⟩ | ⟨rfl, rfl⟩ | ⟨rfl, rfl⟩
  · exact hok
  · exact hok
  · exact hok
  · exact hok
  · exact hok
  · exact hok
  · show (isDigitStr v.bid && decide (1 ≤ strToNat v.bid)) = true
    have h1 : isDigitStr v.bid = true := hok
    simp [h1, hb]
  · exact absurd rfl hn

/-- TAG -> PYTAG keeps the domain for every release that is not final -/
theorem partOk_subst_tag (v : VInfo) (hr : PepReady v) (hnf : v.tag ≠ "final".toList) :
    partOk v "PYTAG".toList = true := by
  show pytagOk v = true
  unfold pytagOk
  have hne : v.pytag ≠ [] := fun e => hnf ((pepTag_empty_iff _ _ hr.img).1 e)
  simp only [hr.tag, hr.img, beq_self_eq_true, Bool.true_and, Bool.not_eq_true', List.isEmpty_eq_false_iff]
  exact hne

theorem subst_tag_only (n s : Str) (hs : lookup n Gen.pep440PartSubstitutions = some s) :
    (s = "PYTAG".toList ↔ n = "TAG".toList) ∧ s ≠ "NUM".toList ∧ s ≠ "TAG".toList := by
  have hmem := lookup_mem_cl n _ s hs
  simp only [Gen.pep440PartSubstitutions, List.mem_cons, Prod.mk.injEq, List.not_mem_nil, or_false] at hmem
  rcases hmem with ⟨rfl, rfl⟩ | ⟨rfl, rfl⟩ | ⟨rfl, rfl⟩ | ⟨rfl, rfl⟩ | ⟨rfl, rfl⟩ | ⟨rfl, rfl⟩ | ⟨rfl, rfl⟩ | ⟨rfl, rfl⟩ <;>
    decide

/-! ### steps 2 and 3 (`keepPepLits`, `mapParts`) in one induction -/

theorem allZero_pre (v : VInfo) (f : Str → Str) (hZ : ∀ n, partIsZero v (f n) = partIsZero v n) :
    ∀ q : Pat, Pat.allZero v (Pat.mapParts f (Pat.keepPepLits q)) = Pat.allZero v q := by
  intro q
  induction q with
  | done => rfl
  | lit c rest ih =>
    simp only [Pat.keepPepLits]
    split <;> simp only [Pat.mapParts, Pat.allZero, ih]
  | part n rest ih => simp only [Pat.keepPepLits, Pat.mapParts, Pat.allZero, hZ, ih]
  | opt body rest ihb ihr => simp only [Pat.keepPepLits, Pat.mapParts, Pat.allZero, ihb, ihr]

/-- every substitution keeps the domain: the record stays in the domain -/
theorem vok_pre_all (v : VInfo) (f : Str → Str) (hZ : ∀ n, partIsZero v (f n) = partIsZero v n)
    (hOk : ∀ n, partOk v n = true → partOk v (f n) = true) :
    ∀ q : Pat, Pat.vok v q = true → Pat.vok v (Pat.mapParts f (Pat.keepPepLits q)) = true := by
  intro q
  induction q with
  | done => intro _; rfl
  | lit c rest ih =>
    intro h
    simp only [Pat.keepPepLits]
    split
    · exact ih h
    · exact ih h
  | part n rest ih =>
    intro h
    simp only [Pat.keepPepLits, Pat.mapParts, Pat.vok, Bool.and_eq_true] at h ⊢
    exact ⟨hOk _ h.1, ih h.2⟩
  | opt body rest ihb ihr =>
    intro h
    simp only [Pat.keepPepLits, Pat.mapParts, Pat.vok, Bool.and_eq_true, Bool.or_eq_true,
      allZero_pre v f hZ] at h ⊢
    exact ⟨h.1.imp id ihb, ihr h.2⟩

theorem allZero_of_parts (v : VInfo) : ∀ q : Pat, (∀ n, n ∈ q.parts → partIsZero v n = true) →
    Pat.allZero v q = true := by
  intro q
  induction q with
  | done => intro _; rfl
  | lit c rest ih => intro h; exact ih h
  | part n rest ih =>
    intro h
    simp only [Pat.parts, List.mem_cons] at h
    simp only [Pat.allZero, Bool.and_eq_true]
    exact ⟨h n (Or.inl rfl), ih (fun m hm => h m (Or.inr hm))⟩
  | opt body rest ihb ihr =>
    intro h
    simp only [Pat.parts, List.mem_append] at h
    simp only [Pat.allZero, Bool.and_eq_true]
    exact ⟨ihb (fun m hm => h m (Or.inl hm)), ihr (fun m hm => h m (Or.inr hm))⟩

/-- the tag parts are all zero and every TAG sits in a tag/number group: such groups are omitted -/
theorem vok_pre_guarded (v : VInfo) (f : Str → Str) (hZ : ∀ n, partIsZero v (f n) = partIsZero v n)
    (hOk : ∀ n, n ≠ "TAG".toList → partOk v n = true → partOk v (f n) = true)
    (hT : ∀ n, isTailPart n = true → partIsZero v n = true) :
    ∀ q : Pat, Pat.tagGuarded q = true → Pat.vok v q = true →
      Pat.vok v (Pat.mapParts f (Pat.keepPepLits q)) = true := by
  intro q
  induction q with
  | done => intro _ _; rfl
  | lit c rest ih =>
    intro hg h
    simp only [Pat.keepPepLits]
    split
    · exact ih hg h
    · exact ih hg h
  | part n rest ih =>
    intro hg h
    simp only [Pat.tagGuarded, Bool.and_eq_true, bne_iff_ne, ne_eq] at hg
    simp only [Pat.keepPepLits, Pat.mapParts, Pat.vok, Bool.and_eq_true] at h ⊢
    exact ⟨hOk _ hg.1 h.1, ih hg.2 h.2⟩
  | opt body rest ihb ihr =>
    intro hg h
    simp only [Pat.tagGuarded, Bool.and_eq_true, Bool.or_eq_true, List.all_eq_true] at hg
    simp only [Pat.keepPepLits, Pat.mapParts, Pat.vok, Bool.and_eq_true, Bool.or_eq_true,
      allZero_pre v f hZ] at h ⊢
    refine ⟨?_, ihr hg.2 h.2⟩
    rcases hg.1 with hall | hgb
    · exact Or.inl (allZero_of_parts v body (fun n hn => hT n (hall n hn)))
    · exact h.1.imp id (ihb hgb)

/-! ### step 4 -/

theorem allZero_drop_pre (v : VInfo) (f : Str → Str) (hZ : ∀ n, partIsZero v (f n) = partIsZero v n) :
    ∀ q : Pat, Pat.allZero v q = true →
      Pat.allZero v (Pat.dropTagNum (Pat.mapParts f (Pat.keepPepLits q))) = true := by
  intro q
  induction q with
  | done => intro _; rfl
  | lit c rest ih =>
    intro h
    simp only [Pat.keepPepLits]
    split
    · exact ih h
    · exact ih h
  | part n rest ih =>
    intro h
    simp only [Pat.allZero, Bool.and_eq_true] at h
    simp only [Pat.keepPepLits, Pat.mapParts, Pat.dropTagNum]
    split
    · exact ih h.2
    · simp only [Pat.allZero, Bool.and_eq_true, hZ]
      exact ⟨h.1, ih h.2⟩
  | opt body rest ihb ihr =>
    intro h
    simp only [Pat.allZero, Bool.and_eq_true] at h
    simp only [Pat.keepPepLits, Pat.mapParts, Pat.dropTagNum, Pat.allZero, Bool.and_eq_true]
    exact ⟨ihb h.1, ihr h.2⟩

/-- with the PYTAG and NUM parts gone only the other substitutions must keep the domain -/
theorem vok_drop_pre (v : VInfo) (f : Str → Str) (hZ : ∀ n, partIsZero v (f n) = partIsZero v n)
    (hOk : ∀ n, f n ≠ "PYTAG".toList → f n ≠ "NUM".toList → partOk v n = true → partOk v (f n) = true) :
    ∀ q : Pat, Pat.vok v q = true →
      Pat.vok v (Pat.dropTagNum (Pat.mapParts f (Pat.keepPepLits q))) = true := by
  intro q
  induction q with
  | done => intro _; rfl
  | lit c rest ih =>
    intro h
    simp only [Pat.keepPepLits]
    split
    · exact ih h
    · exact ih h
  | part n rest ih =>
    intro h
    simp only [Pat.vok, Bool.and_eq_true] at h
    simp only [Pat.keepPepLits, Pat.mapParts, Pat.dropTagNum]
    split
    · exact ih h.2
    · next hne =>
      simp only [Bool.or_eq_true, beq_iff_eq, not_or] at hne
      simp only [Pat.vok, Bool.and_eq_true]
      exact ⟨hOk n hne.1 hne.2 h.1, ih h.2⟩
  | opt body rest ihb ihr =>
    intro h
    simp only [Pat.vok, Bool.and_eq_true, Bool.or_eq_true] at h
    simp only [Pat.keepPepLits, Pat.mapParts, Pat.dropTagNum, Pat.vok, Bool.and_eq_true, Bool.or_eq_true]
    exact ⟨h.1.elim (fun hz => Or.inl (allZero_drop_pre v f hZ body hz)) (fun hv => Or.inr (ihb hv)), ihr h.2⟩

theorem allZero_dropEmptyOpt (v : VInfo) : ∀ q : Pat, Pat.allZero v (Pat.dropEmptyOpt q) = Pat.allZero v q := by
  intro q
  fun_induction Pat.dropEmptyOpt q with
  | case1 => rfl
  | case2 c rest ih => simp only [Pat.allZero, ih]
  | case3 n rest ih => simp only [Pat.allZero, ih]
  | case4 rest ih => simp only [Pat.allZero, ih, Bool.true_and]
  | case5 body rest _ ihb ihr => simp only [Pat.allZero, ihb, ihr]

theorem vok_dropEmptyOpt (v : VInfo) : ∀ q : Pat, Pat.vok v q = true → Pat.vok v (Pat.dropEmptyOpt q) = true := by
  intro q
  fun_induction Pat.dropEmptyOpt q with
  | case1 => intro _; rfl
  | case2 c rest ih => intro h; exact ih h
  | case3 n rest ih =>
    intro h
    simp only [Pat.vok, Bool.and_eq_true] at h ⊢
    exact ⟨h.1, ih h.2⟩
  | case4 rest ih =>
    intro h
    simp only [Pat.vok, Bool.and_eq_true] at h
    exact ih h.2
  | case5 body rest _ ihb ihr =>
    intro h
    simp only [Pat.vok, Bool.and_eq_true, Bool.or_eq_true, allZero_dropEmptyOpt] at h ⊢
    exact ⟨h.1.imp id ihb, ihr h.2⟩

theorem vok_append (v : VInfo) (b : Pat) : ∀ a : Pat, Pat.vok v (Pat.append a b) = (Pat.vok v a && Pat.vok v b) := by
  intro a
  induction a with
  | done => simp only [Pat.append, Pat.vok, Bool.true_and]
  | lit c rest ih => simp only [Pat.append, Pat.vok, ih]
  | part n rest ih => simp only [Pat.append, Pat.vok, ih, Bool.and_assoc]
  | opt body rest _ ihr => simp only [Pat.append, Pat.vok, ihr, Bool.and_assoc]

theorem partOk_NUM (v : VInfo) : partOk v "NUM".toList = true := rfl

/-- the appended `[PYTAGNUM]`: omitted for a final release, in the domain of PYTAG otherwise -/
theorem vok_pepTail (v : VInfo) (hr : PepReady v) : Pat.vok v pepTail = true := by
  simp only [pepTail, Pat.vok, Pat.allZero, Bool.and_true, Bool.or_eq_true, Bool.and_eq_true]
  by_cases e : v.tag = "final".toList
  · left
    rw [partIsZero_PYTAG, partIsZero_NUM, (pepTag_empty_iff _ _ hr.img).2 e, hr.num e]
    exact ⟨rfl, rfl⟩
  · right
    exact ⟨partOk_subst_tag v hr e, partOk_NUM v⟩

/-! ### the conversion as a whole -/

theorem pepSubstName_cases (q : Pat) (n : Str) :
    pepSubstName q n = n ∨ lookup n Gen.pep440PartSubstitutions = some (pepSubstName q n) := by
  unfold pepSubstName
  cases hs : lookup n Gen.pep440PartSubstitutions with
  | none => exact Or.inl rfl
  | some sub =>
    simp only
    repeat' split
    all_goals first
      | exact Or.inl rfl
      | exact Or.inr rfl

theorem pepSubstName_zero (v : VInfo) (hr : PepReady v) (q : Pat) (n : Str) :
    partIsZero v (pepSubstName q n) = partIsZero v n := by
  rcases pepSubstName_cases q n with h | h
  · rw [h]
  · exact partIsZero_subst v hr n _ h

theorem toPepPre_eq (p : Pat) :
    p.toPepPre = Pat.mapParts (pepSubstName p.dropV.keepPepLits) (Pat.keepPepLits p.dropV) := rfl

theorem vok_dropV (v : VInfo) (p : Pat) (h : Pat.vok v p = true) : Pat.vok v p.dropV = true := by
  cases p with
  | lit c rest =>
    simp only [Pat.dropV]
    split
    · exact h
    · exact h
  | _ => exact h

theorem tagGuarded_dropV (p : Pat) (h : Pat.tagGuarded p = true) : Pat.tagGuarded p.dropV = true := by
  cases p with
  | lit c rest =>
    simp only [Pat.dropV]
    split
    · exact h
    · exact h
  | _ => exact h

/-- the RELOCATION branch (no `PYTAGNUM` after the substitutions): nothing about the tag parts of the
    original pattern is needed, they are removed -/
theorem vok_toPep_relocated (p : Pat) (v : VInfo) (hv : Pat.vok v p = true) (hr : PepReady v)
    (hn : p.toPepPre.hasPytagNum = false) : Pat.vok v p.toPep = true := by
  unfold Pat.toPep Pat.relocateTail
  rw [hn]
  simp only [Bool.false_eq_true, if_false, vok_append, Bool.and_eq_true]
  refine ⟨vok_dropEmptyOpt v _ ?_, vok_pepTail v hr⟩
  rw [toPepPre_eq]
  apply vok_drop_pre v _ (pepSubstName_zero v hr _) _ _ (vok_dropV v p hv)
  intro n h1 _ hok
  rcases pepSubstName_cases p.dropV.keepPepLits n with h | h
  · rw [h]; exact hok
  · have hne : n ≠ "TAG".toList := fun e => h1 ((subst_tag_only n _ h).1.2 e)
    exact partOk_subst_num v hr.bid n _ h hne hok

/-- a release that is not final: every substitution keeps the domain -/
theorem vok_toPep_nonfinal (p : Pat) (v : VInfo) (hv : Pat.vok v p = true) (hr : PepReady v)
    (hnf : v.tag ≠ "final".toList) : Pat.vok v p.toPep = true := by
  cases hn : p.toPepPre.hasPytagNum with
  | false => exact vok_toPep_relocated p v hv hr hn
  | true =>
    unfold Pat.toPep Pat.relocateTail
    rw [hn]
    simp only [if_true]
    rw [toPepPre_eq]
    apply vok_pre_all v _ (pepSubstName_zero v hr _) _ _ (vok_dropV v p hv)
    intro n hok
    rcases pepSubstName_cases p.dropV.keepPepLits n with h | h
    · rw [h]; exact hok
    · by_cases e : n = "TAG".toList
      · rw [(subst_tag_only n _ h).1.2 e]
        exact partOk_subst_tag v hr hnf
      · exact partOk_subst_num v hr.bid n _ h e hok

/-- every TAG of the pattern sits in a tag/number group (`Pat.tagGuarded`): all releases -/
theorem vok_toPep_guarded (p : Pat) (v : VInfo) (hv : Pat.vok v p = true) (hr : PepReady v)
    (hg : Pat.tagGuarded p = true) : Pat.vok v p.toPep = true := by
  by_cases hf : v.tag = "final".toList
  · cases hn : p.toPepPre.hasPytagNum with
    | false => exact vok_toPep_relocated p v hv hr hn
    | true =>
      unfold Pat.toPep Pat.relocateTail
      rw [hn]
      simp only [if_true]
      rw [toPepPre_eq]
      apply vok_pre_guarded v _ (pepSubstName_zero v hr _) _ _ _ (tagGuarded_dropV p hg) (vok_dropV v p hv)
      · intro n hne hok
        rcases pepSubstName_cases p.dropV.keepPepLits n with h | h
        · rw [h]; exact hok
        · exact partOk_subst_num v hr.bid n _ h hne hok
      · intro n hn
        simp only [isTailPart, Bool.or_eq_true, beq_iff_eq] at hn
        rcases hn with (rfl | rfl) | rfl
        · rw [partIsZero_TAG, hf]; rfl
        · rw [partIsZero_PYTAG, (pepTag_empty_iff _ _ hr.img).2 hf]; rfl
        · rw [partIsZero_NUM, hr.num hf]; rfl
  · exact vok_toPep_nonfinal p v hv hr hf

/-! ### the normal form: unpadded parts render as `str(n)` -/

/-- what a rendered part (field, text) of a derived pattern in normal form looks like: the short tag, or
    `str(n)` for the number `n` of its field (BLD: the number the BUILD string denotes) -/
def PepPartNormal (v : VInfo) (ft : Str × Str) : Prop :=
  (ft.1 = "pytag".toList ∧ ft.2 ∈ pepShortTags) ∨
  (∃ n, ft.2 = natToStr n ∧ (v.get ft.1 = .nat n ∨ (ft.1 = "bid".toList ∧ n = strToNat v.bid)))

theorem pytagOk_short (v : VInfo) (h : pytagOk v = true) : v.pytag ∈ pepShortTags := by
  unfold pytagOk tagOk at h
  simp only [Bool.and_eq_true, beq_iff_eq, Bool.not_eq_true', List.isEmpty_eq_false_iff,
    List.contains_iff_mem] at h
  obtain ⟨⟨hm, hl⟩, hne⟩ := h
  simp only [Gen.validReleaseTagValues, List.mem_cons, List.not_mem_nil, or_false] at hm
  rcases hm with e | e | e | e | e | e <;> rw [e] at hl
  · have : v.pytag = "a".toList := (Option.some.inj hl).symm
    rw [this]; decide
  · have : v.pytag = "b".toList := (Option.some.inj hl).symm
    rw [this]; decide
  · have : v.pytag = "dev".toList := (Option.some.inj hl).symm
    rw [this]; decide
  · have : v.pytag = "rc".toList := (Option.some.inj hl).symm
    rw [this]; decide
  · have : v.pytag = "post".toList := (Option.some.inj hl).symm
    rw [this]; decide
  · have : v.pytag = [] := (Option.some.inj hl).symm
    exact absurd this hne

theorem normal_of_nat (v : VInfo) (n f t fld : Str) (x : Nat) (hf' : lookup n Gen.partFields = some fld)
    (hg : v.get fld = .nat x) (htx : partText v n = some (natToStr x))
    (hf : lookup n Gen.partFields = some f) (ht : partText v n = some t) : PepPartNormal v (f, t) := by
  rw [hf'] at hf
  rw [htx] at ht
  cases hf; cases ht
  exact Or.inr ⟨x, rfl, Or.inl hg⟩

theorem normal_of_cal (n fld : Str) (get : CalOpt → Option Nat) (lo hi : Nat)
    (hf' : lookup n Gen.partFields = some fld) (hkd : lookup n Gen.partFormats = some .str)
    (hget : ∀ v : VInfo, v.get fld = optNat (get v.cal)) (v : VInfo)
    (hok : optIn (get v.cal) lo hi = true) (f t : Str)
    (hf : lookup n Gen.partFields = some f) (ht : partText v n = some t) : PepPartNormal v (f, t) := by
  cases hx : get v.cal with
  | none => rw [hx] at hok; cases hok
  | some x =>
    have hg : v.get fld = .nat x := by rw [hget, hx]; rfl
    refine normal_of_nat v n f t fld x hf' hg ?_ hf ht
    simp only [partText, hf', hkd, hg]; rfl

theorem normal_of_natfield (n fld : Str) (get : VInfo → Nat)
    (hf' : lookup n Gen.partFields = some fld) (hkd : lookup n Gen.partFormats = some .str)
    (hget : ∀ v : VInfo, v.get fld = .nat (get v)) (v : VInfo) (f t : Str)
    (hf : lookup n Gen.partFields = some f) (ht : partText v n = some t) : PepPartNormal v (f, t) :=
  normal_of_nat v n f t fld (get v) hf' (hget v) (partText_nat n fld get hf' hkd hget v) hf ht

/-- THE PER-PART LEMMA of the normal form -/
theorem part_normal (v : VInfo) (n f t : Str) (hN : pepNormalPart n = true) (hok : partOk v n = true)
    (hf : lookup n Gen.partFields = some f) (ht : partText v n = some t) : PepPartNormal v (f, t) := by
  unfold partOk at hok
  cases hl : lookup n partDoms with
  | none => rw [hl] at hok; cases hok
  | some d =>
    rw [hl] at hok
    have hmem := lookup_mem_cl n partDoms d hl
    simp only [partDoms, List.mem_cons, Prod.mk.injEq, List.not_mem_nil, or_false] at hmem
    rcases hmem with ⟨rfl, rfl⟩ | ⟨rfl, rfl⟩ | ⟨rfl, rfl⟩ | ⟨rfl, rfl⟩ | ⟨rfl, rfl⟩ | ⟨rfl, rfl⟩ |
      ⟨rfl, rfl⟩ | ⟨rfl, rfl⟩ | ⟨rfl, rfl⟩ | ⟨rfl, rfl⟩ | ⟨rfl, rfl⟩ | ⟨rfl, rfl⟩ | ⟨rfl, rfl⟩ |
      ⟨rfl, rfl⟩ | ⟨rfl, rfl⟩ | ⟨rfl, rfl⟩ | ⟨rfl, rfl⟩ | ⟨rfl, rfl⟩ | ⟨rfl, rfl⟩ | ⟨rfl, rfl⟩ |
      ⟨rfl, rfl⟩ | ⟨rfl, rfl⟩ | ⟨rfl, rfl⟩ | ⟨rfl, rfl⟩ | ⟨rfl, rfl⟩ | ⟨rfl, rfl⟩ | ⟨rfl, rfl⟩ |
      ⟨rfl, rfl⟩ | ⟨rfl, rfl⟩
    · exact normal_of_cal _ "year_y".toList (·.yearY) _ _ (by decide) (by decide) (fun _ => rfl) v hok f t hf ht
    · exact absurd hN (by decide)
    · exact absurd hN (by decide)
    · exact normal_of_cal _ "year_g".toList (·.yearG) _ _ (by decide) (by decide) (fun _ => rfl) v hok f t hf ht
    · exact absurd hN (by decide)
    · exact absurd hN (by decide)
    · exact normal_of_cal _ "quarter".toList (·.quarter) _ _ (by decide) (by decide) (fun _ => rfl) v hok f t hf ht
    · exact normal_of_cal _ "month".toList (·.month) _ _ (by decide) (by decide) (fun _ => rfl) v hok f t hf ht
    · exact absurd hN (by decide)
    · exact normal_of_cal _ "dom".toList (·.dom) _ _ (by decide) (by decide) (fun _ => rfl) v hok f t hf ht
    · exact absurd hN (by decide)
    · exact normal_of_cal _ "doy".toList (·.doy) _ _ (by decide) (by decide) (fun _ => rfl) v hok f t hf ht
    · exact absurd hN (by decide)
    · exact normal_of_cal _ "week_w".toList (·.weekW) _ _ (by decide) (by decide) (fun _ => rfl) v hok f t hf ht
    · exact absurd hN (by decide)
    · exact normal_of_cal _ "week_u".toList (·.weekU) _ _ (by decide) (by decide) (fun _ => rfl) v hok f t hf ht
    · exact absurd hN (by decide)
    · exact normal_of_cal _ "week_v".toList (·.weekV) _ _ (by decide) (by decide) (fun _ => rfl) v hok f t hf ht
    · exact absurd hN (by decide)
    · exact normal_of_natfield _ "major".toList (·.major) (by decide) (by decide) (fun _ => rfl) v f t hf ht
    · exact normal_of_natfield _ "minor".toList (·.minor) (by decide) (by decide) (fun _ => rfl) v f t hf ht
    · exact normal_of_natfield _ "patch".toList (·.patch) (by decide) (by decide) (fun _ => rfl) v f t hf ht
    · exact normal_of_natfield _ "num".toList (·.num) (by decide) (by decide) (fun _ => rfl) v f t hf ht
    · exact normal_of_natfield _ "inc0".toList (·.inc0) (by decide) (by decide) (fun _ => rfl) v f t hf ht
    · exact normal_of_natfield _ "inc1".toList (·.inc1) (by decide) (by decide) (fun _ => rfl) v f t hf ht
    · exact absurd hN (by decide)
    · rw [partText_BLD] at ht
      have hf' : lookup "BLD".toList Gen.partFields = some "bid".toList := by decide
      rw [hf'] at hf
      cases hf; cases ht
      exact Or.inr ⟨_, rfl, Or.inr ⟨rfl, rfl⟩⟩
    · exact absurd hN (by decide)
    · rw [partText_PYTAG] at ht
      have hf' : lookup "PYTAG".toList Gen.partFields = some "pytag".toList := by decide
      rw [hf'] at hf
      cases hf; cases ht
      exact Or.inl ⟨rfl, pytagOk_short v hok⟩

/-! ### the normal form on trees -/

theorem caps_all_normal (v : VInfo) : ∀ q : Pat, q.parts.all pepNormalPart = true → Pat.vok v q = true →
    ∀ ft, ft ∈ Pat.caps v q → PepPartNormal v ft := by
  intro q
  induction q with
  | done => intro _ _ ft h; cases h
  | lit c rest ih => intro hN hv; exact ih hN hv
  | part n rest ih =>
    intro hN hv ft hm
    simp only [Pat.parts, List.all_cons, Bool.and_eq_true] at hN
    simp only [Pat.vok, Bool.and_eq_true] at hv
    cases hf : lookup n Gen.partFields with
    | none =>
      simp only [Pat.caps, hf] at hm
      exact ih hN.2 hv.2 ft hm
    | some f =>
      cases ht : partText v n with
      | none =>
        simp only [Pat.caps, hf, ht] at hm
        exact ih hN.2 hv.2 ft hm
      | some t =>
        simp only [Pat.caps, hf, ht, List.mem_cons] at hm
        rcases hm with rfl | hm
        · exact part_normal v n f t hN.1 hv.1 hf ht
        · exact ih hN.2 hv.2 ft hm
  | opt body rest ihb ihr =>
    intro hN hv ft hm
    simp only [Pat.parts, List.all_append, Bool.and_eq_true] at hN
    simp only [Pat.vok, Bool.and_eq_true, Bool.or_eq_true] at hv
    simp only [Pat.caps, List.mem_append] at hm
    rcases hm with hm | hm
    · cases hz : Pat.allZero v body with
      | true => rw [hz] at hm; simp only [if_true] at hm; cases hm
      | false =>
        rw [hz] at hm
        simp only [Bool.false_eq_true, if_false] at hm
        rcases hv.1 with h | h
        · rw [hz] at h; cases h
        · exact ihb hN.1 h ft hm
    · exact ihr hN.2 hv.2 ft hm

theorem caps_head_after (v : VInfo) : ∀ q : Pat,
    Pat.caps v q = Pat.caps v q.headComp ++ Pat.caps v q.afterHead := by
  intro q
  induction q with
  | done => rfl
  | lit c rest ih =>
    simp only [Pat.headComp, Pat.afterHead]
    split
    · rfl
    · simp only [Pat.caps]; exact ih
  | part n rest ih =>
    simp only [Pat.headComp, Pat.afterHead, Pat.caps]
    rw [ih]
    cases lookup n Gen.partFields with
    | none => rfl
    | some f =>
      cases partText v n with
      | none => rfl
      | some t => rfl
  | opt body rest _ _ => rfl

theorem render_head_after (v : VInfo) : ∀ q : Pat,
    Pat.render v q = Pat.render v q.headComp ++ Pat.render v q.afterHead := by
  intro q
  induction q with
  | done => rfl
  | lit c rest ih =>
    simp only [Pat.headComp, Pat.afterHead]
    split
    · rfl
    · simp only [Pat.render, List.cons_append]; rw [← ih]
  | part n rest ih =>
    simp only [Pat.headComp, Pat.afterHead, Pat.render, List.append_assoc]
    rw [← ih]
  | opt body rest _ _ => rfl

theorem vok_afterHead (v : VInfo) : ∀ q : Pat, Pat.vok v q = true → Pat.vok v q.afterHead = true := by
  intro q
  induction q with
  | done => intro h; exact h
  | lit c rest ih =>
    intro h
    simp only [Pat.afterHead]
    split
    · exact h
    · exact ih h
  | part n rest ih =>
    intro h
    simp only [Pat.vok, Bool.and_eq_true] at h
    exact ih h.2
  | opt body rest _ _ => intro h; exact h

/-- no `.` literal and no optional group -/
def Pat.flatNoDot : Pat → Bool
  | .done => true
  | .lit c rest => c != '.' && Pat.flatNoDot rest
  | .part _ rest => Pat.flatNoDot rest
  | .opt _ _ => false

/-- the first component has no `.` literal and no optional group -/
theorem headComp_flatNoDot : ∀ q : Pat, Pat.flatNoDot q.headComp = true := by
  intro q
  induction q with
  | done => rfl
  | lit c rest ih =>
    simp only [Pat.headComp]
    split
    · rfl
    · next h =>
      simp only [Pat.flatNoDot, Bool.and_eq_true, bne_iff_ne, ne_eq, ih, and_true]
      simpa using h
  | part n rest ih => exact ih
  | opt body rest _ _ => rfl

theorem field_tag (n f : Str) (hf : lookup n Gen.partFields = some f) :
    (f = "tag".toList → n = "TAG".toList) ∧ (f = "pytag".toList → n = "PYTAG".toList) := by
  have hmem := lookup_mem_cl n _ f hf
  simp only [Gen.partFields, List.mem_cons, Prod.mk.injEq, List.not_mem_nil, or_false] at hmem
  rcases hmem with ⟨rfl, rfl⟩ | ⟨rfl, rfl⟩ | ⟨rfl, rfl⟩ | ⟨rfl, rfl⟩ | ⟨rfl, rfl⟩ | ⟨rfl, rfl⟩ |
      ⟨rfl, rfl⟩ | ⟨rfl, rfl⟩ | ⟨rfl, rfl⟩ | ⟨rfl, rfl⟩ | ⟨rfl, rfl⟩ | ⟨rfl, rfl⟩ | ⟨rfl, rfl⟩ |
      ⟨rfl, rfl⟩ | ⟨rfl, rfl⟩ | ⟨rfl, rfl⟩ | ⟨rfl, rfl⟩ | ⟨rfl, rfl⟩ | ⟨rfl, rfl⟩ | ⟨rfl, rfl⟩ |
      ⟨rfl, rfl⟩ | ⟨rfl, rfl⟩ | ⟨rfl, rfl⟩ | ⟨rfl, rfl⟩ | ⟨rfl, rfl⟩ | ⟨rfl, rfl⟩ | ⟨rfl, rfl⟩ |
      ⟨rfl, rfl⟩ | ⟨rfl, rfl⟩ | ⟨rfl, rfl⟩ | ⟨rfl, rfl⟩ <;> decide

/-- no long tag anywhere; every rendered tag is a short one -/
theorem caps_tags (v : VInfo) : ∀ q : Pat, q.parts.all (fun n => n != "TAG".toList) = true → Pat.vok v q = true →
    ∀ ft, ft ∈ Pat.caps v q → ft.1 ≠ "tag".toList ∧ (ft.1 = "pytag".toList → ft.2 ∈ pepShortTags) := by
  intro q
  induction q with
  | done => intro _ _ ft h; cases h
  | lit c rest ih => intro hN hv; exact ih hN hv
  | part n rest ih =>
    intro hN hv ft hm
    simp only [Pat.parts, List.all_cons, Bool.and_eq_true, bne_iff_ne, ne_eq] at hN
    simp only [Pat.vok, Bool.and_eq_true] at hv
    cases hf : lookup n Gen.partFields with
    | none =>
      simp only [Pat.caps, hf] at hm
      exact ih hN.2 hv.2 ft hm
    | some f =>
      cases ht : partText v n with
      | none =>
        simp only [Pat.caps, hf, ht] at hm
        exact ih hN.2 hv.2 ft hm
      | some t =>
        simp only [Pat.caps, hf, ht, List.mem_cons] at hm
        rcases hm with rfl | hm
        · refine ⟨fun e => hN.1 ((field_tag n f hf).1 e), fun e => ?_⟩
          have hn := (field_tag n f hf).2 e
          subst hn
          rw [partText_PYTAG] at ht
          cases ht
          exact pytagOk_short v hv.1
        · exact ih hN.2 hv.2 ft hm
  | opt body rest ihb ihr =>
    intro hN hv ft hm
    simp only [Pat.parts, List.all_append, Bool.and_eq_true] at hN
    simp only [Pat.vok, Bool.and_eq_true, Bool.or_eq_true] at hv
    simp only [Pat.caps, List.mem_append] at hm
    rcases hm with hm | hm
    · cases hz : Pat.allZero v body with
      | true => rw [hz] at hm; simp only [if_true] at hm; cases hm
      | false =>
        rw [hz] at hm
        simp only [Bool.false_eq_true, if_false] at hm
        rcases hv.1 with h | h
        · rw [hz] at h; cases h
        · exact ihb hN.1 h ft hm
    · exact ihr hN.2 hv.2 ft hm

/-- `str(n)` is "0" or starts with a non-zero digit -/
theorem natToStr_no_leading_zero (n : Nat) :
    natToStr n = "0".toList ∨ ∀ c t, natToStr n = c :: t → c ≠ '0' := by
  by_cases h : n = 0
  · left; rw [h]; decide
  · right
    intro c t e
    exact natToStr_head_ne_zero n (by omega) c t e

/-! ### "followed by its number" -/

/-- every `pytag` entry of a capture list is directly followed by the `num` entry -/
def CapsNumbered (v : VInfo) : List (Str × Str) → Prop
  | [] => True
  | ft :: rest => (ft.1 = "pytag".toList → ∃ tl, rest = ("num".toList, natToStr v.num) :: tl) ∧ CapsNumbered v rest

theorem capsNumbered_append (v : VInfo) (b : List (Str × Str)) (hb : CapsNumbered v b) :
    ∀ a, CapsNumbered v a → CapsNumbered v (a ++ b) := by
  intro a
  induction a with
  | nil => intro _; exact hb
  | cons ft rest ih =>
    intro h
    refine ⟨fun e => ?_, ih h.2⟩
    obtain ⟨tl, htl⟩ := h.1 e
    exact ⟨tl ++ b, by rw [htl]; rfl⟩

theorem caps_numbered (v : VInfo) : ∀ q : Pat, Pat.pytagNumbered q = true → CapsNumbered v (Pat.caps v q) := by
  intro q
  induction q with
  | done => intro _; trivial
  | lit c rest ih => intro h; exact ih h
  | part n rest ih =>
    intro h
    simp only [Pat.pytagNumbered, Bool.and_eq_true, Bool.or_eq_true, bne_iff_ne, ne_eq] at h
    cases hf : lookup n Gen.partFields with
    | none => simp only [Pat.caps, hf]; exact ih h.2
    | some f =>
      cases ht : partText v n with
      | none => simp only [Pat.caps, hf, ht]; exact ih h.2
      | some t =>
        simp only [Pat.caps, hf, ht]
        refine ⟨fun e => ?_, ih h.2⟩
        have hn := (field_tag n f hf).2 e
        rcases h.1 with h1 | h1
        · exact absurd hn h1
        · cases rest with
          | part m rest' =>
            simp only [beq_iff_eq] at h1
            subst h1
            have hf' : lookup "NUM".toList Gen.partFields = some "num".toList := by decide
            exact ⟨Pat.caps v rest', by simp only [Pat.caps, hf', partText_NUM]⟩
          | done => cases h1
          | lit _ _ => cases h1
          | opt _ _ => cases h1
  | opt body rest ihb ihr =>
    intro h
    simp only [Pat.pytagNumbered, Bool.and_eq_true] at h
    simp only [Pat.caps]
    apply capsNumbered_append v _ (ihr h.2)
    split
    · trivial
    · exact ihb h.1

theorem capsNumbered_split (v : VInfo) : ∀ (l l1 : List (Str × Str)) (t : Str) (l2 : List (Str × Str)),
    CapsNumbered v l → l = l1 ++ ("pytag".toList, t) :: l2 →
    ∃ l3, l2 = ("num".toList, natToStr v.num) :: l3 := by
  intro l l1
  induction l1 generalizing l with
  | nil =>
    intro t l2 h e
    subst e
    exact h.1 rfl
  | cons x l1 ih =>
    intro t l2 h e
    subst e
    exact ih _ t l2 h.2 rfl

/-! ### the derived pattern always carries `PYTAGNUM` -/

theorem hasPytagNum_append (b : Pat) (hb : b.hasPytagNum = true) : ∀ a : Pat, (Pat.append a b).hasPytagNum = true := by
  intro a
  induction a with
  | done => exact hb
  | lit c rest ih => exact ih
  | part n rest ih => simp only [Pat.append, Pat.hasPytagNum, ih, Bool.or_true]
  | opt body rest _ ihr => simp only [Pat.append, Pat.hasPytagNum, ihr, Bool.or_true]

theorem hasPytagNum_toPep (p : Pat) : p.toPep.hasPytagNum = true := by
  unfold Pat.toPep Pat.relocateTail
  split
  · next h => exact h
  · exact hasPytagNum_append pepTail (by decide) _
