/-
  Proofs/Tie_configExamples.lean — non-vacuity of the ties of the group `config`: the GENERATED
  definitions evaluated (in the kernel) on concrete inputs, with a result on the success side and on
  each kind of failure.  Nothing here is used by other files.
-/
import BumpverVerif.Proofs.Tie_parseConfig
import BumpverVerif.Proofs.Tie_parseCfg
import BumpverVerif.Proofs.Tie_parseToml
import BumpverVerif.Proofs.Tie_parseCurrentVersionDefaultPattern
import BumpverVerif.Proofs.Tie_initProjectCtx
namespace BV
open TieH
open GenF

/-- an environment in which everything validates, compiles and exists -/
def envYes : CfgEnv := {
  validVersion := fun _ _ _ => true, compileOk := fun _ _ _ => true,
  pathExists := fun _ => true, glob := fun _ => [] }

/-- setup.cfg: `[bumpver]` with a quoted version, `commit = True`, `tag = yes`, one file -/
def iniDoc1 : IniDoc := { sections := [
  ("metadata".toList, [("name".toList, "x".toList)]),
  ("bumpver".toList, [("current_version".toList, "\"1.2.3\"".toList), ("version_pattern".toList, "MAJOR.MINOR.PATCH".toList),
                      ("commit".toList, "True".toList), ("tag".toList, "yes".toList), ("tag_scope".toList, "'branch'".toList)]),
  ("bumpver:file_patterns".toList, [("README.md".toList, "\n{version}\n  {pep440_version}".toList)])] }

example : GenF.parseCfg iniDoc1 = .ok
    { opts := [("current_version".toList, .str "\"1.2.3\"".toList), ("version_pattern".toList, .str "MAJOR.MINOR.PATCH".toList),
               ("commit".toList, .bool true), ("tag".toList, .bool true), ("tag_scope".toList, .str "'branch'".toList),
               ("push".toList, .none)],
      filePatterns := some [("README.md".toList, ["{version}".toList, "{pep440_version}".toList])] } := by decide

/-- … read on by `_parse_config`: quotes stripped, tag scope an enum member, push defaults to False -/
example :
    ((GenF.parseCfg iniDoc1).bind (GenF.parseConfig (α := FilePatterns) (validateOf envYes) id (compileOf envYes) envYes.pathExists)).map
        (fun c => (c.current_version, c.tag_scope, c.push))
      = .ok ("1.2.3".toList, Cfg.TagScope.BRANCH, RawVal.bool false) := by decide

example :
    ((GenF.parseCfg iniDoc1).bind (GenF.parseConfig (α := FilePatterns) (validateOf envYes) id (compileOf envYes) envYes.pathExists)).map
        (fun c => (c.commit.truthy && c.tag.truthy && c.is_new_pattern, c.file_patterns))
      = .ok (true, [("README.md".toList, ["{version}".toList, "{pep440_version}".toList])]) := by decide

/-- tag without commit: ValueError; a bool where a str is needed: AttributeError; no section: ValueError -/
example : GenF.parseConfig (α := FilePatterns) (validateOf envYes) id (compileOf envYes) envYes.pathExists
    { opts := [("current_version".toList, .str "1".toList), ("version_pattern".toList, .str "MAJOR".toList),
               ("commit".toList, .bool false), ("tag".toList, .bool true), ("push".toList, .none)],
      filePatterns := some [] } = .error "ValueError".toList := by decide

example : GenF.parseConfig (α := FilePatterns) (validateOf envYes) id (compileOf envYes) envYes.pathExists
    { opts := [("current_version".toList, .bool true), ("version_pattern".toList, .str "MAJOR".toList)],
      filePatterns := some [] } = .error "AttributeError".toList := by decide

example : GenF.parseCfg { sections := [("metadata".toList, [])] } = .error "ValueError".toList := by decide

/-- pyproject.toml: `[tool.bumpver]` wins over `[bumpver]`; missing version_pattern is a TypeError -/
example : GenF.parseToml { tool := some { bumpver := some { opts := [("current_version".toList, .str "1".toList)], filePatterns := none } },
                           bumpver := some { opts := [], filePatterns := none }, pycalver := none } = .error "TypeError".toList := by
  decide

/-- the config file's own line: found inside the section only, quoting kept -/
example : GenF.parseCurrentVersionDefaultPattern
    { opts := [("current_version".toList, .str "\"1.2.3\"".toList), ("version_pattern".toList, .str "MAJOR.MINOR.PATCH".toList)],
      filePatterns := none }
    "[metadata]\ncurrent_version = 0\n[bumpver]\ncurrent_version = \"1.2.3\"\n".toList
      = .ok "current_version = \"MAJOR.MINOR.PATCH\"".toList := by decide

/-- an empty directory: bumpver.toml, format toml, no VCS; then `write_content` creates the file -/
def dirRel : Py.ProjDir := { isAbs := false, child := fun n => n }

example : (GenF.initProjectCtx (fun _ => none) dirRel).map
    (fun c => (c.config_filepath, c.config_rel_path, c.config_format, c.vcs_type))
      = .ok ("bumpver.toml".toList, "bumpver.toml".toList, "toml".toList, none) := by decide

example : ((GenF.initProjectCtx (fun _ => none) dirRel).bind
      (GenF.writeContent "2026.1001-alpha".toList (fun _ => none))).map
    (fun fs' => (fs' "bumpver.toml".toList).map
      (fun s => "[bumpver]\ncurrent_version = \"2026.1001-alpha\"\nversion_pattern".toList.isPrefixOf s))
      = .ok (some true) := by decide +kernel

end BV
