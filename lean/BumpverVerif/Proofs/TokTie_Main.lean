/-
  Proofs/TokTie_Main.lean — the string level of the tie: under `tokSafe` the string surgery of
  `_compile_pattern_re` produces the structural regex source (`compileStr_text`).
-/
import BumpverVerif.Proofs.TokTie_Safe
import BumpverVerif.Proofs.TokTie_Iter
namespace BV

/-! ### table facts (kernel-evaluated on the regenerated tables) -/

/-- no EARLIER entry of `PART_PATTERNS` is contained in a LATER entry with the same field (so a part such as
    YYYY is registered in `used_fields` before the YY found inside it); in particular names are distinct -/
def orderOk : List (Str × Str) → Bool
  | [] => true
  | e' :: rest => rest.all (fun e => !(isInfix e'.1 e.1 && fieldOf e'.1 == fieldOf e.1)) && orderOk rest

theorem tbl_order : orderOk Gen.partPatterns = true := by decide +kernel

theorem tbl_names_nodup : partNames.Nodup := by decide +kernel

theorem orderOk_split (pp pp1 pp2 : List (Str × Str)) (e : Str × Str) (h : orderOk pp = true)
    (hs : pp = pp1 ++ e :: pp2) :
    ∀ e' ∈ pp1, ¬ (isInfix e'.1 e.1 = true ∧ fieldOf e'.1 = fieldOf e.1) := by
  induction pp1 generalizing pp with
  | nil => intro e' he'; cases he'
  | cons a pp1' ih =>
    subst hs
    simp only [List.cons_append, orderOk, Bool.and_eq_true, List.all_eq_true] at h
    intro e' he'
    rcases List.mem_cons.mp he' with r | r
    · subst r
      have := h.1 e (by simp)
      rintro ⟨q1, q2⟩
      simp [q1, q2] at this
    · exact ih _ h.2 rfl e' r

theorem lookup_split {α} (n : Str) (l : List (Str × α)) (v : α) (h : lookup n l = some v) :
    ∃ l1 l2, l = l1 ++ (n, v) :: l2 ∧ ∀ e' ∈ l1, e'.1 ≠ n := by
  induction l with
  | nil => simp [lookup] at h
  | cons e l ih =>
    obtain ⟨k, w⟩ := e
    simp only [lookup] at h
    by_cases hk : n = k
    · subst hk
      simp only [if_true, Option.some.injEq] at h
      subst h
      exact ⟨[], l, rfl, fun _ h => by cases h⟩
    · simp only [hk, if_false] at h
      obtain ⟨l1, l2, e1, e2⟩ := ih h
      refine ⟨(k, w) :: l1, l2, by rw [e1]; rfl, ?_⟩
      intro e' he'
      rcases List.mem_cons.mp he' with r | r
      · subst r; exact fun e => hk e.symm
      · exact e2 e' r

/-! ### general list facts -/

theorem inj_of_nodup_map {α β} (f : α → β) (l : List α) (h : (l.map f).Nodup) :
    ∀ a ∈ l, ∀ b ∈ l, f a = f b → a = b := by
  induction l with
  | nil => intro a ha; cases ha
  | cons x l ih =>
    rw [List.map_cons, List.nodup_cons] at h
    intro a ha b hb e
    rcases List.mem_cons.mp ha with ra | ra <;> rcases List.mem_cons.mp hb with rb | rb
    · rw [ra, rb]
    · subst ra; exact absurd (e ▸ List.mem_map_of_mem rb) h.1
    · subst rb; exact absurd (e ▸ List.mem_map_of_mem ra) h.1
    · exact ih h.2 a ra b rb e

theorem nodup_map_of_inj {α β} (f : α → β) (l : List α) (h : l.Nodup) (hf : ∀ a b, f a = f b → a = b) :
    (l.map f).Nodup := by
  induction l with
  | nil => exact List.nodup_nil
  | cons x l ih =>
    rw [List.nodup_cons] at h
    rw [List.map_cons, List.nodup_cons]
    refine ⟨?_, ih h.2⟩
    intro hx
    obtain ⟨y, hy, e⟩ := List.mem_map.mp hx
    rw [hf y x e] at hy
    exact h.1 hy

theorem pairwise_trichotomy {α} (R : α → α → Prop) (l : List α) (h : l.Pairwise R) :
    ∀ a ∈ l, ∀ b ∈ l, a = b ∨ R a b ∨ R b a := by
  induction l with
  | nil => intro a ha; cases ha
  | cons x l ih =>
    have hc := List.pairwise_cons.mp h
    intro a ha b hb
    rcases List.mem_cons.mp ha with ra | ra <;> rcases List.mem_cons.mp hb with rb | rb
    · exact Or.inl (by rw [ra, rb])
    · subst ra; exact Or.inr (Or.inl (hc.1 b rb))
    · subst rb; exact Or.inr (Or.inr (hc.1 a ra))
    · exact ih hc.2 a ra b rb

theorem nodup_of_nodupStr (l : List Str) (h : nodupStr l = true) : l.Nodup := by
  induction l with
  | nil => exact List.nodup_nil
  | cons x xs ih =>
    simp only [nodupStr, Bool.and_eq_true, Bool.not_eq_true', List.contains_eq_mem, decide_eq_false_iff_not] at h
    exact List.nodup_cons.mpr ⟨h.1, ih h.2⟩

theorem prefix_eq_of_length {a b X : Str} (ha : a.isPrefixOf X = true) (hb : b.isPrefixOf X = true)
    (hl : a.length = b.length) : a = b := by
  have h1 := List.isPrefixOf_iff_prefix.mp ha
  have h2 := List.isPrefixOf_iff_prefix.mp hb
  have := List.prefix_of_prefix_length_le h1 h2 (Nat.le_of_eq hl)
  exact this.eq_of_length hl

theorem isInfix_of_prefix_drop {m n : Str} {d : Nat} (h : m.isPrefixOf (n.drop d) = true) : isInfix m n = true := by
  unfold isInfix
  cases hf : findIdx m n with
  | some _ => rfl
  | none => rw [findIdx_none_all hf d] at h; cases h

/-! ### items of `iterPartPatterns` -/

theorem iter_sound (pp pf : List (Str × Str)) (G : Str) :
    ∀ x ∈ iterPartPatterns pp pf G, ∃ e ∈ pp, x.name = e.1 ∧ x.stop = x.start + e.1.length ∧
      x.start ∈ findAllFrom e.1 (G.length + 1) 0 G ∧ e.1.isPrefixOf (G.drop x.start) = true := by
  intro x hx
  rw [iterPartPatterns_eq] at hx
  obtain ⟨o, ho, h1, h2, h3⟩ := goParts_shape pf [] _ x hx
  obtain ⟨e, he, e1, e2, e3⟩ := mem_occsOf ho
  refine ⟨e, he, by rw [h3, e1], by rw [h2, h1, e1], by rw [h1]; exact e3, ?_⟩
  have := (findAllFrom_sound e.1 (G.length + 1) 0 G _ e3).2
  rw [h1]
  simpa using this

theorem occs_keys_nodup (pp : List (Str × Str)) (G : Str) (h : (pp.map (·.1)).Nodup) :
    ((occsOf pp G).map (fun o => (o.1, o.2.2))).Nodup := by
  induction pp with
  | nil => simp [occsOf]
  | cons e pp ih =>
    rw [List.map_cons, List.nodup_cons] at h
    have : occsOf (e :: pp) G = occsOfEntry G e ++ occsOf pp G := by simp [occsOf]
    rw [this, List.map_append, List.nodup_append]
    refine ⟨?_, ih h.2, ?_⟩
    · simp only [occsOfEntry, List.map_map]
      have hnd := findAllFrom_nodup e.1 (G.length + 1) 0 G
      exact nodup_map_of_inj _ _ hnd (fun a b hab => by simpa using hab)
    · intro a ha b hb
      simp only [occsOfEntry, List.map_map, List.mem_map, Function.comp] at ha
      obtain ⟨st, -, rfl⟩ := ha
      obtain ⟨o, ho, rfl⟩ := List.mem_map.mp hb
      obtain ⟨e', he', e1, -, -⟩ := mem_occsOf ho
      intro heq
      have : e.1 = o.1 := congrArg Prod.fst heq
      apply h.1
      rw [this, e1]
      exact List.mem_map_of_mem he'

theorem iter_unique (pp pf : List (Str × Str)) (G : Str) (h : (pp.map (·.1)).Nodup) :
    ∀ x ∈ iterPartPatterns pp pf G, ∀ y ∈ iterPartPatterns pp pf G,
      x.name = y.name → x.start = y.start → x = y := by
  intro x hx y hy hn hs
  rw [iterPartPatterns_eq] at hx hy
  have hk := goParts_keys pf [] (occsOf pp G)
  have hnd := occs_keys_nodup pp G h
  rw [← hk] at hnd
  exact inj_of_nodup_map _ _ hnd x hx y hy (by simp [hn, hs])

/-! ### names of items and parts of the tree -/

def itemNames : List Item → List Str
  | [] => []
  | .raw _ :: r => itemNames r
  | .tok n :: r => n :: itemNames r

theorem itemNames_append (a b : List Item) : itemNames (a ++ b) = itemNames a ++ itemNames b := by
  induction a with
  | nil => rfl
  | cons x r ih => cases x <;> simp [itemNames, ih]

theorem itemNames_items (p : Pat) : itemNames p.items = p.parts := by
  induction p with
  | done => rfl
  | lit c rest ih => simp [Pat.items, itemNames, Pat.parts, ih]
  | part n rest ih => simp [Pat.items, itemNames, Pat.parts, ih]
  | opt body rest ihb ihr => simp [Pat.items, itemNames, itemNames_append, Pat.parts, ihb, ihr]

theorem toks_names (items : List Item) (off : Nat) : (toks off items).map (·.name) = itemNames items := by
  induction items generalizing off with
  | nil => rfl
  | cons x r ih => cases x <;> simp [toks, itemNames, ih, plainTok]

theorem parts_ok (p : Pat) (h : p.shapeOk = true) :
    ∀ n ∈ p.parts, (lookup n Gen.partPatterns).isSome = true ∧ (lookup n Gen.partFields).isSome = true := by
  induction p with
  | done => intro n hn; cases hn
  | lit c rest ih =>
    simp only [Pat.shapeOk, Bool.and_eq_true] at h
    exact ih h.2
  | part m rest ih =>
    simp only [Pat.shapeOk, Bool.and_eq_true] at h
    intro n hn
    rcases List.mem_cons.mp hn with r | r
    · subst r; exact h.1
    · exact ih h.2 n r
  | opt body rest ihb ihr =>
    simp only [Pat.shapeOk, Bool.and_eq_true] at h
    intro n hn
    rcases List.mem_append.mp hn with r | r
    · exact ihb h.1.2 n r
    · exact ihr h.2 n r

theorem filterMap_lookup_eq (l : List Str) (h : ∀ n ∈ l, (lookup n Gen.partFields).isSome = true) :
    l.filterMap (fun n => lookup n Gen.partFields) = l.map fieldOf := by
  induction l with
  | nil => rfl
  | cons n l ih =>
    have hn := h n List.mem_cons_self
    cases hl : lookup n Gen.partFields with
    | none => rw [hl] at hn; cases hn
    | some f =>
      rw [List.filterMap_cons, hl, List.map_cons, ih (fun m hm => h m (List.mem_cons_of_mem _ hm))]
      simp [fieldOf, hl]

theorem fields_eq (p : Pat) (h : p.shapeOk = true) : p.fields = p.parts.map fieldOf :=
  filterMap_lookup_eq p.parts (fun n hn => (parts_ok p h n hn).2)

/-! ### the tie at string level -/

structure Ctx (p : Pat) : Prop where
  sh : p.shapeOk = true
  safe : safeItemsK p.items []
  nd : nodupStr p.fields = true
  inner : p.parts.all (innerOk p.fields) = true

theorem ctx_of_tokSafe (p : Pat) (h : tokSafe p = true) : Ctx p := by
  simp only [tokSafe, Bool.and_eq_true] at h
  exact ⟨h.1.1.1, safeItems_of_safeK p [] [] h.1.1.1 rfl h.1.1.2, h.1.2, h.2⟩

theorem tok_name_mem {p : Pat} (c : Ctx p) {t : PosPart} (ht : t ∈ toks 0 p.items) :
    t.name ∈ p.parts ∧ t.name ∈ partNames := by
  have h1 : t.name ∈ p.parts := by
    rw [← itemNames_items, ← toks_names p.items 0]
    exact List.mem_map_of_mem ht
  exact ⟨h1, mem_partNames_of_lookup (parts_ok p c.sh _ h1).1⟩

theorem tok_field_inj {p : Pat} (c : Ctx p) :
    ∀ t1 ∈ toks 0 p.items, ∀ t2 ∈ toks 0 p.items, fieldOf t1.name = fieldOf t2.name → t1 = t2 := by
  have hnd := nodup_of_nodupStr _ c.nd
  rw [fields_eq p c.sh, ← itemNames_items, ← toks_names p.items 0, List.map_map] at hnd
  exact inj_of_nodup_map _ _ hnd

/-- every occurrence of a part name in `gtext` lies inside a token -/
theorem occ_in_token {p : Pat} (c : Ctx p) {m : Str} (hm : m ∈ partNames) {i : Nat}
    (hp : m.isPrefixOf (p.gtext.drop i) = true) :
    ∃ t ∈ toks 0 p.items, t.start ≤ i ∧ i + m.length ≤ t.stop := by
  have hlen := prefix_drop_lt (name_ne_nil hm) hp
  have h0 : 0 < m.length := List.length_pos_iff.mpr (name_ne_nil hm)
  have := occ_inside p.items [] 0 c.safe i (by rw [srcAll_items]; omega) m hm
    (by rw [List.append_nil, srcAll_items]; exact hp)
  simpa using this

/-- an occurrence inside a token, seen inside the token's name -/
theorem occ_infix {p : Pat} {m : Str} {i : Nat} {t : PosPart} (ht : t ∈ toks 0 p.items)
    (hp : m.isPrefixOf (p.gtext.drop i) = true) (h1 : t.start ≤ i) (h2 : i + m.length ≤ t.stop) :
    m.isPrefixOf (t.name.drop (i - t.start)) = true := by
  obtain ⟨-, f2, -, -, -, f6⟩ := toks_facts p.items 0 t ht
  rw [srcAll_items, Nat.sub_zero] at f6
  obtain ⟨rest, hr⟩ := List.isPrefixOf_iff_prefix.mp f6
  have e : p.gtext.drop i = t.name.drop (i - t.start) ++ rest := by
    have : i = t.start + (i - t.start) := by omega
    rw [this, ← List.drop_drop, ← hr, List.drop_append_of_le_length (by omega)]
    congr 2; omega
  rw [e] at hp
  have hm := List.isPrefixOf_iff_prefix.mp hp
  have hpre : t.name.drop (i - t.start) <+: t.name.drop (i - t.start) ++ rest := List.prefix_append _ _
  exact List.isPrefixOf_iff_prefix.mpr
    (List.prefix_of_prefix_length_le hm hpre (by simp only [List.length_drop]; omega))

/-- every token is found by `_iter_part_patterns`, with the plain group name -/
theorem tok_in_iter {p : Pat} (c : Ctx p) {t : PosPart} (ht : t ∈ toks 0 p.items) :
    t ∈ iterPartPatterns Gen.partPatterns Gen.partFields p.gtext := by
  obtain ⟨hpart, hname⟩ := tok_name_mem c ht
  obtain ⟨-, f2, -, -, f5, f6⟩ := toks_facts p.items 0 t ht
  rw [srcAll_items, Nat.sub_zero] at f6
  have hne := name_ne_nil hname
  -- the table entry
  cases hl : lookup t.name Gen.partPatterns with
  | none => have := (parts_ok p c.sh _ hpart).1; rw [hl] at this; cases this
  | some rx =>
    obtain ⟨pp1, pp2, hsplit, hpp1⟩ := lookup_split _ _ _ hl
    -- the token is found by the scan for its name
    have hfound : t.start ∈ findAllFrom t.name (p.gtext.length + 1) 0 p.gtext := by
      have := findAllFrom_complete t.name hne (p.gtext.length + 1) 0 p.gtext t.start (Nat.lt_succ_self _) f6 ?_
      · simpa using this
      · intro j' hj' hp'
        obtain ⟨t', ht', a1, a2⟩ := occ_in_token c hname hp'
        have f2' := (toks_facts p.items 0 t' ht').2.1
        rcases pairwise_trichotomy _ _ (toks_pairwise p.items 0) t' ht' t ht with e | e | e
        · subst e; omega
        · omega
        · have h0 : 0 < t.name.length := List.length_pos_iff.mpr hne
          omega
    obtain ⟨S1, S2, hS1, hocc⟩ := occsOf_split pp1 pp2 (t.name, rx) p.gtext t.start hfound
    rw [iterPartPatterns_eq, hsplit, hocc]
    have hplain : plainOf Gen.partFields (t.name, rx, t.start) = t := by
      rw [f5]
      simp [plainOf, plainTok, groupText, occField, fieldOf, rxOf, hl]
    rw [← hplain]
    apply goParts_plain
    -- no earlier occurrence has the token's field
    intro o' ho' hfe
    have hfe' : fieldOf o'.1 = fieldOf t.name := hfe
    -- o' is a sound occurrence
    have ho'occ : o' ∈ occsOf Gen.partPatterns p.gtext := by
      rw [hsplit, hocc]
      exact List.mem_append_left _ ho'
    obtain ⟨e', he', e1, -, e3⟩ := mem_occsOf ho'occ
    have hm : o'.1 ∈ partNames := by rw [e1]; exact List.mem_map_of_mem he'
    have hp' : o'.1.isPrefixOf (p.gtext.drop o'.2.2) = true := by
      have := (findAllFrom_sound e'.1 (p.gtext.length + 1) 0 p.gtext _ e3).2
      rw [e1]; simpa using this
    obtain ⟨t', ht', a1, a2⟩ := occ_in_token c hm hp'
    obtain ⟨hpart', hname'⟩ := tok_name_mem c ht'
    have f2' := (toks_facts p.items 0 t' ht').2.1
    have hinf := occ_infix ht' hp' a1 a2
    -- where o' comes from
    have hsrc : (o'.1 ≠ t.name ∧ ∃ e'' ∈ pp1, e''.1 = o'.1) ∨ (o'.1 = t.name ∧ o'.2.2 ≠ t.start) := by
      rcases List.mem_append.mp ho' with r | r
      · obtain ⟨e'', he'', q1, -, -⟩ := mem_occsOf r
        exact Or.inl ⟨fun e => hpp1 e'' he'' (by rw [← q1, e]), e'', he'', q1.symm⟩
      · obtain ⟨s, hs, rfl⟩ := List.mem_map.mp r
        exact Or.inr ⟨rfl, (hS1 s hs).2⟩
    by_cases hmn : o'.1 = t'.name
    · -- o' is the token t' itself
      have hst : o'.2.2 = t'.start := by rw [hmn] at a2; omega
      have : t' = t := tok_field_inj c t' ht' t ht (by rw [← hmn]; exact hfe')
      subst this
      rcases hsrc with ⟨h1, -⟩ | ⟨-, h2⟩
      · exact h1 hmn
      · exact h2 hst
    · -- o' lies properly inside t'
      have hin := List.all_eq_true.mp (List.all_eq_true.mp c.inner t'.name hpart') o'.1 hm
      have hinfix := isInfix_of_prefix_drop hinf
      have hfin : (p.fields.contains (fieldOf o'.1)) = true := by
        rw [fields_eq p c.sh, hfe']
        simpa using List.mem_map_of_mem hpart
      simp only [hinfix, hfin, Bool.not_true, Bool.or_false, Bool.or_eq_true, beq_iff_eq] at hin
      have hf' : fieldOf o'.1 = fieldOf t'.name := by
        rcases hin with r | r
        · exact absurd r hmn
        · exact r
      have : t' = t := tok_field_inj c t' ht' t ht (by rw [← hf']; exact hfe')
      subst this
      rcases hsrc with ⟨-, e'', he'', q⟩ | ⟨h1, -⟩
      · exact orderOk_split _ pp1 pp2 (t'.name, rx) tbl_order hsplit e'' he''
          ⟨by rw [q]; exact hinfix, by rw [q]; exact hf'⟩
      · exact hmn h1

/-- items with the same key are the same item -/
theorem iter_key_unique {p : Pat} :
    ∀ x ∈ iterPartPatterns Gen.partPatterns Gen.partFields p.gtext,
    ∀ y ∈ iterPartPatterns Gen.partPatterns Gen.partFields p.gtext,
      x.stop = y.stop → x.name.length = y.name.length → x = y := by
  intro x hx y hy hs hl
  obtain ⟨e1, -, n1, s1, -, p1⟩ := iter_sound _ _ _ x hx
  obtain ⟨e2, -, n2, s2, -, p2⟩ := iter_sound _ _ _ y hy
  have hst : x.start = y.start := by rw [n1] at hl; rw [n2] at hl; omega
  have hn : x.name = y.name := by
    rw [n1, n2]
    rw [hst] at p1
    exact prefix_eq_of_length p1 p2 (by rw [← n1, ← n2]; exact hl)
  exact iter_unique _ _ _ tbl_names_nodup x hx y hy hn hst

/-- STRING LEVEL: part substitution on `gtext` gives the structural regex source -/
theorem substParts_gtext (p : Pat) (c : Ctx p) :
    substParts p.gtext (sortParts (iterPartPatterns Gen.partPatterns Gen.partFields p.gtext)) = p.regexText := by
  rw [substParts_eq, ← outAll_items, ← foldl_toks_reverse, srcAll_items]
  congr 1
  apply subst_skip
  · exact sortParts_sorted _
  · intro x hx
    obtain ⟨e, -, n1, s1, -, -⟩ := iter_sound _ _ _ x (mem_sortParts hx)
    rw [s1, n1]
  · exact List.pairwise_reverse.mpr (toks_pairwise p.items 0)
  · intro t ht
    have ht' := List.mem_reverse.mp ht
    obtain ⟨-, f2, -⟩ := toks_facts p.items 0 t ht'
    have h0 : 0 < t.name.length := List.length_pos_iff.mpr (name_ne_nil (tok_name_mem c ht').2)
    exact ⟨by omega, f2⟩
  · intro t ht
    obtain ⟨-, -, f3, -⟩ := toks_facts p.items 0 t (List.mem_reverse.mp ht)
    rw [srcAll_items] at f3
    omega
  · intro t ht
    have ht' := List.mem_reverse.mp ht
    have hin := tok_in_iter c ht'
    exact mem_sortParts_of_mem hin (fun y hy hk => by
      rw [keyEq_iff] at hk
      exact iter_key_unique y hy t hin hk.1 hk.2)
  · intro x hx
    have hxi := mem_sortParts hx
    obtain ⟨e, he, n1, s1, -, p1⟩ := iter_sound _ _ _ x hxi
    have hm : e.1 ∈ partNames := List.mem_map_of_mem he
    obtain ⟨t, ht, a1, a2⟩ := occ_in_token c hm p1
    obtain ⟨-, f2, -⟩ := toks_facts p.items 0 t ht
    have h0 : 0 < e.1.length := List.length_pos_iff.mpr (name_ne_nil hm)
    by_cases hsame : x.start = t.start ∧ x.stop = t.stop
    · left
      have hin := tok_in_iter c ht
      have hxl : x.name.length = e.1.length := by rw [n1]
      have : x = t := iter_key_unique x hxi t hin hsame.2 (by omega)
      rw [this]
      exact List.mem_reverse.mpr ht
    · right; right
      refine ⟨t, List.mem_reverse.mpr ht, ?_, a1, by omega, by omega⟩
      intro e'
      apply hsame
      rw [e']
      exact ⟨rfl, rfl⟩

/-- STRING LEVEL of the tie: `_compile_pattern_re`'s string surgery on the source text of a `tokSafe` tree
    produces exactly the structural regex source -/
theorem compileStr_text (p : Pat) (h : tokSafe p = true) : compileStr p.text = p.regexText := by
  have c := ctx_of_tokSafe p h
  have hb := escape_brackets_text p c.sh
  simp only at hb
  simp only [compileStr, compileStrWith, replacePatternParts, hb]
  exact substParts_gtext p c

end BV
