/-
  Proofs/Tie_v1RfdFromContent.lean — the definition GENERATED from the Python source of
  `v1rewrite.rfd_from_content` (Gen/F_v1RfdFromContent.lean) against the hand model:

  * `tie_v1RfdFromContent`        : the record it returns is (path, detected separator, the content split at
                                      that separator, the model's `v1RewriteLines` of those lines);
  * `tie_v1RfdFromContent_content`: joining `new_lines` with `line_sep` (what `rewrite_files` writes) is the
                                      model's `v1RewriteContent`.
  `content.split(line_sep)` is translated with its ValueError for an empty separator made explicit; the proof
  uses that `detect_line_sep` never returns the empty string (`detectLineSep_ne_nil`, Tie_rfdFromContent).
-/
import BumpverVerif.Gen.F_v1RfdFromContent
import BumpverVerif.Proofs.Tie_v1RewriteLines
import BumpverVerif.Proofs.Tie_rfdFromContent
namespace BV

open GenF (PatternMatch Pattern RewrittenFileData)

theorem tie_v1RfdFromContent (patterns : List Pattern) (new_vinfo : V1Info) (content path : Str)
    (hwf : ∀ p ∈ patterns, TieM.Wf1 p) :
    GenF.v1RfdFromContent patterns new_vinfo content path =
      (v1RewriteLines (patterns.map Pattern.abs) new_vinfo (splitOn (detectLineSep content) content)).map
        (fun newLines => ({ path := path, line_sep := detectLineSep content,
                            old_lines := splitOn (detectLineSep content) content,
                            new_lines := newLines } : RewrittenFileData)) := by
  unfold GenF.v1RfdFromContent
  simp only [tie_detectLineSep, GenF.pySplit_ok _ _ (detectLineSep_ne_nil content),
    tie_v1RewriteLines _ _ _ hwf]
  cases v1RewriteLines (patterns.map Pattern.abs) new_vinfo (splitOn (detectLineSep content) content) <;> rfl

theorem tie_v1RfdFromContent_content (patterns : List Pattern) (new_vinfo : V1Info) (content path : Str)
    (hwf : ∀ p ∈ patterns, TieM.Wf1 p) :
    (GenF.v1RfdFromContent patterns new_vinfo content path).map RewrittenFileData.newContent =
      v1RewriteContent (patterns.map Pattern.abs) new_vinfo content := by
  rw [tie_v1RfdFromContent _ _ _ _ hwf]
  unfold v1RewriteContent RwEngine.rewriteContent v1RewriteLines
  simp only []
  cases v1Engine.rewriteLines (patterns.map Pattern.abs) new_vinfo (splitOn (detectLineSep content) content) <;> rfl

end BV
