/-
  Proofs/Tie_parseCinfo.lean — the definition GENERATED from the Python source of
  `v2version.parse_field_values_to_cinfo` (harness/translate_parse.py → Gen/F_parseCinfo.lean) against the hand
  model `BV.parseCinfo` (Model/V2Version.lean).

  * Python's `field_values : Dict[str, str]` is a `PyDict Str`; the model's `FVals` has `Option Str` values
    (a `None` entry reads like a missing key): abstraction `absFV`.
  * `version.TODAY` is the parameter `today` on both sides.

  `tie_parseCinfo`: for ALL dicts and every `today` whose month is not 0

      GenF.parseCinfo fv today = if yearOutOfRange fv then .error .valueError else parseCinfo (absFV fv) today

  and `parseCinfo_yearOutOfRange_model`: in that exceptional case the model answers `.error .overflow`.
  The exception: a year_y > 9999 together with a (truthy) day of the year.  Python evaluates
  `dt.date(year_y, 1, 1)` → ValueError; the model's `dateFromDoy` has no such date and reports OverflowError.
  Witness: `parse_field_values_to_cinfo({'year_y': "10000", 'doy': "1"})` raises ValueError("year 10000 is out of
  range"), the model gives `.error .overflow`.  The version regexes only admit four-digit years, and
  `parse_version_info` maps both classes to PatternError, so no caller of the model can tell the difference
  (`tie_parseCinfo_collapse`: equal after identifying the two error classes, no hypothesis on the year).

  The hypothesis `today.2.1 ≠ 0` (the month of `version.TODAY` is not 0 — true of every `datetime.date`): when the
  calendar parts default to TODAY, Python computes the quarter only `if month:` (truthiness), the model always.
  Witness: today = (2024, 0, 1), fv = {} → Python quarter None, model quarter 1.
-/
import BumpverVerif.Gen.F_parseCinfo
import BumpverVerif.Proofs.Tie_dateFromDoy
namespace BV

/-! ### calendar facts: the month of a computed date is never 0 -/

theorem ite_fst_ne_zero {c : Prop} [Decidable c] {a b : Nat × Nat} (ha : a.1 ≠ 0) (hb : b.1 ≠ 0) :
    (if c then a else b).1 ≠ 0 := by
  split <;> assumption

theorem monthDayOfYday_month_ne_zero (l : Bool) (j : Nat) : (monthDayOfYday l j).1 ≠ 0 := by
  unfold monthDayOfYday
  repeat' (first | apply ite_fst_ne_zero | (intro h; simp at h))

theorem fromOrdinal_month_ne_zero (n : Nat) : (fromOrdinal n).2.1 ≠ 0 := by
  unfold fromOrdinal
  simp only []
  split
  · intro h; simp at h
  · exact monthDayOfYday_month_ne_zero _ _

theorem dateFromDoy_month_ne_zero {y d : Nat} {dt : Nat × Nat × Nat} (h : dateFromDoy y d = some dt) :
    (dt.2.1 = 0) = False := by
  unfold dateFromDoy at h
  simp only [] at h
  split at h
  · cases h; exact eq_false (fromOrdinal_month_ne_zero _)
  · cases h

/-! ### tactics -/

/-- closes the case analyses of this file: distinguish the cases of the next `Option.elim` on a variable / `if` /
    `match`, simplify with everything known, try linear arithmetic; repeat on what is left -/
macro "parse_crunch" : tactic =>
  `(tactic| repeat' ((first | cases_elim | split) <;> (try simp_all [calInfo]) <;> (try omega)))

/-- both sides in terms of `Option.map strToNat (lookup key fv)` and the truth-value atom `pyTr` -/
macro "parse_cinfo_normalize" : tactic =>
  `(tactic| (
    unfold GenF.parseCinfo parseCinfo
    simp only [pyGet, optElim_map, intField_absFV, bind, pure, Except.pure, throw, throwThe, MonadExceptOf.throw,
      truthy_pyTr, bne_pyTr]))

set_option maxRecDepth 2000

/-! ### the cases -/

/-- `int(fvals[key]) if key in fvals else None` -/
def fvInt (fv : PyDict Str) (key : String) : Option Nat := (lookup key.toList fv).map strToNat

theorem parseCinfo_noYear (fv : PyDict Str) (today : PDate) (hT : today.2.1 ≠ 0)
    (hy : fvInt fv "year_y" = none) :
    GenF.parseCinfo fv today = parseCinfo (absFV fv) today := by
  unfold fvInt at hy
  parse_cinfo_normalize
  rw [hy]
  generalize Option.map strToNat (lookup "year_g".toList fv) = g0
  generalize Option.map strToNat (lookup "month".toList fv) = m0
  generalize Option.map strToNat (lookup "doy".toList fv) = doy
  generalize Option.map strToNat (lookup "dom".toList fv) = dom0
  generalize Option.map strToNat (lookup "quarter".toList fv) = q0
  clear hy
  simp
  parse_crunch

theorem parseCinfo_shortYear_noDoy (fv : PyDict Str) (today : PDate) (y : Nat)
    (hy : fvInt fv "year_y" = some y) (hlt : y < 1000) (hd : pyTr (fvInt fv "doy") = false) :
    GenF.parseCinfo fv today = parseCinfo (absFV fv) today := by
  unfold fvInt at hy hd
  parse_cinfo_normalize
  rw [hy]
  generalize Option.map strToNat (lookup "year_g".toList fv) = g0
  generalize Option.map strToNat (lookup "month".toList fv) = m0
  generalize Option.map strToNat (lookup "doy".toList fv) = doy at hd ⊢
  generalize Option.map strToNat (lookup "dom".toList fv) = dom0
  generalize Option.map strToNat (lookup "quarter".toList fv) = q0
  clear hy
  simp [hlt, pyDate, hd]
  parse_crunch

theorem parseCinfo_longYear_noDoy (fv : PyDict Str) (today : PDate) (y : Nat)
    (hy : fvInt fv "year_y" = some y) (hge : ¬ y < 1000) (hd : pyTr (fvInt fv "doy") = false) :
    GenF.parseCinfo fv today = parseCinfo (absFV fv) today := by
  unfold fvInt at hy hd
  parse_cinfo_normalize
  rw [hy]
  generalize Option.map strToNat (lookup "year_g".toList fv) = g0
  generalize Option.map strToNat (lookup "month".toList fv) = m0
  generalize Option.map strToNat (lookup "doy".toList fv) = doy at hd ⊢
  generalize Option.map strToNat (lookup "dom".toList fv) = dom0
  generalize Option.map strToNat (lookup "quarter".toList fv) = q0
  clear hy
  have hy0 : y ≠ 0 := by omega
  simp [hge, pyDate, hd, hy0]
  parse_crunch

theorem parseCinfo_shortYear_doy (fv : PyDict Str) (today : PDate) (y d : Nat)
    (hy : fvInt fv "year_y" = some y) (hlt : y < 1000) (hd : fvInt fv "doy" = some d) (hd0 : d ≠ 0) :
    GenF.parseCinfo fv today = parseCinfo (absFV fv) today := by
  unfold fvInt at hy hd
  parse_cinfo_normalize
  rw [hy, hd]
  generalize Option.map strToNat (lookup "year_g".toList fv) = g0
  generalize Option.map strToNat (lookup "month".toList fv) = m0
  generalize Option.map strToNat (lookup "dom".toList fv) = dom0
  generalize Option.map strToNat (lookup "quarter".toList fv) = q0
  clear hy hd
  have h1 : 1 ≤ y + 2000 ∧ y + 2000 ≤ 9999 := by omega
  rcases hdd : dateFromDoy (y + 2000) d with _ | dt
  · simp [hlt, tie_dateFromDoy, dateFromDoyPy, h1, hdd, hd0]
  · have hm := dateFromDoy_month_ne_zero hdd
    simp [hlt, tie_dateFromDoy, dateFromDoyPy, pyDate, h1, hdd, hd0, hm]
    parse_crunch

theorem parseCinfo_longYear_doy (fv : PyDict Str) (today : PDate) (y d : Nat)
    (hy : fvInt fv "year_y" = some y) (hge : ¬ y < 1000) (hle : y ≤ 9999)
    (hd : fvInt fv "doy" = some d) (hd0 : d ≠ 0) :
    GenF.parseCinfo fv today = parseCinfo (absFV fv) today := by
  unfold fvInt at hy hd
  parse_cinfo_normalize
  rw [hy, hd]
  generalize Option.map strToNat (lookup "year_g".toList fv) = g0
  generalize Option.map strToNat (lookup "month".toList fv) = m0
  generalize Option.map strToNat (lookup "dom".toList fv) = dom0
  generalize Option.map strToNat (lookup "quarter".toList fv) = q0
  clear hy hd
  have h1 : 1 ≤ y ∧ y ≤ 9999 := by omega
  have hy0 : y ≠ 0 := by omega
  rcases hdd : dateFromDoy y d with _ | dt
  · simp [hge, tie_dateFromDoy, dateFromDoyPy, h1, hdd, hd0, hy0]
  · have hm := dateFromDoy_month_ne_zero hdd
    simp [hge, tie_dateFromDoy, dateFromDoyPy, pyDate, h1, hdd, hd0, hm, hy0]
    parse_crunch

/-- the exceptional case on the Python side: `dt.date(year_y, 1, 1)` raises ValueError -/
theorem parseCinfo_hugeYear_doy_gen (fv : PyDict Str) (today : PDate) (y d : Nat)
    (hy : fvInt fv "year_y" = some y) (hgt : 9999 < y) (hd : fvInt fv "doy" = some d) (hd0 : d ≠ 0) :
    GenF.parseCinfo fv today = .error .valueError := by
  unfold fvInt at hy hd
  unfold GenF.parseCinfo
  simp only [pyGet, optElim_map, bne_pyTr]
  rw [hy, hd]
  have hge : ¬ y < 1000 := by omega
  have h1 : ¬ (1 ≤ y ∧ y ≤ 9999) := by omega
  have hy0 : y ≠ 0 := by omega
  simp [hge, tie_dateFromDoy, dateFromDoyPy, h1, hd0, hy0]

/-- … and on the model side: no such date, reported as an overflow -/
theorem parseCinfo_hugeYear_doy_model (fv : PyDict Str) (today : PDate) (y d : Nat)
    (hy : fvInt fv "year_y" = some y) (hgt : 9999 < y) (hd : fvInt fv "doy" = some d) (hd0 : d ≠ 0) :
    parseCinfo (absFV fv) today = .error .overflow := by
  unfold fvInt at hy hd
  unfold parseCinfo
  simp only [intField_absFV, bind, pure, Except.pure, throw, throwThe, MonadExceptOf.throw, truthy_pyTr]
  rw [hy, hd]
  have hge : ¬ y < 1000 := by omega
  have hy0 : y ≠ 0 := by omega
  have hdd := dateFromDoy_big_year y d (by omega) (by omega)
  simp [hge, hdd, hd0, hy0]

/-! ### the tie -/

/-- `year_y` as `parse_field_values_to_cinfo` uses it: two- and three-digit years are lifted by 2000 -/
def fvYear (fv : PyDict Str) : Option Nat :=
  (fvInt fv "year_y").map (fun y => if y < 1000 then y + 2000 else y)

/-- the inputs on which Python and the model differ (in the class of the error only): a day of the year is given
    and the year is beyond `datetime.MAXYEAR` -/
def yearOutOfRange (fv : PyDict Str) : Bool :=
  pyTr (fvInt fv "doy") && decide (9999 < (fvYear fv).getD 0)

theorem tie_parseCinfo_cases (fv : PyDict Str) (today : PDate) (hT : today.2.1 ≠ 0) :
    (yearOutOfRange fv = false ∧ GenF.parseCinfo fv today = parseCinfo (absFV fv) today) ∨
    (yearOutOfRange fv = true ∧ GenF.parseCinfo fv today = .error .valueError ∧
      parseCinfo (absFV fv) today = .error .overflow) := by
  rcases hy : fvInt fv "year_y" with _ | y
  · left
    exact ⟨by simp [yearOutOfRange, fvYear, hy], parseCinfo_noYear fv today hT hy⟩
  · by_cases hd : pyTr (fvInt fv "doy") = false
    · left
      refine ⟨by simp [yearOutOfRange, hd], ?_⟩
      by_cases hlt : y < 1000
      · exact parseCinfo_shortYear_noDoy fv today y hy hlt hd
      · exact parseCinfo_longYear_noDoy fv today y hy hlt hd
    · rcases hdv : fvInt fv "doy" with _ | d
      · simp [hdv] at hd
      · have hd0 : d ≠ 0 := by simpa [hdv] using hd
        have hdt : pyTr (fvInt fv "doy") = true := by simp [hdv, hd0]
        by_cases hlt : y < 1000
        · left
          refine ⟨?_, parseCinfo_shortYear_doy fv today y d hy hlt hdv hd0⟩
          simp only [yearOutOfRange, fvYear, hy, hdt, Option.map_some, Option.getD_some, if_pos hlt, Bool.true_and,
            decide_eq_false_iff_not]
          omega
        · by_cases hle : y ≤ 9999
          · left
            refine ⟨?_, parseCinfo_longYear_doy fv today y d hy hlt hle hdv hd0⟩
            simp only [yearOutOfRange, fvYear, hy, hdt, Option.map_some, Option.getD_some, if_neg hlt, Bool.true_and,
              decide_eq_false_iff_not]
            omega
          · right
            refine ⟨?_, parseCinfo_hugeYear_doy_gen fv today y d hy (by omega) hdv hd0,
              parseCinfo_hugeYear_doy_model fv today y d hy (by omega) hdv hd0⟩
            simp only [yearOutOfRange, fvYear, hy, hdt, Option.map_some, Option.getD_some, if_neg hlt, Bool.true_and,
              decide_eq_true_eq]
            omega

/-- THE TIE, on all inputs: the generated function is the model function, except that a year beyond 9999 next to a
    day of the year is Python's ValueError (from `dt.date(year_y, 1, 1)`) -/
theorem tie_parseCinfo (fv : PyDict Str) (today : PDate) (hT : today.2.1 ≠ 0) :
    GenF.parseCinfo fv today =
      if yearOutOfRange fv then .error .valueError else parseCinfo (absFV fv) today := by
  rcases tie_parseCinfo_cases fv today hT with ⟨h, e⟩ | ⟨h, e, _⟩ <;> simp [h, e]

/-- on those inputs the model reports the other error class -/
theorem parseCinfo_yearOutOfRange_model (fv : PyDict Str) (today : PDate) (hT : today.2.1 ≠ 0)
    (h : yearOutOfRange fv = true) : parseCinfo (absFV fv) today = .error .overflow := by
  rcases tie_parseCinfo_cases fv today hT with ⟨h', _⟩ | ⟨_, _, e⟩
  · simp [h] at h'
  · exact e

/-- away from them the generated function IS the model function -/
theorem tie_parseCinfo_model (fv : PyDict Str) (today : PDate) (hT : today.2.1 ≠ 0)
    (hY : yearOutOfRange fv = false) : GenF.parseCinfo fv today = parseCinfo (absFV fv) today := by
  rw [tie_parseCinfo fv today hT, hY]; rfl

/-- ValueError and OverflowError identified (as `parse_version_info` does): equal on ALL dicts -/
def collapseErr : PErr → PErr
  | .overflow => .valueError
  | e => e

def collapseVO {α : Type} : Except PErr α → Except PErr α
  | .error e => .error (collapseErr e)
  | .ok a => .ok a

theorem tie_parseCinfo_collapse (fv : PyDict Str) (today : PDate) (hT : today.2.1 ≠ 0) :
    collapseVO (GenF.parseCinfo fv today) = collapseVO (parseCinfo (absFV fv) today) := by
  rcases tie_parseCinfo_cases fv today hT with ⟨_, e⟩ | ⟨_, e1, e2⟩
  · rw [e]
  · rw [e1, e2]; rfl

/-! ### non-vacuity (evaluated by the kernel) and the witnesses of the two hypotheses -/

example : GenF.parseCinfo [("year_y".toList, "2021".toList), ("week_w".toList, "02".toList)] (2024, 5, 17) =
    .ok { yearY := some 2021, yearG := none, quarter := none, month := none, dom := none, doy := none,
          weekW := some 2, weekU := none, weekV := none } := by decide
example : GenF.parseCinfo [("year_y".toList, "18".toList), ("month".toList, "11".toList)] (2024, 5, 17) =
    .ok { yearY := some 2018, yearG := none, quarter := some 4, month := some 11, dom := none, doy := none,
          weekW := none, weekU := none, weekV := none } := by decide
example : GenF.parseCinfo [("year_y".toList, "10000".toList), ("doy".toList, "1".toList)] (2024, 5, 17)
      = .error .valueError
    ∧ parseCinfo (absFV [("year_y".toList, "10000".toList), ("doy".toList, "1".toList)]) (2024, 5, 17)
      = .error .overflow := by decide
example : (GenF.parseCinfo [] (2024, 0, 1)).map (·.quarter) = .ok none
    ∧ (parseCinfo (absFV []) (2024, 0, 1)).map (·.quarter) = .ok (some 1) := by decide

end BV
