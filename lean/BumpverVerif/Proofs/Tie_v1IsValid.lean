/-
  Proofs/Tie_v1IsValid.lean — the definition GENERATED from `v1version.is_valid(version_str, raw_pattern)` equals the
  hand model `BV.v1IsValid` on all inputs: `True` when `parse_version_info` returns, `False` when it raises
  PatternError, every OTHER exception propagates (callee `parse_version_info` = model `v1ParseVersionInfo`,
  tied by `tie_v1ParseVersionInfo`).
-/
import BumpverVerif.Gen.F_v1IsValid
namespace BV

theorem tie_v1IsValid (versionStr raw : Str) : GenV1.v1IsValid versionStr raw = v1IsValid versionStr raw := by
  unfold GenV1.v1IsValid v1IsValid
  cases v1ParseVersionInfo versionStr raw with
  | ok v => rfl
  | error e => cases e <;> rfl

end BV
