/-
  Proofs/Tie_argvTag.lean — source-level tie for the VALUES `vcs.VCSAPI.tag` passes to `VCSAPI.__call__`
  (Gen/F_argvTag.lean; property C12).  Builder B's ties (Proofs/Tie_vcsCommit.lean) fix the SEQUENCE of
  subcommands; here the keyword arguments, the environment and — for Mercurial's commit — the temporary log file are
  visible.  `tie_argvTag`: generated definition = reference, for EVERY `VCSAPI` object (any name, any template
  table), all strings, worlds and traces; stated with `callRef` (= `__call__`, Proofs/Tie_argvCall.lean).
  The composition down to the argument vector of the process that runs: Proofs/Tie_argvEndToEnd.lean.
-/
import BumpverVerif.Gen.F_argvTag
import BumpverVerif.Proofs.Tie_argvCall
namespace BV.TieK
open BV.TieK.Gen

/-- `VCSAPI.tag(tag_name, tag_message)`: an annotated tag carries both values; an EMPTY message means a
    lightweight tag (subcommand `tag_light`, which has no message argument at all) -/
def tagRef (self : VcsApi) (tag_name tag_message : Str) : Eff Unit := fun w s =>
  if tag_message ≠ [] then
    unitOf (callRef self ['t', 'a', 'g'] none [(['t', 'a', 'g'], tag_name), (['m', 'e', 's', 's', 'a', 'g', 'e'], tag_message)] w s)
  else
    unitOf (callRef self ['t', 'a', 'g', '_', 'l', 'i', 'g', 'h', 't'] none [(['t', 'a', 'g'], tag_name)] w s)

theorem tie_argvTag (self : VcsApi) (tag_name tag_message : Str) :
    argvTag self tag_name tag_message = tagRef self tag_name tag_message := by
  funext w s
  unfold argvTag tagRef
  simp only [tie_argvCall, bind_unit_id]
  cases tag_message with
  | nil =>
    simp only [List.isEmpty, Bool.not_true, Bool.false_eq_true, if_false, ne_eq, not_true_eq_false]
    exact bind_unit _ w s
  | cons c r =>
    simp only [List.isEmpty, Bool.not_false, if_true, ne_eq, reduceCtorEq, not_false_eq_true]
    -- the keyword arguments may be written in either order
    have hswap := callRef_kw_congr self ['t', 'a', 'g'] none
      (lookup_swap2 ['m', 'e', 's', 's', 'a', 'g', 'e'] ['t', 'a', 'g'] (c :: r) tag_name (by decide))
    first
      | exact bind_unit _ w s
      | (rw [hswap]; exact bind_unit _ w s)

end BV.TieK
