/-
  Proofs/Tie_parseCurrentVersionDefaultPattern.lean — the definition GENERATED from the Python
  source of `config._parse_current_version_default_pattern` (Gen/F_parseCurrentVersionDefaultPattern.lean:
  the `for line in raw_cfg_text.splitlines()` loop with its early `return` is the structurally
  recursive `….loop1`, whose `[]` case is the `raise ValueError` after the loop) equals the hand model:
  the line scan is `curVersionScan` (by induction on the lines), the result is
  `parseCurrentVersionDefaultPattern`.

  * `tie_parseCurrentVersionDefaultPattern_general` : for ALL raw dicts and texts; the raw values are
    only looked at when a `current_version` line is found (`selfPatternOf`).
  * `tie_parseCurrentVersionDefaultPattern` : for raw dicts that hold `current_version` and
    `version_pattern` as str — what `_set_raw_config_defaults` guarantees before
    `_parse_raw_config` calls this function — the hand model's function of the two strings.
    DIFFERENCE (reported): the hand model's caller `addSelfPattern` reads the two raw values FIRST,
    so for a dict without `current_version` AND a text without a `current_version` line it answers
    KeyError where Python answers ValueError("Could not parse 'current_version'").  Unreachable:
    `_set_raw_config_defaults` has raised before.
-/
import BumpverVerif.Gen.F_parseCurrentVersionDefaultPattern
import BumpverVerif.Proofs.TieConfigCommon
set_option linter.unusedSimpArgs false
namespace BV
open TieH

/-- the pattern for a found `current_version` line: `raw_cfg['current_version'].strip(...)`,
    `raw_cfg['version_pattern'].strip(...)` (KeyError / AttributeError), then `line.replace` -/
def selfPatternOf (raw : TomlSection) (line : Str) : Except Str Str :=
  match rawStr "current_version".toList raw.opts with
  | .error e => .error e.pyClass
  | .ok cv =>
    match rawStr "version_pattern".toList raw.opts with
    | .error e => .error e.pyClass
    | .ok vp => .ok (pyReplace (stripQuotes cv) (stripQuotes vp) line)

namespace TieH

theorem strIdx_zero_cons (c : Char) (t : Str) : Py.strIdx (c :: t) 0 = some [c] := by
  simp [Py.strIdx]

theorem strIdx_neg1_cons (c : Char) (t : Str) :
    Py.strIdx (c :: t) (-1) = ((c :: t).getLast?).map (fun x => [x]) := by
  unfold Py.strIdx
  have h1 : ¬ ((-1 : Int) ≥ 0) := by decide
  have h2 : (-1 : Int).natAbs = 1 := rfl
  simp only [h1, if_false, h2, List.length_cons, Nat.le_add_left, if_true, List.getLast?_eq_getElem?]

theorem singleton_beq (c d : Char) : ([c] == [d]) = (c == d) := by
  simp

end TieH

/-- a line that is not the wanted one: the section flag is updated (`[pycalver]`, `[bumpver]`,
    `[tool.bumpver]` open the section, any other `[...]` line closes it) and the scan goes on.
    The three header tests are atoms: the source may write them as an `elif` chain, with `or`, or as
    `line.strip() in ("[pycalver]", "[bumpver]", "[tool.bumpver]")` (`List.elem`). -/
macro "cvdp_scan_on" ih:ident line:ident : tactic => `(tactic|
  (simp only [isConfigHeader, isAnyHeader]
   by_cases c1 : (strip $line:ident == "[pycalver]".toList) = true <;>
   by_cases c2 : (strip $line:ident == "[bumpver]".toList) = true <;>
   by_cases c3 : (strip $line:ident == "[tool.bumpver]".toList) = true <;>
   simp only [List.elem_cons, List.elem_nil, c1, c2, c3, Bool.true_or, Bool.or_true, Bool.or_false, Bool.or_self,
     Bool.false_eq_true, if_true, if_false, $ih:ident]
   rcases $line:ident with _ | ⟨c, t⟩
   · simp only [List.isEmpty_nil, Bool.not_true, Bool.false_eq_true, if_false, $ih:ident]
   · simp only [List.isEmpty_cons, Bool.not_false, if_true, strIdx_zero_cons, strIdx_neg1_cons]
     have e1 : "[".toList = ['['] := rfl
     have e2 : "]".toList = [']'] := rfl
     obtain ⟨l, hl⟩ : ∃ l, (c :: t).getLast? = some l := by
       cases h : (c :: t).getLast? with
       | none => exact absurd (List.getLast?_eq_none_iff.mp h) (List.cons_ne_nil c t)
       | some l => exact ⟨l, rfl⟩
     simp only [hl, e1, e2, singleton_beq, Option.map_some]
     by_cases d1 : (c == '[') = true <;> by_cases d2 : (l == ']') = true <;>
       simp [d1, d2, $ih:ident]))

theorem tie_cvdp_loop (raw : TomlSection) (text : Str) (inSec : Bool) (lines : List Str) :
    GenF.parseCurrentVersionDefaultPattern.loop1 raw text inSec lines =
      match curVersionScan inSec lines with
      | none => .error "ValueError".toList
      | some line => selfPatternOf raw line := by
  induction lines generalizing inSec with
  | nil => rfl
  | cons line rest ih =>
    unfold GenF.parseCurrentVersionDefaultPattern.loop1 curVersionScan
    -- the two atoms of the first test (written `a and b` or as two nested ifs)
    rcases inSec with _ | _ <;> rcases hd : startsWith line "current_version".toList with _ | _ <;>
      simp only [Bool.and_true, Bool.and_false, Bool.true_and, Bool.false_and, Bool.and_self, if_true, if_false,
        Bool.false_eq_true]
    · cvdp_scan_on ih line
    · cvdp_scan_on ih line
    · cvdp_scan_on ih line
    · -- inside the section, on the `current_version` line
      simp only [selfPatternOf, rawStr, stripQuotes]
      rcases lookup "current_version".toList raw.opts with _ | (cv | _ | _) <;>
        simp only [Py.strOf, pyClass_keyError, pyClass_notAString]
      rcases lookup "version_pattern".toList raw.opts with _ | (vp | _ | _) <;>
        simp only [Py.strOf, pyClass_keyError, pyClass_notAString]

theorem tie_parseCurrentVersionDefaultPattern_general (raw : TomlSection) (text : Str) :
    GenF.parseCurrentVersionDefaultPattern raw text =
      match curVersionLine text with
      | none => .error "ValueError".toList
      | some line => selfPatternOf raw line := by
  unfold GenF.parseCurrentVersionDefaultPattern curVersionLine
  exact tie_cvdp_loop raw text false (pySplitlines text)

theorem tie_parseCurrentVersionDefaultPattern (raw : TomlSection) (text cv vp : Str)
    (hcv : rawStr "current_version".toList raw.opts = .ok cv)
    (hvp : rawStr "version_pattern".toList raw.opts = .ok vp) :
    GenF.parseCurrentVersionDefaultPattern raw text =
      (parseCurrentVersionDefaultPattern cv vp text).mapError CfgErr.pyClass := by
  rw [tie_parseCurrentVersionDefaultPattern_general]
  unfold parseCurrentVersionDefaultPattern selfPatternOf
  rw [hcv, hvp]
  cases curVersionLine text <;> simp only [Except.mapError, pyClass_noVersionLine]

/-- the second half of `_parse_raw_config` (hand model `addSelfPattern`) through the generated
    definition: when the raw dict holds both values as str, the self pattern the hand model adds is
    the one the generated definition computes -/
theorem tie_addSelfPattern (rel text : Str) (raw : RawCfg) (cv vp : Str)
    (hcv : rawStr "current_version".toList raw.opts = .ok cv)
    (hvp : rawStr "version_pattern".toList raw.opts = .ok vp)
    (hk : cfgHasKey rel raw.filePatterns = false) :
    (addSelfPattern rel text raw).mapError CfgErr.pyClass =
      (GenF.parseCurrentVersionDefaultPattern (embedRaw raw) text).map
        (fun p => { raw with filePatterns := raw.filePatterns ++ [(rel, [p])] }) := by
  rw [tie_parseCurrentVersionDefaultPattern (embedRaw raw) text cv vp hcv hvp]
  unfold addSelfPattern
  simp only [hk, Bool.false_eq_true, if_false, hcv, hvp]
  cases parseCurrentVersionDefaultPattern cv vp text <;> rfl

end BV
