/-
  Proofs/Tie_replacePatternParts.lean — the definition GENERATED from the Python source of
  `v2patterns._replace_pattern_parts` (Gen/F_replacePatternParts.lean) against the hand model
  `BV.replacePatternParts` (Model/V2Patterns.lean: `bracketsToGroups`, `sortParts`, `substParts`).

  `tie_replacePatternParts`: for every fuel ≥ `replaceFuel pattern` (≤ 3·len(pattern)+1, `replaceFuel_le`) the
  generated function returns `some` of the model's result.  Three pieces:
    * the `while True` / `re.subn` loop (the two regex literals are translated to the model primitive
      `subBracket '[' "(?:"` / `subBracket ']' ")?"`): every round that substitutes removes a bracket character
      (`subBracketGo_count`, `bracketCount_round`), so the loop ends within #brackets + 1 rounds and computes
      `bracketsToGroups` (`whileTrue_brackets`);
    * `sorted(dict(_iter_part_patterns(pattern)).items())` is `sortParts` of the model's items
      (`sorted_dict_toPair`, from `PyP.sorted_dictOfPairs` and `insertSorted_map`);
    * the right-to-left substitution loop with Python slices is `substParts` (`foldl_abs`).
  Hypotheses `hkeys` / `hne`: those of `tie_iterPartPatterns` (the generated callee is called as generated).
-/
import BumpverVerif.Gen.F_replacePatternParts
import BumpverVerif.Proofs.Tie_iterPartPatterns
import BumpverVerif.Proofs.Tie_patternsSort
set_option linter.unusedSimpArgs false
namespace BV
open PyP

/-! ### the `while True` / `re.subn` bracket loop terminates: every round that substitutes removes a bracket -/

/-- one `re.subn` pass: a character `x` that does not occur in the replacement text is only ever removed,
    and exactly `n` (the substitution count) copies of the bracket itself are removed -/
theorem subBracketGo_count (b : Char) (repl : Str) (x : Char) (hr : repl.count x = 0) :
    ∀ (k : Nat) (st : Bool) (s : Str), s.length ≤ k →
      (subBracketGo b repl st s).1.count x + (if x = b then (subBracketGo b repl st s).2 else 0) = s.count x := by
  intro k
  induction k with
  | zero =>
    intro st s hs
    have : s = [] := List.eq_nil_of_length_eq_zero (by omega)
    subst this; simp [subBracketGo]
  | succ k ih =>
    intro st s hs
    match s with
    | [] => simp [subBracketGo]
    | [c] =>
      simp only [subBracketGo]
      by_cases h : (st && c == b) = true
      · simp only [h, if_true]
        simp only [Bool.and_eq_true, beq_iff_eq] at h
        by_cases hx : x = b
        · simp [hx, h.2] at hr ⊢; simp [hr]
        · have : ¬ c = x := by rw [h.2]; exact fun e => hx e.symm
          simp [hx, hr, this]
      · simp only [h]
        simp only [Bool.and_eq_true, beq_iff_eq, not_and] at h
        by_cases hx : x = b
        · simp [hx]
        · simp [hx]
    | c :: c2 :: rest =>
      have ih1 := ih false rest (by simp at hs; omega)
      have ih2 := ih false (c2 :: rest) (by simp at hs ⊢; omega)
      simp only [subBracketGo]
      split
      · rename_i h1
        simp only [Bool.and_eq_true, bne_iff_ne, beq_iff_eq] at h1
        obtain ⟨_, rfl⟩ := h1
        simp only [List.count_cons, List.count_append, hr]
        by_cases hx : x = c2
        · subst hx; simp only [if_true, beq_self_eq_true] at ih1 ⊢; omega
        · have hx' : (c2 == x) = false := by simp; exact fun e => hx e.symm
          simp only [hx, if_false, hx', Bool.false_eq_true] at ih1 ⊢; omega
      · split
        · rename_i h2
          simp only [Bool.and_eq_true, beq_iff_eq] at h2
          obtain ⟨_, rfl⟩ := h2
          simp only [List.count_cons, List.count_append, hr] at ih2 ⊢
          by_cases hx : x = c
          · subst hx; simp only [if_true, beq_self_eq_true] at ih2 ⊢; omega
          · have hx' : (c == x) = false := by simp; exact fun e => hx e.symm
            simp only [hx, if_false, hx', Bool.false_eq_true] at ih2 ⊢; omega
        · simp only [List.count_cons] at ih2 ⊢
          by_cases hx : x = b
          · simp only [hx, if_true] at ih2 ⊢; omega
          · simp only [hx, if_false] at ih2 ⊢; omega

/-- number of bracket characters: the termination measure of the loop -/
def bracketCount (s : Str) : Nat := s.count '[' + s.count ']'

theorem bracketCount_le (s : Str) : bracketCount s ≤ s.length := by
  unfold bracketCount
  induction s with
  | nil => simp
  | cons c cs ih =>
    simp only [List.count_cons, List.length_cons]
    by_cases h1 : c = '[' <;> by_cases h2 : c = ']' <;> simp_all <;> omega

/-- one round of the loop body removes `n + m` bracket characters -/
theorem bracketCount_round (s : Str) :
    bracketCount (subBracket ']' ")?".toList (subBracket '[' "(?:".toList s).1).1
      + ((subBracket '[' "(?:".toList s).2 + (subBracket ']' ")?".toList (subBracket '[' "(?:".toList s).1).2)
      = bracketCount s := by
  unfold bracketCount subBracket
  have a1 := subBracketGo_count '[' "(?:".toList '[' (by decide) _ true s (Nat.le_refl _)
  have a2 := subBracketGo_count '[' "(?:".toList ']' (by decide) _ true s (Nat.le_refl _)
  have b1 := subBracketGo_count ']' ")?".toList '[' (by decide) _ true (subBracketGo '[' "(?:".toList true s).1 (Nat.le_refl _)
  have b2 := subBracketGo_count ']' ")?".toList ']' (by decide) _ true (subBracketGo '[' "(?:".toList true s).1 (Nat.le_refl _)
  simp only [if_true] at a1 b2
  have e1 : ¬ (']' = '[') := by decide
  have e2 : ¬ ('[' = ']') := by decide
  simp only [e1, e2, if_false, Nat.add_zero] at a2 b1
  omega

/-- the `while True` loop against the model's fuel recursion, for a loop body that behaves as specified;
    two independent fuels, both at least (number of brackets) + 1 -/
theorem whileTrue_brackets (body : Str → Option (Step Str))
    (hbody : ∀ s, body s =
      if (subBracket '[' "(?:".toList s).2 + (subBracket ']' ")?".toList (subBracket '[' "(?:".toList s).1).2 == 0
      then some (.brk (subBracket ']' ")?".toList (subBracket '[' "(?:".toList s).1).1)
      else some (.next (subBracket ']' ")?".toList (subBracket '[' "(?:".toList s).1).1)) :
    ∀ (fG fM : Nat) (s : Str), bracketCount s + 1 ≤ fG → bracketCount s + 1 ≤ fM →
      whileTrue body fG s = some (bracketsToGroups fM s) := by
  intro fG
  induction fG with
  | zero => intro fM s h; omega
  | succ fG ih =>
    intro fM s hG hM
    cases fM with
    | zero => omega
    | succ fM =>
      have hr := bracketCount_round s
      simp only [whileTrue, hbody, bracketsToGroups]
      by_cases hz : ((subBracket '[' "(?:".toList s).2 +
          (subBracket ']' ")?".toList (subBracket '[' "(?:".toList s).1).2 == 0) = true
      · simp only [hz, if_true]
      · simp only [hz, Bool.false_eq_true, if_false]
        simp only [beq_iff_eq] at hz
        exact ih fM _ (by omega) (by omega)

/-! ### a closed bound for the fuel: the rewritten pattern is at most three times as long -/

/-- one `re.subn` pass: every substitution replaces one character by the replacement text -/
theorem subBracketGo_length (b : Char) (repl : Str) :
    ∀ (k : Nat) (st : Bool) (s : Str), s.length ≤ k →
      (subBracketGo b repl st s).1.length + (subBracketGo b repl st s).2 =
        s.length + (subBracketGo b repl st s).2 * repl.length := by
  intro k
  induction k with
  | zero =>
    intro st s hs
    have : s = [] := List.eq_nil_of_length_eq_zero (by omega)
    subst this; simp [subBracketGo]
  | succ k ih =>
    intro st s hs
    match s with
    | [] => simp [subBracketGo]
    | [c] =>
      simp only [subBracketGo]
      split <;> simp
      omega
    | c :: c2 :: rest =>
      have ih1 := ih false rest (by simp at hs; omega)
      have ih2 := ih false (c2 :: rest) (by simp at hs ⊢; omega)
      simp only [subBracketGo]
      split
      · simp only [List.length_cons, List.length_append] at ih1 ⊢
        rw [Nat.add_mul]; omega
      · split
        · simp only [List.length_cons, List.length_append] at ih2 ⊢
          rw [Nat.add_mul]; omega
        · simp only [List.length_cons] at ih2 ⊢
          omega

/-- potential that one round of the loop keeps: length + 2·#`[` + #`]` -/
def bracketPot (s : Str) : Nat := s.length + 2 * s.count '[' + s.count ']'

theorem bracketPot_round (s : Str) :
    bracketPot (subBracket ']' ")?".toList (subBracket '[' "(?:".toList s).1).1 = bracketPot s := by
  unfold bracketPot subBracket
  have a1 := subBracketGo_count '[' "(?:".toList '[' (by decide) _ true s (Nat.le_refl _)
  have a2 := subBracketGo_count '[' "(?:".toList ']' (by decide) _ true s (Nat.le_refl _)
  have b1 := subBracketGo_count ']' ")?".toList '[' (by decide) _ true (subBracketGo '[' "(?:".toList true s).1 (Nat.le_refl _)
  have b2 := subBracketGo_count ']' ")?".toList ']' (by decide) _ true (subBracketGo '[' "(?:".toList true s).1 (Nat.le_refl _)
  have l1 := subBracketGo_length '[' "(?:".toList _ true s (Nat.le_refl _)
  have l2 := subBracketGo_length ']' ")?".toList _ true (subBracketGo '[' "(?:".toList true s).1 (Nat.le_refl _)
  simp only [if_true] at a1 b2
  have e1 : ¬ (']' = '[') := by decide
  have e2 : ¬ ('[' = ']') := by decide
  simp only [e1, e2, if_false, Nat.add_zero] at a2 b1
  have h3 : "(?:".toList.length = 3 := rfl
  have h2 : ")?".toList.length = 2 := rfl
  rw [h3] at l1; rw [h2] at l2
  omega

theorem bracketsToGroups_pot : ∀ (f : Nat) (s : Str), bracketPot (bracketsToGroups f s) = bracketPot s
  | 0, _ => rfl
  | f + 1, s => by
    simp only [bracketsToGroups]
    split
    · exact bracketPot_round s
    · rw [bracketsToGroups_pot f, bracketPot_round s]

theorem bracketsToGroups_length_le (f : Nat) (s : Str) : (bracketsToGroups f s).length ≤ 3 * s.length := by
  have h1 := bracketsToGroups_pot f s
  have h2 := bracketCount_le s
  unfold bracketPot at h1
  unfold bracketCount at h2
  omega

/-! ### `sorted(dict(_iter_part_patterns(pattern)).items())` is the model's `sortParts` -/

theorem insertSorted_map (x : PosPart) : ∀ l : List PosPart,
    (insertSorted x l).map PosPart.toPair = insRepl x.toPair (l.map PosPart.toPair)
  | [] => rfl
  | y :: ys => by
    have hEq : (y.toPair.1 == x.toPair.1) = keyEq x y := by
      rw [Bool.eq_iff_iff]
      simp only [PosPart.toPair, keyEq, beq_iff_eq, Prod.mk.injEq, Bool.and_eq_true]
      omega
    have hLt : PyOrd.lt x.toPair.1 y.toPair.1 = keyLt x y := by
      rw [Bool.eq_iff_iff, ltK_iff]
      simp only [PosPart.toPair, keyLt, Bool.or_eq_true, Bool.and_eq_true, decide_eq_true_eq, beq_iff_eq]
      omega
    simp only [insertSorted, List.map_cons, insRepl, hEq, hLt]
    by_cases h1 : keyEq x y = true
    · simp [h1]
    · by_cases h2 : keyLt x y = true
      · simp [h1, h2]
      · simp only [h1, h2, Bool.false_eq_true, if_false, List.map_cons, insertSorted_map x ys]

theorem sortParts_map_go : ∀ (L A : List PosPart),
    (L.foldl (fun acc x => insertSorted x acc) A).map PosPart.toPair =
      (L.map PosPart.toPair).foldl (fun acc x => insRepl x acc) (A.map PosPart.toPair)
  | [], _ => rfl
  | x :: xs, A => by
    simp only [List.foldl_cons, List.map_cons]
    rw [sortParts_map_go xs, insertSorted_map]

/-- what the generated code computes from the yielded items is the model's sorted list -/
theorem sorted_dict_toPair (L : List PosPart) :
    PyP.sorted (dictOfPairs (L.map PosPart.toPair)) = (sortParts L).map PosPart.toPair := by
  rw [sorted_dictOfPairs, sortParts, sortParts_map_go]
  rfl

/-! ### the substitution loop -/

theorem foldl_abs {σ τ α : Type} (g : σ → α → σ) (f : τ → α → τ) (abs : τ → σ) (xs : List α)
    (h : ∀ x ∈ xs, ∀ t, g (abs t) x = abs (f t x)) (t : τ) :
    xs.foldl g (abs t) = abs (xs.foldl f t) := by
  induction xs generalizing t with
  | nil => rfl
  | cons x xs ih =>
    simp only [List.foldl_cons, h x List.mem_cons_self t]
    exact ih (fun y hy => h y (List.mem_cons_of_mem _ hy)) _

/-- state of the generated substitution loop `(last_start_idx, result_pattern)` for the model's
    `(result, last_start)` -/
def substAbs (t : Str × Nat) : Int × Str := ((t.2 : Int), t.1)

/-- fuel that suffices for both loops of `_replace_pattern_parts` (and of `_iter_part_patterns` on the
    rewritten pattern) -/
def replaceFuel (pattern : Str) : Nat :=
  max (pattern.length + 1) ((bracketsToGroups (pattern.length + 1) pattern).length + 1)

/-- `3·len(pattern) + 1` rounds always suffice -/
theorem replaceFuel_le (pattern : Str) : replaceFuel pattern ≤ 3 * pattern.length + 1 := by
  unfold replaceFuel
  have := bracketsToGroups_length_le (pattern.length + 1) pattern
  omega

theorem tie_replacePatternParts (partPatterns partFields : List (Str × Str)) (fuel : Nat) (pattern : Str)
    (hkeys : ∀ pp ∈ partPatterns, (lookup pp.1 partFields).isSome = true)
    (hne : ∀ pp ∈ partPatterns, pp.1 ≠ [])
    (hfuel : replaceFuel pattern ≤ fuel) :
    GenF.replacePatternParts partPatterns partFields fuel pattern =
      some (replacePatternParts partPatterns partFields pattern) := by
  have hf1 : pattern.length + 1 ≤ fuel := Nat.le_trans (Nat.le_max_left _ _) hfuel
  have hf2 : (bracketsToGroups (pattern.length + 1) pattern).length + 1 ≤ fuel :=
    Nat.le_trans (Nat.le_max_right _ _) hfuel
  have hwhile : ∀ B : Str → Option (Step Str),
      (∀ s, B s =
        if (subBracket '[' "(?:".toList s).2 + (subBracket ']' ")?".toList (subBracket '[' "(?:".toList s).1).2 == 0
        then some (.brk (subBracket ']' ")?".toList (subBracket '[' "(?:".toList s).1).1)
        else some (.next (subBracket ']' ")?".toList (subBracket '[' "(?:".toList s).1).1)) →
      whileTrue B fuel pattern = some (bracketsToGroups (pattern.length + 1) pattern) :=
    fun B hB => whileTrue_brackets B hB fuel (pattern.length + 1) pattern
      (by have := bracketCount_le pattern; omega) (by have := bracketCount_le pattern; omega)
  simp only [GenF.replacePatternParts]
  rw [hwhile _ (fun s => by
    first
    | rfl
    | (show (if _ then _ else _) = _
       split <;> split <;> first | rfl | (exfalso; simp_all <;> omega)))]
  simp only [tie_iterPartPatterns partPatterns partFields fuel _ hkeys hne hf2, sorted_dict_toPair,
    List.foldl_map]
  have hfold : ∀ (G : Int × Str → PosPart → Int × Str) (L : List PosPart) (t : Str × Nat),
      (∀ (x : PosPart) (t : Str × Nat), G (substAbs t) x =
        substAbs (if x.stop ≤ t.2 then (t.1.take x.start ++ x.text ++ t.1.drop x.stop, x.start) else t)) →
      (L.foldl G (substAbs t)).2 =
        (L.foldl (fun (acc : Str × Nat) it =>
          if it.stop ≤ acc.2 then (acc.1.take it.start ++ it.text ++ acc.1.drop it.stop, it.start) else acc) t).1 := by
    intro G L t hG
    rw [foldl_abs G _ substAbs L (fun x _ t => hG x t) t]
    rfl
  refine congrArg some (hfold _ _ (_, _) ?_)
  intro x t
  simp only [substAbs, PosPart.toPair, sliceTo_natCast, sliceFrom_natCast]
  by_cases h : x.stop ≤ t.2
  · -- the source may spell the test `end_idx <= last` or (with exchanged branches) `end_idx > last`
    have h1 : ((x.stop : Nat) : Int) ≤ (t.2 : Int) := by omega
    have h2 : ¬ ((t.2 : Int) < ((x.stop : Nat) : Int)) := by omega
    have h3 : ¬ (t.2 < x.stop) := by omega
    simp [h, h1, h2, h3]
  · have h1 : ¬ ((x.stop : Nat) : Int) ≤ (t.2 : Int) := by omega
    have h2 : (t.2 : Int) < ((x.stop : Nat) : Int) := by omega
    have h3 : t.2 < x.stop := by omega
    simp [h, h1, h2, h3]

end BV
