/-
  Proofs/Tie_argvCall.lean — source-level ties for `vcs.VCSAPI.__init__` and `vcs.VCSAPI.__call__`
  (generated: Gen/F_argvInit.lean, Gen/F_argvCall.lean; property C12).

  `tie_argvCall` (ALL template tables, command names, environments, keyword dictionaries, worlds and traces):

      VCSAPI.__call__(cmd_name, env, **kwargs)  =  callRef
        = look the template up (KeyError) · format the WHOLE template for the log line (its exception, if any,
          comes first; its value is only logged) · the hand model's `argv` = `shlex.split(TEMPLATE)` FIRST,
          then `.format(**kwargs)` on every token · ONE process with exactly that argument vector, the given
          environment and stderr captured · its output.

  The statement shows WHICH string is split (the template, not the formatted command) and which are formatted
  (its tokens): the pre-repair order `shlex.split(cmd_tmpl.format(**kwargs))` (`argvLegacy`, DESIGN.md D10) is a
  different generated term and `tie_argvCall` fails for it (`Eff.shlexSplit cmd_str`).

  `tie_argvCall_std`: on the GENERATED table (`Gen.vcsTemplates` = `VCS_SUBCOMMANDS_BY_NAME` of the working tree)
  the log line never decides anything — `table_logAgrees`, a `decide` over the regenerated table, says that for
  every template formatting the whole string fails exactly when formatting its tokens fails, with the same
  exception — so `__call__` IS `argv` followed by the process.  No hypothesis on the keyword arguments.
-/
import BumpverVerif.Gen.F_argvInit
import BumpverVerif.Gen.F_argvCall
import BumpverVerif.Gen.VcsTemplates
import BumpverVerif.Proofs.ArgvLemmas
namespace BV.TieK
open BV.TieK.Gen

/-! ### `VCSAPI.__init__` -/

/-- `VCSAPI(name)` with the standard table of that name -/
def VcsApi.std (name : Str) : VcsApi :=
  { name := name, subcommands := (lookup name BV.Gen.vcsTemplates).getD [] }

/-- reference: `subcommands=None` selects `VCS_SUBCOMMANDS_BY_NAME[name]` (KeyError for an unknown name) -/
def initRef (name : Str) (subcommands : Option EnvMap) : Eff VcsApi :=
  match subcommands with
  | some t => Eff.pure { name := name, subcommands := t }
  | none =>
    match lookup name BV.Gen.vcsTemplates with
    | some t => Eff.pure { name := name, subcommands := t }
    | none => Eff.throw .keyError

theorem tie_argvInit (name : Str) (subcommands : Option EnvMap) :
    argvInit name subcommands = initRef name subcommands := by
  funext w s
  unfold argvInit initRef
  cases subcommands with
  | some t => rfl
  | none =>
    simp only [Eff.bind, Eff.dictGet, Eff.ofOption]
    cases lookup name BV.Gen.vcsTemplates <;> rfl

/-- for the two names of the table the constructor yields `VcsApi.std` -/
theorem tie_argvInit_std (name : Str) (h : (lookup name BV.Gen.vcsTemplates).isSome = true) :
    argvInit name none = Eff.pure (VcsApi.std name) := by
  rw [tie_argvInit]
  obtain ⟨t, ht⟩ := Option.isSome_iff_exists.1 h
  simp only [initRef, VcsApi.std, ht, Option.getD_some]

/-! ### `VCSAPI.__call__` -/

/-- the reference definition (see the file header) -/
def callRef (self : VcsApi) (cmd_name : Str) (env : Option EnvMap) (kw : List (Str × Str)) : Eff Str := fun w s =>
  match lookup cmd_name self.subcommands with
  | none => (s, .error .keyError)
  | some tmpl =>
    match pyFormat kw tmpl with                         -- `cmd_str`: formatted as a whole, only logged
    | .error e => (s, .error (stopOfFmt e))
    | .ok _ =>
      match argv tmpl kw with                           -- split the TEMPLATE, format each token
      | .error e => (s, .error (stopOfArgv e))
      | .ok parts => Eff.checkOutput parts env true w s

theorem tie_argvCall (self : VcsApi) (cmd_name : Str) (env : Option EnvMap) (kw : List (Str × Str)) :
    argvCall self cmd_name env kw = callRef self cmd_name env kw := by
  funext w s
  unfold argvCall callRef
  simp only [Eff.bind_pure_right]
  simp only [Eff.bind, Eff.dictGet, Eff.ofOption]
  cases lookup cmd_name self.subcommands with
  | none => rfl
  | some tmpl =>
    simp only [Eff.pure]
    rw [Eff.format_eq tmpl kw]
    cases pyFormat kw tmpl with
    | error e => rfl
    | ok cmd_str =>
      simp only [Eff.ofExcept, Except.mapError, Eff.pure, Eff.shlexSplit, Eff.ofOption, argv]
      cases BV.shlexSplit tmpl with
      | none => rfl
      | some toks =>
        simp only [Eff.pure, Eff.mapM_format]
        cases mapFormat kw toks with
        | error e => rfl
        | ok parts =>
          simp only [Except.mapError, utf8Decode]
          rcases Eff.checkOutput parts env true w s with ⟨s', r⟩
          cases r <;> rfl

/-- the order in which the keyword arguments are written does not matter -/
theorem callRef_kw_congr (self : VcsApi) (cmd_name : Str) (env : Option EnvMap) {kw kw' : List (Str × Str)}
    (h : ∀ k, lookup k kw = lookup k kw') : callRef self cmd_name env kw = callRef self cmd_name env kw' := by
  funext w s
  simp only [callRef, pyFormat_congr h, argv_congr h]

/-! ### on the generated table the log line never decides -/

/-- formatting the whole template and formatting its tokens have the same skeleton -/
def logAgrees (tmpl : Str) : Bool :=
  match BV.shlexSplit tmpl with
  | some toks => decide (fmtSkel tmpl = skelCat toks)
  | none => false

theorem logAgrees_spec {tmpl : Str} (h : logAgrees tmpl = true) (kw : List (Str × Str)) (e : FmtErr)
    (he : pyFormat kw tmpl = .error e) : argv tmpl kw = .error (.fmt e) := by
  unfold logAgrees at h
  unfold argv
  cases hs : BV.shlexSplit tmpl with
  | none => rw [hs] at h; cases h
  | some toks =>
    rw [hs] at h
    have hsk : fmtSkel tmpl = skelCat toks := of_decide_eq_true h
    have h1 := errOf_pyFormat kw tmpl
    rw [he, hsk] at h1
    have h2 := errOf_mapFormat kw toks
    rw [← h1] at h2
    exact errOf_some h2

/-- every template of the working tree has that property (re-checked whenever the table is regenerated) -/
theorem table_logAgrees :
    BV.Gen.vcsTemplates.all (fun vc => vc.2.all (fun ct => logAgrees ct.2)) = true := by
  decide +kernel

theorem lookup_mem {α : Type} {k : Str} {v : α} {l : List (Str × α)} (h : lookup k l = some v) : (k, v) ∈ l := by
  induction l with
  | nil => cases h
  | cons p l ih =>
    obtain ⟨k', v'⟩ := p
    simp only [lookup] at h
    split at h
    · rename_i hk
      cases h; subst hk; simp
    · simp [ih h]

theorem table_logAgrees_of {vcs cmd tmpl : Str} {tbl : List (Str × Str)}
    (h1 : lookup vcs BV.Gen.vcsTemplates = some tbl) (h2 : lookup cmd tbl = some tmpl) : logAgrees tmpl = true := by
  have h := table_logAgrees
  simp only [List.all_eq_true] at h
  exact h _ (lookup_mem h1) _ (lookup_mem h2)

/-- `__call__` on a standard `VCSAPI` object: the hand model's `argv`, then ONE process with that argument
    vector.  For every command of the table, ALL keyword dictionaries (missing keys included), environments,
    worlds and traces. -/
theorem tie_argvCall_std {vcs cmd tmpl : Str} {tbl : List (Str × Str)}
    (h1 : lookup vcs BV.Gen.vcsTemplates = some tbl) (h2 : lookup cmd tbl = some tmpl)
    (env : Option EnvMap) (kw : List (Str × Str)) (w : World) (s : List KEv) :
    argvCall (VcsApi.std vcs) cmd env kw w s =
      match argv tmpl kw with
      | .error e => (s, .error (stopOfArgv e))
      | .ok parts => Eff.checkOutput parts env true w s := by
  rw [tie_argvCall]
  simp only [callRef, VcsApi.std, h1, Option.getD_some, h2]
  cases hp : pyFormat kw tmpl with
  | ok _ => rfl
  | error e => rw [logAgrees_spec (table_logAgrees_of h1 h2) kw e hp]; rfl

/-- … and a command name that is not in the table is a KeyError before anything runs -/
theorem tie_argvCall_std_unknown {vcs cmd : Str} {tbl : List (Str × Str)}
    (h1 : lookup vcs BV.Gen.vcsTemplates = some tbl) (h2 : lookup cmd tbl = none)
    (env : Option EnvMap) (kw : List (Str × Str)) (w : World) (s : List KEv) :
    argvCall (VcsApi.std vcs) cmd env kw w s = (s, .error .keyError) := by
  rw [tie_argvCall]
  simp only [callRef, VcsApi.std, h1, Option.getD_some, h2]

/-- why `callRef` formats the whole template first: on a CUSTOM table the log line can raise although the repaired
    construction would succeed.  Witness on the real code:
    `VCSAPI('git', {'x': "echo {a}'{'{b}'}'"})('x', a='1', b='2')` raises `ValueError: unexpected '{' in field name`
    (from `cmd_str = cmd_tmpl.format(**kwargs)`), while `[p.format(a='1', b='2') for p in shlex.split(tmpl)]` is
    `['echo', '1{b}']`.  On the standard table this cannot happen (`table_logAgrees`). -/
theorem log_line_decides_witness :
    errOf (pyFormat [("a".toList, "1".toList), ("b".toList, "2".toList)] "echo {a}'{'{b}'}'".toList) = some .unsupported
      ∧ argv "echo {a}'{'{b}'}'".toList [("a".toList, "1".toList), ("b".toList, "2".toList)]
          = .ok ["echo".toList, "1{b}".toList]
      ∧ logAgrees "echo {a}'{'{b}'}'".toList = false := by
  refine ⟨?_, ?_, ?_⟩ <;> decide +kernel

/-- the repaired defect (D10), stated on the reference: the pre-repair order lets a VALUE change the argument
    vector; with `argv` it cannot (Props/C12.lean `C12_legacy_injection_witness` is the model-level witness) -/
example : argvLegacy "git commit --message '{message}'".toList [("message".toList, "a' --amend '".toList)]
    ≠ argv "git commit --message '{message}'".toList [("message".toList, "a' --amend '".toList)] := by
  decide +kernel

end BV.TieK
