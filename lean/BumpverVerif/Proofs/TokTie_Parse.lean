/-
  Proofs/TokTie_Parse.lean — the structural regex source of a pattern tree parses to the structural
  compilation of the tree:

      parse_regexText : p.shapeOk = true → parseRe (Pat.regexText p) = Pat.compile p

  Facts about the generated tables (`Gen.partPatterns`, `Gen.partFields`, `Gen.rePatternEscapes`) are obtained by
  `decide` over the whole table and lifted to entries (`partPatterns_parse`, `partFields_noGt`,
  `patEscChars_eq`): a table edit that breaks one of them breaks the build at that `decide`.

  No Mathlib.
-/
import BumpverVerif.Model.PatText
import BumpverVerif.Proofs.TokTie_ParseGen
namespace BV

/-! ### table facts (by evaluation over the generated tables) -/

/-- every part regex is inside the parsed fragment -/
theorem partPatterns_parse : Gen.partPatterns.all (fun e => (parseRe e.2).isSome) = true := by
  decide +kernel

/-- no field name contains `>` (the group name ends at the first `>`) -/
theorem partFields_noGt : Gen.partFields.all (fun e => !e.2.contains '>') = true := by decide

/-- the escaped characters are the ones of Proofs/PatternLemmas.lean -/
private theorem patEscChars_eq : patEscChars = escList := by decide

private theorem lookup_mem {α} {k : Str} {l : List (Str × α)} {v : α} (h : lookup k l = some v) :
    ∃ e ∈ l, e.2 = v := by
  induction l with
  | nil => simp [lookup] at h
  | cons e l ih =>
    obtain ⟨k', v'⟩ := e
    simp only [lookup] at h
    split at h
    · cases h
      exact ⟨(k', v), List.mem_cons_self, rfl⟩
    · obtain ⟨e, he, hv⟩ := ih h
      exact ⟨e, List.mem_cons_of_mem _ he, hv⟩

theorem rx_parses {n rx : Str} (h : lookup n Gen.partPatterns = some rx) : ∃ a, parseRe rx = some a := by
  obtain ⟨e, he, rfl⟩ := lookup_mem h
  have := List.all_eq_true.mp partPatterns_parse e he
  exact Option.isSome_iff_exists.mp this

theorem field_noGt {n fld : Str} (h : lookup n Gen.partFields = some fld) : '>' ∉ fld := by
  obtain ⟨e, he, rfl⟩ := lookup_mem h
  have := List.all_eq_true.mp partFields_noGt e he
  simpa using this

private theorem regexLit_eq (c : Char) : regexLit c = encChar c := by
  unfold regexLit encChar
  rw [patEscChars_eq]

private theorem litOk_eq (c : Char) : litOk c = litChar c := rfl

/-! ### small facts -/

theorem seqR_eq_seqc (a b : Re) : seqR a b = seqc a b := by
  cases b <;> rfl

theorem repeatable_seqc (a b : Re) (ha : repeatable a = true) : repeatable (seqc a b) = true := by
  cases b <;> first | exact ha | rfl

/-- one step of `parseSeq` with an explicit quantifier result -/
theorem parseSeq_stepQ (f : Nat) (c : Char) (s' r r' : Str) (a q : Re) (h1 : c ≠ '|') (h2 : c ≠ ')')
    (ha : parseAtom f (c :: s') = some (a, r)) (hq : parseQuant a r = some (q, r')) :
    parseSeq (f + 1) (c :: s') = (parseSeq f r').map (fun br => (seqc q br.1, br.2)) := by
  rw [parseSeq_cons _ _ _ h1 h2, seqBody_eq, ha]
  simp only [Option.bind_some, hq]

theorem qFinish_quantFree (q : Re) (r : Str) (h : quantFree r = true) : qFinish q r = some (q, r) := by
  cases r with
  | nil => rfl
  | cons c r =>
    simp only [quantFree, Bool.and_eq_true, bne_iff_ne, ne_eq] at h
    unfold qFinish
    split <;> simp_all

theorem parseQuant_opt (a : Re) (r : Str) (ha : repeatable a = true) (h : quantFree r = true) :
    parseQuant a ('?' :: r) = some (.rep a 0 (some 1), r) := by
  rw [parseQuant_eq]
  simp only [quantBody, ha, if_true]
  exact qFinish_quantFree _ _ h

/-! ### text shapes -/

theorem groupText_append (n Y : Str) :
    groupText n ++ Y = '(' :: '?' :: 'P' :: '<' :: (fieldOf n ++ '>' :: (rxOf n ++ ')' :: Y)) := by
  have e1 : "(?P<".toList = ['(', '?', 'P', '<'] := rfl
  have e2 : ">".toList = ['>'] := rfl
  have e3 : ")".toList = [')'] := rfl
  unfold groupText
  rw [e1, e2, e3]
  simp only [List.append_assoc, List.cons_append, List.nil_append]

theorem optText_append (b r Y : Str) :
    "(?:".toList ++ (b ++ (")?".toList ++ r)) ++ Y = '(' :: '?' :: ':' :: (b ++ ')' :: '?' :: (r ++ Y)) := by
  have e1 : "(?:".toList = ['(', '?', ':'] := rfl
  have e2 : ")?".toList = [')', '?'] := rfl
  simp only [e1, e2, List.append_assoc, List.cons_append, List.nil_append]

/-- the text of a tree followed by an admissible tail never starts with a quantifier character -/
theorem quantFree_regexText (p : Pat) (tail : Str) (h : p.shapeOk = true) (ht : okTail tail) :
    quantFree (Pat.regexText p ++ tail) = true := by
  cases p with
  | done =>
    rcases ht with rfl | ⟨t', rfl⟩ <;> rfl
  | lit c rest =>
    simp only [Pat.shapeOk, Bool.and_eq_true] at h
    simp only [Pat.regexText, regexLit_eq, List.append_assoc]
    obtain ⟨x, r', e, hx⟩ := encChar_head c (Pat.regexText rest ++ tail) (by rw [← litOk_eq]; exact h.1)
    rw [e]
    simp [quantFree, hx]
  | part n rest =>
    simp only [Pat.regexText, groupText_append]
    rfl
  | opt b rest =>
    simp only [Pat.regexText, optText_append]
    rfl

/-! ### fuel -/

/-- fuel that suffices for `parseSeq` on the text of a tree -/
def seqNeed : Pat → Nat
  | .done => 1
  | .lit _ r => seqNeed r + 1
  | .part n r => max (seqNeed r) (3 * (rxOf n).length + 4) + 1
  | .opt b r => max (seqNeed r) (seqNeed b + 2) + 1

theorem encChar_length_pos (c : Char) : 1 ≤ (encChar c).length := by
  rcases encChar_cases c with ⟨e, -⟩ | ⟨e, -⟩ <;> rw [e] <;> simp

theorem seqNeed_le (p : Pat) : seqNeed p ≤ 3 * (Pat.regexText p).length + 1 := by
  induction p with
  | done => simp [seqNeed]
  | lit c rest ih =>
    have := encChar_length_pos c
    simp only [seqNeed, Pat.regexText, regexLit_eq, List.length_append]
    omega
  | part n rest ih =>
    have h := congrArg List.length (groupText_append n (Pat.regexText rest))
    simp only [List.length_append, List.length_cons] at h
    simp only [seqNeed, Pat.regexText, List.length_append]
    omega
  | opt b rest ihb ihr =>
    have h : ("(?:".toList ++ (Pat.regexText b ++ (")?".toList ++ Pat.regexText rest))).length =
        (Pat.regexText b).length + (Pat.regexText rest).length + 5 := by
      have e1 : "(?:".toList.length = 3 := rfl
      have e2 : ")?".toList.length = 2 := rfl
      simp only [List.length_append, e1, e2]
      omega
    simp only [seqNeed, Pat.regexText, h]
    omega

/-! ### composition -/

/-- what `parseSeq` does on the text of a tree in front of an admissible tail -/
def SeqOk (p : Pat) (c : Re) : Prop :=
  ∀ tail, okTail tail → ∀ f, seqNeed p ≤ f → parseSeq f (Pat.regexText p ++ tail) = some (c, tail)

theorem seqOk_done : SeqOk .done .eps := by
  intro tail ht f hf
  obtain ⟨g, rfl⟩ : ∃ g, f = g + 1 := ⟨f - 1, by simp only [seqNeed] at hf; omega⟩
  rcases ht with rfl | ⟨t', rfl⟩ <;> rfl

theorem seqOk_lit (c : Char) (rest : Pat) (cr : Re) (hc : litOk c = true) (hr : rest.shapeOk = true)
    (ih : SeqOk rest cr) : SeqOk (.lit c rest) (seqc (.chr c) cr) := by
  intro tail ht f hf
  have hn : 1 ≤ seqNeed rest := by cases rest <;> simp [seqNeed]
  simp only [seqNeed] at hf
  obtain ⟨g, rfl⟩ : ∃ g, f = g + 1 + 1 := ⟨f - 2, by omega⟩
  have hc' : litChar c = true := by rw [← litOk_eq]; exact hc
  simp only [Pat.regexText, regexLit_eq, List.append_assoc]
  have hs : match encChar c ++ (Pat.regexText rest ++ tail) with
      | [] => False | x :: _ => x ≠ '|' ∧ x ≠ ')' := by
    obtain ⟨x, r', e, h⟩ := encChar_head c (Pat.regexText rest ++ tail) hc'
    rw [e]; exact ⟨h.1, h.2.1⟩
  rw [parseSeq_step _ _ _ _ hs (parseAtom_encChar _ c _ hc') (quantFree_regexText rest tail hr ht),
    ih tail ht (g + 1) (by omega)]
  rfl

theorem seqOk_part (n : Str) (rest : Pat) (a cr : Re) (rx fld : Str)
    (h1 : lookup n Gen.partPatterns = some rx) (h2 : lookup n Gen.partFields = some fld)
    (ha : parseRe rx = some a) (hr : rest.shapeOk = true)
    (ih : SeqOk rest cr) : SeqOk (.part n rest) (seqc (.grp fld a) cr) := by
  intro tail ht f hf
  have erx : rxOf n = rx := by simp [rxOf, h1]
  have efl : fieldOf n = fld := by simp [fieldOf, h2]
  simp only [seqNeed, erx] at hf
  obtain ⟨g, rfl⟩ : ∃ g, f = g + 1 + 1 + 1 := ⟨f - 3, by omega⟩
  have etxt : Pat.regexText (.part n rest) ++ tail = groupText n ++ (Pat.regexText rest ++ tail) := by
    simp only [Pat.regexText, List.append_assoc]
  rw [etxt, groupText_append, erx, efl]
  have hat : parseAtom (g + 1 + 1)
      ('(' :: '?' :: 'P' :: '<' :: (fld ++ '>' :: (rx ++ ')' :: (Pat.regexText rest ++ tail)))) =
      some (.grp fld a, Pat.regexText rest ++ tail) := by
    have hN := takeName_spec [] fld (rx ++ ')' :: (Pat.regexText rest ++ tail)) (field_noGt h2)
    have hA := parseRe_closed ha (g + 1) (by omega) (Pat.regexText rest ++ tail)
    simp only [List.reverse_nil, List.nil_append] at hN
    simp only [parseAtom, hN, hA]
  rw [parseSeq_stepQ _ _ _ _ _ _ _ (by decide) (by decide) hat
      (parseQuant_none _ _ (quantFree_regexText rest tail hr ht)),
    ih tail ht (g + 1 + 1) (by omega)]
  rfl

theorem seqOk_opt (b rest : Pat) (cb cr : Re) (hb : repeatable cb = true) (hr : rest.shapeOk = true)
    (ihb : SeqOk b cb) (ih : SeqOk rest cr) :
    SeqOk (.opt b rest) (seqc (.rep cb 0 (some 1)) cr) := by
  intro tail ht f hf
  simp only [seqNeed] at hf
  obtain ⟨g, rfl⟩ : ∃ g, f = g + 1 + 1 + 1 := ⟨f - 3, by omega⟩
  simp only [Pat.regexText, optText_append]
  have hB := ihb (')' :: '?' :: (Pat.regexText rest ++ tail)) (okTail_close _) g (by omega)
  have hat : parseAtom (g + 1 + 1)
      ('(' :: '?' :: ':' :: (Pat.regexText b ++ ')' :: '?' :: (Pat.regexText rest ++ tail))) =
      some (cb, '?' :: (Pat.regexText rest ++ tail)) := by
    have hA : parseAlt (g + 1) (Pat.regexText b ++ ')' :: '?' :: (Pat.regexText rest ++ tail)) =
        some (cb, ')' :: '?' :: (Pat.regexText rest ++ tail)) := by
      rw [parseAlt_succ, hB]
      rfl
    simp only [parseAtom, hA]
  rw [parseSeq_stepQ _ _ _ _ _ _ _ (by decide) (by decide) hat
      (parseQuant_opt cb _ hb (quantFree_regexText rest tail hr ht)),
    ih tail ht (g + 1 + 1) (by omega)]
  rfl

/-- composition: under `shapeOk` the tree compiles, and `parseSeq` reads its text as that regex -/
theorem compile_seqOk (p : Pat) (h : p.shapeOk = true) :
    ∃ c, Pat.compile p = some c ∧ ((match p with | .done => False | _ => True) → repeatable c = true) ∧
      SeqOk p c := by
  induction p with
  | done => exact ⟨.eps, rfl, fun h => h.elim, seqOk_done⟩
  | lit c rest ih =>
    simp only [Pat.shapeOk, Bool.and_eq_true] at h
    obtain ⟨cr, e, -, hS⟩ := ih h.2
    refine ⟨seqc (.chr c) cr, ?_, fun _ => repeatable_seqc _ _ rfl, seqOk_lit c rest cr h.1 h.2 hS⟩
    simp [Pat.compile, e, seqR_eq_seqc]
  | part n rest ih =>
    simp only [Pat.shapeOk, Bool.and_eq_true] at h
    obtain ⟨⟨h1, h2⟩, h3⟩ := h
    obtain ⟨cr, e, -, hS⟩ := ih h3
    obtain ⟨rx, h1⟩ := Option.isSome_iff_exists.mp h1
    obtain ⟨fld, h2⟩ := Option.isSome_iff_exists.mp h2
    obtain ⟨a, ha⟩ := rx_parses h1
    refine ⟨seqc (.grp fld a) cr, ?_, fun _ => repeatable_seqc _ _ rfl,
      seqOk_part n rest a cr rx fld h1 h2 ha h3 hS⟩
    simp [Pat.compile, partReOf, h1, h2, ha, e, seqR_eq_seqc]
  | opt b rest ihb ihr =>
    simp only [Pat.shapeOk, Bool.and_eq_true] at h
    obtain ⟨⟨h1, h2⟩, h3⟩ := h
    obtain ⟨cb, eb, hrep, hSb⟩ := ihb h2
    obtain ⟨cr, er, -, hSr⟩ := ihr h3
    have hb : repeatable cb = true := by
      apply hrep
      cases b <;> simp_all
    refine ⟨seqc (.rep cb 0 (some 1)) cr, ?_, fun _ => repeatable_seqc _ _ rfl,
      seqOk_opt b rest cb cr hb h3 hSb hSr⟩
    simp [Pat.compile, eb, er, seqR_eq_seqc]

/-- a well-shaped tree compiles -/
theorem compile_isSome (p : Pat) (h : p.shapeOk = true) : (Pat.compile p).isSome = true := by
  obtain ⟨c, e, -, -⟩ := compile_seqOk p h
  simp [e]

/-- `parseSeq`/`parseAlt` on the text of a tree in front of `)` or at the end, any sufficient fuel -/
theorem parseSeq_regexText (p : Pat) (h : p.shapeOk = true) (tail : Str) (ht : okTail tail)
    (f : Nat) (hf : seqNeed p ≤ f) :
    parseSeq f (Pat.regexText p ++ tail) = (Pat.compile p).map (fun c => (c, tail)) := by
  obtain ⟨c, e, -, hS⟩ := compile_seqOk p h
  rw [e, hS tail ht f hf]
  rfl

/-- THE TIE: the structural regex source parses to the structural compilation -/
theorem parse_regexText (p : Pat) (h : p.shapeOk = true) : parseRe (Pat.regexText p) = Pat.compile p := by
  obtain ⟨c, e, -, hS⟩ := compile_seqOk p h
  have hn := seqNeed_le p
  have hP := hS [] okTail_nil (3 * (Pat.regexText p).length + 2) (by omega)
  rw [List.append_nil] at hP
  have hA := parseAlt_of_parseSeq _ _ _ hP
  rw [e]
  unfold parseRe
  have e3 : 3 * (Pat.regexText p).length + 3 = 3 * (Pat.regexText p).length + 2 + 1 := rfl
  rw [e3, hA]

end BV
