/-
  Proofs/Tie_v1IterRewritten.lean — the definition GENERATED from the Python source of
  `v1rewrite.iter_rewritten` (Gen/F_v1IterRewritten.lean: the generator run to exhaustion, with the lazily
  consumed generator `rewrite.iter_path_patterns_items` inlined) against the hand model `v1PlanWrites`:
  it leaves the file system as it is, and the list of records it yields is, file by file, what the model
  plans to write — or it fails with the model's error at the model's file.

  The proof asks of ONE iteration only that it does not touch the file system and appends the record of
  the file (path, separator, split content, the model's `v1RewriteLines` of it) or fails as the model does.
  The fold lemmas are stated for EVERY engine (`TieM.planRfds…`).
-/
import BumpverVerif.Gen.F_v1IterRewritten
import BumpverVerif.Proofs.Tie_v1RfdFromContent
import BumpverVerif.Proofs.Tie_iterRewritten
namespace BV

open GenF (PatternMatch Pattern RewrittenFileData)

namespace TieM

/-- every configured pattern was made by the legacy compiler -/
def WfFilePatterns1 (fp : List (Str × List Pattern)) : Prop := ∀ it ∈ fp, ∀ p ∈ it.2, Wf1 p

/-- one iteration of `iter_rewritten`, run to exhaustion: the record of one configured file is appended -/
def stepRfds {V : Type} (E : RwEngine V) (v : V) (fs : FS) (it : Str × List Pattern) (acc : List RewrittenFileData) :
    Except RwErr (List RewrittenFileData) :=
  match lookup it.1 fs with
  | none => .error .missingFile
  | some c =>
    (E.rewriteLines (it.2.map Pattern.abs) v (splitOn (detectLineSep c) c)).map
      (fun nl => acc ++ [rfdOf it.1 c nl])

/-- all iterations -/
def planRfds {V : Type} (E : RwEngine V) (v : V) (fs : FS) : List (Str × List Pattern) → List RewrittenFileData →
    Except RwErr (List RewrittenFileData)
  | [], acc => .ok acc
  | it :: rest, acc =>
    match stepRfds E v fs it acc with
    | .error e => .error e
    | .ok acc' => planRfds E v fs rest acc'

/-- a loop whose body does not touch the file system and appends the record of the file -/
theorem pyForFS_eq_planRfds {V : Type} (E : RwEngine V) (v : V) (Ok : Str × List Pattern → Prop)
    (body : Str × List Pattern → List RewrittenFileData → FS → FS × Except RwErr (List RewrittenFileData))
    (hb : ∀ it acc fs, Ok it → body it acc fs = (fs, stepRfds E v fs it acc))
    (l : List (Str × List Pattern)) (hwf : ∀ it ∈ l, Ok it) (acc : List RewrittenFileData) (fs : FS) :
    GenF.pyForFS l body acc fs = (fs, planRfds E v fs l acc) := by
  induction l generalizing acc with
  | nil => rfl
  | cons it l ih =>
    rw [GenF.pyForFS_cons, hb it acc fs (hwf it List.mem_cons_self)]
    simp only [planRfds]
    cases stepRfds E v fs it acc with
    | error e => rfl
    | ok acc' => exact ih (fun x hx => hwf x (List.mem_cons_of_mem _ hx)) acc'

/-- the records are, file by file, what the model plans to write -/
theorem planRfds_planWrites {V : Type} (E : RwEngine V) (v : V) (fs : FS) (l : List (Str × List Pattern))
    (acc : List RewrittenFileData) :
    (planRfds E v fs l acc).map (List.map RewrittenFileData.toWrite) =
      (E.planWrites fs v (GenF.absFilePatterns l)).map (fun ws => acc.map RewrittenFileData.toWrite ++ ws) := by
  induction l generalizing acc with
  | nil => simp [planRfds, GenF.absFilePatterns, RwEngine.planWrites, Except.map]
  | cons it l ih =>
    have hcons : GenF.absFilePatterns (it :: l) = (it.1, it.2.map Pattern.abs) :: GenF.absFilePatterns l := rfl
    rw [hcons, RwEngine.planWrites_cons]
    simp only [planRfds, stepRfds, RwEngine.rewriteContent]
    cases lookup it.1 fs with
    | none => rfl
    | some c =>
      simp only []
      cases E.rewriteLines (it.2.map Pattern.abs) v (splitOn (detectLineSep c) c) with
      | error e => rfl
      | ok nl =>
        have := ih (acc ++ [rfdOf it.1 c nl])
        simp only [Except.map] at this ⊢
        rw [this]
        cases E.planWrites fs v (GenF.absFilePatterns l) <;>
          simp [RewrittenFileData.toWrite, RewrittenFileData.newContent, rfdOf]

end TieM

/-- `v1rewrite.iter_rewritten` run to exhaustion: the file system is untouched, the result is `planRfds` -/
theorem tie_v1IterRewritten (file_patterns : List (Str × List Pattern)) (new_vinfo : V1Info) (fs : FS)
    (hwf : TieM.WfFilePatterns1 file_patterns) :
    GenF.v1IterRewritten file_patterns new_vinfo fs
      = (fs, TieM.planRfds v1Engine new_vinfo fs file_patterns []) := by
  unfold GenF.v1IterRewritten
  simp only []
  rw [TieM.pyForFS_eq_planRfds v1Engine new_vinfo (fun it => ∀ p ∈ it.2, TieM.Wf1 p) _ ?hb file_patterns hwf]
  case hb =>
    intro it acc fs' hit
    simp only [GenF.pyExists, GenF.pyRead, TieM.stepRfds]
    have hl : lookup it.1 fs' = none ∨ ∃ c, lookup it.1 fs' = some c := by
      cases lookup it.1 fs' <;> simp
    rcases hl with hl | ⟨content, hl⟩
    · simp [hl]
    · simp only [hl, Option.isSome_some, if_true, tie_v1RfdFromContent it.2 new_vinfo content _ hit, v1RewriteLines]
      cases v1Engine.rewriteLines (it.2.map Pattern.abs) new_vinfo (splitOn (detectLineSep content) content) <;> rfl
  cases TieM.planRfds v1Engine new_vinfo fs file_patterns [] <;> rfl

/-- … and that is the model's `v1PlanWrites` -/
theorem tie_v1IterRewritten_planWrites (file_patterns : List (Str × List Pattern)) (new_vinfo : V1Info) (fs : FS)
    (hwf : TieM.WfFilePatterns1 file_patterns) :
    (GenF.v1IterRewritten file_patterns new_vinfo fs).1 = fs ∧
    ((GenF.v1IterRewritten file_patterns new_vinfo fs).2).map (List.map RewrittenFileData.toWrite)
      = v1PlanWrites fs new_vinfo (GenF.absFilePatterns file_patterns) := by
  rw [tie_v1IterRewritten _ _ _ hwf]
  refine ⟨rfl, ?_⟩
  simp only []
  rw [TieM.planRfds_planWrites]
  unfold v1PlanWrites
  cases v1Engine.planWrites fs new_vinfo (GenF.absFilePatterns file_patterns) <;> simp [Except.map]

end BV
