/-
  Proofs/Tie_rewritePrelude.lean — the abstraction from the GENERATED record types of the rewrite
  path (Gen/F_rewriteTypes.lean: `GenF.Pattern`, `GenF.PatternMatch`, `GenF.RewrittenFileData`) to the
  hand model's types (`CPat`, `PMatch`), the well-formedness of a compiled pattern, and lemmas about the
  trusted primitives of the translation (`pySearch`, `PyMatch.group0`, `pyEnumerate`, sets, `pySortedBy`,
  `pyGetItem`/`pySetItem`, `pyForE`/`pyForFS`).  Used by the ties Tie_iterForPattern … Tie_diff.
-/
import BumpverVerif.Gen.F_rewriteTypes
import BumpverVerif.Model.Rewrite
import BumpverVerif.Proofs.RewriteLemmas
namespace BV

/-! ### abstraction -/

/-- `patterns.Pattern` ↦ the model's compiled pattern (the regexp is forgotten: it is determined by
    the normalized raw pattern, see `Pattern.Wf`) -/
def GenF.Pattern.abs (p : GenF.Pattern) : CPat := { vp := p.version_pattern, raw := p.raw_pattern }

/-- `parse.PatternMatch` ↦ the model's match (the line text and the matched text are forgotten) -/
def GenF.PatternMatch.abs (m : GenF.PatternMatch) : PMatch :=
  { lineno := m.lineno, pat := m.pattern.abs, start := m.span.1, stop := m.span.2 }

/-- a `Pattern` as `v2patterns.compile_pattern` builds it: `regexp` is the compilation of
    `raw_pattern` (which is already normalized) -/
def GenF.Pattern.Wf (p : GenF.Pattern) : Prop := compileRe p.raw_pattern = some p.regexp

theorem GenF.Pattern.abs_inj {p q : GenF.Pattern} (hp : p.Wf) (hq : q.Wf) (h : p.abs = q.abs) : p = q := by
  cases p; cases q
  simp only [GenF.Pattern.abs, CPat.mk.injEq] at h
  obtain ⟨h1, h2⟩ := h
  simp only [GenF.Pattern.Wf] at hp hq
  subst h1 h2
  rw [hp] at hq
  cases hq
  rfl

/-! ### `regexp.search`, `m.group(0)` -/

theorem GenF.pySearch_eq_none {r : Re} {s : Str} : GenF.pySearch r s = none ↔ reSearch r s = none := by
  simp [GenF.pySearch]

theorem GenF.pySearch_eq_some {r : Re} {s : Str} {m : GenF.PyMatch} (h : GenF.pySearch r s = some m) :
    ∃ mm, reSearch r s = some mm ∧ m.string = s ∧ m.start = mm.start ∧ m.stop = mm.stop ∧
      mm.start ≤ mm.stop ∧ mm.stop ≤ s.length := by
  simp only [GenF.pySearch, Option.map_eq_some_iff] at h
  obtain ⟨mm, h1, rfl⟩ := h
  have := searchGo_bounds r 0 s mm h1
  exact ⟨mm, h1, rfl, rfl, rfl, this.2.1, by omega⟩

/-- `len(m.group(0))` is the width of the span -/
theorem GenF.group0_length {r : Re} {s : Str} {m : GenF.PyMatch} (h : GenF.pySearch r s = some m) :
    m.group0.length = m.stop - m.start := by
  obtain ⟨mm, -, h2, h3, h4, h5, h6⟩ := GenF.pySearch_eq_some h
  simp only [GenF.PyMatch.group0, List.length_take, List.length_drop, h2]
  omega

/-! ### `enumerate` -/

theorem GenF.pyEnumerateFrom_cons {α : Type} (n : Nat) (x : α) (xs : List α) :
    GenF.pyEnumerateFrom n (x :: xs) = (n, x) :: GenF.pyEnumerateFrom (n + 1) xs := rfl

/-! ### sets (duplicate free lists) -/

theorem GenF.mem_pySetAdd {α : Type} [BEq α] [LawfulBEq α] {s : List α} {x y : α} :
    y ∈ GenF.pySetAdd s x ↔ y ∈ s ∨ y = x := by
  unfold GenF.pySetAdd
  split
  · rename_i h
    have := List.contains_iff_mem.1 h
    constructor
    · exact fun h => .inl h
    · rintro (h | rfl) <;> assumption
  · simp

theorem GenF.mem_foldl_pySetAdd {α β : Type} [BEq α] [LawfulBEq α] (f : β → α) (l : List β) (s : List α) (y : α) :
    y ∈ l.foldl (fun acc b => GenF.pySetAdd acc (f b)) s ↔ y ∈ s ∨ ∃ b ∈ l, f b = y := by
  induction l generalizing s with
  | nil => simp
  | cons b l ih =>
    rw [List.foldl_cons, ih, GenF.mem_pySetAdd]
    constructor
    · rintro ((h | rfl) | ⟨c, hc, rfl⟩)
      · exact .inl h
      · exact .inr ⟨b, List.mem_cons_self, rfl⟩
      · exact .inr ⟨c, List.mem_cons_of_mem _ hc, rfl⟩
    · rintro (h | ⟨c, hc, rfl⟩)
      · exact .inl (.inl h)
      · rcases List.mem_cons.1 hc with rfl | hc
        · exact .inl (.inr rfl)
        · exact .inr ⟨c, hc, rfl⟩

theorem GenF.mem_pySetOfList {α : Type} [BEq α] [LawfulBEq α] (l : List α) (y : α) :
    y ∈ GenF.pySetOfList l ↔ y ∈ l := by
  have := GenF.mem_foldl_pySetAdd (fun x : α => x) l [] y
  simpa [GenF.pySetOfList] using this

theorem GenF.pySetEq_iff {α : Type} [BEq α] [LawfulBEq α] (a b : List α) :
    GenF.pySetEq a b = true ↔ (∀ x, x ∈ a ↔ x ∈ b) := by
  simp only [GenF.pySetEq, Bool.and_eq_true, List.all_eq_true, List.contains_iff_mem]
  constructor
  · rintro ⟨h1, h2⟩ x
    exact ⟨h1 x, h2 x⟩
  · intro h
    exact ⟨fun x hx => (h x).1 hx, fun x hx => (h x).2 hx⟩

theorem GenF.pySetEq_comm {α : Type} [BEq α] (a b : List α) : GenF.pySetEq a b = GenF.pySetEq b a := by
  simp only [GenF.pySetEq, Bool.and_comm]

/-! ### `sorted(…, key=lambda m: (m.lineno, -m.span[0]))` against the model's `sortMatches` -/

/-- the test of the model's `insertMatch` -/
def mltB (x y : PMatch) : Bool := x.lineno < y.lineno || (x.lineno == y.lineno && x.start > y.start)

theorem insertMatch_cons (x y : PMatch) (ys : List PMatch) :
    insertMatch x (y :: ys) = if mltB x y then x :: y :: ys else y :: insertMatch x ys := rfl

theorem GenF.mem_pyInsertBy {α : Type} (le : α → α → Bool) (x y : α) (ys : List α) :
    y ∈ GenF.pyInsertBy le x ys ↔ y = x ∨ y ∈ ys := by
  induction ys with
  | nil => simp [GenF.pyInsertBy]
  | cons z zs ih =>
    simp only [GenF.pyInsertBy]
    split
    · simp
    · simp only [List.mem_cons, ih]
      constructor
      · rintro (h | h | h) <;> simp [h]
      · rintro (h | h | h) <;> simp [h]

theorem GenF.mem_foldr_pyInsertBy {α : Type} (le : α → α → Bool) (y : α) (l : List α) :
    y ∈ l.foldr (GenF.pyInsertBy le) [] ↔ y ∈ l := by
  induction l with
  | nil => simp
  | cons x l ih => simp [GenF.mem_pyInsertBy, ih]

theorem GenF.map_pyInsertBy (le : GenF.PatternMatch → GenF.PatternMatch → Bool) (x : GenF.PatternMatch)
    (ys : List GenF.PatternMatch) (h : ∀ y ∈ ys, le x y = mltB x.abs y.abs) :
    (GenF.pyInsertBy le x ys).map GenF.PatternMatch.abs = insertMatch x.abs (ys.map GenF.PatternMatch.abs) := by
  induction ys with
  | nil => rfl
  | cons y ys ih =>
    simp only [GenF.pyInsertBy, List.map_cons, insertMatch_cons, h y List.mem_cons_self]
    split
    · rfl
    · simp only [List.map_cons, ih (fun z hz => h z (List.mem_cons_of_mem _ hz))]

/-- on a list whose elements are pairwise comparable as the model compares them, Python's stable sort
    and the model's insertion sort agree -/
theorem GenF.map_pySorted (le : GenF.PatternMatch → GenF.PatternMatch → Bool) (l : List GenF.PatternMatch)
    (h : l.Pairwise (fun x y => le x y = mltB x.abs y.abs)) :
    (l.foldr (GenF.pyInsertBy le) []).map GenF.PatternMatch.abs = sortMatches (l.map GenF.PatternMatch.abs) := by
  induction l with
  | nil => rfl
  | cons x l ih =>
    rw [List.pairwise_cons] at h
    simp only [List.foldr_cons, List.map_cons, sortMatches]
    rw [GenF.map_pyInsertBy]
    · rw [ih h.2]; rfl
    · intro y hy
      exact h.1 y ((GenF.mem_foldr_pyInsertBy le y l).1 hy)

/-! ### loops that can raise -/

theorem GenF.pyForE_nil {β σ ε : Type} (body : β → σ → Except ε σ) (init : σ) :
    GenF.pyForE [] body init = .ok init := rfl

theorem GenF.pyForE_cons {β σ ε : Type} (x : β) (xs : List β) (body : β → σ → Except ε σ) (init : σ) :
    GenF.pyForE (x :: xs) body init =
      match body x init with
      | .error e => .error e
      | .ok st => GenF.pyForE xs body st := rfl

theorem GenF.pyForFS_nil {β σ ε : Type} (body : β → σ → FS → FS × Except ε σ) (init : σ) (fs : FS) :
    GenF.pyForFS [] body init fs = (fs, .ok init) := rfl

theorem GenF.pyForFS_cons {β σ ε : Type} (x : β) (xs : List β) (body : β → σ → FS → FS × Except ε σ)
    (init : σ) (fs : FS) :
    GenF.pyForFS (x :: xs) body init fs =
      match body x init fs with
      | (fs', .error e) => (fs', .error e)
      | (fs', .ok st) => GenF.pyForFS xs body st fs' := rfl

/-- a loop whose body hands the file system on unchanged leaves it unchanged -/
theorem GenF.pyForFS_fst {β σ ε : Type} (body : β → σ → FS → FS × Except ε σ)
    (h : ∀ x st fs, (body x st fs).1 = fs) (l : List β) (st : σ) (fs : FS) :
    (GenF.pyForFS l body st fs).1 = fs := by
  induction l generalizing st with
  | nil => rfl
  | cons x l ih =>
    rw [GenF.pyForFS_cons]
    have hx := h x st fs
    cases hb : body x st fs with
    | mk fs' r =>
      rw [hb] at hx
      simp only at hx
      subst hx
      cases r with
      | error e => rfl
      | ok st' => exact ih st'

/-! ### `xs[i]`, `xs[i] = v` inside the list -/

theorem GenF.pyGetItem_lt {α : Type} (xs : List α) (i : Nat) (d : α) (h : i < xs.length) :
    GenF.pyGetItem xs i = .ok (xs.getD i d) := by
  simp [GenF.pyGetItem, List.getD, List.getElem?_eq_getElem h]

theorem GenF.pySetItem_lt {α : Type} (xs : List α) (i : Nat) (v : α) (h : i < xs.length) :
    GenF.pySetItem xs i v = .ok (xs.set i v) := by
  simp [GenF.pySetItem, h]

end BV
