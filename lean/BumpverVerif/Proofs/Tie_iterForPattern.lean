/-
  Proofs/Tie_iterForPattern.lean — the definition GENERATED from the Python source of
  `parse._iter_for_pattern` (Gen/F_iterForPattern.lean, the generator run to exhaustion) equals the
  hand model `BV.iterForPatternGo`, through the abstraction `PatternMatch.abs`, for every regex,
  every pattern and every list of lines.

  The proof never looks at the SHAPE of the generated loop body: `foldl_enumerate_tie` asks only that
  ONE iteration, as a function of the accumulator, line number and line, appends what one step of the
  model appends; that obligation is discharged by case distinction (`split`) and the lemma
  `group0_length` (`len(m.group(0))` = width of the span).
-/
import BumpverVerif.Gen.F_iterForPattern
import BumpverVerif.Proofs.Tie_rewritePrelude
namespace BV

/-- what one line contributes in the model -/
def iterForPatternStep (r : Re) (p : CPat) (n : Nat) (line : Str) : List PMatch :=
  match reSearch r line with
  | some m => if m.stop > m.start then [{ lineno := n, pat := p, start := m.start, stop := m.stop }] else []
  | none => []

theorem iterForPatternGo_cons (r : Re) (p : CPat) (n : Nat) (line : Str) (rest : List Str) :
    iterForPatternGo r p n (line :: rest) = iterForPatternStep r p n line ++ iterForPatternGo r p (n + 1) rest := by
  simp only [iterForPatternGo, iterForPatternStep]
  cases reSearch r line with
  | none => simp
  | some m => by_cases h : m.stop > m.start <;> simp [h]

/-- a fold over `enumerate(lines)` whose step appends the model's step is the model's loop -/
theorem foldl_enumerate_tie (r : Re) (p : CPat)
    (f : List GenF.PatternMatch → Nat × Str → List GenF.PatternMatch)
    (hf : ∀ acc n line, (f acc (n, line)).map GenF.PatternMatch.abs
      = acc.map GenF.PatternMatch.abs ++ iterForPatternStep r p n line)
    (lines : List Str) (n : Nat) (acc : List GenF.PatternMatch) :
    (List.foldl f acc (GenF.pyEnumerateFrom n lines)).map GenF.PatternMatch.abs
      = acc.map GenF.PatternMatch.abs ++ iterForPatternGo r p n lines := by
  induction lines generalizing n acc with
  | nil => simp [GenF.pyEnumerateFrom, iterForPatternGo]
  | cons line rest ih =>
    rw [GenF.pyEnumerateFrom_cons, List.foldl_cons, ih, hf, iterForPatternGo_cons, List.append_assoc]

theorem tie_iterForPattern (lines : List Str) (pattern : GenF.Pattern) :
    (GenF.iterForPattern lines pattern).map GenF.PatternMatch.abs
      = iterForPatternGo pattern.regexp pattern.abs 0 lines := by
  unfold GenF.iterForPattern GenF.pyEnumerate
  refine (foldl_enumerate_tie pattern.regexp pattern.abs _ ?_ lines 0 []).trans (by simp)
  intro acc n line
  simp only [iterForPatternStep]
  cases hs : GenF.pySearch pattern.regexp line with
  | none =>
    rw [GenF.pySearch_eq_none.1 hs]
    simp
  | some m =>
    obtain ⟨mm, h1, h2, h3, h4, h5, h6⟩ := GenF.pySearch_eq_some hs
    have hl := GenF.group0_length hs
    rw [h1]
    simp only [hl, h3, h4]
    by_cases hw : mm.stop > mm.start
    · have : mm.stop - mm.start > 0 := by omega
      simp [hw, this, GenF.PatternMatch.abs, GenF.PyMatch.span, h3, h4]
    · have : ¬ (mm.stop - mm.start > 0) := by omega
      simp [hw, this]

/-! ### the fields the abstraction forgets -/

/-- membership in a fold over `enumerate(lines)` whose step only appends elements with property `Q` -/
theorem foldl_enumerate_mem (Q : Nat → Str → GenF.PatternMatch → Prop)
    (f : List GenF.PatternMatch → Nat × Str → List GenF.PatternMatch)
    (hf : ∀ acc n line, ∀ m ∈ f acc (n, line), m ∈ acc ∨ Q n line m)
    (lines : List Str) (n : Nat) (acc : List GenF.PatternMatch) :
    ∀ m ∈ List.foldl f acc (GenF.pyEnumerateFrom n lines),
      m ∈ acc ∨ ∃ i line, lines[i]? = some line ∧ Q (n + i) line m := by
  induction lines generalizing n acc with
  | nil => intro m hm; exact .inl hm
  | cons l rest ih =>
    intro m hm
    rw [GenF.pyEnumerateFrom_cons, List.foldl_cons] at hm
    rcases ih _ _ m hm with h | ⟨i, line, h1, h2⟩
    · rcases hf acc n l m h with h | h
      · exact .inl h
      · exact .inr ⟨0, l, rfl, h⟩
    · refine .inr ⟨i + 1, line, by simpa using h1, ?_⟩
      have : n + (i + 1) = n + 1 + i := by omega
      rw [this]; exact h2

/-- every yielded `PatternMatch` carries the pattern it was asked for, the line with its number, and
    as `match` the text of the span -/
theorem iterForPattern_fields (lines : List Str) (pattern : GenF.Pattern) :
    ∀ m ∈ GenF.iterForPattern lines pattern,
      m.pattern = pattern ∧ lines[m.lineno]? = some m.line ∧
      m.match_ = List.take (m.span.2 - m.span.1) (List.drop m.span.1 m.line) := by
  intro m hm
  unfold GenF.iterForPattern GenF.pyEnumerate at hm
  have := foldl_enumerate_mem
    (fun n line m => m.lineno = n ∧ m.line = line ∧ m.pattern = pattern ∧
      m.match_ = List.take (m.span.2 - m.span.1) (List.drop m.span.1 m.line)) _ ?_ lines 0 [] m hm
  · rcases this with h | ⟨i, line, h1, h2, h3, h4, h5⟩
    · cases h
    · refine ⟨h4, ?_, h5⟩
      rw [h2, h3]; simpa using h1
  · intro acc n line m hm
    simp only at hm
    cases hs : GenF.pySearch pattern.regexp line with
    | none => rw [hs] at hm; exact .inl hm
    | some mm =>
      rw [hs] at hm
      obtain ⟨m0, -, h2, -⟩ := GenF.pySearch_eq_some hs
      simp only [if_true] at hm
      split at hm
      · rcases List.mem_append.1 hm with h | h
        · exact .inl h
        · simp only [List.mem_singleton] at h
          subst h
          exact .inr ⟨rfl, rfl, rfl, by simp [GenF.PyMatch.group0, GenF.PyMatch.span, h2]⟩
      · exact .inl hm

end BV
