/-
  Proofs/Tie_compilePattern.lean — the definitions GENERATED from the Python source of
  `v2patterns.compile_pattern` (the `@utils.memo` wrapper: memoisation of a pure function, translated as the
  identity) and `v2patterns.compile_patterns` (a list comprehension) against the way the hand model
  represents a compiled pattern: `CPat` = (version_pattern, NORMALISED raw pattern), its regular expression
  being `compileRe` of the normalised pattern (Model/Rewrite.lean, Model/V2Version.lean).
-/
import BumpverVerif.Gen.F_compilePatterns
import BumpverVerif.Proofs.Tie_compilePatternRe
import BumpverVerif.Proofs.Tie_normalizePattern
namespace BV
open PyP

/-- the `patterns.Pattern` tuple the model's view determines -/
def patternOf (vp normalized : Str) (re : Re) : GenF.PyPattern :=
  { version_pattern := vp, raw_pattern := normalized, regexp := re }

/-- `compile_pattern(version_pattern, raw_pattern=None)`: the pattern is normalised (`raw_pattern` defaults to
    the version pattern), compiled by `_compile_pattern_re`, and `Pattern.raw_pattern` holds the NORMALISED
    pattern.  `none` = `re.error` (the model: outside the regex fragment). -/
theorem tie_compilePattern (fuel : Nat) (version_pattern : Str) (raw_pattern : Option Str)
    (hfuel : compileFuel (normalizePattern version_pattern (raw_pattern.getD version_pattern)) ≤ fuel) :
    GenF.compilePattern Gen.rePatternEscapes Gen.partPatterns Gen.partFields Gen.pep440PartSubstitutions fuel
        version_pattern raw_pattern =
      (compileRe (normalizePattern version_pattern (raw_pattern.getD version_pattern))).map
        (patternOf version_pattern (normalizePattern version_pattern (raw_pattern.getD version_pattern))) := by
  cases raw_pattern with
  | none =>
    simp only [Option.getD_none] at hfuel ⊢
    simp only [GenF.compilePattern, tie_normalizePattern, tie_compilePatternRe_gen fuel _ hfuel]
    cases compileRe (normalizePattern version_pattern version_pattern) <;> rfl
  | some raw =>
    simp only [Option.getD_some] at hfuel ⊢
    simp only [GenF.compilePattern, tie_normalizePattern, tie_compilePatternRe_gen fuel _ hfuel]
    cases compileRe (normalizePattern version_pattern raw) <;> rfl

/-- `compile_patterns(version_pattern, raw_patterns)`: every raw pattern through `compile_pattern`, in order;
    the first `re.error` ends the call -/
theorem tie_compilePatterns (fuel : Nat) (version_pattern : Str) (raw_patterns : List Str)
    (hfuel : ∀ raw ∈ raw_patterns, compileFuel (normalizePattern version_pattern raw) ≤ fuel) :
    GenF.compilePatterns Gen.rePatternEscapes Gen.partPatterns Gen.partFields Gen.pep440PartSubstitutions fuel
        version_pattern raw_patterns =
      PyP.mapM (fun raw => (compileRe (normalizePattern version_pattern raw)).map
        (patternOf version_pattern (normalizePattern version_pattern raw))) raw_patterns := by
  have hcongr : ∀ (F G : Str → Option GenF.PyPattern) (l : List Str), (∀ x ∈ l, F x = G x) →
      PyP.mapM F l = PyP.mapM G l := by
    intro F G l
    induction l with
    | nil => intro _; rfl
    | cons x xs ih =>
      intro h
      simp only [PyP.mapM, h x List.mem_cons_self, ih (fun y hy => h y (List.mem_cons_of_mem _ hy))]
  have hone : ∀ raw ∈ raw_patterns,
      GenF.compilePattern Gen.rePatternEscapes Gen.partPatterns Gen.partFields Gen.pep440PartSubstitutions fuel
        version_pattern (some raw) =
      (compileRe (normalizePattern version_pattern raw)).map
        (patternOf version_pattern (normalizePattern version_pattern raw)) := by
    intro raw hraw
    have := tie_compilePattern fuel version_pattern (some raw) (by simpa using hfuel raw hraw)
    simpa only [Option.getD_some] using this
  simp only [GenF.compilePatterns]
  first
  | -- the list comprehension
    (rw [hcongr _ (fun raw => (compileRe (normalizePattern version_pattern raw)).map
          (patternOf version_pattern (normalizePattern version_pattern raw))) raw_patterns ?_]
     · cases PyP.mapM _ raw_patterns <;> rfl
     · intro raw hraw
       rw [hone raw hraw]
       cases (compileRe (normalizePattern version_pattern raw)) <;> rfl)
  | -- the same as a loop with `append`
    (rw [forM_append_mapM (fun raw => GenF.compilePattern Gen.rePatternEscapes Gen.partPatterns Gen.partFields
          Gen.pep440PartSubstitutions fuel version_pattern (some raw)) _ ?_]
     · rw [hcongr _ _ raw_patterns hone]
       cases PyP.mapM _ raw_patterns <;> simp
     · intro acc x
       cases GenF.compilePattern Gen.rePatternEscapes Gen.partPatterns Gen.partFields
         Gen.pep440PartSubstitutions fuel version_pattern (some x) <;> rfl)

end BV
