/-
  Proofs/Tie_cmpkey.lean — the definition GENERATED from the Python source of
  `setuptools_v65_version._cmpkey` (Gen/F_cmpkey.lean) against the hand model `BV.pepKey`
  (Model/Pep440.lean: `stripTrailingZeros`, `preKeyOf`, `postKeyOf`, `devKeyOf`, `locKeyOf`), property C16.

  The generated function returns the Python tuple as it is:
      (epoch, release', pre', post', dev', local')  with  pre'/post'/dev' : (letter, n) | ±Infinity,
      local' : tuple of (n, "") / (NegativeInfinity, s) | NegativeInfinity.
  The model's `Key.pep` leaves out what is constant: the letters of the post and dev tuples, and
  writes a local part as `LocalSeg`.  `absKey` is that abstraction.

  * `tie_cmpkey`      : `absKey (_cmpkey(v.epoch, v.release, v.pre, (pl, v.post), (dl, v.dev), v.local)) = pepKey v`
                        for ALL versions and ALL letters `pl`, `dl`;
  * `cmpkey_order`    : the abstraction loses nothing — Python's comparison of two RAW key tuples
                        (`cmpRawKey`: tuple comparison built from the same combinators as the model's
                        `cmpKey`) equals the model's `cmpKey` of the abstractions, whenever the two
                        post letters agree and the two dev letters agree (they are always `"post"` /
                        `"dev"`: `_parse_letter_version` normalises them).
-/
import BumpverVerif.Gen.F_cmpkey
import BumpverVerif.Proofs.Pep440Lemmas
set_option linter.unusedSimpArgs false
namespace BV

abbrev RawKey := Nat × List Nat × Ext (Str × Nat) × Ext (Str × Nat) × Ext (Str × Nat) × Ext (List (Ext Nat × Str))

def Ext.mapE {α β : Type} (f : α → β) : Ext α → Ext β
  | .negInf => .negInf
  | .val a => .val (f a)
  | .inf => .inf

/-- `(n, "")` is the int `n`, `(NegativeInfinity, s)` is the str `s` -/
def absLocElt : Ext Nat × Str → LocalSeg
  | (.val n, _) => .num n
  | (_, s) => .str s

def absKey : RawKey → Key
  | (e, r, pre, post, dev, loc) => .pep e r pre (post.mapE (·.2)) (dev.mapE (·.2)) (loc.mapE (List.map absLocElt))

/-- `0 == x` and `x == 0` are the same test (normal form: `x == 0`) -/
theorem zero_beq_nat (z : Nat) : (0 == z) = (z == 0) := by cases z <;> rfl

theorem tie_cmpkey (v : PepVersion) (pl dl : Str) :
    absKey (GenC.cmpkey v.epoch v.release v.pre (v.post.map (fun n => (pl, n))) (v.dev.map (fun n => (dl, n))) v.loc)
      = pepKey v := by
  obtain ⟨e, r, pre, post, dev, loc⟩ := v
  cases pre <;> cases post <;> cases dev <;> cases loc <;>
    simp [GenC.cmpkey, absKey, pepKey, preKeyOf, postKeyOf, devKeyOf, locKeyOf, stripTrailingZeros, Ext.mapE, zero_beq_nat] <;>
    first
      | rfl
      | (apply List.map_id''; intro i; cases i <;> rfl)

/-! ### the raw tuple, and Python's comparison of raw tuples -/

/-- a parsed local part as `_cmpkey` encodes it -/
def encLoc : LocalSeg → Ext Nat × Str
  | .num n => (.val n, [])
  | .str s => (.negInf, s)

/-- the tuple `_cmpkey` returns, written by hand from the model's four sentinel rules -/
def rawKeyRef (v : PepVersion) (pl dl : Str) : RawKey :=
  (v.epoch, stripTrailingZeros v.release, preKeyOf v, (postKeyOf v).mapE (fun n => (pl, n)),
   (devKeyOf v).mapE (fun n => (dl, n)), (locKeyOf v).mapE (List.map encLoc))

/-- the generated definition returns exactly that tuple (this implies `tie_cmpkey`) -/
theorem tie_cmpkey_raw (v : PepVersion) (pl dl : Str) :
    GenC.cmpkey v.epoch v.release v.pre (v.post.map (fun n => (pl, n))) (v.dev.map (fun n => (dl, n))) v.loc
      = rawKeyRef v pl dl := by
  obtain ⟨e, r, pre, post, dev, loc⟩ := v
  cases pre <;> cases post <;> cases dev <;> cases loc <;>
    simp [GenC.cmpkey, rawKeyRef, preKeyOf, postKeyOf, devKeyOf, locKeyOf, stripTrailingZeros, Ext.mapE, zero_beq_nat] <;>
    first
      | rfl
      | (intro i _; cases i <;> rfl)

/-- Python compares `(a, s)` pairs of a local part item by item -/
def cmpLocElt (a b : Ext Nat × Str) : Ordering := (cmpExt cmpNat a.1 b.1).then (cmpStr a.2 b.2)

/-- Python's comparison of two raw `_key` tuples of PEP 440 versions -/
def cmpRawKey : RawKey → RawKey → Ordering
  | (e, r, pre, post, dev, loc), (e', r', pre', post', dev', loc') =>
    (cmpNat e e').then <| (cmpList cmpNat r r').then <| (cmpExt cmpLetNum pre pre').then <|
      (cmpExt cmpLetNum post post').then <| (cmpExt cmpLetNum dev dev').then <|
        cmpExt (cmpList cmpLocElt) loc loc'

theorem cmpExt_mapE {α β : Type} (c1 : β → β → Ordering) (c2 : α → α → Ordering) (f : α → β)
    (h : ∀ a b, c1 (f a) (f b) = c2 a b) (x y : Ext α) :
    cmpExt c1 (x.mapE f) (y.mapE f) = cmpExt c2 x y := by
  cases x <;> cases y <;> simp [Ext.mapE, cmpExt, h]

theorem cmpLocElt_encLoc (a b : LocalSeg) : cmpLocElt (encLoc a) (encLoc b) = cmpSeg a b := by
  cases a <;> cases b <;> simp [cmpLocElt, encLoc, cmpSeg, cmpExt, cmpStr, cmpList]

theorem cmpList_encLoc (l1 l2 : List LocalSeg) :
    cmpList cmpLocElt (l1.map encLoc) (l2.map encLoc) = cmpList cmpSeg l1 l2 := by
  induction l1 generalizing l2 with
  | nil => cases l2 <;> rfl
  | cons a as ih =>
    cases l2 with
    | nil => rfl
    | cons b bs => simp only [List.map_cons, cmpList, cmpLocElt_encLoc, ih]

theorem cmpLetNum_sameLetter (l : Str) (n m : Nat) : cmpLetNum (l, n) (l, m) = cmpNat n m := by
  simp [cmpLetNum, lawful_cmpStr.refl]

/-- comparing the raw tuples is comparing the model keys: the abstraction `absKey` loses nothing -/
theorem cmpkey_order (v w : PepVersion) (pl dl : Str) :
    cmpRawKey
        (GenC.cmpkey v.epoch v.release v.pre (v.post.map (fun n => (pl, n))) (v.dev.map (fun n => (dl, n))) v.loc)
        (GenC.cmpkey w.epoch w.release w.pre (w.post.map (fun n => (pl, n))) (w.dev.map (fun n => (dl, n))) w.loc)
      = cmpKey (pepKey v) (pepKey w) := by
  rw [tie_cmpkey_raw, tie_cmpkey_raw]
  simp only [rawKeyRef, cmpRawKey, pepKey, cmpKey]
  rw [cmpExt_mapE cmpLetNum cmpNat _ (cmpLetNum_sameLetter pl),
      cmpExt_mapE cmpLetNum cmpNat _ (cmpLetNum_sameLetter dl),
      cmpExt_mapE (cmpList cmpLocElt) (cmpList cmpSeg) _ cmpList_encLoc]

end BV
