/-
  Proofs/TieN_Groups.lean — the hypothesis `validGroupNames` of `tie_parseVersionInfo` / `tie_isValid`
  (Proofs/Tie_parseVersionInfo.lean: "every named group of the compiled regex is a key the `assert` at the head of
  `parse_field_values_to_vinfo` accepts") is a THEOREM for every pattern tree that compiles:

      validGroupNames_compile : Pat.compile p = some r → validGroupNames r = true

  The group names of `Pat.compile p` are exactly `p.fields` (`reGroupNames_compile`, Proofs/ReadBack.lean), those are
  values of the regenerated `Gen.partFields`, and every such value begins with a key of `VALID_FIELD_KEYS`
  (`partFields_validKeys`: `decide` over the regenerated table — a table edit that introduces a part whose field is
  no `V2VersionInfo` field breaks the build HERE).

  With the general tree = string tie (`compile_tie`, Props/C02Tie.lean) the source-level ties of the READ side follow
  for the text of every `tokSafe` tree WITHOUT the group-name hypothesis:

      tie_parseVersionInfo_text : tokSafe p → noPlaceholder (Pat.text p) → today.2.1 ≠ 0 →
                                  GenF.parseVersionInfo vs (Pat.text p) today = parseVersionInfo vs (Pat.text p) today
      tie_isValid_text          : … GenF.isValid vs (Pat.text p) today = isValid vs (Pat.text p) today

  `noPlaceholder t`: the text contains neither `{version}` nor `{pep440_version}` (then `normalize_pattern(t, t) = t`);
  `Pat.noBrace p` (no literal `{`) is a structural sufficient condition (`noPlaceholder_of_noBrace`).
  No Mathlib.
-/
import BumpverVerif.Props.C02Tie
import BumpverVerif.Proofs.Tie_isValid
namespace BV
namespace TieN

/-- every field of the regenerated `PATTERN_PART_FIELDS` passes the `assert` of `parse_field_values_to_vinfo` -/
theorem partFields_validKeys :
    Gen.partFields.all (fun e => validFieldKeys.any (fun fkey => startsWith e.2 fkey)) = true := by decide

theorem lookup_mem_snd {α : Type} {k : Str} {l : List (Str × α)} {v : α} (h : lookup k l = some v) : (k, v) ∈ l := by
  induction l with
  | nil => cases h
  | cons e rest ih =>
    obtain ⟨k', v'⟩ := e
    by_cases hk : k = k'
    · subst hk
      simp only [lookup, if_true] at h
      cases h
      exact List.mem_cons_self
    · simp only [lookup, if_neg hk] at h
      exact List.mem_cons_of_mem _ (ih h)

/-- the fields of a tree are accepted keys -/
theorem fields_validKeys (p : Pat) (f : Str) (hf : f ∈ p.fields) :
    validFieldKeys.any (fun fkey => startsWith f fkey) = true := by
  obtain ⟨n, _, hl⟩ := List.mem_filterMap.mp hf
  exact List.all_eq_true.mp partFields_validKeys (n, f) (lookup_mem_snd hl)

/-- the pattern text has no `{version}` / `{pep440_version}` placeholder -/
def noPlaceholder (t : Str) : Bool :=
  !isInfix "{version}".toList t && !isInfix "{pep440_version}".toList t

theorem noPlaceholder_iff (t : Str) : noPlaceholder t = true ↔
    isInfix "{version}".toList t = false ∧ isInfix "{pep440_version}".toList t = false := by
  simp [noPlaceholder]

theorem normalizePattern_plain (t : Str) (h : noPlaceholder t = true) : normalizePattern t t = t := by
  obtain ⟨h1, h2⟩ := (noPlaceholder_iff t).mp h
  exact normalizePattern_self t h1 h2

/-- no literal `{` in the tree: a structural sufficient condition for `noPlaceholder` -/
def noBrace : Pat → Bool
  | .done => true
  | .lit c rest => c != '{' && noBrace rest
  | .part _ rest => noBrace rest
  | .opt body rest => noBrace body && noBrace rest

theorem text_noBrace (p : Pat) (hsh : p.shapeOk = true) (h : noBrace p = true) : '{' ∉ Pat.text p := by
  induction p with
  | done => simp [Pat.text_done]
  | lit c rest ih =>
    simp only [Pat.shapeOk, Bool.and_eq_true] at hsh
    simp only [noBrace, Bool.and_eq_true, bne_iff_ne, ne_eq] at h
    rw [Pat.text_lit, List.mem_append]
    rintro (hm | hm)
    · unfold litText at hm
      split at hm
      · simp only [List.mem_cons, List.not_mem_nil, or_false] at hm
        rcases hm with e | e
        · exact absurd e (by decide)
        · exact h.1 e.symm
      · simp only [List.mem_cons, List.not_mem_nil, or_false] at hm
        exact h.1 hm.symm
    · exact ih hsh.2 h.2 hm
  | part n rest ih =>
    simp only [Pat.shapeOk, Bool.and_eq_true] at hsh
    simp only [noBrace] at h
    rw [Pat.text_part, List.mem_append]
    rintro (hm | hm)
    · have := name_chars (mem_partNames_of_lookup hsh.1.1) _ hm
      exact absurd this (by decide)
    · exact ih hsh.2 h hm
  | opt body rest ihb ihr =>
    simp only [Pat.shapeOk, Bool.and_eq_true] at hsh
    simp only [noBrace, Bool.and_eq_true] at h
    rw [Pat.text_opt]
    simp only [List.mem_cons, List.mem_append]
    rintro (e | hm | e | hm)
    · exact absurd e (by decide)
    · exact ihb hsh.1.2 h.1 hm
    · exact absurd e (by decide)
    · exact ihr hsh.2 h.2 hm

theorem noPlaceholder_of_noBrace (p : Pat) (hsh : p.shapeOk = true) (h : noBrace p = true) :
    noPlaceholder (Pat.text p) = true := by
  have hb := text_noBrace p hsh h
  have key : ∀ pat : Str, '{' ∈ pat → isInfix pat (Pat.text p) = false := by
    intro pat hp
    unfold isInfix
    cases hf : findIdx pat (Pat.text p) with
    | none => rfl
    | some i => exact absurd (findIdx_some_subset hf '{' hp) hb
  rw [noPlaceholder_iff]
  exact ⟨key _ (by decide), key _ (by decide)⟩

end TieN
open TieN

/-- THE GROUP NAMES OF A COMPILED TREE ARE FIELD KEYS: `validGroupNames` is a theorem, not a hypothesis -/
theorem validGroupNames_compile (p : Pat) (r : Re) (h : Pat.compile p = some r) : validGroupNames r = true := by
  unfold validGroupNames
  rw [reGroupNames_compile p r h, List.all_eq_true]
  intro f hf
  exact fields_validKeys p f (List.mem_eraseDups.mp hf)

/-- … hence of the regex the CODE compiles from the text of a `tokSafe` tree -/
theorem validGroupNames_text (p : Pat) (hs : tokSafe p = true) (hp : noPlaceholder (Pat.text p) = true) :
    ∀ r, compileRe (normalizePattern (Pat.text p) (Pat.text p)) = some r → validGroupNames r = true := by
  intro r hr
  rw [normalizePattern_plain _ hp, compile_tie p hs] at hr
  exact validGroupNames_compile p r hr

/-- `tie_parseVersionInfo` for the text of a `tokSafe` tree: NO group-name hypothesis -/
theorem tie_parseVersionInfo_text (p : Pat) (vs : Str) (today : PDate) (hT : today.2.1 ≠ 0)
    (hs : tokSafe p = true) (hp : noPlaceholder (Pat.text p) = true) :
    GenF.parseVersionInfo vs (Pat.text p) today = parseVersionInfo vs (Pat.text p) today :=
  tie_parseVersionInfo vs (Pat.text p) today hT (validGroupNames_text p hs hp)

/-- `tie_isValid` for the text of a `tokSafe` tree: NO group-name hypothesis -/
theorem tie_isValid_text (p : Pat) (vs : Str) (today : PDate) (hT : today.2.1 ≠ 0)
    (hs : tokSafe p = true) (hp : noPlaceholder (Pat.text p) = true) :
    GenF.isValid vs (Pat.text p) today = isValid vs (Pat.text p) today :=
  tie_isValid vs (Pat.text p) today hT (validGroupNames_text p hs hp)

/-- for pattern TEXT `s`: tokenise, check `tokSafe` and that the tree's text is `s` (all decidable on `s`) -/
theorem tie_parseVersionInfo_str (s vs : Str) (p : Pat) (today : PDate) (hT : today.2.1 ≠ 0)
    (ht : tokenize s = some p) (hst : Pat.text p = s) (hs : tokSafe p = true) (hp : noPlaceholder s = true) :
    GenF.parseVersionInfo vs s today = parseVersionInfo vs s today := by
  have _ := ht
  subst hst
  exact tie_parseVersionInfo_text p vs today hT hs hp

end BV
