/-
  Proofs/V2Lemmas.lean — helper lemmas about Model/V2Version.lean.
-/
import BumpverVerif.Model.V2Version
import BumpverVerif.Proofs.Digits
namespace BV

/-! ### field names: `getattr` / `_replace` dispatch on the NAME of the field -/

theorem ofList_beq (f : Str) (s : String) : (String.ofList f == s) = decide (f = s.toList) := by
  by_cases h : f = s.toList
  · subst h; simp
  · simp [h]
    intro h2; apply h; rw [← h2]; simp

/-- `_replace(g=n)` does not change what `getattr(·, f)` sees for another name `f` -/
theorem get_setNat_ne (v : VInfo) (f g : Str) (n : Nat) (h : g ≠ f) :
    (v.setNat g n).get f = v.get f := by
  unfold VInfo.setNat
  simp only [ofList_beq, decide_eq_true_eq]
  split
  · next hg =>
    subst hg; unfold VInfo.get; simp only [ofList_beq, decide_eq_true_eq]
    have h' : ¬ f = "major".toList := fun e => h e.symm
    simp only [h', ↓reduceIte]
  split
  · next hg =>
    subst hg; unfold VInfo.get; simp only [ofList_beq, decide_eq_true_eq]
    have h' : ¬ f = "minor".toList := fun e => h e.symm
    simp only [h', ↓reduceIte]
  split
  · next hg =>
    subst hg; unfold VInfo.get; simp only [ofList_beq, decide_eq_true_eq]
    have h' : ¬ f = "patch".toList := fun e => h e.symm
    simp only [h', ↓reduceIte]
  split
  · next hg =>
    subst hg; unfold VInfo.get; simp only [ofList_beq, decide_eq_true_eq]
    have h' : ¬ f = "num".toList := fun e => h e.symm
    simp only [h', ↓reduceIte]
  split
  · next hg =>
    subst hg; unfold VInfo.get; simp only [ofList_beq, decide_eq_true_eq]
    have h' : ¬ f = "inc0".toList := fun e => h e.symm
    simp only [h', ↓reduceIte]
  split
  · next hg =>
    subst hg; unfold VInfo.get; simp only [ofList_beq, decide_eq_true_eq]
    have h' : ¬ f = "inc1".toList := fun e => h e.symm
    simp only [h', ↓reduceIte]
  rfl

/-- the six rows of the generated `V2_FIELD_INITIAL_VALUES` -/
theorem lookup_init_cases (f init : Str) (h : lookup f Gen.fieldInitialValues = some init) :
    (f = "major".toList ∧ init = "0".toList) ∨ (f = "minor".toList ∧ init = "0".toList) ∨
    (f = "patch".toList ∧ init = "0".toList) ∨ (f = "num".toList ∧ init = "0".toList) ∨
    (f = "inc0".toList ∧ init = "0".toList) ∨ (f = "inc1".toList ∧ init = "1".toList) := by
  simp only [Gen.fieldInitialValues, lookup] at h
  split at h
  · next e => exact .inl ⟨e, (Option.some.inj h).symm⟩
  split at h
  · next e => exact .inr (.inl ⟨e, (Option.some.inj h).symm⟩)
  split at h
  · next e => exact .inr (.inr (.inl ⟨e, (Option.some.inj h).symm⟩))
  split at h
  · next e => exact .inr (.inr (.inr (.inl ⟨e, (Option.some.inj h).symm⟩)))
  split at h
  · next e => exact .inr (.inr (.inr (.inr (.inl ⟨e, (Option.some.inj h).symm⟩))))
  split at h
  · next e => exact .inr (.inr (.inr (.inr (.inr ⟨e, (Option.some.inj h).symm⟩))))
  cases h

theorem get_setNat_same (v : VInfo) (f init : Str) (n : Nat)
    (h : lookup f Gen.fieldInitialValues = some init) : (v.setNat f n).get f = .nat n := by
  rcases lookup_init_cases f init h with ⟨e, _⟩ | ⟨e, _⟩ | ⟨e, _⟩ | ⟨e, _⟩ | ⟨e, _⟩ | ⟨e, _⟩ <;>
    (subst e; rfl)

/-! ### the `_replace(**reset_items)` fold -/

/-- `cur_vinfo._replace(**reset_items)` -/
def applyItems (items : List (Str × Str)) (v : VInfo) : VInfo :=
  items.foldl (fun (v : VInfo) (fi : Str × Str) => v.setNat fi.1 (strToNat fi.2)) v

theorem applyItems_get (f : Str) : ∀ (items : List (Str × Str)) (v : VInfo),
    (∀ fi ∈ items, lookup fi.1 Gen.fieldInitialValues = some fi.2) →
    (applyItems items v).get f =
      (match lookup f Gen.fieldInitialValues with
       | some init => if items.any (fun fi => fi.1 == f) then FV.nat (strToNat init) else v.get f
       | none => v.get f) := by
  intro items
  induction items with
  | nil =>
    intro v _
    simp only [applyItems, List.foldl_nil, List.any_nil]
    split <;> simp
  | cons gi rest ih =>
    intro v hall
    have hg := hall gi (List.mem_cons_self)
    have hrest : ∀ fi ∈ rest, lookup fi.1 Gen.fieldInitialValues = some fi.2 :=
      fun fi hfi => hall fi (List.mem_cons_of_mem _ hfi)
    have hstep : applyItems (gi :: rest) v = applyItems rest (v.setNat gi.1 (strToNat gi.2)) := rfl
    rw [hstep, ih _ hrest]
    by_cases hgf : gi.1 = f
    · rw [← hgf, hg]
      simp only [List.any_cons, beq_self_eq_true, Bool.true_or, ↓reduceIte]
      rw [get_setNat_same v gi.1 gi.2 _ hg]
      split <;> rfl
    · rw [get_setNat_ne v f gi.1 _ hgf]
      have : (gi.1 == f) = false := by simpa using hgf
      simp only [List.any_cons, this, Bool.false_or]

/-! ### `_iter_reset_field_items` -/

theorem resetItemsGo_mem (old cur : VInfo) : ∀ (fs : List Str) (hr : Bool) (fi : Str × Str),
    fi ∈ resetItemsGo old cur hr fs →
    lookup fi.1 Gen.fieldInitialValues = some fi.2 ∧ fi.1 ∈ fs := by
  intro fs
  induction fs with
  | nil => intro hr fi h; simp [resetItemsGo] at h
  | cons g rest ih =>
    intro hr fi h
    unfold resetItemsGo at h
    split at h
    · next init hinit =>
      split at h
      · rcases List.mem_cons.mp h with e | h'
        · subst e; exact ⟨hinit, List.mem_cons_self⟩
        · have := ih _ _ h'; exact ⟨this.1, List.mem_cons_of_mem _ this.2⟩
      · have := ih _ _ h; exact ⟨this.1, List.mem_cons_of_mem _ this.2⟩
    · have := ih _ _ h; exact ⟨this.1, List.mem_cons_of_mem _ this.2⟩

theorem resetItemsGo_any_not_mem (old cur : VInfo) (fs : List Str) (hr : Bool) (f : Str)
    (h : f ∉ fs) : (resetItemsGo old cur hr fs).any (fun fi => fi.1 == f) = false := by
  rw [Bool.eq_false_iff]
  intro hany
  rcases List.any_eq_true.mp hany with ⟨fi, hfi, he⟩
  have := (resetItemsGo_mem old cur fs hr fi hfi).2
  have e : fi.1 = f := by simpa using he
  exact h (e ▸ this)

/-- a resettable field at position `i` of a duplicate-free field list is emitted iff a reset
    was already pending or some field to its left changed -/
theorem resetItemsGo_any (old cur : VInfo) : ∀ (fs : List Str) (hr : Bool) (i : Nat) (f init : Str),
    fs.Nodup → fs[i]? = some f → lookup f Gen.fieldInitialValues = some init →
    (resetItemsGo old cur hr fs).any (fun fi => fi.1 == f) =
      (hr || (fs.take i).any (fun g => old.get g != cur.get g)) := by
  intro fs
  induction fs with
  | nil => intro hr i f init _ hf; simp at hf
  | cons g rest ih =>
    intro hr i f init hnd hf hinit
    have hnd' := List.nodup_cons.mp hnd
    cases i with
    | zero =>
      have e : g = f := by simpa using hf
      subst e
      simp only [List.take_zero, List.any_nil, Bool.or_false]
      unfold resetItemsGo
      rw [hinit]
      cases hr with
      | true => simp
      | false =>
        simp only [Bool.false_eq_true, ↓reduceIte]
        exact resetItemsGo_any_not_mem old cur rest _ g hnd'.1
    | succ j =>
      have hf' : rest[j]? = some f := by simpa using hf
      have hne : g ≠ f := by
        intro e; subst e
        exact hnd'.1 (List.mem_of_getElem? hf')
      have hbeq : (g == f) = false := by simpa using hne
      simp only [List.take_succ_cons, List.any_cons]
      unfold resetItemsGo
      split
      · next ginit _ =>
        cases hr with
        | true =>
          simp only [↓reduceIte, List.any_cons, hbeq, Bool.false_or, Bool.true_or]
          rw [ih true j f init hnd'.2 hf' hinit]; rfl
        | false =>
          simp only [Bool.false_eq_true, ↓reduceIte, Bool.false_or]
          rw [ih _ j f init hnd'.2 hf' hinit]
      · rw [ih _ j f init hnd'.2 hf' hinit, Bool.or_assoc]

/-! ### `_reset_rollover_fields`: the explicit `_replace` tail is redundant -/

theorem resetRolloverFields_eq (fs : List Str) (old cur : VInfo) :
    resetRolloverFields fs old cur = applyItems (resetItemsGo old cur false fs) cur := by
  have hitems : ∀ fi ∈ resetItemsGo old cur false fs,
      lookup fi.1 Gen.fieldInitialValues = some fi.2 :=
    fun fi h => (resetItemsGo_mem old cur fs false fi h).1
  have key : ∀ (name init : Str), lookup name Gen.fieldInitialValues = some init →
      (resetItemsGo old cur false fs).any (fun fi => fi.1 == name) = true →
      (applyItems (resetItemsGo old cur false fs) cur).get name = FV.nat (strToNat init) := by
    intro name init hl hany
    rw [applyItems_get name _ cur hitems, hl]
    simp only [hany, ↓reduceIte]
  unfold resetRolloverFields
  simp only
  change
    (let cur1 := applyItems (resetItemsGo old cur false fs) cur
     let c2 := if (resetItemsGo old cur false fs).any (fun fi => fi.1 == "major".toList) = true
               then { cur1 with major := 0 } else cur1
     let c3 := if (resetItemsGo old cur false fs).any (fun fi => fi.1 == "minor".toList) = true
               then { c2 with minor := 0 } else c2
     let c4 := if (resetItemsGo old cur false fs).any (fun fi => fi.1 == "patch".toList) = true
               then { c3 with patch := 0 } else c3
     let c5 := if (resetItemsGo old cur false fs).any (fun fi => fi.1 == "inc0".toList) = true
               then { c4 with inc0 := 0 } else c4
     let c6 := if (resetItemsGo old cur false fs).any (fun fi => fi.1 == "inc1".toList) = true
               then { c5 with inc1 := 1 } else c5
     c6) = _
  generalize hc1 : applyItems (resetItemsGo old cur false fs) cur = cur1 at key
  have k1 := key "major".toList "0".toList (by decide)
  have k2 := key "minor".toList "0".toList (by decide)
  have k3 := key "patch".toList "0".toList (by decide)
  have k4 := key "inc0".toList "0".toList (by decide)
  have k5 := key "inc1".toList "1".toList (by decide)
  clear key
  generalize (resetItemsGo old cur false fs).any (fun fi => fi.1 == "major".toList) = b1 at k1
  generalize (resetItemsGo old cur false fs).any (fun fi => fi.1 == "minor".toList) = b2 at k2
  generalize (resetItemsGo old cur false fs).any (fun fi => fi.1 == "patch".toList) = b3 at k3
  generalize (resetItemsGo old cur false fs).any (fun fi => fi.1 == "inc0".toList) = b4 at k4
  generalize (resetItemsGo old cur false fs).any (fun fi => fi.1 == "inc1".toList) = b5 at k5
  have e1 : b1 = true → cur1.major = 0 := fun hb => FV.nat.inj (k1 hb)
  have e2 : b2 = true → cur1.minor = 0 := fun hb => FV.nat.inj (k2 hb)
  have e3 : b3 = true → cur1.patch = 0 := fun hb => FV.nat.inj (k3 hb)
  have e4 : b4 = true → cur1.inc0 = 0 := fun hb => FV.nat.inj (k4 hb)
  have e5 : b5 = true → cur1.inc1 = 1 := fun hb => FV.nat.inj (k5 hb)
  clear k1 k2 k3 k4 k5 hc1
  cases cur1
  cases b1 <;> cases b2 <;> cases b3 <;> cases b4 <;> cases b5 <;> simp_all

/-- after the reset a field either keeps its value or holds its table initial value -/
theorem resetRolloverFields_get_cases (fs : List Str) (old cur : VInfo) (f : Str) :
    (resetRolloverFields fs old cur).get f = cur.get f ∨
    ∃ init, lookup f Gen.fieldInitialValues = some init ∧
      (resetRolloverFields fs old cur).get f = FV.nat (strToNat init) := by
  rw [resetRolloverFields_eq,
    applyItems_get f _ cur (fun fi h => (resetItemsGo_mem old cur fs false fi h).1)]
  cases hl : lookup f Gen.fieldInitialValues with
  | none => exact .inl rfl
  | some init =>
    simp only
    split
    · exact .inr ⟨init, rfl, rfl⟩
    · exact .inl rfl

/-! ### calendar guard -/

theorem lexLt_irrefl' : ∀ l : List Nat, lexLt l l = false := by
  intro l
  induction l with
  | nil => rfl
  | cons a as ih => simp [lexLt, ih]

/-- `r` has the same value as `l` wherever `l` has one -/
inductive Agree : List (Option Nat) → List (Option Nat) → Prop
  | nil : Agree [] []
  | cons {a b : Option Nat} {l r : List (Option Nat)} :
      (∀ x, a = some x → b = some x) → Agree l r → Agree (a :: l) (b :: r)

/-- `presentPairs l r` pairs equal values when `r` agrees with `l` wherever `l` has a value -/
theorem presentPairs_agree : ∀ (l r : List (Option Nat)), Agree l r →
    (presentPairs l r).map (·.2) = (presentPairs l r).map (·.1) := by
  intro l r h
  induction h with
  | nil => rfl
  | @cons a b l r hab _ ih =>
    cases a with
    | none => cases b <;> simpa [presentPairs] using ih
    | some x =>
      rw [hab x rfl]
      simp [presentPairs, ih]

theorem isCalGt_of_agree (l r : CalOpt)
    (h : Agree l.toList r.toList) :
    isCalGt l r = false := by
  unfold isCalGt
  simp only
  rw [presentPairs_agree _ _ h]
  exact lexLt_irrefl' _

theorem isCalGt_self (l : CalOpt) : isCalGt l l = false := by
  apply isCalGt_of_agree
  simp only [CalOpt.toList]
  repeat' constructor
  all_goals (intro x hx; exact hx)

theorem isCalGt_verToCalInfo (v : VInfo) (dflt : CalInfo) :
    isCalGt v.cal (verToCalInfo v dflt) = false := by
  apply isCalGt_of_agree
  simp only [CalOpt.toList, verToCalInfo]
  repeat' constructor
  all_goals (intro x hx; rw [hx])

/-! ### `_format_segment` flags -/

theorem formatSegment_flags (seg : Str) (pvs : List (Str × Str)) (z : Bool) :
    ((if (formatSegment seg pvs).isLiteral then z else ((formatSegment seg pvs).isZero && z)) = true) ↔
      ((∀ pv ∈ pvs.filter (fun pv => isInfix pv.1 seg), isZeroVal pv.1 pv.2 = true) ∧ z = true) := by
  unfold formatSegment
  simp only
  generalize pvs.filter (fun pv => isInfix pv.1 seg) = used
  by_cases hemp : used.isEmpty = true
  · have : used = [] := by simpa using hemp
    subst this
    simp
  · simp only [hemp, Bool.false_eq_true, ↓reduceIte]
    have hpos : 0 < used.length := by
      cases used with
      | nil => simp at hemp
      | cons => simp
    by_cases hall : ∀ pv ∈ used, isZeroVal pv.1 pv.2 = true
    · have hlen : (used.filter (fun pv => isZeroVal pv.1 pv.2)).length = used.length :=
        List.length_filter_eq_length_iff.mpr hall
      simp only [hlen, hpos, decide_true, BEq.rfl, Bool.and_self, ↓reduceIte, Bool.true_and]
      exact ⟨fun hz => ⟨hall, hz⟩, fun h => h.2⟩
    · have hlen : (used.filter (fun pv => isZeroVal pv.1 pv.2)).length ≠ used.length :=
        fun e => hall (List.length_filter_eq_length_iff.mp e)
      have hb : (decide ((used.filter (fun pv => isZeroVal pv.1 pv.2)).length > 0) &&
          ((used.filter (fun pv => isZeroVal pv.1 pv.2)).length == used.length)) = false := by
        simp [hlen]
      simp only [hb, Bool.false_eq_true, ↓reduceIte, Bool.false_and]
      exact ⟨fun h => h.elim, fun h => absurd h.1 hall⟩

/-! ### `_incr_numeric` in stages -/

def incStep (cur : VInfo) (fl : IncrFlags) : VInfo :=
  let c1 := if fl.major then { cur with major := cur.major + 1 } else cur
  let c2 := if fl.minor then { c1 with minor := c1.minor + 1 } else c1
  let c3 := if fl.patch then { c2 with patch := c2.patch + 1 } else c2
  if fl.tagNum then { c3 with num := c3.num + 1 } else c3

def tagStep (c4 : VInfo) (tag : Option Str) : Except PErr VInfo :=
  match tag with
  | some t =>
    if t.isEmpty then pure c4
    else
      let c := if t != c4.tag then { c4 with num := 0 } else c4
      match lookup t Gen.pep440TagByTag with
      | some p => pure { c with tag := t, pytag := p }
      | none => throw .keyError
  | none => pure c4

def finStep (c5 : VInfo) (fl : IncrFlags) : VInfo :=
  let c5' := if c5.tag == "final".toList then { c5 with num := 0 } else c5
  if !fl.pinIncrements then { c5' with inc0 := c5'.inc0 + 1, inc1 := c5'.inc1 + 1 } else c5'

def bidStep (fields : List Str) (old c6 : VInfo) : Except PErr VInfo :=
  if !allDigits c6.bid || c6.bid.isEmpty then throw .valueError
  else
    let c7 := { c6 with bid := padBid c6.bid }
    match nextId c7.bid with
    | none => throw .overflow
    | some b => pure (resetRolloverFields fields old { c7 with bid := b })

theorem incrNumeric_eq (fs : List Str) (old cur : VInfo) (fl : IncrFlags) :
    incrNumeric fs old cur fl =
      (match tagStep (incStep cur fl) fl.tag with
       | .error e => .error e
       | .ok c5 => bidStep fs old (finStep c5 fl)) := by
  unfold incrNumeric
  extract_lets c1 c2 c3 c4 jp
  have hc4 : incStep cur fl = c4 := rfl
  rw [hc4]
  have hjp : ∀ c5, jp c5 = bidStep fs old (finStep c5 fl) := by
    intro c5
    simp only [jp, bidStep, finStep]
    split <;> rfl
  clear_value c4 jp
  unfold tagStep
  cases fl.tag with
  | none => exact hjp c4
  | some t =>
    simp only
    split
    · exact hjp c4
    · cases lookup t Gen.pep440TagByTag with
      | none => rfl
      | some p => exact hjp _

theorem incStep_eq (cur : VInfo) (fl : IncrFlags) :
    incStep cur fl =
      { cur with major := cur.major + (if fl.major then 1 else 0),
                 minor := cur.minor + (if fl.minor then 1 else 0),
                 patch := cur.patch + (if fl.patch then 1 else 0),
                 num := cur.num + (if fl.tagNum then 1 else 0) } := by
  rcases fl with ⟨a, b, c, d, e, f, g⟩
  cases a <;> cases b <;> cases c <;> cases e <;> rfl

theorem finStep_eq (c5 : VInfo) (fl : IncrFlags) :
    finStep c5 fl =
      { c5 with num := if c5.tag = "final".toList then 0 else c5.num,
                inc0 := c5.inc0 + (if fl.pinIncrements then 0 else 1),
                inc1 := c5.inc1 + (if fl.pinIncrements then 0 else 1) } := by
  unfold finStep
  by_cases ht : (c5.tag == "final".toList) = true
  · have ht' : c5.tag = "final".toList := eq_of_beq ht
    simp only [ht', ↓reduceIte]
    cases fl.pinIncrements <;> rfl
  · have ht' : ¬ c5.tag = "final".toList := fun e => ht (by rw [e]; exact beq_self_eq_true _)
    simp only [ht, ht', ↓reduceIte]
    cases fl.pinIncrements <;> rfl

theorem tagStep_ok (c4 c5 : VInfo) (tag : Option Str) (h : tagStep c4 tag = .ok c5) :
    ((tag = none ∨ tag = some []) ∧ c5 = c4) ∨
    ∃ t p, tag = some t ∧ t ≠ [] ∧ lookup t Gen.pep440TagByTag = some p ∧
      c5 = { c4 with num := if t ≠ c4.tag then 0 else c4.num, tag := t, pytag := p } := by
  unfold tagStep at h
  cases tag with
  | none => exact .inl ⟨.inl rfl, (Except.ok.inj h).symm⟩
  | some t =>
    cases t with
    | nil => exact .inl ⟨.inr rfl, (Except.ok.inj h).symm⟩
    | cons ch r =>
      right
      simp only [List.isEmpty_cons, Bool.false_eq_true, ↓reduceIte] at h
      cases hl : lookup (ch :: r) Gen.pep440TagByTag with
      | none => rw [hl] at h; cases h
      | some p =>
        rw [hl] at h
        refine ⟨ch :: r, p, rfl, by simp, hl, ?_⟩
        rw [← Except.ok.inj h]
        by_cases ht : (ch :: r) = c4.tag <;> simp [ht]

theorem bidStep_ok (fs : List Str) (old c6 new : VInfo) (h : bidStep fs old c6 = .ok new) :
    ∃ b, bumpBid c6.bid = some b ∧ new = resetRolloverFields fs old { c6 with bid := b } := by
  unfold bidStep at h
  split at h
  · cases h
  · simp only at h
    unfold bumpBid
    cases hn : nextId (padBid c6.bid) with
    | none => rw [hn] at h; cases h
    | some b => rw [hn] at h; exact ⟨b, rfl, (Except.ok.inj h).symm⟩

/-- `_incr_numeric` in one piece: the record it hands to `_reset_rollover_fields` -/
theorem incrNumeric_ok (fs : List Str) (old cur : VInfo) (fl : IncrFlags) (new : VInfo)
    (h : incrNumeric fs old cur fl = .ok new) :
    ∃ b tg pt, bumpBid cur.bid = some b ∧
      (((fl.tag = none ∨ fl.tag = some []) ∧ tg = cur.tag ∧ pt = cur.pytag) ∨
        (fl.tag = some tg ∧ tg ≠ [] ∧ lookup tg Gen.pep440TagByTag = some pt)) ∧
      new = resetRolloverFields fs old
        { cal := cur.cal,
          major := cur.major + (if fl.major then 1 else 0),
          minor := cur.minor + (if fl.minor then 1 else 0),
          patch := cur.patch + (if fl.patch then 1 else 0),
          bid := b, tag := tg, pytag := pt,
          num := if tg ≠ cur.tag ∨ tg = "final".toList then 0
                 else cur.num + (if fl.tagNum then 1 else 0),
          inc0 := cur.inc0 + (if fl.pinIncrements then 0 else 1),
          inc1 := cur.inc1 + (if fl.pinIncrements then 0 else 1) } := by
  rw [incrNumeric_eq] at h
  cases ht : tagStep (incStep cur fl) fl.tag with
  | error e => rw [ht] at h; cases h
  | ok c5 =>
    rw [ht] at h
    simp only at h
    obtain ⟨b, hb, hnew⟩ := bidStep_ok fs old _ new h
    rw [finStep_eq] at hb hnew
    rcases tagStep_ok _ _ _ ht with ⟨hno, hc5⟩ | ⟨t, p, htag, hne, hl, hc5⟩
    · subst hc5
      rw [incStep_eq] at hb hnew
      refine ⟨b, cur.tag, cur.pytag, hb, .inl ⟨hno, rfl, rfl⟩, ?_⟩
      rw [hnew]
      congr 1
      simp
    · subst hc5
      rw [incStep_eq] at hb hnew
      refine ⟨b, t, p, hb, .inr ⟨htag, hne, hl⟩, ?_⟩
      rw [hnew]
      congr 1
      simp only [VInfo.mk.injEq, true_and, and_true]
      by_cases h1 : t = cur.tag <;> by_cases h2 : t = "final".toList <;> simp [h1, h2]

end BV
