/-
  Proofs/Tie_detectLineSep.lean — the definition GENERATED from the Python source of
  `rewrite.detect_line_sep` (Gen/F_detectLineSep.lean) equals the hand model `BV.detectLineSep`
  on all inputs.  After unfolding, the two sides are if-cascades over the same two `isInfix` tests;
  any remaining difference in shape is settled by case distinction on the tests.
-/
import BumpverVerif.Gen.F_detectLineSep
import BumpverVerif.Model.Rewrite
namespace BV

theorem tie_detectLineSep (content : Str) :
    GenF.detectLineSep content = detectLineSep content := by
  simp only [GenF.detectLineSep, detectLineSep] <;> (repeat' split) <;> simp_all

end BV
