/-
  Proofs/Tie_cmdNormalizeSetVersion.lean — the definition GENERATED from the Python source of
  `cli._normalize_set_version` (Gen/F_cmdNormalizeSetVersion.lean, harness/translate_commands.py) equals the
  hand model on ALL inputs:

  * a pattern without braces (`isNewPattern`): `BV.normalizeSetVersion` (Model/Cli.lean) — the version is
    read through the pattern and rendered back; a `PatternError` gives the text back unchanged (the gate then
    reports it); every other exception propagates;
  * a pattern with a brace: the same with the legacy engine (`TieL.v1NormalizeSetVersion`, written here: the
    hand model has no legacy counterpart).

  The function has no effect on the state (no VCS invocation, no output): the result is `(s, …)`.

  One fact about the model is needed for the new-style case: `formatVersion` never answers `PatternError`
  (`formatVersion_not_pattern`; its only error is the ValueError of `_parse_segtree`).  The Python `try`
  block covers the `format_version` call as well; the hand model lets its errors propagate — equal, because
  none of them is a PatternError.
-/
import BumpverVerif.Gen.F_cmdNormalizeSetVersion
import BumpverVerif.Proofs.CmdLemmas
import BumpverVerif.Model.Cli
set_option linter.unusedSimpArgs false
namespace BV

/-! ### `format_version` (new-style) never raises PatternError -/

theorem TieL.segtreeGo_error (stack : List (List Seg)) (cur : Str) (prev : Option Char) (r : Str) (e : PErr)
    (h : segtreeGo stack cur prev r = .error e) : e = .valueError := by
  induction r generalizing stack cur prev with
  | nil => simp [segtreeGo] at h
  | cons c r ih =>
    unfold segtreeGo at h
    dsimp only at h
    split at h
    · split at h
      · cases h; rfl
      · split at h
        · exact ih _ _ _ h
        · split at h
          · cases h; rfl
          · exact ih _ _ _ h
    · exact ih _ _ _ h

theorem TieL.parseSegtree_error (raw : Str) (e : PErr) (h : parseSegtree raw = .error e) : e = .valueError := by
  unfold parseSegtree at h
  split at h
  · rename_i e' he
    cases h
    exact segtreeGo_error _ _ _ _ _ he
  · split at h
    · cases h
    · cases h; rfl
  · cases h; rfl

theorem TieL.formatVersion_not_pattern (v : VInfo) (raw : Str) : formatVersion v raw ≠ .error .pattern := by
  intro h
  unfold formatVersion at h
  split at h
  · rename_i e he
    cases h
    have := parseSegtree_error _ _ he
    cases this
  · cases h

namespace TieL

attribute [local irreducible] parseVersionInfo formatVersion v1ParseVersionInfo v1FormatVersion

/-- `_normalize_set_version` for a pattern with braces, written by hand: the legacy parser and formatter;
    a PatternError of EITHER gives the text back unchanged -/
def v1NormalizeSetVersion (pat v : Str) : Except V1Err Str :=
  match v1ParseVersionInfo v pat with
  | .error .pattern => .ok v
  | .error e => .error e
  | .ok vi =>
    match v1FormatVersion vi pat with
    | .error .pattern => .ok v
    | r => r

end TieL

open TieL in
theorem tie_normalizeSetVersion_new (today : Date) (pat v : Str) (hp : isNewPattern pat = true)
    (ce : CmdEnv) (s : CState) :
    GenL.normalizeSetVersion today pat v ce s = (s, ofV2 (BV.normalizeSetVersion pat v today)) := by
  unfold GenL.normalizeSetVersion BV.normalizeSetVersion
  simp only [TieL.isNewPattern_gen', TieL.isNewPattern_gen'c, TieL.isNewPattern_gen'o, TieL.isNewPattern_gen'oc, TieL.isOldPattern_gen, TieL.isOldPattern_genc, hp, if_true, Bool.not_true, Bool.not_false, Bool.false_eq_true, if_false, pyV2ParseVersionInfo, pyV2FormatVersion]
  cases hpv : parseVersionInfo v pat today with
  | error e => cases e <;> cmd_simp [liftV2, CStop.isA, Exc.isPatternError]
  | ok vi =>
    have hnp := formatVersion_not_pattern vi pat
    cases hf : formatVersion vi pat with
    | error e =>
      rw [hf] at hnp
      cases e <;> first | (exact absurd rfl hnp) | cmd_simp [liftV2, CStop.isA, Exc.isPatternError]
    | ok r => cmd_simp [liftV2]

open TieL in
theorem tie_normalizeSetVersion_legacy (today : Date) (pat v : Str) (hp : isNewPattern pat = false)
    (ce : CmdEnv) (s : CState) :
    GenL.normalizeSetVersion today pat v ce s = (s, ofV1 (v1NormalizeSetVersion pat v)) := by
  unfold GenL.normalizeSetVersion v1NormalizeSetVersion
  simp only [TieL.isNewPattern_gen', TieL.isNewPattern_gen'c, TieL.isNewPattern_gen'o, TieL.isNewPattern_gen'oc, TieL.isOldPattern_gen, TieL.isOldPattern_genc, hp, Bool.false_eq_true, if_false, Bool.not_true, Bool.not_false, if_true, pyV1ParseVersionInfo, pyV1FormatVersion]
  cases hpv : v1ParseVersionInfo v pat with
  | error e => cases e <;> cmd_simp [liftV1, CStop.isA, Exc.isPatternError]
  | ok vi =>
    cases hf : v1FormatVersion vi pat with
    | error e => cases e <;> cmd_simp [liftV1, CStop.isA, Exc.isPatternError]
    | ok r => cmd_simp [liftV1]

/-- in words: the function never touches the state -/
theorem TieL.normalizeSetVersion_state (today : Date) (pat v : Str) (ce : CmdEnv) (s : CState) :
    (GenL.normalizeSetVersion today pat v ce s).1 = s := by
  cases hp : isNewPattern pat
  · rw [tie_normalizeSetVersion_legacy today pat v hp]
  · rw [tie_normalizeSetVersion_new today pat v hp]

end BV
