/-
  Proofs/Tie_validateVersionWithPattern.lean — the definition GENERATED from the Python source of
  `config._validate_version_with_pattern` (Gen/F_validateVersionWithPattern.lean) equals the reference
  `validateVersionE` (Model/FilePatterns.lean) for ALL inputs and ALL callees `v2version.parse_version_info` /
  `v1version.parse_version_info` (parameters; their value is discarded):

    try: parse (v2 or v1 by `is_new_pattern`) / except version.PatternError: raise ValueError — every OTHER exception
    passes through; then, for a new-style pattern only, `re.search(r"([\s]+)", version_pattern)` (any white space:
    ValueError) and `v2version.is_valid_week_pattern` (generated `GenF.isValidWeekPattern`, tied by
    `tie_isValidWeekPattern`: ValueError).

  * `tie_validateVersionWithPattern`        : = `validateVersionE`.
  * `validateVersionE_model`                : with the hand model's parsers as callees, the result is `.ok ()` exactly when
        `validVersion today cv vp isNew` (Model/FilePatterns.lean) holds, and it is ValueError unless the parser fails with
        something that is not `PatternError` (e.g. `re.error` for `version_pattern = "MAJOR.MINOR[.PATCH"`).
  * `tie_validateVersionWithPattern_gen`    : the callees instantiated by the GENERATED parsers
        `GenF.parseVersionInfo` / `GenV1.v1ParseVersionInfo` (hypotheses of `tie_parseVersionInfo`).
-/
import BumpverVerif.Gen.F_validateVersionWithPattern
import BumpverVerif.Proofs.FilePatternsLemmas
import BumpverVerif.Proofs.Tie_isValidWeekPattern
import BumpverVerif.Proofs.Tie_parseVersionInfo
import BumpverVerif.Proofs.Tie_v1ParseVersionInfo
namespace BV
open TieP Py

namespace TieP

theorem dropWhile_eq_nil_iff_any (s : Str) :
    s.dropWhile (fun c => !isPySpace c) = [] ↔ s.any isPySpace = false := by
  induction s with
  | nil => simp
  | cons c t ih =>
    cases hc : isPySpace c with
    | true => simp [List.dropWhile, hc]
    | false => simp [List.dropWhile, hc, ih]

/-- `re.search(r"([\s]+)", s)` finds something exactly when `s` has a white space character -/
theorem reSearchWs_isSome (s : Str) : (Py.reSearchWs s).isSome = s.any isPySpace := by
  unfold Py.reSearchWs
  cases h : s.dropWhile (fun c => !isPySpace c) with
  | nil => simp only [Option.isSome_none]; exact ((dropWhile_eq_nil_iff_any s).mp h).symm
  | cons c t =>
    simp only [Option.isSome_some]
    cases ha : s.any isPySpace with
    | true => rfl
    | false => rw [(dropWhile_eq_nil_iff_any s).mpr ha] at h; cases h

end TieP

theorem tie_validateVersionWithPattern {π2 π1 : Type} (parse2 : Str → Str → Except Str π2)
    (parse1 : Str → Str → Except Str π1) (cv vp : Str) (isNew : Bool) :
    GenF.validateVersionWithPattern parse2 parse1 cv vp isNew = validateVersionE parse2 parse1 cv vp isNew := by
  unfold GenF.validateVersionWithPattern validateVersionE
  have hws := reSearchWs_isSome vp
  cases isNew with
  | false =>
    simp only [Bool.false_eq_true, if_false]
    cases parse1 cv vp <;> rfl
  | true =>
    simp only [if_true, tie_isValidWeekPattern]
    cases parse2 cv vp with
    | error e => rfl
    | ok r =>
      simp only []
      cases hs : Py.reSearchWs vp with
      | none =>
        rw [hs] at hws
        simp only [Option.isSome_none] at hws
        simp only [← hws, Bool.false_eq_true, if_false]
        cases isValidWeekPattern vp <;> rfl
      | some m =>
        rw [hs] at hws
        simp only [Option.isSome_some] at hws
        simp only [← hws, if_true]

/-- the callees as the hand model has them -/
def parse2Model (today : Nat × Nat × Nat) (cv vp : Str) : Except Str VInfo :=
  (parseVersionInfo cv vp today).mapError PErr.pyClass
def parse1Model (cv vp : Str) : Except Str V1Info := (v1ParseVersionInfo cv vp).mapError V1Err.pyClass

theorem PErr.pyClass_beq_pattern (e : PErr) : (e.pyClass == "PatternError".toList) = (e == PErr.pattern) := by
  cases e <;> decide

theorem V1Err.pyClass_beq_pattern (e : V1Err) : (e.pyClass == "PatternError".toList) = (e == V1Err.pattern) := by
  cases e <;> decide

/-- the parser's failure is `version.PatternError` (or there is none) -/
def parseFailsOnlyWithPatternError (today : Nat × Nat × Nat) (cv vp : Str) (isNew : Bool) : Prop :=
  if isNew then ∀ e, parseVersionInfo cv vp today = .error e → e = .pattern
  else ∀ e, v1ParseVersionInfo cv vp = .error e → e = .pattern

theorem validateVersionE_model (today : Nat × Nat × Nat) (cv vp : Str) (isNew : Bool) :
    (validateVersionE (parse2Model today) parse1Model cv vp isNew = .ok () ↔ validVersion today cv vp isNew = true) ∧
    (parseFailsOnlyWithPatternError today cv vp isNew →
      validateVersionE (parse2Model today) parse1Model cv vp isNew =
        if validVersion today cv vp isNew then .ok () else .error "ValueError".toList) := by
  unfold validateVersionE validVersion parseFailsOnlyWithPatternError parse2Model parse1Model
  cases isNew with
  | false =>
    simp only [Bool.false_eq_true, if_false]
    cases h : v1ParseVersionInfo cv vp with
    | ok v => simp [Except.mapError]
    | error e =>
      refine ⟨?_, fun hp => ?_⟩
      · simp only [Except.mapError, V1Err.pyClass_beq_pattern]
        cases (e == V1Err.pattern) <;> simp
      · have := hp e rfl
        subst this
        simp only [Except.mapError, V1Err.pyClass_beq_pattern]
        simp
  | true =>
    simp only [if_true]
    cases h : parseVersionInfo cv vp today with
    | ok v =>
      simp only [Except.mapError, Bool.true_and]
      cases vp.any isPySpace <;> cases isValidWeekPattern vp <;> simp
    | error e =>
      refine ⟨?_, fun hp => ?_⟩
      · simp only [Except.mapError, PErr.pyClass_beq_pattern]
        cases (e == PErr.pattern) <;> simp
      · have := hp e rfl
        subst this
        simp only [Except.mapError, PErr.pyClass_beq_pattern]
        simp

/-- the callees instantiated by the GENERATED parsers (translate_parse.py / translate_v1.py) -/
theorem tie_validateVersionWithPattern_gen (today : Nat × Nat × Nat) (cv vp : Str) (isNew : Bool)
    (hT : today.2.1 ≠ 0)
    (hG : ∀ r, compileRe (normalizePattern vp vp) = some r → validGroupNames r = true) :
    GenF.validateVersionWithPattern
        (fun cv vp => (GenF.parseVersionInfo cv vp today).mapError PErr.pyClass)
        (fun cv vp => (GenV1.v1ParseVersionInfo cv vp).mapError V1Err.pyClass) cv vp isNew =
      validateVersionE (parse2Model today) parse1Model cv vp isNew := by
  rw [tie_validateVersionWithPattern]
  unfold validateVersionE parse2Model parse1Model
  simp only [tie_parseVersionInfo cv vp today hT hG, tie_v1ParseVersionInfo]

end BV
