/-
  Proofs/Tie_parseConfig.lean — the definition GENERATED from the Python source of
  `config._parse_config` (Gen/F_parseConfig.lean, harness/translate_config.py) equals the hand model
  `BV.parseConfig` (Model/Config.lean) on ALL raw dicts.

  * The three callees that stay parameters are instantiated from the hand model's environment
    `CfgEnv`: `_validate_version_with_pattern` ↦ `validateOf env`, `_compile_file_patterns` ↦
    `compileOf env` — a function of the raw dict AS MUTATED so far (it reads `version_pattern` from
    it), so the write-backs `raw_cfg['version_pattern'] = version_pattern.strip(...)` are part of the
    obligation — and `pl.Path(p).exists()` ↦ `env.pathExists`.  `version.to_pep440` is an arbitrary
    function `pep` (the model's `EffectiveConfig` has no such field; the tie says the field is
    `pep current_version`).
  * Result abstraction `absConfig`: `tag_scope` by its value, `commit`/`tag`/`push` by truthiness
    (a NamedTuple does not check its field types: a TOML `commit = "true"` stays a str — finding
    F-C18-quoted-bool — and every reader tests truthiness).
  * Error abstraction: the generated definition answers the Python exception class, the hand model
    a `CfgErr`; `CfgErr.pyClass`.  The pseudo class `!cast` never occurs.
  * `embedRaw`: the hand model's `RawCfg` always has `file_patterns` (set by `_parse_raw_config`).

  The proof follows the control flow once (every failing branch closes by evaluation); it does not
  mention the literal defaults (`DEFAULT_COMMIT_MESSAGE`, …): those are compared with the generated
  tables by `decide`.
-/
import BumpverVerif.Gen.F_parseConfig
import BumpverVerif.Proofs.Tie_parseCfgStrings
set_option linter.unusedSimpArgs false
namespace BV
open TieH
open GenF

/-- `_validate_version_with_pattern(current_version, version_pattern, is_new_pattern)` -/
def validateOf (env : CfgEnv) (cv vp : Str) (isNew : Bool) : Except Str Unit :=
  if env.validVersion cv vp isNew then .ok () else .error "ValueError".toList

/-- `_compile_file_patterns(raw_cfg, is_new_pattern)`: reads `raw_cfg['version_pattern']` and
    `raw_cfg['file_patterns']` -/
def compileOf (env : CfgEnv) (d : TomlSection) (isNew : Bool) : Except Str FilePatterns :=
  match rawStr "version_pattern".toList d.opts with
  | .error e => .error e.pyClass
  | .ok vp => (compileFilePatterns env isNew vp (d.filePatterns.getD [])).mapError CfgErr.pyClass

/-- what the hand model keeps of a `config.Config` -/
def absConfig (c : Cfg.Config FilePatterns) : EffectiveConfig :=
  { currentVersion := c.current_version, versionPattern := c.version_pattern,
    commitMessage := c.commit_message, tagMessage := c.tag_message, tagScope := c.tag_scope.value,
    preCommitHook := c.pre_commit_hook, postCommitHook := c.post_commit_hook,
    commit := c.commit.truthy, tag := c.tag.truthy, push := c.push.truthy,
    isNewPattern := c.is_new_pattern, filePatterns := c.file_patterns }

theorem tie_parseConfig_full (env : CfgEnv) (pep : Str → Str) (raw : RawCfg) :
    (GenF.parseConfig (validateOf env) pep (compileOf env) env.pathExists (embedRaw raw)).map
        (fun c => (absConfig c, c.pep440_version))
      = ((parseConfig env raw).mapError CfgErr.pyClass).map (fun e => (e, pep e.currentVersion)) := by
  unfold GenF.parseConfig parseConfig
  simp only [embedRaw, tie_parseCfgStrings, strOptDefault_match, strReq_match, stripQuotes, bind, Except.bind, pure,
    Except.pure, emptyStr, tagScope_default]
  simp (disch := decide) only [lookup_setOpt_ne, lookup_setOpt_eq, parseCfgStrings_setOpt_ne]
  -- commit_message, tag_message: `raw_cfg.get(key, DEFAULT).strip(...)`
  rw [strOf_default "commit_message".toList _ _ Gen.defaultCommitMessage (by decide)]
  generalize Py.strOf ((lookup "commit_message".toList raw.opts).getD _) = x1
  rcases x1 with _ | cm <;> simp only [Except.map, Except.mapError, pyClass_notAString]
  rw [strOf_default "tag_message".toList _ _ Gen.defaultTagMessage (by decide)]
  generalize Py.strOf ((lookup "tag_message".toList raw.opts).getD _) = x2
  rcases x2 with _ | tm <;> simp only [Except.map, Except.mapError, pyClass_notAString]
  -- current_version, version_pattern: `raw_cfg[key].strip(...)`
  rcases h3 : lookup "current_version".toList raw.opts with _ | (cv | _ | _) <;>
    simp only [Py.strOf, Except.map, Except.mapError, pyClass_notAString, pyClass_keyError]
  rcases h4 : lookup "version_pattern".toList raw.opts with _ | (vp | _ | _) <;>
    simp only [Py.strOf, Except.map, Except.mapError, pyClass_notAString, pyClass_keyError]
  -- _validate_version_with_pattern, _compile_file_patterns (parameters)
  simp only [validateOf, compileOf, rawStr, require, Bool.not_or, isNew_fold, isNew_fold', lookup_setOpt_eq,
    Option.getD_some]
  generalize env.validVersion _ _ _ = vv
  cases vv <;>
    simp only [Bool.false_eq_true, if_false, if_true, Except.map, Except.mapError, pyClass_invalidVersion]
  generalize compileFilePatterns env _ _ _ = cc
  rcases cc with ce | fps <;> simp only [Except.map, Except.mapError]
  -- tag_scope = TagScope(_parse_cfg_strings(raw_cfg, 'tag_scope', DEFAULT_TAG_SCOPE))
  rcases hts : parseCfgStrings "tag_scope".toList Gen.defaultTagScope raw.opts with e | ts <;>
    simp only [Except.map, Except.mapError]
  simp only [← tagScope_ofValue_isSome]
  rcases hov : Cfg.TagScope.ofValue ts with _ | sc <;>
    simp only [Option.isSome_none, Option.isSome_some, Bool.false_eq_true, if_false, if_true,
      Except.map, Except.mapError, pyClass_tagScope]
  -- the two hooks
  simp (disch := decide) only [parseCfgStrings_stripOpt_ne, parseCfgStrings_setOpt_ne]
  rcases hpre : parseCfgStrings "pre_commit_hook".toList [] raw.opts with e | pre <;>
    simp only [Except.map, Except.mapError]
  simp (disch := decide) only [parseCfgStrings_stripOpt_ne, parseCfgStrings_setOpt_ne]
  rcases hpost : parseCfgStrings "post_commit_hook".toList [] raw.opts with e | post <;>
    simp only [Except.map, Except.mapError]
  -- commit, tag, push
  simp (disch := decide) only [lookup_stripOpt_ne, lookup_setOpt_ne]
  simp only [optVal]
  rcases hcmt : lookup "commit".toList raw.opts with _ | vc <;>
    try simp only [Except.map, Except.mapError, pyClass_keyError]
  rcases htag : lookup "tag".toList raw.opts with _ | vt <;>
    try simp only [Except.map, Except.mapError, pyClass_keyError]
  rcases hpush : lookup "push".toList raw.opts with _ | vp' <;>
    try simp only [Except.map, Except.mapError, pyClass_keyError]
  -- `if tag is None: tag = False`, the flag checks, the record: every test is a Boolean combination
  -- of seven atoms; all 128 valuations are closed by evaluation
  have hsc := tagScope_value_of ts sc hov
  subst hsc
  simp only [apply_ite Prod.snd, apply_ite Prod.fst, tagScope_mem_all, checkFlags, apply_ite RawVal.truthy,
    truthy_bool, truthy_ite_none, truthy_ite_nnone]
  generalize hbt : vt.truthy = bt
  generalize hbc : vc.truthy = bc
  generalize hbp : vp'.truthy = bp
  generalize env.pathExists pre = e1
  generalize env.pathExists post = e2
  generalize List.isEmpty pre = i1
  generalize List.isEmpty post = i2
  cases bt <;> cases bc <;> cases bp <;> cases e1 <;> cases e2 <;> cases i1 <;> cases i2 <;>
    simp only [Bool.and_false, Bool.and_true, Bool.false_and, Bool.true_and, Bool.not_true, Bool.not_false,
      Bool.false_eq_true, if_true, if_false, absConfig, apply_ite RawVal.truthy, truthy_bool, truthy_ite_none,
      truthy_ite_nnone, pyClass_tagRequiresCommit, pyClass_pushRequiresCommit,
      pyClass_preHookMissing, pyClass_postHookMissing] <;>
    simp only [hbt, hbc, hbp]

/-- the tie in its plain form -/
theorem tie_parseConfig (env : CfgEnv) (pep : Str → Str) (raw : RawCfg) :
    (GenF.parseConfig (validateOf env) pep (compileOf env) env.pathExists (embedRaw raw)).map absConfig
      = (parseConfig env raw).mapError CfgErr.pyClass := by
  have h := congrArg (Except.map Prod.fst) (tie_parseConfig_full env pep raw)
  cases h1 : GenF.parseConfig (validateOf env) pep (compileOf env) env.pathExists (embedRaw raw) <;>
    cases h2 : parseConfig env raw <;> simp_all [Except.map, Except.mapError]

end BV
