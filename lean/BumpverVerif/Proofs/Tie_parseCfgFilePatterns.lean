/-
  Proofs/Tie_parseCfgFilePatterns.lean — the definition GENERATED from the Python source of the
  GENERATOR `config._parse_cfg_file_patterns` (Gen/F_parseCfgFilePatterns.lean: the list of the
  yielded pairs) equals the hand model `BV.iniFilePatterns` on every parser state; it never raises
  (`items(section)` is only called after `has_section(section)`).
-/
import BumpverVerif.Gen.F_parseCfgFilePatterns
import BumpverVerif.Proofs.TieConfigCommon
set_option linter.unusedSimpArgs false
namespace BV
open TieH

theorem tie_parseCfgFilePatterns (d : IniDoc) :
    GenF.parseCfgFilePatterns d = .ok (iniFilePatterns d) := by
  unfold GenF.parseCfgFilePatterns iniFilePatterns iniPatternLines
  rcases h1 : lookup "pycalver:file_patterns".toList d.sections with _ | items1 <;>
    simp only [Option.isSome_none, Option.isSome_some, Bool.false_eq_true, if_true, if_false,
      foldl_append_singleton, foldl_append_if, List.filter_map, Function.comp_def, List.nil_append, List.foldl_nil,
      List.map_nil]
  rcases h2 : lookup "bumpver:file_patterns".toList d.sections with _ | items2 <;>
    simp only [Option.isSome_none, Option.isSome_some, Bool.false_eq_true, if_true, if_false,
      foldl_append_singleton, foldl_append_if, List.filter_map, Function.comp_def, List.nil_append, List.foldl_nil,
      List.map_nil]

end BV
