/-
  Proofs/PartLemmas.lean — helper lemmas about `Re.m` on the digit-run regexes.
-/
import BumpverVerif.Model.V2Version
import BumpverVerif.Proofs.Digits
namespace BV

end BV
