/-
  Proofs/PartLemmas.lean — helper lemmas about `Re.m` on the digit-run regexes.
-/
import BumpverVerif.Model.V2Version
import BumpverVerif.Model.ReDecEq
import BumpverVerif.Proofs.Digits
import BumpverVerif.Proofs.V2Lemmas
import BumpverVerif.Proofs.CalendarLemmas
namespace BV

/- `Re` carries no `DecidableEq` in the model files the driver links (it is not needed there); the closed shape
   obligations of Props/C02.lean compare parsed regexes by kernel evaluation: instance in Model/ReDecEq.lean -/

/-! ### the two character classes `[0-9]` and `[1-9]` -/

/-- `[0-9]` as `parseRe` builds it -/
def digitCls : Re := .cls false [.range '0' '9']

/-- `[1-9]` as `parseRe` builds it -/
def posDigitCls : Re := .cls false [.range '1' '9']

theorem range09_matches (c : Char) : (ClsItem.range '0' '9').matches c = isDigit c := rfl

theorem digitCls_m_cons (st : MSt) (c : Char) (r : Str) (hr : st.rest = c :: r)
    (hc : isDigit c = true) : digitCls.m st = [st.step r] := by
  simp only [digitCls, Re.m, hr, List.any_cons, List.any_nil, Bool.or_false, range09_matches, hc]
  rfl

theorem digitCls_m_noDigit (st : MSt) (h : ∀ c, st.rest.head? = some c → isDigit c = false) :
    digitCls.m st = [] := by
  cases hr : st.rest with
  | nil => simp only [digitCls, Re.m, hr]
  | cons c r =>
    have hc := h c (by rw [hr]; rfl)
    simp only [digitCls, Re.m, hr, List.any_cons, List.any_nil, Bool.or_false, range09_matches, hc]
    rfl

theorem posDigit_of_ne_zero (c : Char) (hc : isDigit c = true) (h0 : c ≠ '0') :
    (ClsItem.range '1' '9').matches c = true := by
  rw [isDigit_iff] at hc
  have hne : c.toNat ≠ 48 := by
    intro e
    apply h0
    apply Char.toNat_inj.mp
    rw [e]; rfl
  simp only [ClsItem.matches, Bool.and_eq_true, decide_eq_true_eq, Char.le_def]
  show 49 ≤ c.toNat ∧ c.toNat ≤ 57
  omega

theorem posDigitCls_m_cons (st : MSt) (c : Char) (r : Str) (hr : st.rest = c :: r)
    (hc : isDigit c = true) (h0 : c ≠ '0') : posDigitCls.m st = [st.step r] := by
  simp only [posDigitCls, Re.m, hr, List.any_cons, List.any_nil, Bool.or_false,
    posDigit_of_ne_zero c hc h0]
  rfl

/-! ### maximal munch: `[0-9]*` / `[0-9]+` consume the whole digit run -/

/-- greedy `[0-9]{min,}` on a digit run `ds` followed by a non-digit continuation: the FIRST
    result (what `re.match` reports) has consumed exactly `ds` -/
theorem mRep_digits_head (rest : Str) (hrest : ∀ c, rest.head? = some c → isDigit c = false) :
    ∀ (ds : Str), allDigits ds = true → ∀ (fuel min : Nat) (st : MSt),
      ds.length ≤ fuel → min ≤ ds.length → st.rest = ds ++ rest →
      ∃ st' tl, mRep digitCls.m fuel min none st = st' :: tl ∧ st'.rest = rest ∧ st'.caps = st.caps := by
  intro ds
  induction ds with
  | nil =>
    intro _ fuel min st _ hmin hst
    have hmin0 : min = 0 := by simpa using hmin
    subst hmin0
    have hst' : st.rest = rest := by simpa using hst
    cases fuel with
    | zero => exact ⟨st, [], by simp [mRep], hst', rfl⟩
    | succ f =>
      refine ⟨st, [], ?_, hst', rfl⟩
      have hno : digitCls.m st = [] := digitCls_m_noDigit st (by rw [hst']; exact hrest)
      simp [mRep, hno]
  | cons d ds ih =>
    intro hd fuel min st hfuel hmin hst
    rw [allDigits_cons] at hd
    cases fuel with
    | zero => simp at hfuel
    | succ f =>
      have hst' : st.rest = d :: (ds ++ rest) := by simpa using hst
      have hstep : digitCls.m st = [st.step (ds ++ rest)] := digitCls_m_cons st d _ hst' hd.1
      obtain ⟨st', tl, hm, hr, hc⟩ := ih hd.2 f (min - 1) (st.step (ds ++ rest))
        (by simpa using hfuel) (by simp at hmin; omega) rfl
      refine ⟨st', tl ++ (if (min == 0) = true then [st] else []), ?_, hr, hc⟩
      have hlt : (st.step (ds ++ rest)).rest.length < st.rest.length := by
        rw [hst']; simp [MSt.step]
      simp only [mRep, hstep, List.filter_cons, List.filter_nil, hlt, decide_true, ↓reduceIte,
        List.flatMap_cons, List.flatMap_nil, List.append_nil, Option.map_none, hm]
      simp

/-- `[0-9]{k}` with `k` = length of the digit run `ds`: exactly `ds` is consumed, WHATEVER follows -/
theorem mRep_digits_exact (rest : Str) :
    ∀ (ds : Str), allDigits ds = true → ∀ (fuel : Nat) (st : MSt),
      ds.length ≤ fuel → st.rest = ds ++ rest →
      ∃ st' tl, mRep digitCls.m fuel ds.length (some ds.length) st = st' :: tl ∧
        st'.rest = rest ∧ st'.caps = st.caps := by
  intro ds
  induction ds with
  | nil =>
    intro _ fuel st _ hst
    have hst' : st.rest = rest := by simpa using hst
    cases fuel with
    | zero => exact ⟨st, [], by simp [mRep], hst', rfl⟩
    | succ f => exact ⟨st, [], by simp [mRep], hst', rfl⟩
  | cons d ds ih =>
    intro hd fuel st hfuel hst
    rw [allDigits_cons] at hd
    cases fuel with
    | zero => simp at hfuel
    | succ f =>
      have hst' : st.rest = d :: (ds ++ rest) := by simpa using hst
      have hstep : digitCls.m st = [st.step (ds ++ rest)] := digitCls_m_cons st d _ hst' hd.1
      obtain ⟨st', tl, hm, hr, hc⟩ := ih hd.2 f (st.step (ds ++ rest)) (by simpa using hfuel) rfl
      refine ⟨st', tl, ?_, hr, hc⟩
      have hlt : (st.step (ds ++ rest)).rest.length < st.rest.length := by
        rw [hst']; simp [MSt.step]
      simp only [mRep, hstep, List.filter_cons, List.filter_nil, hlt, decide_true, ↓reduceIte,
        List.flatMap_cons, List.flatMap_nil, List.append_nil, List.length_cons]
      simp [hm]

/-! ### `re.match` on the three unbounded shapes -/

theorem reMatch_stop_of_head (r : Re) (s : Str) (st' : MSt) (tl : List MSt)
    (h : r.m { rest := s, start := true, caps := [] } = st' :: tl) :
    (reMatch r s).map (·.stop) = some (s.length - st'.rest.length) := by
  simp [reMatch, h]

/-- `[0-9]+` -/
theorem match_digitsPlus (ds rest : Str) (hne : ds ≠ []) (hd : allDigits ds = true)
    (hrest : ∀ c, rest.head? = some c → isDigit c = false) :
    (reMatch (.rep digitCls 1 none) (ds ++ rest)).map (·.stop) = some ds.length := by
  have hlen : 1 ≤ ds.length := List.length_pos_iff.mpr hne
  obtain ⟨st', tl, hm, hr, _⟩ := mRep_digits_head rest hrest ds hd (ds ++ rest).length 1
    { rest := ds ++ rest, start := true, caps := [] } (by simp) hlen rfl
  rw [reMatch_stop_of_head _ _ st' tl (by simpa [Re.m] using hm), hr]
  simp

/-- `[1-9][0-9]*` -/
theorem match_posInt (c : Char) (ds rest : Str) (hc : isDigit c = true) (h0 : c ≠ '0')
    (hd : allDigits ds = true) (hrest : ∀ c, rest.head? = some c → isDigit c = false) :
    (reMatch (.seq posDigitCls (.rep digitCls 0 none)) (c :: ds ++ rest)).map (·.stop)
      = some (c :: ds).length := by
  have h1 := posDigitCls_m_cons { rest := c :: ds ++ rest, start := true, caps := [] } c (ds ++ rest)
    rfl hc h0
  obtain ⟨st', tl, hm, hr, _⟩ := mRep_digits_head rest hrest ds hd (ds ++ rest).length 0
    (MSt.step { rest := c :: ds ++ rest, start := true, caps := [] } (ds ++ rest)) (by simp)
    (by omega) rfl
  have hm' : (Re.seq posDigitCls (.rep digitCls 0 none)).m
      { rest := c :: ds ++ rest, start := true, caps := [] } = st' :: tl := by
    simp only [Re.m] at h1 ⊢
    rw [h1]
    simpa [MSt.step] using hm
  rw [reMatch_stop_of_head _ _ st' tl hm', hr]
  simp only [List.length_cons, List.length_append, Option.some.injEq]
  omega

/-- `[1-9][0-9]{k}` on `c :: ds` with `ds.length = k`, whatever follows -/
theorem match_posFixed (c : Char) (ds rest : Str) (hc : isDigit c = true) (h0 : c ≠ '0')
    (hd : allDigits ds = true) :
    (reMatch (.seq posDigitCls (.rep digitCls ds.length (some ds.length))) (c :: ds ++ rest)).map (·.stop)
      = some (c :: ds).length := by
  have h1 := posDigitCls_m_cons { rest := c :: ds ++ rest, start := true, caps := [] } c (ds ++ rest)
    rfl hc h0
  obtain ⟨st', tl, hm, hr, _⟩ := mRep_digits_exact rest ds hd (ds ++ rest).length
    (MSt.step { rest := c :: ds ++ rest, start := true, caps := [] } (ds ++ rest)) (by simp) rfl
  have hm' : (Re.seq posDigitCls (.rep digitCls ds.length (some ds.length))).m
      { rest := c :: ds ++ rest, start := true, caps := [] } = st' :: tl := by
    simp only [Re.m] at h1 ⊢
    rw [h1]
    simpa [MSt.step] using hm
  rw [reMatch_stop_of_head _ _ st' tl hm', hr]
  simp only [List.length_cons, List.length_append, Option.some.injEq]
  omega

/-! ### INC1 under `_incr_numeric` -/

theorem get_inc1 (v : VInfo) : v.get "inc1".toList = .nat v.inc1 := rfl

theorem incrNumeric_inc1_pos (fs : List Str) (old cur new : VInfo) (fl : IncrFlags)
    (h1 : 1 ≤ cur.inc1) (h : incrNumeric fs old cur fl = .ok new) : 1 ≤ new.inc1 := by
  obtain ⟨b, tg, pt, _, _, hnew⟩ := incrNumeric_ok fs old cur fl new h
  subst hnew
  rcases resetRolloverFields_get_cases fs old _ "inc1".toList with hk | ⟨init, hl, hi⟩
  · rw [get_inc1, get_inc1] at hk
    have := FV.nat.inj hk
    rw [this]
    show 1 ≤ cur.inc1 + _
    omega
  · have hinit : init = "1".toList := by
      have : lookup "inc1".toList Gen.fieldInitialValues = some "1".toList := by decide
      rw [this] at hl
      exact (Option.some.inj hl).symm
    subst hinit
    rw [get_inc1] at hi
    have := FV.nat.inj hi
    rw [this]
    decide

/-! ### `cal_info` stays inside the recognised domains -/

theorem isoWeeksInYear_range (y : Nat) : 52 ≤ isoWeeksInYear y ∧ isoWeeksInYear y ≤ 53 := by
  rw [isoWeeksInYear_eq]; split <;> omega

theorem weekday_lt (y m d : Nat) : weekday y m d < 7 := by
  unfold weekday; omega

theorem isoWeek_range_aux (w W Wp y : Nat) (hW : 52 ≤ W ∧ W ≤ 53) (hWp : 52 ≤ Wp ∧ Wp ≤ 53) :
    1 ≤ (if w = 0 then (y - 1, Wp) else if W < w then (y + 1, 1) else (y, w)).2 ∧
    (if w = 0 then (y - 1, Wp) else if W < w then (y + 1, 1) else (y, w)).2 ≤ 53 := by
  by_cases h0 : w = 0
  · rw [if_pos h0]; exact ⟨by show 1 ≤ Wp; omega, by show Wp ≤ 53; omega⟩
  · rw [if_neg h0]
    by_cases h1 : W < w
    · rw [if_pos h1]; exact ⟨Nat.le_refl 1, by show 1 ≤ 53; omega⟩
    · rw [if_neg h1]; exact ⟨by show 1 ≤ w; omega, by show w ≤ 53; omega⟩

theorem calInfo_domains (y m d : Nat) (hv : validDate y m d = true) :
    1 ≤ (calInfo y m d).month ∧ (calInfo y m d).month ≤ 12 ∧ 1 ≤ (calInfo y m d).dom ∧
    (calInfo y m d).dom ≤ 31 ∧ 1 ≤ (calInfo y m d).doy ∧ (calInfo y m d).doy ≤ 366 ∧
    1 ≤ (calInfo y m d).quarter ∧ (calInfo y m d).quarter ≤ 4 ∧ 1 ≤ (calInfo y m d).weekV ∧
    (calInfo y m d).weekV ≤ 53 ∧ (calInfo y m d).weekW ≤ 53 ∧ (calInfo y m d).weekU ≤ 53 ∧
    (calInfo y m d).yearY = y ∧ 1 ≤ y ∧ y ≤ 9999 := by
  simp only [validDate, Bool.and_eq_true, decide_eq_true_eq, daysInMonth] at hv
  obtain ⟨⟨⟨⟨⟨hy1, hy2⟩, hm1⟩, hm12⟩, hd1⟩, hd⟩ := hv
  have hd := of_decide_eq_true hd
  have hd31 := daysInMonthL_le (isLeap y) m
  have ht := mdInvOK_all (isLeap y) m (by omega) d (by omega)
  simp only [mdInvOK, decide_eq_true_eq] at ht
  obtain ⟨_, hlen⟩ := ht hm1 hd1 hd
  have hdoy : daysBeforeMonthL (isLeap y) m + d ≤ 366 := by
    split at hlen <;> omega
  have hwd := weekday_lt y m d
  have hW := isoWeeksInYear_range y
  have hWp := isoWeeksInYear_range (y - 1)
  simp only [calInfo, quarterFromMonth, weekW, weekU, isoWeek, isoCal, dayOfYear]
  refine ⟨hm1, hm12, hd1, by omega, by omega, hdoy, by omega, by omega, ?_, ?_, by omega, by omega,
    trivial, hy1, hy2⟩
  · exact (isoWeek_range_aux _ _ _ y hW hWp).1
  · exact (isoWeek_range_aux _ _ _ y hW hWp).2

end BV
