/-
  Proofs/V1Lemmas.lean — helper lemmas for Props/C20.lean (legacy engine).
-/
import BumpverVerif.Model.V1
import BumpverVerif.Proofs.Digits
import BumpverVerif.Proofs.PartLemmas
import BumpverVerif.Proofs.PatternLemmas
import BumpverVerif.Proofs.CliLemmas
namespace BV

/-! ### `\d` runs: the maximal-munch lemmas of PartLemmas.lean, transported from `[0-9]` to `\d` -/

/-- `\d` as `parseRe` builds it -/
def dCls : Re := .cls false [.digit]

theorem dCls_m_eq : dCls.m = digitCls.m := by
  funext st
  simp only [dCls, digitCls, Re.m, List.any_cons, List.any_nil, Bool.or_false, range09_matches]
  rfl

theorem rep_dCls_m_eq (min : Nat) (max : Option Nat) :
    (Re.rep dCls min max).m = (Re.rep digitCls min max).m := by
  funext st
  simp only [Re.m, dCls_m_eq]

theorem reMatch_congr {r r' : Re} (h : r.m = r'.m) (s : Str) : reMatch r s = reMatch r' s := by
  simp only [reMatch, h]

/-- `\d{min,}` on a digit run of at least `min` digits followed by a non-digit continuation:
    the whole run is consumed -/
theorem match_dRun (min : Nat) (ds rest : Str) (hmin : min ≤ ds.length) (hd : allDigits ds = true)
    (hrest : ∀ c, rest.head? = some c → isDigit c = false) :
    (reMatch (.rep dCls min none) (ds ++ rest)).map (·.stop) = some ds.length := by
  rw [reMatch_congr (rep_dCls_m_eq min none)]
  obtain ⟨st', tl, hm, hr, _⟩ := mRep_digits_head rest hrest ds hd (ds ++ rest).length min
    { rest := ds ++ rest, start := true, caps := [] } (by simp) hmin rfl
  rw [reMatch_stop_of_head _ _ st' tl (by simpa [Re.m] using hm), hr]
  simp

/-- `[1-9]\d*` -/
theorem match_dPosInt (c : Char) (ds rest : Str) (hc : isDigit c = true) (h0 : c ≠ '0')
    (hd : allDigits ds = true) (hrest : ∀ c, rest.head? = some c → isDigit c = false) :
    (reMatch (.seq posDigitCls (.rep dCls 0 none)) (c :: ds ++ rest)).map (·.stop)
      = some (c :: ds).length := by
  have hm : (Re.seq posDigitCls (.rep dCls 0 none)).m = (Re.seq posDigitCls (.rep digitCls 0 none)).m := by
    funext st
    simp only [Re.m, dCls_m_eq]
  rw [reMatch_congr hm]
  exact match_posInt c ds rest hc h0 hd hrest

/-! ### substring search -/

theorem findIdx_of_prefix (pat s : Str) (h : pat.isPrefixOf s = true) : (findIdx pat s).isSome = true := by
  cases s with
  | nil =>
    cases pat with
    | nil => simp [findIdx]
    | cons c cs => simp at h
  | cons x xs => simp [findIdx, h]

theorem findIdx_append_isSome (pat : Str) : ∀ (a b : Str), (findIdx pat (a ++ (pat ++ b))).isSome = true := by
  intro a
  induction a with
  | nil =>
    intro b
    exact findIdx_of_prefix pat _ (List.isPrefixOf_iff_prefix.mpr (List.prefix_append pat b))
  | cons x a ih =>
    intro b
    have := ih b
    simp only [List.cons_append, findIdx]
    split
    · rfl
    · cases hf : findIdx pat (a ++ (pat ++ b)) with
      | none => rw [hf] at this; cases this
      | some i => simp

theorem isInfix_append (pat a b : Str) : isInfix pat (a ++ (pat ++ b)) = true :=
  findIdx_append_isSome pat a b

theorem mem_of_isInfix {pat s : Str} (h : isInfix pat s = true) : ∀ c ∈ pat, c ∈ s := by
  unfold isInfix at h
  cases hf : findIdx pat s with
  | none => simp [hf] at h
  | some i => exact findIdx_some_subset hf

/-! ### which engine: patterns built from documented legacy parts and brace-free text -/

/-- a token of a legacy pattern: literal text or a `{part}` -/
inductive LTok
  | lit (s : Str)
  | part (name : Str)
  deriving Repr

def LTok.text : LTok → Str
  | .lit s => s
  | .part n => '{' :: n ++ ['}']

/-- the pattern a token list spells -/
def renderToks : List LTok → Str
  | [] => []
  | t :: ts => t.text ++ renderToks ts

def braceFree (s : Str) : Bool := !s.contains '{' && !s.contains '}'

/-- the documented legacy parts: the composites and the single parts of the property text, with
    the spellings the legacy README lists next to them -/
def docParts : List Str :=
  ["pycalver", "semver", "calver", "build", "release", "pep440_pycalver", "pep440_version", "version",
   "release_tag", "year", "month", "dom", "doy", "quarter", "build_no", "MAJOR", "MINOR", "PATCH",
   "month_short", "dom_short", "doy_short", "yy", "yyyy", "iso_week", "us_week", "tag", "pep440_tag",
   "bid", "BID", "BB", "BBB", "BBBB", "BBBBB", "BBBBBB", "BBBBBBB", "MM", "MMM", "MMMM", "MMMMM",
   "PP", "PPP", "PPPP", "PPPPP"].map String.toList

def LTok.documented : LTok → Bool
  | .lit s => braceFree s
  | .part n => docParts.contains n

theorem isNewPattern_iff (p : Str) : isNewPattern p = true ↔ ('{' ∉ p ∧ '}' ∉ p) := by
  simp [isNewPattern]

theorem braceFree_iff (p : Str) : braceFree p = true ↔ ('{' ∉ p ∧ '}' ∉ p) := by
  simp [braceFree]

/-- every documented part is a key of the generated tables `incr_dispatch` scans -/
theorem docParts_known :
    docParts.all (fun n => (Gen.v1PartPatterns.map (·.1) ++ Gen.v1FullPartFormats.map (·.1)).contains n) = true := by
  decide +kernel

theorem hasV1Part_of_infix (n p : Str) (hn : n ∈ docParts) (h : isInfix ('{' :: n ++ ['}']) p = true) :
    hasV1Part p = true := by
  have hk := List.all_eq_true.mp docParts_known n hn
  have hmem : n ∈ Gen.v1PartPatterns.map (·.1) ++ Gen.v1FullPartFormats.map (·.1) := by
    simpa using hk
  unfold hasV1Part hasV1PartWith
  exact List.any_eq_true.mpr ⟨n, hmem, h⟩

/-- `hasV1Part` needs a `{`: the direction that holds for EVERY pattern -/
theorem not_new_of_hasV1Part (p : Str) (h : hasV1Part p = true) : isNewPattern p = false := by
  unfold hasV1Part hasV1PartWith at h
  obtain ⟨n, _, hn⟩ := List.any_eq_true.mp h
  have hb : '{' ∈ p := mem_of_isInfix hn '{' (by simp)
  cases hnp : isNewPattern p with
  | false => rfl
  | true => exact absurd hb ((isNewPattern_iff p).mp hnp).1

theorem renderToks_infix (ts : List LTok) (t : LTok) (h : t ∈ ts) :
    isInfix t.text (renderToks ts) = true := by
  induction ts with
  | nil => cases h
  | cons u us ih =>
    rcases List.mem_cons.mp h with rfl | hm
    · have := isInfix_append t.text [] (renderToks us)
      simpa [renderToks] using this
    · have hi := ih hm
      unfold isInfix at hi ⊢
      cases hf : findIdx t.text (renderToks us) with
      | none => rw [hf] at hi; cases hi
      | some i =>
        -- an occurrence in the tail is an occurrence in the whole
        have hp := findIdx_some_prefix hf
        obtain ⟨b, hb⟩ := List.isPrefixOf_iff_prefix.mp hp
        have hsplit : renderToks (u :: us) = (u.text ++ (renderToks us).take i) ++ (t.text ++ b) := by
          simp only [renderToks, List.append_assoc]
          rw [hb, List.take_append_drop]
        rw [hsplit]
        exact findIdx_append_isSome _ _ _

theorem new_of_no_parts (ts : List LTok) (hdoc : ∀ t ∈ ts, t.documented = true)
    (hno : ∀ n, LTok.part n ∉ ts) : isNewPattern (renderToks ts) = true := by
  induction ts with
  | nil => decide
  | cons u us ih =>
    have hu := hdoc u (List.mem_cons_self ..)
    have ih' := ih (fun t ht => hdoc t (List.mem_cons_of_mem _ ht))
      (fun n hn => hno n (List.mem_cons_of_mem _ hn))
    cases u with
    | part n => exact absurd (List.mem_cons_self ..) (hno n)
    | lit s =>
      have hs := (braceFree_iff s).mp hu
      have hr := (isNewPattern_iff _).mp ih'
      apply (isNewPattern_iff _).mpr
      simp only [renderToks, LTok.text, List.mem_append, not_or]
      exact ⟨⟨hs.1, hr.1⟩, ⟨hs.2, hr.2⟩⟩

/-! ### `lexid.next_id` without the v2 padding rule (the legacy engine calls it directly) -/

theorem nextId_int_strict (b b' : Str) (hb : isDigitStr b = true) (h : nextId b = some b') :
    isDigitStr b' = true ∧ strToNat b < strToNat b' := by
  obtain ⟨hd, hspec⟩ := nextId_spec b b' hb h
  refine ⟨hd, ?_⟩
  rcases hspec with ⟨_, _, hv⟩ | ⟨d, _, _, _, _, hv⟩ <;> omega

/-- two strings of equal length that compare `<` still do after appending anything to each -/
theorem strLt_append_of_length_eq : ∀ (a b x y : Str), a.length = b.length → strLt a b = true →
    strLt (a ++ x) (b ++ y) = true := by
  intro a
  induction a with
  | nil =>
    intro b x y hl h
    cases b with
    | nil => simp [strLt] at h
    | cons _ _ => simp at hl
  | cons c cs ih =>
    intro b x y hl h
    cases b with
    | nil => simp at hl
    | cons e es =>
      simp only [List.cons_append]
      rw [strLt_cons_cons] at h ⊢
      by_cases h1 : c < e
      · rw [if_pos h1]
      · rw [if_neg h1] at h ⊢
        by_cases h2 : e < c
        · rw [if_pos h2] at h; cases h
        · rw [if_neg h2] at h ⊢
          exact ih es x y (by simpa using hl) h

/-- the next id is greater as a plain string, and stays greater whatever text follows each -/
theorem nextId_lex_strict_append (b b' x y : Str) (hb : isDigitStr b = true) (h : nextId b = some b') :
    strLt (b ++ x) (b' ++ y) = true := by
  obtain ⟨hd', hspec⟩ := nextId_spec b b' hb h
  have hbd := (isDigitStr_iff b).mp hb
  have hb'd := (isDigitStr_iff b').mp hd'
  rcases hspec with ⟨_, hlen, hv⟩ | ⟨d, hd, hph, hb'h, _, _⟩
  · exact strLt_append_of_length_eq b b' x y hlen.symm
      ((strLt_iff_of_length_eq b b' hbd.2 hb'd.2 hlen.symm).mpr (by omega))
  · cases b with
    | nil => cases hph
    | cons c t =>
      cases b' with
      | nil => cases hb'h
      | cons e es =>
        simp only [List.head?_cons, Option.some.injEq] at hph hb'h
        subst hph hb'h
        exact strLt_of_head_lt _ _ _ _ (digitChar_lt d (d + 1) (by omega) (by omega))

theorem nextId_lex_strict (b b' : Str) (hb : isDigitStr b = true) (h : nextId b = some b') :
    strLt b b' = true := by
  simpa using nextId_lex_strict_append b b' [] [] hb h

/-! ### the `{pycalver}` key -/

/-- fixed-width text of the `{year}{month:02}` prefix -/
def yyyymmText (y m : Nat) : Str := natToStr y ++ zfill 2 (natToStr m)

theorem natToStr_len2 (m : Nat) (hm : m ≤ 99) : (zfill 2 (natToStr m)).length = 2 := by
  apply zfill_length
  by_cases h : m < 10
  · rw [natToStr_lt10 m h]; simp
  · have := natToStr_length_le 2 m (by omega) (by omega); exact this

theorem yyyymmText_spec (y m : Nat) (hy1 : 1000 ≤ y) (hy2 : y ≤ 9999) (hm : m ≤ 99) :
    allDigits (yyyymmText y m) = true ∧ (yyyymmText y m).length = 6 ∧
    strToNat (yyyymmText y m) = y * 100 + m := by
  have hl4 : (natToStr y).length = 4 := natToStr_length_eq 3 y (by omega) (by omega)
  have hl2 := natToStr_len2 m hm
  refine ⟨?_, ?_, ?_⟩
  · rw [yyyymmText, allDigits_append]
    exact ⟨allDigits_natToStr y, allDigits_zfill 2 _ (allDigits_natToStr m)⟩
  · rw [yyyymmText, List.length_append, hl4, hl2]
  · rw [yyyymmText, strToNat_append, hl2, strToNat_zfill, strToNat_natToStr, strToNat_natToStr]

/-- a greater YYYYMM number is a greater six-character text, whatever follows -/
theorem yyyymmText_lt (y m y' m' : Nat) (x z : Str) (hy1 : 1000 ≤ y) (hy2 : y ≤ 9999) (hm : m ≤ 99)
    (hy1' : 1000 ≤ y') (hy2' : y' ≤ 9999) (hm' : m' ≤ 99) (h : y * 100 + m < y' * 100 + m') :
    strLt (yyyymmText y m ++ x) (yyyymmText y' m' ++ z) = true := by
  obtain ⟨hd, hl, hv⟩ := yyyymmText_spec y m hy1 hy2 hm
  obtain ⟨hd', hl', hv'⟩ := yyyymmText_spec y' m' hy1' hy2' hm'
  exact strLt_append_of_length_eq _ _ x z (by omega)
    ((strLt_iff_of_length_eq _ _ hd hd' (by omega)).mpr (by omega))

theorem strLt_prefix (p a b : Str) (h : strLt a b = true) : strLt (p ++ a) (p ++ b) = true := by
  induction p with
  | nil => simpa using h
  | cons c cs ih => simp only [List.cons_append]; rw [strLt_cons_self]; exact ih

/-- a record as `{pycalver}` versions are read: year and month shown, quarter derived from the
    month, no other calendar field, a digit-string build id -/
structure PycalverRec (v : V1Info) (y m : Nat) : Prop where
  year : v.year = some y
  month : v.month = some m
  quarter : v.quarter = some (quarterFromMonth m)
  dom : v.dom = none
  doy : v.doy = none
  isoWeek : v.isoWeek = none
  usWeek : v.usWeek = none
  bid : isDigitStr v.bid = true

theorem setCal_calList (v : V1Info) : v.setCal v.calList = v := by
  cases v; rfl

theorem v1BumpCal_pin (old : V1Info) (fl : V1Flags) (date : Nat × Nat × Nat) (hp : fl.pinDate = true) :
    v1BumpCal old fl date = old := by
  have : v1BumpCal old fl date =
      if v1IsCalGt old.calList old.calList = true then old else old.setCal old.calList := by
    simp [v1BumpCal, hp]
  rw [this, setCal_calList, ite_self]

theorem v1BumpCal_nopin (old : V1Info) (fl : V1Flags) (date : Nat × Nat × Nat) (hp : ¬ fl.pinDate = true) :
    v1BumpCal old fl date =
      if v1IsCalGt old.calList (v1CalInfo date.1 date.2.1 date.2.2) = true then old
      else old.setCal (v1CalInfo date.1 date.2.1 date.2.2) := by
  simp [v1BumpCal, hp]

theorem setCal_v1CalInfo (old : V1Info) (y m d : Nat) :
    (old.setCal (v1CalInfo y m d)).year = some y ∧ (old.setCal (v1CalInfo y m d)).month = some m ∧
    (old.setCal (v1CalInfo y m d)).bid = old.bid ∧ (old.setCal (v1CalInfo y m d)).tag = old.tag :=
  ⟨rfl, rfl, rfl, rfl⟩

theorem v1BumpCal_bid (old : V1Info) (fl : V1Flags) (date : Nat × Nat × Nat) :
    (v1BumpCal old fl date).bid = old.bid ∧ (v1BumpCal old fl date).tag = old.tag := by
  by_cases hp : fl.pinDate = true
  · rw [v1BumpCal_pin old fl date hp]; exact ⟨rfl, rfl⟩
  · rw [v1BumpCal_nopin old fl date hp]
    split
    · exact ⟨rfl, rfl⟩
    · exact ⟨(setCal_v1CalInfo old _ _ _).2.2.1, (setCal_v1CalInfo old _ _ _).2.2.2⟩

/-- the calendar step never moves the YYYYMM number of a `{pycalver}` record back -/
theorem v1BumpCal_pycalver (old : V1Info) (fl : V1Flags) (date : Nat × Nat × Nat) (y m : Nat)
    (h : PycalverRec old y m) (hm : 1 ≤ m ∧ m ≤ 12) (hd : 1 ≤ date.2.1 ∧ date.2.1 ≤ 12) :
    ∃ y' m', (v1BumpCal old fl date).year = some y' ∧ (v1BumpCal old fl date).month = some m' ∧
      y * 100 + m ≤ y' * 100 + m' ∧ 1 ≤ m' ∧ m' ≤ 12 ∧ (y' = y ∨ y' = date.1) := by
  by_cases hp : fl.pinDate = true
  · rw [v1BumpCal_pin old fl date hp]
    exact ⟨y, m, h.year, h.month, Nat.le_refl _, hm.1, hm.2, .inl rfl⟩
  · rw [v1BumpCal_nopin old fl date hp]
    by_cases hg : v1IsCalGt old.calList (v1CalInfo date.1 date.2.1 date.2.2) = true
    · rw [if_pos hg]
      exact ⟨y, m, h.year, h.month, Nat.le_refl _, hm.1, hm.2, .inl rfl⟩
    · rw [if_neg hg]
      refine ⟨date.1, date.2.1, rfl, rfl, ?_, hd.1, hd.2, .inr rfl⟩
      have hg' : v1IsCalGt old.calList (v1CalInfo date.1 date.2.1 date.2.2) = false := by
        simpa using hg
      simp only [v1IsCalGt, V1Info.calList, v1CalInfo, h.year, h.month, h.quarter, h.dom, h.doy,
        h.isoWeek, h.usWeek, presentPairs, List.map_cons, List.map_nil, lexLt, quarterFromMonth,
        Bool.or_eq_false_iff, Bool.and_eq_false_iff, decide_eq_false_iff_not, beq_eq_false_iff_ne,
        Bool.and_false, Bool.or_false] at hg'
      omega

theorem v1ApplyFlags_fields (c : V1Info) (fl : V1Flags) :
    (v1ApplyFlags c fl).year = c.year ∧ (v1ApplyFlags c fl).month = c.month ∧
    (v1ApplyFlags c fl).bid = c.bid := by
  unfold v1ApplyFlags
  dsimp only
  repeat' split
  all_goals exact ⟨rfl, rfl, rfl⟩

/-- what a successful `v1Bump` did: the id is `next_id` of the old one, the calendar fields are
    those of the calendar step -/
theorem v1Bump_ok (old new : V1Info) (fl : V1Flags) (date : Nat × Nat × Nat)
    (h : v1Bump old fl date = .ok new) :
    isDigitStr old.bid = true ∧ nextId old.bid = some new.bid ∧
    new.year = (v1BumpCal old fl date).year ∧ new.month = (v1BumpCal old fl date).month := by
  unfold v1Bump at h
  have hb := (v1BumpCal_bid old fl date).1
  simp only [hb] at h
  cases hd : isDigitStr old.bid with
  | false => simp [hd] at h
  | true =>
    simp only [hd, Bool.not_true, Bool.false_eq_true, if_false] at h
    cases hn : nextId old.bid with
    | none => simp [hn] at h
    | some b =>
      simp only [hn] at h
      cases ht : fl.tagNum with
      | true => simp [ht] at h
      | false =>
        simp only [ht, Bool.false_eq_true, if_false] at h
        have hnew := (Except.ok.inj h).symm
        obtain ⟨hy, hm, hbid⟩ := v1ApplyFlags_fields { v1BumpCal old fl date with bid := b } fl
        rw [hnew]
        exact ⟨rfl, by rw [hbid], hy, hm⟩

end BV
