/-
  Proofs/EffLemmas.lean — lemmas and proof automation shared by the effect ties
  (Proofs/Tie_apiGetRemote, Tie_vcsCommit, Tie_getTags, Tie_assertNotDirty, Tie_cliUpdate).

  How the ties are proved.  A generated definition (Gen/F_<name>.lean, namespace BV.GenE) is a term
  built from `Eff.bind / pure / tryCatch / tryFinally / forIn`, the primitive effects of Model/Eff.lean
  and calls of other generated definitions.  A tie
    1. unfolds the generated definition and the hand-model piece it is compared with,
    2. rewrites the calls of other generated definitions with THEIR ties (equations for all states),
    3. replaces loops by the corresponding model recursion (`Eff.forIn_addAll`, …), and
    4. runs `eff_auto`: repeatedly split on the first atomic `if`-condition / `match`-discriminant
       (`eff_step`, Proofs/EffTactics.lean) and simplify with `eff_simp`.
  The case analysis is over the ORACLE (which invocation fails, what the probes answer, the Booleans
  of the configuration), so a semantics-preserving rewrite of the Python (renamed locals, nested `if`s
  for `and`, early returns, a comprehension for a loop) leads to the same cases and the same proof,
  while a changed order / guard / handler leaves a case in which the two sides differ.
-/
import BumpverVerif.Model.Eff
import BumpverVerif.Proofs.EffTactics
namespace BV

/-! ### running the combinators -/

theorem Eff.ite_run {α : Type} (c : Prop) [Decidable c] (m n : Eff α) (e : EffEnv) (s : PState) :
    (if c then m else n) e s = if c then m e s else n e s := by split <;> rfl

@[simp] theorem Stop.isA_called (c : ExcClass) :
    Stop.called.isA c = (c == .baseException || c == .exception || c == .calledProcessError) := by
  cases c <;> rfl
@[simp] theorem Stop.isA_exit (n : Nat) (c : ExcClass) : (Stop.exit n).isA c = (c == .baseException) := by
  cases c <;> rfl
@[simp] theorem Stop.isA_osError (c : ExcClass) :
    Stop.osError.isA c = (c == .baseException || c == .exception || c == .osError) := by
  cases c <;> rfl
@[simp] theorem Stop.isA_valueError (c : ExcClass) :
    Stop.valueError.isA c = (c == .baseException || c == .exception || c == .valueError) := by
  cases c <;> rfl
@[simp] theorem Stop.isA_noPatternMatch (c : ExcClass) :
    Stop.noPatternMatch.isA c = (c == .baseException || c == .exception || c == .noPatternMatch) := by
  cases c <;> rfl

/-- a model step seen as an effect result: a failing VCS invocation is a CalledProcessError -/
def Eff.liftC {α : Type} (a : α) : PState × Outcome → PState × Except Stop α
  | (s', .ok) => (s', .ok a)
  | (s', .failed) => (s', .error .called)

/-- what the hand model keeps of an effect result: the state and "ok / failed" -/
def Eff.view {α : Type} (r : PState × Except Stop α) : PState × Outcome := (r.1, Eff.outcome r.2)

/-- Python truthiness of an `Optional[str]` -/
def truthyOS : Option Str → Bool
  | none => false
  | some s => !s.isEmpty

@[simp] theorem truthyOS_none : truthyOS none = false := rfl
@[simp] theorem truthyOS_some (s : Str) : truthyOS (some s) = !s.isEmpty := rfl

theorem Except.exists_of_map_ok {ε α β : Type} {r : Except ε α} {f : α → β} {b : β}
    (h : r.map f = .ok b) : ∃ a, r = .ok a ∧ f a = b := by
  cases r with
  | error x => simp [Except.map] at h
  | ok a => exact ⟨a, rfl, by simpa [Except.map] using h⟩

/-! ### the simplification set and the case-splitting loop -/

/-- unfold the combinators and primitive effects at a state, using every hypothesis as a rewrite rule -/
syntax "eff_simp" (" [" Lean.Parser.Tactic.simpLemma,* "]")? : tactic
macro_rules
  | `(tactic| eff_simp) => `(tactic|
      simp [Eff.ite_run, Eff.tryCatch, Eff.tryFinally, Eff.bind, Eff.pure, Eff.throw, Eff.exit, Eff.call, Eff.callEv,
        Eff.spCall, Eff.hook, Eff.dotDirExists, Eff.rewriteFiles, Eff.branchMatches, Eff.excStr, Eff.excErrno,
        Eff.ofOption, Eff.liftC, Eff.view, Eff.outcome, Except.map, *])
  | `(tactic| eff_simp [$ls,*]) => `(tactic|
      simp [Eff.ite_run, Eff.tryCatch, Eff.tryFinally, Eff.bind, Eff.pure, Eff.throw, Eff.exit, Eff.call, Eff.callEv,
        Eff.spCall, Eff.hook, Eff.dotDirExists, Eff.rewriteFiles, Eff.branchMatches, Eff.excStr, Eff.excErrno,
        Eff.ofOption, Eff.liftC, Eff.view, Eff.outcome, Except.map, $ls,*, *])

/-- split on atomic conditions / discriminants until nothing is left -/
syntax "eff_auto" (" [" Lean.Parser.Tactic.simpLemma,* "]")? : tactic
macro_rules
  | `(tactic| eff_auto) => `(tactic|
      (repeat' (eff_step <;> try eff_simp)) <;> try (simp at *; done))
  | `(tactic| eff_auto [$ls,*]) => `(tactic|
      (repeat' (eff_step <;> try eff_simp [$ls,*])) <;> try (simp at *; done))

/-! ### loops -/

/-- a loop whose body behaves like one `add` of the model is `addAll` -/
theorem Eff.forIn_addAll (e : EffEnv) (f : Str → Eff (Option Unit))
    (h : ∀ p s, f p e s = Eff.liftC none (vcsCall e.plan (.add p) s)) (ps : List Str) (s : PState) :
    Eff.forIn ps f e s = Eff.liftC none (addAll e.plan ps s) := by
  induction ps generalizing s with
  | nil => rfl
  | cons p ps ih =>
    simp only [Eff.forIn, Eff.bind, h, addAll]
    rcases hv : vcsCall e.plan (.add p) s with ⟨s1, o⟩
    cases o <;> simp [Eff.liftC, ih, Eff.pure]

/-- an accumulation loop that appends exactly one item per iteration is a `map` (the translator renders
    `acc = []; for x in xs: acc.append(f x)` as `[] ++ xs.flatMap (fun x => [f x])`, a comprehension as `xs.map f`) -/
@[simp] theorem List.flatMap_singleton_eq_map {α β : Type} (f : α → β) (xs : List α) :
    List.flatMap (fun x => [f x]) xs = List.map f xs := by
  induction xs with
  | nil => rfl
  | cons x xs ih => simp [List.flatMap_cons, ih]

/-- a loop whose body does not distinguish two environments does not distinguish them either -/
theorem Eff.forIn_env_congr {α ρ : Type} (f : α → Eff (Option ρ)) (e1 e2 : EffEnv)
    (h : ∀ x s, f x e1 s = f x e2 s) (xs : List α) (s : PState) :
    Eff.forIn xs f e1 s = Eff.forIn xs f e2 s := by
  induction xs generalizing s with
  | nil => rfl
  | cons x xs ih =>
    simp only [Eff.forIn, Eff.bind, h]
    rcases f x e2 s with ⟨s', r⟩
    cases r with
    | error x => rfl
    | ok v => cases v <;> simp [ih, Eff.pure]

end BV
