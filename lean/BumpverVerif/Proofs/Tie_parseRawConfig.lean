/-
  Proofs/Tie_parseRawConfig.lean — the definition GENERATED from the Python source of `config._parse_raw_config`
  (Gen/F_parseRawConfig.lean: the config file is opened — FileNotFoundError —, the reader is chosen by
  `ctx.config_format` — RuntimeError for anything but 'toml' / 'cfg' —, and THE OWN-ENTRY RULE: when
  `ctx.config_rel_path not in raw_cfg['file_patterns']` the file is read again,
  `_parse_current_version_default_pattern` computes the pattern of its own `current_version` line, and
  `raw_cfg['file_patterns'][ctx.config_rel_path] = [pattern]` appends the entry) equals the reference
  `parseRawConfigE` (Model/FilePatterns.lean), i.e. the hand model's `parseTomlPost` / `parseCfgPost` followed by
  `addSelfPattern` (Model/Config.lean), for ALL parser results, file systems and project contexts.

  Callees: `_parse_toml`, `_parse_cfg`, `_parse_current_version_default_pattern` are the GENERATED definitions of group
  `config` (agent H: `tie_parseToml`, `tie_parseCfg`, `tie_parseCurrentVersionDefaultPattern`); the hypotheses
  `hmain` / `hfiles` are those of `tie_parseCfg` (configparser is strict: option names are unique).

  `parseRawConfig_own_entry` states C03/C18's clause "always including the config file's own current_version line" on
  the generated function.
-/
import BumpverVerif.Gen.F_parseRawConfig
import BumpverVerif.Proofs.FilePatternsLemmas
import BumpverVerif.Proofs.Tie_parseToml
import BumpverVerif.Proofs.Tie_parseCfg
import BumpverVerif.Proofs.Tie_parseCurrentVersionDefaultPattern
set_option linter.unusedSimpArgs false
namespace BV
open TieP Py TieH

namespace TieP

theorem setRawConfigDefaults_ok (opts : List (Str × RawVal)) (h : setRawConfigDefaults opts = .ok ()) :
    ∃ cv vp, rawStr "current_version".toList opts = .ok cv ∧ rawStr "version_pattern".toList opts = .ok vp := by
  unfold setRawConfigDefaults at h
  unfold rawStr
  rcases h1 : lookup "version_pattern".toList opts with _ | (vp | _ | _) <;> rw [h1] at h <;> try cases h
  rcases h2 : lookup "current_version".toList opts with _ | (cv | _ | _) <;> rw [h2] at h <;> try cases h
  exact ⟨cv, vp, rfl, rfl⟩

theorem parseTomlPost_ok (d : TomlDoc) (raw : RawCfg) (h : parseTomlPost d = .ok raw) :
    ∃ cv vp, rawStr "current_version".toList raw.opts = .ok cv ∧ rawStr "version_pattern".toList raw.opts = .ok vp := by
  unfold parseTomlPost at h
  simp only [] at h
  cases hs : setRawConfigDefaults (tomlBoolLoop (tomlMainSection d).opts) with
  | error e => rw [hs] at h; cases h
  | ok u => rw [hs] at h; cases h; exact setRawConfigDefaults_ok _ hs

theorem parseCfgPost_ok (d : IniDoc) (raw : RawCfg) (h : parseCfgPost d = .ok raw) :
    ∃ cv vp, rawStr "current_version".toList raw.opts = .ok cv ∧ rawStr "version_pattern".toList raw.opts = .ok vp := by
  unfold parseCfgPost at h
  cases hm : iniMainSection d with
  | none => rw [hm] at h; cases h
  | some items =>
    rw [hm] at h
    simp only [] at h
    cases hs : setRawConfigDefaults (iniBoolLoop (items.map (fun kv => (kv.1, RawVal.str kv.2)))) with
    | error e => rw [hs] at h; cases h
    | ok u => rw [hs] at h; cases h; exact setRawConfigDefaults_ok _ hs

theorem embedRaw_filePatterns (raw : RawCfg) : (embedRaw raw).filePatterns = some raw.filePatterns := rfl

/-- the config file is listed: nothing is added -/
theorem ownEntry_listed (rel text : Str) (raw : RawCfg) (v : List Str) (hk : lookup rel raw.filePatterns = some v) :
    ((addSelfPattern rel text raw).mapError CfgErr.pyClass).map embedRaw = .ok (embedRaw raw) := by
  have : cfgHasKey rel raw.filePatterns = true := by unfold cfgHasKey; rw [hk]; rfl
  simp only [addSelfPattern, this, if_true]
  rfl

/-- the config file is not listed (on a raw dict that came out of a reader): its own entry is appended -/
theorem ownEntry_unlisted (rel text : Str) (raw : RawCfg) (hk : lookup rel raw.filePatterns = none)
    (hraw : ∃ cv vp, rawStr "current_version".toList raw.opts = .ok cv ∧ rawStr "version_pattern".toList raw.opts = .ok vp) :
    (match GenF.parseCurrentVersionDefaultPattern (embedRaw raw) text with
      | Except.error err => (Except.error err : Except Str TomlSection)
      | Except.ok r => Except.ok { embedRaw raw with filePatterns := some (setOpt rel [r] raw.filePatterns) }) =
      ((addSelfPattern rel text raw).mapError CfgErr.pyClass).map embedRaw := by
  obtain ⟨cv, vp, hcv, hvp⟩ := hraw
  have hk' : cfgHasKey rel raw.filePatterns = false := by unfold cfgHasKey; rw [hk]; rfl
  rw [tie_addSelfPattern rel text raw cv vp hcv hvp hk']
  cases GenF.parseCurrentVersionDefaultPattern (embedRaw raw) text with
  | error e => rfl
  | ok p =>
    simp only [Except.map, embedRaw]
    rw [setOpt_append_new rel [p] raw.filePatterns ((lookup_none_iff rel raw.filePatterns).mp hk)]

/-- the own-entry rule, however the test is written (`x not in d`, `not (x in d)`, an early return for `x in d`) -/
macro "own_entry_rule" raw:ident text:ident hraw:term : tactic => `(tactic|
  (simp only [embedRaw_filePatterns]
   cases hk : lookup _ (RawCfg.filePatterns $raw) with
   | some v =>
     simp only [Option.isSome_some, Bool.not_true, Bool.false_eq_true, if_false, if_true,
       ownEntry_listed _ $text $raw v hk]
   | none =>
     simp only [Option.isSome_none, Bool.not_false, Bool.false_eq_true, if_false, if_true]
     exact ownEntry_unlisted _ $text $raw hk $hraw))

end TieP

theorem tie_parseRawConfig (parser : IniDoc) (loaded : Py.TomlFull) (fs : ProjFS) (ctx : GenF.Cfg.ProjectContext)
    (hmain : ∀ items, iniMainSection parser = some items → (items.map Prod.fst).Nodup)
    (hfiles : ((iniFilePatterns parser).map Prod.fst).Nodup) :
    GenF.parseRawConfig parser loaded fs ctx =
      (parseRawConfigE ctx.config_format ctx.config_rel_path (fs ctx.config_filepath) parser (absToml loaded)).map
        embedRaw := by
  unfold GenF.parseRawConfig parseRawConfigE readRawE
  cases hfs : fs ctx.config_filepath with
  | none => rfl
  | some text =>
    simp only [tie_parseToml, tie_parseCfg parser hmain hfiles]
    by_cases h1 : (ctx.config_format == "toml".toList) = true
    · simp only [h1, if_true]
      cases hp : parseTomlPost (absToml loaded) with
      | error e => rfl
      | ok raw =>
        simp only [map_ok, mapError_ok]
        own_entry_rule raw text (parseTomlPost_ok _ raw hp)
    · simp only [h1, Bool.false_eq_true, if_false]
      by_cases h2 : (ctx.config_format == "cfg".toList) = true
      · simp only [h2, if_true]
        cases hp : parseCfgPost parser with
        | error e => rfl
        | ok raw =>
          simp only [map_ok, mapError_ok]
          own_entry_rule raw text (parseCfgPost_ok _ raw hp)
      · simp only [h2, Bool.false_eq_true, if_false]
        rfl

/-- C03 / C18 "always including the config file's own current_version line", on the generated function: when
    `_parse_raw_config` returns a raw dict, the config file (`ctx.config_rel_path`, as written) is a key of its
    `file_patterns`; and when it was not a key of what the reader returned, the entry is the LAST one and its only
    pattern is the file's own `current_version` line with the (stripped) version replaced by the (stripped) pattern. -/
theorem parseRawConfig_own_entry (parser : IniDoc) (loaded : Py.TomlFull) (fs : ProjFS) (ctx : GenF.Cfg.ProjectContext)
    (hmain : ∀ items, iniMainSection parser = some items → (items.map Prod.fst).Nodup)
    (hfiles : ((iniFilePatterns parser).map Prod.fst).Nodup)
    (d : TomlSection) (h : GenF.parseRawConfig parser loaded fs ctx = .ok d) :
    ∃ raw raw' text, fs ctx.config_filepath = some text ∧ d = embedRaw raw' ∧
      readRawE ctx.config_format parser (absToml loaded) = .ok raw ∧
      addSelfPattern ctx.config_rel_path text raw = .ok raw' ∧
      (∃ ps, lookup ctx.config_rel_path raw'.filePatterns = some ps) ∧
      (cfgHasKey ctx.config_rel_path raw.filePatterns = true → raw' = raw) ∧
      (cfgHasKey ctx.config_rel_path raw.filePatterns = false →
        ∃ line cv vp, curVersionLine text = some line ∧
          rawStr "current_version".toList raw.opts = .ok cv ∧ rawStr "version_pattern".toList raw.opts = .ok vp ∧
          raw'.filePatterns = raw.filePatterns ++
            [(ctx.config_rel_path, [pyReplace (stripQuotes cv) (stripQuotes vp) line])]) := by
  rw [tie_parseRawConfig parser loaded fs ctx hmain hfiles] at h
  unfold parseRawConfigE at h
  cases hfs : fs ctx.config_filepath with
  | none => rw [hfs] at h; cases h
  | some text =>
    rw [hfs] at h
    simp only [] at h
    generalize hraw : readRawE ctx.config_format parser (absToml loaded) = r at h
    cases r with
    | error e => cases h
    | ok raw =>
      simp only [] at h
      cases ha : addSelfPattern ctx.config_rel_path text raw with
      | error e => rw [ha] at h; cases h
      | ok raw' =>
        rw [ha] at h
        simp only [Except.mapError, Except.map, Except.ok.injEq] at h
        have hyes : cfgHasKey ctx.config_rel_path raw.filePatterns = true → raw' = raw := by
          intro hk
          unfold addSelfPattern at ha
          rw [hk] at ha
          simp only [if_true] at ha
          cases ha
          rfl
        have hno : cfgHasKey ctx.config_rel_path raw.filePatterns = false →
            ∃ line cv vp, curVersionLine text = some line ∧
              rawStr "current_version".toList raw.opts = .ok cv ∧ rawStr "version_pattern".toList raw.opts = .ok vp ∧
              raw'.filePatterns = raw.filePatterns ++
                [(ctx.config_rel_path, [pyReplace (stripQuotes cv) (stripQuotes vp) line])] := by
          intro hk
          unfold addSelfPattern at ha
          rw [hk] at ha
          simp only [Bool.false_eq_true, if_false] at ha
          split at ha
          · rename_i cv vp hcv hvp
            unfold parseCurrentVersionDefaultPattern at ha
            cases hl : curVersionLine text with
            | none => rw [hl] at ha; cases ha
            | some line =>
              rw [hl] at ha
              cases ha
              exact ⟨line, cv, vp, rfl, hcv, hvp, rfl⟩
          · cases ha
          · cases ha
        refine ⟨raw, raw', text, rfl, h.symm, rfl, ha, ?_, hyes, hno⟩
        cases hk : cfgHasKey ctx.config_rel_path raw.filePatterns with
        | true =>
          rw [hyes hk]
          unfold cfgHasKey at hk
          cases hl : lookup ctx.config_rel_path raw.filePatterns with
          | none => rw [hl] at hk; cases hk
          | some ps => exact ⟨ps, rfl⟩
        | false =>
          obtain ⟨line, cv, vp, -, -, -, hfp⟩ := hno hk
          have hnone : lookup ctx.config_rel_path raw.filePatterns = none := by
            unfold cfgHasKey at hk
            cases hl : lookup ctx.config_rel_path raw.filePatterns with
            | none => rfl
            | some ps => rw [hl] at hk; cases hk
          refine ⟨[pyReplace (stripQuotes cv) (stripQuotes vp) line], ?_⟩
          rw [hfp, lookup_append, hnone, lookup_cons, if_pos rfl]
          rfl

end BV
