/-
  Proofs/Tie_pepVersionStr.lean — the definitions GENERATED from the Python source of `Version.__str__`, of the
  properties it reads (`epoch`, `release`, `pre`, `post`, `dev`, `local`) and of `base_version`
  (Gen/F_pepVersion*.lean) against the hand model's canonical printer `pepStr` (Model/Pep440.lean).

  * `tie_pepVersionEpoch|Release|Pre|Post|Dev` : each property = the field of the model version `o._version.abs`;
  * `tie_pepVersionLocal` : `local` = the dotted text of the local parts, `None` for an absent OR EMPTY tuple;
  * `tie_pepVersionStr`   : `str(o) = pepStr o._version.abs` for every object whose local tuple is not the empty tuple
       (hypothesis `hl`; witness of the difference: an object with `_version.local == ()` prints no `+…` in Python
       (`self._version.local` is falsy) while the model's `locStr (some [])` prints `+`.  `Version.__init__` never
       builds such an object: `re.split` returns at least one part — `objOfGroups_loc_ne_nil` discharges `hl` for every
       object the translated `__init__` returns);
  * `tie_pepVersionBaseVersion` : `base_version` = epoch and release part of the canonical form.
-/
import BumpverVerif.Gen.F_pepVersionStr
import BumpverVerif.Gen.F_pepVersionBaseVersion
import BumpverVerif.Proofs.Tie_pepVersionInit
set_option linter.unusedSimpArgs false
namespace BV
namespace TieQ

theorem join_nil_snoc (xs : List Str) (p : Str) : join [] (xs ++ [p]) = join [] xs ++ p := by
  induction xs with
  | nil => simp [join]
  | cons a as ih =>
    cases as with
    | nil => simp [join]
    | cons b bs =>
      have : (a :: b :: bs) ++ [p] = a :: b :: (bs ++ [p]) := rfl
      rw [this, join, join]
      have h2 : b :: (bs ++ [p]) = (b :: bs) ++ [p] := rfl
      rw [h2, ih]
      simp [List.append_assoc]

theorem join_nil_nil : join ([] : Str) ([] : List Str) = [] := rfl

theorem splitSeps_ne_nil (cur s : Str) : splitSeps cur s ≠ [] := by
  induction s generalizing cur with
  | nil => simp [splitSeps]
  | cons c cs ih =>
    simp only [splitSeps]
    split
    · simp
    · exact ih _

/-- `Version.__init__` never builds an empty local tuple -/
theorem objOfGroups_loc_ne_nil (g : PepGroups) : (objOfGroups g)._version.loc ≠ some [] := by
  simp only [objOfGroups, rawOfGroups]
  cases g.loc with
  | none => simp
  | some s =>
    simp only [Option.map_some, localOf, ne_eq, Option.some.injEq, List.map_eq_nil_iff]
    exact splitSeps_ne_nil [] s

end TieQ

theorem tie_pepVersionEpoch (o : PepObj) : GenQ.pepVersionEpoch o = o._version.abs.epoch := rfl
theorem tie_pepVersionRelease (o : PepObj) : GenQ.pepVersionRelease o = o._version.abs.release := rfl
theorem tie_pepVersionPre (o : PepObj) : GenQ.pepVersionPre o = o._version.abs.pre := rfl

theorem tie_pepVersionPost (o : PepObj) : GenQ.pepVersionPost o = o._version.abs.post := by
  simp only [GenQ.pepVersionPost, PepRaw.abs]
  cases o._version.post <;> simp

theorem tie_pepVersionDev (o : PepObj) : GenQ.pepVersionDev o = o._version.abs.dev := by
  simp only [GenQ.pepVersionDev, PepRaw.abs]
  cases o._version.dev <;> simp

/-- the property `local`: the dotted text; `None` when the tuple is absent or empty -/
theorem tie_pepVersionLocal (o : PepObj) :
    GenQ.pepVersionLocal o =
      match o._version.abs.loc with
      | none => none
      | some [] => none
      | some (a :: l) => some (join ['.'] ((a :: l).map localSegStr)) := by
  simp only [GenQ.pepVersionLocal, PepRaw.abs]
  rcases o._version.loc with _ | ⟨_ | ⟨a, l⟩⟩
  · rfl
  · rfl
  · simp only [List.isEmpty_cons, Bool.not_false, if_true]
    exact congrArg some (congrArg (join _) (List.map_congr_left (fun x _ => by cases x <;> rfl)))

theorem tie_pepVersionStr (o : PepObj) (hl : o._version.loc ≠ some []) :
    GenQ.pepVersionStr o = pepStr o._version.abs := by
  simp only [GenQ.pepVersionStr, tie_pepVersionEpoch, tie_pepVersionRelease, tie_pepVersionPre, tie_pepVersionPost,
    tie_pepVersionDev, tie_pepVersionLocal]
  obtain ⟨⟨e, rel, dev, pre, post, loc⟩, key⟩ := o
  simp only [PepRaw.abs, pepStr, epochStr, ne_eq] at hl ⊢
  have hmap : List.map (fun x => natToStr x) rel = List.map natToStr rel := rfl
  rcases loc with _ | ⟨_ | ⟨a, l⟩⟩
  · by_cases he : e = 0 <;> rcases pre with _ | ⟨pl, pn⟩ <;> cases post <;> cases dev <;>
      simp [TieQ.join_nil_snoc, TieQ.join_nil_nil, join, preStr, postStr, devStr, locStr, he, hmap]
  · exact absurd rfl hl
  · by_cases he : e = 0 <;> rcases pre with _ | ⟨pl, pn⟩ <;> cases post <;> cases dev <;>
      simp [TieQ.join_nil_snoc, TieQ.join_nil_nil, join, preStr, postStr, devStr, locStr, he, hmap]

theorem tie_pepVersionBaseVersion (o : PepObj) :
    GenQ.pepVersionBaseVersion o = epochStr o._version.abs.epoch ++ join ['.'] (o._version.abs.release.map natToStr) := by
  simp only [GenQ.pepVersionBaseVersion, tie_pepVersionEpoch, tie_pepVersionRelease, epochStr]
  by_cases he : o._version.abs.epoch = 0 <;>
    simp [TieQ.join_nil_snoc, TieQ.join_nil_nil, join, he]

end BV
