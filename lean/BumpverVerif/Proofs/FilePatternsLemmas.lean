/-
  Proofs/FilePatternsLemmas.lean — lemmas about the reference definitions of Model/FilePatterns.lean
  (namespace `BV.TieP` for the helpers):

  * the generator algebra `Py.PyGen` (`andThen`, `yield`, `done`, `ofExc`);
  * `iterGlobExpandedE` with a glob that never raises is the hand model's `iterGlobExpanded`;
  * the MERGE lemmas of `_compile_file_patterns` (`mergeIntoG`): every path occurs once, in first-seen
    order, and under it exactly the patterns of all items with that path, in order;
  * `compileFilePatternsE` with a total glob and callees described by `CfgEnv.compileOk` is the hand model's
    `compileFilePatterns` (on raw patterns) followed by the compilation of every pattern;
  * the keys of the resulting map come from the configured keys (C04).
-/
import BumpverVerif.Model.FilePatterns
import BumpverVerif.Proofs.ConfigLemmas
import BumpverVerif.Proofs.TieConfigCommon
namespace BV.TieP
open Py TieH

/-! ### `Except.map` / `Except.mapError` on constructors (rewrite rules that do not unfold the general case) -/
theorem map_ok {ε α β : Type} (f : α → β) (a : α) : Except.map f (Except.ok a : Except ε α) = Except.ok (f a) := rfl
theorem map_error {ε α β : Type} (f : α → β) (e : ε) : Except.map f (Except.error e : Except ε α) = Except.error e := rfl
theorem mapError_ok {ε ε' α : Type} (f : ε → ε') (a : α) :
    Except.mapError f (Except.ok a : Except ε α) = Except.ok a := rfl
theorem mapError_error {ε ε' α : Type} (f : ε → ε') (e : ε) :
    Except.mapError f (Except.error e : Except ε α) = Except.error (f e) := rfl

/-! ### the generator algebra -/

theorem PyGen.ext' {α : Type} (a b : PyGen α) (h1 : a.items = b.items) (h2 : a.exc = b.exc) : a = b := by
  cases a; cases b; simp_all

@[simp] theorem andThen_done {α : Type} (g : PyGen α) : PyGen.andThen g PyGen.done = g := by
  cases g with
  | mk items exc => cases exc <;> simp [PyGen.andThen, PyGen.done]

@[simp] theorem done_andThen {α : Type} (g : PyGen α) : PyGen.andThen PyGen.done g = g := by
  simp [PyGen.andThen, PyGen.done]

@[simp] theorem raise_andThen {α : Type} (e : Str) (g : PyGen α) : PyGen.andThen (PyGen.raise e) g = PyGen.raise e := by
  simp [PyGen.andThen, PyGen.raise]

@[simp] theorem yield_andThen {α : Type} (a : α) (g r : PyGen α) :
    PyGen.andThen (PyGen.yield a g) r = PyGen.yield a (PyGen.andThen g r) := by
  cases g with
  | mk items exc => cases exc <;> simp [PyGen.andThen, PyGen.yield]

@[simp] theorem ofExc_none {α : Type} : (PyGen.ofExc none : PyGen α) = PyGen.done := rfl
@[simp] theorem ofExc_some {α : Type} (e : Str) : (PyGen.ofExc (some e) : PyGen α) = PyGen.raise e := rfl

theorem andThen_assoc {α : Type} (a b c : PyGen α) :
    PyGen.andThen (PyGen.andThen a b) c = PyGen.andThen a (PyGen.andThen b c) := by
  cases a with
  | mk ia ea =>
    cases ea with
    | some e => simp [PyGen.andThen]
    | none =>
      cases b with
      | mk ib eb => cases eb <;> simp [PyGen.andThen]

/-- a list of items as a generator that returns -/
def ofList {α : Type} (l : List α) : PyGen α := ⟨l, none⟩

theorem ofList_andThen {α : Type} (l : List α) (g : PyGen α) :
    PyGen.andThen (ofList l) g = ⟨l ++ g.items, g.exc⟩ := rfl

theorem yield_eq {α : Type} (a : α) (g : PyGen α) : PyGen.yield a g = ⟨a :: g.items, g.exc⟩ := rfl

/-! ### `iterGlobExpandedE` and the hand model's `iterGlobExpanded` -/

/-- with a glob that never raises the generator returns after the items of `iterGlobExpanded` -/
theorem iterGlobExpandedE_total (glob : Str → List Str) (fps : FilePatterns) :
    iterGlobExpandedE (fun g => .ok (glob g)) fps = ⟨iterGlobExpanded glob fps, none⟩ := by
  induction fps with
  | nil => rfl
  | cons hd rest ih =>
    obtain ⟨g, pats⟩ := hd
    simp only [iterGlobExpandedE, iterGlobExpanded, ih]
    cases glob g <;> rfl

/-- the exception that ends the expansion is the one of the FIRST key whose glob raises; the items before
    it are those of the keys before it -/
theorem iterGlobExpandedE_append_raise (glob : Str → Except Str (List Str)) (pre post : FilePatterns)
    (g : Str) (pats : List Str) (e : Str) (hg : glob g = .error e)
    (hpre : ∀ kv ∈ pre, ∃ fs, glob kv.1 = .ok fs) :
    (iterGlobExpandedE glob (pre ++ (g, pats) :: post)).exc = some e ∧
    (iterGlobExpandedE glob (pre ++ (g, pats) :: post)).items =
      (iterGlobExpandedE glob pre).items := by
  induction pre with
  | nil => simp [iterGlobExpandedE, hg, PyGen.raise, PyGen.done]
  | cons hd t ih =>
    obtain ⟨g', pats'⟩ := hd
    obtain ⟨fs, hfs⟩ := hpre (g', pats') List.mem_cons_self
    have ih' := ih (fun kv hkv => hpre kv (List.mem_cons_of_mem _ hkv))
    simp only [List.cons_append, iterGlobExpandedE, hfs, ih'.1, ih'.2, and_self]

/-! ### the merge of `_compile_file_patterns` -/

theorem lookup_none_iff {α : Type} (k : Str) (l : List (Str × α)) : lookup k l = none ↔ k ∉ l.map Prod.fst := by
  induction l with
  | nil => simp [lookup_nil]
  | cons hd t ih =>
    obtain ⟨k', v⟩ := hd
    by_cases h : k = k'
    · subst h; simp [lookup_cons]
    · simp [lookup_cons, h, ih]

theorem lookup_isSome_iff {α : Type} (k : Str) (l : List (Str × α)) : (lookup k l).isSome = true ↔ k ∈ l.map Prod.fst := by
  cases h : lookup k l with
  | none => simpa using (lookup_none_iff k l).mp h
  | some v =>
    have : ¬ lookup k l = none := by rw [h]; simp
    simpa using fun hn => this ((lookup_none_iff k l).mpr hn)

theorem setOpt_keys {α : Type} (k : Str) (v : α) (l : List (Str × α)) (h : k ∈ l.map Prod.fst) :
    (setOpt k v l).map Prod.fst = l.map Prod.fst := by
  induction l with
  | nil => cases h
  | cons hd t ih =>
    obtain ⟨k', v'⟩ := hd
    by_cases hk : k = k'
    · subst hk; simp [setOpt]
    · have ht : k ∈ t.map Prod.fst := by
        simp only [List.map_cons, List.mem_cons] at h
        rcases h with h | h
        · exact absurd h hk
        · exact h
      simp [setOpt, hk, ih ht]

/-- under every path: what was there before, then the patterns of all items with that path, in order -/
theorem lookup_foldl_mergeIntoG {α : Type} (items acc : List (Str × List α)) (f : Str) :
    lookup f (items.foldl mergeIntoG acc) =
      match lookup f acc with
      | some old => some (old ++ collectFor f items)
      | none => if f ∈ items.map Prod.fst then some (collectFor f items) else none := by
  induction items generalizing acc with
  | nil => cases h : lookup f acc <;> simp [collectFor, h]
  | cons hd rest ih =>
    obtain ⟨k, ps⟩ := hd
    rw [List.foldl_cons, ih]
    unfold mergeIntoG
    by_cases hk : k = f
    · subst hk
      cases hl : lookup k acc with
      | none => simp [lookup_append, hl, lookup_cons, collectFor]
      | some old => simp [lookup_setOpt, collectFor, List.append_assoc]
    · have hk' : ¬ f = k := fun h => hk h.symm
      have hm : (f ∈ List.map Prod.fst ((k, ps) :: rest)) ↔ (f ∈ List.map Prod.fst rest) := by
        simp [hk']
      cases hl : lookup k acc with
      | none =>
        cases hf : lookup f acc with
        | none => simp only [lookup_append, hf, lookup_cons, lookup_nil, hk', collectFor, hk, hm, if_false, Option.orElse]
        | some old => simp [lookup_append, hf, collectFor, hk]
      | some oldk =>
        cases hf : lookup f acc with
        | none => simp only [lookup_setOpt, hk', hf, collectFor, hk, hm, if_false]
        | some old => simp [lookup_setOpt, hk', hf, collectFor, hk]

/-- the paths of the result: first-seen order -/
theorem keys_foldl_mergeIntoG {α : Type} (items acc : List (Str × List α)) :
    (items.foldl mergeIntoG acc).map Prod.fst = firstSeenFrom (acc.map Prod.fst) (items.map Prod.fst) := by
  induction items generalizing acc with
  | nil => rfl
  | cons hd rest ih =>
    obtain ⟨k, ps⟩ := hd
    rw [List.foldl_cons, ih]
    simp only [List.map_cons, firstSeenFrom]
    congr 1
    unfold mergeIntoG
    cases hl : lookup k acc with
    | none =>
      have : k ∉ acc.map Prod.fst := (lookup_none_iff k acc).mp hl
      simp [this]
    | some old =>
      have hm : k ∈ acc.map Prod.fst := (lookup_isSome_iff k acc).mp (by rw [hl]; rfl)
      simp only [hm, if_true]
      exact setOpt_keys k _ acc hm

theorem mem_firstSeenFrom (seen ks : List Str) (x : Str) : x ∈ firstSeenFrom seen ks ↔ x ∈ seen ∨ x ∈ ks := by
  induction ks generalizing seen with
  | nil => simp [firstSeenFrom]
  | cons k t ih =>
    rw [firstSeenFrom, ih]
    by_cases hk : k ∈ seen
    · simp only [hk, if_true, List.mem_cons]
      constructor
      · rintro (h | h)
        · exact .inl h
        · exact .inr (.inr h)
      · rintro (h | h | h)
        · exact .inl h
        · exact .inl (h ▸ hk)
        · exact .inr h
    · simp only [hk, if_false, List.mem_append, List.mem_cons, List.not_mem_nil, or_false]
      constructor
      · rintro ((h | h) | h)
        · exact .inl h
        · exact .inr (.inl h)
        · exact .inr (.inr h)
      · rintro (h | h | h)
        · exact .inl (.inl h)
        · exact .inl (.inr h)
        · exact .inr h

theorem nodup_firstSeenFrom (seen ks : List Str) (h : seen.Nodup) : (firstSeenFrom seen ks).Nodup := by
  induction ks generalizing seen with
  | nil => exact h
  | cons k t ih =>
    rw [firstSeenFrom]
    apply ih
    by_cases hk : k ∈ seen
    · simp only [hk, if_true]; exact h
    · simp only [hk, if_false]
      rw [List.nodup_append]
      refine ⟨h, by simp, ?_⟩
      intro a ha b hb
      simp only [List.mem_singleton] at hb
      subst hb
      exact fun hab => hk (hab ▸ ha)

/-- each path occurs once -/
theorem nodup_keys_foldl_mergeIntoG {α : Type} (items : List (Str × List α)) :
    ((items.foldl mergeIntoG []).map Prod.fst).Nodup := by
  rw [keys_foldl_mergeIntoG]
  exact nodup_firstSeenFrom _ _ List.nodup_nil

/-- the paths of the result are exactly the paths of the items -/
theorem mem_keys_foldl_mergeIntoG {α : Type} (items : List (Str × List α)) (f : Str) :
    f ∈ (items.foldl mergeIntoG []).map Prod.fst ↔ f ∈ items.map Prod.fst := by
  rw [keys_foldl_mergeIntoG, mem_firstSeenFrom]
  simp

theorem mem_collectFor {α : Type} (f : Str) (items : List (Str × List α)) (p : α) :
    p ∈ collectFor f items ↔ ∃ ps, (f, ps) ∈ items ∧ p ∈ ps := by
  induction items with
  | nil => simp [collectFor]
  | cons hd rest ih =>
    obtain ⟨k, qs⟩ := hd
    by_cases hk : k = f
    · subst hk
      simp only [collectFor, if_true, List.mem_append, ih, List.mem_cons, Prod.mk.injEq, true_and]
      constructor
      · rintro (h | ⟨ps, h1, h2⟩)
        · exact ⟨qs, .inl rfl, h⟩
        · exact ⟨ps, .inr h1, h2⟩
      · rintro ⟨ps, h1 | h1, h2⟩
        · exact .inl (h1 ▸ h2)
        · exact .inr ⟨ps, h1, h2⟩
    · have hk' : ¬ f = k := fun h => hk h.symm
      simp only [collectFor, hk, if_false, ih, List.mem_cons, Prod.mk.injEq, hk', false_and, false_or]

/-- THE MERGE LEMMA: a pattern stands under a path of the result exactly when some item with that path
    carries it -/
theorem merge_exact {α : Type} (items : List (Str × List α)) (f : Str) (p : α) :
    (∃ qs, lookup f (items.foldl mergeIntoG []) = some qs ∧ p ∈ qs) ↔ ∃ ps, (f, ps) ∈ items ∧ p ∈ ps := by
  rw [lookup_foldl_mergeIntoG, lookup_nil]
  simp only []
  by_cases hf : f ∈ items.map Prod.fst
  · simp only [hf, if_true, Option.some.injEq, exists_eq_left', mem_collectFor]
  · simp only [hf, if_false, reduceCtorEq, false_and, exists_false, false_iff]
    rintro ⟨ps, h1, -⟩
    exact hf (List.mem_map.mpr ⟨(f, ps), h1, rfl⟩)

/-! ### `compileFilePatternsE` and the hand model's `compileFilePatterns` -/

/-- every raw pattern of a merged map replaced by its compiled form -/
def mapVals {α β : Type} (g : α → β) (m : List (Str × List α)) : List (Str × List β) :=
  m.map (fun kv => (kv.1, kv.2.map g))

theorem mapVals_keys {α β : Type} (g : α → β) (m : List (Str × List α)) :
    (mapVals g m).map Prod.fst = m.map Prod.fst := by
  simp [mapVals, List.map_map, Function.comp_def]

theorem lookup_mapVals {α β : Type} (g : α → β) (m : List (Str × List α)) (k : Str) :
    lookup k (mapVals g m) = (lookup k m).map (List.map g) := by
  induction m with
  | nil => rfl
  | cons hd t ih =>
    obtain ⟨k', v⟩ := hd
    by_cases h : k = k'
    · subst h; simp [mapVals, lookup_cons]
    · have ih' : lookup k (List.map (fun kv => (kv.1, List.map g kv.2)) t) = Option.map (List.map g) (lookup k t) := ih
      simp [mapVals, lookup_cons, h, ih']

theorem setOpt_mapVals {α β : Type} (g : α → β) (m : List (Str × List α)) (k : Str) (v : List α) :
    setOpt k (v.map g) (mapVals g m) = mapVals g (setOpt k v m) := by
  induction m with
  | nil => rfl
  | cons hd t ih =>
    obtain ⟨k', v'⟩ := hd
    have ih' : setOpt k (List.map g v) (List.map (fun kv => (kv.1, List.map g kv.2)) t) =
        List.map (fun kv => (kv.1, List.map g kv.2)) (setOpt k v t) := ih
    by_cases h : k = k'
    · subst h; simp [mapVals, setOpt]
    · simp [mapVals, setOpt, h, ih']

theorem mergeInto_eq (acc : FilePatterns) (item : Str × List Str) : mergeInto acc item = mergeIntoG acc item := by
  unfold mergeInto mergeIntoG
  cases lookup item.1 acc <;> rfl

theorem foldl_mergeInto_eq (items acc : FilePatterns) : items.foldl mergeInto acc = items.foldl mergeIntoG acc := by
  induction items generalizing acc with
  | nil => rfl
  | cons hd t ih => rw [List.foldl_cons, List.foldl_cons, mergeInto_eq, ih]

theorem mergeIntoG_mapVals {α β : Type} (g : α → β) (acc : List (Str × List α)) (k : Str) (ps : List α) :
    mergeIntoG (mapVals g acc) (k, ps.map g) = mapVals g (mergeIntoG acc (k, ps)) := by
  unfold mergeIntoG
  simp only [lookup_mapVals]
  cases lookup k acc with
  | none => simp [mapVals]
  | some old =>
    simp only [Option.map_some, ← List.map_append]
    exact setOpt_mapVals g acc k (old ++ ps)

theorem foldl_mergeIntoG_mapVals {α β : Type} (g : α → β) (items acc : List (Str × List α)) :
    (mapVals g items).foldl mergeIntoG (mapVals g acc) = mapVals g (items.foldl mergeIntoG acc) := by
  induction items generalizing acc with
  | nil => rfl
  | cons hd t ih =>
    obtain ⟨k, ps⟩ := hd
    have : mapVals g ((k, ps) :: t) = (k, ps.map g) :: mapVals g t := rfl
    rw [this, List.foldl_cons, List.foldl_cons, mergeIntoG_mapVals, ih]

/-- the callees are what the hand model's environment says: `compile_pattern` succeeds exactly when
    `compileOk` holds (its failure is `re.error`), its value is `mk isNew p`; `compile_patterns` is the list
    comprehension over `compile_pattern` -/
structure CalleesAgree {π : Type} (env : CfgEnv) (c : CompileCallees π) (mk : Bool → Str → π) (vp : Str) : Prop where
  cp2 : ∀ p, c.cp2 (.str vp) p = if env.compileOk true vp p then .ok (mk true p) else .error "re.error".toList
  cps2 : ∀ ps, c.cps2 (.str vp) ps = mapE (c.cp2 (.str vp)) ps
  cps1 : ∀ ps, c.cps1 (.str vp) ps =
    mapE (fun p => if env.compileOk false vp p then .ok (mk false p) else .error "re.error".toList) ps

theorem checkPatterns_v2 {π : Type} (env : CfgEnv) (c : CompileCallees π) (mk : Bool → Str → π) (vp : Str)
    (h : CalleesAgree env c mk vp) (pats : List Str) :
    match checkPatterns env true vp pats with
    | .error e => checkPatternsE c.cp2 (.str vp) pats = .error e.pyClass
    | .ok () => checkPatternsE c.cp2 (.str vp) pats = .ok () ∧
        mapE (c.cp2 (.str vp)) pats = .ok (pats.map (mk true)) := by
  induction pats with
  | nil => exact ⟨rfl, rfl⟩
  | cons p ps ih =>
    unfold checkPatterns checkPatternsE
    generalize hbv : startsWith p "[".toList = b
    cases b with
    | true => simp only [Bool.and_self, if_true, pyClass_bracketPattern]
    | false =>
      simp only [Bool.and_false, Bool.false_eq_true, if_false, h.cp2 p]
      cases hc : env.compileOk true vp p with
      | true =>
        simp only [Bool.not_true, Bool.false_eq_true, if_false, if_true]
        cases hr : checkPatterns env true vp ps with
        | error e => rw [hr] at ih; exact ih
        | ok u =>
          rw [hr] at ih
          simp only [mapE, h.cp2 p, hc, if_true, ih.1, ih.2, List.map_cons, and_self]
      | false => simp only [Bool.not_false, if_true, Bool.false_eq_true, if_false, pyClass_reError]

theorem checkPatterns_v1 (env : CfgEnv) {π : Type} (mk : Bool → Str → π) (vp : Str) (pats : List Str) :
    mapE (fun p => if env.compileOk false vp p then (.ok (mk false p) : Except Str π) else .error "re.error".toList) pats =
      match checkPatterns env false vp pats with
      | .error e => .error e.pyClass
      | .ok () => .ok (pats.map (mk false)) := by
  induction pats with
  | nil => rfl
  | cons p ps ih =>
    unfold checkPatterns mapE
    cases hc : env.compileOk false vp p with
    | true =>
      simp only [if_true, ih, Bool.false_and, Bool.false_eq_true, if_false, Bool.not_true]
      cases checkPatterns env false vp ps <;> rfl
    | false => simp only [Bool.false_eq_true, if_false, Bool.false_and, Bool.not_false, if_true, pyClass_reError]

/-- one item: the hand model's check of its patterns, then every pattern compiled -/
theorem compileItemE_model {π : Type} (env : CfgEnv) (c : CompileCallees π) (mk : Bool → Str → π) (vp : Str)
    (h : CalleesAgree env c mk vp) (isNew : Bool) (pats : List Str) :
    compileItemE c isNew (.str vp) pats =
      match checkPatterns env isNew vp pats with
      | .error e => .error e.pyClass
      | .ok () => .ok (pats.map (mk isNew)) := by
  unfold compileItemE
  cases isNew with
  | true =>
    have h2 := checkPatterns_v2 env c mk vp h pats
    cases hr : checkPatterns env true vp pats with
    | error e => rw [hr] at h2; simp [h2]
    | ok u => rw [hr] at h2; simp [h2.1, h.cps2, h2.2]
  | false =>
    simp only [Bool.false_eq_true, if_false, h.cps1, checkPatterns_v1]

theorem compileItemsE_model {π : Type} (env : CfgEnv) (c : CompileCallees π) (mk : Bool → Str → π) (vp : Str)
    (h : CalleesAgree env c mk vp) (isNew : Bool) (items : FilePatterns) :
    match checkAllPatterns env isNew vp items with
    | .error e => (compileItemsE c isNew (.str vp) items none).exc = some e.pyClass
    | .ok () => compileItemsE c isNew (.str vp) items none = ⟨mapVals (mk isNew) items, none⟩ := by
  induction items with
  | nil => rfl
  | cons hd t ih =>
    obtain ⟨f, pats⟩ := hd
    unfold checkAllPatterns compileItemsE
    rw [compileItemE_model env c mk vp h]
    cases hr : checkPatterns env isNew vp pats with
    | error e => rfl
    | ok u =>
      simp only []
      cases hr2 : checkAllPatterns env isNew vp t with
      | error e => rw [hr2] at ih; simpa [PyGen.yield] using ih
      | ok u2 => rw [hr2] at ih; simp only [] at ih; rw [ih]; rfl

/-- `compileFilePatternsE` with a glob that never raises and callees as the environment describes them is the
    hand model's `compileFilePatterns` on raw patterns, every pattern then compiled by `mk isNew` -/
theorem compileFilePatternsE_model {π : Type} (env : CfgEnv) (c : CompileCallees π) (mk : Bool → Str → π) (vp : Str)
    (h : CalleesAgree env c mk vp) (isNew : Bool) (fps : FilePatterns) :
    compileFilePatternsE (fun g => .ok (env.glob g)) c isNew (.str vp) fps =
      ((compileFilePatterns env isNew vp fps).mapError CfgErr.pyClass).map (mapVals (mk isNew)) := by
  unfold compileFilePatternsE compileFilePatterns
  simp only [iterGlobExpandedE_total]
  have hm := compileItemsE_model env c mk vp h isNew (iterGlobExpanded env.glob fps)
  cases hr : checkAllPatterns env isNew vp (iterGlobExpanded env.glob fps) with
  | error e => rw [hr] at hm; simp only [] at hm; simp [hm, Except.mapError, Except.map]
  | ok u =>
    rw [hr] at hm
    simp only [] at hm
    simp only [hm, Except.mapError, Except.map]
    rw [foldl_mergeInto_eq]
    exact congrArg Except.ok (foldl_mergeIntoG_mapVals (mk isNew) (iterGlobExpanded env.glob fps) [])

end BV.TieP
