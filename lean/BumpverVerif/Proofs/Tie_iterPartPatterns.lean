/-
  Proofs/Tie_iterPartPatterns.lean — the definition GENERATED from the Python source of
  `v2patterns._iter_part_patterns` (Gen/F_iterPartPatterns.lean: a generator with a `for` over
  `PART_PATTERNS.items()` and a `while True` / `pattern.find(part_name, end_idx)` loop with explicit fuel)
  against the hand model `BV.iterPartPatterns` (Model/V2Patterns.lean: `findAllFrom` + two folds).

  `tie_iterPartPatterns`: for every fuel ≥ len(pattern) + 1 the generated function returns `some` of the
  model's list under the abstraction `PosPart.toPair` (sort key `(-end_idx, -len(part_name))`, positioned
  part `(start_idx, end_idx, named_part_pattern)`), i.e. the Python loops terminate and yield exactly the
  model's items in the model's order.  Hypotheses (both decidable, both true of the generated tables):
    * `hkeys`: every key of PART_PATTERNS is a key of PATTERN_PART_FIELDS (otherwise Python raises KeyError
      where the model uses the field name "");
    * `hne`  : no part name is the empty string (Python's `find("", end_idx)` loop would never terminate;
      the model yields nothing for it).
-/
import BumpverVerif.Gen.F_iterPartPatterns
import BumpverVerif.Proofs.Tie_patternsPrims
namespace BV
open PyP

/-- what `_iter_part_patterns` yields for the model's `PosPart`:
    `((-end_idx, -len(part_name)), (start_idx, end_idx, named_part_pattern))` -/
def PosPart.toPair (pp : PosPart) : (Int × Int) × (Int × Int × Str) :=
  ((-(pp.stop : Int), -(pp.name.length : Int)), ((pp.start : Int), (pp.stop : Int), pp.text))

/-- the `while True` / `find` loop against `findAllFrom` + `foldl`, for an abstract loop body that
    behaves as specified (`hbody`); two independent fuels, both sufficient -/
theorem whileTrue_findAll (p name : Str) (hne : name ≠ [])
    (mstep : List PosPart × List Str → Nat → List PosPart × List Str)
    (body : (List ((Int × Int) × (Int × Int × Str)) × List Str × Int) →
      Option (Step (List ((Int × Int) × (Int × Int × Str)) × List Str × Int)))
    (hbody : ∀ (ys : List PosPart) (used : List Str) (e : Nat),
      body (ys.map PosPart.toPair, used, (e : Int)) =
        match findIdx name (p.drop e) with
        | none => some (.brk (ys.map PosPart.toPair, used, (e : Int)))
        | some i => some (.next ((mstep (ys, used) (e + i)).1.map PosPart.toPair, (mstep (ys, used) (e + i)).2,
                                  ((e + i + name.length : Nat) : Int)))) :
    ∀ (fM fG e : Nat) (ys : List PosPart) (used : List Str),
      (p.drop e).length + 1 ≤ fM → (p.drop e).length + 1 ≤ fG →
      ∃ e' : Int, whileTrue body fG (ys.map PosPart.toPair, used, (e : Int)) =
        some ((((findAllFrom name fM e (p.drop e)).foldl mstep (ys, used)).1.map PosPart.toPair),
              ((findAllFrom name fM e (p.drop e)).foldl mstep (ys, used)).2, e') := by
  intro fM
  induction fM with
  | zero => intro fG e ys used h; omega
  | succ fM ih =>
    intro fG e ys used hM hG
    cases fG with
    | zero => omega
    | succ fG =>
      simp only [whileTrue, hbody, findAllFrom]
      cases hf : findIdx name (p.drop e) with
      | none => exact ⟨_, rfl⟩
      | some i =>
        have hnE : name.isEmpty = false := by cases name with
          | nil => exact absurd rfl hne
          | cons _ _ => rfl
        have hb := findIdx_add_le hf
        have hpos : 0 < name.length := by cases name with
          | nil => exact absurd rfl hne
          | cons _ _ => simp
        simp only [hnE, Bool.false_eq_true, if_false, List.foldl_cons, List.drop_drop]
        have hlen : (p.drop (e + (i + name.length))).length + 1 ≤ fM := by
          simp only [List.length_drop] at hb hM ⊢; omega
        have hlenG : (p.drop (e + (i + name.length))).length + 1 ≤ fG := by
          simp only [List.length_drop] at hb hG ⊢; omega
        have := ih fG (e + (i + name.length)) (mstep (ys, used) (e + i)).1 (mstep (ys, used) (e + i)).2 hlen hlenG
        simpa only [Nat.add_assoc] using this

/-- the model's inner step (one occurrence of a part) -/
def iterInner (name rx field : Str) (acc : List PosPart × List Str) (start : Nat) : List PosPart × List Str :=
  let used := acc.2
  let gname := if memStr field used then field ++ ['_'] ++ natToStr used.length else field
  let text := "(?P<".toList ++ gname ++ ">".toList ++ rx ++ ")".toList
  let used' := if memStr field used then used else used ++ [field]
  (acc.1 ++ [{ start := start, stop := start + name.length, name := name, text := text }], used')

/-- the model's outer step (one entry of PART_PATTERNS) -/
def iterOuter (partFields : List (Str × Str)) (p : Str) (acc : List PosPart × List Str) (pp : Str × Str) :
    List PosPart × List Str :=
  (findAllFrom pp.1 (p.length + 1) 0 p).foldl (iterInner pp.1 pp.2 ((lookup pp.1 partFields).getD [])) acc

theorem iterPartPatterns_eq_fold (partPatterns partFields : List (Str × Str)) (p : Str) :
    iterPartPatterns partPatterns partFields p = (partPatterns.foldl (iterOuter partFields p) ([], [])).1 := rfl

/-- state of the generated `for` loop (yielded, used_fields) for a model state -/
def iterAbs (t : List PosPart × List Str) : List ((Int × Int) × (Int × Int × Str)) × List Str :=
  (t.1.map PosPart.toPair, t.2)

theorem tie_iterPartPatterns (partPatterns partFields : List (Str × Str)) (fuel : Nat) (pattern : Str)
    (hkeys : ∀ pp ∈ partPatterns, (lookup pp.1 partFields).isSome = true)
    (hne : ∀ pp ∈ partPatterns, pp.1 ≠ [])
    (hfuel : pattern.length + 1 ≤ fuel) :
    GenF.iterPartPatterns partPatterns partFields fuel pattern =
      some ((iterPartPatterns partPatterns partFields pattern).map PosPart.toPair) := by
  rw [iterPartPatterns_eq_fold]
  have hloop : ∀ B : (List ((Int × Int) × (Int × Int × Str)) × List Str) → (Str × Str) →
        Option (List ((Int × Int) × (Int × Int × Str)) × List Str),
      (∀ pp ∈ partPatterns, ∀ t, B (iterAbs t) pp = some (iterAbs (iterOuter partFields pattern t pp))) →
      forM B partPatterns ([], []) =
        some (iterAbs (partPatterns.foldl (iterOuter partFields pattern) ([], []))) :=
    fun B hB => forM_abs B _ iterAbs partPatterns hB ([], [])
  simp only [GenF.iterPartPatterns]
  rw [hloop _ ?_]
  · rfl
  · intro pp hpp t
    obtain ⟨field, hfield⟩ := Option.isSome_iff_exists.mp (hkeys pp hpp)
    simp only [iterAbs]
    have hin : ∀ B : (List ((Int × Int) × (Int × Int × Str)) × List Str × Int) →
          Option (Step (List ((Int × Int) × (Int × Int × Str)) × List Str × Int)),
        (∀ (ys : List PosPart) (used : List Str) (e : Nat),
          B (ys.map PosPart.toPair, used, (e : Int)) =
            match findIdx pp.1 (pattern.drop e) with
            | none => some (.brk (ys.map PosPart.toPair, used, (e : Int)))
            | some i => some (.next ((iterInner pp.1 pp.2 field (ys, used) (e + i)).1.map PosPart.toPair,
                                      (iterInner pp.1 pp.2 field (ys, used) (e + i)).2,
                                      ((e + i + pp.1.length : Nat) : Int)))) →
        (match whileTrue B fuel (List.map PosPart.toPair t.1, t.2, ((0 : Nat) : Int)) with
          | none => none
          | some st => some (st.1, st.2.1)) =
        some (List.map PosPart.toPair (iterOuter partFields pattern t pp).1, (iterOuter partFields pattern t pp).2) := by
      intro B hB
      obtain ⟨e', he'⟩ := whileTrue_findAll pattern pp.1 (hne pp hpp) (iterInner pp.1 pp.2 field) B hB
        (pattern.length + 1) fuel 0 t.1 t.2 (by simp) (by simpa using hfuel)
      rw [he']
      simp only [iterOuter, hfield, Option.getD_some, List.drop_zero]
    refine hin _ ?_
    intro ys used e
    cases hf : findIdx pp.1 (pattern.drop e) with
    | none =>
      simp only [find_natCast_none pattern pp.1 e hf]
      rfl
    | some i =>
      have hlt : ¬ (((e + i : Nat) : Int) < 0) := by omega
      simp only [find_natCast_some pattern pp.1 e i (hne pp hpp) hf, hlt, decide_false, Bool.false_eq_true,
        if_false, hfield]
      simp only [iterInner, memStr, setAdd, List.map_append, List.map_cons, List.map_nil, PosPart.toPair,
        Int.ofNat_eq_natCast, List.elem_eq_contains, Int.natCast_add]
      by_cases hm : field ∈ used <;> simp [hm, List.append_assoc]

/-! ### the generated tables satisfy the two hypotheses -/

theorem genPartPatterns_keys : ∀ pp ∈ Gen.partPatterns, (lookup pp.1 Gen.partFields).isSome = true := by
  decide

theorem genPartPatterns_ne : ∀ pp ∈ Gen.partPatterns, pp.1 ≠ [] := by decide

/-- the tie over the GENERATED tables (`PART_PATTERNS`, `PATTERN_PART_FIELDS`) -/
theorem tie_iterPartPatterns_gen (fuel : Nat) (pattern : Str) (hfuel : pattern.length + 1 ≤ fuel) :
    GenF.iterPartPatterns Gen.partPatterns Gen.partFields fuel pattern =
      some ((iterPartPatterns Gen.partPatterns Gen.partFields pattern).map PosPart.toPair) :=
  tie_iterPartPatterns _ _ fuel pattern genPartPatterns_keys genPartPatterns_ne hfuel

/-- the hypothesis `hkeys` is needed: for a part without an entry in PATTERN_PART_FIELDS Python raises
    KeyError (`none`), the model goes on with the field name "" -/
example : GenF.iterPartPatterns [("QQ".toList, "x".toList)] [] 50 "aQQ".toList = none := by decide
example : (iterPartPatterns [("QQ".toList, "x".toList)] [] "aQQ".toList).map PosPart.toPair =
    [((-3, -2), (1, 3, "(?P<>x)".toList))] := by decide

/-- the hypothesis `hne` is needed: with a part named "" the Python loop never terminates (the generated
    definition runs out of any fuel) while the model yields nothing -/
example : GenF.iterPartPatterns [("".toList, "x".toList)] [("".toList, "f".toList)] 50 "ab".toList = none := by
  decide
example : iterPartPatterns [("".toList, "x".toList)] [("".toList, "f".toList)] "ab".toList = [] := by decide

end BV
