/-
  Proofs/Tie_v1RewriteFiles.lean — the definition GENERATED from the Python source of
  `v1rewrite.rewrite_files` (Gen/F_v1RewriteFiles.lean) equals the hand model `BV.v1RewriteFiles` on the
  abstract file system, for every file system, every configuration of patterns of the legacy compiler and
  every `V1Info`: ALL files are read and validated (`list(iter_rewritten(...))`, tie_v1IterRewritten) before the
  first one is written.  The translation consumes a generator that has effects lazily unless the source says
  `list(...)`: with the `list(...)` removed the generated definition is the fused read-validate-write loop,
  i.e. the model's `v1RewriteFilesLazy` (proved under that edit in harness/dev/V1RewriteFilesLazyVariant.lean),
  and this theorem no longer holds (`V1_C06_lazy_partial_write_witness`).
-/
import BumpverVerif.Gen.F_v1RewriteFiles
import BumpverVerif.Proofs.Tie_v1IterRewritten
import BumpverVerif.Proofs.Tie_rewriteFiles
namespace BV

open GenF (PatternMatch Pattern RewrittenFileData)

theorem tie_v1RewriteFiles (file_patterns : List (Str × List Pattern)) (new_vinfo : V1Info) (fs : FS)
    (hwf : TieM.WfFilePatterns1 file_patterns) :
    GenF.v1RewriteFiles file_patterns new_vinfo fs
      = v1RewriteFiles fs (GenF.absFilePatterns file_patterns) new_vinfo := by
  unfold GenF.v1RewriteFiles v1RewriteFiles RwEngine.rewriteFiles
  obtain ⟨-, h2⟩ := tie_v1IterRewritten_planWrites file_patterns new_vinfo fs hwf
  unfold v1PlanWrites at h2
  rw [tie_v1IterRewritten _ _ _ hwf] at h2 ⊢
  simp only [] at h2 ⊢
  cases hr : TieM.planRfds v1Engine new_vinfo fs file_patterns [] with
  | error e =>
    rw [hr] at h2
    rw [← h2]
    rfl
  | ok rfds =>
    rw [hr] at h2
    rw [← h2]
    simp only [Except.map]
    rw [pyForFS_writes _ ?hb]
    case hb => intro fd u fs'; rfl

end BV
