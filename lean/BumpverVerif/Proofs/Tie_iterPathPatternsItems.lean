/-
  Proofs/Tie_iterPathPatternsItems.lean — the definition GENERATED from the Python source of
  `rewrite.iter_path_patterns_items` (Gen/F_iterPathPatternsItems.lean, the generator run to exhaustion, as
  `sorted(...)` in `v2rewrite.diff` consumes it): the file system is untouched; when every configured file
  exists the items come back in order, otherwise the result is the IOError (`missingFile`).
  (Where the generator is consumed lazily — `iter_rewritten` — it is inlined instead: Tie_iterRewritten.)
-/
import BumpverVerif.Gen.F_iterPathPatternsItems
import BumpverVerif.Proofs.Tie_rewritePrelude
namespace BV

open GenF (Pattern)

theorem pyForFS_exists
    (body : Str × List Pattern → List (Str × List Pattern) → FS → FS × Except RwErr (List (Str × List Pattern)))
    (hb : ∀ it acc fs, body it acc fs =
      (fs, if (lookup it.1 fs).isSome then .ok (acc ++ [it]) else .error .missingFile))
    (l acc : List (Str × List Pattern)) (fs : FS) :
    GenF.pyForFS l body acc fs =
      (fs, if l.all (fun it => (lookup it.1 fs).isSome) then .ok (acc ++ l) else .error .missingFile) := by
  induction l generalizing acc with
  | nil => simp [GenF.pyForFS_nil]
  | cons it l ih =>
    rw [GenF.pyForFS_cons, hb]
    by_cases h : (lookup it.1 fs).isSome = true
    · simp only [h, if_true, List.all_cons, Bool.true_and]
      rw [ih]
      simp
    · simp [h]

theorem tie_iterPathPatternsItems (file_patterns : List (Str × List Pattern)) (fs : FS) :
    GenF.iterPathPatternsItems file_patterns fs =
      (fs, if file_patterns.all (fun it => (lookup it.1 fs).isSome) then .ok file_patterns
           else .error .missingFile) := by
  unfold GenF.iterPathPatternsItems
  simp only []
  rw [pyForFS_exists _ ?hb]
  case hb =>
    intro it acc fs'
    simp only [GenF.pyExists]
    by_cases h : (lookup it.1 fs').isSome = true <;> simp [h]
  simp only [List.nil_append]
  by_cases h : file_patterns.all (fun it => (lookup it.1 fs).isSome) = true <;> simp [h]

end BV
