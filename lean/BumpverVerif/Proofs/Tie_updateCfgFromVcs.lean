/-
  Proofs/Tie_updateCfgFromVcs.lean — the definition GENERATED from the Python source of
  `cli._update_cfg_from_vcs` (Gen/F_updateCfgFromVcs.lean) against the hand model `BV.startVersion`
  (Model/Cli.lean; property C09: which version an update starts from, per tag scope).

  * `tie_updateCfgFromVcs_new`: for a new-style pattern the `current_version` of the returned
    config is `startVersion (absScope cfg.tag_scope) …` over the tag listing of the configured scope,
    on all inputs (errors of the parser propagate in both);
  * `updateCfgFromVcs_record`: the returned record is `cfg` itself or `cfg` with exactly
    `current_version` and `pep440_version = to_pep440(current_version)` replaced;
  * `tie_updateCfgFromVcs_legacy`: the same decision over the legacy parser's valid tags.

  The abstraction `absScope` maps the GENERATED enum (from the class definition `config.TagScope`)
  to the model's `TagScope`.
-/
import BumpverVerif.Gen.F_updateCfgFromVcs
import BumpverVerif.Proofs.Tie_getLatestVcsVersionTag
namespace BV

attribute [local irreducible] isValid parseVersionInfo incr v1IsValid v1ParseVersionInfo v1Incr

def absScope : GenC.TagScope → TagScope
  | .DEFAULT => .default
  | .GLOBAL => .global
  | .BRANCH => .branch

/-- the decision of `_update_cfg_from_vcs` once the latest tag is known (any pattern style) -/
def startOfLatest (scope : TagScope) (cfgVersion : Str) : Option Str → Str
  | none => cfgVersion
  | some t =>
    match scope with
    | .default => if pepLe t cfgVersion then cfgVersion else t
    | _ => t

theorem updateCfg_of_latest {α : Type} (today : Date) (vcs_get_tags : Bool → GenC.TagScope → List Str)
    (cfg : GenC.Config α) (fetch : Bool) :
    (GenC.updateCfgFromVcs today vcs_get_tags cfg fetch).map (·.current_version) =
      (GenC.getLatestVcsVersionTag today vcs_get_tags cfg fetch).map
        (startOfLatest (absScope cfg.tag_scope) cfg.current_version) := by
  unfold GenC.updateCfgFromVcs
  dsimp only
  try simp only [verLt_eq_not_verLe, Bool.not_not]
  generalize GenC.getLatestVcsVersionTag today vcs_get_tags cfg fetch = r
  cases r with
  | error e => rfl
  | ok l =>
    cases l with
    | none => rfl
    | some t =>
      simp only [Except.map, startOfLatest, pepLe]
      cases cfg.tag_scope <;>
        (by_cases hle : verLe (parseVersion t) (parseVersion cfg.current_version) = true <;> simp [hle, absScope])

theorem tie_updateCfgFromVcs_new {α : Type} (today : Date) (vcs_get_tags : Bool → GenC.TagScope → List Str)
    (cfg : GenC.Config α) (fetch : Bool) (hn : cfg.is_new_pattern = true) :
    (GenC.updateCfgFromVcs today vcs_get_tags cfg fetch).map (·.current_version)
      = liftV2 (startVersion (absScope cfg.tag_scope) cfg.version_pattern cfg.current_version today
          (vcs_get_tags fetch cfg.tag_scope)) := by
  rw [updateCfg_of_latest, tie_getLatestVcsVersionTag_new _ _ _ _ hn]
  unfold startVersion
  cases latestVersionTag cfg.version_pattern today (vcs_get_tags fetch cfg.tag_scope) with
  | error e => rfl
  | ok l => cases l <;> simp only [liftV2, Except.map, startOfLatest] <;> cases absScope cfg.tag_scope <;> simp <;>
      split <;> simp_all

theorem tie_updateCfgFromVcs_legacy {α : Type} (today : Date) (vcs_get_tags : Bool → GenC.TagScope → List Str)
    (cfg : GenC.Config α) (fetch : Bool) (hn : cfg.is_new_pattern = false) :
    (GenC.updateCfgFromVcs today vcs_get_tags cfg fetch).map (·.current_version)
      = liftV1 ((v1ParseVersionTags cfg.version_pattern (vcs_get_tags fetch cfg.tag_scope)).map
          (fun vts => startOfLatest (absScope cfg.tag_scope) cfg.current_version (latestOf vts))) := by
  rw [updateCfg_of_latest, tie_getLatestVcsVersionTag_legacy _ _ _ _ hn]
  cases v1ParseVersionTags cfg.version_pattern (vcs_get_tags fetch cfg.tag_scope) <;> rfl

/-- nothing but `current_version` / `pep440_version` is touched, and `pep440_version` is
    `to_pep440` of the adopted tag -/
theorem updateCfgFromVcs_record {α : Type} (today : Date) (vcs_get_tags : Bool → GenC.TagScope → List Str)
    (cfg c' : GenC.Config α) (fetch : Bool)
    (h : GenC.updateCfgFromVcs today vcs_get_tags cfg fetch = .ok c') :
    c' = cfg ∨ c' = { cfg with current_version := c'.current_version,
                               pep440_version := verStr (parseVersion c'.current_version) } := by
  unfold GenC.updateCfgFromVcs at h
  dsimp only at h
  generalize GenC.getLatestVcsVersionTag today vcs_get_tags cfg fetch = r at h
  cases r with
  | error e => simp at h
  | ok l =>
    cases l with
    | none => simp at h; exact Or.inl h.symm
    | some t =>
      simp only [pyToPep440] at h
      repeat' split at h
      all_goals (first | (simp at h; subst h; simp) | skip)

end BV
