/-
  Proofs/CalendarLemmas.lean — helper lemmas about the calendar model (Model/Calendar.lean).

  Route: a year is written `400k + 100a + 4b + c + 1`, which makes `daysBeforeYear`, `isLeap`
  and `datetime._ord2ymd` (`fromOrdinal`) linear, so `omega` proves that `fromOrdinal` inverts the
  ordinal (`fromOrdinal_spec`, `ordinal_unique`). One day forward either stays in the year
  (day of year + 1, weekday + 1) or moves from 31 December to 1 January; the month/day table is
  checked on the 366 days of a year by `decide +kernel`, week numbers and the ISO year/week by
  `omega` (`step_facts`). Helper lemmas only; property theorems live in Props/C14.lean.
-/
import BumpverVerif.Model.Calendar
namespace BV

/-! ### years -/

theorem isLeap_iff (y : Nat) : isLeap y = true ↔ y % 4 = 0 ∧ (y % 100 ≠ 0 ∨ y % 400 = 0) := by
  simp [isLeap]

theorem yearLen_eq (y : Nat) :
    (isLeap y = true ∧ yearLen y = 366) ∨ (isLeap y = false ∧ yearLen y = 365) := by
  unfold yearLen
  cases isLeap y <;> simp

theorem daysBeforeYear_decomp (k a b c : Nat) (ha : a < 4) (hb : b < 25) (hc : c < 4) :
    daysBeforeYear (400 * k + 100 * a + 4 * b + c + 1) = 146097 * k + 36524 * a + 1461 * b + 365 * c := by
  unfold daysBeforeYear
  have h4 : (400 * k + 100 * a + 4 * b + c + 1 - 1) / 4 = 100 * k + 25 * a + b := by omega
  have h100 : (400 * k + 100 * a + 4 * b + c + 1 - 1) / 100 = 4 * k + a := by omega
  have h400 : (400 * k + 100 * a + 4 * b + c + 1 - 1) / 400 = k := by omega
  rw [h4, h100, h400]
  omega

theorem isLeap_decomp (k a b c : Nat) (ha : a < 4) (hb : b < 25) (hc : c < 4) :
    isLeap (400 * k + 100 * a + 4 * b + c + 1) = true ↔ c = 3 ∧ (b ≠ 24 ∨ a = 3) := by
  rw [isLeap_iff]
  omega

theorem year_decomp (y : Nat) (h : 1 ≤ y) :
    ∃ k a b c, a < 4 ∧ b < 25 ∧ c < 4 ∧ y = 400 * k + 100 * a + 4 * b + c + 1 :=
  ⟨(y - 1) / 400, (y - 1) % 400 / 100, (y - 1) % 100 / 4, (y - 1) % 4, by omega, by omega, by omega, by omega⟩

theorem yearLen_decomp (k a b c : Nat) (ha : a < 4) (hb : b < 25) (hc : c < 4) :
    yearLen (400 * k + 100 * a + 4 * b + c + 1) = if c = 3 ∧ (b ≠ 24 ∨ a = 3) then 366 else 365 := by
  have h := isLeap_decomp k a b c ha hb hc
  unfold yearLen
  by_cases hl : isLeap (400 * k + 100 * a + 4 * b + c + 1) = true
  · rw [if_pos hl, if_pos (h.mp hl)]
  · rw [if_neg hl, if_neg (fun h' => hl (h.mpr h'))]

theorem daysBeforeYear_succ (y : Nat) (h : 1 ≤ y) :
    daysBeforeYear (y + 1) = daysBeforeYear y + yearLen y := by
  obtain ⟨k, a, b, c, ha, hb, hc, rfl⟩ := year_decomp y h
  rw [yearLen_decomp k a b c ha hb hc, daysBeforeYear_decomp k a b c ha hb hc]
  by_cases h1 : c < 3
  · have e : 400 * k + 100 * a + 4 * b + c + 1 + 1 = 400 * k + 100 * a + 4 * b + (c + 1) + 1 := by omega
    rw [e, daysBeforeYear_decomp k a b (c + 1) ha hb (by omega)]
    split <;> omega
  · by_cases h2 : b < 24
    · have e : 400 * k + 100 * a + 4 * b + c + 1 + 1 = 400 * k + 100 * a + 4 * (b + 1) + 0 + 1 := by omega
      rw [e, daysBeforeYear_decomp k a (b + 1) 0 ha (by omega) (by omega)]
      split <;> omega
    · by_cases h3 : a < 3
      · have e : 400 * k + 100 * a + 4 * b + c + 1 + 1 = 400 * k + 100 * (a + 1) + 4 * 0 + 0 + 1 := by omega
        rw [e, daysBeforeYear_decomp k (a + 1) 0 0 (by omega) (by omega) (by omega)]
        split <;> omega
      · have e : 400 * k + 100 * a + 4 * b + c + 1 + 1 = 400 * (k + 1) + 100 * 0 + 4 * 0 + 0 + 1 := by omega
        rw [e, daysBeforeYear_decomp (k + 1) 0 0 0 (by omega) (by omega) (by omega)]
        split <;> omega

theorem daysBeforeYear_mono (y y' : Nat) (h : 1 ≤ y) (h' : y < y') :
    daysBeforeYear y + yearLen y ≤ daysBeforeYear y' := by
  induction y' with
  | zero => omega
  | succ z ih =>
    by_cases hz : y = z
    · subst hz; rw [daysBeforeYear_succ y h]; omega
    · have := ih (by omega)
      rw [daysBeforeYear_succ z (by omega)]; omega

/-- a day is determined by its ordinal -/
theorem ordinal_unique (y j y' j' : Nat) (hy : 1 ≤ y) (hy' : 1 ≤ y') (hj : j < yearLen y)
    (hj' : j' < yearLen y') (h : daysBeforeYear y + j = daysBeforeYear y' + j') : y = y' ∧ j = j' := by
  rcases Nat.lt_trichotomy y y' with hlt | heq | hgt
  · have := daysBeforeYear_mono y y' hy hlt; omega
  · subst heq; omega
  · have := daysBeforeYear_mono y' y hy' hgt; omega


/-! ### `fromOrdinal` inverts the ordinal -/

theorem monthDay_true_365 : monthDayOfYday true 365 = (12, 31) := by decide

theorem fromOrdinal_spec (n : Nat) (h : 1 ≤ n) :
    ∃ y j, 1 ≤ y ∧ j < yearLen y ∧ n = daysBeforeYear y + j + 1 ∧
      fromOrdinal n = (y, (monthDayOfYday (isLeap y) j).1, (monthDayOfYday (isLeap y) j).2) := by
  unfold fromOrdinal
  simp only []
  generalize hk : (n - 1) / 146097 = k
  generalize hr : (n - 1) % 146097 = r
  generalize ha : r / 36524 = a
  generalize hr1 : r % 36524 = r1
  generalize hb : r1 / 1461 = b
  generalize hr2 : r1 % 1461 = r2
  generalize hc : r2 / 365 = c
  generalize hr3 : r2 % 365 = r3
  have hn : n = 146097 * k + 36524 * a + 1461 * b + 365 * c + r3 + 1 := by omega
  have hr3l : r3 < 365 := by omega
  have ha4 : a ≤ 4 := by omega
  have hb24 : b ≤ 24 := by omega
  have hc4 : c ≤ 4 := by omega
  have ha4' : a = 4 → b = 0 ∧ c = 0 ∧ r3 = 0 := by omega
  have hc4' : c = 4 → r3 = 0 ∧ (b < 24 ∨ a = 3) ∧ a < 4 := by omega
  have hb24' : b = 24 → c < 4 := by omega
  clear hk hr ha hr1 hb hr2 hc hr3
  by_cases hbr : c = 4 ∨ a = 4
  · rw [if_pos hbr]
    rcases hbr with hc | ha
    · obtain ⟨h1, h2, h3⟩ := hc4' hc
      have hY := yearLen_decomp k a b 3 h3 (by omega) (by omega)
      rw [if_pos ⟨rfl, by omega⟩] at hY
      have hD := daysBeforeYear_decomp k a b 3 h3 (by omega) (by omega)
      have hl := (isLeap_decomp k a b 3 h3 (by omega) (by omega)).mpr ⟨rfl, by omega⟩
      have e : k * 400 + a * 100 + b * 4 + c + 1 - 1 = 400 * k + 100 * a + 4 * b + 3 + 1 := by omega
      refine ⟨400 * k + 100 * a + 4 * b + 3 + 1, 365, by omega, by omega, by omega, ?_⟩
      rw [hl, monthDay_true_365, e]
    · obtain ⟨h1, h2, h3⟩ := ha4' ha
      have hY := yearLen_decomp k 3 24 3 (by omega) (by omega) (by omega)
      rw [if_pos ⟨rfl, by omega⟩] at hY
      have hD := daysBeforeYear_decomp k 3 24 3 (by omega) (by omega) (by omega)
      have hl := (isLeap_decomp k 3 24 3 (by omega) (by omega) (by omega)).mpr ⟨rfl, by omega⟩
      have e : k * 400 + a * 100 + b * 4 + c + 1 - 1 = 400 * k + 100 * 3 + 4 * 24 + 3 + 1 := by omega
      refine ⟨400 * k + 100 * 3 + 4 * 24 + 3 + 1, 365, by omega, by omega, by omega, ?_⟩
      rw [hl, monthDay_true_365, e]
  · rw [if_neg hbr]
    have hc3 : c < 4 := by omega
    have ha3 : a < 4 := by omega
    have e : k * 400 + a * 100 + b * 4 + c + 1 = 400 * k + 100 * a + 4 * b + c + 1 := by omega
    rw [e]
    have hY := yearLen_decomp k a b c ha3 (by omega) hc3
    have hD := daysBeforeYear_decomp k a b c ha3 (by omega) hc3
    refine ⟨400 * k + 100 * a + 4 * b + c + 1, r3, by omega, ?_, by omega, rfl⟩
    rw [hY]; split <;> omega


/-! ### month / day-of-month tables (finite checks over the 366 days of a year) -/

def mdOK (leap : Bool) (j : Nat) : Bool :=
  let md := monthDayOfYday leap j
  decide (1 ≤ md.1 ∧ md.1 ≤ 12 ∧ 1 ≤ md.2 ∧ md.2 ≤ daysInMonthL leap md.1 ∧
    daysBeforeMonthL leap md.1 + md.2 = j + 1)

def mdStepOK (leap : Bool) (j : Nat) : Bool :=
  let md := monthDayOfYday leap j
  let md' := monthDayOfYday leap (j + 1)
  decide (md.1 < md'.1 ∨ (md.1 = md'.1 ∧ md.2 < md'.2))

theorem mdOK_true : ∀ j, j < 366 → mdOK true j = true := by decide +kernel
theorem mdOK_false : ∀ j, j < 365 → mdOK false j = true := by decide +kernel
theorem mdStepOK_true : ∀ j, j < 365 → mdStepOK true j = true := by decide +kernel
theorem mdStepOK_false : ∀ j, j < 364 → mdStepOK false j = true := by decide +kernel

theorem monthDay_ok (y j : Nat) (hj : j < yearLen y) :
    1 ≤ (monthDayOfYday (isLeap y) j).1 ∧ (monthDayOfYday (isLeap y) j).1 ≤ 12 ∧
    1 ≤ (monthDayOfYday (isLeap y) j).2 ∧
    (monthDayOfYday (isLeap y) j).2 ≤ daysInMonth y (monthDayOfYday (isLeap y) j).1 ∧
    daysBeforeMonthL (isLeap y) (monthDayOfYday (isLeap y) j).1 + (monthDayOfYday (isLeap y) j).2 = j + 1 := by
  unfold daysInMonth
  rcases yearLen_eq y with ⟨hl, hy⟩ | ⟨hl, hy⟩
  · rw [hl]; have := mdOK_true j (by omega); simpa [mdOK] using this
  · rw [hl]; have := mdOK_false j (by omega); simpa [mdOK] using this

theorem monthDay_step (y j : Nat) (hj : j + 1 < yearLen y) :
    (monthDayOfYday (isLeap y) j).1 < (monthDayOfYday (isLeap y) (j + 1)).1 ∨
    ((monthDayOfYday (isLeap y) j).1 = (monthDayOfYday (isLeap y) (j + 1)).1 ∧
     (monthDayOfYday (isLeap y) j).2 < (monthDayOfYday (isLeap y) (j + 1)).2) := by
  rcases yearLen_eq y with ⟨hl, hy⟩ | ⟨hl, hy⟩
  · rw [hl]; have := mdStepOK_true j (by omega); simpa [mdStepOK] using this
  · rw [hl]; have := mdStepOK_false j (by omega); simpa [mdStepOK] using this


/-! ### `calInfoOrd` in terms of year, 0-based day of year and ordinal -/

/-- the ISO `(year, week)` of the `j`-th day (0-based) of year `y` falling on weekday `wd` -/
def isoRel (y j wd : Nat) : Nat × Nat :=
  if (j + 10 - wd) / 7 = 0 then (y - 1, isoWeeksInYear (y - 1))
  else if isoWeeksInYear y < (j + 10 - wd) / 7 then (y + 1, 1)
  else (y, (j + 10 - wd) / 7)

theorem weekday_jan1 (y : Nat) : weekday y 1 1 = daysBeforeYear y % 7 := by
  simp only [weekday, ordinal, daysBeforeMonthL]
  simp only [if_true]
  omega

theorem isoWeeksInYear_eq (y : Nat) :
    isoWeeksInYear y =
      if daysBeforeYear y % 7 = 3 ∨ (daysBeforeYear y % 7 = 2 ∧ isLeap y = true) then 53 else 52 := by
  simp only [isoWeeksInYear, weekday_jan1]

theorem calInfoOrd_eq (n y j : Nat) (hj : j < yearLen y)
    (hn : n = daysBeforeYear y + j + 1)
    (hf : fromOrdinal n = (y, (monthDayOfYday (isLeap y) j).1, (monthDayOfYday (isLeap y) j).2)) :
    calInfoOrd n =
      { yearY := y, yearG := (isoRel y j ((n + 6) % 7)).1,
        quarter := quarterFromMonth (monthDayOfYday (isLeap y) j).1,
        month := (monthDayOfYday (isLeap y) j).1, dom := (monthDayOfYday (isLeap y) j).2,
        doy := j + 1, weekW := (j + 7 - (n + 6) % 7) / 7, weekU := (j + 7 - ((n + 6) % 7 + 1) % 7) / 7,
        weekV := (isoRel y j ((n + 6) % 7)).2 } := by
  have hmd := (monthDay_ok y j hj).2.2.2.2
  have hord : ordinal y (monthDayOfYday (isLeap y) j).1 (monthDayOfYday (isLeap y) j).2 = n := by
    unfold ordinal; omega
  simp only [calInfoOrd, hf, calInfo, isoYear, isoWeek, isoCal, weekW, weekU, weekday, dayOfYear, hord, hmd,
    isoRel]
  have e1 : j + 1 + 9 = j + 10 := by omega
  have e2 : j + 1 - 1 = j := by omega
  rw [e1, e2]


/-! ### one day forward -/

theorem isoRel_cases (y j wd : Nat) :
    ((j + 10 - wd) / 7 = 0 ∧ isoRel y j wd = (y - 1, isoWeeksInYear (y - 1))) ∨
    (((j + 10 - wd) / 7 ≠ 0 ∧ isoWeeksInYear y < (j + 10 - wd) / 7) ∧ isoRel y j wd = (y + 1, 1)) ∨
    (((j + 10 - wd) / 7 ≠ 0 ∧ (j + 10 - wd) / 7 ≤ isoWeeksInYear y) ∧
      isoRel y j wd = (y, (j + 10 - wd) / 7)) := by
  unfold isoRel
  by_cases h0 : (j + 10 - wd) / 7 = 0
  · left; exact ⟨h0, by rw [if_pos h0]⟩
  · by_cases h1 : isoWeeksInYear y < (j + 10 - wd) / 7
    · right; left; exact ⟨⟨h0, h1⟩, by rw [if_neg h0, if_pos h1]⟩
    · right; right; exact ⟨⟨h0, by omega⟩, by rw [if_neg h0, if_neg h1]⟩

theorem iso_same_year (y j wd : Nat) (hy : 1 ≤ y) (hwd : wd < 7) :
    (isoRel y j wd).1 < (isoRel y (j + 1) ((wd + 1) % 7)).1 ∨
    ((isoRel y j wd).1 = (isoRel y (j + 1) ((wd + 1) % 7)).1 ∧
     (isoRel y j wd).2 ≤ (isoRel y (j + 1) ((wd + 1) % 7)).2) := by
  have hw : (j + 1 + 10 - (wd + 1) % 7) / 7 = (j + 10 - wd) / 7 ∨
      (j + 1 + 10 - (wd + 1) % 7) / 7 = (j + 10 - wd) / 7 + 1 := by omega
  have hA := isoRel_cases y j wd
  have hB := isoRel_cases y (j + 1) ((wd + 1) % 7)
  generalize isoRel y j wd = p at hA ⊢
  generalize isoRel y (j + 1) ((wd + 1) % 7) = q at hB ⊢
  obtain ⟨p1, p2⟩ := p
  obtain ⟨q1, q2⟩ := q
  simp only [Prod.mk.injEq] at hA hB
  show p1 < q1 ∨ (p1 = q1 ∧ p2 ≤ q2)
  omega

theorem iso_cross_year (y wd : Nat) (hy : 1 ≤ y) (hwd : wd = (daysBeforeYear y + yearLen y - 1) % 7) :
    (isoRel y (yearLen y - 1) wd).1 < (isoRel (y + 1) 0 ((wd + 1) % 7)).1 ∨
    ((isoRel y (yearLen y - 1) wd).1 = (isoRel (y + 1) 0 ((wd + 1) % 7)).1 ∧
     (isoRel y (yearLen y - 1) wd).2 ≤ (isoRel (y + 1) 0 ((wd + 1) % 7)).2) := by
  have hW1 : 52 ≤ isoWeeksInYear (y + 1) := by rw [isoWeeksInYear_eq]; split <;> omega
  have hW := isoWeeksInYear_eq y
  have e : y + 1 - 1 = y := by omega
  have hA := isoRel_cases y (yearLen y - 1) wd
  have hB := isoRel_cases (y + 1) 0 ((wd + 1) % 7)
  rw [e] at hB
  generalize isoRel y (yearLen y - 1) wd = p at hA ⊢
  generalize isoRel (y + 1) 0 ((wd + 1) % 7) = q at hB ⊢
  generalize isoWeeksInYear (y + 1) = W1 at hW1 hB
  generalize isoWeeksInYear y = W at hW hA hB
  generalize isoWeeksInYear (y - 1) = Wp at hA
  generalize daysBeforeYear y = D at hwd hW
  obtain ⟨p1, p2⟩ := p
  obtain ⟨q1, q2⟩ := q
  simp only [Prod.mk.injEq] at hA hB
  show p1 < q1 ∨ (p1 = q1 ∧ p2 ≤ q2)
  rcases yearLen_eq y with ⟨hl, hlen⟩ | ⟨hl, hlen⟩
  · rw [hlen] at hwd hA
    simp only [hl, and_true] at hW
    have hW' : (W = 53 ∧ (D % 7 = 3 ∨ D % 7 = 2)) ∨ (W = 52 ∧ ¬ (D % 7 = 3 ∨ D % 7 = 2)) := by
      split at hW <;> omega
    clear hW
    omega
  · rw [hlen] at hwd hA
    simp only [hl] at hW
    have hW' : (W = 53 ∧ D % 7 = 3) ∨ (W = 52 ∧ ¬ D % 7 = 3) := by
      split at hW <;> simp_all <;> omega
    clear hW
    omega


/-- what one day forward does to the calendar parts -/
structure StepFacts (c c' : CalInfo) : Prop where
  cal : c.yearY < c'.yearY ∨
    (c.yearY = c'.yearY ∧ (c.month < c'.month ∨ (c.month = c'.month ∧ c.dom < c'.dom)) ∧
      c.doy < c'.doy ∧ c.weekW ≤ c'.weekW ∧ c.weekU ≤ c'.weekU)
  q : c.quarter = quarterFromMonth c.month
  q' : c'.quarter = quarterFromMonth c'.month
  iso : c.yearG < c'.yearG ∨ (c.yearG = c'.yearG ∧ c.weekV ≤ c'.weekV)

theorem yearLen_pos (y : Nat) : 365 ≤ yearLen y := by
  rcases yearLen_eq y with ⟨_, h⟩ | ⟨_, h⟩ <;> omega

theorem step_facts (n : Nat) (h : 1 ≤ n) : StepFacts (calInfoOrd n) (calInfoOrd (n + 1)) := by
  obtain ⟨y, j, hy, hj, hn, hf⟩ := fromOrdinal_spec n h
  obtain ⟨y', j', hy', hj', hn', hf'⟩ := fromOrdinal_spec (n + 1) (by omega)
  rw [calInfoOrd_eq n y j hj hn hf, calInfoOrd_eq (n + 1) y' j' hj' hn' hf']
  have hwd : (n + 1 + 6) % 7 = ((n + 6) % 7 + 1) % 7 := by omega
  rw [hwd]
  have hwdlt : (n + 6) % 7 < 7 := by omega
  by_cases hs : j + 1 < yearLen y
  · obtain ⟨rfl, rfl⟩ := ordinal_unique y (j + 1) y' j' hy hy' hs hj' (by omega)
    have hmd := monthDay_step y j hs
    have hiso := iso_same_year y j ((n + 6) % 7) hy hwdlt
    generalize (n + 6) % 7 = wd at hwdlt hiso ⊢
    exact ⟨Or.inr ⟨rfl, hmd, by show j + 1 < j + 1 + 1; omega,
      by show (j + 7 - wd) / 7 ≤ (j + 1 + 7 - (wd + 1) % 7) / 7; omega,
      by show (j + 7 - (wd + 1) % 7) / 7 ≤ (j + 1 + 7 - ((wd + 1) % 7 + 1) % 7) / 7; omega⟩, rfl, rfl, hiso⟩
  · have hd := daysBeforeYear_succ y hy
    have hp := yearLen_pos (y + 1)
    obtain ⟨rfl, rfl⟩ := ordinal_unique (y + 1) 0 y' j' (by omega) hy' (by omega) hj' (by omega)
    have hjl : j = yearLen y - 1 := by omega
    subst hjl
    have hiso := iso_cross_year y ((n + 6) % 7) hy (by omega)
    exact ⟨Or.inl (by show y < y + 1; omega), rfl, rfl, hiso⟩

/-! ### lexicographic order on keys, and the coherent shapes -/

theorem lexLe_refl : ∀ l : List Nat, lexLe l l = true
  | [] => rfl
  | a :: l => by simp [lexLe, lexLe_refl l]

theorem lexLe_trans : ∀ a b c : List Nat, lexLe a b = true → lexLe b c = true → lexLe a c = true
  | [], _, _, _, _ => by simp [lexLe]
  | _ :: _, [], _, h, _ => by simp [lexLe] at h
  | _ :: _, _ :: _, [], _, h => by simp [lexLe] at h
  | x :: a, y :: b, z :: c, h1, h2 => by
    simp only [lexLe, Bool.or_eq_true, Bool.and_eq_true, decide_eq_true_eq, beq_iff_eq] at h1 h2 ⊢
    rcases h1 with h1 | ⟨h1, h1'⟩
    · rcases h2 with h2 | ⟨h2, _⟩
      · left; omega
      · left; omega
    · rcases h2 with h2 | ⟨h2, h2'⟩
      · left; omega
      · right; exact ⟨by omega, lexLe_trans a b c h1' h2'⟩

theorem mem_coherentShapes (fs : List CalField) (h : coherent fs = true) : fs ∈ coherentShapes := by
  simpa [coherent] using h

theorem lexLe_of_stepFacts (c c' : CalInfo) (hs : StepFacts c c') (fs : List CalField)
    (hc : coherent fs = true)
    (hcy : fs.contains .yearY2 = true → c.yearY / 100 = c'.yearY / 100)
    (hcg : fs.contains .yearG2 = true → c.yearG / 100 = c'.yearG / 100) :
    lexLe (calKey fs c) (calKey fs c') = true := by
  obtain ⟨hcal, hq, hq', hiso⟩ := hs
  have hm := mem_coherentShapes fs hc
  simp only [coherentShapes, yShapes, gShapes, List.mem_append, List.mem_cons, List.not_mem_nil, or_false] at hm
  unfold quarterFromMonth at hq hq'
  rcases hm with ((hm | hm) | hm) | hm
  · rcases hm with rfl | rfl | rfl | rfl | rfl | rfl | rfl | rfl | rfl <;>
    simp only [calKey, List.map, CalField.get, lexLe, Bool.or_eq_true, Bool.and_eq_true, decide_eq_true_eq,
      beq_iff_eq, and_true] <;> omega
  · rcases hm with rfl | rfl | rfl | rfl | rfl | rfl | rfl | rfl | rfl <;>
    (have hcy' := hcy (by decide)
     simp only [calKey, List.map, CalField.get, lexLe, Bool.or_eq_true, Bool.and_eq_true, decide_eq_true_eq,
      beq_iff_eq, and_true]
     omega)
  · rcases hm with rfl | rfl <;>
    simp only [calKey, List.map, CalField.get, lexLe, Bool.or_eq_true, Bool.and_eq_true, decide_eq_true_eq,
      beq_iff_eq, and_true] <;> omega
  · rcases hm with rfl | rfl <;>
    (have hcg' := hcg (by decide)
     simp only [calKey, List.map, CalField.get, lexLe, Bool.or_eq_true, Bool.and_eq_true, decide_eq_true_eq,
      beq_iff_eq, and_true]
     omega)

/-! ### any number of days forward -/

theorem yearY_mono (n d : Nat) (h : 1 ≤ n) : (calInfoOrd n).yearY ≤ (calInfoOrd (n + d)).yearY := by
  induction d with
  | zero => exact Nat.le_refl _
  | succ d ih =>
    have := (step_facts (n + d) (by omega)).cal
    have e : n + (d + 1) = n + d + 1 := by omega
    rw [e]; omega

theorem yearG_mono (n d : Nat) (h : 1 ≤ n) : (calInfoOrd n).yearG ≤ (calInfoOrd (n + d)).yearG := by
  induction d with
  | zero => exact Nat.le_refl _
  | succ d ih =>
    have := (step_facts (n + d) (by omega)).iso
    have e : n + (d + 1) = n + d + 1 := by omega
    rw [e]; omega

theorem lexLe_calKey_add (fs : List CalField) (hc : coherent fs = true) (n : Nat) (h1 : 1 ≤ n) :
    ∀ d : Nat,
      (fs.contains .yearY2 = true → (calInfoOrd n).yearY / 100 = (calInfoOrd (n + d)).yearY / 100) →
      (fs.contains .yearG2 = true → (calInfoOrd n).yearG / 100 = (calInfoOrd (n + d)).yearG / 100) →
      lexLe (calKey fs (calInfoOrd n)) (calKey fs (calInfoOrd (n + d))) = true := by
  intro d
  induction d with
  | zero => intro _ _; exact lexLe_refl _
  | succ d ih =>
    intro hy hg
    have e : n + (d + 1) = n + d + 1 := by omega
    rw [e] at hy hg ⊢
    have y1 := yearY_mono n d h1
    have y2 := yearY_mono (n + d) 1 (by omega)
    have g1 := yearG_mono n d h1
    have g2 := yearG_mono (n + d) 1 (by omega)
    refine lexLe_trans _ _ _ (ih (fun hh => ?_) (fun hh => ?_))
      (lexLe_of_stepFacts _ _ (step_facts (n + d) (by omega)) fs hc (fun hh => ?_) (fun hh => ?_))
    · have := hy hh; omega
    · have := hg hh; omega
    · have := hy hh; omega
    · have := hg hh; omega

/-! ### strict order, totality -/

theorem lexLt_eq_not_lexLe : ∀ a b : List Nat, lexLt b a = !lexLe a b
  | [], [] => rfl
  | [], _ :: _ => rfl
  | _ :: _, [] => rfl
  | x :: a, y :: b => by
    have ih := lexLt_eq_not_lexLe a b
    simp only [lexLt, lexLe, ih]
    by_cases h1 : y < x
    · have h2 : ¬ x < y := by omega
      have h3 : (x == y) = false := by simp; omega
      simp [h1, h2, h3]
    · by_cases h2 : x < y
      · have h3 : (y == x) = false := by simp; omega
        simp [h1, h2, h3]
      · have h3 : x = y := by omega
        subst h3
        simp

/-! ### the future-version guard `_is_cal_gt` -/

theorem guard_mask (fs : List CalField) (hfs : fs ∈ fullYearShapes) (old cur : CalInfo) :
    isCalGt (old.mask fs) cur.toOpt = !lexLe (calKey fs old) (calKey fs cur) := by
  unfold isCalGt
  rw [lexLt_eq_not_lexLe]
  simp only [fullYearShapes, yShapes, gShapes, List.mem_append, List.mem_cons, List.not_mem_nil, or_false] at hfs
  rcases hfs with (rfl | rfl | rfl | rfl | rfl | rfl | rfl | rfl | rfl) | (rfl | rfl) <;> rfl


theorem lexLe_total : ∀ a b : List Nat, lexLe a b = true ∨ lexLe b a = true
  | [], _ => Or.inl rfl
  | _ :: _, [] => Or.inr rfl
  | x :: a, y :: b => by
    simp only [lexLe, Bool.or_eq_true, Bool.and_eq_true, decide_eq_true_eq, beq_iff_eq]
    rcases lexLe_total a b with h | h
    · by_cases h1 : x < y
      · exact Or.inl (Or.inl h1)
      · by_cases h2 : y < x
        · exact Or.inr (Or.inl h2)
        · exact Or.inl (Or.inr ⟨by omega, h⟩)
    · by_cases h1 : x < y
      · exact Or.inl (Or.inl h1)
      · by_cases h2 : y < x
        · exact Or.inr (Or.inl h2)
        · exact Or.inr (Or.inr ⟨by omega, h⟩)

theorem lexLe_of_lexLt (a b : List Nat) (h : lexLt a b = true) : lexLe a b = true := by
  rw [lexLt_eq_not_lexLe] at h
  rcases lexLe_total a b with h' | h'
  · exact h'
  · rw [h'] at h; cases h

theorem lexLt_trans (a b c : List Nat) (h1 : lexLt a b = true) (h2 : lexLt b c = true) :
    lexLt a c = true := by
  rw [lexLt_eq_not_lexLe]
  cases hca : lexLe c a with
  | false => rfl
  | true =>
    have := lexLe_trans c a b hca (lexLe_of_lexLt a b h1)
    rw [lexLt_eq_not_lexLe, this] at h2
    cases h2

theorem toList_step_lt (c c' : CalInfo) (hs : StepFacts c c') : lexLt c.toList c'.toList = true := by
  obtain ⟨hcal, hq, hq', hiso⟩ := hs
  unfold quarterFromMonth at hq hq'
  simp only [CalInfo.toList, lexLt, Bool.or_eq_true, Bool.and_eq_true, decide_eq_true_eq, beq_iff_eq]
  omega

theorem toList_lt_add (n d : Nat) (h : 1 ≤ n) :
    lexLt (calInfoOrd n).toList (calInfoOrd (n + d + 1)).toList = true := by
  induction d with
  | zero => exact toList_step_lt _ _ (step_facts n h)
  | succ d ih =>
    exact lexLt_trans _ _ _ ih (toList_step_lt _ _ (step_facts (n + d + 1) (by omega)))

theorem isCalGt_full (l r : CalInfo) : isCalGt l.toOpt r.toOpt = lexLt r.toList l.toList := rfl

theorem guard_full (n n' : Nat) (h : 1 ≤ n) (h' : 1 ≤ n') :
    isCalGt (calInfoOrd n).toOpt (calInfoOrd n').toOpt = decide (n' < n) := by
  rw [isCalGt_full]
  by_cases hlt : n' < n
  · obtain ⟨d, rfl⟩ : ∃ d, n = n' + d + 1 := ⟨n - n' - 1, by omega⟩
    rw [toList_lt_add n' d h']; simp [hlt]
  · rw [lexLt_eq_not_lexLe]
    have hle : lexLe (calInfoOrd n).toList (calInfoOrd n').toList = true := by
      by_cases he : n = n'
      · subst he; exact lexLe_refl _
      · obtain ⟨d, rfl⟩ : ∃ d, n' = n + d + 1 := ⟨n' - n - 1, by omega⟩
        exact lexLe_of_lexLt _ _ (toList_lt_add n d h)
    rw [hle]; simp [hlt]

/-! ### dates and ordinals -/

def mdInvOK (leap : Bool) (m d : Nat) : Bool :=
  decide (1 ≤ m → 1 ≤ d → d ≤ daysInMonthL leap m →
    monthDayOfYday leap (daysBeforeMonthL leap m + d - 1) = (m, d) ∧
    daysBeforeMonthL leap m + d ≤ (if leap then 366 else 365))

theorem mdInvOK_all : ∀ leap : Bool, ∀ m, m < 13 → ∀ d, d < 32 → mdInvOK leap m d = true := by
  decide +kernel

theorem daysInMonthL_le (leap : Bool) (m : Nat) : daysInMonthL leap m ≤ 31 := by
  unfold daysInMonthL; split
  · split <;> omega
  · split
    · omega
    · split <;> omega

theorem fromOrdinal_ordinal (y m d : Nat) (h : validDate y m d = true) :
    fromOrdinal (ordinal y m d) = (y, m, d) := by
  simp only [validDate, Bool.and_eq_true, decide_eq_true_eq, daysInMonth] at h
  obtain ⟨⟨⟨⟨⟨hy1, _⟩, hm1⟩, hm12⟩, hd1⟩, hd⟩ := h
  have hd := of_decide_eq_true hd
  have hd31 := daysInMonthL_le (isLeap y) m
  have ht := mdInvOK_all (isLeap y) m (by omega) d (by omega)
  simp only [mdInvOK, decide_eq_true_eq] at ht
  obtain ⟨hmd, hlen⟩ := ht hm1 hd1 hd
  have hjl : daysBeforeMonthL (isLeap y) m + d - 1 < yearLen y := by
    unfold yearLen; omega
  obtain ⟨y', j', hy', hj', hn', hf'⟩ := fromOrdinal_spec (ordinal y m d) (by unfold ordinal; omega)
  obtain ⟨rfl, rfl⟩ := ordinal_unique y (daysBeforeMonthL (isLeap y) m + d - 1) y' j' hy1 hy' hjl hj'
    (by unfold ordinal at hn'; omega)
  rw [hf', hmd]

theorem calInfoOrd_ordinal (y m d : Nat) (h : validDate y m d = true) :
    calInfoOrd (ordinal y m d) = calInfo y m d := by
  simp only [calInfoOrd, fromOrdinal_ordinal y m d h]


def dbmMonoOK (leap : Bool) (m m' : Nat) : Bool :=
  decide (1 ≤ m → m < m' → daysBeforeMonthL leap m + daysInMonthL leap m ≤ daysBeforeMonthL leap m')

theorem dbmMonoOK_all : ∀ leap : Bool, ∀ m, m < 13 → ∀ m', m' < 13 → dbmMonoOK leap m m' = true := by
  decide +kernel

/-- Python compares dates as `(year, month, day)` tuples; on valid dates this is the order of
    the ordinals -/
theorem ordinal_le_of_date_le (y m d y' m' d' : Nat) (h : validDate y m d = true)
    (h' : validDate y' m' d' = true) (hle : lexLe [y, m, d] [y', m', d'] = true) :
    ordinal y m d ≤ ordinal y' m' d' := by
  simp only [validDate, Bool.and_eq_true, decide_eq_true_eq, daysInMonth] at h h'
  obtain ⟨⟨⟨⟨⟨hy1, _⟩, hm1⟩, hm12⟩, hd1⟩, hd⟩ := h
  obtain ⟨⟨⟨⟨⟨hy1', _⟩, hm1'⟩, hm12'⟩, hd1'⟩, hd'⟩ := h'
  have hd := of_decide_eq_true hd
  have hd' := of_decide_eq_true hd'
  have hd31 := daysInMonthL_le (isLeap y) m
  have ht := mdInvOK_all (isLeap y) m (by omega) d (by omega)
  simp only [mdInvOK, decide_eq_true_eq] at ht
  obtain ⟨_, hlen⟩ := ht hm1 hd1 hd
  simp only [lexLe, Bool.or_eq_true, Bool.and_eq_true, decide_eq_true_eq, beq_iff_eq, and_true] at hle
  unfold ordinal
  rcases hle with hlt | ⟨rfl, hle⟩
  · have := daysBeforeYear_mono y y' hy1 hlt
    have : daysBeforeMonthL (isLeap y) m + d ≤ yearLen y := by unfold yearLen; omega
    omega
  · rcases hle with hlt | ⟨rfl, hle⟩
    · have := dbmMonoOK_all (isLeap y) m (by omega) m' (by omega)
      simp only [dbmMonoOK, decide_eq_true_eq] at this
      have := this hm1 hlt
      omega
    · omega


/-- the day of year shown for a date lies inside its year, and `date_from_doy` leads back to the date -/
theorem doy_roundtrip (n : Nat) (h1 : 1 ≤ n) (h2 : n ≤ maxOrdinal) :
    1 ≤ (calInfoOrd n).doy ∧ (calInfoOrd n).doy ≤ yearLen (calInfoOrd n).yearY ∧
    dateFromDoy (calInfoOrd n).yearY (calInfoOrd n).doy = some (fromOrdinal n) := by
  obtain ⟨y, j, hy, hj, hn, hf⟩ := fromOrdinal_spec n h1
  rw [calInfoOrd_eq n y j hj hn hf]
  refine ⟨by show 1 ≤ j + 1; omega, by show j + 1 ≤ yearLen y; omega, ?_⟩
  show dateFromDoy y (j + 1) = some (fromOrdinal n)
  have e : ordinal y 1 1 + (j + 1) - 1 = n := by
    simp only [ordinal, daysBeforeMonthL, if_true]; omega
  unfold dateFromDoy
  simp only [e]
  rw [if_pos ⟨h1, h2⟩]

end BV
