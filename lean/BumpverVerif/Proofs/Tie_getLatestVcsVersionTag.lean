/-
  Proofs/Tie_getLatestVcsVersionTag.lean — the definition GENERATED from the Python source of
  `cli.get_latest_vcs_version_tag` (Gen/F_getLatestVcsVersionTag.lean) equals the hand model on all
  inputs: `BV.latestVersionTag` (Model/Cli.lean) over the tag listing of the configured scope
  (`vcs.get_tags(fetch=fetch, scope=cfg.tag_scope)`, a parameter) for a new-style pattern, and
  `latestOf` of the legacy parser's valid tags otherwise.

  `version_tags.sort(key=version.parse_version, reverse=True); return version_tags[0]` is the
  primitive `pySortedRev verLt parseVersion` (Model/CliPrims.lean: stable, descending) followed by
  the head; `head?_pySortedRev_latestOf` shows that this is the model's `latestOf` (the FIRST tag in
  listing order among those with a maximal key).  The `IndexError` branch of `[0]` is unreachable
  (the list is non-empty, sorting keeps it so).
-/
import BumpverVerif.Gen.F_getLatestVcsVersionTag
import BumpverVerif.Proofs.Tie_parseVersionTags
namespace BV

attribute [local irreducible] isValid parseVersionInfo incr v1IsValid v1ParseVersionInfo v1Incr

/-- what the generated definition does once the valid tags are known -/
theorem getLatest_of_tags {α : Type} (today : Date) (vcs_get_tags : Bool → GenC.TagScope → List Str)
    (cfg : GenC.Config α) (fetch : Bool) :
    GenC.getLatestVcsVersionTag today vcs_get_tags cfg fetch =
      (GenC.parseVersionTags today (vcs_get_tags fetch cfg.tag_scope) cfg.version_pattern cfg.is_new_pattern).map
        latestOf := by
  unfold GenC.getLatestVcsVersionTag
  dsimp only
  generalize GenC.parseVersionTags today (vcs_get_tags fetch cfg.tag_scope) cfg.version_pattern cfg.is_new_pattern = r
  cases r with
  | error e => rfl
  | ok vts =>
    simp only [Except.map]
    cases vts with
    | nil => simp [latestOf]
    | cons t ts =>
      first
        | -- `sort(key=parse_version, reverse=True)` / `sorted(…)`, then `[0]`
          (have hne := pySortedRev_ne_nil verLt parseVersion t ts
           have hh := head?_pySortedRev_latestOf (t :: ts)
           cases hs : pySortedRev verLt parseVersion (t :: ts) with
           | nil => exact absurd hs hne
           | cons x rest => rw [hs] at hh; simp [← hh])
        | -- `max(version_tags, key=parse_version)`: also the first among the maxima
          (have hh := pyMaxBy_latestOf (t :: ts)
           cases hm : pyMaxBy verLt parseVersion (t :: ts) with
           | none => simp [pyMaxBy] at hm
           | some x => rw [hm] at hh; simp [← hh, hm])

theorem tie_getLatestVcsVersionTag_new {α : Type} (today : Date) (vcs_get_tags : Bool → GenC.TagScope → List Str)
    (cfg : GenC.Config α) (fetch : Bool) (hn : cfg.is_new_pattern = true) :
    GenC.getLatestVcsVersionTag today vcs_get_tags cfg fetch
      = liftV2 (latestVersionTag cfg.version_pattern today (vcs_get_tags fetch cfg.tag_scope)) := by
  rw [getLatest_of_tags, hn, tie_parseVersionTags_new]
  unfold latestVersionTag
  cases parseVersionTags cfg.version_pattern today (vcs_get_tags fetch cfg.tag_scope) <;> rfl

theorem tie_getLatestVcsVersionTag_legacy {α : Type} (today : Date) (vcs_get_tags : Bool → GenC.TagScope → List Str)
    (cfg : GenC.Config α) (fetch : Bool) (hn : cfg.is_new_pattern = false) :
    GenC.getLatestVcsVersionTag today vcs_get_tags cfg fetch
      = liftV1 ((v1ParseVersionTags cfg.version_pattern (vcs_get_tags fetch cfg.tag_scope)).map latestOf) := by
  rw [getLatest_of_tags, hn, tie_parseVersionTags_legacy]
  cases v1ParseVersionTags cfg.version_pattern (vcs_get_tags fetch cfg.tag_scope) <;> rfl

end BV
