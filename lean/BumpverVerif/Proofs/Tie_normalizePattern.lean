/-
  Proofs/Tie_normalizePattern.lean — the definition GENERATED from the Python source of
  `v2patterns.normalize_pattern` (Gen/F_normalizePattern.lean; it calls the generated `_convert_to_pep440`)
  equals the hand model `BV.normalizePattern` on all inputs, over the generated tables.
-/
import BumpverVerif.Gen.F_normalizePattern
import BumpverVerif.Proofs.Tie_convertToPep440
namespace BV
open PyP

theorem tie_normalizePattern (version_pattern raw_pattern : Str) :
    GenF.normalizePattern Gen.partFields Gen.pep440PartSubstitutions version_pattern raw_pattern =
      some (normalizePattern version_pattern raw_pattern) := by
  simp only [GenF.normalizePattern, normalizePattern, tie_convertToPep440_gen_total]
  repeat' split
  all_goals first | rfl | simp_all

end BV
