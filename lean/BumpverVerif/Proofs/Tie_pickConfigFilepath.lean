/-
  Proofs/Tie_pickConfigFilepath.lean — the definition GENERATED from the Python source of
  `config._pick_config_filepath` (Gen/F_pickConfigFilepath.lean) equals the hand model
  `BV.pickConfigFile` (Model/Config.lean, property C19) on all inputs.

  The file system is abstracted: `pathlib`'s `/`, `Path.exists()` and "open in mode rb and read" are
  the parameters `path_join`, `path_exists`, `read_bytes` of the generated definition (any type of
  paths).  The model works on file NAMES relative to the project directory and on a `World`
  (name ↦ absent / empty / unrelated / hasSection); the abstraction is
      worldAt … name = classify (if exists (path / name) then some (read (path / name)) else none).
  The tie also checks the candidate list and the fallback against the GENERATED tables
  `Gen.configCandidates` / `Gen.configFallback` (harness/gen_tables.py reads them from the same AST).
-/
import BumpverVerif.Gen.F_pickConfigFilepath
import BumpverVerif.Model.Config
namespace BV

/-- the model's view of the project directory `path` -/
def worldAt {Path : Type} (join : Path → Str → Path) (ex : Path → Bool) (read : Path → Str) (path : Path) : World :=
  worldOf (fun name => if ex (join path name) then some (read (join path name)) else none)

theorem findSome?_eq_find? {α : Type} (f : α → Option α) (p : α → Bool)
    (h : ∀ x, f x = if p x then some x else none) (l : List α) : l.findSome? f = l.find? p := by
  induction l with
  | nil => rfl
  | cons a as ih =>
    simp only [List.findSome?_cons, List.find?_cons, h a]
    cases p a <;> simp [ih]

theorem find?_map' {α β : Type} (g : α → β) (p : β → Bool) (l : List α) :
    (l.map g).find? p = (l.find? (fun a => p (g a))).map g := by
  induction l with
  | nil => rfl
  | cons a as ih =>
    simp only [List.map_cons, List.find?_cons]
    cases p (g a) <;> simp [ih]

theorem classify_eq_hasSection (o : Option Str) :
    (classify o == .hasSection) =
      match o with
      | none => false
      | some d => (isInfix "bumpver]".toList d || isInfix "pycalver]".toList d) && isInfix "current_version".toList d := by
  cases o with
  | none => rfl
  | some d =>
    cases d with
    | nil => rfl
    | cons c cs =>
      simp only [classify]
      split
      · rename_i h; rw [h]; rfl
      · rename_i h; rw [Bool.not_eq_true] at h; rw [h]; rfl

theorem classify_ne_absent (o : Option Str) : (classify o != .absent) = o.isSome := by
  cases o with
  | none => rfl
  | some d =>
    cases d with
    | nil => rfl
    | cons c cs => simp only [classify]; split <;> rfl

theorem tie_pickConfigFilepath {Path : Type} (join : Path → Str → Path) (ex : Path → Bool) (read : Path → Str)
    (path : Path) :
    GenC.pickConfigFilepath join ex read path = join path (pickConfigFile (worldAt join ex read path)) := by
  have hc : [join path "pycalver.toml".toList, join path "bumpver.toml".toList, join path ".bumpver.toml".toList,
      join path "pyproject.toml".toList, join path "setup.cfg".toList] = Gen.configCandidates.map (join path) := rfl
  have hf : join path "bumpver.toml".toList = join path Gen.configFallback := rfl
  unfold GenC.pickConfigFilepath pickConfigFile
  dsimp only
  rw [hc, hf]
  rw [findSome?_eq_find? (p := fun c => ex c && ((isInfix "bumpver]".toList (read c) || isInfix "pycalver]".toList (read c))
        && isInfix "current_version".toList (read c))),
      findSome?_eq_find? (p := ex)]
  · rw [find?_map', find?_map']
    have h1 : (fun a => ex (join path a) && ((isInfix "bumpver]".toList (read (join path a)) ||
        isInfix "pycalver]".toList (read (join path a))) && isInfix "current_version".toList (read (join path a))))
        = (fun f => worldAt join ex read path f == .hasSection) := by
      funext a
      simp only [worldAt, worldOf, classify_eq_hasSection]
      cases ex (join path a) <;> rfl
    have h2 : (fun a => ex (join path a)) = (fun f => (worldAt join ex read path).exists_ f) := by
      funext a
      simp only [World.exists_, worldAt, worldOf, classify_ne_absent]
      cases ex (join path a) <;> rfl
    rw [h1, h2]
    cases Gen.configCandidates.find? (fun f => worldAt join ex read path f == .hasSection) with
    | some f => rfl
    | none =>
      cases Gen.configCandidates.find? (fun f => (worldAt join ex read path).exists_ f) <;> rfl
  · intro c; cases ex c <;> rfl
  · intro c
    cases ex c
    · rfl
    · try dsimp only
      generalize isInfix "bumpver]".toList (read c) = b1
      generalize isInfix "pycalver]".toList (read c) = b2
      generalize isInfix "current_version".toList (read c) = b3
      cases b1 <;> cases b2 <;> cases b3 <;> rfl

end BV
