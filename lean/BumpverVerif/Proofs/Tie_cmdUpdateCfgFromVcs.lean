/-
  Proofs/Tie_cmdUpdateCfgFromVcs.lean — `cli.get_latest_vcs_version_tag` and `cli._update_cfg_from_vcs`
  translated INTO THE COMMAND MONAD (Gen/F_cmdGetLatestVcsVersionTag.lean, Gen/F_cmdUpdateCfgFromVcs.lean,
  harness/translate_commands.py), where `vcs.get_tags(fetch=fetch, scope=cfg.tag_scope)` is the CALL of the
  generated `GenE.getTags` (its VCS invocations, its exception), against the hand model
  `BV.latestVersionTag` / `BV.startVersion` (Model/Cli.lean; property C09).

    tie_cmdGetLatest_new        one call `get_tags(fetch, cfg.tag_scope)`; a failing call propagates; otherwise
                                the newest valid version tag of what it lists (`latestVersionTag`)
    tie_cmdUpdateCfgFromVcs     the record returned is `TieL.updCfg cfg latest`: `cfg` itself, or `cfg` with
                                exactly `current_version` / `pep440_version = to_pep440(current_version)` replaced
    tie_cmdUpdateCfgFromVcs_new the two combined, for a new-style pattern
    updCfg_startVersion         the `current_version` of that record is the model's `startVersion`
-/
import BumpverVerif.Gen.F_cmdUpdateCfgFromVcs
import BumpverVerif.Proofs.CmdLemmas
import BumpverVerif.Proofs.Tie_updateCfgFromVcs
namespace BV
namespace TieL

attribute [local irreducible] isValid parseVersionInfo v1IsValid v1ParseVersionInfo

/-- the model's tag scope of the GENERATED enum (the copy of translate_effects.py) -/
def absScopeE : GenE.TagScope → TagScope
  | .DEFAULT => .default
  | .GLOBAL => .global
  | .BRANCH => .branch

/-- run `get_tags(fetch, scope)` and hand the listing to a pure continuation -/
def tagsThen {β : Type} (fetch : Bool) (scope : GenE.TagScope) (k : List Str → Except CStop β) : Cmd β := fun ce s =>
  match GenE.getTags fetch scope ce.eff s.p with
  | (p', .error x) => ({ s with p := p' }, .error (.eff x))
  | (p', .ok tags) => ({ s with p := p' }, k tags)

/-- the record `_update_cfg_from_vcs` returns once the latest tag is known -/
def updCfg {α : Type} (cfg : GenE.Config α) : Option Str → GenE.Config α
  | none => cfg
  | some t =>
    if cfg.tag_scope == .DEFAULT && pepLe t cfg.current_version then cfg
    else { cfg with current_version := t, pep440_version := verStr (parseVersion t) }

end TieL
open TieL

attribute [local irreducible] isValid parseVersionInfo v1IsValid v1ParseVersionInfo

/-- any engine: the listing, then the valid tags, then the first of the maxima -/
theorem TieL.cmdGetLatest_of_tags {α : Type} (today : Date) (cfg : GenE.Config α) (fetch : Bool) (ce : CmdEnv) (s : CState) :
    GenL.getLatestVcsVersionTag today cfg fetch ce s =
      tagsThen fetch cfg.tag_scope (fun tags =>
        ofExc ((GenC.parseVersionTags today tags cfg.version_pattern cfg.is_new_pattern).map latestOf)) ce s := by
  unfold GenL.getLatestVcsVersionTag tagsThen
  rcases hg : GenE.getTags fetch cfg.tag_scope ce.eff s.p with ⟨p', r⟩
  cases r with
  | error x => cmd_simp [hg]
  | ok tags =>
    cases hvt : GenC.parseVersionTags today tags cfg.version_pattern cfg.is_new_pattern with
    | error e => cmd_simp [hg, hvt]
    | ok vts =>
      cases vts with
      | nil => cmd_simp [hg, hvt, latestOf]
      | cons t ts =>
        have hne := pySortedRev_ne_nil verLt parseVersion t ts
        have hh := head?_pySortedRev_latestOf (t :: ts)
        cases hs : pySortedRev verLt parseVersion (t :: ts) with
        | nil => exact absurd hs hne
        | cons x rest =>
          rw [hs] at hh
          cmd_simp [hg, hvt, hs]
          simpa using hh

theorem tie_cmdGetLatest_new {α : Type} (today : Date) (cfg : GenE.Config α) (fetch : Bool)
    (hn : cfg.is_new_pattern = true) (ce : CmdEnv) (s : CState) :
    GenL.getLatestVcsVersionTag today cfg fetch ce s =
      tagsThen fetch cfg.tag_scope (fun tags => ofV2 (latestVersionTag cfg.version_pattern today tags)) ce s := by
  rw [cmdGetLatest_of_tags]
  unfold tagsThen
  rcases GenE.getTags fetch cfg.tag_scope ce.eff s.p with ⟨p', r⟩
  cases r with
  | error x => rfl
  | ok tags =>
    simp only [hn, tie_parseVersionTags_new]
    unfold latestVersionTag
    cases parseVersionTags cfg.version_pattern today tags <;> rfl

theorem tie_cmdGetLatest_legacy {α : Type} (today : Date) (cfg : GenE.Config α) (fetch : Bool)
    (hn : cfg.is_new_pattern = false) (ce : CmdEnv) (s : CState) :
    GenL.getLatestVcsVersionTag today cfg fetch ce s =
      tagsThen fetch cfg.tag_scope (fun tags => ofV1 ((v1ParseVersionTags cfg.version_pattern tags).map latestOf)) ce s := by
  rw [cmdGetLatest_of_tags]
  unfold tagsThen
  rcases GenE.getTags fetch cfg.tag_scope ce.eff s.p with ⟨p', r⟩
  cases r with
  | error x => rfl
  | ok tags =>
    simp only [hn, tie_parseVersionTags_legacy]
    cases v1ParseVersionTags cfg.version_pattern tags <;> rfl

/-- `_update_cfg_from_vcs` = `get_latest_vcs_version_tag`, then the pure decision `updCfg` -/
theorem tie_cmdUpdateCfgFromVcs {α : Type} (today : Date) (cfg : GenE.Config α) (fetch : Bool) :
    GenL.updateCfgFromVcs today cfg fetch
      = Cmd.bind (GenL.getLatestVcsVersionTag today cfg fetch) (fun l => Cmd.pure (updCfg cfg l)) := by
  unfold GenL.updateCfgFromVcs
  congr 1
  funext l
  cases l with
  | none => rfl
  | some t =>
    simp only [updCfg, pepLe, pyToPep440]
    try simp only [verLt_eq_not_verLe, Bool.not_not]
    by_cases hsc : (cfg.tag_scope == GenE.TagScope.DEFAULT) = true <;>
      by_cases hle : verLe (parseVersion t) (parseVersion cfg.current_version) = true <;> simp [hsc, hle]

theorem tie_cmdUpdateCfgFromVcs_new {α : Type} (today : Date) (cfg : GenE.Config α) (fetch : Bool)
    (hn : cfg.is_new_pattern = true) (ce : CmdEnv) (s : CState) :
    GenL.updateCfgFromVcs today cfg fetch ce s =
      tagsThen fetch cfg.tag_scope
        (fun tags => ofV2 ((latestVersionTag cfg.version_pattern today tags).map (updCfg cfg))) ce s := by
  rw [tie_cmdUpdateCfgFromVcs]
  unfold Cmd.bind
  rw [tie_cmdGetLatest_new today cfg fetch hn]
  unfold tagsThen
  rcases GenE.getTags fetch cfg.tag_scope ce.eff s.p with ⟨p', r⟩
  cases r with
  | error x => rfl
  | ok tags =>
    simp only []
    cases hl : latestVersionTag cfg.version_pattern today tags <;> simp [hl, Cmd.pure, Except.map]

/-- the version the update starts from is the model's `startVersion` -/
theorem TieL.updCfg_startVersion {α : Type} (today : Date) (cfg : GenE.Config α) (tags : List Str) :
    (latestVersionTag cfg.version_pattern today tags).map (fun l => (updCfg cfg l).current_version)
      = startVersion (absScopeE cfg.tag_scope) cfg.version_pattern cfg.current_version today tags := by
  unfold startVersion
  cases latestVersionTag cfg.version_pattern today tags with
  | error e => rfl
  | ok l =>
    cases l with
    | none => rfl
    | some t =>
      simp only [Except.map, updCfg]
      cases hsc : cfg.tag_scope <;> simp [absScopeE] <;> split <;> simp_all

/-- nothing but `current_version` / `pep440_version` is touched -/
theorem TieL.updCfg_fields {α : Type} (cfg : GenE.Config α) (l : Option Str) :
    updCfg cfg l = { cfg with current_version := (updCfg cfg l).current_version,
                              pep440_version := (updCfg cfg l).pep440_version } := by
  cases l with
  | none => rfl
  | some t =>
    simp only [updCfg]
    by_cases h : (cfg.tag_scope == GenE.TagScope.DEFAULT && pepLe t cfg.current_version) = true
    · simp only [h, if_true]
    · simp only [h]; rfl

end BV
