/-
  Proofs/ReadBack.lean — from the match of the rendered text back to the version record
  (`parse_field_values_to_vinfo` on the group dictionary), and rendering again.

  `Pat.fv`        : the `groupdict()` the match of `compose_match` yields: every field of the pattern
                    with the rendered text of its part, `none` for a part inside an omitted group.
  `Pat.agree`     : "every part equal" — the part texts of the rendered parts are the same, and the
                    omitted groups are all-zero again.
  `CalReadsBack`  : the calendar fields of the pattern read back to themselves through
                    `parse_field_values_to_cinfo` (which re-derives ALL calendar fields from the date when
                    the pattern fixes one).  `calReadsBack_of_date` proves it for every record whose
                    calendar comes from `cal_info(date)` — what a bump produces.
-/
import BumpverVerif.Proofs.ComposeMain
import BumpverVerif.Proofs.CalendarLemmas
namespace BV

/-- the calendar parts of the pattern read back to the values they were rendered from -/
def CalReadsBack (p : Pat) (v : VInfo) (today : Nat × Nat × Nat) : Prop :=
  ∃ c', parseCinfo (Pat.fv v p) today = .ok c' ∧
    ∀ n, n ∈ p.parts → isCalPart n = true → partText { v with cal := c' } n = partText v n

theorem nodupStr_iff : ∀ l : List Str, nodupStr l = true ↔ l.Nodup := by
  intro l
  induction l with
  | nil => simp [nodupStr]
  | cons a l ih =>
    simp only [nodupStr, Bool.and_eq_true, Bool.not_eq_true', List.nodup_cons, ih]
    constructor
    · rintro ⟨h1, h2⟩; exact ⟨by simpa using h1, h2⟩
    · rintro ⟨h1, h2⟩; exact ⟨by simpa using h1, h2⟩

theorem eraseDups_of_nodup : ∀ l : List Str, l.Nodup → l.eraseDups = l := by
  intro l
  induction l with
  | nil => intro _; simp
  | cons a l ih =>
    intro h
    rw [List.nodup_cons] at h
    rw [List.eraseDups_cons]
    have : l.filter (fun b => !b == a) = l := by
      rw [List.filter_eq_self]
      intro b hb
      simp only [Bool.not_eq_true', beq_eq_false_iff_ne, ne_eq]
      intro e; subst e; exact h.1 hb
    rw [this, ih h.2]

/-! ### `lookup` on lists with distinct keys -/

theorem lookup_none_of_not_mem {α} (k : Str) : ∀ (l : List (Str × α)), k ∉ l.map (·.1) → lookup k l = none := by
  intro l
  induction l with
  | nil => intro _; rfl
  | cons p l ih =>
    intro h
    obtain ⟨k', x⟩ := p
    simp only [List.map_cons, List.mem_cons, not_or] at h
    simp only [lookup, if_neg h.1]
    exact ih h.2

theorem lookup_of_mem_nodup {α} (k : Str) (x : α) : ∀ (l : List (Str × α)), (l.map (·.1)).Nodup →
    (k, x) ∈ l → lookup k l = some x := by
  intro l
  induction l with
  | nil => intro _ h; cases h
  | cons p l ih =>
    intro hn h
    obtain ⟨k', y⟩ := p
    simp only [List.map_cons, List.nodup_cons] at hn
    simp only [lookup]
    rcases List.mem_cons.mp h with e | h'
    · cases e; simp
    · have : k ≠ k' := by
        intro e; subst e
        exact hn.1 (List.mem_map.mpr ⟨(k, x), h', rfl⟩)
      rw [if_neg this]
      exact ih hn.2 h'

theorem nodup_reverse' {α} (l : List α) (h : l.Nodup) : l.reverse.Nodup := by
  unfold List.Nodup at *
  rw [List.pairwise_reverse]
  exact h.imp (fun h e => h e.symm)

theorem lookup_reverse {α} (k : Str) (l : List (Str × α)) (hn : (l.map (·.1)).Nodup) :
    lookup k l.reverse = lookup k l := by
  cases h : lookup k l with
  | none =>
    apply lookup_none_of_not_mem
    intro hm
    rw [List.map_reverse, List.mem_reverse] at hm
    obtain ⟨⟨k', x⟩, hx, rfl⟩ := List.mem_map.mp hm
    rw [lookup_of_mem_nodup _ x l hn hx] at h
    cases h
  | some x =>
    apply lookup_of_mem_nodup
    · rw [List.map_reverse]; exact nodup_reverse' _ hn
    · exact List.mem_reverse.mpr (lookup_mem_cl k l x h)

theorem lookup_map_self {α} (g : Str → α) (k : Str) : ∀ l : List Str,
    lookup k (l.map (fun f => (f, g f))) = if k ∈ l then some (g k) else none := by
  intro l
  induction l with
  | nil => rfl
  | cons a l ih =>
    simp only [List.map_cons, lookup, List.mem_cons]
    by_cases e : k = a
    · subst e; simp
    · rw [if_neg e, ih]; simp [e]

/-! ### group names of a compiled tree -/

theorem reGroupNames_seqR (a b : Re) : reGroupNames (seqR a b) = reGroupNames a ++ reGroupNames b := by
  unfold seqR
  split
  · simp [reGroupNames]
  · simp [reGroupNames]

theorem partPatterns_noGroups : Gen.partPatterns.all (fun ns =>
    match parseRe ns.2 with
    | some rx => (reGroupNames rx).isEmpty
    | none => true) = true := by decide +kernel

theorem partReOf_noGroups (n : Str) (rx : Re) (h : partReOf n = some rx) : reGroupNames rx = [] := by
  unfold partReOf at h
  cases hl : lookup n Gen.partPatterns with
  | none => rw [hl] at h; cases h
  | some s =>
    rw [hl] at h
    simp only [Option.bind_some] at h
    have hm := lookup_mem_cl n _ s hl
    have ht := partPatterns_noGroups
    rw [List.all_eq_true] at ht
    have := ht _ hm
    simp only [h, List.isEmpty_iff] at this
    exact this

theorem fields_part (n : Str) (rest : Pat) :
    (Pat.part n rest).fields = (match lookup n Gen.partFields with | some f => [f] | none => []) ++ rest.fields := by
  simp only [Pat.fields, Pat.parts, List.filterMap_cons]
  split <;> simp [*]

theorem fields_opt (body rest : Pat) : (Pat.opt body rest).fields = body.fields ++ rest.fields := by
  simp only [Pat.fields, Pat.parts, List.filterMap_append]

theorem reGroupNames_compile : ∀ (p : Pat) (r : Re), Pat.compile p = some r → reGroupNames r = p.fields := by
  intro p
  induction p with
  | done => intro r h; simp only [Pat.compile, Option.some.injEq] at h; subst h; rfl
  | lit c rest ih =>
    intro r h
    simp only [Pat.compile] at h
    cases hc : Pat.compile rest with
    | none => rw [hc] at h; cases h
    | some r' =>
      rw [hc] at h
      simp only [Option.map_some, Option.some.injEq] at h
      subst h
      rw [reGroupNames_seqR, ih r' hc]
      rfl
  | part n rest ih =>
    intro r h
    simp only [Pat.compile] at h
    split at h
    · next rx f r' h1 h2 h3 =>
      simp only [Option.some.injEq] at h
      subst h
      rw [reGroupNames_seqR, ih r' h3, fields_part, h2]
      simp [reGroupNames, partReOf_noGroups n rx h1]
    · cases h
  | opt body rest ihb ihr =>
    intro r h
    simp only [Pat.compile] at h
    split at h
    · next b r' h1 h2 =>
      simp only [Option.some.injEq] at h
      subst h
      rw [reGroupNames_seqR, ihr r' h2, fields_opt]
      simp [reGroupNames, ihb b h1]
    · cases h

theorem caps_keys_sublist (v : VInfo) : ∀ p : Pat, ((Pat.caps v p).map (·.1)).Sublist p.fields := by
  intro p
  induction p with
  | done => simp [Pat.caps, Pat.fields, Pat.parts]
  | lit c rest ih => simpa [Pat.caps, Pat.fields, Pat.parts] using ih
  | part n rest ih =>
    rw [fields_part]
    simp only [Pat.caps]
    split
    · next f t h1 h2 =>
      rw [h1]
      simpa using ih
    · next hno =>
      exact List.Sublist.trans ih (List.sublist_append_right _ _)
  | opt body rest ihb ihr =>
    rw [fields_opt]
    simp only [Pat.caps, List.map_append]
    apply List.Sublist.append _ ihr
    split
    · simp
    · exact ihb

/-- the group dictionary of the match of the rendered text -/
theorem groupdict_compose (v : VInfo) (p : Pat) (r : Re) (hwf : Pat.wfTop p = true)
    (hr : Pat.compile p = some r) (stop : Nat) :
    groupdict r { start := 0, stop := stop, caps := (Pat.caps v p).reverse } = Pat.fv v p := by
  simp only [Pat.wfTop, Bool.and_eq_true] at hwf
  have hnd := (nodupStr_iff _).mp hwf.2
  unfold groupdict Pat.fv
  rw [reGroupNames_compile p r hr, eraseDups_of_nodup _ hnd]
  apply List.map_congr_left
  intro f _
  simp only [Match.group]
  rw [lookup_reverse]
  exact (caps_keys_sublist v p).nodup hnd

theorem render_of_agree (v v' : VInfo) : ∀ p : Pat, Pat.agree v v' p = true →
    Pat.allZero v' p = Pat.allZero v p ∧ Pat.render v' p = Pat.render v p := by
  intro p
  induction p with
  | done => intro _; exact ⟨rfl, rfl⟩
  | lit c rest ih =>
    intro h
    simp only [Pat.agree] at h
    obtain ⟨h1, h2⟩ := ih h
    simp only [Pat.allZero, Pat.render, h1, h2, and_self]
  | part n rest ih =>
    intro h
    simp only [Pat.agree, Bool.and_eq_true, beq_iff_eq] at h
    obtain ⟨h1, h2⟩ := ih h.2
    simp only [Pat.allZero, Pat.render, partIsZero, h.1, h1, h2, and_self]
  | opt body rest ihb ihr =>
    intro h
    simp only [Pat.agree, Bool.and_eq_true] at h
    obtain ⟨hb, hr⟩ := h
    obtain ⟨r1, r2⟩ := ihr hr
    by_cases hz : Pat.allZero v body = true
    · rw [if_pos hz] at hb
      simp only [Pat.allZero, Pat.render, hz, hb, r1, r2, if_true, and_self]
    · rw [if_neg hz] at hb
      obtain ⟨b1, b2⟩ := ihb hb
      simp only [Pat.allZero, Pat.render, b1, b2, r1, r2, and_self]

/-! ### slots: every part of the tree with "is it rendered?" -/

def Pat.slots (v : VInfo) : Pat → List (Str × Bool)
  | .done => []
  | .lit _ rest => Pat.slots v rest
  | .part n rest => (n, true) :: Pat.slots v rest
  | .opt body rest =>
    (if Pat.allZero v body then body.parts.map (fun n => (n, false)) else Pat.slots v body) ++ Pat.slots v rest

def capOf (v : VInfo) (s : Str × Bool) : Option (Str × Str) :=
  if s.2 then
    (match lookup s.1 Gen.partFields, partText v s.1 with
     | some f, some t => some (f, t)
     | _, _ => none)
  else none

theorem slots_parts (v : VInfo) : ∀ p : Pat, (Pat.slots v p).map (·.1) = p.parts := by
  intro p
  induction p with
  | done => rfl
  | lit c rest ih => exact ih
  | part n rest ih => simp only [Pat.slots, Pat.parts, List.map_cons, ih]
  | opt body rest ihb ihr =>
    simp only [Pat.slots, Pat.parts, List.map_append, ihr]
    split
    · simp [Function.comp_def]
    · rw [ihb]

theorem filterMap_capOf_false (v : VInfo) (l : List Str) :
    (l.map (fun n => (n, false))).filterMap (capOf v) = [] := by
  induction l with
  | nil => rfl
  | cons a l ih => simp only [List.map_cons, List.filterMap_cons, capOf, Bool.false_eq_true, if_false, ih]

theorem caps_eq_slots (v : VInfo) : ∀ p : Pat, Pat.caps v p = (Pat.slots v p).filterMap (capOf v) := by
  intro p
  induction p with
  | done => rfl
  | lit c rest ih => exact ih
  | part n rest ih =>
    simp only [Pat.caps, Pat.slots, List.filterMap_cons, capOf, if_true]
    split <;> simp [*]
  | opt body rest ihb ihr =>
    simp only [Pat.caps, Pat.slots, List.filterMap_append, ihr]
    split
    · rw [filterMap_capOf_false]
    · rw [ihb]

theorem lookup_capOf_none (v : VInfo) (f : Str) : ∀ l : List (Str × Bool),
    f ∉ (l.map (·.1)).filterMap (fun n => lookup n Gen.partFields) →
    lookup f (l.filterMap (capOf v)) = none := by
  intro l
  induction l with
  | nil => intro _; rfl
  | cons s l ih =>
    intro h
    obtain ⟨n, b⟩ := s
    simp only [List.map_cons, List.filterMap_cons] at h ⊢
    cases hf : lookup n Gen.partFields with
    | none =>
      rw [hf] at h
      have : capOf v (n, b) = none := by simp [capOf, hf]
      rw [this]; exact ih h
    | some f' =>
      rw [hf] at h
      simp only [List.mem_cons, not_or] at h
      cases hc : capOf v (n, b) with
      | none => exact ih h.2
      | some ft =>
        have : ft.1 = f' := by
          unfold capOf at hc
          simp only [hf] at hc
          split at hc
          · split at hc
            · next h1 _ => cases h1; cases hc; rfl
            · cases hc
          · cases hc
        obtain ⟨f1, t⟩ := ft
        simp only at this; subst this
        simp only [lookup, if_neg h.1]
        exact ih h.2

theorem lookup_capOf (v : VInfo) : ∀ l : List (Str × Bool),
    ((l.map (·.1)).filterMap (fun n => lookup n Gen.partFields)).Nodup →
    ∀ n b f, (n, b) ∈ l → lookup n Gen.partFields = some f →
    lookup f (l.filterMap (capOf v)) = if b then partText v n else none := by
  intro l
  induction l with
  | nil => intro _ n b f h; cases h
  | cons s l ih =>
    intro hn n b f hm hf
    obtain ⟨n0, b0⟩ := s
    simp only [List.map_cons, List.filterMap_cons] at hn ⊢
    rcases List.mem_cons.mp hm with e | hm'
    · cases e
      rw [hf] at hn
      have hnot := (List.nodup_cons.mp hn).1
      cases b with
      | false =>
        have : capOf v (n, false) = none := by simp [capOf]
        rw [this]
        exact lookup_capOf_none v f l hnot
      | true =>
        cases ht : partText v n with
        | none =>
          have : capOf v (n, true) = none := by simp [capOf, hf, ht]
          rw [this]
          exact lookup_capOf_none v f l hnot
        | some t =>
          have : capOf v (n, true) = some (f, t) := by simp [capOf, hf, ht]
          rw [this]
          simp [lookup]
    · have hfl : f ∈ (l.map (·.1)).filterMap (fun n => lookup n Gen.partFields) := by
        rw [List.mem_filterMap]
        exact ⟨n, List.mem_map.mpr ⟨(n, b), hm', rfl⟩, hf⟩
      cases hf0 : lookup n0 Gen.partFields with
      | none =>
        rw [hf0] at hn
        have : capOf v (n0, b0) = none := by simp [capOf, hf0]
        rw [this]
        exact ih hn n b f hm' hf
      | some f0 =>
        rw [hf0] at hn
        obtain ⟨hnot, hn'⟩ := List.nodup_cons.mp hn
        have hne : f ≠ f0 := by intro e; subst e; exact hnot hfl
        cases hc : capOf v (n0, b0) with
        | none => exact ih hn' n b f hm' hf
        | some ft =>
          have : ft.1 = f0 := by
            unfold capOf at hc
            simp only [hf0] at hc
            split at hc
            · split at hc
              · next h1 _ => cases h1; cases hc; rfl
              · cases hc
            · cases hc
          obtain ⟨f1, t⟩ := ft
          simp only at this; subst this
          simp only [lookup, if_neg hne]
          exact ih hn' n b f hm' hf

/-- the group dictionary at the field of a part of the tree -/
theorem fv_lookup (v : VInfo) (p : Pat) (hnd : p.fields.Nodup) (n : Str) (b : Bool) (f : Str)
    (hm : (n, b) ∈ Pat.slots v p) (hf : lookup n Gen.partFields = some f) :
    lookup f (Pat.fv v p) = some (if b then partText v n else none) := by
  have hnp : n ∈ p.parts := by
    rw [← slots_parts v p]; exact List.mem_map.mpr ⟨(n, b), hm, rfl⟩
  have hfp : f ∈ p.fields := List.mem_filterMap.mpr ⟨n, hnp, hf⟩
  unfold Pat.fv
  rw [lookup_map_self, if_pos hfp, caps_eq_slots]
  congr 1
  apply lookup_capOf v _ _ n b f hm hf
  rw [slots_parts]; exact hnd

theorem fv_lookup_none (v : VInfo) (p : Pat) (f : Str) (h : f ∉ p.fields) : lookup f (Pat.fv v p) = none := by
  unfold Pat.fv
  rw [lookup_map_self, if_neg h]

theorem fields_slot (v : VInfo) (p : Pat) (f : Str) (h : f ∈ p.fields) :
    ∃ n b, (n, b) ∈ Pat.slots v p ∧ lookup n Gen.partFields = some f := by
  obtain ⟨n, hn, hf⟩ := List.mem_filterMap.mp h
  rw [← slots_parts v p] at hn
  obtain ⟨⟨n', b⟩, hm, rfl⟩ := List.mem_map.mp hn
  exact ⟨n', b, hm, hf⟩

theorem allZero_iff_parts (v : VInfo) : ∀ p : Pat,
    Pat.allZero v p = true ↔ ∀ n ∈ p.parts, partIsZero v n = true := by
  intro p
  induction p with
  | done => simp [Pat.allZero, Pat.parts]
  | lit c rest ih => simpa [Pat.allZero, Pat.parts] using ih
  | part n rest ih => simp [Pat.allZero, Pat.parts, ih]
  | opt body rest ihb ihr =>
    simp only [Pat.allZero, Pat.parts, Bool.and_eq_true, ihb, ihr, List.mem_append]
    constructor
    · rintro ⟨h1, h2⟩ n (h | h)
      · exact h1 n h
      · exact h2 n h
    · intro h; exact ⟨fun n hn => h n (.inl hn), fun n hn => h n (.inr hn)⟩

theorem slots_true_ok (v : VInfo) : ∀ p : Pat, Pat.vok v p = true → ∀ n, (n, true) ∈ Pat.slots v p →
    partOk v n = true := by
  intro p
  induction p with
  | done => intro _ n h; cases h
  | lit c rest ih => intro hv n h; exact ih (by simpa [Pat.vok] using hv) n h
  | part m rest ih =>
    intro hv n h
    simp only [Pat.vok, Bool.and_eq_true] at hv
    simp only [Pat.slots, List.mem_cons, Prod.mk.injEq, and_true] at h
    rcases h with e | h
    · subst e; exact hv.1
    · exact ih hv.2 n h
  | opt body rest ihb ihr =>
    intro hv n h
    simp only [Pat.vok, Bool.and_eq_true, Bool.or_eq_true] at hv
    simp only [Pat.slots, List.mem_append] at h
    rcases h with h | h
    · by_cases hz : Pat.allZero v body = true
      · rw [if_pos hz] at h
        obtain ⟨_, _, e⟩ := List.mem_map.mp h
        cases e
      · rw [if_neg hz] at h
        rcases hv.1 with h1 | h1
        · exact absurd h1 hz
        · exact ihb h1 n h
    · exact ihr hv.2 n h

theorem slots_false_zero (v : VInfo) : ∀ p : Pat, ∀ n, (n, false) ∈ Pat.slots v p →
    partIsZero v n = true := by
  intro p
  induction p with
  | done => intro n h; cases h
  | lit c rest ih => intro n h; exact ih n h
  | part m rest ih =>
    intro n h
    simp only [Pat.slots, List.mem_cons, Prod.mk.injEq] at h
    rcases h with ⟨_, e⟩ | h
    · cases e
    · exact ih n h
  | opt body rest ihb ihr =>
    intro n h
    simp only [Pat.slots, List.mem_append] at h
    rcases h with h | h
    · by_cases hz : Pat.allZero v body = true
      · rw [if_pos hz] at h
        obtain ⟨m, hm, e⟩ := List.mem_map.mp h
        cases e
        exact (allZero_iff_parts v body).mp hz _ hm
      · rw [if_neg hz] at h
        exact ihb n h
    · exact ihr n h

theorem agree_of_slots (v v' : VInfo) : ∀ p : Pat,
    (∀ n, (n, true) ∈ Pat.slots v p → partText v' n = partText v n) →
    (∀ n, (n, false) ∈ Pat.slots v p → partIsZero v' n = true) →
    Pat.agree v v' p = true := by
  intro p
  induction p with
  | done => intro _ _; rfl
  | lit c rest ih => intro h1 h2; exact ih h1 h2
  | part m rest ih =>
    intro h1 h2
    simp only [Pat.agree, Bool.and_eq_true, beq_iff_eq]
    refine ⟨h1 m (by simp [Pat.slots]), ih (fun n h => h1 n ?_) (fun n h => h2 n ?_)⟩
    · simp [Pat.slots, h]
    · simp [Pat.slots, h]
  | opt body rest ihb ihr =>
    intro h1 h2
    simp only [Pat.agree, Bool.and_eq_true]
    refine ⟨?_, ihr (fun n h => h1 n ?_) (fun n h => h2 n ?_)⟩
    · by_cases hz : Pat.allZero v body = true
      · rw [if_pos hz, allZero_iff_parts]
        intro n hn
        apply h2 n
        simp only [Pat.slots, if_pos hz, List.mem_append]
        exact .inl (List.mem_map.mpr ⟨n, hn, rfl⟩)
      · rw [if_neg hz]
        apply ihb
        · intro n h; apply h1 n; simp only [Pat.slots, if_neg hz, List.mem_append]; exact .inl h
        · intro n h; apply h2 n; simp only [Pat.slots, if_neg hz, List.mem_append]; exact .inl h
    · simp only [Pat.slots, List.mem_append]; exact .inr h
    · simp only [Pat.slots, List.mem_append]; exact .inr h

theorem wf_parts : ∀ (p : Pat) (F : FSet), Pat.wf p F = true → ∀ n ∈ p.parts,
    (lookup n partDoms).isSome = true := by
  intro p
  induction p with
  | done => intro F _ n h; cases h
  | lit c rest ih => intro F h n hn; exact ih F (by simpa [Pat.wf] using h) n hn
  | part m rest ih =>
    intro F h n hn
    simp only [Pat.wf, Bool.and_eq_true] at h
    simp only [Pat.parts, List.mem_cons] at hn
    rcases hn with e | hn
    · subst e; exact h.1.1
    · exact ih F h.1.2 n hn
  | opt body rest ihb ihr =>
    intro F h n hn
    simp only [Pat.wf, Bool.and_eq_true] at h
    simp only [Pat.parts, List.mem_append] at hn
    rcases hn with hn | hn
    · exact ihb _ h.1.1 n hn
    · exact ihr F h.1.2 n hn

/-! ### field-level reading -/

theorem strField_some (fv : FVals) (k : String) (s : Str) (h : lookup k.toList fv = some (some s)) :
    strField fv k = s := by
  simp only [strField, h]

theorem strField_omitted (fv : FVals) (k : String) (h : lookup k.toList fv = some none) :
    strField fv k = [] := by
  simp only [strField, h]

theorem strField_absent (fv : FVals) (k : String) (h : lookup k.toList fv = none) :
    strField fv k = [] := by
  simp only [strField, h]

theorem intFieldOr_some (fv : FVals) (k : String) (x d : Nat)
    (h : lookup k.toList fv = some (some (natToStr x))) : intFieldOr fv k d = x := by
  simp only [intFieldOr, strField_some fv k _ h]
  have : (natToStr x).isEmpty = false := by
    cases hx : natToStr x with
    | nil => exact absurd hx (natToStr_ne_nil x)
    | cons _ _ => rfl
  rw [this]
  simp only [Bool.false_eq_true, if_false, strToNat_natToStr]

theorem intFieldOr_omitted (fv : FVals) (k : String) (d : Nat)
    (h : lookup k.toList fv = some none) : intFieldOr fv k d = d := by
  simp only [intFieldOr, strField_omitted fv k h, List.isEmpty_nil, if_true]

theorem partText_nat (n f : Str) (get : VInfo → Nat) (hf : lookup n Gen.partFields = some f)
    (hkd : lookup n Gen.partFormats = some .str) (hget : ∀ v : VInfo, v.get f = .nat (get v)) (v : VInfo) :
    partText v n = some (natToStr (get v)) := by
  simp only [partText, hf, hkd, hget]; rfl

theorem partText_congr_get (n f : Str) (hf : lookup n Gen.partFields = some f) (v1 v2 : VInfo)
    (hg : v1.get f = v2.get f) : partText v1 n = partText v2 n := by
  unfold partText
  rw [hf]
  cases lookup n Gen.partFormats with
  | none => rfl
  | some k => simp only [hg]

theorem get_cal_congr (f : Str) (hf : f ∈ Gen.calFields) (v1 v2 : VInfo) (h : v1.cal = v2.cal) :
    v1.get f = v2.get f := by
  simp only [Gen.calFields, List.mem_cons, List.not_mem_nil, or_false] at hf
  rcases hf with rfl | rfl | rfl | rfl | rfl | rfl | rfl | rfl | rfl
  · show optNat v1.cal.yearY = optNat v2.cal.yearY; rw [h]
  · show optNat v1.cal.yearG = optNat v2.cal.yearG; rw [h]
  · show optNat v1.cal.quarter = optNat v2.cal.quarter; rw [h]
  · show optNat v1.cal.month = optNat v2.cal.month; rw [h]
  · show optNat v1.cal.dom = optNat v2.cal.dom; rw [h]
  · show optNat v1.cal.doy = optNat v2.cal.doy; rw [h]
  · show optNat v1.cal.weekW = optNat v2.cal.weekW; rw [h]
  · show optNat v1.cal.weekU = optNat v2.cal.weekU; rw [h]
  · show optNat v1.cal.weekV = optNat v2.cal.weekV; rw [h]

theorem calPart_field_table : calPartNames.all (fun n =>
    match lookup n Gen.partFields with
    | some f => Gen.calFields.contains f
    | none => false) = true := by decide

theorem calPart_field (n : Str) (h : isCalPart n = true) :
    ∃ f, lookup n Gen.partFields = some f ∧ f ∈ Gen.calFields := by
  have ht := calPart_field_table
  rw [List.all_eq_true] at ht
  have := ht n (by simpa [isCalPart] using h)
  cases hf : lookup n Gen.partFields with
  | none => rw [hf] at this; cases this
  | some f =>
    rw [hf] at this
    exact ⟨f, rfl, by simpa using this⟩

/-- a calendar part only looks at the calendar -/
theorem partText_cal (n : Str) (h : isCalPart n = true) (v1 v2 : VInfo) (hc : v1.cal = v2.cal) :
    partText v1 n = partText v2 n := by
  obtain ⟨f, hf, hfc⟩ := calPart_field n h
  exact partText_congr_get n f hf v1 v2 (get_cal_congr f hfc v1 v2 hc)

/-- only the parts with a zero value can be omitted -/
theorem zero_parts (v : VInfo) (n : Str) (h : partIsZero v n = true) :
    n ∈ Gen.partZeroValues.map (·.1) := by
  unfold partIsZero at h
  split at h
  · unfold isZeroVal at h
    split at h
    · next z hz => exact lookup_isSome_mem n _ (by rw [hz]; rfl)
    · cases h
  · cases h

/-! ### reading a rendered calendar part -/

/-- the two-digit-year rule of `parse_field_values_to_cinfo` (applies to year_y / year_g only) -/
def yadj (f : Str) (z : Nat) : Nat :=
  if f == "year_y".toList || f == "year_g".toList then (if z < 1000 then z + 2000 else z) else z

def isAnchorField (f : Str) : Bool :=
  ["year_y".toList, "year_g".toList, "month".toList, "dom".toList, "doy".toList, "week_v".toList].contains f

theorem read_str (x : Nat) : strToNat (fmtValue .str (.nat x)) = x := by
  simp only [fmtValue, strToNat_natToStr]

theorem read_pad (w x : Nat) : strToNat (fmtValue (.pad w) (.nat x)) = x := by
  simp only [fmtValue, strToNat_zfill, strToNat_natToStr]

theorem read_yy_table : (List.range 100).all (fun i =>
    strToNat (fmtValue .yy (.nat (2000 + i))) == i && strToNat (fmtValue (.yypad 2) (.nat (2000 + i))) == i) = true := by
  decide +kernel

theorem read_yy (x : Nat) (h1 : 2000 ≤ x) (h2 : x ≤ 2099) :
    strToNat (fmtValue .yy (.nat x)) = x - 2000 ∧ strToNat (fmtValue (.yypad 2) (.nat x)) = x - 2000 := by
  have ht := read_yy_table
  rw [List.all_eq_true] at ht
  have := ht (x - 2000) (List.mem_range.mpr (by omega))
  have e : 2000 + (x - 2000) = x := by omega
  rw [e] at this
  simpa using this

/-- what reading back needs from one rendered calendar part -/
def CalPartSpec (v : VInfo) (n : Str) : Prop :=
  ∃ f x t, lookup n Gen.partFields = some f ∧ v.get f = .nat x ∧ partText v n = some t ∧
    yadj f (strToNat t) = x ∧ (isAnchorField f = true → x ≠ 0)

theorem cal_spec_aux (n f : Str) (get : CalOpt → Option Nat) (lo hi : Nat) (kd : Gen.FmtKind)
    (hf : lookup n Gen.partFields = some f) (hkd : lookup n Gen.partFormats = some kd)
    (hget : ∀ v : VInfo, v.get f = optNat (get v.cal))
    (hdom : ∀ v : VInfo, partOk v n = optIn (get v.cal) lo hi)
    (hread : ∀ x, lo ≤ x → x ≤ hi → yadj f (strToNat (fmtValue kd (.nat x))) = x)
    (hnz : isAnchorField f = true → 1 ≤ lo) (v : VInfo) (hok : partOk v n = true) : CalPartSpec v n := by
  rw [hdom] at hok
  cases hx : get v.cal with
  | none => rw [hx] at hok; cases hok
  | some x =>
    rw [hx] at hok
    simp only [optIn, Bool.and_eq_true, decide_eq_true_eq] at hok
    refine ⟨f, x, fmtValue kd (.nat x), hf, ?_, ?_, hread x hok.1 hok.2, fun ha => ?_⟩
    · rw [hget, hx]; rfl
    · simp only [partText, hf, hkd, hget, hx, optNat]
    · have := hnz ha; omega

theorem yadj_other (f : Str) (z : Nat) (h : (f == "year_y".toList || f == "year_g".toList) = false) :
    yadj f z = z := by
  simp only [yadj, h, Bool.false_eq_true, if_false]

theorem yadj_year_big (f : Str) (z : Nat) (h : 1000 ≤ z) : yadj f z = z := by
  unfold yadj
  split
  · rw [if_neg (by omega)]
  · rfl

theorem yadj_year_small (f : Str) (z : Nat) (hf : (f == "year_y".toList || f == "year_g".toList) = true)
    (h : z < 1000) : yadj f z = z + 2000 := by
  simp only [yadj, hf, if_true, h]

theorem calpart_spec (v : VInfo) (n : Str) (hc : isCalPart n = true) (hok : partOk v n = true) :
    CalPartSpec v n := by
  have hmem : n ∈ calPartNames := by simpa [isCalPart] using hc
  simp only [calPartNames, List.map_cons, List.map_nil, List.mem_cons, List.not_mem_nil, or_false] at hmem
  have hY : ∀ (f : Str) (kd : Gen.FmtKind) (x : Nat), 1000 ≤ x → kd = .str →
      yadj f (strToNat (fmtValue kd (.nat x))) = x := by
    intro f kd x h e; subst e; rw [read_str]; exact yadj_year_big f x h
  have hyy : ∀ (f : Str) (x : Nat), (f == "year_y".toList || f == "year_g".toList) = true → 2000 ≤ x → x ≤ 2099 →
      yadj f (strToNat (fmtValue .yy (.nat x))) = x ∧ yadj f (strToNat (fmtValue (.yypad 2) (.nat x))) = x := by
    intro f x hf h1 h2
    obtain ⟨e1, e2⟩ := read_yy x h1 h2
    rw [e1, e2, yadj_year_small f _ hf (by omega)]
    omega
  rcases hmem with rfl | rfl | rfl | rfl | rfl | rfl | rfl | rfl | rfl | rfl | rfl | rfl | rfl | rfl |
    rfl | rfl | rfl | rfl | rfl
  · exact cal_spec_aux _ "year_y".toList (·.yearY) 1000 9999 .str (by decide) (by decide) (fun _ => rfl)
      (fun _ => rfl) (fun x h _ => hY _ _ x h rfl) (fun _ => by omega) v hok
  · exact cal_spec_aux _ "year_y".toList (·.yearY) 2001 2099 .yy (by decide) (by decide) (fun _ => rfl)
      (fun _ => rfl) (fun x h1 h2 => (hyy _ x (by decide) (by omega) h2).1) (fun _ => by omega) v hok
  · exact cal_spec_aux _ "year_y".toList (·.yearY) 2000 2099 (.yypad 2) (by decide) (by decide) (fun _ => rfl)
      (fun _ => rfl) (fun x h1 h2 => (hyy _ x (by decide) (by omega) h2).2) (fun _ => by omega) v hok
  · exact cal_spec_aux _ "year_g".toList (·.yearG) 1000 9999 .str (by decide) (by decide) (fun _ => rfl)
      (fun _ => rfl) (fun x h _ => hY _ _ x h rfl) (fun _ => by omega) v hok
  · exact cal_spec_aux _ "year_g".toList (·.yearG) 2001 2099 .yy (by decide) (by decide) (fun _ => rfl)
      (fun _ => rfl) (fun x h1 h2 => (hyy _ x (by decide) (by omega) h2).1) (fun _ => by omega) v hok
  · exact cal_spec_aux _ "year_g".toList (·.yearG) 2000 2099 (.yypad 2) (by decide) (by decide) (fun _ => rfl)
      (fun _ => rfl) (fun x h1 h2 => (hyy _ x (by decide) (by omega) h2).2) (fun _ => by omega) v hok
  · exact cal_spec_aux _ "quarter".toList (·.quarter) 1 4 .str (by decide) (by decide) (fun _ => rfl)
      (fun _ => rfl) (fun x _ _ => by rw [read_str]; exact yadj_other _ _ (by decide)) (fun _ => by omega) v hok
  · exact cal_spec_aux _ "month".toList (·.month) 1 12 .str (by decide) (by decide) (fun _ => rfl)
      (fun _ => rfl) (fun x _ _ => by rw [read_str]; exact yadj_other _ _ (by decide)) (fun _ => by omega) v hok
  · exact cal_spec_aux _ "month".toList (·.month) 1 12 (.pad 2) (by decide) (by decide) (fun _ => rfl)
      (fun _ => rfl) (fun x _ _ => by rw [read_pad]; exact yadj_other _ _ (by decide)) (fun _ => by omega) v hok
  · exact cal_spec_aux _ "dom".toList (·.dom) 1 31 .str (by decide) (by decide) (fun _ => rfl)
      (fun _ => rfl) (fun x _ _ => by rw [read_str]; exact yadj_other _ _ (by decide)) (fun _ => by omega) v hok
  · exact cal_spec_aux _ "dom".toList (·.dom) 1 31 (.pad 2) (by decide) (by decide) (fun _ => rfl)
      (fun _ => rfl) (fun x _ _ => by rw [read_pad]; exact yadj_other _ _ (by decide)) (fun _ => by omega) v hok
  · exact cal_spec_aux _ "doy".toList (·.doy) 1 366 .str (by decide) (by decide) (fun _ => rfl)
      (fun _ => rfl) (fun x _ _ => by rw [read_str]; exact yadj_other _ _ (by decide)) (fun _ => by omega) v hok
  · exact cal_spec_aux _ "doy".toList (·.doy) 1 366 (.pad 3) (by decide) (by decide) (fun _ => rfl)
      (fun _ => rfl) (fun x _ _ => by rw [read_pad]; exact yadj_other _ _ (by decide)) (fun _ => by omega) v hok
  · exact cal_spec_aux _ "week_w".toList (·.weekW) 0 52 .str (by decide) (by decide) (fun _ => rfl)
      (fun _ => rfl) (fun x _ _ => by rw [read_str]; exact yadj_other _ _ (by decide)) (fun h => absurd h (by decide)) v hok
  · exact cal_spec_aux _ "week_w".toList (·.weekW) 0 52 (.pad 2) (by decide) (by decide) (fun _ => rfl)
      (fun _ => rfl) (fun x _ _ => by rw [read_pad]; exact yadj_other _ _ (by decide)) (fun h => absurd h (by decide)) v hok
  · exact cal_spec_aux _ "week_u".toList (·.weekU) 0 52 .str (by decide) (by decide) (fun _ => rfl)
      (fun _ => rfl) (fun x _ _ => by rw [read_str]; exact yadj_other _ _ (by decide)) (fun h => absurd h (by decide)) v hok
  · exact cal_spec_aux _ "week_u".toList (·.weekU) 0 52 (.pad 2) (by decide) (by decide) (fun _ => rfl)
      (fun _ => rfl) (fun x _ _ => by rw [read_pad]; exact yadj_other _ _ (by decide)) (fun h => absurd h (by decide)) v hok
  · exact cal_spec_aux _ "week_v".toList (·.weekV) 1 53 .str (by decide) (by decide) (fun _ => rfl)
      (fun _ => rfl) (fun x _ _ => by rw [read_str]; exact yadj_other _ _ (by decide)) (fun _ => by omega) v hok
  · exact cal_spec_aux _ "week_v".toList (·.weekV) 1 53 (.pad 2) (by decide) (by decide) (fun _ => rfl)
      (fun _ => rfl) (fun x _ _ => by rw [read_pad]; exact yadj_other _ _ (by decide)) (fun _ => by omega) v hok

theorem calPart_noZero_table : calPartNames.all (fun n => (lookup n Gen.partZeroValues).isNone) = true := by
  decide

theorem calPart_not_zero (v : VInfo) (n : Str) (h : isCalPart n = true) : partIsZero v n = false := by
  have ht := calPart_noZero_table
  rw [List.all_eq_true] at ht
  have := ht n (by simpa [isCalPart] using h)
  have hl : lookup n Gen.partZeroValues = none := by simpa using this
  unfold partIsZero isZeroVal
  rw [hl]
  cases partText v n <;> rfl

theorem calField_part_table : (partDoms.map (·.1)).all (fun n =>
    match lookup n Gen.partFields with
    | some f => !Gen.calFields.contains f || isCalPart n
    | none => true) = true := by decide

theorem calField_part (n f : Str) (hd : (lookup n partDoms).isSome = true)
    (hf : lookup n Gen.partFields = some f) (hfc : f ∈ Gen.calFields) : isCalPart n = true := by
  have ht := calField_part_table
  rw [List.all_eq_true] at ht
  have := ht n (lookup_isSome_mem n partDoms hd)
  rw [hf] at this
  simpa [hfc] using this

/-- reading one calendar field of the group dictionary of the rendered text -/
theorem rc_field (v : VInfo) (p : Pat) (hnd : p.fields.Nodup) (hwf : Pat.wf p FSet.endOnly = true)
    (hv : Pat.vok v p = true) (k : String) (hkc : k.toList ∈ Gen.calFields) :
    (k.toList ∉ p.fields ∧ intField (Pat.fv v p) k = .ok none) ∨
    (k.toList ∈ p.fields ∧ ∃ x z, v.get k.toList = .nat x ∧ intField (Pat.fv v p) k = .ok (some z) ∧
      yadj k.toList z = x ∧ (isAnchorField k.toList = true → x ≠ 0)) := by
  by_cases hf : k.toList ∈ p.fields
  · right
    refine ⟨hf, ?_⟩
    obtain ⟨n, b, hm, hnf⟩ := fields_slot v p _ hf
    have hnp : n ∈ p.parts := by
      rw [← slots_parts v p]; exact List.mem_map.mpr ⟨(n, b), hm, rfl⟩
    have hcp := calField_part n _ (wf_parts p _ hwf n hnp) hnf hkc
    cases b with
    | false =>
      have := slots_false_zero v p n hm
      rw [calPart_not_zero v n hcp] at this; cases this
    | true =>
      obtain ⟨f, x, t, h1, h2, h3, h4, h5⟩ := calpart_spec v n hcp (slots_true_ok v p hv n hm)
      rw [hnf] at h1
      have h1 := Option.some.inj h1
      subst h1
      have hl := fv_lookup v p hnd n true _ hm hnf
      rw [if_pos rfl, h3] at hl
      exact ⟨x, strToNat t, h2, by simp only [intField, hl], h4, h5⟩
  · left
    exact ⟨hf, by simp only [intField, fv_lookup_none v p _ hf]⟩

/-! ### `parse_field_values_to_cinfo` after the nine reads -/

def cinfoCore (yearY yearG month0 doy dom0 weekW weekU weekV quarter0 : Option Nat)
    (today : Nat × Nat × Nat) : Except PErr CalOpt := do
  let fromDoy : Option (Nat × Nat × Nat) ←
    if truthy yearY && truthy doy then
      match dateFromDoy (yearY.getD 0) (doy.getD 0) with
      | some d => pure (some d)
      | none => throw .overflow
    else pure none
  let month := match fromDoy with | some d => some d.2.1 | none => month0
  let dom := match fromDoy with | some d => some d.2.2 | none => dom0
  let date1 : Option (Nat × Nat × Nat) ←
    if truthy yearY && truthy month && truthy dom then
      if validDate (yearY.getD 0) (month.getD 0) (dom.getD 0)
      then pure (some (yearY.getD 0, month.getD 0, dom.getD 0))
      else throw .valueError
    else pure fromDoy
  let date : Option (Nat × Nat × Nat) :=
    if date1.isNone && !truthy yearY && !truthy yearG && !truthy month && !truthy dom && !truthy doy
       && !truthy weekW && !truthy weekU && !truthy weekV then some today else date1
  match date with
  | some (y, m, d) =>
    let c := calInfo y m d
    let quarter := match quarter0 with | some q => some q | none => some (quarterFromMonth m)
    pure { yearY := some c.yearY, yearG := some c.yearG, quarter := quarter, month := some c.month,
           dom := some c.dom, doy := some c.doy, weekW := some c.weekW, weekU := some c.weekU,
           weekV := some c.weekV }
  | none =>
    let quarter := match quarter0 with
      | some q => some q
      | none => if truthy month then some (quarterFromMonth (month.getD 0)) else none
    pure { yearY := yearY, yearG := yearG, quarter := quarter, month := month, dom := dom, doy := doy,
           weekW := weekW, weekU := weekU, weekV := weekV }

theorem parseCinfo_eq (fv : FVals) (today : Nat × Nat × Nat) (a1 a2 a3 a4 a5 a6 a7 a8 a9 : Option Nat)
    (h1 : intField fv "year_y" = .ok a1) (h2 : intField fv "year_g" = .ok a2)
    (h3 : intField fv "month" = .ok a3) (h4 : intField fv "doy" = .ok a4)
    (h5 : intField fv "dom" = .ok a5) (h6 : intField fv "week_w" = .ok a6)
    (h7 : intField fv "week_u" = .ok a7) (h8 : intField fv "week_v" = .ok a8)
    (h9 : intField fv "quarter" = .ok a9) :
    parseCinfo fv today =
      cinfoCore (a1.map (yadj "year_y".toList)) (a2.map (yadj "year_g".toList)) a3 a4 a5 a6 a7 a8 a9 today := by
  unfold parseCinfo
  rw [h1, h2, h3, h4, h5, h6, h7, h8, h9]
  have e1 : yadj "year_y".toList = fun y => if y < 1000 then y + 2000 else y := by
    funext z; simp only [yadj]; rfl
  have e2 : yadj "year_g".toList = fun y => if y < 1000 then y + 2000 else y := by
    funext z; simp only [yadj]; rfl
  rw [e1, e2]
  rfl

def fullCal (y m d : Nat) (q : Option Nat) : CalOpt :=
  let c := calInfo y m d
  { yearY := some c.yearY, yearG := some c.yearG,
    quarter := (match q with | some q => some q | none => some (quarterFromMonth m)),
    month := some c.month, dom := some c.dom, doy := some c.doy, weekW := some c.weekW,
    weekU := some c.weekU, weekV := some c.weekV }

theorem core_doy (y m d j : Nat) (today : Nat × Nat × Nat) (hd : validDate y m d = true)
    (hdoy : dateFromDoy y j = some (y, m, d)) (hy : y ≠ 0) (hj : j ≠ 0) (hm : m ≠ 0) (hdd : d ≠ 0)
    (aG aM aD aW aU aV aQ : Option Nat) :
    cinfoCore (some y) aG aM (some j) aD aW aU aV aQ today = .ok (fullCal y m d aQ) := by
  simp [cinfoCore, truthy, hy, hj, hm, hdd, hdoy, hd, fullCal, bind, Except.bind, pure, Except.pure]
  all_goals (cases aQ <;> rfl)

theorem core_ymd (y m d : Nat) (today : Nat × Nat × Nat) (hd : validDate y m d = true)
    (hy : y ≠ 0) (hm : m ≠ 0) (hdd : d ≠ 0) (aG aW aU aV aQ : Option Nat) :
    cinfoCore (some y) aG (some m) none (some d) aW aU aV aQ today = .ok (fullCal y m d aQ) := by
  simp [cinfoCore, truthy, hy, hm, hdd, hd, fullCal, bind, Except.bind, pure, Except.pure]
  all_goals (cases aQ <;> rfl)

theorem core_pass (today : Nat × Nat × Nat) (aY aG aM aJ aD aW aU aV aQ : Option Nat)
    (h1 : (truthy aY && truthy aJ) = false) (h2 : (truthy aY && truthy aM && truthy aD) = false)
    (h3 : (!truthy aY && !truthy aG && !truthy aM && !truthy aD && !truthy aJ
       && !truthy aW && !truthy aU && !truthy aV) = false) :
    ∃ q, (aQ = none ∨ q = aQ) ∧ cinfoCore aY aG aM aJ aD aW aU aV aQ today =
      .ok { yearY := aY, yearG := aG, quarter := q, month := aM, dom := aD, doy := aJ,
            weekW := aW, weekU := aU, weekV := aV } := by
  cases aQ with
  | none =>
    refine ⟨(if truthy aM then some (quarterFromMonth (aM.getD 0)) else none), .inl rfl, ?_⟩
    simp [cinfoCore, h1, h2, h3, bind, Except.bind, pure, Except.pure]
  | some q =>
    refine ⟨some q, .inr rfl, ?_⟩
    simp [cinfoCore, h1, h2, h3, bind, Except.bind, pure, Except.pure]

theorem core_today (today : Nat × Nat × Nat) :
    ∃ c', cinfoCore none none none none none none none none none today = .ok c' := by
  obtain ⟨ty, tm, td⟩ := today
  exact ⟨_, rfl⟩

theorem truthy_some (x : Nat) (h : x ≠ 0) : truthy (some x) = true := by
  simp [truthy, h]

/-- presence form of one read: absent and `none`, or present with the value of the record -/
def ReadOf (P : Prop) (a : Option Nat) (x : Nat) (nz : Prop) : Prop :=
  (¬ P ∧ a = none) ∨ (P ∧ a = some x ∧ nz)

theorem ReadOf.imp {P : Prop} {a : Option Nat} {x : Nat} {nz : Prop} (h : ReadOf P a x nz) :
    P → a = some x := by
  intro hp
  rcases h with ⟨hn, _⟩ | ⟨_, e, _⟩
  · exact absurd hp hn
  · exact e

theorem ReadOf.falsy {P : Prop} {a : Option Nat} {x : Nat} (h : ReadOf P a x (x ≠ 0))
    (hf : truthy a = false) : ¬ P ∧ a = none := by
  rcases h with h | ⟨_, e, nz⟩
  · exact h
  · rw [e, truthy_some x nz] at hf; cases hf

theorem ReadOf.absent {P : Prop} {a : Option Nat} {x : Nat} {nz : Prop} (h : ReadOf P a x nz)
    (hn : ¬ P) : a = none := by
  rcases h with ⟨_, e⟩ | ⟨hp, _⟩
  · exact e
  · exact absurd hp hn

theorem core_reads (y m d : Nat) (today : Nat × Nat × Nat) (hd : validDate y m d = true)
    (hdoy : dateFromDoy y (dayOfYear y m d) = some (y, m, d))
    (PY PG PM PJ PD PW PU PV PQ : Prop) (aY aG aM aJ aD aW aU aV aQ : Option Nat)
    (hY : ReadOf PY aY y (y ≠ 0)) (hG : ReadOf PG aG (calInfo y m d).yearG ((calInfo y m d).yearG ≠ 0))
    (hM : ReadOf PM aM m (m ≠ 0)) (hJ : ReadOf PJ aJ (dayOfYear y m d) (dayOfYear y m d ≠ 0))
    (hD : ReadOf PD aD d (d ≠ 0)) (hW : ReadOf PW aW (calInfo y m d).weekW True)
    (hU : ReadOf PU aU (calInfo y m d).weekU True)
    (hV : ReadOf PV aV (calInfo y m d).weekV ((calInfo y m d).weekV ≠ 0))
    (hQ : ReadOf PQ aQ (calInfo y m d).quarter True)
    (hanch : (PY ∨ PG ∨ PM ∨ PD ∨ PJ ∨ PV) ∨
      (¬ PY ∧ ¬ PG ∧ ¬ PM ∧ ¬ PJ ∧ ¬ PD ∧ ¬ PW ∧ ¬ PU ∧ ¬ PV ∧ ¬ PQ)) :
    ∃ c', cinfoCore aY aG aM aJ aD aW aU aV aQ today = .ok c' ∧
      (PY → c'.yearY = some y) ∧ (PG → c'.yearG = some (calInfo y m d).yearG) ∧
      (PM → c'.month = some m) ∧ (PJ → c'.doy = some (dayOfYear y m d)) ∧ (PD → c'.dom = some d) ∧
      (PW → c'.weekW = some (calInfo y m d).weekW) ∧ (PU → c'.weekU = some (calInfo y m d).weekU) ∧
      (PV → c'.weekV = some (calInfo y m d).weekV) ∧ (PQ → c'.quarter = some (calInfo y m d).quarter) := by
  have hvd := hd
  simp only [validDate, Bool.and_eq_true, decide_eq_true_eq] at hvd
  have hm0 : m ≠ 0 := by omega
  have hd0 : d ≠ 0 := by omega
  have hy0 : y ≠ 0 := by omega
  -- the two scenarios that fix the date
  have full : ∀ c', c' = fullCal y m d aQ →
      (PY → c'.yearY = some y) ∧ (PG → c'.yearG = some (calInfo y m d).yearG) ∧
      (PM → c'.month = some m) ∧ (PJ → c'.doy = some (dayOfYear y m d)) ∧ (PD → c'.dom = some d) ∧
      (PW → c'.weekW = some (calInfo y m d).weekW) ∧ (PU → c'.weekU = some (calInfo y m d).weekU) ∧
      (PV → c'.weekV = some (calInfo y m d).weekV) ∧ (PQ → c'.quarter = some (calInfo y m d).quarter) := by
    intro c' e
    subst e
    refine ⟨fun _ => rfl, fun _ => rfl, fun _ => rfl, fun _ => rfl, fun _ => rfl, fun _ => rfl,
      fun _ => rfl, fun _ => rfl, fun hp => ?_⟩
    show (match aQ with | some q => some q | none => some (quarterFromMonth m)) = _
    rw [hQ.imp hp]
  -- the scenario that passes the reads through
  have pass : (truthy aY && truthy aJ) = false → (truthy aY && truthy aM && truthy aD) = false →
      (!truthy aY && !truthy aG && !truthy aM && !truthy aD && !truthy aJ
        && !truthy aW && !truthy aU && !truthy aV) = false →
      ∃ c', cinfoCore aY aG aM aJ aD aW aU aV aQ today = .ok c' ∧
      (PY → c'.yearY = some y) ∧ (PG → c'.yearG = some (calInfo y m d).yearG) ∧
      (PM → c'.month = some m) ∧ (PJ → c'.doy = some (dayOfYear y m d)) ∧ (PD → c'.dom = some d) ∧
      (PW → c'.weekW = some (calInfo y m d).weekW) ∧ (PU → c'.weekU = some (calInfo y m d).weekU) ∧
      (PV → c'.weekV = some (calInfo y m d).weekV) ∧ (PQ → c'.quarter = some (calInfo y m d).quarter) := by
    intro h1 h2 h3
    obtain ⟨q, hq, hcore⟩ := core_pass today aY aG aM aJ aD aW aU aV aQ h1 h2 h3
    refine ⟨_, hcore, hY.imp, hG.imp, hM.imp, hJ.imp, hD.imp, hW.imp, hU.imp, hV.imp, fun hp => ?_⟩
    have := hQ.imp hp
    rcases hq with hq | hq
    · rw [hq] at this; cases this
    · show q = _; rw [hq, this]
  by_cases tY : truthy aY = true
  · have eY : aY = some y := by
      rcases hY with ⟨_, e⟩ | ⟨_, e, _⟩
      · rw [e] at tY; cases tY
      · exact e
    by_cases tJ : truthy aJ = true
    · have eJ : aJ = some (dayOfYear y m d) := by
        rcases hJ with ⟨_, e⟩ | ⟨_, e, _⟩
        · rw [e] at tJ; cases tJ
        · exact e
      have nzJ : dayOfYear y m d ≠ 0 := by
        rcases hJ with ⟨_, e⟩ | ⟨_, _, nz⟩
        · rw [e] at tJ; cases tJ
        · exact nz
      subst eY eJ
      exact ⟨_, core_doy y m d _ today hd hdoy hy0 nzJ hm0 hd0 aG aM aD aW aU aV aQ, full _ rfl⟩
    · have tJ' : truthy aJ = false := by simpa using tJ
      obtain ⟨_, eJ⟩ := hJ.falsy tJ'
      by_cases tMD : (truthy aM && truthy aD) = true
      · simp only [Bool.and_eq_true] at tMD
        have eM : aM = some m := by
          rcases hM with ⟨_, e⟩ | ⟨_, e, _⟩
          · rw [e] at tMD; cases tMD.1
          · exact e
        have eD : aD = some d := by
          rcases hD with ⟨_, e⟩ | ⟨_, e, _⟩
          · rw [e] at tMD; cases tMD.2
          · exact e
        subst eY eJ eM eD
        exact ⟨_, core_ymd y m d today hd hy0 hm0 hd0 aG aW aU aV aQ, full _ rfl⟩
      · apply pass
        · rw [tJ']; simp
        · rw [Bool.and_assoc]; simp only [Bool.not_eq_true] at tMD; rw [tMD]; simp
        · rw [tY]; simp
  · have tY' : truthy aY = false := by simpa using tY
    by_cases hall : (!truthy aY && !truthy aG && !truthy aM && !truthy aD && !truthy aJ
        && !truthy aW && !truthy aU && !truthy aV) = true
    · simp only [Bool.and_eq_true, Bool.not_eq_true'] at hall
      obtain ⟨⟨⟨⟨⟨⟨⟨_, fG⟩, fM⟩, fD⟩, fJ⟩, _⟩, _⟩, fV⟩ := hall
      obtain ⟨nY, eY⟩ := hY.falsy tY'
      obtain ⟨nG, eG⟩ := hG.falsy fG
      obtain ⟨nM, eM⟩ := hM.falsy fM
      obtain ⟨nD, eD⟩ := hD.falsy fD
      obtain ⟨nJ, eJ⟩ := hJ.falsy fJ
      obtain ⟨nV, eV⟩ := hV.falsy fV
      rcases hanch with h | ⟨_, _, _, _, _, nW, nU, _, nQ⟩
      · rcases h with h | h | h | h | h | h
        · exact absurd h nY
        · exact absurd h nG
        · exact absurd h nM
        · exact absurd h nD
        · exact absurd h nJ
        · exact absurd h nV
      · have eW := hW.absent nW
        have eU := hU.absent nU
        have eQ := hQ.absent nQ
        subst eY eG eM eD eJ eV eW eU eQ
        obtain ⟨c', hc'⟩ := core_today today
        exact ⟨c', hc', fun h => absurd h nY, fun h => absurd h nG, fun h => absurd h nM,
          fun h => absurd h nJ, fun h => absurd h nD, fun h => absurd h nW, fun h => absurd h nU,
          fun h => absurd h nV, fun h => absurd h nQ⟩
    · apply pass
      · rw [tY']; simp
      · rw [tY']; simp
      · simpa using hall

theorem ordinal_bounds (y m d : Nat) (hd : validDate y m d = true) :
    1 ≤ ordinal y m d ∧ ordinal y m d ≤ maxOrdinal := by
  have hvd := hd
  simp only [validDate, Bool.and_eq_true, decide_eq_true_eq, daysInMonth] at hvd
  obtain ⟨⟨⟨⟨⟨hy1, hy2⟩, hm1⟩, hm12⟩, hd1⟩, hdm⟩ := hvd
  have hdm := of_decide_eq_true hdm
  have hd31 := daysInMonthL_le (isLeap y) m
  constructor
  · unfold ordinal; omega
  · have hmax : ordinal 9999 12 31 = maxOrdinal := by decide
    rw [← hmax]
    apply ordinal_le_of_date_le y m d 9999 12 31 hd (by decide)
    simp only [lexLe, Bool.or_eq_true, Bool.and_eq_true, decide_eq_true_eq, beq_iff_eq, and_true]
    omega

theorem dateFromDoy_of_valid (y m d : Nat) (hd : validDate y m d = true) :
    dateFromDoy y (dayOfYear y m d) = some (y, m, d) := by
  obtain ⟨h1, h2⟩ := ordinal_bounds y m d hd
  have := (doy_roundtrip (ordinal y m d) h1 h2).2.2
  rw [calInfoOrd_ordinal y m d hd, fromOrdinal_ordinal y m d hd] at this
  exact this

theorem ReadOf.mono {P : Prop} {a : Option Nat} {x : Nat} {nz nz' : Prop} (h : ReadOf P a x nz)
    (f : nz → nz') : ReadOf P a x nz' := by
  rcases h with h | ⟨hp, e, z⟩
  · exact .inl h
  · exact .inr ⟨hp, e, f z⟩

theorem map_yadj_other (k : Str) (a : Option Nat)
    (h : (k == "year_y".toList || k == "year_g".toList) = false) : a.map (yadj k) = a := by
  cases a with
  | none => rfl
  | some z => simp only [Option.map_some, yadj_other k z h]

theorem rc_read (v : VInfo) (p : Pat) (hnd : p.fields.Nodup) (hwf : Pat.wf p FSet.endOnly = true)
    (hv : Pat.vok v p = true) (k : String) (hkc : k.toList ∈ Gen.calFields) (cx : Nat)
    (hget : v.get k.toList = .nat cx) :
    ∃ a, intField (Pat.fv v p) k = .ok a ∧
      ReadOf (k.toList ∈ p.fields) (a.map (yadj k.toList)) cx (isAnchorField k.toList = true → cx ≠ 0) := by
  rcases rc_field v p hnd hwf hv k hkc with ⟨hn, hi⟩ | ⟨hp, x, z, hg, hi, hz, ha⟩
  · exact ⟨none, hi, .inl ⟨hn, rfl⟩⟩
  · rw [hget] at hg
    have e : cx = x := FV.nat.inj hg
    subst e
    exact ⟨some z, hi, .inr ⟨hp, by simp only [Option.map_some, hz], ha⟩⟩

theorem anchor_field_table : anchorPartNames.all (fun n =>
    match lookup n Gen.partFields with
    | some f => ["year_y".toList, "year_g".toList, "month".toList, "dom".toList, "doy".toList,
        "week_v".toList].contains f
    | none => false) = true := by decide

/-- a record whose calendar is `cal_info` of a valid date reads back, for every anchored pattern -/
theorem calReadsBack_of_date (p : Pat) (v : VInfo) (today : Nat × Nat × Nat) (y m d : Nat)
    (hd : validDate y m d = true) (hcal : v.cal = (calInfo y m d).toOpt)
    (hwf : Pat.wfTop p = true) (hv : Pat.vok v p = true) (ha : Pat.calAnchored p = true) :
    CalReadsBack p v today := by
  simp only [Pat.wfTop, Bool.and_eq_true] at hwf
  obtain ⟨hwf1, hnd0⟩ := hwf
  have hnd := (nodupStr_iff _).mp hnd0
  have gY : v.get "year_y".toList = .nat y := by
    show optNat v.cal.yearY = _; rw [hcal]; rfl
  have gG : v.get "year_g".toList = .nat (calInfo y m d).yearG := by
    show optNat v.cal.yearG = _; rw [hcal]; rfl
  have gQ : v.get "quarter".toList = .nat (calInfo y m d).quarter := by
    show optNat v.cal.quarter = _; rw [hcal]; rfl
  have gM : v.get "month".toList = .nat m := by
    show optNat v.cal.month = _; rw [hcal]; rfl
  have gD : v.get "dom".toList = .nat d := by
    show optNat v.cal.dom = _; rw [hcal]; rfl
  have gJ : v.get "doy".toList = .nat (dayOfYear y m d) := by
    show optNat v.cal.doy = _; rw [hcal]; rfl
  have gW : v.get "week_w".toList = .nat (calInfo y m d).weekW := by
    show optNat v.cal.weekW = _; rw [hcal]; rfl
  have gU : v.get "week_u".toList = .nat (calInfo y m d).weekU := by
    show optNat v.cal.weekU = _; rw [hcal]; rfl
  have gV : v.get "week_v".toList = .nat (calInfo y m d).weekV := by
    show optNat v.cal.weekV = _; rw [hcal]; rfl
  obtain ⟨a1, i1, r1⟩ := rc_read v p hnd hwf1 hv "year_y" (by decide) _ gY
  obtain ⟨a2, i2, r2⟩ := rc_read v p hnd hwf1 hv "year_g" (by decide) _ gG
  obtain ⟨a3, i3, r3⟩ := rc_read v p hnd hwf1 hv "month" (by decide) _ gM
  obtain ⟨a4, i4, r4⟩ := rc_read v p hnd hwf1 hv "doy" (by decide) _ gJ
  obtain ⟨a5, i5, r5⟩ := rc_read v p hnd hwf1 hv "dom" (by decide) _ gD
  obtain ⟨a6, i6, r6⟩ := rc_read v p hnd hwf1 hv "week_w" (by decide) _ gW
  obtain ⟨a7, i7, r7⟩ := rc_read v p hnd hwf1 hv "week_u" (by decide) _ gU
  obtain ⟨a8, i8, r8⟩ := rc_read v p hnd hwf1 hv "week_v" (by decide) _ gV
  obtain ⟨a9, i9, r9⟩ := rc_read v p hnd hwf1 hv "quarter" (by decide) _ gQ
  rw [map_yadj_other _ _ (by decide)] at r3 r4 r5 r6 r7 r8 r9
  have hpc := parseCinfo_eq (Pat.fv v p) today a1 a2 a3 a4 a5 a6 a7 a8 a9 i1 i2 i3 i4 i5 i6 i7 i8 i9
  -- anchoring
  have hanch : ("year_y".toList ∈ p.fields ∨ "year_g".toList ∈ p.fields ∨ "month".toList ∈ p.fields ∨
      "dom".toList ∈ p.fields ∨ "doy".toList ∈ p.fields ∨ "week_v".toList ∈ p.fields) ∨
      (¬ "year_y".toList ∈ p.fields ∧ ¬ "year_g".toList ∈ p.fields ∧ ¬ "month".toList ∈ p.fields ∧
       ¬ "doy".toList ∈ p.fields ∧ ¬ "dom".toList ∈ p.fields ∧ ¬ "week_w".toList ∈ p.fields ∧
       ¬ "week_u".toList ∈ p.fields ∧ ¬ "week_v".toList ∈ p.fields ∧ ¬ "quarter".toList ∈ p.fields) := by
    simp only [Pat.calAnchored, Bool.or_eq_true, List.any_eq_true, List.all_eq_true,
      Bool.not_eq_true'] at ha
    rcases ha with ⟨n, hn, han⟩ | hno
    · left
      have ht := anchor_field_table
      rw [List.all_eq_true] at ht
      have := ht n (by simpa using han)
      cases hf : lookup n Gen.partFields with
      | none => rw [hf] at this; cases this
      | some f =>
        rw [hf] at this
        have hfp : f ∈ p.fields := List.mem_filterMap.mpr ⟨n, hn, hf⟩
        simp only [List.contains_iff_mem, List.mem_cons, List.not_mem_nil, or_false] at this
        rcases this with rfl | rfl | rfl | rfl | rfl | rfl
        · exact .inl hfp
        · exact .inr (.inl hfp)
        · exact .inr (.inr (.inl hfp))
        · exact .inr (.inr (.inr (.inl hfp)))
        · exact .inr (.inr (.inr (.inr (.inl hfp))))
        · exact .inr (.inr (.inr (.inr (.inr hfp))))
    · right
      have key : ∀ f, f ∈ Gen.calFields → ¬ f ∈ p.fields := by
        intro f hfc hfp
        obtain ⟨n, hn, hf⟩ := List.mem_filterMap.mp hfp
        have := calField_part n f (wf_parts p _ hwf1 n hn) hf hfc
        rw [hno n hn] at this; cases this
      exact ⟨key _ (by decide), key _ (by decide), key _ (by decide), key _ (by decide),
        key _ (by decide), key _ (by decide), key _ (by decide), key _ (by decide), key _ (by decide)⟩
  obtain ⟨c', hc', cY, cG, cM, cJ, cD, cW, cU, cV, cQ⟩ := core_reads y m d today hd
    (dateFromDoy_of_valid y m d hd) _ _ _ _ _ _ _ _ _ _ _ _ _ _ _ _ _ _
    (r1.mono (fun h => h (by decide))) (r2.mono (fun h => h (by decide)))
    (r3.mono (fun h => h (by decide))) (r4.mono (fun h => h (by decide)))
    (r5.mono (fun h => h (by decide))) (r6.mono (fun _ => trivial)) (r7.mono (fun _ => trivial))
    (r8.mono (fun h => h (by decide))) (r9.mono (fun _ => trivial)) hanch
  refine ⟨c', hpc.trans hc', ?_⟩
  intro n hn hcp
  obtain ⟨f, hf, hfc⟩ := calPart_field n hcp
  have hfp : f ∈ p.fields := List.mem_filterMap.mpr ⟨n, hn, hf⟩
  apply partText_congr_get n f hf
  simp only [Gen.calFields, List.mem_cons, List.not_mem_nil, or_false] at hfc
  rcases hfc with rfl | rfl | rfl | rfl | rfl | rfl | rfl | rfl | rfl
  · rw [gY]; show optNat c'.yearY = _; rw [cY hfp]; rfl
  · rw [gG]; show optNat c'.yearG = _; rw [cG hfp]; rfl
  · rw [gQ]; show optNat c'.quarter = _; rw [cQ hfp]; rfl
  · rw [gM]; show optNat c'.month = _; rw [cM hfp]; rfl
  · rw [gD]; show optNat c'.dom = _; rw [cD hfp]; rfl
  · rw [gJ]; show optNat c'.doy = _; rw [cJ hfp]; rfl
  · rw [gW]; show optNat c'.weekW = _; rw [cW hfp]; rfl
  · rw [gU]; show optNat c'.weekU = _; rw [cU hfp]; rfl
  · rw [gV]; show optNat c'.weekV = _; rw [cV hfp]; rfl

/-! ### `parse_field_values_to_vinfo` in stages -/

def rbTagStep (tag0 pytag0 : Str) : Except PErr (Str × Str) :=
    if !tag0.isEmpty && pytag0.isEmpty then
      match lookup tag0 Gen.pep440TagByTag with
      | some p => pure (tag0, p)
      | none => throw .keyError
    else if !pytag0.isEmpty && tag0.isEmpty then
      match lookup pytag0 Gen.tagByPep440Tag with
      | some t => pure (t, pytag0)
      | none => throw .keyError
    else pure (tag0, pytag0)

def rbBidStep (fv : FVals) : Except PErr Str :=
  match lookup "bid".toList fv with
    | none => pure "1000".toList
    | some (some s) => pure s
    | some none => pure "1000".toList

theorem parseVinfo_unfold (fv : FVals) (today : Nat × Nat × Nat) :
    parseVinfo fv today =
      (parseCinfo fv today >>= fun cal =>
        rbTagStep (strField fv "tag") (strField fv "pytag") >>= fun tp =>
          rbBidStep fv >>= fun b => pure {
            cal := cal, major := intFieldOr fv "major" 0, minor := intFieldOr fv "minor" 0,
            patch := intFieldOr fv "patch" 0, bid := b, tag := (if tp.1.isEmpty then "final".toList else tp.1),
            pytag := tp.2,
            num := intFieldOr fv "num" 0, inc0 := intFieldOr fv "inc0" 0, inc1 := intFieldOr fv "inc1" 1 }) := by
  unfold parseVinfo rbTagStep rbBidStep
  cases parseCinfo fv today with
  | error e => rfl
  | ok c =>
    by_cases h1 : (!(strField fv "tag").isEmpty && (strField fv "pytag").isEmpty) = true
    · simp only [h1, if_true]
      cases lookup (strField fv "tag") Gen.pep440TagByTag with
      | none => rfl
      | some p => 
        cases lookup "bid".toList fv with
        | none => rfl
        | some o => cases o <;> rfl
    · simp only [h1]
      by_cases h2 : (!(strField fv "pytag").isEmpty && (strField fv "tag").isEmpty) = true
      · simp only [h2, if_true]
        cases lookup (strField fv "pytag") Gen.tagByPep440Tag with
        | none => rfl
        | some p =>
          cases lookup "bid".toList fv with
          | none => rfl
          | some o => cases o <;> rfl
      · simp only [h2]
        cases lookup "bid".toList fv with
        | none => rfl
        | some o => cases o <;> rfl

theorem parseVinfo_eq (fv : FVals) (today : Nat × Nat × Nat) (c' : CalOpt) (t1 p1 b : Str)
    (hc : parseCinfo fv today = .ok c') (ht : rbTagStep (strField fv "tag") (strField fv "pytag") = .ok (t1, p1))
    (hb : rbBidStep fv = .ok b) :
    parseVinfo fv today = .ok {
         cal := c', major := intFieldOr fv "major" 0, minor := intFieldOr fv "minor" 0,
         patch := intFieldOr fv "patch" 0, bid := b, tag := (if t1.isEmpty then "final".toList else t1), pytag := p1,
         num := intFieldOr fv "num" 0, inc0 := intFieldOr fv "inc0" 0, inc1 := intFieldOr fv "inc1" 1 } := by
  rw [parseVinfo_unfold, hc, ht, hb]
  rfl

theorem partOk_TAG (v : VInfo) : partOk v "TAG".toList = tagOk v := rfl
theorem partOk_PYTAG (v : VInfo) : partOk v "PYTAG".toList = pytagOk v := rfl
theorem partOk_BUILD (v : VInfo) : partOk v "BUILD".toList = isDigitStr v.bid := rfl
theorem partOk_BLD (v : VInfo) : partOk v "BLD".toList = (isDigitStr v.bid && decide (1 ≤ strToNat v.bid)) := rfl

theorem field_part_unique (f : Str) (ns : List Str)
    (htab : Gen.partFields.all (fun nf => nf.2 != f || ns.contains nf.1) = true) (n : Str)
    (h : lookup n Gen.partFields = some f) : n ∈ ns := by
  have hm := lookup_mem_cl n _ f h
  rw [List.all_eq_true] at htab
  have := htab _ hm
  simpa using this

theorem tag_tables : Gen.validReleaseTagValues.all (fun t => !t.isEmpty &&
    match lookup t Gen.pep440TagByTag with
    | some p => p.isEmpty || (lookup p Gen.tagByPep440Tag).isSome
    | none => false) = true := by decide

theorem tagOk_facts (v : VInfo) (h : tagOk v = true) :
    v.tag ≠ [] ∧ ∃ p, lookup v.tag Gen.pep440TagByTag = some p ∧
      (p ≠ [] → (lookup p Gen.tagByPep440Tag).isSome = true) := by
  have ht := tag_tables
  rw [List.all_eq_true] at ht
  have := ht v.tag (by simpa [tagOk] using h)
  simp only [Bool.and_eq_true, Bool.not_eq_true', List.isEmpty_eq_false_iff] at this
  refine ⟨this.1, ?_⟩
  cases hl : lookup v.tag Gen.pep440TagByTag with
  | none => rw [hl] at this; exact absurd this.2 (by simp)
  | some p =>
    rw [hl] at this
    refine ⟨p, rfl, fun hne => ?_⟩
    have h2 := this.2
    simp only [Bool.or_eq_true, List.isEmpty_iff] at h2
    rcases h2 with h2 | h2
    · exact absurd h2 hne
    · exact h2

theorem pf_TAG : lookup "TAG".toList Gen.partFields = some "tag".toList := by decide
theorem pf_PYTAG : lookup "PYTAG".toList Gen.partFields = some "pytag".toList := by decide
theorem pf_BUILD : lookup "BUILD".toList Gen.partFields = some "bid".toList := by decide
theorem pf_BLD : lookup "BLD".toList Gen.partFields = some "bid".toList := by decide

/-- a string field whose only part is not rendered reads as the empty string -/
theorem strField_unrendered (v : VInfo) (p : Pat) (hnd : p.fields.Nodup) (k : String) (n0 : Str)
    (huniq : ∀ n, lookup n Gen.partFields = some k.toList → n = n0)
    (h : (n0, true) ∉ Pat.slots v p) : strField (Pat.fv v p) k = [] := by
  by_cases hf : k.toList ∈ p.fields
  · obtain ⟨n, b, hm, hnf⟩ := fields_slot v p _ hf
    have := huniq n hnf
    subst this
    cases b with
    | true => exact absurd hm h
    | false =>
      have := fv_lookup v p hnd n false _ hm hnf
      exact strField_omitted _ k this
  · exact strField_absent _ k (fv_lookup_none v p _ hf)

theorem tag_unique (n : Str) (h : lookup n Gen.partFields = some "tag".toList) : n = "TAG".toList := by
  have := field_part_unique "tag".toList ["TAG".toList] (by decide) n h
  simpa using this

theorem pytag_unique (n : Str) (h : lookup n Gen.partFields = some "pytag".toList) : n = "PYTAG".toList := by
  have := field_part_unique "pytag".toList ["PYTAG".toList] (by decide) n h
  simpa using this

theorem zero_TAG (v : VInfo) (h : partIsZero v "TAG".toList = true) : v.tag = "final".toList := by
  simp only [partIsZero, partText_TAG] at h
  have hz : lookup "TAG".toList Gen.partZeroValues = some "final".toList := by decide
  simp only [isZeroVal, hz, beq_iff_eq] at h
  exact h

theorem zero_PYTAG (v : VInfo) (h : partIsZero v "PYTAG".toList = true) : v.pytag = [] := by
  simp only [partIsZero, partText_PYTAG] at h
  have hz : lookup "PYTAG".toList Gen.partZeroValues = some [] := by decide
  simp only [isZeroVal, hz, beq_iff_eq] at h
  exact h

/-- the tag / pytag step of reading back -/
theorem rb_tag (v : VInfo) (p : Pat) (hnd : p.fields.Nodup) (hv : Pat.vok v p = true)
    (htc : tagCoh v = true) :
    ∃ t1 p1, rbTagStep (strField (Pat.fv v p) "tag") (strField (Pat.fv v p) "pytag") = .ok (t1, p1) ∧
      (("TAG".toList, true) ∈ Pat.slots v p → (if t1.isEmpty then "final".toList else t1) = v.tag) ∧
      (("TAG".toList, false) ∈ Pat.slots v p → (if t1.isEmpty then "final".toList else t1) = "final".toList) ∧
      (("PYTAG".toList, true) ∈ Pat.slots v p → p1 = v.pytag) ∧
      (("PYTAG".toList, false) ∈ Pat.slots v p → p1 = []) := by
  have A2 : ("TAG".toList, false) ∈ Pat.slots v p → v.tag = "final".toList :=
    fun h => zero_TAG v (slots_false_zero v p _ h)
  have B2 : ("PYTAG".toList, false) ∈ Pat.slots v p → v.pytag = [] :=
    fun h => zero_PYTAG v (slots_false_zero v p _ h)
  by_cases hT : ("TAG".toList, true) ∈ Pat.slots v p
  · have htag0 : strField (Pat.fv v p) "tag" = v.tag := by
      have := fv_lookup v p hnd _ true _ hT pf_TAG
      rw [if_pos rfl, partText_TAG] at this
      exact strField_some _ "tag" _ this
    have hok : tagOk v = true := by rw [← partOk_TAG]; exact slots_true_ok v p hv _ hT
    obtain ⟨hne, pp, hpp, _⟩ := tagOk_facts v hok
    have hne' : v.tag.isEmpty = false := by simpa using hne
    by_cases hP : ("PYTAG".toList, true) ∈ Pat.slots v p
    · have hpy0 : strField (Pat.fv v p) "pytag" = v.pytag := by
        have := fv_lookup v p hnd _ true _ hP pf_PYTAG
        rw [if_pos rfl, partText_PYTAG] at this
        exact strField_some _ "pytag" _ this
      have hpok : pytagOk v = true := by rw [← partOk_PYTAG]; exact slots_true_ok v p hv _ hP
      have hpne : v.pytag.isEmpty = false := by
        simp only [pytagOk, Bool.and_eq_true, Bool.not_eq_true'] at hpok; exact hpok.2
      refine ⟨v.tag, v.pytag, ?_, ?_, ?_, ?_, ?_⟩
      · rw [htag0, hpy0]; simp [rbTagStep, hne', hpne]; rfl
      · intro _; simp [hne']
      · intro h; rw [A2 h]; rfl
      · intro _; rfl
      · intro h; exact B2 h
    · have hpy0 : strField (Pat.fv v p) "pytag" = [] :=
        strField_unrendered v p hnd "pytag" _ pytag_unique hP
      refine ⟨v.tag, pp, ?_, ?_, ?_, ?_, ?_⟩
      · rw [htag0, hpy0]; simp [rbTagStep, hne', hpp]; rfl
      · intro _; simp [hne']
      · intro h; rw [A2 h]; rfl
      · intro h; exact absurd h hP
      · intro h
        have hpe := B2 h
        simp only [tagCoh, hpe, List.isEmpty_nil, Bool.not_true, Bool.false_or, beq_iff_eq] at htc
        rw [htc] at hpp
        have : lookup "final".toList Gen.pep440TagByTag = some [] := by decide
        rw [this] at hpp
        exact (Option.some.inj hpp).symm
  · have htag0 : strField (Pat.fv v p) "tag" = [] :=
      strField_unrendered v p hnd "tag" _ tag_unique hT
    by_cases hP : ("PYTAG".toList, true) ∈ Pat.slots v p
    · have hpy0 : strField (Pat.fv v p) "pytag" = v.pytag := by
        have := fv_lookup v p hnd _ true _ hP pf_PYTAG
        rw [if_pos rfl, partText_PYTAG] at this
        exact strField_some _ "pytag" _ this
      have hpok : pytagOk v = true := by rw [← partOk_PYTAG]; exact slots_true_ok v p hv _ hP
      simp only [pytagOk, Bool.and_eq_true, Bool.not_eq_true', beq_iff_eq] at hpok
      obtain ⟨⟨hok, hlk⟩, hpne⟩ := hpok
      obtain ⟨hne, pp, hpp, hsome⟩ := tagOk_facts v hok
      rw [hlk] at hpp
      have hpp := Option.some.inj hpp
      subst hpp
      have hpne' : v.pytag ≠ [] := by simpa using hpne
      have hs := hsome hpne'
      cases hl : lookup v.pytag Gen.tagByPep440Tag with
      | none => rw [hl] at hs; cases hs
      | some t =>
        refine ⟨t, v.pytag, ?_, ?_, ?_, ?_, ?_⟩
        · rw [htag0, hpy0]; simp [rbTagStep, hpne, hl]; rfl
        · intro h; exact absurd h hT
        · intro h
          have := A2 h
          rw [this] at hlk
          have hf : lookup "final".toList Gen.pep440TagByTag = some [] := by decide
          rw [hf] at hlk
          exact absurd (Option.some.inj hlk).symm hpne'
        · intro _; rfl
        · intro h; exact B2 h
    · have hpy0 : strField (Pat.fv v p) "pytag" = [] :=
        strField_unrendered v p hnd "pytag" _ pytag_unique hP
      refine ⟨[], [], ?_, ?_, ?_, ?_, ?_⟩
      · rw [htag0, hpy0]; rfl
      · intro h; exact absurd h hT
      · intro _; rfl
      · intro h; exact absurd h hP
      · intro _; rfl

theorem bid_parts (n : Str) (h : lookup n Gen.partFields = some "bid".toList) :
    n = "BUILD".toList ∨ n = "BLD".toList := by
  have := field_part_unique "bid".toList ["BUILD".toList, "BLD".toList] (by decide) n h
  simpa using this

/-- the build-id step of reading back -/
theorem rb_bid (v : VInfo) (p : Pat) (hnd : p.fields.Nodup) :
    ∃ b, rbBidStep (Pat.fv v p) = .ok b ∧
      (("BUILD".toList, true) ∈ Pat.slots v p → b = v.bid) ∧
      (("BLD".toList, true) ∈ Pat.slots v p → b = natToStr (strToNat v.bid)) := by
  unfold rbBidStep
  cases hl : lookup "bid".toList (Pat.fv v p) with
  | none =>
    refine ⟨"1000".toList, rfl, fun h => ?_, fun h => ?_⟩
    · have := fv_lookup v p hnd _ true _ h pf_BUILD
      rw [hl] at this; cases this
    · have := fv_lookup v p hnd _ true _ h pf_BLD
      rw [hl] at this; cases this
  | some o =>
    cases o with
    | none =>
      exfalso
      have hf : "bid".toList ∈ p.fields := by
        apply Classical.byContradiction
        intro hf
        rw [fv_lookup_none v p _ hf] at hl; cases hl
      obtain ⟨n, b, hm, hnf⟩ := fields_slot v p _ hf
      have hlk := fv_lookup v p hnd n b _ hm hnf
      rw [hl] at hlk
      cases b with
      | true =>
        rw [if_pos rfl] at hlk
        rcases bid_parts n hnf with rfl | rfl
        · rw [partText_BUILD] at hlk; cases hlk
        · rw [partText_BLD] at hlk; cases hlk
      | false =>
        have hz := zero_parts v n (slots_false_zero v p n hm)
        rcases bid_parts n hnf with rfl | rfl
        · exact absurd hz (by decide)
        · exact absurd hz (by decide)
    | some s =>
      refine ⟨s, rfl, fun h => ?_, fun h => ?_⟩
      · have := fv_lookup v p hnd _ true _ h pf_BUILD
        rw [hl, if_pos rfl, partText_BUILD] at this
        exact Option.some.inj (Option.some.inj this)
      · have := fv_lookup v p hnd _ true _ h pf_BLD
        rw [hl, if_pos rfl, partText_BLD] at this
        exact Option.some.inj (Option.some.inj this)

/-- a numeric field: read back when rendered, the default when omitted -/
theorem rb_nat (v : VInfo) (p : Pat) (hnd : p.fields.Nodup) (n : Str) (k : String) (get : VInfo → Nat)
    (hf : lookup n Gen.partFields = some k.toList) (hkd : lookup n Gen.partFormats = some .str)
    (hget : ∀ v : VInfo, v.get k.toList = .nat (get v)) (d : Nat) :
    ((n, true) ∈ Pat.slots v p → intFieldOr (Pat.fv v p) k d = get v) ∧
    ((n, false) ∈ Pat.slots v p → intFieldOr (Pat.fv v p) k d = d) := by
  constructor
  · intro h
    have := fv_lookup v p hnd _ true _ h hf
    rw [if_pos rfl, partText_nat n _ get hf hkd hget] at this
    exact intFieldOr_some _ k _ d this
  · intro h
    have := fv_lookup v p hnd _ false _ h hf
    exact intFieldOr_omitted _ k d this

/-- READ BACK: the group dictionary of the rendered text parses to a record that agrees with `v` on
    every part of the pattern -/
theorem readback (p : Pat) (v : VInfo) (today : Nat × Nat × Nat) (hwf : Pat.wfTop p = true)
    (hv : Pat.vok v p = true) (htc : tagCoh v = true) (hc : CalReadsBack p v today) :
    ∃ v', parseVinfo (Pat.fv v p) today = .ok v' ∧ Pat.agree v v' p = true := by
  obtain ⟨c', hpc, hcal⟩ := hc
  simp only [Pat.wfTop, Bool.and_eq_true] at hwf
  obtain ⟨hwf1, hnd0⟩ := hwf
  have hnd := (nodupStr_iff _).mp hnd0
  obtain ⟨t1, p1, htag, hT1, hT0, hP1, hP0⟩ := rb_tag v p hnd hv htc
  obtain ⟨b, hbid, hB1, hB2⟩ := rb_bid v p hnd
  have hMAJ := rb_nat v p hnd "MAJOR".toList "major" (·.major) (by decide) (by decide) (fun _ => rfl) 0
  have hMIN := rb_nat v p hnd "MINOR".toList "minor" (·.minor) (by decide) (by decide) (fun _ => rfl) 0
  have hPAT := rb_nat v p hnd "PATCH".toList "patch" (·.patch) (by decide) (by decide) (fun _ => rfl) 0
  have hNUM := rb_nat v p hnd "NUM".toList "num" (·.num) (by decide) (by decide) (fun _ => rfl) 0
  have hI0 := rb_nat v p hnd "INC0".toList "inc0" (·.inc0) (by decide) (by decide) (fun _ => rfl) 0
  have hI1 := rb_nat v p hnd "INC1".toList "inc1" (·.inc1) (by decide) (by decide) (fun _ => rfl) 1
  refine ⟨_, parseVinfo_eq _ today c' t1 p1 b hpc htag hbid, ?_⟩
  apply agree_of_slots
  · intro n hm
    have hnp : n ∈ p.parts := by
      rw [← slots_parts v p]; exact List.mem_map.mpr ⟨(n, true), hm, rfl⟩
    have hmem := lookup_isSome_mem n partDoms (wf_parts p _ hwf1 n hnp)
    simp only [partDoms, List.map_cons, List.map_nil, List.mem_cons, List.not_mem_nil, or_false] at hmem
    rcases hmem with rfl | rfl | rfl | rfl | rfl | rfl | rfl | rfl | rfl | rfl | rfl | rfl | rfl |
      rfl | rfl | rfl | rfl | rfl | rfl | rfl | rfl | rfl | rfl | rfl | rfl | rfl | rfl | rfl | rfl
    iterate 19
      exact (partText_cal _ (by decide) _ { v with cal := c' } rfl).trans (hcal _ hnp (by decide))
    · rw [partText_nat _ "major".toList (·.major) (by decide) (by decide) (fun _ => rfl),
        partText_nat _ "major".toList (·.major) (by decide) (by decide) (fun _ => rfl)]
      exact congrArg (fun x => some (natToStr x)) (hMAJ.1 hm)
    · rw [partText_nat _ "minor".toList (·.minor) (by decide) (by decide) (fun _ => rfl),
        partText_nat _ "minor".toList (·.minor) (by decide) (by decide) (fun _ => rfl)]
      exact congrArg (fun x => some (natToStr x)) (hMIN.1 hm)
    · rw [partText_nat _ "patch".toList (·.patch) (by decide) (by decide) (fun _ => rfl),
        partText_nat _ "patch".toList (·.patch) (by decide) (by decide) (fun _ => rfl)]
      exact congrArg (fun x => some (natToStr x)) (hPAT.1 hm)
    · rw [partText_nat _ "num".toList (·.num) (by decide) (by decide) (fun _ => rfl),
        partText_nat _ "num".toList (·.num) (by decide) (by decide) (fun _ => rfl)]
      exact congrArg (fun x => some (natToStr x)) (hNUM.1 hm)
    · rw [partText_nat _ "inc0".toList (·.inc0) (by decide) (by decide) (fun _ => rfl),
        partText_nat _ "inc0".toList (·.inc0) (by decide) (by decide) (fun _ => rfl)]
      exact congrArg (fun x => some (natToStr x)) (hI0.1 hm)
    · rw [partText_nat _ "inc1".toList (·.inc1) (by decide) (by decide) (fun _ => rfl),
        partText_nat _ "inc1".toList (·.inc1) (by decide) (by decide) (fun _ => rfl)]
      exact congrArg (fun x => some (natToStr x)) (hI1.1 hm)
    · rw [partText_BUILD, partText_BUILD]
      exact congrArg some (hB1 hm)
    · rw [partText_BLD, partText_BLD]
      show some (natToStr (strToNat b)) = _
      rw [hB2 hm, strToNat_natToStr]
    · rw [partText_TAG, partText_TAG]
      exact congrArg some (hT1 hm)
    · rw [partText_PYTAG, partText_PYTAG]
      exact congrArg some (hP1 hm)
  · intro n hm
    have hz := zero_parts v n (slots_false_zero v p n hm)
    simp only [Gen.partZeroValues, List.map_cons, List.map_nil, List.mem_cons, List.not_mem_nil,
      or_false] at hz
    rcases hz with rfl | rfl | rfl | rfl | rfl | rfl | rfl
    · unfold partIsZero
      rw [partText_nat _ "major".toList (·.major) (by decide) (by decide) (fun _ => rfl)]
      show isZeroVal _ (natToStr (intFieldOr (Pat.fv v p) "major" 0)) = true
      rw [hMAJ.2 hm]; decide
    · unfold partIsZero
      rw [partText_nat _ "minor".toList (·.minor) (by decide) (by decide) (fun _ => rfl)]
      show isZeroVal _ (natToStr (intFieldOr (Pat.fv v p) "minor" 0)) = true
      rw [hMIN.2 hm]; decide
    · unfold partIsZero
      rw [partText_nat _ "patch".toList (·.patch) (by decide) (by decide) (fun _ => rfl)]
      show isZeroVal _ (natToStr (intFieldOr (Pat.fv v p) "patch" 0)) = true
      rw [hPAT.2 hm]; decide
    · unfold partIsZero
      rw [partText_TAG]
      show isZeroVal _ (if t1.isEmpty then "final".toList else t1) = true
      rw [hT0 hm]; decide
    · unfold partIsZero
      rw [partText_PYTAG]
      show isZeroVal _ p1 = true
      rw [hP0 hm]; decide
    · unfold partIsZero
      rw [partText_nat _ "num".toList (·.num) (by decide) (by decide) (fun _ => rfl)]
      show isZeroVal _ (natToStr (intFieldOr (Pat.fv v p) "num" 0)) = true
      rw [hNUM.2 hm]; decide
    · unfold partIsZero
      rw [partText_nat _ "inc0".toList (·.inc0) (by decide) (by decide) (fun _ => rfl)]
      show isZeroVal _ (natToStr (intFieldOr (Pat.fv v p) "inc0" 0)) = true
      rw [hI0.2 hm]; decide

/-- THE ROUND TRIP on the pattern tree -/
theorem roundtrip_ast (p : Pat) (v : VInfo) (r : Re) (today : Nat × Nat × Nat)
    (hwf : Pat.wfTop p = true) (hv : Pat.vok v p = true) (htc : tagCoh v = true)
    (hc : CalReadsBack p v today) (hr : Pat.compile p = some r) :
    ∃ v', parseWithRe r (Pat.render v p) today = .ok v' ∧ Pat.agree v v' p = true ∧
      Pat.render v' p = Pat.render v p := by
  obtain ⟨v', hp, ha⟩ := readback p v today hwf hv htc hc
  refine ⟨v', ?_, ha, (render_of_agree v v' p ha).2⟩
  have hwf' : Pat.wf p FSet.endOnly = true := by
    simp only [Pat.wfTop, Bool.and_eq_true] at hwf; exact hwf.1
  unfold parseWithRe
  rw [compose_match v p r hwf' hv hr]
  simp only [Nat.lt_irrefl, if_false]
  rw [groupdict_compose v p r hwf hr, hp]

/-! ### `tagCoh` is an invariant of everything that is read or bumped -/

theorem pep440_empty_table : Gen.pep440TagByTag.all (fun tp => !tp.2.isEmpty || tp.1 == "final".toList) = true := by
  decide

theorem pep440_empty (t p : Str) (h : lookup t Gen.pep440TagByTag = some p) :
    (!p.isEmpty || t == "final".toList) = true := by
  have ht := pep440_empty_table
  rw [List.all_eq_true] at ht
  exact ht _ (lookup_mem_cl t _ p h)

theorem rbTagStep_coh (t0 p0 t1 p1 : Str) (h : rbTagStep t0 p0 = .ok (t1, p1)) :
    (!p1.isEmpty || (if t1.isEmpty then "final".toList else t1) == "final".toList) = true := by
  unfold rbTagStep at h
  split at h
  · next hc =>
    simp only [Bool.and_eq_true, Bool.not_eq_true'] at hc
    cases hl : lookup t0 Gen.pep440TagByTag with
    | none => rw [hl] at h; cases h
    | some p =>
      rw [hl] at h
      have e := Except.ok.inj h
      simp only [Prod.mk.injEq] at e
      obtain ⟨rfl, rfl⟩ := e
      rw [hc.1]
      exact pep440_empty _ _ hl
  · split at h
    · next hc =>
      simp only [Bool.and_eq_true, Bool.not_eq_true'] at hc
      cases hl : lookup p0 Gen.tagByPep440Tag with
      | none => rw [hl] at h; cases h
      | some t =>
        rw [hl] at h
        have e := Except.ok.inj h
        simp only [Prod.mk.injEq] at e
        obtain ⟨rfl, rfl⟩ := e
        rw [hc.1]; rfl
    · next hc1 hc2 =>
      have e := Except.ok.inj h
      simp only [Prod.mk.injEq] at e
      obtain ⟨rfl, rfl⟩ := e
      cases hp : p0.isEmpty with
      | false => rfl
      | true =>
        cases ht : t0.isEmpty with
        | true => rfl
        | false => simp [hp, ht] at hc1

/-- every record `parse_field_values_to_vinfo` returns is tag / pytag coherent -/
theorem parseVinfo_tagCoh (fv : FVals) (today : Nat × Nat × Nat) (v : VInfo)
    (h : parseVinfo fv today = .ok v) : tagCoh v = true := by
  rw [parseVinfo_unfold] at h
  cases hc : parseCinfo fv today with
  | error e => rw [hc] at h; cases h
  | ok c =>
    cases ht : rbTagStep (strField fv "tag") (strField fv "pytag") with
    | error e => rw [hc, ht] at h; cases h
    | ok tp =>
      cases hb : rbBidStep fv with
      | error e => rw [hc, ht, hb] at h; cases h
      | ok b =>
        rw [hc, ht, hb] at h
        have e := Except.ok.inj h
        subst e
        obtain ⟨t1, p1⟩ := tp
        exact rbTagStep_coh _ _ t1 p1 ht

/-- `_incr_numeric` keeps tag / pytag coherence -/
theorem incrNumeric_tagCoh (fs : List Str) (old cur new : VInfo) (fl : IncrFlags)
    (htc : tagCoh cur = true) (h : incrNumeric fs old cur fl = .ok new) : tagCoh new = true := by
  obtain ⟨b, tg, pt, _, hcase, hnew⟩ := incrNumeric_ok fs old cur fl new h
  have htag : new.tag = tg := by
    rcases resetRolloverFields_get_cases fs old _ "tag".toList with e | ⟨init, hi, _⟩
    · rw [← hnew] at e
      exact FV.str.inj e
    · have hn : lookup "tag".toList Gen.fieldInitialValues = none := by decide
      rw [hn] at hi; cases hi
  have hpy : new.pytag = pt := by
    rcases resetRolloverFields_get_cases fs old _ "pytag".toList with e | ⟨init, hi, _⟩
    · rw [← hnew] at e
      exact FV.str.inj e
    · have hn : lookup "pytag".toList Gen.fieldInitialValues = none := by decide
      rw [hn] at hi; cases hi
  unfold tagCoh
  rw [htag, hpy]
  rcases hcase with ⟨_, rfl, rfl⟩ | ⟨_, _, hl⟩
  · exact htc
  · exact pep440_empty _ _ hl

end BV
