/-
  Proofs/Tie_formatVersion.lean — the definition GENERATED from the Python source of `v2version.format_version`
  (Gen/F_formatVersion.lean: it calls the generated `_format_part_values`, `_parse_segtree` and
  `_format_segment_tree(…, is_root=True)`) equals the hand model `BV.formatVersion` for EVERY version info and EVERY
  raw pattern — no hypothesis: the "no empty part name" condition of `tie_formatSegment` is discharged by
  `formatPartValues_keys_ne` (the keys are those of the generated table `Gen.partFields`).

  Exceptions: Python raises ValueError exactly when the model returns `.error` (always `.valueError`, from the pattern's
  brackets), never anything else.
-/
import BumpverVerif.Gen.F_formatVersion
import BumpverVerif.Proofs.Tie_formatPartValues
import BumpverVerif.Proofs.Tie_parseSegtree
import BumpverVerif.Proofs.Tie_formatSegmentTree
namespace BV.TieF
open GenF GenF.FP

theorem _root_.BV.tie_formatVersion (v : VInfo) (raw : Str) : GenF.formatVersion v raw = absE (formatVersion v raw) := by
  simp only [GenF.formatVersion, tie_formatPartValues, bindE_ok, tie_parseSegtree, formatVersion]
  cases parseSegtree raw with
  | error e => simp [absE]
  | ok items =>
    simp only [absE, bindE_ok]
    first
      | rw [tie_formatSegmentTree_root items _ (formatPartValues_keys_ne v)]
      | simp [tie_formatSegmentTree_root items _ (formatPartValues_keys_ne v)]

/-- success: the same string -/
theorem _root_.BV.tie_formatVersion_ok (v : VInfo) (raw s : Str) :
    GenF.formatVersion v raw = .ok s ↔ formatVersion v raw = .ok s := by
  rw [tie_formatVersion]
  cases formatVersion v raw <;> simp [absE]

end BV.TieF
