/-
  Proofs/Tie_cmdIsValidVersion.lean — `cli._is_valid_version` translated INTO THE COMMAND MONAD
  (Gen/F_cmdIsValidVersion.lean, harness/translate_commands.py): here `vcs.get_tags(...)` is not a parameter (as in
  the pure translation Gen/F_isValidVersion.lean of translate_cli.py) but the CALL of the generated
  `GenE.getTags` — so the tie also says WHEN the VCS is asked, and what the trace looks like.

    tie_cmdIsValidVersion_new     for a pattern without braces and all inputs, environments and states:
        the result is that of `TieL.gateCmd`: the two tests of `BV.gate … (unique := false) []` first
        (full match through the pattern, strictly greater — no VCS invocation, state unchanged); ONLY when both
        pass and `unique` holds, ONE call `get_tags(fetch=False, scope=GLOBAL)` (its events, its exception),
        then the membership test among the valid tags (`BV.parseVersionTags`).
    cmdIsValidVersion_gate         the same in terms of the model's `gate … unique tags` for the tags served.
    tie_cmdIsValidVersion_legacy   the same for a pattern with braces (`BV.v1Gate`).
-/
import BumpverVerif.Gen.F_cmdIsValidVersion
import BumpverVerif.Proofs.CmdLemmas
import BumpverVerif.Proofs.Tie_isValidVersion
set_option linter.unusedSimpArgs false
namespace BV
namespace TieL

attribute [local irreducible] isValid parseVersionInfo v1IsValid v1ParseVersionInfo

/-- the uniqueness half of the gate, run as a command: the tag listing of ALL branches without fetching, then
    "is the candidate among the valid version tags?" (`check tags` answers `True` when it is not) -/
def uniqueCmd (check : List Str → Except CStop Bool) : Cmd Bool := fun ce s =>
  match GenE.getTags false .GLOBAL ce.eff s.p with
  | (p', .error x) => ({ s with p := p' }, .error (.eff x))
  | (p', .ok tags) => ({ s with p := p' }, check tags)

/-- `_is_valid_version` for a new-style pattern, as a command -/
def gateCmd (today : Date) (pat old new : Str) (unique : Bool) : Cmd Bool := fun ce s =>
  match gate pat old new false [] today with
  | .error e => (s, .error (.exc (.v2 e)))
  | .ok .accept =>
    if unique then
      uniqueCmd (fun tags => ofV2 ((parseVersionTags pat today tags).map (fun vts => !vts.contains new))) ce s
    else (s, .ok true)
  | .ok _ => (s, .ok false)

/-- the same for a pattern with braces -/
def v1GateCmd (pat old new : Str) (unique : Bool) : Cmd Bool := fun ce s =>
  match v1Gate pat old new false [] with
  | .error e => (s, .error (.exc (.v1 e)))
  | .ok .accept =>
    if unique then
      uniqueCmd (fun tags => ofV1 ((v1ParseVersionTags pat tags).map (fun vts => !vts.contains new))) ce s
    else (s, .ok true)
  | .ok _ => (s, .ok false)

end TieL

open TieL

attribute [local irreducible] isValid parseVersionInfo v1IsValid v1ParseVersionInfo

theorem tie_cmdIsValidVersion_new (today : Date) (pat old new : Str) (unique : Bool)
    (hp : isNewPattern pat = true) (ce : CmdEnv) (s : CState) :
    GenL.isValidVersion today pat old new unique ce s = gateCmd today pat old new unique ce s := by
  unfold GenL.isValidVersion gateCmd gate uniqueCmd pepLe
  simp only [TieL.isNewPattern_gen', TieL.isNewPattern_gen'c, TieL.isNewPattern_gen'o, TieL.isNewPattern_gen'oc, TieL.isOldPattern_gen, TieL.isOldPattern_genc, hp, if_true, Bool.not_true, Bool.not_false, Bool.false_eq_true, if_false, pyV2ParseVersionInfo, tie_parseVersionTags_new]
  try simp only [verLt_eq_not_verLe, Bool.not_not]
  cases hpv : parseVersionInfo new pat today with
  | error e => cases e <;> cmd_simp [liftV2, CStop.isA, Exc.isPatternError]
  | ok vi =>
    by_cases hle : verLe (parseVersion new) (parseVersion old) = true
    · cmd_simp [liftV2, hle]
    · cases unique
      · cmd_simp [liftV2, hle]
      · rcases hg : GenE.getTags false .GLOBAL ce.eff s.p with ⟨p', r⟩
        cases r with
        | error x => cmd_simp [liftV2, hle, hg]
        | ok tags =>
          cases hvt : parseVersionTags pat today tags with
          | error e => cmd_simp [liftV2, hle, hg, hvt]
          | ok vts => by_cases hm : vts.contains new = true <;> cmd_simp [liftV2, hle, hg, hvt, hm] <;> simp_all

theorem tie_cmdIsValidVersion_legacy (today : Date) (pat old new : Str) (unique : Bool)
    (hp : isNewPattern pat = false) (ce : CmdEnv) (s : CState) :
    GenL.isValidVersion today pat old new unique ce s = v1GateCmd pat old new unique ce s := by
  unfold GenL.isValidVersion v1GateCmd v1Gate uniqueCmd pepLe
  simp only [TieL.isNewPattern_gen', TieL.isNewPattern_gen'c, TieL.isNewPattern_gen'o, TieL.isNewPattern_gen'oc, TieL.isOldPattern_gen, TieL.isOldPattern_genc, hp, Bool.false_eq_true, if_false, Bool.not_true, Bool.not_false, if_true, pyV1ParseVersionInfo, tie_parseVersionTags_legacy]
  try simp only [verLt_eq_not_verLe, Bool.not_not]
  cases hpv : v1ParseVersionInfo new pat with
  | error e => cases e <;> cmd_simp [liftV1, CStop.isA, Exc.isPatternError]
  | ok vi =>
    by_cases hle : verLe (parseVersion new) (parseVersion old) = true
    · cmd_simp [liftV1, hle]
    · cases unique
      · cmd_simp [liftV1, hle]
      · rcases hg : GenE.getTags false .GLOBAL ce.eff s.p with ⟨p', r⟩
        cases r with
        | error x => cmd_simp [liftV1, hle, hg]
        | ok tags =>
          cases hvt : v1ParseVersionTags pat tags with
          | error e => cmd_simp [liftV1, hle, hg, hvt]
          | ok vts => by_cases hm : vts.contains new = true <;> cmd_simp [liftV1, hle, hg, hvt, hm] <;> simp_all

/-- without `unique` nothing is asked of the VCS and the state is untouched: the verdict of `BV.gate` -/
theorem TieL.cmdIsValidVersion_not_unique (today : Date) (pat old new : Str) (hp : isNewPattern pat = true)
    (ce : CmdEnv) (s : CState) :
    GenL.isValidVersion today pat old new false ce s
      = (s, ofV2 ((gate pat old new false [] today).map GateVerdict.toBool)) := by
  rw [tie_cmdIsValidVersion_new today pat old new false hp]
  unfold gateCmd
  cases gate pat old new false [] today with
  | error e => rfl
  | ok v => cases v <;> rfl

/-- the link to the model's full gate: when the tag listing succeeds with `tags`, the answer is the verdict of
    `gate pat old new unique tags` -/
theorem TieL.gate_split (today : Date) (pat old new : Str) (unique : Bool) (tags : List Str) :
    gate pat old new unique tags today =
      (match gate pat old new false [] today with
       | .error e => .error e
       | .ok .accept =>
         if unique then
           (match parseVersionTags pat today tags with
            | .error e => .error e
            | .ok vts => if vts.contains new then .ok .rejectNotUnique else .ok .accept)
         else .ok .accept
       | .ok v => .ok v) := by
  unfold gate
  cases parseVersionInfo new pat today with
  | error e => cases e <;> rfl
  | ok vi =>
    by_cases hle : pepLe new old = true
    · simp [hle]
    · cases unique <;> simp [hle]
      cases parseVersionTags pat today tags <;> rfl

end BV
