/-
  Proofs/TokTie_Run1.lean — a RUN (maximal sequence of literals and parts between brackets) as one text segment
  of `_format_segment`: which (part, value) pairs are "used" (`isInfix`), and the flags `is_literal` / `is_zero`.
-/
import BumpverVerif.Proofs.TokTie_Pvs
import BumpverVerif.Proofs.TokTie_Main
namespace BV

inductive Atom
  | lit (c : Char)
  | tok (n : Str)

/-- source text of an atom (`\[` `\]` escaped) -/
def Atom.text : Atom → Str
  | .lit c => litText c
  | .tok n => n

/-- item of an atom in the SOURCE text -/
def Atom.titem : Atom → Item
  | .lit c => .raw (litText c)
  | .tok n => .tok n

/-- item of an atom after un-escaping (`r3` in `_format_segment`) -/
def Atom.uitem : Atom → Item
  | .lit c => .raw [c]
  | .tok n => .tok n

def Atom.render (v : VInfo) : Atom → Str
  | .lit c => [c]
  | .tok n => (partText v n).getD n

def Atom.zero (v : VInfo) : Atom → Bool
  | .lit _ => true
  | .tok n => partIsZero v n

def Atom.isTok : Atom → Bool
  | .lit _ => false
  | .tok _ => true

def runText (run : List Atom) : Str := run.flatMap Atom.text
def runRender (v : VInfo) (run : List Atom) : Str := run.flatMap (Atom.render v)

theorem srcAll_titems (run : List Atom) : srcAll (run.map Atom.titem) = runText run := by
  induction run with
  | nil => rfl
  | cons a r ih => cases a <;> simp [srcAll_cons, Atom.titem, Item.src, runText, Atom.text] at ih ⊢ <;> exact ih

theorem tok_mem_titems {run : List Atom} {n : Str} : Item.tok n ∈ run.map Atom.titem ↔ Atom.tok n ∈ run := by
  induction run with
  | nil => simp
  | cons a r ih => cases a <;> simp [Atom.titem, ih]

theorem tok_mem_uitems {run : List Atom} {n : Str} : Item.tok n ∈ run.map Atom.uitem ↔ Atom.tok n ∈ run := by
  induction run with
  | nil => simp
  | cons a r ih => cases a <;> simp [Atom.uitem, ih]

/-! ### occurrences in an item list -/

theorem isInfix_chunk (A n B : Str) : isInfix n (A ++ (n ++ B)) = true := by
  apply isInfix_of_prefix_drop (d := A.length)
  simp

theorem isInfix_srcAll_of_mem (items : List Item) (n : Str) (h : Item.tok n ∈ items) :
    isInfix n (srcAll items) = true := by
  obtain ⟨a, b, rfl⟩ := List.append_of_mem h
  rw [srcAll_append, srcAll_cons]
  exact isInfix_chunk _ _ _

/-- under the adjacency condition, a part name that occurs in the text occurs inside a token -/
theorem items_occ_infix (items : List Item) (hs : safeItemsK items []) {m : Str} (hm : m ∈ partNames)
    (h : isInfix m (srcAll items) = true) : ∃ n, Item.tok n ∈ items ∧ isInfix m n = true := by
  unfold isInfix at h
  cases hf : findIdx m (srcAll items) with
  | none => rw [hf] at h; cases h
  | some i =>
    have hp := findIdx_some_prefix hf
    have hlen := prefix_drop_lt (name_ne_nil hm) hp
    have h0 : 0 < m.length := List.length_pos_iff.mpr (name_ne_nil hm)
    obtain ⟨t, ht, a1, a2⟩ := occ_inside items [] 0 hs i (by omega) m hm (by rw [List.append_nil]; exact hp)
    simp only [Nat.zero_add] at a1 a2
    obtain ⟨-, f2, -, f4, -, f6⟩ := toks_facts items 0 t ht
    rw [Nat.sub_zero] at f6
    refine ⟨t.name, f4, ?_⟩
    obtain ⟨rest, hr⟩ := List.isPrefixOf_iff_prefix.mp f6
    have e : (srcAll items).drop i = t.name.drop (i - t.start) ++ rest := by
      have : i = t.start + (i - t.start) := by omega
      rw [this, ← List.drop_drop, ← hr, List.drop_append_of_le_length (by omega)]
      congr 2; omega
    rw [e] at hp
    have hmm := List.isPrefixOf_iff_prefix.mp hp
    have hpre : t.name.drop (i - t.start) <+: t.name.drop (i - t.start) ++ rest := List.prefix_append _ _
    exact isInfix_of_prefix_drop (List.isPrefixOf_iff_prefix.mpr
      (List.prefix_of_prefix_length_le hmm hpre (by simp only [List.length_drop]; omega)))

/-! ### the flags -/

/-- a contained name has no zero value, or it is TAG inside PYTAG -/
theorem tbl_innerz : partNames.all (fun n => partNames.all (fun m =>
    m == n || !isInfix m n || (lookup n Gen.partZeroValues).isNone ||
      (n == "PYTAG".toList && m == "TAG".toList))) = true := by decide +kernel

theorem filter_count_flag {α} (l : List α) (Z : α → Bool) :
    (decide ((l.filter Z).length > 0) && ((l.filter Z).length == l.length)) = (!l.isEmpty && l.all Z) := by
  have hle := List.length_filter_le Z l
  by_cases hall : l.all Z = true
  · have : l.filter Z = l := List.filter_eq_self.mpr (fun a ha => List.all_eq_true.mp hall a ha)
    rw [this, hall]
    cases l <;> simp
  · have hall' : l.all Z = false := by simpa using hall
    have hne : (l.filter Z).length ≠ l.length := by
      intro e
      have := List.length_filter_eq_length_iff.mp e
      exact hall (List.all_eq_true.mpr (fun a ha => this a ha))
    have : ((l.filter Z).length == l.length) = false := by simpa using hne
    rw [this, hall']
    simp

structure RunHyp (v : VInfo) (run : List Atom) : Prop where
  names : ∀ n, Atom.tok n ∈ run → n ∈ partNames
  safeT : safeItemsK (run.map Atom.titem) []
  vals : ∀ n, Atom.tok n ∈ run → ∃ w, partText v n = some w

def usedOf (v : VInfo) (seg : Str) : List (Str × Str) := (formatPartValues v).filter (fun pv => isInfix pv.1 seg)

theorem tok_used {v : VInfo} {run : List Atom} {n w : Str} (hn : Atom.tok n ∈ run)
    (hw : partText v n = some w) : (n, w) ∈ usedOf v (runText run) := by
  refine List.mem_filter.mpr ⟨(mem_pvs_iff v n w).mpr hw, ?_⟩
  rw [← srcAll_titems]
  exact isInfix_srcAll_of_mem _ n (tok_mem_titems.mpr hn)

theorem used_tok {v : VInfo} {run : List Atom} (h : RunHyp v run) {m w : Str}
    (hu : (m, w) ∈ usedOf v (runText run)) :
    partText v m = some w ∧ m ∈ partNames ∧ ∃ n, Atom.tok n ∈ run ∧ isInfix m n = true := by
  obtain ⟨h1, h2⟩ := List.mem_filter.mp hu
  have hm := pvs_name_mem v m w h1
  rw [← srcAll_titems] at h2
  obtain ⟨n, hn, hi⟩ := items_occ_infix _ h.safeT hm h2
  exact ⟨(mem_pvs_iff v m w).mp h1, hm, n, tok_mem_titems.mp hn, hi⟩

theorem used_isEmpty {v : VInfo} {run : List Atom} (h : RunHyp v run) :
    (usedOf v (runText run)).isEmpty = !run.any Atom.isTok := by
  cases hany : run.any Atom.isTok with
  | true =>
    obtain ⟨a, ha, ht⟩ := List.any_eq_true.mp hany
    cases a with
    | lit c => cases ht
    | tok n =>
      obtain ⟨w, hw⟩ := h.vals n ha
      have := tok_used ha hw
      cases hu : usedOf v (runText run) with
      | nil => rw [hu] at this; cases this
      | cons _ _ => rfl
  | false =>
    cases hu : usedOf v (runText run) with
    | nil => rfl
    | cons x xs =>
      exfalso
      obtain ⟨m, w⟩ := x
      obtain ⟨-, -, n, hn, -⟩ := used_tok h (by rw [hu]; exact List.mem_cons_self)
      have : run.any Atom.isTok = true := List.any_eq_true.mpr ⟨_, hn, rfl⟩
      rw [hany] at this; cases this

theorem used_all_zero {v : VInfo} {run : List Atom} (h : RunHyp v run) (htc : tagCoh v = true) :
    (usedOf v (runText run)).all (fun pv => isZeroVal pv.1 pv.2) = run.all (Atom.zero v) := by
  cases hz : run.all (Atom.zero v) with
  | true =>
    rw [List.all_eq_true]
    rintro ⟨m, w⟩ hu
    obtain ⟨hw, hm, n, hn, hi⟩ := used_tok h hu
    have hnz : partIsZero v n = true := List.all_eq_true.mp hz _ hn
    by_cases hmn : m = n
    · subst hmn
      simpa [partIsZero, hw] using hnz
    · have hnn := h.names n hn
      have := List.all_eq_true.mp (List.all_eq_true.mp tbl_innerz n hnn) m hm
      have hmn' : (m == n) = false := by simpa using hmn
      simp only [hmn', hi, Bool.not_true, Bool.false_or, Bool.or_eq_true, Option.isNone_iff_eq_none,
        Bool.and_eq_true, beq_iff_eq] at this
      rcases this with hnone | ⟨rfl, rfl⟩
      · obtain ⟨w', hw'⟩ := h.vals n hn
        simp [partIsZero, hw', isZeroVal, hnone] at hnz
      · -- TAG inside PYTAG: coherence
        rw [partText_TAG] at hw
        have hw : v.tag = w := Option.some.inj hw
        subst hw
        have hp : v.pytag = [] := by
          simp only [partIsZero, partText_PYTAG] at hnz
          have e : isZeroVal "PYTAG".toList v.pytag = (v.pytag == []) := rfl
          rw [e] at hnz
          simpa using hnz
        simp only [tagCoh, hp, List.isEmpty_nil, Bool.not_true, Bool.false_or, beq_iff_eq] at htc
        show isZeroVal "TAG".toList v.tag = true
        rw [htc]; decide
  | false =>
    obtain ⟨a, ha, hna⟩ : ∃ a ∈ run, Atom.zero v a = false := by
      have : ¬ (∀ a ∈ run, Atom.zero v a = true) := by
        intro hall; rw [List.all_eq_true.mpr hall] at hz; cases hz
      apply Classical.byContradiction
      intro hcon
      apply this
      intro a ha
      cases hq : Atom.zero v a with
      | true => rfl
      | false => exact absurd ⟨a, ha, hq⟩ hcon
    cases a with
    | lit c => cases hna
    | tok n =>
      obtain ⟨w, hw⟩ := h.vals n ha
      have hu := tok_used ha hw
      have hzv : isZeroVal n w = false := by simpa [Atom.zero, partIsZero, hw] using hna
      cases hall : (usedOf v (runText run)).all (fun pv => isZeroVal pv.1 pv.2) with
      | false => rfl
      | true =>
        have := List.all_eq_true.mp hall _ hu
        simp only at this
        rw [hzv] at this; cases this

end BV
