/-
  Proofs/Tie_pepVersionInit.lean — the definition GENERATED from the Python source of
  `setuptools_v65_version.Version.__init__` (Gen/F_pepVersionInit.lean) against the hand-written reference
  `rawOfGroups` / `ofGroups` of Model/PepGroups.lean (the version the named groups of a match denote) and the
  hand model's key `pepKey` (Model/Pep440.lean).

  The verbose regex is a trusted primitive: the matcher `regex_search` is a PARAMETER, and every theorem holds for
  ALL matchers and all group values it may report.

  * `tie_parseLetterVersion_full` : the generated `_parse_letter_version` (Gen/F_parseLetterVersion.lean, builder A /
       D's file) = the reference `letterVersion` for ALL arguments (D's `tie_parseLetterVersion` covers the words of the
       model's tables; this one also covers letters outside them and empty groups);
  * `tie_pepVersionInit`     : no match ⇒ `InvalidVersion`; a match with groups `g` ⇒ the object whose `_version` is
       `rawOfGroups g` and whose `_key` is `_cmpkey` of its six fields;
  * `tie_pepVersionInit_abs` : … whose `_version` abstracts to the model version `ofGroups g`, and
  * `tie_pepVersionInit_key` : … whose `_key` abstracts (`absKey`, Proofs/Tie_cmpkey.lean) to the model's `pepKey (ofGroups g)`.
-/
import BumpverVerif.Gen.F_pepVersionInit
import BumpverVerif.Proofs.Tie_pepParseLocalVersion
import BumpverVerif.Proofs.Tie_cmpkey
set_option linter.unusedSimpArgs false
namespace BV

theorem tie_parseLetterVersion_full (letter number : Option Str) :
    GenF.parseLetterVersion letter number = letterVersion letter number := by
  cases letter with
  | none =>
    cases number with
    | none => rfl
    | some n => cases n <;> simp [GenF.parseLetterVersion, letterVersion, implicitPost]
  | some l =>
    cases l with
    | nil =>
      cases number with
      | none => rfl
      | some n => cases n <;> simp [GenF.parseLetterVersion, letterVersion, implicitPost]
    | cons c cs =>
      cases number <;>
        simp only [GenF.parseLetterVersion, letterVersion, normLetter, List.isEmpty_cons, Bool.not_false, if_true,
          Bool.false_eq_true, if_false, beq_iff_eq, List.elem_eq_mem, List.mem_cons, List.not_mem_nil, or_false,
          decide_eq_true_eq] <;>
        (repeat' split) <;> simp_all

namespace TieQ

/-- the `Version` object the groups of a match denote: `_version` by the reference, `_key` = `_cmpkey` of its fields
    (what `_cmpkey` is: `tie_cmpkey`, `tie_cmpkey_raw`) -/
def objOfGroups (g : PepGroups) : PepObj :=
  let r := rawOfGroups g
  { _version := r, _key := GenC.cmpkey r.epoch r.release r.pre r.post r.dev r.loc }

end TieQ

theorem tie_pepVersionInit (regex_search : Str → Option PepGroups) (version : Str) :
    GenQ.pepVersionInit regex_search version =
      match regex_search version with
      | none => .error .invalidVersion
      | some g => .ok (TieQ.objOfGroups g) := by
  simp only [GenQ.pepVersionInit]
  cases regex_search version with
  | none => rfl
  | some g =>
    obtain ⟨epoch, release, pre_l, pre_n, post_n1, post_l, post_n2, dev_l, dev_n, loc⟩ := g
    simp only [if_true, TieQ.objOfGroups, tie_parseLetterVersion_full, tie_pepParseLocalVersion, rawOfGroups]
    rcases epoch with _ | ⟨_ | ⟨c, cs⟩⟩ <;> rcases post_n1 with _ | ⟨_ | ⟨d, ds⟩⟩ <;> rfl

/-- the `_version` tuple of the constructed object is the model version the groups denote -/
theorem tie_pepVersionInit_abs (regex_search : Str → Option PepGroups) (version : Str) (g : PepGroups) (o : PepObj)
    (hm : regex_search version = some g) (h : GenQ.pepVersionInit regex_search version = .ok o) :
    o._version.abs = ofGroups g := by
  rw [tie_pepVersionInit, hm] at h
  injection h with h
  subst h
  rfl

/-- `absKey (_cmpkey(r.epoch, …, r.local)) = pepKey r.abs` for every `_Version` tuple (D's `tie_cmpkey` without the
    side condition on the shape of the post / dev tuples) -/
theorem TieQ.absKey_cmpkey_raw (r : PepRaw) :
    absKey (GenC.cmpkey r.epoch r.release r.pre r.post r.dev r.loc) = pepKey r.abs := by
  obtain ⟨e, rel, dev, pre, post, loc⟩ := r
  have hp : ∀ p : Option (Str × Nat), p = (p.map (·.2)).map (fun n => ((p.map (·.1)).getD [], n)) := by
    intro p; cases p <;> rfl
  have := tie_cmpkey ⟨e, rel, pre, post.map (·.2), dev.map (·.2), loc⟩ ((post.map (·.1)).getD []) ((dev.map (·.1)).getD [])
  simp only [← hp] at this
  exact this

/-- the `_key` of the constructed object abstracts to the model's key of the version the groups denote -/
theorem tie_pepVersionInit_key (regex_search : Str → Option PepGroups) (version : Str) (g : PepGroups) (o : PepObj)
    (hm : regex_search version = some g) (h : GenQ.pepVersionInit regex_search version = .ok o) :
    absKey o._key = pepKey (ofGroups g) := by
  rw [tie_pepVersionInit, hm] at h
  injection h with h
  subst h
  exact TieQ.absKey_cmpkey_raw (rawOfGroups g)

/-- `InvalidVersion` exactly when the regex does not match -/
theorem tie_pepVersionInit_invalid (regex_search : Str → Option PepGroups) (version : Str) :
    GenQ.pepVersionInit regex_search version = .error .invalidVersion ↔ regex_search version = none := by
  rw [tie_pepVersionInit]
  cases regex_search version <;> simp

end BV
