/-
  Proofs/Tie_setRawConfigDefaults.lean — the definition GENERATED from the Python source of
  `config._set_raw_config_defaults` (Gen/F_setRawConfigDefaults.lean) equals the hand model
  `BV.setRawConfigDefaults` on all raw dicts.  The Python function returns None and mutates its
  argument; the generated definition returns the dict afterwards: unchanged except that
  `file_patterns` is `{}` when it was missing (the hand model leaves that default to its callers,
  `parseCfgPost` / `parseTomlPost`, which write `.getD []`).
  Errors: exception class on the left, `CfgErr.pyClass` of the model's error on the right.
-/
import BumpverVerif.Gen.F_setRawConfigDefaults
import BumpverVerif.Proofs.TieConfigCommon
set_option linter.unusedSimpArgs false
namespace BV
open TieH

/-- the raw dict after `if 'file_patterns' not in raw_cfg: raw_cfg['file_patterns'] = {}` -/
def withFilePatterns (d : TomlSection) : TomlSection := { d with filePatterns := some (d.filePatterns.getD []) }

theorem tie_setRawConfigDefaults (d : TomlSection) :
    GenF.setRawConfigDefaults d =
      ((setRawConfigDefaults d.opts).mapError CfgErr.pyClass).map (fun _ => withFilePatterns d) := by
  unfold GenF.setRawConfigDefaults setRawConfigDefaults withFilePatterns
  obtain ⟨opts, fp⟩ := d
  rcases h1 : lookup "version_pattern".toList opts with _ | (vp | _ | _) <;>
    simp only [Option.isSome_none, Option.isSome_some, Bool.not_false, Bool.not_true, Bool.false_eq_true, if_true, if_false,
      Py.isStr, Except.map, Except.mapError, pyClass_missingPattern, pyClass_patternType]
  rcases h2 : lookup "current_version".toList opts with _ | (cv | _ | _) <;>
    simp only [Option.isSome_none, Option.isSome_some, Bool.not_false, Bool.not_true, Bool.false_eq_true, if_true, if_false,
      Py.isStr, Except.map, Except.mapError, pyClass_missingVersion, pyClass_versionType]
  cases fp <;> rfl

end BV
