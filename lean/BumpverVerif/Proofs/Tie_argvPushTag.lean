/-
  Proofs/Tie_argvPushTag.lean — source-level tie for the VALUES `vcs.VCSAPI.push_tag` passes to `VCSAPI.__call__`
  (Gen/F_argvPushTag.lean; property C12).  Builder B's ties (Proofs/Tie_vcsCommit.lean) fix the SEQUENCE of
  subcommands; here the keyword arguments, the environment and — for Mercurial's commit — the temporary log file are
  visible.  `tie_argvPushTag`: generated definition = reference, for EVERY `VCSAPI` object (any name, any template
  table), all strings, worlds and traces; stated with `callRef` (= `__call__`, Proofs/Tie_argvCall.lean).
  The composition down to the argument vector of the process that runs: Proofs/Tie_argvEndToEnd.lean.
-/
import BumpverVerif.Gen.F_argvPushTag
import BumpverVerif.Proofs.Tie_argvCall
namespace BV.TieK
open BV.TieK.Gen

/-- `VCSAPI.push_tag(tag_name)`: nothing without a remote; otherwise the tag name and the remote -/
def pushTagRef (self : VcsApi) (tag_name : Str) : Eff Unit := fun w s =>
  match w.remote s with
  | none => (s, .ok ())
  | some remote =>
    if remote ≠ [] then
      unitOf (callRef self ['p', 'u', 's', 'h', '_', 't', 'a', 'g'] none [(['t', 'a', 'g'], tag_name), (['r', 'e', 'm', 'o', 't', 'e'], remote)] w s)
    else (s, .ok ())

theorem tie_argvPushTag (self : VcsApi) (tag_name : Str) : argvPushTag self tag_name = pushTagRef self tag_name := by
  funext w s
  unfold argvPushTag pushTagRef
  simp only [tie_argvCall, bind_unit_id]
  rw [getRemote_bind]
  cases w.remote s with
  | none => rfl
  | some remote =>
    cases remote with
    | nil => rfl
    | cons c r =>
      simp only [List.isEmpty, Bool.not_false, if_true, ne_eq, reduceCtorEq, not_false_eq_true]
      -- the keyword arguments may be written in either order
      have hswap := callRef_kw_congr self ['p', 'u', 's', 'h', '_', 't', 'a', 'g'] none
        (lookup_swap2 ['r', 'e', 'm', 'o', 't', 'e'] ['t', 'a', 'g'] (c :: r) tag_name (by decide))
      first
        | exact bind_unit _ w s
        | (rw [hswap]; exact bind_unit _ w s)

end BV.TieK
