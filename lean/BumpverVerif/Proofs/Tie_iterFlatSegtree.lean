/-
  Proofs/Tie_iterFlatSegtree.lean — the definition GENERATED from the Python source of the GENERATOR
  `v2version._iter_flat_segtree` (Gen/F_iterFlatSegtree.lean: read as the function returning the list of the yielded
  values; `pre` / `loop` / `post`, the recursive call inside the loop, `for seg in <recursive call>: yield seg` a fold)
  equals the hand model `BV.flatSegs` on ALL trees.
-/
import BumpverVerif.Gen.F_iterFlatSegtree
namespace BV.TieF
open GenF GenF.FP

/-- `for x in xs: out.append(x)`, for any step function that appends -/
theorem foldl_append_each (f : List Str → Str → List Str) (hf : ∀ out x, f out x = out ++ [x]) :
    ∀ (xs out : List Str), List.foldl f out xs = out ++ xs
  | [], out => by simp
  | x :: xs, out => by
    rw [List.foldl_cons, hf, foldl_append_each f hf xs]
    simp

/-- the loop: the yielded values so far, followed by the flattened rest -/
theorem iterFlatSegtree_loop : ∀ (items : List Seg) (out : List Str),
    GenF.iterFlatSegtree.loop out items = out ++ flatSegs items
  | [], out => by simp [GenF.iterFlatSegtree.loop, flatSegs]
  | .lit s :: rest, out => by
    rw [GenF.iterFlatSegtree.loop]
    simp only [iterFlatSegtree_loop rest, flatSegs]
    simp
  | .grp sub :: rest, out => by
    rw [GenF.iterFlatSegtree.loop]
    have hsub := iterFlatSegtree_loop sub
    simp only [iterFlatSegtree_loop rest, flatSegs, GenF.iterFlatSegtree.post, GenF.iterFlatSegtree.pre, hsub]
    rw [foldl_append_each _ (by intro out x; rfl)]
    simp

theorem _root_.BV.tie_iterFlatSegtree (items : List Seg) : GenF.iterFlatSegtree items = flatSegs items := by
  simp [GenF.iterFlatSegtree, GenF.iterFlatSegtree.post, GenF.iterFlatSegtree.pre, iterFlatSegtree_loop]

end BV.TieF
