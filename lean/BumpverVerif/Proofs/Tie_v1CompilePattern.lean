/-
  Proofs/Tie_v1CompilePattern.lean — the definition GENERATED from `v1patterns.compile_pattern(version_pattern,
  raw_pattern=None)` (`@utils.memo`: memoisation of a pure function) against the hand model `BV.v1CompilePattern`:
  a missing `raw_pattern` means the version pattern itself, the pattern is normalised, then compiled; the result
  record carries the version pattern, the NORMALISED pattern and the regex.

   * `tie_v1CompilePattern`      : its regex (or its exception) is the model's `v1CompilePattern vp (raw or vp)`;
   * `tie_v1CompilePattern_one`  : the one-argument call `compile_pattern(p)` that `parse_version_info` and
       `incr_dispatch` make is the primitive `pyCompilePattern1 p` the other generated definitions use.
  Callees: `_normalized_pattern` = model `v1NormalizedPattern` (`tie_v1NormalizedPattern`), `_compile_pattern_re` = model
  `v1CompileRe` (`tie_v1CompilePatternRe_tables`).
-/
import BumpverVerif.Gen.F_v1CompilePattern
namespace BV
open GenV1

theorem tie_v1CompilePattern (versionPattern : Str) (raw : Option Str) :
    (GenV1.v1CompilePattern versionPattern raw).map (fun p => p.regexp) =
      v1CompilePattern versionPattern (raw.getD versionPattern) := by
  unfold GenV1.v1CompilePattern v1CompilePattern
  cases raw <;> dsimp only [Option.getD] <;> cases v1CompileRe _ <;> rfl

theorem tie_v1CompilePattern_one (p : Str) : GenV1.v1CompilePattern p none = pyCompilePattern1 p := by
  unfold GenV1.v1CompilePattern pyCompilePattern1 v1CompilePattern
  dsimp only
  cases v1CompileRe _ <;> rfl

/-- the strings of the result record -/
theorem tie_v1CompilePattern_fields (versionPattern : Str) (raw : Option Str) (p : V1Pattern)
    (h : GenV1.v1CompilePattern versionPattern raw = .ok p) :
    p.versionPattern = versionPattern ∧
    p.rawPattern = v1NormalizedPattern versionPattern (raw.getD versionPattern) := by
  unfold GenV1.v1CompilePattern at h
  cases raw <;> dsimp only [Option.getD] at h ⊢ <;>
    (cases hc : v1CompileRe _ with
     | error e => rw [hc] at h; cases h
     | ok r => rw [hc] at h; cases h; exact ⟨rfl, rfl⟩)

end BV
