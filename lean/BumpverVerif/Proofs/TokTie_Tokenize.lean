/-
  Proofs/TokTie_Tokenize.lean — the tree is recoverable from its source text: under the adjacency condition
  the longest-match tokeniser reads `Pat.text p` back as `p` (`tokenize_text`).
-/
import BumpverVerif.Proofs.TokTie_Text
namespace BV

/-! ### table facts -/

/-- the longest-first list is sorted by length (descending) -/
def lenDescOk : List Str → Bool
  | [] => true
  | m :: rest => rest.all (fun n => decide (n.length ≤ m.length)) && lenDescOk rest

theorem tbl_longest_sorted : lenDescOk partNamesLongestFirst = true := by decide +kernel

/-- tokeniser names (`PATTERN_PART_FIELDS`) and scanner names (`PART_PATTERNS`) are the same set -/
theorem tbl_longest_sub : partNamesLongestFirst.all (fun n => partNames.contains n) = true := by decide +kernel
theorem tbl_longest_sup : partNames.all (fun n => partNamesLongestFirst.contains n) = true := by decide +kernel

theorem lenDescOk_split (l as bs : List Str) (b : Str) (h : lenDescOk l = true) (hs : l = as ++ b :: bs) :
    ∀ n ∈ bs, n.length ≤ b.length := by
  induction as generalizing l with
  | nil =>
    subst hs
    simp only [List.nil_append, lenDescOk, Bool.and_eq_true, List.all_eq_true, decide_eq_true_eq] at h
    exact h.1
  | cons a as ih =>
    subst hs
    simp only [List.cons_append, lenDescOk, Bool.and_eq_true] at h
    exact ih _ h.2 rfl

theorem firstPartName_none (s : Str) (h : noNameAt s = true) : firstPartName s = none := by
  unfold firstPartName
  rw [List.find?_eq_none]
  intro n hn
  have hn' : n ∈ partNames := by
    have := List.all_eq_true.mp tbl_longest_sub n hn
    simpa using this
  have := List.all_eq_true.mp h n hn'
  have h2 : n.isPrefixOf s = false := by simpa using this
  simp only [startsWith, h2]
  decide

theorem firstPartName_token (n k : Str) (hn : n ∈ partNames) (hc : tokenClosed n k = true) :
    firstPartName (n ++ k) = some n := by
  have hne := name_ne_nil hn
  have hnl : n ∈ partNamesLongestFirst := by
    have := List.all_eq_true.mp tbl_longest_sup n hn
    simpa using this
  have hpn : startsWith (n ++ k) n = true := by simp [startsWith]
  unfold firstPartName
  cases hf : partNamesLongestFirst.find? (fun m => startsWith (n ++ k) m) with
  | none =>
    rw [List.find?_eq_none] at hf
    exact absurd hpn (hf n hnl)
  | some m =>
    obtain ⟨hpm, as, bs, hl, has⟩ := List.find?_eq_some_iff_append.mp hf
    have hml : m ∈ partNamesLongestFirst := by rw [hl]; simp
    have hm : m ∈ partNames := by
      have := List.all_eq_true.mp tbl_longest_sub m hml
      simpa using this
    -- m is not longer than n (tokenClosed at offset 0)
    have h0 : 0 < n.length := List.length_pos_iff.mpr hne
    have hle : m.length ≤ n.length := by
      have := List.all_eq_true.mp (List.all_eq_true.mp hc 0 (List.mem_range.mpr h0)) m hm
      have hpm' : m.isPrefixOf (n ++ k) = true := by simpa [startsWith] using hpm
      simpa [hpm'] using this
    -- n is m or comes later, so it is not longer than m
    have hge : n.length ≤ m.length := by
      rw [hl] at hnl
      rcases List.mem_append.mp hnl with r | r
      · have := has n r
        simp [hpn] at this
      · rcases List.mem_cons.mp r with r | r
        · rw [r]; exact Nat.le_refl _
        · exact lenDescOk_split _ as bs m tbl_longest_sorted hl n r
    have hpm' : m.isPrefixOf (n ++ k) = true := by simpa [startsWith] using hpm
    have hpn' : n.isPrefixOf (n ++ k) = true := by simp
    have h1 := List.isPrefixOf_iff_prefix.mp hpm'
    have h2 := List.isPrefixOf_iff_prefix.mp hpn'
    have := (List.prefix_of_prefix_length_le h1 h2 hle).eq_of_length (by omega)
    rw [this]

/-! ### the tokeniser on source text -/

theorem nameChar_head {n : Str} (hn : n ∈ partNames) :
    ∃ c r, n = c :: r ∧ c ≠ ']' ∧ c ≠ '\\' ∧ c ≠ '[' := by
  have hne := name_ne_nil hn
  cases n with
  | nil => exact absurd rfl hne
  | cons c r =>
    obtain ⟨-, h1, h2, h3, -⟩ := nameChar_not_special (name_chars hn c List.mem_cons_self)
    exact ⟨c, r, rfl, h2, h3, h1⟩

theorem tokenizeGo_text (p : Pat) : ∀ (k : Str) (fuel : Nat),
    (k = [] ∨ ∃ k', k = ']' :: k') → p.shapeOk = true → p.safeK k = true →
    (p.text ++ k).length < fuel → tokenizeGo fuel (p.text ++ k) = some (p, k) := by
  induction p with
  | done =>
    intro k fuel hk _ _ hf
    cases fuel with
    | zero => omega
    | succ f =>
      rcases hk with rfl | ⟨k', rfl⟩
      · simp [Pat.text_done, tokenizeGo]
      · simp [Pat.text_done, tokenizeGo]
  | lit c rest ih =>
    intro k fuel hk hsh hs hf
    simp only [Pat.shapeOk, Bool.and_eq_true] at hsh
    simp only [Pat.safeK, Bool.and_eq_true] at hs
    cases fuel with
    | zero => omega
    | succ f =>
      simp only [Pat.text_lit, List.append_assoc] at hf ⊢
      have hbs : c ≠ '\\' := litOk_ne_bs hsh.1
      by_cases h1 : c = '['
      · subst h1
        have e : litText '[' = ['\\', '['] := by decide
        rw [e] at hf ⊢
        simp only [List.cons_append, List.nil_append, List.length_cons] at hf ⊢
        have := ih k f hk hsh.2 hs.2 (by omega)
        have e1 : ('\\' == ']') = false := by decide
        simp [tokenizeGo, e1, this]
      · by_cases h2 : c = ']'
        · subst h2
          have e : litText ']' = ['\\', ']'] := by decide
          rw [e] at hf ⊢
          simp only [List.cons_append, List.nil_append, List.length_cons] at hf ⊢
          have := ih k f hk hsh.2 hs.2 (by omega)
          have e1 : ('\\' == ']') = false := by decide
          simp [tokenizeGo, e1, this]
        · have e : litText c = [c] := by simp [litText, h1, h2]
          rw [e] at hf ⊢
          simp only [List.cons_append, List.nil_append, List.length_cons] at hf ⊢
          have := ih k f hk hsh.2 hs.2 (by omega)
          have hfn := firstPartName_none _ hs.1
          have e1 : (c == ']') = false := by simpa using h2
          have e2 : (c == '\\') = false := by simpa using hbs
          have e3 : (c == '[') = false := by simpa using h1
          simp [tokenizeGo, e1, e2, e3, hfn, this]
  | part n rest ih =>
    intro k fuel hk hsh hs hf
    simp only [Pat.shapeOk, Bool.and_eq_true] at hsh
    simp only [Pat.safeK, Bool.and_eq_true] at hs
    have hn := mem_partNames_of_lookup hsh.1.1
    cases fuel with
    | zero => omega
    | succ f =>
      simp only [Pat.text_part, List.append_assoc] at hf ⊢
      have hfp := firstPartName_token n _ hn hs.1
      obtain ⟨c, r, hcr, c1, c2, c3⟩ := nameChar_head hn
      have h0 : 0 < n.length := by rw [hcr]; simp
      have := ih k f hk hsh.2 hs.2 (by simp only [List.length_append] at hf ⊢; omega)
      have e1 : (c == ']') = false := by simpa using c1
      have e2 : (c == '\\') = false := by simpa using c2
      have e3 : (c == '[') = false := by simpa using c3
      have hdrop : (n ++ (rest.text ++ k)).drop n.length = rest.text ++ k := by simp
      subst hcr
      simp only [List.cons_append] at hfp hdrop ⊢
      simp only [tokenizeGo, e1, e2, e3, Bool.false_eq_true, if_false, hfp]
      rw [hdrop, this]
      rfl
  | opt body rest ihb ihr =>
    intro k fuel hk hsh hs hf
    simp only [Pat.shapeOk, Bool.and_eq_true] at hsh
    simp only [Pat.safeK, Bool.and_eq_true] at hs
    cases fuel with
    | zero => omega
    | succ f =>
      simp only [Pat.text_opt, List.cons_append, List.append_assoc, List.length_cons, List.length_append] at hf ⊢
      have hb := ihb (']' :: (rest.text ++ k)) f (Or.inr ⟨_, rfl⟩) hsh.1.2 hs.1
        (by simp only [List.length_append, List.length_cons]; omega)
      have hr := ihr k f hk hsh.2 hs.2 (by simp only [List.length_append]; omega)
      have e1 : ('[' == ']') = false := by decide
      have e2 : ('[' == '\\') = false := by decide
      simp [tokenizeGo, e1, e2, hb, hr]

/-- THE TREE IS RECOVERABLE FROM ITS TEXT -/
theorem tokenize_text (p : Pat) (h : tokSafe p = true) : tokenize p.text = some p := by
  simp only [tokSafe, Bool.and_eq_true] at h
  have := tokenizeGo_text p [] (p.text.length + 1) (Or.inl rfl) h.1.1.1 h.1.1.2 (by simp)
  rw [List.append_nil] at this
  simp [tokenize, this]

end BV
