/-
  Proofs/Tie_incr.lean — the definition GENERATED from the Python source of `v2version.incr` equals the
  hand model `BV.incr`.

  The abstraction, made explicit in the statement:
  * the keyword-only arguments major … pin_date are the fields of the model's `IncrFlags` (`mkFlags`);
  * `maybe_date` / `version.TODAY`: the model takes the bump date `date` = `maybe_date` or TODAY, and
    `today`; dates are (year, month, day) triples;
  * callees that are NOT translated are the MODEL functions on both sides: `parse_version_info` ↦
    `parseVersionInfo`, `cal_info` ↦ `calInfo`, `format_version` ↦ `formatVersion`,
    `_parse_pattern_fields` ↦ `parsePatternFields`;
  * callees that ARE translated enter through their ties: `is_valid_week_pattern`, `_ver_to_cal_info`,
    `_is_cal_gt`, `_incr_numeric` (and through it `_reset_rollover_fields`, `_iter_reset_field_items`);
  * `try … except version.PatternError: return None` is a match on the error of `parseVersionInfo`.

  HYPOTHESIS `hf` (`_parse_pattern_fields(raw_pattern)` does not raise).  Python evaluates it LAST, inside
  `_reset_rollover_fields`; the hand model evaluates `parsePatternFields raw` BEFORE `incrNumeric`.  When it
  raises (ValueError for unbalanced brackets) AND `_incr_numeric` raises something else first, the two
  disagree on WHICH exception comes out.  Witness (real code): `incr("\\", "\\\\", tag="bogus")` with
  raw_pattern = two backslashes raises KeyError('bogus') (from `PEP440_TAG_BY_TAG[tag]`), while
  `_parse_pattern_fields("\\\\")` alone raises ValueError; the model answers with the latter.
  Both are uncaught exceptions of a call with a malformed pattern; no result value is affected.
  The field-name hypothesis of the three inner ties is DISCHARGED here (`parsePatternFields_known`):
  `parsePatternFields` only returns values of the generated `PATTERN_PART_FIELDS`, all of them fields.
-/
import BumpverVerif.Gen.F_incr
import BumpverVerif.Proofs.Tie_incrNumeric
import BumpverVerif.Proofs.Tie_isValidWeekPattern
import BumpverVerif.Proofs.Tie_verToCalInfo
import BumpverVerif.Proofs.Tie_isCalGt
namespace BV

/-! helper definitions and lemmas live in `BV.TieA` (no clashes with other proof files); the `tie_…` theorems in `BV` -/
namespace TieA

/-! ### `_parse_pattern_fields` only returns field names -/

theorem lookup_mem {α : Type} (k : Str) (v : α) (l : List (Str × α)) (h : lookup k l = some v) : (k, v) ∈ l := by
  induction l with
  | nil => cases h
  | cons e rest ih =>
    obtain ⟨k', v'⟩ := e
    by_cases hk : k = k'
    · subst hk
      simp only [lookup, if_true] at h
      cases h
      exact List.mem_cons_self
    · simp only [lookup, if_neg hk] at h
      exact List.mem_cons_of_mem _ (ih h)

theorem insertIdx_snd (P : Str → Prop) (x : (Nat × Nat) × Str) (l : List ((Nat × Nat) × Str))
    (hx : P x.2) (hl : ∀ y ∈ l, P y.2) : ∀ y ∈ insertIdx x l, P y.2 := by
  induction l with
  | nil => intro y hy; simp [insertIdx] at hy; subst hy; exact hx
  | cons z rest ih =>
    intro y hy
    unfold insertIdx at hy
    split at hy
    · rcases List.mem_cons.mp hy with e | h
      · subst e; exact hx
      · exact hl y (List.mem_cons_of_mem _ h)
    · split at hy
      · rcases List.mem_cons.mp hy with e | h
        · subst e; exact hx
        · exact hl y h
      · rcases List.mem_cons.mp hy with e | h
        · exact e ▸ hl z List.mem_cons_self
        · exact ih (fun w hw => hl w (List.mem_cons_of_mem _ hw)) y h

theorem foldl_insertIdx_snd (P : Str → Prop) (xs acc : List ((Nat × Nat) × Str))
    (hxs : ∀ x ∈ xs, P x.2) (hacc : ∀ y ∈ acc, P y.2) :
    ∀ y ∈ xs.foldl (fun acc x => insertIdx x acc) acc, P y.2 := by
  induction xs generalizing acc with
  | nil => exact hacc
  | cons x rest ih =>
    exact ih _ (fun w hw => hxs w (List.mem_cons_of_mem _ hw))
      (insertIdx_snd P x acc (hxs x List.mem_cons_self) hacc)

/-- every value of the generated `PATTERN_PART_FIELDS` is a field of V2VersionInfo -/
theorem partFields_values_known : ∀ pf ∈ Gen.partFields, pf.2 ∈ GenF.fieldNamesVInfo := by decide

theorem parsePatternFields_known (raw : Str) (fs : List Str) (h : parsePatternFields raw = .ok fs) :
    ∀ f ∈ fs, f ∈ GenF.fieldNamesVInfo := by
  unfold parsePatternFields at h
  split at h
  · cases h
  · next items _ =>
    simp only [Except.ok.injEq] at h
    subst h
    intro f hf
    rcases List.mem_map.mp hf with ⟨y, hy, rfl⟩
    refine foldl_insertIdx_snd (fun f => f ∈ GenF.fieldNamesVInfo) _ [] ?_ (by intro y hy; cases hy) y hy
    intro x hx
    rcases List.mem_flatMap.mp hx with ⟨si, _, hx'⟩
    rcases List.mem_filterMap.mp hx' with ⟨part, _, hpart⟩
    split at hpart
    · next i _ =>
      cases hl : lookup part Gen.partFields with
      | none => rw [hl] at hpart; cases hpart
      | some fld =>
        rw [hl] at hpart
        simp only [Option.map_some, Option.some.injEq] at hpart
        subst hpart
        exact partFields_values_known _ (lookup_mem part fld _ hl)
    · cases hpart

/-! ### the model's `incr` in explicit form -/

/-- the calendar `incr` bumps to: the old one under `--pin-date`, else the bump date's -/
def incrCal (old : VInfo) (pinDate : Bool) (date today : Nat × Nat × Nat) : CalOpt :=
  if pinDate then verToCalInfo old (calInfo today.1 today.2.1 today.2.2)
  else (calInfo date.1 date.2.1 date.2.2).toOpt

/-- never backwards: an old version from the future keeps its calendar -/
def incrCur (old : VInfo) (curC : CalOpt) : VInfo :=
  if isCalGt old.cal curC then old else { old with cal := curC }

/-- `incr` from the `--tag-num` gate on -/
def incrCore (oldVersion raw : Str) (fl : IncrFlags) (old cur : VInfo) : Except PErr (Option Str) :=
  if fl.tagNum && !(match fl.tag with | some t => !t.isEmpty | none => false) && !(cur.tag != "final".toList)
  then .ok none
  else
    match parsePatternFields raw with
    | .error e => .error e
    | .ok fields =>
      match incrNumeric fields old cur fl with
      | .error e => .error e
      | .ok new =>
        match formatVersion new raw with
        | .error e => .error e
        | .ok s => if s.isEmpty then .ok none else if s == oldVersion then .ok none else .ok (some s)

theorem incrCore_do (oldVersion raw : Str) (fl : IncrFlags) (old cur : VInfo) :
    (if (fl.tagNum && !(match fl.tag with | some t => !t.isEmpty | none => false) && !(cur.tag != "final".toList)) = true
     then (pure none : Except PErr (Option Str))
     else do
       let fields ← parsePatternFields raw
       let new ← incrNumeric fields old cur fl
       let s ← formatVersion new raw
       if s.isEmpty then pure none else if s == oldVersion then pure none else pure (some s)) =
      incrCore oldVersion raw fl old cur := by
  unfold incrCore
  refine ite_congr rfl (fun _ => rfl) (fun _ => ?_)
  cases parsePatternFields raw with
  | error e => rfl
  | ok fields =>
    cases hn : incrNumeric fields old cur fl with
    | error e => simp only [bind, Except.bind, hn]
    | ok new =>
      cases hv : formatVersion new raw with
      | error e => simp only [bind, Except.bind, hn, hv]
      | ok s => simp only [bind, Except.bind, hn, hv]; rfl

theorem incr_eq (oldVersion raw : Str) (fl : IncrFlags) (date today : Nat × Nat × Nat) :
    incr oldVersion raw fl date today =
      if !isValidWeekPattern raw then .ok none
      else match parseVersionInfo oldVersion raw today with
        | .error .pattern => .ok none
        | .error e => .error e
        | .ok old => incrCore oldVersion raw fl old (incrCur old (incrCal old fl.pinDate date today)) := by
  unfold incr
  cases isValidWeekPattern raw
  · simp only [Bool.not_false, if_true]; rfl
  · simp only [Bool.not_true, Bool.false_eq_true, if_false]
    cases parseVersionInfo oldVersion raw today with
    | error e => cases e <;> rfl
    | ok old =>
      simp only [pure_bind]
      exact incrCore_do oldVersion raw fl old (incrCur old (incrCal old fl.pinDate date today))

/-! ### the tie -/

theorem calOpt_eta (c : CalOpt) :
    ({ yearY := c.yearY, yearG := c.yearG, quarter := c.quarter, month := c.month, dom := c.dom, doy := c.doy,
       weekW := c.weekW, weekU := c.weekU, weekV := c.weekV } : CalOpt) = c := rfl

end TieA
open TieA

set_option linter.unusedSimpArgs false in
theorem tie_incr (old_version raw_pattern : Str) (major minor patch : Bool) (tag : Option Str)
    (tag_num pin_increments pin_date : Bool) (maybe_date : Option (Nat × Nat × Nat))
    (today : Nat × Nat × Nat)
    (hf : ∃ fs, parsePatternFields raw_pattern = .ok fs) :
    GenF.incr old_version raw_pattern major minor patch tag tag_num pin_increments pin_date maybe_date today =
      incr old_version raw_pattern (mkFlags major minor patch tag tag_num pin_increments pin_date)
        (match maybe_date with | none => today | some d => d) today := by
  obtain ⟨fs, hfs⟩ := hf
  have hk := parsePatternFields_known raw_pattern fs hfs
  rw [incr_eq]
  unfold GenF.incr
  rw [tie_isValidWeekPattern]
  cases isValidWeekPattern raw_pattern
  · simp only [Bool.false_eq_true, if_false, Bool.not_false, if_true]
  · simp (config := {zeta := false}) only [Bool.not_true, Bool.false_eq_true, if_false, if_true]
    cases parseVersionInfo old_version raw_pattern today with
    | error e => cases e <;> rfl
    | ok old =>
      have hnum : ∀ c tg, GenF.incrNumeric raw_pattern old c major minor patch tg tag_num pin_increments (.ok fs) =
          incrNumeric fs old c (mkFlags major minor patch tg tag_num pin_increments pin_date) :=
        fun c tg => tie_incrNumeric raw_pattern fs old c major minor patch tg tag_num pin_increments pin_date hk
      have hemp : ∀ s : Str, (s == "".toList) = s.isEmpty := by intro s; cases s <;> rfl
      -- the choice of the calendar (bump date or pinned), then the never-backwards guard
      cases maybe_date <;> cases pin_date <;> cases tag <;>
        simp only [tie_verToCalInfo, tie_isCalGt, incrCur, incrCal, incrCore, hfs, hnum, hemp, mkFlags,
          if_true, if_false, Bool.false_eq_true] <;>
        (generalize isCalGt old.cal _ = gt
         cases gt <;>
         simp only [if_true, if_false, Bool.false_eq_true, Bool.not_true, Bool.not_false] <;>
         -- from here on both sides only depend on the result of `_incr_numeric` and on `old.tag`
         (generalize incrNumeric fs old _ _ = r
          generalize "final".toList = fin
          by_cases ht : old.tag = fin <;>
          cases tag_num <;> (try (rename_i t; cases t.isEmpty)) <;>
          simp [ht] <;>
          (cases r with
           | error e => rfl
           | ok v =>
             simp only []
             cases formatVersion v raw_pattern with
             | error e => rfl
             | ok s => by_cases h1 : s = [] <;> by_cases h2 : s = old_version <;> simp [h1, h2])))

end BV
