/-
  Proofs/Tie_isCalGt.lean — the definition GENERATED from the Python source of
  `v2version._is_cal_gt` equals the hand model `BV.isCalGt` on all inputs.

  The translator renders the accumulation loop over `V2CalendarInfo._fields` as a `List.foldl`
  over the nine field projections (in the order of the Python class definition) with the state
  `(lvals, rvals)`.  The proof (1) shows that one generated loop step is `stepRef`, by cases on
  the two field values, (2) evaluates a fold of `stepRef` over ANY list of projections to the
  model's `presentPairs`, (3) notes that the projection list mapped over a record is
  `CalOpt.toList`.
-/
import BumpverVerif.Gen.F_isCalGt
import BumpverVerif.Model.Calendar
namespace BV

/-- one iteration of the loop of `_is_cal_gt`: both values present → appended, else unchanged -/
def calGtStep (l r : CalOpt) (st : List Nat × List Nat) (f : CalOpt → Option Nat) :
    List Nat × List Nat :=
  match f l, f r with
  | some a, some b => (st.1 ++ [a], st.2 ++ [b])
  | _, _ => st

theorem foldl_calGtStep (l r : CalOpt) (fs : List (CalOpt → Option Nat)) (st : List Nat × List Nat) :
    fs.foldl (calGtStep l r) st =
      (st.1 ++ (presentPairs (fs.map (· l)) (fs.map (· r))).map (·.1),
       st.2 ++ (presentPairs (fs.map (· l)) (fs.map (· r))).map (·.2)) := by
  induction fs generalizing st with
  | nil => simp [presentPairs]
  | cons f fs ih =>
    simp only [List.foldl_cons, List.map_cons, ih]
    cases hl : f l <;> cases hr : f r <;> simp [calGtStep, presentPairs, hl, hr]

theorem foldl_congr_step {σ β : Type} (g h : σ → β → σ) (hg : ∀ s x, g s x = h s x) (s : σ) (xs : List β) :
    xs.foldl g s = xs.foldl h s := by
  have : g = h := funext fun s => funext fun x => hg s x
  rw [this]

theorem tie_isCalGt (left right : CalOpt) :
    GenF.isCalGt left right = isCalGt left right := by
  simp only [GenF.isCalGt]
  rw [foldl_congr_step _ (calGtStep left right)
    (by intro ⟨a, b⟩ f; simp only [calGtStep]; cases f left <;> cases f right <;> rfl)]
  rw [foldl_calGtStep]
  simp only [isCalGt, CalOpt.toList, List.map_cons, List.map_nil, List.nil_append]

end BV
