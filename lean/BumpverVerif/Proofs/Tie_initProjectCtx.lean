/-
  Proofs/Tie_initProjectCtx.lean — the definitions GENERATED from the Python source of
  `config._parse_config_and_format` and `config.init_project_ctx` (Gen/F_parseConfigAndFormat.lean,
  Gen/F_initProjectCtx.lean) against the hand model of C19:

  * the config file is `pickConfigFile (worldOf fs)` (through `tie_pickConfigFile`);
  * `config_format` is `configFormat` of it (`config_filepath.suffix[1:]` ↦ `(pySuffix name).drop 1`:
    the suffix from the LAST dot — `.bumpver.toml` is a toml file);
  * `config_rel_path` is the file name when the project path is absolute, `str(path / name)` otherwise
    (`Py.ProjDir.child`; pathlib's joining is not modelled — the hand model identifies the two);
  * `vcs_type` is 'git' when `.git` exists, else 'hg' when `.hg` exists, else None.

  `tie_init_write`: `init_project_ctx` followed by `write_content` is the writing branch of the hand
  model's `cliInit` — the hypothesis `hfmt` of Tie_defaultConfig / Tie_writeContent is discharged by
  `init_project_ctx` itself.

  The project path is a `pl.Path` (signature table): the `str` / `None` conversions at the top of
  `init_project_ctx` are decided statically and not translated.
-/
import BumpverVerif.Gen.F_initProjectCtx
import BumpverVerif.Proofs.Tie_writeContent
set_option linter.unusedSimpArgs false
namespace BV
open TieH
open GenF

theorem tie_parseConfigAndFormat (fs : ProjFS) (dir : Py.ProjDir) :
    GenF.parseConfigAndFormat fs dir =
      .ok (pickConfigFile (worldOf fs),
           (if dir.isAbs then pickConfigFile (worldOf fs) else dir.child (pickConfigFile (worldOf fs))),
           configFormat (pickConfigFile (worldOf fs))) := by
  unfold GenF.parseConfigAndFormat
  rw [tie_pickConfigFile]
  cases dir.isAbs <;> rfl

/-- the project context the hand model works with -/
def ctxOf (fs : ProjFS) (dir : Py.ProjDir) : Cfg.ProjectContext :=
  { path := dir, config_filepath := pickConfigFile (worldOf fs),
    config_rel_path := if dir.isAbs then pickConfigFile (worldOf fs) else dir.child (pickConfigFile (worldOf fs)),
    config_format := configFormat (pickConfigFile (worldOf fs)),
    vcs_type := if (fs ".git".toList).isSome then some "git".toList
                else if (fs ".hg".toList).isSome then some "hg".toList else none }

theorem tie_initProjectCtx (fs : ProjFS) (dir : Py.ProjDir) :
    GenF.initProjectCtx fs dir = .ok (ctxOf fs dir) := by
  unfold GenF.initProjectCtx
  simp only [tie_parseConfigAndFormat]
  rfl

/-- `ctx = init_project_ctx(path); write_content(ctx)` is the writing branch of the hand model's
    `cliInit`: the default text for the picked file, appended to it -/
theorem tie_init_write (iv : Str) (fs : ProjFS) (dir : Py.ProjDir) :
    (match GenF.initProjectCtx fs dir with
     | .error e => (Except.error e : Except Str ProjFS)
     | .ok ctx => GenF.writeContent iv fs ctx) =
      ((defaultConfigText (worldOf fs) (pickConfigFile (worldOf fs)) iv).mapError InitErr.pyClass).map
        (fun text => writeContent fs (pickConfigFile (worldOf fs)) text) := by
  rw [tie_initProjectCtx]
  exact tie_writeContent iv fs (ctxOf fs dir) rfl

/-- … and therefore `cliInit` (not dry, not refused) writes exactly what the generated
    `init_project_ctx` + `write_content` write -/
theorem tie_cliInit_written (fs : ProjFS) (dir : Py.ProjDir) (parses : Bool) (year : Nat)
    (hgo : ((worldOf fs).exists_ (pickConfigFile (worldOf fs)) && parses) = false) (fs' : ProjFS)
    (hw : (match GenF.initProjectCtx fs dir with
           | .error e => (Except.error e : Except Str ProjFS)
           | .ok ctx => GenF.writeContent (initialVersion year) fs ctx) = .ok fs') :
    cliInit fs false parses year = (.written (pickConfigFile (worldOf fs)), fs') := by
  rw [tie_init_write] at hw
  unfold cliInit
  simp only [hgo, Bool.false_eq_true, if_false]
  cases h : defaultConfigText (worldOf fs) (pickConfigFile (worldOf fs)) (initialVersion year) with
  | error e => rw [h] at hw; cases hw
  | ok text =>
    rw [h] at hw
    simp only [Except.mapError, Except.map, Except.ok.injEq] at hw
    simp only [hw]

end BV
