/-
  Proofs/Tie_v1Incr.lean — the definition GENERATED from `v1version.incr(old_version, raw_pattern, *, major, minor,
  patch, tag, tag_num, pin_date, maybe_date)` equals the hand model `BV.v1Incr` on all inputs
  (`version.TODAY` is the extra parameter `today`; the model takes the bump date `maybe_date or TODAY`):

   * `parse_version_info` raising PatternError ⇒ `None`, any other exception propagates;
   * calendar step: `_ver_to_cal_info(old)` under `--pin-date`, else `cal_info(date)`; `_is_cal_gt(old, cur)` keeps the
     old fields ("from the future"), else `old._replace(**cur_cinfo._asdict())`;
   * `lexid.next_id` on the bid (OverflowError at all nines) BEFORE the flags; `--major` resets minor and patch,
     `--minor` resets patch; `--tag-num` is NotImplementedError AFTER the id step; a non-empty `tag` replaces the tag;
   * `format_version`, and the "unchanged ⇒ None" rule.

  Callees represented by model functions: `parse_version_info` (`tie_v1ParseVersionInfo`), `format_version`
  (`tie_v1FormatVersion`), `_ver_to_cal_info` / `cal_info` / `_is_cal_gt` (`V1Info.calList`, `v1CalInfo`, `v1IsCalGt`: by
  correspondence), `lexid.next_id` (`pyNextId` = `nextId` on digit strings, `unsupported` otherwise — exactly the
  model's guard in `v1Bump`).
-/
import BumpverVerif.Gen.F_v1Incr
import BumpverVerif.Proofs.TieV1Spec
set_option linter.unusedSimpArgs false
set_option linter.unusedVariables false
namespace BV
open GenV1

theorem v1_ebind_assoc {ε α β γ} (a : Except ε α) (f : α → Except ε β) (g : β → Except ε γ) :
    Except.bind (Except.bind a f) g = Except.bind a (fun x => Except.bind (f x) g) := by
  cases a <;> rfl

/-- the model's `v1Bump` as a bind on `lexid.next_id` -/
theorem v1Bump_eq_bind (old : V1Info) (fl : V1Flags) (date : Nat × Nat × Nat) :
    v1Bump old fl date =
      Except.bind (pyNextId (v1BumpCal old fl date).bid) (fun b =>
        if fl.tagNum then .error .notImplemented
        else .ok (v1ApplyFlags { v1BumpCal old fl date with bid := b } fl)) := by
  unfold v1Bump pyNextId
  by_cases hd : isDigitStr (v1BumpCal old fl date).bid = true
  · simp only [hd, Bool.not_true, Bool.false_eq_true, if_false]
    cases nextId (v1BumpCal old fl date).bid <;> rfl
  · simp [hd, v1_ebind_error]

theorem tie_v1Incr (old raw : Str) (major minor patch : Bool) (tag : Option Str) (tagNum pinDate : Bool)
    (maybeDate : Option (Nat × Nat × Nat)) (today : Nat × Nat × Nat) :
    GenV1.v1Incr old raw major minor patch tag tagNum pinDate maybeDate today =
      v1Incr old raw { major := major, minor := minor, patch := patch, tag := tag, tagNum := tagNum, pinDate := pinDate }
        (maybeDate.getD today) := by
  unfold GenV1.v1Incr v1Incr
  simp (config := {zeta := false}) only [bind, pure, Except.pure, v1Bump_eq_bind, v1_ebind_assoc]
  cases v1ParseVersionInfo old raw with
  | error e => cases e <;> rfl
  | ok v =>
    simp only [v1_ebind_ok, v1BumpCal, pyCalInfo]
    cases pinDate <;> rcases maybeDate with _ | d <;>
      simp only [if_true, if_false, Bool.false_eq_true, Option.getD_none, Option.getD_some] <;>
      refine v1_ebind_congr rfl (fun b => ?_) <;>
      cases tagNum <;> (try rfl) <;>
      simp only [if_false, Bool.false_eq_true, v1_ebind_ok] <;>
      refine v1_ebind_congr (congrArg (fun x => v1FormatVersion x raw) ?_)
        (fun s => by first | rfl | (by_cases h : s = old <;> simp [h])) <;>
      unfold v1ApplyFlags <;>
      cases major <;> cases minor <;> cases patch <;> rcases tag with _ | _ | ⟨c, t⟩ <;>
      first | rfl | simp [Nat.add_comm]

/-- `maybe_date=None`: the bump date is `version.TODAY` -/
theorem tie_v1Incr_today (old raw : Str) (major minor patch : Bool) (tag : Option Str) (tagNum pinDate : Bool)
    (today : Nat × Nat × Nat) :
    GenV1.v1Incr old raw major minor patch tag tagNum pinDate none today =
      v1Incr old raw { major := major, minor := minor, patch := patch, tag := tag, tagNum := tagNum, pinDate := pinDate }
        today := tie_v1Incr old raw major minor patch tag tagNum pinDate none today

end BV
