/-
  Proofs/Tie_writeContent.lean — the definition GENERATED from the Python source of
  `config.write_content` (Gen/F_writeContent.lean) equals the hand model: the text of
  `defaultConfigText`, appended to the picked file by `BV.writeContent` (a leading "\n" when the file
  exists, every other file untouched).  The generated definition returns the file system after
  `with ctx.config_filepath.open(mode="at") as fobj: fobj.write(cfg_content)` (`Py.fsAppend`);
  `print(...)` is not modelled.  Hypothesis `hfmt` as in Tie_defaultConfig.lean.
-/
import BumpverVerif.Gen.F_writeContent
import BumpverVerif.Proofs.Tie_defaultConfig
set_option linter.unusedSimpArgs false
namespace BV
open TieH
open GenF

theorem tie_writeContent (iv : Str) (fs : ProjFS) (ctx : Cfg.ProjectContext)
    (hfmt : ctx.config_format = configFormat ctx.config_filepath) :
    GenF.writeContent iv fs ctx =
      ((defaultConfigText (worldOf fs) ctx.config_filepath iv).mapError InitErr.pyClass).map
        (fun text => writeContent fs ctx.config_filepath text) := by
  unfold GenF.writeContent
  rw [tie_defaultConfig iv fs ctx hfmt]
  rcases defaultConfigText (worldOf fs) ctx.config_filepath iv with e | text <;>
    simp only [Except.mapError, Except.map]
  congr 1
  unfold Py.fsAppend writeContent
  funext f
  rcases h : fs ctx.config_filepath with _ | old <;> simp

end BV
